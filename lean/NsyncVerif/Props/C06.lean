import NsyncVerif.Props.C05Mu
import NsyncVerif.Proofs.MuCInv5Reach
import NsyncVerif.Proofs.MuCRing
/-!
# C06 — conditional critical sections

Model: `NsyncVerif.Model.MuC`.  See the header of `Props/C05Mu.lean` for the conventions.

What is machine-checked here (all for `Reachable cfg s`, i.e. every program, interleaving, thread
count, clock; both semaphore flavours)
* `C06_cond_under_lock`  every accepted `cond` evaluation is made by a thread that owns a share of the
                         mutex (own share inside mu_wait, or the writer bit — incl. the temporary
                         writer lock of unlock_slow); no OTHER thread owns the writer bit, hence none is
                         in a write critical section; the condition is the one the model prescribes
                         (for unlock_slow: the head of `new_waiters` after the skips the same_condition
                         rings allow) and the logged result is its value on the model's data.
* `C06_inv_lock`, `C06_inv_spin`, `C06_inv_queue`
                         the invariants (I_lock) (I_spin) (I_queue) re-proved for the extended model
                         (conditions, timeouts, self-removal, unlock_without_wakeup, private lists of
                         an unlocker that releases the spinlock while it evaluates).
* `C06_hint_partial`     MU_CONDITION clear ⇒ no queued waiter (mu->waiters or an unlocker's private
                         lists) has a condition.
* `C06_samecond_ring_full_refuted`
                         the "exactly the maximal runs" reading of the ring invariant is FALSE for the
                         code (witness: harness execution `traceNotMaximal`); the direction the skip of
                         unlock_slow needs is stated as `C06_samecond_ring_sound_full` (not proved).
* `C06_samecond_ring_partial`
                         given that ring invariant for the list being scanned, skip_past_same_condition
                         passes only over waiters whose conditions denote the same predicate as the
                         one just found false (pure fact about the transcription).
* witnesses (`decide` on accepted traces of the real library): two eq-equivalent waiters woken by one
  nsync_mu_unlock; the reader-mode timeout under a writer (the F6 path of mu_wait.c) with the fresh
  reader acquiring, and the acceptor rejecting the store of the unfixed code; unlock_without_wakeup
  leaving a false-condition waiter asleep on its MU_ALL_FALSE fast path.

NOT proved (statements kept as `def …_full : Prop`):
* `C06_hint_full` second half (MU_ALL_FALSE ⇒ every queued waiter has a false condition, when nobody
  owns spinlock or writer bit and the contract of unlock_without_wakeup was kept).  Needs
  `C06_samecond_ring_sound_full` (the skip is sound) and an invariant that carries "all false" through
  write sections that end with unlock_without_wakeup and through mu_try_acquire_after_timeout_or_cancel.
* `C06_samecond_ring_sound_full`, `C06_no_missed_cond_full`, `C06_no_stuck_state_full`,
  `C06_without_wakeup_sound_full`.
  For these the evidence is the correspondence check: ≥ 6000 harness executions of the families
  `muwait` / `muc` accepted with zero REJECT, in which the acceptor recomputes every skip (it prescribes
  WHICH condition is evaluated next) and the harness oracles `stuck`, `muwait-result`,
  `cond-under-lock` never fired; the mutants (a)–(d) of the tie are rejected.

Findings
* WAIT_CONDITION_EQ is asymmetric (only its first argument's `eq` is consulted): rings are not maximal
  runs (see above); harmless for correctness, costs evaluations.
* skip_past_same_condition does not skip when the ring is the whole list (`last == p->prev`): the second
  member is evaluated again (`traceEqPair`, events 32-33).
* After a timed-out waiter has removed itself from the queue (mu_wait.c:100-109) MU_WAITING,
  MU_CONDITION and MU_ALL_FALSE can stay set on a free mutex with an EMPTY queue (word 148 at the
  end of `traceReaderTimeout`): "MU_WAITING indicates whether the waiter queue is non-empty"
  (common.h:116) holds only in the direction queue non-empty ⇒ bit set.  Harmless: the next
  nsync_mu_unlock takes the slow path, finds nothing and clears the bits.
-/
namespace NsyncVerif.MuC

/-! ## a condition is only evaluated under the lock -/

/-- Every evaluation of a wait condition the acceptor accepts is made by a thread `t` that owns a
    share of the mutex — its own share inside nsync_mu_wait_with_deadline (`mwEval`, mode `c.l`), or
    the writer bit inside nsync_mu_unlock_slow_ (`usEval`: the caller's writer lock, or the temporary
    writer lock of mu.c:285-301) — while no other thread owns the writer bit, in particular no other
    thread is inside a write critical section (`held u = some .W`); the condition evaluated is the
    one the model prescribes and the logged result is its value on the model's data. -/
theorem C06_cond_under_lock {cfg : Cfg} {s s' : State} {t : Tid} {fn : CFn} {k : Nat} {res : Bool}
    (hr : Reachable cfg s) (h : step cfg s (.cond t fn k res) = .ok s') :
    ((∃ c, s.pc t = .mwEval c ∧ shareOf s t = some c.l) ∨
     (∃ r sc, s.pc t = .usEval r sc ∧ shareOf s t = some .W ∧ s.wOwner = some t ∧ s.word.wlock = true)) ∧
    (∀ u, u ≠ t → s.held u ≠ some .W ∧ shareOf s u ≠ some .W) ∧
    (∃ c : Cond, c.fn = fn ∧ c.k = k ∧ res = evalCond s.data c ∧
      ((∃ m, s.pc t = .mwEval m ∧ m.cond = some c) ∨
       (∃ r sc w rest, s.pc t = .usEval r sc ∧ sc.todo = w :: rest ∧ (s.wr w).cond = some c))) := by
  have inv := reachable_inv1 hr
  simp only [step, stepCond] at h
  have others : ∀ m, shareOf s t = some m → ∀ u, u ≠ t → s.held u ≠ some .W ∧ shareOf s u ≠ some .W := by
    intro m hm u hu
    have h2 : shareOf s u ≠ some .W := by
      intro hw
      exact hu (inv.lock.writer_alone hw (by rw [hm]; simp)).symm
    refine ⟨?_, h2⟩
    intro hh
    apply h2
    simp [shareOf, tshare, hh]
  split at h
  · rename_i c heq
    have hsh : shareOf s t = some c.l := by rw [inv.share_eq (by rw [heq]; simp), heq]; rfl
    refine ⟨Or.inl ⟨c, heq, hsh⟩, others _ hsh, ?_⟩
    split at h
    · cases h
    · rename_i cd hcd
      split at h
      · cases h
      · split at h
        · cases h
        · rename_i h1 h2
          simp only [not_or, Decidable.not_not] at h1 h2
          exact ⟨cd, h1.1, h1.2, h2, Or.inl ⟨c, heq, hcd⟩⟩
  · rename_i r sc heq
    have hok := inv.pcok t; rw [heq] at hok
    have hlate : sc.late = true := hok.2.1 hok.2.2.1
    have hsh : shareOf s t = some .W := by rw [inv.share_eq (by rw [heq]; simp), heq]; simp [pcShare, hlate]
    have hown := (inv.lock.wown t).2 hsh
    have hwl : s.word.wlock = true := by rw [inv.lock.wl, hown]; rfl
    refine ⟨Or.inr ⟨r, sc, heq, hsh, hown, hwl⟩, others _ hsh, ?_⟩
    split at h
    · cases h
    · rename_i w rest htodo
      split at h
      · cases h
      · rename_i cd hcd
        split at h
        · cases h
        · split at h
          · cases h
          · rename_i h1 h2
            simp only [not_or, Decidable.not_not] at h1 h2
            exact ⟨cd, h1.1, h1.2, h2, Or.inr ⟨r, sc, w, rest, heq, htodo, hcd⟩⟩
  · cases h

/-! ## witnesses: accepted traces of the real library (harness executions, converted by the driver) -/

def stateAfter (cfg : Cfg) (evs : List Event) (f : State → Bool) : Bool :=
  match run cfg init evs with
  | .ok s => f s
  | .error _ => false

/-- Two reader-mode waiters with EQUIVALENT conditions (c2, then c1: same function, different
    argument objects, condition_arg_eq says equal) and one setter.  Thread 0's own unlock_slow
    (events 27-42) evaluates BOTH although they form one same_condition ring: the ring is the whole
    list, the case `last_with_same_condition == p->prev` of skip_past_same_condition.  The setter's
    single nsync_mu_unlock (events 45-65) evaluates c2 (true), c1 (true) and wakes both. -/
def traceEqPair : List Event := [
 .call 1 .rlock,
 .cas 1 .acq .word 0 256 0 true,
 .ret 1 .rlock .void,
 .call 1 (.wait (some { fn := .eq, k := 2, var := 0, val := 1, hasEq := true }) none false),
 .ld 1 .rlx .word 256,
 .cond 1 .eq 2 false,
 .st 1 .rlx (.waiting 0) 1 0,
 .ld 1 .rlx (.rc 0) 0,
 .ld 1 .rlx .word 256,
 .cas 1 .acq .word 256 278 256 true,
 .ld 1 .rlx .word 278,
 .cas 1 .rel .word 278 20 278 true,
 .ld 1 .acq (.waiting 0) 1,
 .semPdEnter 1 0 none,
 .call 0 .rlock,
 .cas 0 .acq .word 0 256 20 false,
 .ld 0 .rlx .word 20,
 .cas 0 .acq .word 20 276 20 true,
 .ret 0 .rlock .void,
 .call 0 (.wait (some { fn := .eq, k := 1, var := 0, val := 1, hasEq := true }) none false),
 .ld 0 .rlx .word 276,
 .cond 0 .eq 1 false,
 .st 0 .rlx (.waiting 1) 1 0,
 .ld 0 .rlx (.rc 1) 0,
 .ld 0 .rlx .word 276,
 .cas 0 .acq .word 276 278 276 true,
 .ld 0 .rlx .word 278,
 .cas 0 .rel .word 278 276 278 true,
 .ld 0 .rlx .word 276,
 .cas 0 .ar .word 276 31 276 true,
 .ld 0 .rlx .word 31,
 .cas 0 .rel .word 31 29 31 true,
 .cond 0 .eq 2 false,
 .cond 0 .eq 1 false,
 .ld 0 .rlx .word 29,
 .cas 0 .acq .word 29 31 29 true,
 .ld 0 .rlx .word 31,
 .cas 0 .rel .word 31 148 31 true,
 .call 2 .lock,
 .cas 2 .acq .word 0 1 148 false,
 .ld 2 .rlx .word 148,
 .cas 2 .acq .word 148 149 148 true,
 .ret 2 .lock .void,
 .dataW 2 0 1,
 .call 2 .unlock,
 .cas 2 .rel .word 1 0 149 false,
 .ld 2 .rlx .word 149,
 .ld 2 .rlx .word 149,
 .cas 2 .ar .word 149 159 149 true,
 .ld 2 .rlx .word 159,
 .cas 2 .rel .word 159 157 159 true,
 .cond 2 .eq 2 true,
 .ld 2 .rlx (.rc 0) 0,
 .cas 2 .rlx (.rc 0) 0 1 0 true,
 .cond 2 .eq 1 true,
 .ld 2 .rlx (.rc 1) 0,
 .cas 2 .rlx (.rc 1) 0 1 0 true,
 .ld 2 .rlx .word 157,
 .cas 2 .acq .word 157 159 157 true,
 .ld 2 .rlx .word 159,
 .cas 2 .rel .word 159 8 159 true,
 .st 2 .rel (.waiting 0) 0 1,
 .semV 2 0,
 .st 2 .rel (.waiting 1) 0 1,
 .semV 2 1,
 .ret 2 .unlock .void,
 .semPdRet 1 0 false,
 .ld 1 .rlx (.waiting 0) 0,
 .ld 1 .acq (.waiting 0) 0,
 .ld 0 .acq (.waiting 1) 0,
 .ld 0 .rlx .word 8,
 .cas 0 .acq .word 8 256 8 true,
 .cond 0 .eq 1 true,
 .ret 0 (.wait (some { fn := .eq, k := 1, var := 0, val := 1, hasEq := true }) none false) (.outc (.ok)),
 .call 0 .runlock,
 .cas 0 .rel .word 256 0 256 true,
 .ret 0 .runlock .void,
 .ld 1 .rlx .word 0,
 .cas 1 .acq .word 0 256 0 true,
 .cond 1 .eq 2 true,
 .ret 1 (.wait (some { fn := .eq, k := 2, var := 0, val := 1, hasEq := true }) none false) (.outc (.ok)),
 .call 1 .runlock,
 .cas 1 .rel .word 256 0 256 true,
 .ret 1 .runlock .void
]
example : accepts ⟨false⟩ traceEqPair = true ∧ accepts ⟨true⟩ traceEqPair = true := by decide
/-- before the setter arrives both are queued in one ring (`lnk` of the first is set) -/
example : stateAfter ⟨false⟩ (traceEqPair.take 42) (fun s => s.queue == [0, 1] && (s.wr 0).lnk && !(s.wr 1).lnk
    && (s.wr 0).cond != (s.wr 1).cond && condEq (s.wr 0).cond (s.wr 1).cond) = true := by decide
/-- after the setter's unlock has returned nobody is queued and both have been released -/
example : stateAfter ⟨false⟩ (traceEqPair.take 66) (fun s => s.queue == [] && !(s.wr 0).waiting && !(s.wr 1).waiting
    && (s.wr 0).sem == 1 && (s.wr 1).sem == 1) = true := by decide

/-- A reader-mode waiter (thread 0) times out while a WRITER (thread 1) holds the mutex: it sets
    MU_WRITER_WAITING (event 23: 21 → 53), the writer's unlock_slow finds its condition false and
    leaves MU_ALL_FALSE|MU_WRITER_WAITING (180), the waiter acquires writer bit and spinlock (180 → 151,
    which clears MU_WRITER_WAITING), removes itself and converts to a reader lock with the release
    store of mu_wait.c:108.  The value stored is 404 = (180 & ~MU_WRITER_WAITING) + MU_RLOCK; the
    unfixed code stored 436 (bit put back), after which the last runlock took the MU_ALL_FALSE fast
    path and the fresh reader (thread 2, events 54-58) would have slept for ever (defect F6). -/
def traceReaderTimeout : List Event := [
 .call 0 .rlock,
 .cas 0 .acq .word 0 256 0 true,
 .ret 0 .rlock .void,
 .call 0 (.wait (some { fn := .eq, k := 0, var := 0, val := 1, hasEq := false }) (some 1000000001000) false),
 .ld 0 .rlx .word 256,
 .cond 0 .eq 0 false,
 .st 0 .rlx (.waiting 0) 1 0,
 .ld 0 .rlx (.rc 0) 0,
 .ld 0 .rlx .word 256,
 .cas 0 .acq .word 256 278 256 true,
 .ld 0 .rlx .word 278,
 .cas 0 .rel .word 278 20 278 true,
 .ld 0 .acq (.waiting 0) 1,
 .semPdEnter 0 0 (some 1000000001000),
 .call 1 .lock,
 .cas 1 .acq .word 0 1 20 false,
 .tick 1000000001000,
 .ld 1 .rlx .word 20,
 .cas 1 .acq .word 20 21 20 true,
 .ret 1 .lock .void,
 .semPdRet 0 0 true,
 .ld 0 .rlx (.waiting 0) 1,
 .ld 0 .rlx .word 21,
 .cas 0 .ar .word 21 53 21 true,
 .call 1 .unlock,
 .cas 1 .rel .word 1 0 53 false,
 .ld 1 .rlx .word 53,
 .ld 1 .rlx .word 53,
 .cas 1 .ar .word 53 63 53 true,
 .ld 1 .rlx .word 63,
 .cas 1 .rel .word 63 61 63 true,
 .cond 1 .eq 0 false,
 .ld 1 .rlx .word 61,
 .cas 1 .acq .word 61 63 61 true,
 .ld 1 .rlx .word 63,
 .cas 1 .rel .word 63 180 63 true,
 .ret 1 .unlock .void,
 .ld 0 .rlx .word 180,
 .cas 0 .acq .word 180 151 180 true,
 .ld 0 .rlx (.waiting 0) 1,
 .ld 0 .rlx (.rc 0) 0,
 .ld 0 .rlx (.rc 0) 0,
 .cas 0 .rlx (.rc 0) 0 1 0 true,
 .st 0 .rlx (.waiting 0) 0 1,
 .st 0 .rel .word 404 151,
 .ld 0 .rlx (.waiting 0) 0,
 .ld 0 .acq (.waiting 0) 0,
 .cond 0 .eq 0 false,
 .ret 0 (.wait (some { fn := .eq, k := 0, var := 0, val := 1, hasEq := false }) (some 1000000001000) false) (.outc (.timedout)),
 .call 0 .runlock,
 .cas 0 .rel .word 256 0 404 false,
 .ld 0 .rlx .word 404,
 .cas 0 .rel .word 404 148 404 true,
 .ret 0 .runlock .void,
 .call 2 .rlock,
 .cas 2 .acq .word 0 256 148 false,
 .ld 2 .rlx .word 148,
 .cas 2 .acq .word 148 404 148 true,
 .ret 2 .rlock .void,
 .call 2 .runlock,
 .cas 2 .rel .word 256 0 404 false,
 .ld 2 .rlx .word 404,
 .cas 2 .rel .word 404 148 404 true,
 .ret 2 .runlock .void
]
example : accepts ⟨false⟩ traceReaderTimeout = true := by decide
/-- the acceptor rejects the store of the unfixed code -/
example : accepts ⟨false⟩ (traceReaderTimeout.take 44 ++ [.st 0 .rel .word 436 151]) = false := by decide
/-- the fresh reader acquires; at the end the mutex is free, nobody is queued — and the word is 148:
    MU_WAITING|MU_CONDITION|MU_ALL_FALSE are left set by the self-removal (harmless: cleared by the
    next unlock_slow; the documented "MU_WAITING ⇔ queue non-empty" only holds in the direction ⇐). -/
example : stateAfter ⟨false⟩ traceReaderTimeout (fun s => s.queue == [] && encode s.word == 148
    && s.wOwner == none && s.rOwners == []) = true := by decide

/-- nsync_mu_unlock_without_wakeup leaves a waiter whose condition is false asleep: the first such
    release (events 20-32) scans, finds the condition false and sets MU_ALL_FALSE; the second
    (events 39-43) takes the fast path — 4 events, no evaluation, nobody woken; the waiter is woken by
    the nsync_mu_unlock of the section that makes its condition true (events 50-66). -/
def traceNoWakeup : List Event := [
 .call 0 .lock,
 .cas 0 .acq .word 0 1 0 true,
 .ret 0 .lock .void,
 .call 0 (.wait (some { fn := .eq, k := 0, var := 0, val := 1, hasEq := false }) none false),
 .ld 0 .rlx .word 1,
 .cond 0 .eq 0 false,
 .st 0 .rlx (.waiting 0) 1 0,
 .ld 0 .rlx (.rc 0) 0,
 .ld 0 .rlx .word 1,
 .cas 0 .acq .word 1 23 1 true,
 .ld 0 .rlx .word 23,
 .cas 0 .rel .word 23 20 23 true,
 .ld 0 .acq (.waiting 0) 1,
 .semPdEnter 0 0 none,
 .call 1 .lock,
 .cas 1 .acq .word 0 1 20 false,
 .ld 1 .rlx .word 20,
 .cas 1 .acq .word 20 21 20 true,
 .ret 1 .lock .void,
 .dataW 1 2 5,
 .call 1 .unlockNw,
 .cas 1 .rel .word 1 0 21 false,
 .ld 1 .rlx .word 21,
 .ld 1 .rlx .word 21,
 .cas 1 .ar .word 21 31 21 true,
 .ld 1 .rlx .word 31,
 .cas 1 .rel .word 31 29 31 true,
 .cond 1 .eq 0 false,
 .ld 1 .rlx .word 29,
 .cas 1 .acq .word 29 31 29 true,
 .ld 1 .rlx .word 31,
 .cas 1 .rel .word 31 148 31 true,
 .ret 1 .unlockNw .void,
 .call 1 .lock,
 .cas 1 .acq .word 0 1 148 false,
 .ld 1 .rlx .word 148,
 .cas 1 .acq .word 148 149 148 true,
 .ret 1 .lock .void,
 .dataW 1 2 6,
 .call 1 .unlockNw,
 .cas 1 .rel .word 1 0 149 false,
 .ld 1 .rlx .word 149,
 .cas 1 .rel .word 149 148 149 true,
 .ret 1 .unlockNw .void,
 .call 1 .lock,
 .cas 1 .acq .word 0 1 148 false,
 .ld 1 .rlx .word 148,
 .cas 1 .acq .word 148 149 148 true,
 .ret 1 .lock .void,
 .dataW 1 0 1,
 .call 1 .unlock,
 .cas 1 .rel .word 1 0 149 false,
 .ld 1 .rlx .word 149,
 .ld 1 .rlx .word 149,
 .cas 1 .ar .word 149 159 149 true,
 .ld 1 .rlx .word 159,
 .cas 1 .rel .word 159 157 159 true,
 .cond 1 .eq 0 true,
 .ld 1 .rlx (.rc 0) 0,
 .cas 1 .rlx (.rc 0) 0 1 0 true,
 .ld 1 .rlx .word 157,
 .cas 1 .acq .word 157 159 157 true,
 .ld 1 .rlx .word 159,
 .cas 1 .rel .word 159 8 159 true,
 .st 1 .rel (.waiting 0) 0 1,
 .semV 1 0,
 .ret 1 .unlock .void,
 .semPdRet 0 0 false,
 .ld 0 .rlx (.waiting 0) 0,
 .ld 0 .acq (.waiting 0) 0,
 .ld 0 .rlx .word 8,
 .cas 0 .acq .word 8 1 8 true,
 .cond 0 .eq 0 true,
 .ret 0 (.wait (some { fn := .eq, k := 0, var := 0, val := 1, hasEq := false }) none false) (.outc (.ok)),
 .call 0 .unlock,
 .cas 0 .rel .word 1 0 1 true,
 .ret 0 .unlock .void
]
example : accepts ⟨false⟩ traceNoWakeup = true ∧ accepts ⟨true⟩ traceNoWakeup = true := by decide
example : stateAfter ⟨false⟩ (traceNoWakeup.take 44) (fun s => s.queue == [0] && (s.wr 0).waiting && s.word.af
    && !s.nwViol && !evalOpt s.data (s.wr 0).cond && (s.wr 0).sem == 0) = true := by decide

/-! ## statements about the queue, the same_condition rings and the hint bits -/

/-- No unlocker is in the middle of a scan when nobody owns the spinlock or the writer bit. -/
theorem not_midScan {cfg : Cfg} {s : State} (hr : Reachable cfg s) (hsp : s.sp = none) (hw : s.wOwner = none) :
    ¬ MidScan s := by
  rintro ⟨u, sc, hsc⟩
  have inv1 := reachable_inv1 hr
  have inv3 := reachable_inv3 hr
  have hok := inv1.pcok u
  have hok3 := inv3.ok3 u
  have hspin : (s.pc u).spin = false := by
    cases hsp' : (s.pc u).spin with
    | false => rfl
    | true => have := (inv3.own u).2 hsp'; rw [hsp] at this; cases this
  have hshare : shareOf s u ≠ some .W := by
    intro e; have := (inv1.lock.wown u).2 e; rw [hw] at this; cases this
  have hse := inv1.share_eq (t := u)
  have key : ∀ sc' : Scan, pcShare (s.pc u) = (if sc'.late then some .W else none) → sc'.ok →
      ((s.pc u).spin = !sc'.tc ∨ (s.pc u).spin = true ∨ sc'.tc = true) → s.pc u ≠ .idle → False := by
    intro sc' h1 h2 h3 h4
    have hs := hse h4
    rw [h1] at hs
    cases hl : sc'.late with
    | true => rw [hl] at hs; exact hshare (by simpa using hs)
    | false =>
      have htc : sc'.tc = false := by
        cases ht : sc'.tc with
        | false => rfl
        | true => have := h2 ht; rw [hl] at this; cases this
      rcases h3 with h3 | h3 | h3
      · rw [hspin, htc] at h3; cases h3
      · rw [hspin] at h3; cases h3
      · rw [htc] at h3; cases h3
  cases hpc : s.pc u <;> rw [hpc] at hsc <;> simp [PC.scan?] at hsc <;> subst hsc <;>
    rw [hpc] at hok hok3 key
  case usRelLd r sc0 => exact key sc0 rfl hok.2 (Or.inr (Or.inl rfl)) (by simp)
  case usRelCas r sc0 old => exact key sc0 rfl hok.2 (Or.inr (Or.inl rfl)) (by simp)
  case usEval r sc0 => exact key sc0 rfl hok.2.1 (Or.inr (Or.inr hok.2.2.1)) (by simp)
  case usRcLd r sc0 k => exact key sc0 rfl hok.2 (Or.inl rfl) (by simp)
  case usRcCas r sc0 k old => exact key sc0 rfl hok.2 (Or.inl rfl) (by simp)
  case usReLd r sc0 => exact key sc0 rfl hok.2 (Or.inr (Or.inr hok3)) (by simp)
  case usReCas r sc0 old => exact key sc0 rfl hok.2 (Or.inr (Or.inr hok3.2)) (by simp)

/-- The literal statement "the same_condition groups are exactly the maximal runs of adjacent waiters
    with WAIT_CONDITION_EQ-equal conditions": FALSE for the code (`C06_samecond_ring_full_refuted`).
    nsync_remove_from_mu_queue_ re-merges the neighbours only when the removed element was alone in
    its ring (mu.c:250-258); WAIT_CONDITION_EQ is not symmetric (it consults only its first
    argument's `eq`), so a ring c1–c0 (c1 has an eq function, c0 has none) followed by c2 (eq function,
    equivalent) is legal, and removing c0 leaves c1, c2 adjacent, equal and unmerged. -/
def C06_samecond_ring_full : Prop :=
  ∀ (cfg : Cfg) (s : State), Reachable cfg s → s.sp = none → ¬ MidScan s →
    groupsOf s.wr s.queue = runsOf s.wr s.queue

/-- Three writer-mode waiters queue with conditions c1 (eq), c0 (no eq function), c2 (eq) on the same
    (variable, value); c0's wait times out and removes itself (events 62-76), returns ETIMEDOUT and unlocks (81-94:
    its unlock_slow finds both remaining conditions false). -/
def traceNotMaximal : List Event := [
 .call 0 .lock,
 .cas 0 .acq .word 0 1 0 true,
 .ret 0 .lock .void,
 .call 0 (.wait (some { fn := .eq, k := 1, var := 0, val := 1, hasEq := true }) none false),
 .ld 0 .rlx .word 1,
 .cond 0 .eq 1 false,
 .st 0 .rlx (.waiting 0) 1 0,
 .ld 0 .rlx (.rc 0) 0,
 .ld 0 .rlx .word 1,
 .cas 0 .acq .word 1 23 1 true,
 .ld 0 .rlx .word 23,
 .cas 0 .rel .word 23 20 23 true,
 .ld 0 .acq (.waiting 0) 1,
 .semPdEnter 0 0 none,
 .call 1 .lock,
 .cas 1 .acq .word 0 1 20 false,
 .ld 1 .rlx .word 20,
 .cas 1 .acq .word 20 21 20 true,
 .ret 1 .lock .void,
 .call 1 (.wait (some { fn := .eq, k := 0, var := 0, val := 1, hasEq := false }) (some 1000000001000) false),
 .ld 1 .rlx .word 21,
 .cond 1 .eq 0 false,
 .st 1 .rlx (.waiting 1) 1 0,
 .ld 1 .rlx (.rc 1) 0,
 .ld 1 .rlx .word 21,
 .cas 1 .acq .word 21 23 21 true,
 .ld 1 .rlx .word 23,
 .cas 1 .rel .word 23 21 23 true,
 .ld 1 .rlx .word 21,
 .cas 1 .ar .word 21 31 21 true,
 .ld 1 .rlx .word 31,
 .cas 1 .rel .word 31 29 31 true,
 .cond 1 .eq 1 false,
 .cond 1 .eq 0 false,
 .ld 1 .rlx .word 29,
 .cas 1 .acq .word 29 31 29 true,
 .ld 1 .rlx .word 31,
 .cas 1 .rel .word 31 148 31 true,
 .call 2 .lock,
 .cas 2 .acq .word 0 1 148 false,
 .ld 2 .rlx .word 148,
 .cas 2 .acq .word 148 149 148 true,
 .ret 2 .lock .void,
 .call 2 (.wait (some { fn := .eq, k := 2, var := 0, val := 1, hasEq := true }) none false),
 .ld 2 .rlx .word 149,
 .cond 2 .eq 2 false,
 .st 2 .rlx (.waiting 2) 1 0,
 .ld 2 .rlx (.rc 2) 0,
 .ld 2 .rlx .word 149,
 .cas 2 .acq .word 149 23 149 true,
 .ld 2 .rlx .word 23,
 .cas 2 .rel .word 23 21 23 true,
 .ld 2 .rlx .word 21,
 .cas 2 .ar .word 21 31 21 true,
 .ld 2 .rlx .word 31,
 .cas 2 .rel .word 31 29 31 true,
 .cond 2 .eq 1 false,
 .cond 2 .eq 2 false,
 .ld 2 .rlx .word 29,
 .cas 2 .acq .word 29 31 29 true,
 .ld 2 .rlx .word 31,
 .cas 2 .rel .word 31 148 31 true,
 .ld 2 .acq (.waiting 2) 1,
 .semPdEnter 2 2 none,
 .ld 1 .acq (.waiting 1) 1,
 .semPdEnter 1 1 (some 1000000001000),
 .tick 1000000001000,
 .semPdRet 1 1 true,
 .ld 1 .rlx (.waiting 1) 1,
 .ld 1 .rlx .word 148,
 .cas 1 .acq .word 148 151 148 true,
 .ld 1 .rlx (.waiting 1) 1,
 .ld 1 .rlx (.rc 1) 0,
 .ld 1 .rlx (.rc 1) 0,
 .cas 1 .rlx (.rc 1) 0 1 0 true,
 .st 1 .rlx (.waiting 1) 0 1,
 .st 1 .rel .word 149 151,
 .ld 1 .rlx (.waiting 1) 0,
 .ld 1 .acq (.waiting 1) 0,
 .cond 1 .eq 0 false,
 .ret 1 (.wait (some { fn := .eq, k := 0, var := 0, val := 1, hasEq := false }) (some 1000000001000) false) (.outc (.timedout)),
 .call 1 .unlock,
 .cas 1 .rel .word 1 0 149 false,
 .ld 1 .rlx .word 149,
 .ld 1 .rlx .word 149,
 .cas 1 .ar .word 149 159 149 true,
 .ld 1 .rlx .word 159,
 .cas 1 .rel .word 159 157 159 true,
 .cond 1 .eq 1 false,
 .cond 1 .eq 2 false,
 .ld 1 .rlx .word 157,
 .cas 1 .acq .word 157 159 157 true,
 .ld 1 .rlx .word 159,
 .cas 1 .rel .word 159 148 159 true,
 .ret 1 .unlock .void
]
example : accepts ⟨false⟩ traceNotMaximal = true := by decide
example : stateAfter ⟨false⟩ (traceNotMaximal.take 60) (fun s => s.queue == [0, 1, 2] && (s.wr 0).lnk && !(s.wr 1).lnk) = true := by
  decide

def notMaximalCheck : Bool :=
  match run ⟨false⟩ init traceNotMaximal with
  | .ok s => s.sp == none && s.wOwner == none && s.queue == [0, 2] && !(s.wr 0).lnk && !(s.wr 2).lnk
      && condEq (s.wr 0).cond (s.wr 2).cond && condEq (s.wr 2).cond (s.wr 0).cond
  | .error _ => false

theorem C06_samecond_ring_full_refuted : ¬ C06_samecond_ring_full := by
  intro h
  have key : notMaximalCheck = true := by decide
  unfold notMaximalCheck at key
  split at key
  · rename_i s hs
    simp only [Bool.and_eq_true, beq_iff_eq, Bool.not_eq_true'] at key
    obtain ⟨⟨⟨⟨⟨⟨h1, h2⟩, h3⟩, h4⟩, h5⟩, h6⟩, h7⟩ := key
    have hr : Reachable ⟨false⟩ s := ⟨_, hs⟩
    have := h ⟨false⟩ s hr h1 (not_midScan hr h1 h2)
    rw [h3] at this
    simp [groupsOf, runsOf, h4, h6] at this
  · cases key

/-- The direction the code guarantees (and the one the skip of unlock_slow needs): on every list of
    waiters (`Chain`, Proofs/MuCRing.lean) a record the model links to its successor has a condition
    that denotes the same predicate as the successor's, and the last record is not linked — so all
    members of a ring have the same truth value.  NOT proved as an invariant. -/
def C06_samecond_ring_sound_full : Prop :=
  ∀ (cfg : Cfg) (s : State), Reachable cfg s →
    Chain s.wr s.queue ∧
    ∀ u sc, (s.pc u).scan? = some sc → Chain s.wr sc.done ∧ Chain s.wr (sc.passed ++ sc.todo)

/-- What IS proved about the rings: under the ring invariant of the list being scanned, the skip of
    unlock_slow (mu.c:369-372, `skipPast`) passes only over waiters whose conditions denote the same
    predicate as the condition just evaluated; if that was false on the current data, so are theirs.
    (A fact about the transcription of skip_past_same_condition, for arbitrary record contents.) -/
theorem C06_samecond_ring_partial {wr : Wid → WRec} {passed rest : List Wid} {k : Wid} {data : Nat → Int}
    (hc : Chain wr (passed ++ k :: rest)) :
    (∃ skipped, (skipPast wr passed k rest).1 = passed ++ k :: skipped ∧
      skipped ++ (skipPast wr passed k rest).2 = rest ∧
      ∀ x, x ∈ skipped → SameSem (wr k).cond (wr x).cond) ∧
    (evalOpt data (wr k).cond = false →
      ∀ x, x ∈ (skipPast wr passed k rest).1 → x ∉ passed → evalOpt data (wr x).cond = false) :=
  ⟨skipPast_sound hc, skipPast_false hc⟩

/-- Meaning of MU_CONDITION and MU_ALL_FALSE (common.h:118-134). -/
def C06_hint_full : Prop :=
  ∀ (cfg : Cfg) (s : State), Reachable cfg s →
    (s.word.cond = false → ∀ k, Queued s k → (s.wr k).cond = none) ∧
    (s.word.af = true → s.sp = none → s.wOwner = none → WithoutWakeupContract s →
      ∀ k, Queued s k → ∃ c, (s.wr k).cond = some c ∧ evalCond s.data c = false)

/-- First half of `C06_hint_full`: MU_CONDITION clear ⇒ no waiter on mu->waiters or on the private
    lists of an unlocker has a condition ("illegal to fail to set it with such a waiter"). -/
theorem C06_hint_partial {cfg : Cfg} {s : State} (hr : Reachable cfg s) (hc : s.word.cond = false) :
    ∀ k, Queued s k → (s.wr k).cond = none := by
  intro k hk
  cases hcd : (s.wr k).cond with
  | none => rfl
  | some c =>
    have := (reachable_inv5 hr).h1 k hk (by rw [hcd]; simp)
    rw [hc] at this; cases this

/-! ## the invariants re-proved for the extended model (lock, spinlock, queue) -/

/-- (I_lock) the lock bits of the word are exactly the shares the threads own; the client-visible
    `held` is one of them; a writer is alone. -/
theorem C06_inv_lock {cfg : Cfg} {s : State} (hr : Reachable cfg s) :
    (∀ t, s.wOwner = some t ↔ shareOf s t = some .W) ∧ (∀ t, t ∈ s.rOwners ↔ shareOf s t = some .R) ∧
    s.rOwners.Nodup ∧ s.word.wlock = s.wOwner.isSome ∧ s.word.readers = s.rOwners.length ∧
    (s.word.wlock = true → s.word.readers = 0) ∧
    (∀ t m, s.held t = some m → shareOf s t = some m ∧ s.pc t = .idle) ∧
    (∀ t u, shareOf s t = some .W → shareOf s u ≠ none → u = t) := by
  have inv := reachable_inv1 hr
  refine ⟨inv.lock.wown, inv.lock.rown, inv.lock.nodup, inv.lock.wl, inv.lock.rd, inv.lock.excl, ?_, ?_⟩
  · intro t m hm
    exact ⟨by simp [shareOf, tshare, hm], inv.hidle t (by rw [hm]; simp)⟩
  · intro t u ht hu; exact inv.lock.writer_alone ht hu

/-- (I_spin) MU_SPINLOCK is set iff some thread owns it, and the owner is exactly the thread whose
    program point lies in a region that holds it. -/
theorem C06_inv_spin {cfg : Cfg} {s : State} (hr : Reachable cfg s) :
    (∀ t, s.sp = some t ↔ (s.pc t).spin = true) ∧ s.word.spin = s.sp.isSome :=
  ⟨(reachable_inv3 hr).own, (reachable_inv3 hr).bit⟩

/-- (I_queue) waiter records are owned by the threads that refer to them; at most one thread is
    between the grab CAS and the final CAS of unlock_slow; no record occurs twice on mu->waiters, the
    private lists and the wake list; everything queued has `waiting` set, as have the waiters an
    unlocker has removed and not yet released, which are on no list any more; wake lists of different
    threads are disjoint; MU_WAITING etc. are cleared by the final CAS exactly when the queue is empty. -/
theorem C06_inv_queue {cfg : Cfg} {s : State} (hr : Reachable cfg s) :
    (∀ t k, k ∈ (s.pc t).ws → (s.wr k).owner = some t) ∧
    (∀ t u, (s.pc t).unl = true → (s.pc u).unl = true → t = u) ∧
    (∀ t, (s.queue ++ (s.pc t).priv ++ (s.pc t).wakeL).Nodup) ∧
    (∀ k, Queued s k → (s.wr k).waiting = true) ∧
    (∀ t k, k ∈ (s.pc t).wakeL → (s.wr k).waiting = true ∧ ¬ Queued s k) ∧
    (∀ t u k, k ∈ (s.pc t).wakeL → k ∈ (s.pc u).wakeL → t = u) ∧
    (∀ t f, (s.pc t).finOf = some f → f.cEmpty = s.queue.isEmpty) := by
  have inv := reachable_inv4 hr
  exact ⟨inv.own, inv.uniq, inv.nd, inv.wait, inv.wk, inv.wkd, inv.finq⟩

/-- No waiter whose condition is true is left asleep when nobody is active. -/
def C06_no_missed_cond_full : Prop :=
  ∀ (cfg : Cfg) (s : State), Reachable cfg s → Quiescent s → WithoutWakeupContract s →
    ∀ k c, k ∈ s.queue → (s.wr k).cond = some c → evalCond s.data c = false

/-- With the contract of nsync_mu_unlock_without_wakeup respected, the only threads that can be
    asleep in a quiescent state are waiters whose conditions are false. -/
def C06_no_stuck_state_full : Prop :=
  ∀ (cfg : Cfg) (s : State), Reachable cfg s → Quiescent s → WithoutWakeupContract s →
    ∀ t, Asleep s t → ∃ c k cd, s.pc t = .mwPdRet c none ∧ c.w = some k ∧ k ∈ s.queue ∧
      (s.wr k).cond = some cd ∧ evalCond s.data cd = false

/-- When nsync_mu_unlock_without_wakeup releases on its fast path (no waiter is examined or woken),
    every queued waiter has a condition that was false when this write section began. -/
def C06_without_wakeup_sound_full : Prop :=
  ∀ (cfg : Cfg) (s s' : State) (t : Tid) (old : Word) (o : Ord) (loc : Loc) (exp new obs : Nat),
    Reachable cfg s → s.pc t = .ulCas1 .W true old →
    step cfg s (.cas t o loc exp new obs true) = .ok s' →
    ∀ k, Queued s k → ∃ c, (s.wr k).cond = some c ∧ evalCond s.secStart c = false

end NsyncVerif.MuC
