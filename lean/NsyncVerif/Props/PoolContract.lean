/-
  The waiter-pool contract (trusted-base item "a waiter struct handed out by nsync_waiter_new_ is
  used by exactly one call at a time, is initialised, and comes back only through
  nsync_waiter_free_"), proved for the model `Pool` of /repo/internal/common.c:139-229
  (`nsync_waiter_new_`, `nsync_waiter_free_`, `waiter_destroy`) at one-atomic-operation
  granularity, for any number of threads, any nesting of new/free pairs, any schedule.

  All theorems quantify over every reachable state (`Reachable s ↔ ∃ evs, run init evs = .ok s`).
  Everything stated here is proved in full (no `_partial`), with one scope restriction:

  * `malloc` returning NULL is REJECTED by the model (`Ev.mallocNull`, theorem
    `Pool_malloc_null_rejected`): common.c:195-197 dereferences the result unchecked
    (`w->tag = WAITER_TAG`).  Executions with a failed allocation are therefore outside these
    theorems (and outside property C19, by its quantifier).  Hence the name
    `Pool_no_leak_partial`: "no struct is lost" is proved for all executions in which every
    `malloc` of `nsync_waiter_new_` succeeds.

  Ghost vocabulary: `s.loc w` (where struct `w` is) is a ghost function; the theorems tie each
  of its values to the concrete representation (list, pcs, flag bits, per-thread slots) and —
  for `Loc.held` — to the trace (`Pool_held_by_trace`), so that no statement rests on the ghost
  alone.
-/
import NsyncVerif.Proofs.PoolNew

namespace Pool

/-! ### Pool_exclusive -/

/-- **Pool_exclusive (state form).**  The IN_USE bit is set exactly on the structs that are
    handed out; a struct is handed out to at most one thread; and in the state in which
    `nsync_waiter_new_` returns `w` (to anybody, through the fast path or the pool path, reserved
    or pooled struct) nobody holds `w` and its IN_USE bit is clear. -/
theorem Pool_exclusive {s : State} (hr : Reachable s) :
    (∀ w, s.inuse w = true ↔ ∃ t, s.loc w = .held t) ∧
    (∀ w t u, s.loc w = .held t → s.loc w = .held u → t = u) ∧
    (∀ t w s', step s (.ret t w) = .ok s' →
      (∀ u, s.loc w ≠ .held u) ∧ s.inuse w = false ∧ s'.loc w = .held t ∧ s'.inuse w = true) := by
  have hi := reachable_inv hr
  refine ⟨hi.l.inuseIff, ?_, ?_⟩
  · intro w t u h1 h2; rw [h1] at h2; injection h2
  · intro t w s' h
    have hpre := ret_pre hi h
    have hnh : ∀ u, s.loc w ≠ .held u := by
      intro u hu; rw [hu] at hpre; rcases hpre with h1 | h1 <;> cases h1
    refine ⟨hnh, ?_, ret_post h, ?_⟩
    · cases hu : s.inuse w with
      | false => rfl
      | true => obtain ⟨u, hu'⟩ := (hi.l.inuseIff w).1 hu; exact absurd hu' (hnh u)
    · exact ((reachable_inv (hr.step h)).l.inuseIff w).2 ⟨t, ret_post h⟩

/-- **Pool_exclusive (trace form).**  Between `new` returning `w` to `t` and the next return of
    `w` by `new` — to any thread `u`, `u = t` included (a nested call) — `t` has called
    `nsync_waiter_free_ (w)`. -/
theorem Pool_exclusive_trace {pre mid : List Ev} {t u : Tid} {w : Wid} {s : State}
    (h : run init (pre ++ .ret t w :: (mid ++ [.ret u w])) = .ok s) : .free t w ∈ mid := by
  obtain ⟨s0, h0, h1⟩ := run_append h
  obtain ⟨s1, h2, h3⟩ := run_cons_inv h1
  obtain ⟨s2, h4, h5⟩ := run_append h3
  obtain ⟨s3, h6, _⟩ := run_cons_inv h5
  have hr1 : Reachable s1 := (Reachable.run Reachable.init h0).step h2
  rcases held_run hr1 (ret_post h2) h4 with hm | hm
  · exact hm
  · have := ret_pre (reachable_inv (hr1.run h4)) h6
    rw [hm] at this; rcases this with h7 | h7 <;> cases h7

/-- The ghost location `held t` is exactly "the last `new`-return / `free`-entry event about `w`
    in the trace is `new` returning `w` to `t`". -/
theorem Pool_held_by_trace {evs : List Ev} {s : State} (h : run init evs = .ok s) (w : Wid)
    (t : Tid) : s.loc w = .held t ↔ heldBy w none evs = some t := by
  have := heldOf_run (w := w) Reachable.init h
  rw [← heldOf_eq, this]; rfl

/-- Only the holder frees, and only the holder blocks on the struct's semaphore (client
    obligations that the acceptor checks on the logs). -/
theorem Pool_client_checks {s s' : State} :
    (∀ t w, step s (.free t w) = .ok s' → s.loc w = .held t) ∧
    (∀ t w, step s (.use t w) = .ok s' → s.loc w = .held t) :=
  ⟨fun _ _ h => (step_free h).2.1, fun _ _ h => (step_use h).1⟩

/-! ### Pool_free_list_inv -/

/-- **Pool_free_list_inv.**  (1) no duplicates; (2) the list holds exactly the allocated structs
    that are neither IN_USE nor RESERVED nor carried by a thread inside a pool function;
    (3) spinlock exclusion: at most one thread is in a critical section, the word is 1 exactly
    then and 0 otherwise; (4) the list is modified only by the release-store step of the thread
    that holds the spinlock (the list operation is folded into that step). -/
theorem Pool_free_list_inv {s : State} (hr : Reachable s) :
    s.free.Nodup ∧
    (∀ w, w ∈ s.free ↔ (w < s.nalloc ∧ s.inuse w = false ∧ s.reserved w = false ∧
                          ∀ t, (s.pc t).transit ≠ some w)) ∧
    ((∀ t u j j', s.pc t = .cs j → s.pc u = .cs j' → t = u) ∧
     (s.mu = 1 ↔ ∃ t j, s.pc t = .cs j) ∧ (s.mu = 0 ∨ s.mu = 1)) ∧
    (∀ e s', step s e = .ok s' → s'.free ≠ s.free →
      ∃ t fn obs j, e = .rel t fn obs ∧ s.pc t = .cs j ∧ s.holder = some t ∧ s.mu = 1) := by
  have hi := reachable_inv hr
  obtain ⟨hm, hl, hf⟩ := hi
  refine ⟨hl.nodup, ?_, ⟨?_, ?_, hm.mu_le⟩, ?_⟩
  · intro w
    rw [hl.locFree w]
    constructor
    · intro hw
      refine ⟨?_, ?_, ?_, ?_⟩
      · exact Nat.lt_of_not_le (fun hle => by have := (hl.locUn w).2 hle; rw [hw] at this; cases this)
      · cases hu : s.inuse w with
        | false => rfl
        | true => obtain ⟨u, hu'⟩ := (hl.inuseIff w).1 hu; rw [hw] at hu'; cases hu'
      · cases hres : s.reserved w with
        | false => rfl
        | true =>
          obtain ⟨u, hu⟩ := hl.resOK w hres
          rcases (hl.ptwOK u w hu).2 with h1 | h1 <;> rw [hw] at h1 <;> cases h1
      · intro t ht
        have := (hl.locTr t w).1 ht; rw [hw] at this; cases this
    · intro ⟨hlt, hu, hres, htr⟩
      cases hloc : s.loc w with
      | free => rfl
      | unalloc => exact absurd ((hl.locUn w).1 hloc) (Nat.not_le_of_lt hlt)
      | transit t => exact absurd ((hl.locTr t w).2 hloc) (htr t)
      | held t => have := (hl.inuseIff w).2 ⟨t, hloc⟩; rw [hu] at this; cases this
      | resIdle t =>
        have := (hl.ptwOK t w (hl.resIdle t w hloc)).1; rw [hres] at this; cases this
  · intro t u j j' h1 h2
    have a := (hm.csIff t).1 ⟨j, h1⟩
    have b := (hm.csIff u).1 ⟨j', h2⟩
    rw [a] at b; injection b
  · have hmu := hm.muVal
    constructor
    · intro h1
      cases hh : s.holder with
      | none => rw [hh] at hmu; simp at hmu; omega
      | some t => obtain ⟨j, hj⟩ := (hm.csIff t).2 hh; exact ⟨t, j, hj⟩
    · intro ⟨t, j, hj⟩
      have := (hm.csIff t).1 ⟨j, hj⟩
      rw [this] at hmu; simpa using hmu
  · intro e s' h hne
    obtain ⟨t, fn, obs, j, rfl, hpc⟩ := free_changes h hne
    have hh := (hm.csIff t).1 ⟨j, hpc⟩
    refine ⟨t, fn, obs, j, rfl, hpc, hh, ?_⟩
    have := hm.muVal; rw [hh] at this; simpa using this

/-- At a quiescent moment (no thread inside a pool function) the list holds exactly the structs
    that are neither IN_USE nor RESERVED. -/
theorem Pool_free_list_quiescent {s : State} (hr : Reachable s) (hq : ∀ t, s.pc t = .idle) :
    ∀ w, w ∈ s.free ↔ (w < s.nalloc ∧ s.inuse w = false ∧ s.reserved w = false) := by
  intro w
  rw [(Pool_free_list_inv hr).2.1 w]
  constructor
  · intro ⟨a, b, c, _⟩; exact ⟨a, b, c⟩
  · intro ⟨a, b, c⟩; exact ⟨a, b, c, fun t => by rw [hq t]; simp [PC.transit]⟩

/-! ### Pool_init -/

/-- The four contract fields as one record. -/
def fieldsOf (s : State) (w : Wid) : Nat × Nat × Nat × Option Wid :=
  (s.rc w, s.waiting w, s.nwflags w, s.sem w)

/-- **Pool_init.**  (1) every struct returned by `new` has completed the initialisation block
    exactly once, every contract field has been written by pool code exactly once (in that
    block), `nw.flags = MUCV`, `nw.sem = &w->sem`; (2) no pool step (`new`, `free`,
    `waiter_destroy`, any path) changes `remove_count`, `nw.waiting`, `nw.flags`, `nw.sem` — or
    the write counts — of an initialised struct: the only pool writes to those fields are in the
    initialisation block of a struct that no client has seen yet. -/
theorem Pool_init {s : State} (hr : Reachable s) :
    (∀ t w s', step s (.ret t w) = .ok s' →
      s.ready w = true ∧ s.inits w = 1 ∧ (∀ f, s.nwr w f = 1) ∧
      s.nwflags w = MUCV ∧ s.sem w = some w) ∧
    (∀ e s' w, step s e = .ok s' → e.isEnv = false → s.ready w = true →
      fieldsOf s' w = fieldsOf s w ∧ s'.inits w = s.inits w ∧ (∀ f, s'.nwr w f = s.nwr w f) ∧
      s'.ready w = true) := by
  have hi := reachable_inv hr
  constructor
  · intro t w s' h
    have hpre := ret_pre hi h
    have hrdy : s.ready w = true := by
      rw [hi.f.readyIff w]
      constructor
      · have : ¬ s.loc w = .unalloc := by
          intro hu; rw [hu] at hpre; rcases hpre with h1 | h1 <;> cases h1
        exact Nat.lt_of_not_le (fun hle => this ((hi.l.locUn w).2 hle))
      · intro u hu
        have hpcu : s.pc u = .newInit w := by
          unfold iniOf PC.initing at hu
          split at hu
          · injection hu with hu; subst hu; assumption
          · cases hu
        have hlu := (hi.l.locTr u w).1 (by simp [trOf, hpcu, PC.transit])
        rcases hpre with h1 | h1 <;> rw [hlu] at h1
        · cases h1
        · injection h1 with h1; subst h1
          rcases step_ret h with ⟨hq, _⟩ | ⟨hq, _⟩ | ⟨hq, _⟩ <;> rw [hq] at hpcu <;> cases hpcu
    obtain ⟨a, b, c, d⟩ := hi.f.fields w hrdy
    exact ⟨hrdy, c, d, a, b⟩
  · intro e s' w h he hw
    obtain ⟨a, b, c, d, e', f, g⟩ := fields_frame hi h he hw
    exact ⟨by simp [fieldsOf, a, b, c, d], e', f, g⟩

/-- **Pool_init, consequence used by C04.**  `remove_count` of an initialised struct is monotone
    along every run — across any number of reuses of the struct, by any threads — provided the
    client writes to it are non-decreasing (clients only CAS `n → n+1`, mu.c:21/cv.c). -/
theorem Pool_remove_count_monotone {s s' : State} {es : List Ev} {w : Wid} (hr : Reachable s)
    (hw : s.ready w = true) (h : run s es = .ok s')
    (hcl : ∀ obs new, Ev.env w .rc obs new ∈ es → obs ≤ new) :
    s'.ready w = true ∧ s.rc w ≤ s'.rc w :=
  rc_mono_run hr hw h hcl

/-! ### Pool_reserved -/

/-- **Pool_reserved.**  (1) a thread's reserved struct is never on the free list, carries the
    RESERVED bit, and is either idle or held by that very thread; conversely a RESERVED struct is
    some thread's reserved struct, and that thread is unique; (2) whenever `new` returns to a
    thread whose reserved struct is not IN_USE, it returns that struct (the pool path is never
    entered — nor completed — while the reserved struct is idle); (3) the fast path only ever
    returns the caller's own reserved struct; (4) `waiter_destroy` puts the struct on the list
    exactly once: its release store pushes a struct that was not on the list, the list has no
    duplicates afterwards, and the thread has left the function. -/
theorem Pool_reserved {s : State} (hr : Reachable s) :
    (∀ t r, s.ptw t = some r →
      r ∉ s.free ∧ s.reserved r = true ∧ (s.loc r = .resIdle t ∨ s.loc r = .held t)) ∧
    (∀ w, s.reserved w = true → ∃ t, s.ptw t = some w ∧ ∀ u, s.ptw u = some w → u = t) ∧
    (∀ t r w s', s.ptw t = some r → s.inuse r = false → step s (.ret t w) = .ok s' → w = r) ∧
    (∀ t r site obs s', s.ptw t = some r → s.inuse r = false → s.pc t = .idle →
      step s (.ld t site obs) ≠ .ok s') ∧
    (∀ t w s', s.pc t = .idle → step s (.ret t w) = .ok s' → s.ptw t = some w) ∧
    (∀ t obs s', step s (.rel t .destroy obs) = .ok s' →
      ∃ w, s.pc t = .cs (.destroy w) ∧ w ∉ s.free ∧ s'.free = w :: s.free ∧ s'.free.Nodup ∧
           s'.pc t = .idle ∧ s'.reserved w = false) := by
  have hi := reachable_inv hr
  have hn := reachable_ninv hr
  have huniq : ∀ t u w, s.ptw t = some w → s.ptw u = some w → u = t := by
    intro t u w h1 h2
    rcases (hi.l.ptwOK t w h1).2 with a | a <;> rcases (hi.l.ptwOK u w h2).2 with b | b <;>
      rw [a] at b <;> first | (injection b with b; exact b.symm) | cases b
  refine ⟨?_, ?_, ?_, ?_, ?_, ?_⟩
  · intro t r hp
    obtain ⟨h1, h2⟩ := hi.l.ptwOK t r hp
    refine ⟨?_, h1, h2⟩
    intro hm
    have := (hi.l.locFree r).1 hm
    rcases h2 with h3 | h3 <;> rw [this] at h3 <;> cases h3
  · intro w hw
    obtain ⟨t, ht⟩ := hi.l.resOK w hw
    exact ⟨t, ht, fun u hu => huniq t u w ht hu⟩
  · intro t r w s' hp hu h
    have hres := (hi.l.ptwOK t r hp).1
    rcases step_ret h with ⟨_, hf, _⟩ | ⟨hq, hnone, _⟩ | ⟨hq, _, _⟩
    · rw [fast_of hp hres hu] at hf; injection hf with hf; exact hf.symm
    · rw [hp] at hnone; cases hnone
    · rcases hn t r (by rw [hq]; rfl) hp with h1 | h1
      · rw [hres] at h1; cases h1
      · rw [hu] at h1; cases h1
  · intro t r site obs s' hp hu hq h
    obtain ⟨_, j, _, hc⟩ := step_ld h
    have hres := (hi.l.ptwOK t r hp).1
    rcases hc with ⟨_, _, _, hf⟩ | ⟨h1, _⟩ | ⟨h1, _⟩
    · rw [fast_of hp hres hu] at hf; cases hf
    · rw [hq] at h1; cases h1
    · rw [hq] at h1; cases h1
  · intro t w s' hq h
    rcases step_ret h with ⟨_, hf, _⟩ | ⟨h1, _⟩ | ⟨h1, _⟩
    · exact (fast_some hf).1
    · rw [hq] at h1; cases h1
    · rw [hq] at h1; cases h1
  · intro t obs s' h
    have hi' := reachable_inv (hr.step h)
    obtain ⟨j, hpc, hfn, _, hc⟩ := step_rel h
    rcases hc with ⟨rfl, _⟩ | ⟨_, _, rfl, _⟩ | ⟨w, hj, hs'⟩
    · cases hfn
    · cases hfn
    · rcases hj with rfl | rfl
      · cases hfn
      · have hloc : s.loc w = .transit t :=
          (hi.l.locTr t w).1 (by simp [trOf, hpc, PC.transit, Job.carried])
        have hnm : w ∉ s.free := by
          intro hm; have := (hi.l.locFree w).1 hm; rw [hloc] at this; cases this
        have hres : s.reserved w = false := by
          cases hres : s.reserved w with
          | false => rfl
          | true =>
            obtain ⟨u, hu⟩ := hi.l.resOK w hres
            rcases (hi.l.ptwOK u w hu).2 with h1 | h1 <;> rw [hloc] at h1 <;> cases h1
        have hnd := hi'.l.nodup
        subst hs'
        exact ⟨w, hpc, hnm, rfl, hnd, by simp, hres⟩

/-! ### Pool_no_leak_partial -/

/-- **Pool_no_leak_partial** ("partial" only in that executions with a failed `malloc` are
    rejected, see the header).  Every allocated struct is, at any time, in exactly one place:
    on the free list, carried by exactly one thread inside a pool function, handed out to exactly
    one thread, or the idle reserved struct of exactly one thread.  The place is the value of the
    ghost function `s.loc w` (a function: hence "exactly one"), and each value is characterised
    by the concrete state, resp. by the trace. -/
theorem Pool_no_leak_partial {evs : List Ev} {s : State} (h : run init evs = .ok s) (w : Wid)
    (hw : w < s.nalloc) :
    s.loc w ≠ .unalloc ∧
    (s.loc w = .free ↔ w ∈ s.free) ∧
    (∀ t, s.loc w = .transit t ↔ (s.pc t).transit = some w) ∧
    (∀ t, s.loc w = .held t ↔ heldBy w none evs = some t) ∧
    (∀ t, s.loc w = .resIdle t ↔ (s.ptw t = some w ∧ s.inuse w = false)) := by
  have hr : Reachable s := ⟨evs, h⟩
  have hi := reachable_inv hr
  refine ⟨?_, (hi.l.locFree w).symm, fun t => (hi.l.locTr t w).symm,
    fun t => Pool_held_by_trace h w t, ?_⟩
  · intro hu; exact absurd ((hi.l.locUn w).1 hu) (Nat.not_le_of_lt hw)
  · intro t
    constructor
    · intro hl
      refine ⟨hi.l.resIdle t w hl, ?_⟩
      cases hu : s.inuse w with
      | false => rfl
      | true => obtain ⟨u, hu'⟩ := (hi.l.inuseIff w).1 hu; rw [hl] at hu'; cases hu'
    · intro ⟨hp, hu⟩
      rcases (hi.l.ptwOK t w hp).2 with h1 | h1
      · exact h1
      · have := (hi.l.inuseIff w).2 ⟨t, h1⟩; rw [hu] at this; cases this

/-- The same, spelled out without the ghost: the four kinds of place are exhaustive and pairwise
    exclusive, and the thread is unique within each kind. -/
theorem Pool_no_leak_exactly_one {evs : List Ev} {s : State} (h : run init evs = .ok s) (w : Wid)
    (hw : w < s.nalloc) :
    let onList := w ∈ s.free
    let carried := fun t => (s.pc t).transit = some w
    let out := fun t => heldBy w none evs = some t
    let idle := fun t => s.ptw t = some w ∧ s.inuse w = false
    (onList ∨ (∃ t, carried t) ∨ (∃ t, out t) ∨ (∃ t, idle t)) ∧
    (onList → (∀ t, ¬ carried t) ∧ (∀ t, ¬ out t) ∧ (∀ t, ¬ idle t)) ∧
    (∀ t, carried t → (∀ u, carried u → u = t) ∧ (∀ u, ¬ out u) ∧ (∀ u, ¬ idle u)) ∧
    (∀ t, out t → (∀ u, out u → u = t) ∧ (∀ u, ¬ idle u)) ∧
    (∀ t, idle t → ∀ u, idle u → u = t) := by
  obtain ⟨h0, h1, h2, h3, h4⟩ := Pool_no_leak_partial h w hw
  simp only
  cases hloc : s.loc w with
  | unalloc => exact absurd hloc h0
  | free =>
    simp only [hloc, true_iff, reduceCtorEq, false_iff] at h1 h2 h3 h4
    exact ⟨Or.inl h1, fun _ => ⟨h2, h3, h4⟩, fun t ht => absurd ht (h2 t),
      fun t ht => absurd ht (h3 t), fun t ht => absurd ht (h4 t)⟩
  | transit v =>
    simp only [hloc, reduceCtorEq, false_iff, Loc.transit.injEq] at h1 h2 h3 h4
    refine ⟨Or.inr (Or.inl ⟨v, (h2 v).1 rfl⟩), fun hl => absurd hl h1, ?_,
      fun t ht => absurd ht (h3 t), fun t ht => absurd ht (h4 t)⟩
    intro t ht
    exact ⟨fun u hu => ((h2 u).2 hu).symm.trans ((h2 t).2 ht), h3, h4⟩
  | held v =>
    simp only [hloc, reduceCtorEq, false_iff, Loc.held.injEq] at h1 h2 h3 h4
    refine ⟨Or.inr (Or.inr (Or.inl ⟨v, (h3 v).1 rfl⟩)), fun hl => absurd hl h1,
      fun t ht => absurd ht (h2 t), ?_, fun t ht => absurd ht (h4 t)⟩
    intro t ht
    exact ⟨fun u hu => ((h3 u).2 hu).symm.trans ((h3 t).2 ht), h4⟩
  | resIdle v =>
    simp only [hloc, reduceCtorEq, false_iff, Loc.resIdle.injEq] at h1 h2 h3 h4
    refine ⟨Or.inr (Or.inr (Or.inr ⟨v, (h4 v).1 rfl⟩)), fun hl => absurd hl h1,
      fun t ht => absurd ht (h2 t), fun t ht => absurd ht (h3 t), ?_⟩
    intro t ht u hu
    exact ((h4 u).2 hu).symm.trans ((h4 t).2 ht)

/-- `malloc` failure is not handled by common.c; the model rejects it. -/
theorem Pool_malloc_null_rejected (s : State) (t : Tid) : ∀ s', step s (.mallocNull t) ≠ .ok s' :=
  fun _ => step_mallocNull

/-! ### Non-vacuity: concrete accepted traces (checked by `decide`) -/

/-- `nsync_waiter_new_` by `t`, pool path, uncontended, list empty: allocates struct `w`. -/
def newAlloc (t : Tid) (w : Wid) : List Ev :=
  [.ld t 0 0, .cas t 0 1 0 true, .rel t .new 1, .malloc t w, .stRc t w 3452816845, .ret t w]

/-- `nsync_waiter_new_` by `t`, pool path, uncontended, pops struct `w`. -/
def newPop (t : Tid) (w : Wid) : List Ev :=
  [.ld t 0 0, .cas t 0 1 0 true, .rel t .new 1, .ret t w]

/-- the spin loop + release store of `nsync_waiter_free_` / `waiter_destroy`, uncontended. -/
def pushBy (t : Tid) (fn : Fn) : List Ev :=
  [.ld t 0 0, .cas t 0 1 0 true, .rel t fn 1]

/-- Summary of a final state, for the examples. -/
structure Summary where
  free : List Wid
  nalloc : Nat
  loc0 : Loc
  loc1 : Loc
  ptw0 : Option Wid
  ptw1 : Option Wid
  /-- (RESERVED, IN_USE) of w0 -/
  flags0 : Bool × Bool
  /-- (RESERVED, IN_USE) of w1 -/
  flags1 : Bool × Bool
  deriving DecidableEq, Repr

def summary (r : Except String State) : Option Summary :=
  match r with
  | .ok s => some ⟨s.free, s.nalloc, s.loc 0, s.loc 1, s.ptw 0, s.ptw 1,
                   (s.reserved 0, s.inuse 0), (s.reserved 1, s.inuse 1)⟩
  | .error _ => none

/-- Two threads alternating, with contention on the spinlock (t1 sees the word at 1, reloads,
    loses nothing), each reusing its reserved struct through the invisible fast path; clients
    bump `remove_count` of w0 in between: it survives the reuse. -/
def exAlternate : List Ev :=
  [.ld 0 0 0, .cas 0 0 1 0 true, .ld 1 0 1, .ld 1 2 1, .rel 0 .new 1, .ld 1 2 0,
   .malloc 0 0, .cas 1 0 1 0 true, .stRc 0 0 7, .rel 1 .new 1, .ret 0 0, .malloc 1 1,
   .stRc 1 1 7, .ret 1 1,
   .env 0 .waiting 0 1, .use 0 0, .env 0 .rc 0 1, .env 0 .waiting 1 0,
   .free 0 0, .free 1 1, .ret 0 0, .ret 1 1, .env 0 .rc 1 2, .free 1 1, .free 0 0]

example : summary (run init exAlternate) =
    some ⟨[], 2, .resIdle 0, .resIdle 1, some 0, some 1, (true, false), (true, false)⟩ := by
  decide

example : (match run init exAlternate with | .ok s => s.rc 0 | .error _ => 0) = 2 := by decide

/-- Nested second waiter: t0 holds its reserved w0 (inside a cv wait) and takes a second struct
    (nested `nsync_mu_lock` going slow): pool path, malloc w1; frees w1 to the list, then w0;
    t1's first call then pops w1 and reserves it. -/
def exNested : List Ev :=
  newAlloc 0 0 ++ newAlloc 0 1 ++ [.free 0 1] ++ pushBy 0 .free ++ [.free 0 0] ++ newPop 1 1

example : summary (run init exNested) =
    some ⟨[], 2, .resIdle 0, .held 1, some 0, some 1, (true, false), (true, true)⟩ := by
  decide

/-- While t0 holds both, both are IN_USE and w1 is not reserved. -/
example : summary (run init (newAlloc 0 0 ++ newAlloc 0 1)) =
    some ⟨[], 2, .held 0, .held 0, some 0, none, (true, true), (false, true)⟩ := by
  decide

/-- Thread exit: t0 gets w0, frees it, exits (`waiter_destroy` pushes w0, reservation dropped);
    t1's first call pops w0 and reserves it for itself. -/
def exExit : List Ev :=
  newAlloc 0 0 ++ [.free 0 0, .exit 0] ++ pushBy 0 .destroy ++ newPop 1 0

example : summary (run init (newAlloc 0 0 ++ [.free 0 0, .exit 0] ++ pushBy 0 .destroy)) =
    some ⟨[0], 1, .free, .unalloc, none, none, (false, false), (false, false)⟩ := by
  decide

example : summary (run init exExit) =
    some ⟨[], 1, .held 1, .unalloc, none, some 0, (true, true), (false, false)⟩ := by
  decide

/-- The hypotheses of `Pool_exclusive_trace` are satisfiable: w0 returned twice to t0 with the
    `free` in between (and the acceptor rejects the same trace without the `free`). -/
example : (run init (newAlloc 0 0 ++ .ret 0 0 :: ([] ++ [.ret 0 0]))).toOption.isSome = false := by
  decide

example : (run init ([.ld 0 0 0, .cas 0 0 1 0 true, .rel 0 .new 1, .malloc 0 0, .stRc 0 0 7] ++
    .ret 0 0 :: ([.free 0 0] ++ [.ret 0 0]))).toOption.isSome = true := by
  decide

/-- Rejections: taking the pool path while the reserved struct is idle; freeing a struct one does
    not hold; a failed `malloc`; a second thread entering the critical section. -/
example : (run init (newAlloc 0 0 ++ [.free 0 0, .ld 0 0 0])).toOption.isSome = false := by decide
example : (run init (newAlloc 0 0 ++ [.free 1 0])).toOption.isSome = false := by decide
example : (run init [.ld 0 0 0, .cas 0 0 1 0 true, .rel 0 .new 1, .mallocNull 0]).toOption.isSome
    = false := by decide
example : (run init [.ld 0 0 0, .ld 1 0 0, .cas 0 0 1 0 true, .cas 1 0 1 0 true]).toOption.isSome
    = false := by decide

end Pool
