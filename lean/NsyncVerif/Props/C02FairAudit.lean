import NsyncVerif.Props.C02Fair
/-!
Axiom audit for `Props/C02Fair.lean` (allowed: `propext`, `Classical.choice`, `Quot.sound`).
-/
open NsyncVerif.MuQ

#print axioms C02_fair_termination
#print axioms C02_fair_quiescence
#print axioms C02_fair_return
#print axioms C02_fair_wake
#print axioms C02_fair_needs_release
#print axioms C02_fair_needs_rc
#print axioms C02_fair_needs_arrivals
#print axioms front_hyps
#print axioms fair_quiescence
#print axioms step_own
#print axioms chain
#print axioms final_quiescent
