/-
  Property C04 on the REPAIRED cv.c (/verif/fixes/F3/cv_fix.diff) — condition-variable wake-ups
  are never lost and never swallowed by a timeout.

  "Condition-variable wake-ups are never lost and never swallowed by a timeout.  A thread that
   started waiting on an nsync_cv before a wake-up is issued is covered by it: nsync_cv_broadcast
   wakes every such thread, nsync_cv_signal wakes at least one, and if the thread signal picks
   holds the mutex as a reader, all waiting readers are woken.  Releasing the mutex and starting to
   wait is atomic with respect to wakers that hold the mutex, and a wait that consumes a wake-up
   reports it as a wake-up (0, or the object's index from nsync_wait_n), never as a timeout or
   cancellation."

  Model: `NsyncVerif/Model/CvFix.lean` — the acceptor of `Model/Cv.lean` adapted to the patched
  code: `wake_waiters` reads `p_nw->sem` before it clears `waiting` (its V does not touch the
  record), `cv_dequeue` looks for the record in `pcv->waiters` when `waiting != 0`, removes it only
  if it is there, and otherwise waits (spinlock released) until the waker has cleared `waiting`,
  then returns 0.  Every theorem quantifies over all reachable states: any number of threads and
  records, all interleavings of waiters (plain, timed, cancellable, reader-mode, generic-lock,
  nsync_wait_n) with signallers and broadcasters, deadlines expiring anywhere, both semaphore
  flavours (`cfg` arbitrary).  Invariants: `Proofs/CvFixInvA*.lean`, `CvFixInvB*.lean` (as for the
  pinned code, minus the F3 ghost flag: `lWait` now holds for every kind of record),
  `CvFixInvD*`, `CvFixInvE*`, and the new `Proofs/CvFixInvF*.lean` (who unlinked the current
  instance, for every kind of record, and what `cv_dequeue` is going to return).

  STATUS: everything is proved in full, for ALL record kinds (pooled `waiter`s of nsync_cv_wait*
  and the `nsync_waiter_s` of nsync_wait_n).
    `C04_queue_inv`, `C04_spinlock_excl`, `C04_wait_atomic`, `C04_signal`, `C04_broadcast`,
    `C04_broadcast_unlinks_all`, `C04_no_lost_wake`, `C04_remove_count_handshake`,
    `C04_exitUnl_is_unl`            as for the pinned code (same statements)
    `C04_unlink_once`               every instance is unlinked at most once: `unl` is `[]`, `[self]`
                                    or `[waker u]` — by a waker xor by itself, never both.
                                    `C04_unlink_once_full_true`: the statement that is refuted for
                                    the pinned code (`Cv.C04_unlink_once_full_false`) holds here;
                                    `C04_unlink_once_partial` kept under its old name.
    `C04_unlinker_by_status`        who the unlinker is, by status of the record
    `C04_outcome`                   nsync_wait_n records: `cv_dequeue` returns `was_queued = 1`
                                    iff the instance was unlinked by its owner (`unl = [self]`),
                                    and 0 iff it was unlinked by a waker (`unl = [waker u]`): a
                                    waker-unlinked record is reported as ready; on return the record
                                    is idle and off the call's list
    `C04_outcome_partial`           cv waits (old name; it covers every nsync_cv_wait*)
    `C04_f3_schedule_fixed`         the F3 schedule (corpus C04/f3_waitn_cv.txt) on the repaired
                                    code: accepted, unlinked once (by the waker), `was_queued = 0`;
    `C04_f3_old_behaviour_rejected` what the pinned code does in that schedule (the store
                                    `waiting := 0` by cv_dequeue, cv.c/33) is rejected.
  not in this layer (as before)
    the release mark of nsync_wait_n; the index returned by nsync_wait_n spans several objects
    (layer WaitN); `was_queued` is the value each `cv_dequeue` hands to wait.c:83-89.
-/
import NsyncVerif.Proofs.CvFixInvFAll

namespace NsyncVerif.CvFix

/-! ### C04_queue_inv -/

/-- When the cv spinlock is free, CV_NON_EMPTY says exactly whether the queue is non-empty; the
    queue never contains a record twice; every queued record has `waiting = 1`. -/
theorem C04_queue_inv {cfg : Config} {s : State} (h : Reachable cfg s) :
    (s.word.spin = false → (s.word.ne = true ↔ s.queue ≠ [])) ∧ s.queue.Nodup ∧
    (∀ r, r ∈ s.queue → (s.recs r).waiting = true) ∧
    (∀ r, r ∈ s.queue ↔ (s.recs r).stat = .queued) := by
  have hi := (inv_reachable h).a
  refine ⟨?_, hi.qNd, fun r hr => hi.qWait r ((hi.qMem r).mp hr), hi.qMem⟩
  intro hsp
  apply hi.free
  have := hi.spin; rw [hsp] at this
  cases hh : s.holder with
  | none => rfl
  | some v => rw [hh] at this; simp at this

/-- The spinlock is a lock: the spin bit is set iff some thread is inside a critical section, and
    at most one thread is. -/
theorem C04_spinlock_excl {cfg : Config} {s : State} (h : Reachable cfg s) {t u : Tid}
    (ht : (s.thr t).loc.holds = true) (hu : (s.thr u).loc.holds = true) : u = t ∧ s.word.spin = true := by
  have hi := (inv_reachable h).a
  refine ⟨hi.holder_unique ht hu, ?_⟩
  have := hi.spin; rw [(hi.hold t).mpr ht] at this; simpa using this

/-! ### C04_wait_atomic -/

/-- When a waiter starts releasing the mutex (cv.c:235-239) its record is already in the queue of
    the cv — or a waker that found it there has already unlinked it (it is on that waker's list,
    or transferred to the mutex queue, or woken).  The enqueue happens before the release. -/
theorem C04_wait_atomic {cfg : Config} {s s' : State} {t : Tid} {op : MuOp} (h : Reachable cfg s)
    (hs : step cfg s (.relMark t op) = .ok s') :
    (s.recs (s.thr t).r).owner = t ∧
    ((s.thr t).r ∈ s.queue ∨ (∃ u, (s.thr t).r ∈ (s.thr u).list) ∨
     (s.recs (s.thr t).r).stat = .xfer ∨ (s.recs (s.thr t).r).stat = .woken) := by
  have hl := relMark_accepted hs
  have hi := inv_reachable h
  obtain ⟨ho, _, hlv⟩ := (hi.a.thr t).live (by simp [waitLive, hl])
  refine ⟨ho, ?_⟩
  cases hst : (s.recs (s.thr t).r).stat with
  | idle => rw [hst] at hlv; simp [RStat.live] at hlv
  | prep => rw [hst] at hlv; simp [RStat.live] at hlv
  | queued => exact .inl ((hi.a.qMem _).mpr hst)
  | listed u => exact .inr (.inl ⟨u, (hi.a.lMem u _).mpr hst⟩)
  | xfer => exact .inr (.inr (.inl rfl))
  | woken => exact .inr (.inr (.inr rfl))
  | selfOut =>
    have := (hi.b.thr t).soLoc (by simp [waitLive, hl]) hst
    rw [hl] at this; simp at this

/-! ### C04_unlink_once -/

/-- Every instance — of a cv wait (pooled waiter) or of an nsync_wait_n record — is unlinked from the
    cv queue at most once: by a waker xor by its owner. -/
theorem C04_unlink_once {cfg : Config} {s : State} (h : Reachable cfg s) (r : Rid) :
    (s.recs r).unl.length ≤ 1 ∧
    ((s.recs r).unl = [] ∨ (s.recs r).unl = [Unl.self] ∨ ∃ u, (s.recs r).unl = [Unl.waker u]) := by
  have h1 := (invF_reachable h).unl1 r
  refine ⟨h1, ?_⟩
  cases hu : (s.recs r).unl with
  | nil => exact .inl rfl
  | cons a l =>
    rw [hu] at h1
    cases l with
    | nil =>
      cases a with
      | waker u => exact .inr (.inr ⟨u, rfl⟩)
      | self => exact .inr (.inl rfl)
    | cons b l' => simp at h1

/-- The statement that is FALSE for the pinned code (`NsyncVerif.Cv.C04_unlink_once_full_false`). -/
def C04_unlink_once_full : Prop :=
  ∀ (cfg : Config) (s : State) (r : Rid), Reachable cfg s → (s.recs r).unl.length ≤ 1

theorem C04_unlink_once_full_true : C04_unlink_once_full :=
  fun _ _ r h => (C04_unlink_once h r).1

/-- (old name) pooled waiters. -/
theorem C04_unlink_once_partial {cfg : Config} {s : State} (h : Reachable cfg s) (r : Rid)
    (_hk : r.isMucv = true) : (s.recs r).unl.length ≤ 1 :=
  (C04_unlink_once h r).1

/-- Who unlinked the current instance, by status: nobody while it is queued (or being prepared);
    the waker `u` while it is on `u`'s list; some waker once it is woken or transferred; the owner
    when it removed itself. -/
theorem C04_unlinker_by_status {cfg : Config} {s : State} (h : Reachable cfg s) (r : Rid) :
    ((s.recs r).stat = .queued ∨ (s.recs r).stat = .prep → (s.recs r).unl = []) ∧
    (∀ u, (s.recs r).stat = .listed u → (s.recs r).unl = [Unl.waker u]) ∧
    ((s.recs r).stat = .woken ∨ (s.recs r).stat = .xfer → ∃ u, (s.recs r).unl = [Unl.waker u]) ∧
    ((s.recs r).stat = .selfOut → (s.recs r).unl = [Unl.self]) := by
  have hf := invF_reachable h
  exact ⟨(inv_reachable h).b.unlQ r, hf.unlL r, hf.unlW r, hf.unlS r⟩

/-- The remove_count comparison of the timeout path (cv.c:259-260) succeeds only if the record is
    still in the queue and nobody has unlinked it: the path never removes a record that a waker has
    already taken. -/
theorem C04_remove_count_handshake {cfg : Config} {s s' : State} {t : Tid} {r : Rid} {obs : Nat}
    (h : Reachable cfg s) (hs : step cfg s (.recLd t .wCmp r obs) = .ok s')
    (he : obs = (s.thr t).saved) : r ∈ s.queue ∧ (s.recs r).unl = [] := by
  have hi := inv_reachable h
  obtain ⟨hl, hr, ho⟩ := wCmp_accepted hs
  have hq := (invB_wCmpEq hi.b hi.a t r obs hl hr ho he).1
  exact ⟨(hi.a.qMem r).mpr hq, hi.b.unlQ r (.inl hq)⟩

/-! ### C04_outcome -/

/-- A cv wait returns non-zero only if its instance unlinked ITSELF (timeout / cancel path,
    cv.c:259-276), and an instance unlinked by a waker returns 0.  `exitUnl` is the list of
    unlinkers of the instance, frozen when the wait loop is left. -/
theorem C04_outcome_partial {cfg : Config} {s s' : State} {t : Tid} {res : Outcome} (h : Reachable cfg s)
    (hs : step cfg s (.retWait t res) = .ok s') :
    (res ≠ .ok → (s.thr t).exitUnl = [Unl.self]) ∧
    (∀ u, Unl.waker u ∈ (s.thr t).exitUnl → res = .ok) := by
  obtain ⟨hl, hr⟩ := retWait_accepted hs
  have hb := (inv_reachable h).b.thr t
  have key : res ≠ .ok → (s.thr t).exitUnl = [Unl.self] := by
    intro hne
    exact hb.outE (by rcases hl with hl | hl <;> simp [hl, Loc.afterLoop]) (by rw [← hr]; exact hne)
  refine ⟨key, ?_⟩
  intro u hu
  cases hres : res with
  | ok => rfl
  | timedOut => have := key (by rw [hres]; simp); rw [this] at hu; simp at hu
  | cancelled => have := key (by rw [hres]; simp); rw [this] at hu; simp at hu

/-- `exitUnl` is what the record said when the loop was left. -/
theorem C04_exitUnl_is_unl {cfg : Config} {s s' : State} {t : Tid} {r : Rid}
    (hs : step cfg s (.recLd t .wHead r 0) = .ok s') :
    (s'.thr t).exitUnl = (s.recs r).unl ∧ (s.recs r).unl = (s'.recs r).unl := by
  obtain ⟨_, _, _, _, h5, _, _⟩ := wHead_exit_accepted hs
  refine ⟨h5, ?_⟩
  simp only [step] at hs
  unfold stepRecLd at hs
  split at hs
  · cases hs
  · rename_i y hy
    dsimp only at hs
    split at hs <;> try contradiction
    simp only [need_ok] at hs
    obtain ⟨_, _, hs⟩ := hs
    simp only [if_true] at hs
    cases hs
    simp

/-- `e`, performed by thread `t` in state `s`, is the last step of `cv_dequeue (pcv, r)`: the release
    of the spinlock with `being_woken == 0` [cv.c/34], or the load of the wait loop that observes
    `waiting == 0` [cv.c/35].  The value returned is the local `was_queued`, `(s.thr t).wasQ`. -/
def deqReturns (s : State) (t : Tid) (r : Rid) (e : Event) : Prop :=
  (∃ new obs, e = .wordSt t .deqRel new obs ∧ (s.thr t).loc = .nDeqRel ∧ r = (s.thr t).r) ∨
  (e = .recLd t .deqSpin r 0)

/-- nsync_wait_n records.  `cv_dequeue` returns "was still enqueued" (`was_queued = 1`) iff the
    instance was unlinked by its owner, and "not still enqueued" (0: the object is ready) iff it was
    unlinked by a waker: a consumed wake-up is always reported as a wake-up.  On return the record
    is idle, off the call's list, and its list of unlinkers is unchanged. -/
theorem C04_outcome {cfg : Config} {s s' : State} {t : Tid} {r : Rid} {e : Event} (h : Reachable cfg s)
    (hs : step cfg s e = .ok s') (hd : deqReturns s t r e) :
    r.isMucv = false ∧ (s.recs r).owner = t ∧
    ((s.thr t).wasQ = true ↔ (s.recs r).unl = [Unl.self]) ∧
    ((s.thr t).wasQ = false ↔ ∃ u, (s.recs r).unl = [Unl.waker u]) ∧
    (s'.recs r).unl = (s.recs r).unl ∧ (s'.recs r).stat = .idle ∧
    (s'.thr t).loc = .nOut ∧ r ∉ (s'.thr t).mine := by
  have hi := inv_reachable h
  have hf := invF_reachable h
  rcases hd with ⟨new, obs, rfl, hl, rfl⟩ | rfl
  · obtain ⟨n, rfl⟩ := deqRel_accepted hs hl
    obtain ⟨hm, _⟩ := (hi.a.thr t).nDeq (.inr hl)
    obtain ⟨hmu, hown, _, _⟩ := (hi.a.thr t).mine _ hm
    have hnd := (hi.a.thr t).mineNd
    refine ⟨hmu, hown, ?_, ?_, by simp, ?_, by simp, ?_⟩
    · rcases (hf.thr t).wqRel hl with ⟨a, b, _⟩ | ⟨a, ⟨u, b⟩, _⟩
      · simp [a, b]
      · simp [a, b]
    · rcases (hf.thr t).wqRel hl with ⟨a, b, _⟩ | ⟨a, ⟨u, b⟩, _⟩
      · simp [a, b]
      · simp [a, b]
    · rcases (hf.thr t).wqRel hl with ⟨_, _, c⟩ | ⟨_, _, c⟩ <;> simp [c]
    · simp; exact fun hc => (List.Nodup.mem_erase_iff hnd).mp hc |>.1 rfl
  · obtain ⟨hl, hr, hw, rfl⟩ := deqSpin_exit_accepted hs
    subst hr
    obtain ⟨hm, _⟩ := (hi.a.thr t).nSpin (.inr hl)
    obtain ⟨hmu, hown, _, _⟩ := (hi.a.thr t).mine _ hm
    have hnd := (hi.a.thr t).mineNd
    obtain ⟨a, u, b⟩ := (hf.thr t).wqW (.inr hl)
    refine ⟨hmu, hown, by simp [a, b], by simp [a, b], by simp, ?_, by simp, ?_⟩
    · simp
      cases hst : (s.recs (s.thr t).r).stat <;> simp
      rename_i v
      have := hi.b.lWait _ v hst; rw [hw] at this; cases this
    · simp; exact fun hc => (List.Nodup.mem_erase_iff hnd).mp hc |>.1 rfl

/-- In particular: a record that a waker has unlinked is never reported as "still enqueued". -/
theorem C04_waker_unlinked_is_ready {cfg : Config} {s s' : State} {t u : Tid} {r : Rid} {e : Event}
    (h : Reachable cfg s) (hs : step cfg s e = .ok s') (hd : deqReturns s t r e)
    (hu : Unl.waker u ∈ (s.recs r).unl) : (s.thr t).wasQ = false := by
  obtain ⟨_, _, h1, _, _⟩ := C04_outcome h hs hd
  cases hq : (s.thr t).wasQ
  · rfl
  · rw [h1.mp hq] at hu; simp at hu

/-- While `cv_dequeue` waits for the waker (program points `nDeqRelW`, `nDeqSpin`) its `was_queued`
    is 0 and the record has been unlinked by a waker: it is on that waker's list with
    `waiting = 1`, or already woken. -/
theorem C04_dequeue_waits_for_waker {cfg : Config} {s : State} {t : Tid} (h : Reachable cfg s)
    (hl : (s.thr t).loc = .nDeqRelW ∨ (s.thr t).loc = .nDeqSpin) :
    (s.thr t).wasQ = false ∧ (∃ u, (s.recs (s.thr t).r).unl = [Unl.waker u]) ∧
    ((∃ u, (s.recs (s.thr t).r).stat = .listed u ∧ (s.thr t).r ∈ (s.thr u).list ∧
        (s.recs (s.thr t).r).waiting = true) ∨
     ((s.recs (s.thr t).r).stat = .woken ∧ (s.recs (s.thr t).r).waiting = false)) := by
  have hi := inv_reachable h
  have hf := invF_reachable h
  obtain ⟨a, b⟩ := (hf.thr t).wqW hl
  refine ⟨a, b, ?_⟩
  obtain ⟨hm, hnq⟩ := (hi.a.thr t).nSpin hl
  obtain ⟨hmu, _, hni, hnp⟩ := (hi.a.thr t).mine _ hm
  cases hst : (s.recs (s.thr t).r).stat with
  | idle => exact absurd hst hni
  | prep => exact absurd hst hnp
  | queued => exact absurd hst hnq
  | listed u => exact .inl ⟨u, rfl, (hi.a.lMem u _).mpr hst, hi.b.lWait _ u hst⟩
  | xfer => have := hi.b.xferM _ hst; rw [hmu] at this; cases this
  | woken => exact .inr ⟨rfl, hi.b.wokenW _ hst⟩
  | selfOut =>
    have := ((hi.b.thr t).mineS _ hm hst).1
    rcases hl with hl | hl <;> rw [hl] at this <;> simp at this

/-! ### C04_signal -/

/-- When nsync_cv_signal takes the spinlock with a non-empty queue it unlinks the first waiter;
    if that one is a reader-mode waiter of an nsync_mu it unlinks every reader-mode waiter in the
    queue; among the records it unlinks at most one is not such a reader; and it unlinks nothing
    else (`sigSelect` is the exact set, in queue order: it becomes the private `to_wake_list`). -/
theorem C04_signal {cfg : Config} {s s' : State} {t : Tid} {exp new obs : Nat} {f : Rid} {rest : List Rid}
    (hs : step cfg s (.wordCas t exp new obs true) = .ok s') (hc : (s.thr t).cont = .sig)
    (hb : (s.thr t).bcast = false) (hq : s.queue = f :: rest) :
    (s'.recs f).stat = .listed t ∧
    (isReader s.recs f = true → ∀ r, r ∈ s.queue → isReader s.recs r = true → (s'.recs r).stat = .listed t) ∧
    (((s'.thr t).list.filter (fun r => !isReader s.recs r)).length ≤ 1) ∧
    (s'.thr t).list = sigSelect s.recs s.queue ∧
    (∀ r, r ∈ (s'.thr t).list → (s'.recs r).stat = .listed t ∧ Unl.waker t ∈ (s'.recs r).unl) ∧
    (∀ r, r ∉ (s'.thr t).list → s'.recs r = s.recs r) := by
  obtain ⟨_, _, hrec, hlist⟩ := acq_sig_state hs hc
  simp only [hb, Bool.false_eq_true, if_false] at hrec hlist
  have hsel : ∀ r, r ∈ sigSelect s.recs s.queue → (s'.recs r).stat = .listed t ∧ Unl.waker t ∈ (s'.recs r).unl := by
    intro r hr; rw [hrec r]; simp [hr]
  refine ⟨?_, ?_, ?_, hlist, ?_, ?_⟩
  · exact (hsel f (by rw [hq]; exact sigSelect_head _ _ _)).1
  · intro hf r hr hrd
    exact (hsel r (by rw [hq] at hr ⊢; exact sigSelect_readers _ _ _ hf r hr hrd)).1
  · rw [hlist]; exact sigSelect_nonreaders _ _
  · intro r hr; rw [hlist] at hr; exact hsel r hr
  · intro r hr; rw [hlist] at hr; rw [hrec r]; simp [hr]

/-! ### C04_broadcast -/

/-- When a broadcast call returns, every instance whose enqueue was published (cv spinlock released
    after the append: "started waiting") before the call's first load of the cv word has been
    unlinked — it is no longer in the queue — and none is left on the broadcaster's own list: each
    record the broadcaster unlinked has been woken (`waiting := 0`, then V) or transferred to the
    mutex queue; a record unlinked by somebody else is that waker's business (`C04_no_lost_wake`),
    or it unlinked itself (timeout).  `enqSeq` / `seq0` are the ghost sequence numbers at the
    publication / at the first load. -/
theorem C04_broadcast {cfg : Config} {s s' : State} {t : Tid} (h : Reachable cfg s)
    (hs : step cfg s (.retBroadcast t) = .ok s') (r : Rid) (hp : (s.recs r).pub = true)
    (hseq : (s.recs r).enqSeq < (s.thr t).seq0) :
    r ∉ s.queue ∧ (s.recs r).stat ≠ .queued ∧ (s.recs r).stat ≠ .listed t ∧ r ∉ (s.thr t).list := by
  obtain ⟨hl, hb⟩ := retBroadcast_accepted hs
  have hi := (inv_reachable h).a
  have hd := invD_reachable h
  have hnq : r ∉ s.queue := by
    intro hm
    have := hd.done t (by simp [bcastDone, hl, hb]) r hm hp
    omega
  have hlist := (hi.thr t).list0 (by simp [hl, Loc.wakePhase])
  refine ⟨hnq, fun e => hnq ((hi.qMem r).mpr e), ?_, by rw [hlist]; simp⟩
  intro e
  have := (hi.lMem t r).mpr e
  rw [hlist] at this; simp at this

/-- How it does it.  (1) At its spinlock acquisition nsync_cv_broadcast unlinks EVERY record
    of the queue (all get status `listed t` and the broadcaster among their unlinkers), the queue
    is left empty and the private list is the old queue.  (2) When the call returns, no record is
    left on its list: each record it unlinked has been woken (`waiting := 0` stored, then V) or
    transferred to the mutex queue. -/
theorem C04_broadcast_unlinks_all {cfg : Config} :
    (∀ (s s' : State) (t : Tid) (exp new obs : Nat), Reachable cfg s →
      step cfg s (.wordCas t exp new obs true) = .ok s' → (s.thr t).cont = .sig → (s.thr t).bcast = true →
        s'.queue = [] ∧ (s'.thr t).list = s.queue ∧
        ∀ r, r ∈ s.queue → (s'.recs r).stat = .listed t ∧ Unl.waker t ∈ (s'.recs r).unl) ∧
    (∀ (s s' : State) (t : Tid), Reachable cfg s → step cfg s (.retBroadcast t) = .ok s' →
        (s.thr t).list = [] ∧ ∀ r, (s.recs r).stat ≠ .listed t) := by
  constructor
  · intro s s' t exp new obs _ hs hc hb
    obtain ⟨_, hqueue, hrec, hlist⟩ := acq_sig_state hs hc
    simp only [hb, if_true] at hqueue hrec hlist
    refine ⟨by rw [hqueue, filter_not_contains_self], hlist, ?_⟩
    intro r hr; rw [hrec r]; simp [hr]
  · intro s s' t h hs
    obtain ⟨hl, _⟩ := retBroadcast_accepted hs
    have hi := (inv_reachable h).a
    have hlist := (hi.thr t).list0 (by simp [hl, Loc.wakePhase])
    refine ⟨hlist, ?_⟩
    intro r e
    have := (hi.lMem t r).mpr e
    rw [hlist] at this; simp at this

/-! ### C04_no_lost_wake -/

/-- Invariant form of "the wake-up is never lost".  A record that a waker has unlinked and not
    transferred is
      * either still on that waker's private list, and the waker is inside its wake-up phase
        (between the unlink and its last V: the acceptor leaves that phase only through
        `waiting := 0` + V, or the transfer, for every record of the list) — and it still has
        `waiting = 1` (EVERY kind of record, on the repaired code), so its owner has not left:
        a cv wait stays in its loop, a cv_dequeue stays in its wait loop;
      * or woken: `waiting = 0` has been stored and the semaphore has been posted, or the waker is
        at the V for exactly this instance (`cur`). -/
theorem C04_no_lost_wake {cfg : Config} {s : State} (h : Reachable cfg s) (r : Rid) :
    (∀ u, (s.recs r).stat = .listed u → r ∈ (s.thr u).list ∧ (s.thr u).loc.wakePhase = true) ∧
    (∀ u, (s.recs r).stat = .listed u → (s.recs r).waiting = true) ∧
    ((s.recs r).stat = .woken → (s.recs r).waiting = false ∧
      ((s.recs r).posted = true ∨ ∃ u, (s.thr u).cur = some (r, (s.recs r).enqSeq) ∧ (s.thr u).loc = .wwV)) := by
  have hi := inv_reachable h
  refine ⟨?_, fun u hu => hi.b.lWait r u hu,
    fun hw => ⟨hi.b.wokenW r hw, (invE_reachable h).woken r hw⟩⟩
  intro u hu
  have hm := (hi.a.lMem u r).mpr hu
  refine ⟨hm, ?_⟩
  cases hw : (s.thr u).loc.wakePhase
  · have := (hi.a.thr u).list0 hw; rw [this] at hm; simp at hm
  · rfl

/-! ### non-vacuity: accepted concrete traces -/

/-- one writer-mode waiter (thread 0, record w0), one broadcaster (thread 1) -/
def exBroadcast : List Event := [
  .tick 100, .callWait 0 false none false, .wInit 0 (.w 0), .recSt 0 .wSt1 (.w 0) 1 0, .muLd 0 .wMode 1,
  .wordLd 0 .spin0 0, .wordCas 0 0 3 0 true, .recLd 0 .wRc (.w 0) 0, .wordSt 0 .waitRel 2 3,
  .relMark 0 .wr, .nret 0, .recLd 0 .wHead (.w 0) 1, .semPdEnter 0 0 none,
  .callBroadcast 1, .wordLd 1 .bcLd 2, .wordLd 1 .spin0 2, .wordCas 1 2 3 2 true,
  .recLd 1 .bRcLd (.w 0) 0, .recCas 1 .bRcCas (.w 0) 0 1 0 true, .wordSt 1 .bcRel 0 3,
  .muLd 1 .wwLd 0, .recSt 1 .wake (.w 0) 0 1, .semV 1 0, .retBroadcast 1,
  .semPdRet 0 0 false, .recLd 0 .wTail (.w 0) 0, .recLd 0 .wHead (.w 0) 0, .lockMark 0 .wr, .nret 0,
  .retWait 0 .ok]

example : okRun ⟨false⟩ exBroadcast = true := by decide
example : okRun ⟨true⟩ exBroadcast = true := by decide
example : ((runD ⟨false⟩ exBroadcast).recs (.w 0)).unl = [Unl.waker 1] := by decide
/-- the hypotheses of `C04_wait_atomic` are satisfiable: after the first 9 events the release mark is accepted -/
example : okRun ⟨false⟩ (exBroadcast.take 10) = true ∧
    ((runD ⟨false⟩ (exBroadcast.take 9)).queue = [.w 0]) := by decide

/-- the hypotheses of `C04_broadcast` are satisfiable: before the `ret` of the broadcast the record is
    published with a sequence number below the broadcast's first load, and it has been woken and posted -/
example : okRun ⟨false⟩ (exBroadcast.take 24) = true ∧
    ((runD ⟨false⟩ (exBroadcast.take 23)).recs (.w 0)).pub = true ∧
    ((runD ⟨false⟩ (exBroadcast.take 23)).recs (.w 0)).enqSeq < ((runD ⟨false⟩ (exBroadcast.take 23)).thr 1).seq0 ∧
    ((runD ⟨false⟩ (exBroadcast.take 23)).recs (.w 0)).stat = .woken ∧
    ((runD ⟨false⟩ (exBroadcast.take 23)).recs (.w 0)).posted = true := by decide

/-- timed waiter whose deadline (150) races a signal: the signaller unlinks first, the semaphore
    wait times out, the remove_count comparison fails, the wait spins until woken and returns 0 -/
def exTimedSignalWins : List Event := [
  .tick 100, .callWait 0 false (some 150) false, .recSt 0 .wSt1 (.w 0) 1 0, .muLd 0 .wMode 1,
  .wordLd 0 .spin0 0, .wordCas 0 0 3 0 true, .recLd 0 .wRc (.w 0) 0, .wordSt 0 .waitRel 2 3,
  .relMark 0 .wr, .nret 0, .recLd 0 .wHead (.w 0) 1, .semPdEnter 0 0 (some 150), .tick 150,
  .callSignal 1, .wordLd 1 .sigLd 2, .wordLd 1 .spin0 2, .wordCas 1 2 3 2 true,
  .recLd 1 (.sRcLd true) (.w 0) 0, .recCas 1 (.sRcCas true) (.w 0) 0 1 0 true, .wordSt 1 .sigRel 0 3,
  .semPdRet 0 0 true, .recLd 0 .wChk (.w 0) 1, .wordLd 0 .spin0 0, .wordCas 0 0 1 0 true,
  .recLd 0 .wChk2 (.w 0) 1, .recLd 0 .wCmp (.w 0) 1, .wordSt 0 .waitRel2 0 1, .recLd 0 .wTail (.w 0) 1,
  .recLd 0 .wHead (.w 0) 1,
  .muLd 1 .wwLd 0, .recSt 1 .wake (.w 0) 0 1, .semV 1 0, .retSignal 1,
  .recLd 0 .wChk (.w 0) 0, .recLd 0 .wTail (.w 0) 0, .recLd 0 .wHead (.w 0) 0, .lockMark 0 .wr, .nret 0,
  .retWait 0 .ok]

example : okRun ⟨false⟩ exTimedSignalWins = true := by decide
example : okRun ⟨true⟩ exTimedSignalWins = true := by decide
/-- the same call may NOT report a timeout -/
example : okRun ⟨false⟩ (exTimedSignalWins.dropLast ++ [.retWait 0 .timedOut]) = false := by decide

/-- the same race, the timeout wins: the waiter removes itself, the signal finds an empty queue -/
def exTimedTimeoutWins : List Event := [
  .tick 100, .callWait 0 false (some 150) false, .recSt 0 .wSt1 (.w 0) 1 0, .muLd 0 .wMode 1,
  .wordLd 0 .spin0 0, .wordCas 0 0 3 0 true, .recLd 0 .wRc (.w 0) 0, .wordSt 0 .waitRel 2 3,
  .relMark 0 .wr, .nret 0, .recLd 0 .wHead (.w 0) 1, .semPdEnter 0 0 (some 150), .tick 150,
  .semPdRet 0 0 true, .recLd 0 .wChk (.w 0) 1, .wordLd 0 .spin0 2, .wordCas 0 2 3 2 true,
  .recLd 0 .wChk2 (.w 0) 1, .recLd 0 .wCmp (.w 0) 0, .recLd 0 .wRmLd (.w 0) 0,
  .recCas 0 .wRmCas (.w 0) 0 1 0 true, .recSt 0 .wClr (.w 0) 0 1, .wordSt 0 .waitRel2 0 3,
  .callSignal 1, .wordLd 1 .sigLd 0, .retSignal 1,
  .recLd 0 .wTail (.w 0) 0, .recLd 0 .wHead (.w 0) 0, .lockMark 0 .wr, .nret 0, .retWait 0 .timedOut]

example : okRun ⟨false⟩ exTimedTimeoutWins = true := by decide
example : ((runD ⟨false⟩ exTimedTimeoutWins).recs (.w 0)).unl = [Unl.self] := by decide

/-- two reader-mode waiters (threads 0 and 1), one signal (thread 2) wakes both -/
def exReaders : List Event := [
  .tick 100,
  .callWait 0 false none false, .recSt 0 .wSt1 (.w 0) 1 0, .muLd 0 .wMode 512,
  .wordLd 0 .spin0 0, .wordCas 0 0 3 0 true, .recLd 0 .wRc (.w 0) 0, .wordSt 0 .waitRel 2 3,
  .relMark 0 .rd, .nret 0, .recLd 0 .wHead (.w 0) 1, .semPdEnter 0 0 none,
  .callWait 1 false none false, .recSt 1 .wSt1 (.w 1) 1 0, .muLd 1 .wMode 256,
  .wordLd 1 .spin0 2, .wordCas 1 2 3 2 true, .recLd 1 .wRc (.w 1) 0, .wordSt 1 .waitRel 2 3,
  .relMark 1 .rd, .nret 1, .recLd 1 .wHead (.w 1) 1, .semPdEnter 1 1 none,
  .callSignal 2, .wordLd 2 .sigLd 2, .wordLd 2 .spin0 2, .wordCas 2 2 3 2 true,
  .recLd 2 (.sRcLd true) (.w 0) 0, .recCas 2 (.sRcCas true) (.w 0) 0 1 0 true,
  .recLd 2 (.sRcLd false) (.w 1) 0, .recCas 2 (.sRcCas false) (.w 1) 0 1 0 true,
  .wordSt 2 .sigRel 0 3, .muLd 2 .wwLd 0,
  .recSt 2 .wake (.w 0) 0 1, .semV 2 0, .recSt 2 .wake (.w 1) 0 1, .semV 2 1, .retSignal 2]

example : okRun ⟨false⟩ exReaders = true := by decide
example : ((runD ⟨false⟩ exReaders).recs (.w 0)).stat = .woken ∧
          ((runD ⟨false⟩ exReaders).recs (.w 1)).stat = .woken := by decide
/-- a signal that wakes only the first reader is rejected -/
example : okRun ⟨false⟩ (exReaders.take 29 ++ [.wordSt 2 .sigRel 2 3]) = false := by decide

/-- an nsync_wait_n record woken by a broadcast; the call dequeues it (`waiting = 0`: it was ready) -/
def exWaitN : List Event := [
  .tick 100, .callWaitN 0, .nwInit 0 (.nw 0),
  .wordLd 0 .spin0 0, .wordCas 0 0 1 0 true, .recSt 0 .enqSt (.nw 0) 1 0, .wordSt 0 .enqRel 2 1,
  .recLd 0 .ready (.nw 0) 1, .semPdEnter 0 0 none,
  .callBroadcast 1, .wordLd 1 .bcLd 2, .wordLd 1 .spin0 2, .wordCas 1 2 3 2 true, .wordSt 1 .bcRel 0 3,
  .recSt 1 .wake (.nw 0) 0 1, .semV 1 0, .retBroadcast 1,
  .semPdRet 0 0 false, .recLd 0 .ready (.nw 0) 0,
  .wordLd 0 .spin0 0, .wordCas 0 0 1 0 true, .recLd 0 .deqLd (.nw 0) 0, .wordSt 0 .deqRel 0 1, .retWaitN 0]

example : okRun ⟨false⟩ exWaitN = true := by decide
example : ((runD ⟨false⟩ exWaitN).recs (.nw 0)).unl = [Unl.waker 1] := by decide

/-- The F3 schedule (corpus C04/f3_waitn_cv.txt: the broadcaster unlinks `nw0` and releases the
    spinlock, the deadline of the wait_n expires, cv_dequeue finds `waiting = 1`) on the repaired
    code: the record is not in the queue, cv_dequeue releases the spinlock and waits; the waker
    clears `waiting` and posts; cv_dequeue returns 0 and the call returns. -/
def f3Fixed : List Event := [
  .tick 100, .callWaitN 0, .nwInit 0 (.nw 0),
  .wordLd 0 .spin0 0, .wordCas 0 0 1 0 true, .recSt 0 .enqSt (.nw 0) 1 0, .wordSt 0 .enqRel 2 1,
  .recLd 0 .ready (.nw 0) 1, .semPdEnter 0 0 (some 200),
  .callBroadcast 1, .wordLd 1 .bcLd 2, .wordLd 1 .spin0 2, .wordCas 1 2 3 2 true, .wordSt 1 .bcRel 0 3,
  .tick 200, .semPdRet 0 0 true,
  .wordLd 0 .spin0 0, .wordCas 0 0 1 0 true, .recLd 0 .deqLd (.nw 0) 1,
  .wordSt 0 .deqRel 0 1, .recLd 0 .deqSpin (.nw 0) 1, .recLd 0 .deqSpin (.nw 0) 1,
  .recSt 1 .wake (.nw 0) 0 1, .semV 1 0, .retBroadcast 1,
  .recLd 0 .deqSpin (.nw 0) 0, .retWaitN 0]

theorem C04_f3_schedule_fixed :
    okRun ⟨false⟩ f3Fixed = true ∧ okRun ⟨true⟩ f3Fixed = true ∧
    ((runD ⟨false⟩ f3Fixed).recs (.nw 0)).unl = [Unl.waker 1] ∧
    ((runD ⟨false⟩ (f3Fixed.take 25)).thr 0).loc = .nDeqSpin ∧
    ((runD ⟨false⟩ (f3Fixed.take 25)).thr 0).wasQ = false ∧
    ((runD ⟨false⟩ f3Fixed).recs (.nw 0)).stat = .idle := by decide

/-- … and what the pinned code does at that point — `ATM_STORE (&nw->waiting, 0)` [cv.c/33] by
    cv_dequeue on a record that is not in the queue — is rejected by this acceptor, as is a return
    of cv_dequeue before the waker has cleared `waiting`. -/
theorem C04_f3_old_behaviour_rejected :
    okRun ⟨false⟩ (f3Fixed.take 19) = true ∧
    okRun ⟨false⟩ (f3Fixed.take 19 ++ [.recSt 0 .deqSt (.nw 0) 0 1]) = false ∧
    okRun ⟨false⟩ (f3Fixed.take 20 ++ [.retWaitN 0]) = false ∧
    okRun ⟨false⟩ (f3Fixed.take 21 ++ [.retWaitN 0]) = false := by decide

/-- the hypotheses of `C04_outcome` are satisfiable, on both return paths -/
example : deqReturns (runD ⟨false⟩ (f3Fixed.take 25)) 0 (.nw 0) (.recLd 0 .deqSpin (.nw 0) 0) := .inr rfl
example : deqReturns (runD ⟨false⟩ (exWaitN.take 22)) 0 (.nw 0) (.wordSt 0 .deqRel 0 1) :=
  .inl ⟨0, 1, rfl, by decide, by decide⟩

/-- an nsync_wait_n whose deadline expires with nobody waking: cv_dequeue finds the record in the
    queue, removes it and returns `was_queued = 1` -/
def exWaitNTimeout : List Event := [
  .tick 100, .callWaitN 0, .nwInit 0 (.nw 0),
  .wordLd 0 .spin0 0, .wordCas 0 0 1 0 true, .recSt 0 .enqSt (.nw 0) 1 0, .wordSt 0 .enqRel 2 1,
  .recLd 0 .ready (.nw 0) 1, .semPdEnter 0 0 (some 200), .tick 200, .semPdRet 0 0 true,
  .wordLd 0 .spin0 2, .wordCas 0 2 3 2 true, .recLd 0 .deqLd (.nw 0) 1, .recSt 0 .deqSt (.nw 0) 0 1,
  .wordSt 0 .deqRel 0 3, .retWaitN 0]

example : okRun ⟨false⟩ exWaitNTimeout = true ∧
    ((runD ⟨false⟩ (exWaitNTimeout.take 15)).thr 0).wasQ = true ∧
    ((runD ⟨false⟩ exWaitNTimeout).recs (.nw 0)).unl = [Unl.self] := by decide

end NsyncVerif.CvFix
