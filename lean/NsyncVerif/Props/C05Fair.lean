/-
  Properties C04 / C05, liveness half, the WAITER's side (continuation of `Props/C04Fair.lean`).

  Model, executions, fairness notions and hypotheses: `Proofs/CvFixFairDefs.lean` (unchanged); the
  hypotheses are discussed in the header of `Props/C04Fair.lean`.  New proof files:
  `Proofs/CvFixFairWaitStep.lean` (the control-flow graph of the wait: `WSucc`, `wait_step`),
  `CvFixFairWaitRec.lean` / `CvFixFairWaitCov.lean` (a record unlinked by a waker stays "covered"
  until its owner leaves the loop), `CvFixFairWaitHop.lean` (one hop along the graph: `hop`,
  `hop_spin`), `CvFixFairWaitDone.lean` (`covered_exits`, `exit_returns`, `covered_returns`).

  STATUS — see the end of this header for what is NOT proved.
  PROVED, under `WaitHyps` (= `Hyps` ∧ `SemFair` ∧ `MutexFair` ∧ `AllocFair` ∧ `CancelFair` ∧
  `TransferFair` ∧ `PostKept` ∧ `FiniteSpurious`; of the last two groups the proofs below use
  `SemFair`, `MutexFair`, `CancelFair`, `TransferFair`, `PostKept` only):
  * `C04_fair_woken_returns`   a cv wait whose record has been unlinked by a waker — it is on the
                               waker's list, woken (`waiting := 0` stored), or transferred to the
                               mutex queue — RETURNS, with result 0 (`.ok`);
  * `C05_fair_exit_returns`    a wait that has left its loop returns (re-acquisition: `MutexFair`);
  * `C04_fair_wakeup : C04_fair_wakeup_full`   THE FULL STATEMENT of C04, liveness form: (1) every
                               signal / broadcast returns; (2) every record on `pcv->waiters` when a
                               broadcast takes the spinlock is woken or transferred, and if it is the
                               record of a cv wait its owner's call returns 0; (3) the same for
                               the records `nsync_cv_signal` selects (the first waiter: at least one);
  * `C05_fair_return_partial`  clause (c) of `C05_fair_return_full` ("a wait with neither deadline
                               nor note returns if it is ever covered by a wake-up" — proved for
                               EVERY kind of wait, timed and cancellable included).
  * non-vacuity: `bc_waitHyps : WaitHyps bcExec` (`exBroadcast` + idling satisfies ALL hypotheses;
    in it thread 0 sleeps on its semaphore, `Covered`, when the broadcast has taken the spinlock);
    the examples after it apply `C04_fair_wakeup` to it.  (`waitHyps_of_trace`,
    Proofs/CvFixFairWaitTrace.lean, gives `WaitHyps` for any accepted trace from `init` that ends
    quiescent and contains no transfer; a record no event names stays idle: `idle_stable`.)
  * each additional hypothesis that the proofs USE is NEEDED — an execution (accepted trace + idling)
    in which all the others hold and thread 0 stays inside its wait for ever:
    `C05_fair_needs_sem_fair` (posted, count 1, the sleeper never returns),
    `C05_fair_needs_post_kept` (the waker's V is consumed by a foreign `sem p_ret`),
    `C05_fair_needs_mutex_fair` (stuck in nsync_mu_lock after the loop),
    `C05_fair_needs_transfer_fair` (transferred, never woken by the mutex layer),
    `C05_fair_needs_cancel_fair` (stuck in the note code of sem_wait.c).
    `AllocFair` and `FiniteSpurious` are NOT used by anything proved here (no witness given).

  NOT PROVED (no theorem claims them; the statements stay `def … : Prop` in CvFixFairDefs.lean):
  * `C05_fair_timed_return` / clause (a) of `C05_fair_return_full` (a timed wait returns once the
    clock has passed its deadline) and clause (b) (a cancellable wait returns once its thread has seen
    the note notified); hence `C05_fair_return : C05_fair_return_full` is NOT proved — only
    `C05_fair_return_partial` (clause (c)).  What is there for them: the control-flow graph with the
    side conditions of every edge (`WSucc`, `wait_step`: which edge needs `waiting = 0/1`,
    `sem_outcome = 0 / ≠ 0`, `remove_count` equal or not), `hop` / `hop_spin` (every program point of
    the wait is left, given that the semaphore wait ends), `exit_returns`, and `covered_returns` for
    the case "the timeout lost the race against a waker" (cv.c:259-260 `remove_count` differs).
    What is missing: the argument that a waiter that is NOT covered eventually takes the edge
    `wSemRet → wChk` with ETIMEDOUT (this is where `FiniteSpurious` and `CanWake` by the deadline
    enter: `TInvC.semRet`, `dlLe`), keeps `sem_outcome ≠ 0` afterwards (`WKeep`, clause 4), reaches
    `wCmp` and — `remove_count` unchanged — removes itself (`wRmLd … wClr`, whose `remove_count`
    CAS loop needs the rank `rkS` of Proofs/CvFixFairStep.lean) and leaves the loop with
    `waiting = 0` (`TInvB.soW`); for (b) the same with `NoSleepAfterNotify` / `NoteWakes`.
-/
import NsyncVerif.Proofs.CvFixFairWaitStuck

namespace NsyncVerif.CvFix

/-- (2) A waiter whose record is on a waker's list, woken, or transferred returns, with result 0. -/
theorem C04_fair_woken_returns {cfg : Config} {s0 : State} (x : Exec cfg s0) (hy : WaitHyps x)
    {t : Tid} {i : Nat} (h : Covered (x.ρ i) t) : ∃ j, i ≤ j ∧ x.σ j = some (.retWait t .ok) :=
  covered_returns x hy h

/-- A wait that has left its loop (program points `wExit`, `wLocking`, `wRelocking`, `wRet`)
    returns. -/
theorem C05_fair_exit_returns {cfg : Config} {s0 : State} (x : Exec cfg s0) (hy : WaitHyps x)
    {t : Tid} {i : Nat} (h : ((x.ρ i).thr t).loc.afterLoop = true) :
    ∃ j res, i ≤ j ∧ x.σ j = some (.retWait t res) := by
  obtain ⟨j, res, h1, h2, _⟩ := exit_returns x hy 3 i h (by split <;> simp)
  exact ⟨j, res, h1, h2⟩

/-- The owner of a pooled record that a waker unlinks at its acquisition is covered right after. -/
theorem acquired_covered {cfg : Config} {s0 : State} (x : Exec cfg s0) (hr : Reachable cfg s0)
    {t : Tid} {b : Bool} {i : Nat} (ha : WakerAcquires x t b i) {r : Rid}
    (hsel : r ∈ (if b then (x.ρ i).queue else sigSelect (x.ρ i).recs (x.ρ i).queue))
    (hm : r.isMucv = true) : Covered (x.ρ (i + 1)) ((x.ρ i).recs r).owner := by
  obtain ⟨⟨exp, new, obs, he⟩, hc, hb⟩ := ha
  obtain ⟨hl, _, hrec, _⟩ := acq_sig_state (x.next_some he) hc
  rw [hb] at hrec
  have hq : r ∈ (x.ρ i).queue := by
    cases b
    · exact (sigSelect_sublist _ _).subset (by simpa using hsel)
    · simpa using hsel
  have hi := x.inv hr i
  have hst := (hi.a.qMem r).mp hq
  obtain ⟨hwl, hor⟩ := (invH_reachable (x.reach hr i)).own r hm hst
  have hne : ((x.ρ i).recs r).owner ≠ t := by
    intro h
    rw [h] at hwl
    unfold waitLive at hwl
    rw [hl] at hwl
    simp [hc] at hwl
  have hthr := tr_other (step_tr (x.next_some he)) (t := ((x.ρ i).recs r).owner)
    (by simp only [Event.tid, ne_eq, Option.some.injEq]; exact fun h => hne h.symm)
  refine ⟨by rw [hthr]; exact hwl, .inl ⟨t, ?_⟩⟩
  rw [hthr, hor, hrec r]
  have : (if b = true then (x.ρ i).queue else sigSelect (x.ρ i).recs (x.ρ i).queue).contains r = true := by
    simpa using hsel
  rw [if_pos this]

/-- (3) THE FULL STATEMENT: `C04_fair_wakeup_full` (Proofs/CvFixFairDefs.lean). -/
theorem C04_fair_wakeup : C04_fair_wakeup_full := by
  intro cfg s0 x hy
  have hh := hy.toHyps
  refine ⟨fun t i hw => C04_fair_signal_returns x hh hw, ?_, ?_⟩
  · intro t i ha r hr
    refine ⟨C04_fair_broadcast_wakes_all x hh ha hr, fun hm => ?_⟩
    have hc := acquired_covered x hy.reach ha (r := r) (by simpa using hr) hm
    obtain ⟨j, hj, h⟩ := covered_returns x hy hc
    exact ⟨j, by omega, h⟩
  · intro t i ha
    obtain ⟨h1, h2⟩ := C04_fair_signal_wakes_one x hh ha
    refine ⟨h1, fun r hr => ⟨h2 r hr, fun hm => ?_⟩⟩
    have hc := acquired_covered x hy.reach ha (r := r) (by simpa using hr) hm
    obtain ⟨j, hj, h⟩ := covered_returns x hy hc
    exact ⟨j, by omega, h⟩

/-- Clause (c) of `C05_fair_return_full`. -/
def C05_fair_return_partial_stmt : Prop :=
  ∀ (cfg : Config) (s0 : State) (x : Exec cfg s0), WaitHyps x →
    ∀ t i, Covered (x.ρ i) t → ∃ j, i ≤ j ∧ x.σ j = some (.retWait t .ok)

theorem C05_fair_return_partial : C05_fair_return_partial_stmt :=
  fun _ _ x hy _ _ h => covered_returns x hy h

/-! ### non-vacuity: `WaitHyps` is satisfiable, by an execution in which a thread really sleeps -/

/-- `bcExec` (Props/C04Fair.lean: `exBroadcast` — a writer-mode waiter that sleeps on its semaphore,
    a broadcaster — followed by idling) satisfies ALL hypotheses: `WaitHyps`. -/
theorem bc_waitHyps : WaitHyps bcExec :=
  waitHyps_of_trace exBroadcast _ (ok_of_okRun (by decide)) bc_final_idle 1 (by decide)
    (by decide +kernel) (by decide +kernel)

/-- The full theorem applies to it: thread 0, asleep on its semaphore when the broadcast takes the
    spinlock at time 16 (`bc_acquires`), returns 0. -/
example : ∃ j, 16 ≤ j ∧ bcExec.σ j = some (.retWait 0 .ok) := by
  have h := (C04_fair_wakeup _ _ bcExec bc_waitHyps).2.1 1 16 bc_acquires.1 (.w 0)
    (by rw [bc_acquires.2.1]; simp)
  have ho : ((bcExec.ρ 16).recs (.w 0)).owner = 0 := by decide
  rw [ho] at h
  exact h.2 rfl

/-- … and at time 17 its wait is `Covered` (record on the broadcaster's list) while it sleeps. -/
example : Covered (bcExec.ρ 17) 0 ∧ ((bcExec.ρ 17).thr 0).loc = .wSemRet :=
  ⟨⟨by decide, .inl ⟨1, by decide⟩⟩, by decide⟩

/-! ### the additional hypotheses are needed

Each witness is a prefix of an accepted trace followed by idling, in which thread 0 is left inside its
wait for ever: all hypotheses of `WaitHyps` hold except the one named. -/

theorem others_idle {cfg : Config} {evs : List Event} (hok : okRun cfg evs = true) (m : Nat) (t0 : Tid)
    (hb : tidsBelow m evs = true)
    (hd : ∀ t, t < m → t ≠ t0 → ((runD cfg evs).thr t).loc = .idle) :
    ∀ t, t ≠ t0 → ((runD cfg evs).thr t).loc = .idle := by
  intro t ht
  by_cases hm : t < m
  · exact hd t hm ht
  · have := run_untouched (cfg := cfg) (t := t) evs init (runD cfg evs)
      (tidsBelow_ne hb (Nat.le_of_not_lt hm)) (ok_of_okRun hok)
    rw [this]; rfl

/-- What all witnesses share: everything but `SemFair`, `MutexFair`, `CancelFair`, `TransferFair`,
    `PostKept`. -/
def BaseHyps {cfg : Config} {s0 : State} (x : Exec cfg s0) : Prop :=
  Hyps x ∧ AllocFair x ∧ FiniteSpurious x

/-- the waiter of `exBroadcast` has been woken, has left its loop and called nsync_mu_lock -/
def mutexEvs : List Event := exBroadcast.take 28

/-- `MutexFair` cannot be dropped: the woken waiter never gets the caller's mutex back. -/
theorem C05_fair_needs_mutex_fair :
    ∃ x : Exec ⟨false⟩ init, BaseHyps x ∧ SemFair x ∧ CancelFair x ∧ TransferFair x ∧ PostKept x ∧
      ¬ MutexFair x ∧ ∀ j, 28 ≤ j → ((x.ρ j).thr 0).loc = .wLocking := by
  have hok : okRun ⟨false⟩ mutexEvs = true := by decide
  have sh := stuck_of_trace mutexEvs _ (ok_of_okRun hok) 0 .wLocking (by decide)
    (others_idle hok 2 0 (by decide) (by decide)) (.inr (.inl rfl))
  have rh := recHyps_of_trace mutexEvs _ (ok_of_okRun hok) 1 (by decide)
  refine ⟨_, ⟨sh.hyps, sh.alloc (by decide), sh.finSp⟩, sh.sem (fun h => by cases h),
    sh.cancel rfl, rh.1 (by decide +kernel), rh.2 (by decide +kernel), ?_, sh.stuck⟩
  intro hm
  obtain ⟨j, hj, hne⟩ := hm 0 28 (by rw [sh.stuck 28 (Nat.le_refl _)]; rfl)
  rw [sh.stuck j hj, sh.stuck 28 (Nat.le_refl _)] at hne
  exact hne rfl

/-- the waiter of `exBroadcast` sleeps; the broadcaster has stored `waiting := 0`, posted, returned -/
def semEvs : List Event := exBroadcast.take 24

/-- `SemFair` cannot be dropped: the semaphore has been posted (count 1) and the sleeper never
    returns from its semaphore wait. -/
theorem C05_fair_needs_sem_fair :
    ∃ x : Exec ⟨false⟩ init, BaseHyps x ∧ MutexFair x ∧ CancelFair x ∧ TransferFair x ∧ PostKept x ∧
      ¬ SemFair x ∧ (∀ j, 24 ≤ j → ((x.ρ j).thr 0).loc = .wSemRet) ∧ Covered (x.ρ 24) 0 := by
  have hok : okRun ⟨false⟩ semEvs = true := by decide
  have sh := stuck_of_trace semEvs _ (ok_of_okRun hok) 0 .wSemRet (by decide)
    (others_idle hok 2 0 (by decide) (by decide)) (.inr (.inr rfl))
  have rh := recHyps_of_trace semEvs _ (ok_of_okRun hok) 1 (by decide)
  have hlen : semEvs.length = 24 := by decide
  have hfin : ∀ j, 24 ≤ j → (traceExec ⟨false⟩ init semEvs _ (ok_of_okRun hok)).ρ j = runD ⟨false⟩ semEvs :=
    fun j hj => (traceExec_tail (ok_of_okRun hok) (by rw [hlen]; exact hj)).1
  refine ⟨_, ⟨sh.hyps, sh.alloc (by decide), sh.finSp⟩, sh.mutex rfl,
    sh.cancel rfl, rh.1 (by decide +kernel), rh.2 (by decide +kernel), ?_, sh.stuck, ?_⟩
  · intro hs
    apply hs 0 24
    intro j hj
    refine ⟨by rw [sh.stuck j hj]; rfl, .inl ⟨0, ?_, ?_⟩⟩
    · rw [hfin j hj]; decide
    · rw [hfin j hj]; decide
  · show Covered ((traceExec ⟨false⟩ init semEvs _ (ok_of_okRun hok)).ρ 24) 0
    rw [hfin 24 (Nat.le_refl _)]
    exact ⟨by decide, .inr (.inl (by decide))⟩

/-- … and then another thread (outside cv.c) consumes the post. -/
def keptEvs : List Event := exBroadcast.take 24 ++ [.semPEnter 2 0, .semPRet 2 0]

/-- `PostKept` cannot be dropped: the waker's V has been consumed by somebody else (the acceptor
    accepts `sem p_ret` on any semaphore from any thread outside cv.c); the woken waiter sleeps for
    ever with count 0 — the semaphore layer is not to blame (`SemFair` holds). -/
theorem C05_fair_needs_post_kept :
    ∃ x : Exec ⟨false⟩ init, BaseHyps x ∧ SemFair x ∧ MutexFair x ∧ CancelFair x ∧ TransferFair x ∧
      ¬ PostKept x ∧ (∀ j, 26 ≤ j → ((x.ρ j).thr 0).loc = .wSemRet) ∧ Covered (x.ρ 26) 0 := by
  have hok : okRun ⟨false⟩ keptEvs = true := by decide
  have sh := stuck_of_trace keptEvs _ (ok_of_okRun hok) 0 .wSemRet (by decide)
    (others_idle hok 3 0 (by decide) (by decide)) (.inr (.inr rfl))
  have rh := recHyps_of_trace keptEvs _ (ok_of_okRun hok) 1 (by decide)
  have hfin : (traceExec ⟨false⟩ init keptEvs _ (ok_of_okRun hok)).ρ 26 = runD ⟨false⟩ keptEvs :=
    (traceExec_tail (ok_of_okRun hok) (by decide)).1
  refine ⟨_, ⟨sh.hyps, sh.alloc (by decide), sh.finSp⟩, sh.sem (fun _ => ?_), sh.mutex rfl,
    sh.cancel rfl, rh.1 (by decide +kernel), ?_, sh.stuck, ?_⟩
  · show ¬ CanWake ((traceExec ⟨false⟩ init keptEvs _ (ok_of_okRun hok)).ρ 26) 0
    rw [hfin]
    rintro (⟨k, hk, hs⟩ | ⟨d, hd, _⟩)
    · have hr : ((runD ⟨false⟩ keptEvs).thr 0).r = .w 0 := by decide
      rw [hr] at hk; cases hk
      have : (runD ⟨false⟩ keptEvs).sem 0 = 0 := by decide
      omega
    · have : ((runD ⟨false⟩ keptEvs).thr 0).semDl = none := by decide
      rw [this] at hd; cases hd
  · intro hk
    have := hk 26 0
    rw [hfin] at this
    have h0 := this (by decide) (by decide) (by decide) (by decide)
    have : (runD ⟨false⟩ keptEvs).sem 0 = 0 := by decide
    omega
  · show Covered ((traceExec ⟨false⟩ init keptEvs _ (ok_of_okRun hok)).ρ 26) 0
    rw [hfin]
    exact ⟨by decide, .inr (.inl (by decide))⟩

/-- `xferAll` (Props/C03Signal.lean) up to the return of the signaller: the sleeping waiter's record
    has been transferred to the mutex queue. -/
def xferEvs : List Event := xferAll.take 25

/-- `TransferFair` cannot be dropped: the mutex layer never wakes the transferred waiter. -/
theorem C05_fair_needs_transfer_fair :
    ∃ x : Exec ⟨false⟩ init, BaseHyps x ∧ SemFair x ∧ MutexFair x ∧ CancelFair x ∧ PostKept x ∧
      ¬ TransferFair x ∧ (∀ j, 25 ≤ j → ((x.ρ j).thr 0).loc = .wSemRet) ∧ Covered (x.ρ 25) 0 := by
  have hok : okRun ⟨false⟩ xferEvs = true := by decide
  have sh := stuck_of_trace xferEvs _ (ok_of_okRun hok) 0 .wSemRet (by decide)
    (others_idle hok 2 0 (by decide) (by decide)) (.inr (.inr rfl))
  have rh := recHyps_of_trace xferEvs _ (ok_of_okRun hok) 1 (by decide)
  have hlen : xferEvs.length = 25 := by decide
  have hfin : ∀ j, 25 ≤ j → (traceExec ⟨false⟩ init xferEvs _ (ok_of_okRun hok)).ρ j = runD ⟨false⟩ xferEvs :=
    fun j hj => (traceExec_tail (ok_of_okRun hok) (by rw [hlen]; exact hj)).1
  refine ⟨_, ⟨sh.hyps, sh.alloc (by decide), sh.finSp⟩, sh.sem (fun _ => ?_), sh.mutex rfl,
    sh.cancel rfl, rh.2 (by decide +kernel), ?_, sh.stuck, ?_⟩
  · show ¬ CanWake ((traceExec ⟨false⟩ init xferEvs _ (ok_of_okRun hok)).ρ xferEvs.length) 0
    rw [hfin _ (by rw [hlen]; exact Nat.le_refl _)]
    rintro (⟨k, hk, hs⟩ | ⟨d, hd, _⟩)
    · have hr : ((runD ⟨false⟩ xferEvs).thr 0).r = .w 0 := by decide
      rw [hr] at hk; cases hk
      have : (runD ⟨false⟩ xferEvs).sem 0 = 0 := by decide
      omega
    · have : ((runD ⟨false⟩ xferEvs).thr 0).semDl = none := by decide
      rw [this] at hd; cases hd
  · intro ht
    obtain ⟨j, hj, h⟩ := ht 0 25 (by rw [hfin 25 (Nat.le_refl _)]; decide)
    have := (h j (Nat.le_refl _) (by rw [hfin j hj]; decide)).1
    rw [hfin j hj] at this
    have hw : ((runD ⟨false⟩ xferEvs).recs (.w 0)).waiting = true := by decide
    rw [hw] at this; cases this
  · show Covered ((traceExec ⟨false⟩ init xferEvs _ (ok_of_okRun hok)).ρ 25) 0
    rw [hfin 25 (Nat.le_refl _)]
    exact ⟨by decide, .inr (.inr (by decide))⟩

/-- a cancellable wait (with a note) that has enqueued itself and entered nsync_sem_wait_with_cancel_ -/
def cancelEvs : List Event := [
  .tick 100, .callWait 0 false none true, .wInit 0 (.w 0), .recSt 0 .wSt1 (.w 0) 1 0, .muLd 0 .wMode 1,
  .wordLd 0 .spin0 0, .wordCas 0 0 3 0 true, .recLd 0 .wRc (.w 0) 0, .wordSt 0 .waitRel 2 3,
  .relMark 0 .wr, .nret 0, .recLd 0 .wHead (.w 0) 1]

/-- `CancelFair` cannot be dropped: the note code called by sem_wait.c never comes back. -/
theorem C05_fair_needs_cancel_fair :
    ∃ x : Exec ⟨false⟩ init, BaseHyps x ∧ SemFair x ∧ MutexFair x ∧ TransferFair x ∧ PostKept x ∧
      ¬ CancelFair x ∧ ∀ j, 12 ≤ j → ((x.ρ j).thr 0).loc = .cPre := by
  have hok : okRun ⟨false⟩ cancelEvs = true := by decide
  have sh := stuck_of_trace cancelEvs _ (ok_of_okRun hok) 0 .cPre (by decide)
    (others_idle hok 1 0 (by decide) (by decide)) (.inr (.inl rfl))
  have rh := recHyps_of_trace cancelEvs _ (ok_of_okRun hok) 1 (by decide)
  refine ⟨_, ⟨sh.hyps, sh.alloc (by decide), sh.finSp⟩, sh.sem (fun h => by cases h), sh.mutex rfl,
    rh.1 (by decide +kernel), rh.2 (by decide +kernel), ?_, sh.stuck⟩
  intro hm
  obtain ⟨j, hj, hne⟩ := hm 0 12 (by rw [sh.stuck 12 (Nat.le_refl _)]; rfl)
  rw [sh.stuck j hj, sh.stuck 12 (Nat.le_refl _)] at hne
  exact hne rfl

end NsyncVerif.CvFix
