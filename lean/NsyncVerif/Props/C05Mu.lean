import NsyncVerif.Proofs.MuCInv2Api
/-!
# C05 (nsync_mu_wait part) — what nsync_mu_wait_with_deadline returns

Model: `NsyncVerif.Model.MuC` (one `nsync_mu` with conditional critical sections; one step per atomic
operation / semaphore operation / API boundary / condition evaluation / data access / tick).
`Reachable cfg s` quantifies over all programs, interleavings, thread counts and clock ticks; the
theorems are consequences of inductive invariants (`Proofs/MuCInv1*.lean`: lock invariant and local
facts; `Proofs/MuCInv2*.lean`: clock- and data-dependent facts) and hold for both semaphore flavours.

A `ret nsync_mu_wait_with_deadline r` line is ACCEPTED by the model only at the program point
`mwRet c cit` and only with `r = if cit then 0 else c.outc` — the acceptor recomputes the result
from the execution so far (`stepRet`), so the theorems below speak about every logged return the
correspondence check accepts.

* `C05_mode`        the call returns with the mutex held (a share owned in the word, ghost owner
                    sets, client-visible `held`) in the mode `c.hm` in which the caller held it at the
                    call (`C05_mode_recorded`: `hm` is the value of `held` at the call; no step assigns
                    to `hm`); the mode the C code detects from the word (mu_wait.c:159-167) is that mode.
* `C05_mu_wait_0`   it returns 0 exactly when the condition (NULL counts as true) is true on the
                    current client data at the return.
* `C05_timedout`    ETIMEDOUT ⇒ the caller's deadline is finite and ≤ now.
* `C05_cancelled`   ECANCELED ⇒ a note was passed and this call saw it notified (acquire load of
                    `notified` ≠ 0, or its own store `notified := 1`, or its own nsync_note_notify after
                    the timed P expired at the note's deadline: see Model/MuC.lean, "CANCEL NOTE").
* `C05_no_resleep_partial`  see below.

`C05_no_resleep_full` (the literal formalisation "once sem_outcome ≠ 0 the thread executes no further
semaphore wait in this call") is FALSE for the code, for two legitimate reasons, both exhibited by
accepted traces below (`resleep_lock_slow`, `resleep_second_round`):
 (1) if the waiter was woken concurrently with the timeout (waiting = 0 at mu_wait.c:244 or :96) the
     call re-acquires with nsync_mu_lock_slow_ (mu_wait.c:262), which queues the thread as an ordinary
     waiter and sleeps in nsync_mu_semaphore_p until the mutex is handed on — "it returns as soon as
     the mutex can be re-acquired", which for a contended mutex means an ordinary mutex wake-up;
 (2) in that case `outcome` stays 0 (mu_wait.c:249 sets it only when mu_try_acquire_after_timeout_or_cancel
     succeeds), so a false condition sends the call round the outer loop again: it queues itself again
     and calls nsync_sem_wait_with_cancel_ again — with the expired deadline, so that P returns
     ETIMEDOUT at once and needs no wake-up.
What is proved (`C05_no_resleep_partial`): inside one pass of the wait loop (mu_wait.c:240-258), once
sem_outcome ≠ 0 no semaphore operation is accepted from the thread until it leaves the loop, and the
loop is left only towards lock_slow / the re-evaluation of the condition; and (`C05_timed_p_deadline`)
every timed P of the call has a deadline ≤ the caller's, hence ≤ now once the caller's has passed.
-/
namespace NsyncVerif.MuC

/-- `hm` records the client-visible mode at the call. -/
theorem C05_mode_recorded {s s' : State} {t : Tid} {cnd : Option Cond} {dl : Option Int} {note : Bool}
    (h : stepCall s t (.wait cnd dl note) = .ok s') :
    ∃ c, s'.pc t = .mwLd0 c ∧ s.held t = some c.hm ∧ c.cond = cnd ∧ c.dl = dl ∧ c.note = note := by
  unfold stepCall at h
  split at h
  · dsimp only at h
    repeat' split at h
    all_goals first
      | (cases h; done)
      | (cases h; simp_all [setFn])
  · cases h

/-- The shape of an accepted return. -/
theorem wait_ret_inv {cfg : Cfg} {s s' : State} {t : Tid} {cnd : Option Cond} {dl : Option Int} {note : Bool} {res : Res}
    (h : step cfg s (.ret t (.wait cnd dl note) res) = .ok s') :
    ∃ c cit, s.pc t = .mwRet c cit ∧ cnd = c.cond ∧ dl = c.dl ∧ note = c.note ∧
      res = .outc (if cit then .ok else c.outc) ∧
      ∃ ss, s' = { setHeld (dropW (setPc s t .idle) c.w) t (some c.l) with secStart := ss } := by
  simp only [step, stepRet] at h
  split at h
  all_goals first
    | (cases h; done)
    | (rename_i ha; cases ha; done)
    | (rename_i ha _; cases ha; done)
    | skip
  rename_i c cit cnd' dl' note' o heq ha
  cases ha
  by_cases hn1 : cnd ≠ c.cond ∨ dl ≠ c.dl ∨ note ≠ c.note
  · rw [if_pos hn1] at h; cases h
  · rw [if_neg hn1] at h
    by_cases hn2 : o ≠ if cit = true then Outc.ok else c.outc
    · rw [if_pos hn2] at h; cases h
    · rw [if_neg hn2] at h
      simp only [not_or, Decidable.not_not] at hn1 hn2
      cases h
      refine ⟨c, cit, heq, hn1.1, hn1.2.1, hn1.2.2, by rw [hn2], ?_⟩
      split
      · exact ⟨_, rfl⟩
      · exact ⟨_, rfl⟩

theorem C05_mode {cfg : Cfg} {s s' : State} {t : Tid} {cnd : Option Cond} {dl : Option Int} {note : Bool} {res : Res}
    (hr : Reachable cfg s) (h : step cfg s (.ret t (.wait cnd dl note) res) = .ok s') :
    ∃ c cit, s.pc t = .mwRet c cit ∧ s'.held t = some c.hm ∧ shareOf s' t = some c.hm ∧
      (c.hm = .W → s'.wOwner = some t ∧ s'.word.wlock = true ∧ s'.word.readers = 0) ∧
      (c.hm = .R → t ∈ s'.rOwners ∧ s'.word.readers ≠ 0 ∧ s'.word.wlock = false) := by
  obtain ⟨c, cit, heq, -, -, -, -, ss, rfl⟩ := wait_ret_inv h
  have inv := reachable_inv1 hr
  have inv' := inv1_step inv h
  have hok := inv.pcok t; rw [heq] at hok
  have hl : c.l = c.hm := hok.1.1
  have hheld : ({ setHeld (dropW (setPc s t .idle) c.w) t (some c.l) with secStart := ss } : State).held t = some c.hm := by simp [setFn, hl]
  have hsh : shareOf ({ setHeld (dropW (setPc s t .idle) c.w) t (some c.l) with secStart := ss } : State) t = some c.hm := by
    simp [shareOf, tshare, setFn, hl]
  refine ⟨c, cit, heq, hheld, hsh, ?_, ?_⟩
  · intro hm
    rw [hm] at hsh
    have hown := (inv'.lock.wown t).2 hsh
    have hwl : ({ setHeld (dropW (setPc s t .idle) c.w) t (some c.l) with secStart := ss } : State).word.wlock = true := by rw [inv'.lock.wl, hown]; rfl
    exact ⟨hown, hwl, inv'.lock.excl hwl⟩
  · intro hm
    rw [hm] at hsh
    have hmem := (inv'.lock.rown t).2 hsh
    have hne : ({ setHeld (dropW (setPc s t .idle) c.w) t (some c.l) with secStart := ss } : State).word.readers ≠ 0 := by
      rw [inv'.lock.rd]; intro e
      rw [List.length_eq_zero_iff.mp e] at hmem; cases hmem
    refine ⟨hmem, hne, ?_⟩
    cases hw : ({ setHeld (dropW (setPc s t .idle) c.w) t (some c.l) with secStart := ss } : State).word.wlock with
    | false => rfl
    | true => exact absurd (inv'.lock.excl hw) hne

theorem C05_mu_wait_0 {cfg : Cfg} {s s' : State} {t : Tid} {cnd : Option Cond} {dl : Option Int} {note : Bool} {o : Outc}
    (hr : Reachable cfg s) (h : step cfg s (.ret t (.wait cnd dl note) (.outc o)) = .ok s') :
    (o = .ok ↔ evalOpt s.data cnd = true) ∧ (o = .ok ↔ evalOpt s'.data cnd = true) := by
  obtain ⟨c, cit, heq, rfl, -, -, ho, ss, rfl⟩ := wait_ret_inv h
  have inv1 := reachable_inv1 hr
  have inv2 := reachable_inv2 hr
  have hok := inv1.pcok t; rw [heq] at hok
  have hev := (inv2 t).2 c cit heq
  simp only [Res.outc.injEq] at ho
  have : o = .ok ↔ evalOpt s.data c.cond = true := by
    rw [← hev, ho]
    cases cit with
    | true => simp
    | false => simpa using hok.2 rfl
  exact ⟨this, by simpa using this⟩

theorem C05_timedout {cfg : Cfg} {s s' : State} {t : Tid} {cnd : Option Cond} {dl : Option Int} {note : Bool}
    (hr : Reachable cfg s) (h : step cfg s (.ret t (.wait cnd dl note) (.outc .timedout)) = .ok s') :
    ∃ d, dl = some d ∧ d ≤ s.now := by
  obtain ⟨c, cit, heq, -, rfl, -, ho, -, -⟩ := wait_ret_inv h
  have inv2 := reachable_inv2 hr
  have ht := (inv2 t).1 c (by rw [heq]; rfl)
  simp only [Res.outc.injEq] at ho
  cases cit with
  | true => simp at ho
  | false => simp at ho; exact ht.2 ho.symm

theorem C05_cancelled {cfg : Cfg} {s s' : State} {t : Tid} {cnd : Option Cond} {dl : Option Int} {note : Bool}
    (hr : Reachable cfg s) (h : step cfg s (.ret t (.wait cnd dl note) (.outc .cancelled)) = .ok s') :
    ∃ c cit, s.pc t = .mwRet c cit ∧ c.saw = true := by
  obtain ⟨c, cit, heq, -, -, -, ho, -, -⟩ := wait_ret_inv h
  have inv1 := reachable_inv1 hr
  have hok := inv1.pcok t; rw [heq] at hok
  simp only [Res.outc.injEq] at ho
  refine ⟨c, cit, heq, ?_⟩
  cases cit with
  | true => simp at ho
  | false => simp at ho; exact hok.1.2.2.1 ho.symm

/-! ## no further wake-up needed once the deadline has passed / the note is notified -/

/-- Inside the wait loop of mu_wait.c:240-258 with sem_outcome ≠ 0 (the timed-out / cancelled pass,
    including mu_try_acquire_after_timeout_or_cancel). -/
def PC.expired : PC → Bool
  | .mwWaitLd c | .mwLd244 c | .mwLd255 c | .mtLd c | .mtCasAcq c _ | .mtCasWW c _ | .mtLdWk c _ | .mtLdW c _ | .mtLdRc c _
  | .mtRmLd c _ | .mtRmCas c _ _ | .mtStW c _ | .mtStRel c _ _ => c.so != .ok
  | _ => false

/-- Where the wait loop is left to. -/
def PC.afterLoop : PC → Bool
  | .lsLd c => c.mw.isSome && c.clear     -- nsync_mu_lock_slow_ (mu, w, MU_DESIG_WAKER, l_type), mu_wait.c:262
  | .mwEval _ | .mwRet _ _ => true        -- mu_wait.c:265 and after
  | _ => false

/-- A P operation (start or return, timed or not). -/
def Event.isSemWait : Event → Bool
  | .semPEnter _ _ | .semPRet _ _ | .semPdEnter _ _ _ | .semPdRet _ _ _ => true
  | _ => false

def Event.isRetOf (t : Tid) : Event → Bool
  | .ret t' _ _ => t' == t
  | _ => false

/-- The literal reading of "once sem_outcome ≠ 0 the thread executes no further semaphore wait in
    this call": FALSE, see `C05_no_resleep_full_refuted`. -/
def C05_no_resleep_full : Prop :=
  ∀ (cfg : Cfg) (evs mid : List Event) (s s' s'' : State) (t : Tid) (e : Event),
    run cfg init evs = .ok s → (s.pc t).expired = true →
    run cfg s mid = .ok s' → mid.all (fun e' => !e'.isRetOf t) = true →
    step cfg s' e = .ok s'' → e.tid = some t → e.isSemWait = false

macro "exp_case" hp:ident heq:ident h:ident : tactic => `(tactic|
  (rw [$heq:ident] at $hp:ident
   first
   | (simp [PC.expired] at $hp:ident; done)
   | (try dsimp only at $h:ident
      try simp only [ldWord, ldWaiting, casWord] at $h:ident
      repeat' split at $h:ident
      all_goals first
        | (cases $h:ident; done)
        | (cases $h:ident; simp_all [PC.expired, PC.afterLoop, Event.isSemWait, loopPc, setFn, SL.fromWait]))))

theorem C05_no_resleep_partial {cfg : Cfg} {s s' : State} {e : Event} {t : Tid}
    (hp : (s.pc t).expired = true) (h : step cfg s e = .ok s') (he : e.tid = some t) :
    e.isSemWait = false ∧ ((s'.pc t).expired = true ∨ (s'.pc t).afterLoop = true) := by
  cases e with
  | call t' a =>
    cases he
    simp only [step, stepCall] at h
    split at h
    · rename_i heq; rw [heq] at hp; simp [PC.expired] at hp
    · cases h
  | ret t' a res =>
    cases he
    simp only [step, stepRet] at h
    split at h
    all_goals first
      | (cases h; done)
      | (rename_i heq; rw [heq] at hp; simp [PC.expired] at hp; done)
      | (rename_i heq _; rw [heq] at hp; simp [PC.expired] at hp; done)
      | (rename_i heq _ _; rw [heq] at hp; simp [PC.expired] at hp; done)
  | ld t' o loc obs =>
    cases he
    simp only [step, stepLd] at h
    split at h
    all_goals first
      | (cases h; done)
      | (rename_i heq; exp_case hp heq h)
  | st t' o loc new obs =>
    cases he
    simp only [step, stepSt] at h
    split at h
    all_goals first
      | (cases h; done)
      | (rename_i heq; exp_case hp heq h)
  | cas t' o loc exp new obs ok =>
    cases he
    simp only [step, stepCas] at h
    split at h
    all_goals first
      | (cases h; done)
      | (rename_i heq; rw [heq] at hp; simp [PC.expired] at hp; done)
      | (rename_i heq; exp_case hp heq h)
  | cond t' fn k res =>
    cases he
    simp only [step, stepCond] at h
    split at h
    all_goals first
      | (cases h; done)
      | (rename_i heq; rw [heq] at hp; simp [PC.expired] at hp; done)
  | semPEnter t' k =>
    cases he
    simp only [step] at h
    split at h
    · rename_i heq; rw [heq] at hp; simp [PC.expired] at hp
    · cases h
  | semPRet t' k =>
    cases he
    simp only [step] at h
    split at h
    · rename_i heq; rw [heq] at hp; simp [PC.expired] at hp
    · cases h
  | semPdEnter t' k dl =>
    cases he
    simp only [step] at h
    split at h
    · rename_i heq; rw [heq] at hp; simp [PC.expired] at hp
    · cases h
  | semPdRet t' k to =>
    cases he
    simp only [step] at h
    split at h
    · rename_i heq; rw [heq] at hp; simp [PC.expired] at hp
    · cases h
  | semV t' k =>
    cases he
    simp only [step] at h
    split at h
    · rename_i heq; rw [heq] at hp; simp [PC.expired] at hp
    · cases h
  | envV k => cases he
  | envSem k n => cases he
  | dataW t' x v =>
    cases he
    simp only [step] at h
    split at h
    · cases h; exact ⟨rfl, Or.inl hp⟩
    · cases h
  | dataR t' x v =>
    cases he
    simp only [step] at h
    split at h
    · cases h; exact ⟨rfl, Or.inl hp⟩
    · cases h
  | tick n => cases he
  | noteSeen t' =>
    cases he
    simp only [step] at h
    split at h
    · rename_i heq; rw [heq] at hp; simp [PC.expired] at hp
    · cases h
  | noteNotify t' =>
    cases he
    simp only [step] at h
    split at h
    · rename_i heq; rw [heq] at hp; simp [PC.expired] at hp
    · rename_i heq; exp_case hp heq h
    · cases h

/-- Every timed P of the call has a deadline no later than the caller's; once the caller's deadline
    has passed, the P needs no wake-up (it may return ETIMEDOUT at once). -/
theorem C05_timed_p_deadline {cfg : Cfg} {s s' : State} {t : Tid} {k : Wid} {dl : Option Int}
    (h : step cfg s (.semPdEnter t k dl) = .ok s') :
    ∃ c, s.pc t = .mwSem c ∧ dlLe dl c.dl = true ∧ (∀ d, c.dl = some d → d ≤ s.now → ∃ d', dl = some d' ∧ d' ≤ s.now) := by
  simp only [step] at h
  split at h
  · rename_i c heq
    repeat' split at h
    all_goals first
      | (cases h; done)
      | skip
    rename_i h1 h2 h3
    simp only [Bool.not_eq_true, Bool.not_eq_false] at h3
    refine ⟨c, heq, by simpa using h3, ?_⟩
    intro d hd hle
    have h3' : dlLe dl c.dl = true := by simpa using h3
    rw [hd] at h3'
    cases dl with
    | none => simp [dlLe] at h3'
    | some d' => simp [dlLe] at h3'; exact ⟨d', rfl, Int.le_trans h3' hle⟩
  · cases h

/-! ## witnesses (accepted traces of the real library, harness scenario
    `lock; muwait c0 p1000; unlock  ∥  lock; wr x0 1; unlock; lock; wr x0 0; yield; yield; unlock`) -/

def accepts (cfg : Cfg) (evs : List Event) : Bool :=
  match run cfg init evs with
  | .ok _ => true
  | .error _ => false

/-- Thread 0 waits for x0 == 1 with a deadline; thread 1 makes the condition true and wakes it at the
    moment the timed P expires (events 23-47), then takes the mutex again and makes the condition
    false.  Thread 0 sees `waiting == 0` at mu_wait.c:244, so it does not use
    mu_try_acquire_after_timeout_or_cancel; it re-acquires through nsync_mu_lock_slow_, where it
    queues and sleeps in nsync_mu_semaphore_p (event 57, again 60).  Once it has the mutex the
    condition is false and `outcome` is still 0: second round, second timed P with the expired
    deadline (event 83), which returns ETIMEDOUT at once (84); this time it is still queued, removes
    itself and returns ETIMEDOUT (97). -/
def resleepLockSlow : List Event := [
 .call 0 .lock,
 .cas 0 .acq .word 0 1 0 true,
 .ret 0 .lock .void,
 .call 0 (.wait (some { fn := .eq, k := 0, var := 0, val := 1, hasEq := false }) (some 1000000001000) false),
 .ld 0 .rlx .word 1,
 .cond 0 .eq 0 false,
 .st 0 .rlx (.waiting 0) 1 0,
 .ld 0 .rlx (.rc 0) 0,
 .ld 0 .rlx .word 1,
 .cas 0 .acq .word 1 23 1 true,
 .ld 0 .rlx .word 23,
 .cas 0 .rel .word 23 20 23 true,
 .ld 0 .acq (.waiting 0) 1,
 .semPdEnter 0 0 (some 1000000001000),
 .call 1 .lock,
 .cas 1 .acq .word 0 1 20 false,
 .ld 1 .rlx .word 20,
 .cas 1 .acq .word 20 21 20 true,
 .ret 1 .lock .void,
 .dataW 1 0 1,
 .call 1 .unlock,
 .tick 1000000001000,
 .cas 1 .rel .word 1 0 21 false,
 .semPdRet 0 0 true,
 .ld 1 .rlx .word 21,
 .ld 1 .rlx .word 21,
 .cas 1 .ar .word 21 31 21 true,
 .ld 1 .rlx .word 31,
 .cas 1 .rel .word 31 29 31 true,
 .cond 1 .eq 0 true,
 .ld 1 .rlx (.rc 0) 0,
 .cas 1 .rlx (.rc 0) 0 1 0 true,
 .ld 1 .rlx .word 29,
 .cas 1 .acq .word 29 31 29 true,
 .ld 1 .rlx .word 31,
 .cas 1 .rel .word 31 8 31 true,
 .st 1 .rel (.waiting 0) 0 1,
 .semV 1 0,
 .ret 1 .unlock .void,
 .call 1 .lock,
 .cas 1 .acq .word 0 1 8 false,
 .ld 1 .rlx .word 8,
 .cas 1 .acq .word 8 9 8 true,
 .ret 1 .lock .void,
 .dataW 1 0 0,
 .call 1 .unlock,
 .cas 1 .rel .word 1 0 9 false,
 .ld 1 .rlx .word 9,
 .ld 0 .rlx (.waiting 0) 0,
 .ld 0 .rlx (.waiting 0) 0,
 .ld 0 .acq (.waiting 0) 0,
 .ld 0 .rlx .word 9,
 .cas 0 .acq .word 9 39 9 true,
 .st 0 .rlx (.waiting 0) 1 0,
 .ld 0 .rlx .word 39,
 .cas 0 .rel .word 39 37 39 true,
 .ld 0 .acq (.waiting 0) 1,
 .semPEnter 0 0,
 .semPRet 0 0,
 .ld 0 .acq (.waiting 0) 1,
 .semPEnter 0 0,
 .cas 1 .rel .word 9 8 37 false,
 .ld 1 .rlx .word 37,
 .cas 1 .ar .word 37 46 37 true,
 .ld 1 .rlx (.rc 0) 1,
 .cas 1 .rlx (.rc 0) 1 2 1 true,
 .ld 1 .rlx .word 46,
 .cas 1 .rel .word 46 8 46 true,
 .st 1 .rel (.waiting 0) 0 1,
 .semV 1 0,
 .ret 1 .unlock .void,
 .semPRet 0 0,
 .ld 0 .acq (.waiting 0) 0,
 .ld 0 .rlx .word 8,
 .cas 0 .acq .word 8 1 8 true,
 .cond 0 .eq 0 false,
 .st 0 .rlx (.waiting 0) 1 0,
 .ld 0 .rlx (.rc 0) 2,
 .ld 0 .rlx .word 1,
 .cas 0 .acq .word 1 23 1 true,
 .ld 0 .rlx .word 23,
 .cas 0 .rel .word 23 20 23 true,
 .ld 0 .acq (.waiting 0) 1,
 .semPdEnter 0 0 (some 1000000001000),
 .semPdRet 0 0 true,
 .ld 0 .rlx (.waiting 0) 1,
 .ld 0 .rlx .word 20,
 .cas 0 .acq .word 20 23 20 true,
 .ld 0 .rlx (.waiting 0) 1,
 .ld 0 .rlx (.rc 0) 2,
 .ld 0 .rlx (.rc 0) 2,
 .cas 0 .rlx (.rc 0) 2 3 2 true,
 .st 0 .rlx (.waiting 0) 0 1,
 .st 0 .rel .word 21 23,
 .ld 0 .rlx (.waiting 0) 0,
 .ld 0 .acq (.waiting 0) 0,
 .cond 0 .eq 0 false,
 .ret 0 (.wait (some { fn := .eq, k := 0, var := 0, val := 1, hasEq := false }) (some 1000000001000) false) (.outc (.timedout)),
 .call 0 .unlock,
 .cas 0 .rel .word 1 0 21 false,
 .ld 0 .rlx .word 21,
 .ld 0 .rlx .word 21,
 .cas 0 .ar .word 21 31 21 true,
 .ld 0 .rlx .word 31,
 .cas 0 .rel .word 31 0 31 true,
 .ret 0 .unlock .void
]

example : accepts ⟨false⟩ resleepLockSlow = true := by decide

/-- after event 23 (`pd_ret ETIMEDOUT`) thread 0 is in the timed-out pass … -/
example : (match run ⟨false⟩ init (resleepLockSlow.take 24) with
    | .ok s => (s.pc 0).expired
    | .error _ => false) = true := by decide
/-- … event 57 is a `p_enter` of thread 0 (inside lock_slow), event 83 a second timed P of the same call -/
example : resleepLockSlow[57]? = some (.semPEnter 0 0) ∧
    resleepLockSlow[83]? = some (.semPdEnter 0 0 (some 1000000001000)) ∧
    ((resleepLockSlow.take 97).drop 24).all (fun e => !e.isRetOf 0) = true := by decide

def resleepCheck : Bool :=
  match run ⟨false⟩ init (resleepLockSlow.take 24) with
  | .ok s => (s.pc 0).expired &&
    (match run ⟨false⟩ s ((resleepLockSlow.take 57).drop 24) with
     | .ok s' => (match step ⟨false⟩ s' (.semPEnter 0 0) with
        | .ok _ => true
        | .error _ => false)
     | .error _ => false)
  | .error _ => false

theorem C05_no_resleep_full_refuted : ¬ C05_no_resleep_full := by
  intro h
  have key : resleepCheck = true := by decide
  unfold resleepCheck at key
  split at key
  · rename_i s hs
    simp only [Bool.and_eq_true] at key
    obtain ⟨hexp, key⟩ := key
    split at key
    · rename_i s' hs'
      split at key
      · rename_i s'' hs''
        have := h ⟨false⟩ _ _ s s' s'' 0 (.semPEnter 0 0) hs hexp hs' (by decide) hs'' rfl
        cases this
      · cases key
    · cases key
  · cases key

end NsyncVerif.MuC
