import NsyncVerif.Proofs.MuQFrame
/-!
# C13 (mutex half) — a release makes no access to the mutex after its release point

Model: `NsyncVerif.Model.MuQ`.  Every step carries the ghost label `stepTouchesMu` (the step taken
from this program point reads or writes mu->word or mu->waiters; conservatively `true` for all
steps between the grab CAS and the final CAS of unlock_slow, whose folded plain code reads and
writes mu->waiters).

* `C13_release_point`: once a thread inside nsync_mu_unlock / nsync_mu_runlock /
  nsync_mu_unlock_slow_ owns neither a share of the lock nor the spinlock, NO further step of this
  call touches the mutex: whatever the other threads do, all its remaining steps (clearing
  `waiting` of the waiters on its private list and posting their semaphores, then `ret`) have
  `touchesMu = false`.
* `C13_release_is_last_needed`: the step that takes the call across that point — hence the last
  step with `touchesMu = true` — is a SUCCESSFUL CAS on mu->word: either the CAS that gives up the
  caller's share (first CAS, second CAS, uncontended CAS of unlock_slow), after which the call
  only returns, or the final CAS of unlock_slow that drops the spinlock.  Before that CAS the
  thread still owns the share or the spinlock, so nobody who "learns under the lock that it is
  the last user" can have freed the memory.

Together: another thread can acquire only after the releasing thread's last access; a thread that
acquires afterwards and frees the mutex as soon as its own unlock returns races with nothing.
-/
namespace NsyncVerif.MuQ

theorem C13_release_point {cfg : Cfg} {s : State} {t : Tid} (hr : Reachable cfg s)
    (hin : inRelease (s.pc t)) (hw : s.wOwner ≠ some t) (hrd : t ∉ s.rOwners) (hsp : s.sp ≠ some t) :
    relDone (s.pc t) ∧ ∀ evs, QuietUntilRet cfg t s evs := by
  have hd := relDone_of_owns_nothing hr hin hw hrd hsp
  exact ⟨hd, fun evs => quiet_of_relDone evs s hd⟩

/-- The converse direction of the release point: before it, the thread owns a share or the
    spinlock. -/
theorem C13_before_release_point {cfg : Cfg} {s : State} {t : Tid} (hr : Reachable cfg s)
    (hin : inRelease (s.pc t)) (hnd : ¬ relDone (s.pc t)) :
    s.wOwner = some t ∨ t ∈ s.rOwners ∨ s.sp = some t := by
  apply Classical.byContradiction
  intro hn
  exact hnd (relDone_of_owns_nothing hr hin (fun h => hn (Or.inl h)) (fun h => hn (Or.inr (Or.inl h)))
    (fun h => hn (Or.inr (Or.inr h))))

theorem C13_release_is_last_needed {cfg : Cfg} {s s' : State} {e : Event} {t : Tid} (_hr : Reachable cfg s)
    (hin : inRelease (s.pc t)) (hnd : ¬ relDone (s.pc t)) (h : step cfg s e = .ok s')
    (he : e.tid = some t) (hd : relDone (s'.pc t)) :
    (∃ o exp new obs, e = .cas t o .word exp new obs true) ∧ stepTouchesMu s e = true ∧
      ((∃ l, pcShare (s.pc t) = some l ∧ s'.pc t = .ulRet l ∧ pcShare (s'.pc t) = none) ∨
       (∃ l f old, s.pc t = .usFinCas l f old ∧ s'.word = finWord f old ∧ s'.word.spin = false ∧ s'.sp = none)) := by
  obtain ⟨h1, h2, h3⟩ := release_point_step hin hnd h he hd
  refine ⟨h1, h2, ?_⟩
  rcases h3 with ⟨l, e1, e2⟩ | ⟨l, f, old, e1, e2, e3, e4⟩
  · left; refine ⟨l, e1, ?_, ?_⟩ <;> rw [e2] <;> simp [setPc, pcShare]
  · right; exact ⟨l, f, old, e1, e3, by rw [e3]; rfl, e4⟩

/-! ## non-vacuity -/

/-- A state past the release point with work left: thread 0 of this accepted prefix has done the
    final CAS of unlock_slow and has still to clear `waiting` of w0 and post its semaphore. -/
def tracePoint : List Event := [
  .call 0 .lock, .cas 0 .acq .word 0 1 0 true, .ret 0 .lock none, .call 0 .unlock,
  .call 1 .lock, .cas 1 .acq .word 0 1 1 false, .ld 1 .rlx .word 1, .ld 1 .rlx .word 1,
  .cas 1 .acq .word 1 39 1 true, .st 1 .rlx (.waiting 0) 1 0, .ld 1 .rlx .word 39,
  .cas 1 .rel .word 39 37 39 true, .ld 1 .acq (.waiting 0) 1, .semPEnter 1 0,
  .cas 0 .rel .word 1 0 37 false, .ld 0 .rlx .word 37, .ld 0 .rlx .word 37,
  .cas 0 .ar .word 37 46 37 true, .ld 0 .rlx (.rc 0) 0, .cas 0 .rlx (.rc 0) 0 1 0 true,
  .ld 0 .rlx .word 46, .cas 0 .rel .word 46 8 46 true ]

def checkAfter13 (cfg : Cfg) (evs : List Event) (f : State → Bool) : Bool :=
  match run cfg init evs with
  | .ok s => f s
  | .error _ => false

example : checkAfter13 ⟨false⟩ tracePoint (fun s =>
    decide (s.pc 0 = .usWakeSt .W 0 []) && decide (s.wOwner = none) && decide (s.rOwners = []) &&
    decide (s.sp = none) && encode s.word == 8) = true := by decide

-- one step earlier the thread still owns the spinlock (hypotheses of `C13_release_is_last_needed`)
example : checkAfter13 ⟨false⟩ (tracePoint.take 21) (fun s =>
    decide (s.sp = some 0) && decide (s.wOwner = none)) = true := by decide

end NsyncVerif.MuQ
