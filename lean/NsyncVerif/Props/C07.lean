/-
  Property C07 — nsync_run_once runs its function exactly once and nobody returns early.

  "For any number of threads calling any mix of nsync_run_once, nsync_run_once_arg,
   nsync_run_once_spin and nsync_run_once_arg_spin on the same nsync_once, exactly one of the
   calls runs its function, exactly once, and no call returns before that run has completed.
   Calls on a once that is already done return without blocking."

  Model: `NsyncVerif/Model/Once.lean` (acceptor for /repo/internal/once.c:61-145, one atomic
  operation / lock operation / callback boundary per step).  All theorems quantify over every
  reachable state, i.e. over every number of threads and once objects, every mix of the four
  entry points, every interleaving, every spurious wake-up / timeout of the cv wait, and every
  hashing `cfg.slotOf` of once objects to `once_sync[]` slots (in particular once objects that
  share a slot).  Nothing is bounded; nothing is enumerated.

  Status: every statement below is proved in full (no `_partial`).
  Assumptions (see the header of Model/Once.lean): A1 the slot lock is a mutual-exclusion lock
  (C01/C02; additionally *checked* on every log by the acceptor), A2 the cv wait releases and
  re-acquires it (C04/C05), A3 broadcast has no effect on this layer, A4 no nested run_once
  under one tid.  Liveness ("every call returns") is proved up to fairness: `C07_progress` is
  deadlock freedom, `C07_no_stuck_state` says the wait loop exits as soon as the winner is
  done; the fair-termination step on top is a paper argument.
-/
import NsyncVerif.Proofs.OnceProgress

namespace Once

/-! ### exactly one run -/

/-- The user function of an once object is started at most once, whatever the callers do. -/
theorem C07_at_most_once {cfg : Config} {s : State} (h : Reachable cfg s) (o : OnceId) :
    (s.fStarts o).length ≤ 1 := by
  have hi := inv_reachable h
  have hle := hi.word_le o
  have h0 := hi.w0 o
  have h1 := hi.w1 o
  have h2 := hi.w2 o
  by_cases e0 : s.word o = 0
  · simp [(h0 e0).2.1]
  · by_cases e1 : s.word o = 1
    · obtain ⟨t, _, _, hs, _⟩ := h1 e1
      rw [hs]; cases s.pc t <;> simp [PC.startsOf]
    · obtain ⟨t, _, hs, _⟩ := h2 (by omega)
      simp [hs]

/-- The thread that runs the function is the one whose CAS 0→1 on `o` succeeded (ghost `winner`),
    it had called run_once on `o`, and it is still inside that call's winner section unless the
    word is already 2. -/
theorem C07_runner_is_caller {cfg : Config} {s : State} (h : Reachable cfg s) {o : OnceId}
    {t : Tid} (hs : s.fStarts o = [t]) :
    s.winner o = some t ∧ (t, o) ∈ s.called ∧ ((s.pc t).InW o ∨ s.word o = 2) := by
  have hi := inv_reachable h
  have hle := hi.word_le o
  have key : s.winner o = some t ∧ ((s.pc t).InW o ∨ s.word o = 2) := by
    by_cases e0 : s.word o = 0
    · have := (hi.w0 o e0).2.1; simp [this] at hs
    · by_cases e1 : s.word o = 1
      · obtain ⟨u, hw, hin, hst, _⟩ := hi.w1 o e1
        rw [hst] at hs
        have : u = t := by cases hp : s.pc u <;> simp [hp, PC.startsOf] at hs <;> exact hs
        subst this
        exact ⟨hw, .inl hin⟩
      · obtain ⟨u, hw, hst, _⟩ := hi.w2 o (by omega)
        rw [hst] at hs
        have : u = t := by simpa using hs
        subst this
        exact ⟨hw, .inr (by omega)⟩
  exact ⟨key.1, hi.winCalled o t key.1, key.2⟩

/-- `winner o` is written only by a successful `ATM_CAS_ACQ (once, 0, 1)` (once.c:69) performed
    by a thread inside a run_once call on `o`; the word goes 0→1 at that very step. -/
theorem C07_winner_only_by_cas {cfg : Config} {s s' : State} {e : Event}
    (h : step cfg s e = .ok s') (o : OnceId) :
    s'.winner o = s.winner o ∨
    ∃ t f, e = .cas t .impl .acq o 0 1 0 true ∧ s.pc t = .casTry f ∧ f.o = o ∧
      s.word o = 0 ∧ s'.word o = 1 ∧ s'.winner o = some t :=
  winner_step h o

/-- The function of `o` is entered only by the thread that won the CAS on `o`. -/
theorem C07_entered_only_by_winner {cfg : Config} {s s' : State} {e : Event}
    (hr : Reachable cfg s) (h : step cfg s e = .ok s') (o : OnceId) :
    s'.fStarts o = s.fStarts o ∨
    ∃ t a, e = .cbStart t a ∧ s.winner o = some t ∧ s.word o = 1 ∧ s.fStarts o = [] ∧
      s'.fStarts o = [t] := by
  rcases fStarts_step h o with h0 | ⟨t, f, he, hp, hf, hs⟩
  · exact .inl h0
  · have hi := inv_reachable hr
    have hin : (s.pc t).InW o := by simp [hp, PC.InW, hf]
    obtain ⟨hw1, hwin⟩ := hi.inW t o hin
    obtain ⟨u, hu, _, hst, _⟩ := hi.w1 o hw1
    have : u = t := by simpa [hwin] using hu.symm
    subst this
    have hnil : s.fStarts o = [] := by simpa [hp, PC.startsOf] using hst
    exact .inr ⟨u, f.arg, he, hwin, hw1, hnil, by simp [hs, hnil]⟩

/-! ### nobody returns early -/

/-- No call on `o` has returned unless the (unique) run of the function has completed. -/
theorem C07_no_early_return {cfg : Config} {s : State} (h : Reachable cfg s) {t : Tid}
    {o : OnceId} (hret : (t, o) ∈ s.returned) : (s.fEnds o).length = 1 := by
  have hi := inv_reachable h
  obtain ⟨u, _, _, he⟩ := hi.w2 o (hi.ret t o hret)
  simp [he]

/-- Exactly one run: once any call on `o` has returned, the function was started exactly once and
    ended exactly once, by the same thread, the CAS winner. -/
theorem C07_exactly_once {cfg : Config} {s : State} (h : Reachable cfg s) {t : Tid}
    {o : OnceId} (hret : (t, o) ∈ s.returned) :
    ∃ w, s.winner o = some w ∧ s.fStarts o = [w] ∧ s.fEnds o = [w] ∧ s.word o = 2 := by
  have hi := inv_reachable h
  have h2 := hi.ret t o hret
  obtain ⟨u, hw, hs, he⟩ := hi.w2 o h2
  exact ⟨u, hw, hs, he, h2⟩

/-- The same at the moment of returning: a thread whose next event is the `ret` of its call on
    `f.o` (the only pc from which `ret` is accepted) already sees the completed run. -/
theorem C07_return_only_when_done {cfg : Config} {s s' : State} (h : Reachable cfg s) {t : Tid}
    {b a : Bool} (hstep : step cfg s (.ret t b a) = .ok s') :
    ∃ f, s.pc t = .readyRet f ∧ f.blocking = b ∧ f.arg = a ∧ s.word f.o = 2 ∧
      (s.fEnds f.o).length = 1 ∧ s'.returned = (t, f.o) :: s.returned := by
  have hi := inv_reachable h
  simp only [step] at hstep
  split at hstep <;> step_norm hstep <;> try contradiction
  rename_i f hp
  obtain ⟨⟨hb, ha⟩, rfl⟩ := hstep
  have h2 : s.word f.o = 2 := hi.leaving t f.o (by simp [hp, PC.Leaving])
  obtain ⟨u, _, _, he⟩ := hi.w2 f.o h2
  exact ⟨f, hp, hb, ha, h2, by simp [he], rfl⟩

/-! ### meaning of the word, monotonicity -/

/-- The invariant behind C07: what the three values of the once word mean. -/
theorem C07_word_meaning {cfg : Config} {s : State} (h : Reachable cfg s) (o : OnceId) :
    s.word o ≤ 2 ∧
    (s.word o = 0 → s.fStarts o = [] ∧ s.fEnds o = [] ∧ s.winner o = none) ∧
    (s.word o = 1 → ∃ t, s.winner o = some t ∧ (s.pc t).InW o ∧
        s.fStarts o = (s.pc t).startsOf t ∧ s.fEnds o = (s.pc t).endsOf t) ∧
    (s.word o = 2 → (s.fEnds o).length = 1 ∧ (s.fStarts o).length = 1 ∧
        ∀ t, ¬ (s.pc t).InW o) := by
  have hi := inv_reachable h
  refine ⟨hi.word_le o, ?_, hi.w1 o, ?_⟩
  · intro e0; have := hi.w0 o e0; exact ⟨this.2.1, this.2.2, this.1⟩
  · intro e2
    obtain ⟨u, _, hs, he⟩ := hi.w2 o e2
    refine ⟨by simp [he], by simp [hs], ?_⟩
    intro t hin
    have := (hi.inW t o hin).1
    omega

/-- A thread between its CAS win and its store of 2 on `o` is unique, and the word is 1. -/
theorem C07_winner_unique {cfg : Config} {s : State} (h : Reachable cfg s) {o : OnceId}
    {t u : Tid} (ht : (s.pc t).InW o) (hu : (s.pc u).InW o) : t = u ∧ s.word o = 1 := by
  have hi := inv_reachable h
  have h1 := hi.inW t o ht
  have h2 := hi.inW u o hu
  exact ⟨by simpa [h1.2] using h2.2, h1.1⟩

/-- One step moves the word of `o` not at all, 0→1, or 1→2. -/
theorem C07_word_step {cfg : Config} {s s' : State} {e : Event} (h : Reachable cfg s)
    (hstep : step cfg s e = .ok s') (o : OnceId) :
    s'.word o = s.word o ∨ (s.word o = 0 ∧ s'.word o = 1) ∨ (s.word o = 1 ∧ s'.word o = 2) :=
  word_step (inv_reachable h) hstep o

/-- The word is monotone along any run (so "done" is stable). -/
theorem C07_word_monotone {cfg : Config} {s s' : State} {evs : List Event}
    (h : Reachable cfg s) (hrun : run cfg s evs = .ok s') (o : OnceId) :
    s.word o ≤ s'.word o :=
  word_run (inv_reachable h) hrun o

/-! ### calls on a done once return without blocking -/

/-- A call (any of the four entry points) that starts when the word is 2 consists of exactly
    `call`, one acquire load observing 2, `ret`: all three are accepted, no lock is touched, no
    callback runs, no other shared state changes.  (Holds in every state, reachable or not.) -/
theorem C07_done_is_wait_free {cfg : Config} {s : State} {t : Tid} {o : OnceId} (b a : Bool)
    (hw : s.word o = 2) (hidle : s.pc t = .idle) :
    ∃ s1 s2 s3,
      step cfg s (.call t b a o) = .ok s1 ∧
      step cfg s1 (.ld t (.outer b a) .acq o 2) = .ok s2 ∧
      step cfg s2 (.ret t b a) = .ok s3 ∧
      s3.pc t = .idle ∧ s3.returned = (t, o) :: s.returned ∧
      s3.lockHolder = s.lockHolder ∧ s3.word = s.word ∧
      s3.fStarts = s.fStarts ∧ s3.fEnds = s.fEnds := by
  let s1 : State := { s.setPc t (.outerLd ⟨o, b, a⟩) with called := (t, o) :: s.called }
  let s2 : State := s1.setPc t (.readyRet ⟨o, b, a⟩)
  let s3 : State := { s2.setPc t .idle with returned := (t, o) :: s2.returned }
  refine ⟨s1, s2, s3, ?_, ?_, ?_, ?_⟩
  · simp only [step, hidle, s1]
  · simp [step, State.setPc, need, hw, s1, s2]
  · simp [step, State.setPc, need, s2, s3]
  · simp [State.setPc, s1, s2, s3]

/-- … and there is no other way: with the word at 2, the only own event accepted after the
    `call` is the acquire load observing 2 (no lock call, no callback, no CAS), and it leads to
    the pc from which only `ret` is accepted. -/
theorem C07_done_only_path {cfg : Config} {s s' : State} {t : Tid} {o : OnceId} {b a : Bool}
    {e : Event} (hw : s.word o = 2) (hpc : s.pc t = .outerLd ⟨o, b, a⟩)
    (he : e.tid = some t) (h : step cfg s e = .ok s') :
    e = .ld t (.outer b a) .acq o 2 ∧ s'.pc t = .readyRet ⟨o, b, a⟩ ∧
    s'.lockHolder = s.lockHolder ∧ s'.word = s.word := by
  cases e <;> simp only [Event.tid, Option.some.injEq, reduceCtorEq] at he <;> subst he <;>
    simp only [step, hpc] at h <;> step_norm h
  obtain ⟨h1, h2, h3, h4, rfl⟩ := h
  subst h1 h2 h3
  simp [hw] at h4
  subst h4
  simp [State.setPc]

theorem C07_ready_only_ret {cfg : Config} {s s' : State} {t : Tid} {f : Frame} {e : Event}
    (hpc : s.pc t = .readyRet f) (he : e.tid = some t) (h : step cfg s e = .ok s') :
    e = .ret t f.blocking f.arg ∧ s'.pc t = .idle ∧ s'.returned = (t, f.o) :: s.returned ∧
    s'.lockHolder = s.lockHolder ∧ s'.word = s.word := by
  cases e <;> simp only [Event.tid, Option.some.injEq, reduceCtorEq] at he <;> subst he <;>
    simp only [step, hpc] at h <;> step_norm h
  obtain ⟨⟨h1, h2⟩, rfl⟩ := h
  subst h1 h2
  simp [State.setPc]

/-- Other threads cannot disturb such a call: their events leave this thread's pc alone, and the
    word stays 2 (`C07_word_monotone` with `C07_word_meaning`). -/
theorem C07_done_stable {cfg : Config} {s s' : State} {e : Event} (h : Reachable cfg s)
    (hstep : step cfg s e = .ok s') {o : OnceId} (hw : s.word o = 2) (t : Tid)
    (ht : e.tid ≠ some t) : s'.word o = 2 ∧ s'.pc t = s.pc t := by
  refine ⟨?_, pc_step_other hstep t ht⟩
  have := word_step (inv_reachable h) hstep o
  omega

/-! ### nobody is stuck -/

/-- A thread in the wait loop of `o` (once.c:87-98, or re-reading after a failed CAS) is never
    waiting for nothing: either the word is already 2 (its next load leaves the loop), or the
    word is 1 and the winner is still in flight between its CAS and its store. -/
theorem C07_no_stuck_state {cfg : Config} {s : State} (h : Reachable cfg s) {t : Tid}
    {o : OnceId} (hwait : (s.pc t).Waiting o) :
    s.word o = 2 ∨ (s.word o = 1 ∧ ∃ w, s.winner o = some w ∧ (s.pc w).InW o) := by
  have hi := inv_reachable h
  have h0 := hi.waiting t o hwait
  have hle := hi.word_le o
  by_cases e2 : s.word o = 2
  · exact .inl e2
  · have e1 : s.word o = 1 := by omega
    obtain ⟨w, hw, hin, _⟩ := hi.w1 o e1
    exact .inr ⟨e1, w, hw, hin⟩

/-- The form asked for: if no thread is between CAS-win and the store of 2 on `o`, every thread
    in the wait loop of `o` has the word at 2 … -/
theorem C07_no_stuck_state' {cfg : Config} {s : State} (h : Reachable cfg s) {o : OnceId}
    (hnone : ∀ w, ¬ (s.pc w).InW o) {t : Tid} (hwait : (s.pc t).Waiting o) : s.word o = 2 := by
  rcases C07_no_stuck_state h hwait with h2 | ⟨_, w, _, hin⟩
  · exact h2
  · exact absurd hin (hnone w)

/-- … and its next load (observing 2) leaves the loop. -/
theorem C07_wait_exits_when_done {cfg : Config} {s : State} {t : Tid} {f : Frame}
    (hpc : s.pc t = .waitLd f) (hw : s.word f.o = 2) :
    step cfg s (.ld t .impl .acq f.o 2) =
      .ok (s.setPc t (if f.blocking then .fUnlockCall f else .readyRet f)) := by
  simp [step, hpc, need, hw]

/-- Deadlock freedom: every thread inside run_once has an accepted next event, or waits for a
    slot lock whose holder (another thread) has one.  A lock holder is never blocked. -/
theorem C07_progress {cfg : Config} {s : State} (h : Reachable cfg s) {t : Tid}
    (hpc : s.pc t ≠ .idle) :
    Enabled cfg s t ∨
    ∃ k u, (s.pc t).LockWait cfg k ∧ s.lockHolder k = some u ∧ u ≠ t ∧ Enabled cfg s u :=
  progress (inv_reachable h) hpc

/-! ### once objects sharing a slot -/

/-- All theorems of this file are stated for an arbitrary hashing `cfg.slotOf`; once objects that
    share a slot interact only through the slot lock.  The one place where sharing could hurt:
    the user function of `o` runs with NO slot lock held by its runner (once.c:73-75 releases
    it first), so a function that itself calls run_once on an once object hashing to the same
    slot cannot self-deadlock. -/
theorem C07_shared_slot_independent {cfg : Config} {s : State} (h : Reachable cfg s) {t : Tid}
    {o : OnceId} (hcb : (s.pc t).InCb o) (k : SlotId) : s.lockHolder k ≠ some t := by
  have hi := inv_reachable h
  intro hl
  have hH := hi.lock k t hl
  cases hp : s.pc t <;> simp [hp, PC.InCb, PC.Holds] at hcb hH

/-- The per-object theorems for all hashings at once (explicit quantifier over `cfg`). -/
theorem C07_all_hashings (slotOf : OnceId → SlotId) {s : State}
    (h : Reachable ⟨slotOf⟩ s) (o : OnceId) :
    (s.fStarts o).length ≤ 1 ∧
    (∀ t, (t, o) ∈ s.returned → (s.fEnds o).length = 1) ∧
    (∀ t, (s.pc t).InCb o → ∀ k, s.lockHolder k ≠ some t) :=
  ⟨C07_at_most_once h o, fun _ hr => C07_no_early_return h hr,
   fun _ hcb k => C07_shared_slot_independent h hcb k⟩

/-- The slot lock is held only at the program points where once.c holds it, by a blocking
    caller, for the slot of its own once object; the spin variants never hold a lock. -/
theorem C07_lock_discipline {cfg : Config} {s : State} (h : Reachable cfg s) {k : SlotId}
    {t : Tid} : s.lockHolder k = some t ↔ (s.pc t).Holds cfg k :=
  ⟨(inv_reachable h).lock k t, (inv_reachable h).held k t⟩

theorem C07_spin_never_locks {cfg : Config} {s : State} (h : Reachable cfg s) {t : Tid}
    {f : Frame} (hf : (s.pc t).frame? = some f) (hspin : f.blocking = false) (k : SlotId) :
    s.lockHolder k ≠ some t := by
  intro hl
  have hH := (inv_reachable h).lock k t hl
  cases hp : s.pc t <;> simp [hp, PC.Holds, PC.frame?] at hf hH <;> subst hf <;> simp_all

/-! ### non-vacuity: concrete accepted traces -/

section Examples

/-- Two once objects (0 and 1) hashing to the same slot 0. -/
def exCfg : Config := ⟨fun _ => 0⟩

/-- nested API events of a blocking caller -/
private def lock (t : Tid) : List Event := [.muLockCall t 0, .muLockRet t]
private def unlock (t : Tid) : List Event := [.muUnlockCall t 0, .muUnlockRet t]
private def bcast (t : Tid) : List Event := [.cvBroadcastCall t 0, .cvBroadcastRet t]

/-- Part 1: T0 (nsync_run_once) wins once 0; T1 (nsync_run_once_spin) and T2
    (nsync_run_once_arg) lose; T2 sleeps on the cv, T0 is inside `f`. -/
def exPart1 : List Event :=
  [.call 0 true false 0, .ld 0 (.outer true false) .acq 0 0, .ld 0 .impl .acq 0 0] ++ lock 0 ++
  [.call 1 false false 0, .ld 1 (.outer false false) .acq 0 0, .ld 1 .impl .acq 0 0,
   .call 2 true true 0, .ld 2 (.outer true true) .acq 0 0, .ld 2 .impl .acq 0 0,
   .muLockCall 2 0,
   .cas 0 .impl .acq 0 0 1 0 true,
   .cas 1 .impl .acq 0 0 1 1 false, .ld 1 .impl .rlx 0 1, .ld 1 .impl .acq 0 1] ++ unlock 0 ++
  [.muLockRet 2,
   .cas 2 .impl .acq 0 0 1 1 false, .ld 2 .impl .rlx 0 1, .ld 2 .impl .acq 0 1,
   .internal, .cvWaitCall 2 0 0,
   .cbStart 0 false,
   .ld 1 .impl .acq 0 1,
   .cvWaitRet 2 true, .ld 2 .impl .acq 0 1, .cvWaitCall 2 0 0]

/-- Part 2: T0 completes, everybody returns. -/
def exPart2 : List Event :=
  [.cbEnd 0 false] ++ lock 0 ++ bcast 0 ++
  [.st 0 .impl .rel 0 2 1, .ld 0 .impl .acq 0 2] ++ unlock 0 ++ [.ret 0 true false,
   .ld 1 .impl .acq 0 2, .ret 1 false false,
   .cvWaitRet 2 false, .ld 2 .impl .acq 0 2] ++ unlock 2 ++ [.ret 2 true true]

/-- Part 3: the second once object on the same slot: T0 (nsync_run_once_arg) wins once 1, T1
    (nsync_run_once_spin) waits for it, and T2 re-calls the finished once 0 while T0 is inside
    the callback of once 1. -/
def exPart3 : List Event :=
  [.call 0 true true 1, .ld 0 (.outer true true) .acq 1 0, .ld 0 .impl .acq 1 0] ++ lock 0 ++
  [.cas 0 .impl .acq 1 0 1 0 true] ++ unlock 0 ++ [.cbStart 0 true,
   .call 1 false false 1, .ld 1 (.outer false false) .acq 1 1, .ld 1 .impl .acq 1 1,
   .ld 1 .impl .acq 1 1,
   .call 2 true false 0, .ld 2 (.outer true false) .acq 0 2, .ret 2 true false,
   .cbEnd 0 true] ++ lock 0 ++ bcast 0 ++
  [.st 0 .impl .rel 1 2 1, .ld 0 .impl .acq 1 2] ++ unlock 0 ++ [.ret 0 true true,
   .ld 1 .impl .acq 1 2, .ret 1 false false]

/-- What we look at in a final state. -/
structure Summary where
  word0 : Nat
  word1 : Nat
  starts0 : List Tid
  ends0 : List Tid
  starts1 : List Tid
  ends1 : List Tid
  returned : List (Tid × OnceId)
  lock0 : Option Tid
  pcs : List PC
  deriving DecidableEq, Repr

def summary (s : State) : Summary :=
  ⟨s.word 0, s.word 1, s.fStarts 0, s.fEnds 0, s.fStarts 1, s.fEnds 1, s.returned,
   s.lockHolder 0, [s.pc 0, s.pc 1, s.pc 2]⟩

/-- After part 1 (accepted): the word is 1, T0 is inside `f` holding no lock, T1 spins, T2 waits on
    the cv having released the lock: a loser waits while the winner is in flight. -/
example : (run exCfg init exPart1).toOption.map summary =
    some ⟨1, 0, [0], [], [], [], [], none,
          [.wCbEnd ⟨0, true, false⟩, .waitLd ⟨0, false, false⟩, .cvWaitRet ⟨0, true, true⟩]⟩ := by
  decide

/-- After parts 1+2 (accepted): one run by T0, all three calls returned, lock free. -/
example : (run exCfg init (exPart1 ++ exPart2)).toOption.map summary =
    some ⟨2, 0, [0], [0], [], [], [(2, 0), (1, 0), (0, 0)], none, [.idle, .idle, .idle]⟩ := by
  decide

/-- The whole trace (accepted): both once objects done, each function run exactly once, the
    done-call of T2 on once 0 returned in the middle of the callback of once 1. -/
example : (run exCfg init (exPart1 ++ exPart2 ++ exPart3)).toOption.map summary =
    some ⟨2, 2, [0], [0], [0], [0],
          [(1, 1), (0, 1), (2, 0), (2, 0), (1, 0), (0, 0)], none, [.idle, .idle, .idle]⟩ := by
  decide

/-- The hypotheses of the theorems are simultaneously satisfiable in a non-trivial reachable
    state: a winner inside the callback (`InCb`), a spinning and a sleeping loser (`Waiting`),
    word 1, on a slot shared by two once objects. -/
example : ∃ s, Reachable exCfg s ∧ s.word 0 = 1 ∧ (s.pc 0).InCb 0 ∧ (s.pc 0).InW 0 ∧
    (s.pc 1).Waiting 0 ∧ (s.pc 2).Waiting 0 ∧ s.fStarts 0 = [0] ∧ s.winner 0 = some 0 := by
  refine ⟨(run exCfg init exPart1).toOption.get (by decide), run_ok_of_isSome _, ?_⟩
  have h : summary ((run exCfg init exPart1).toOption.get (by decide)) =
      ⟨1, 0, [0], [], [], [], [], none,
       [.wCbEnd ⟨0, true, false⟩, .waitLd ⟨0, false, false⟩, .cvWaitRet ⟨0, true, true⟩]⟩ := by
    decide
  have hw : ((run exCfg init exPart1).toOption.get (by decide)).winner 0 = some 0 := by decide
  simp only [summary, Summary.mk.injEq, List.cons.injEq, and_true] at h
  obtain ⟨h1, -, h3, -, -, -, -, -, p0, p1, p2⟩ := h
  simp [h1, h3, p0, p1, p2, hw, PC.InCb, PC.InW, PC.Waiting]

/-- Rejections (the acceptor is not vacuous either): a loser entering the function, a return
    while the word is 1, the store of 2 from inside the function. -/
example : (run exCfg init (exPart1 ++ [.cbStart 1 false])).toOption.isNone := by decide
example : (run exCfg init (exPart1 ++ [.ret 1 false false])).toOption.isNone := by decide
example : (run exCfg init (exPart1 ++ [.st 0 .impl .rel 0 2 1])).toOption.isNone := by decide
/-- … and a lock acquisition while another thread holds the slot lock. -/
example : (run exCfg init
    ([.call 0 true false 0, .ld 0 (.outer true false) .acq 0 0, .ld 0 .impl .acq 0 0] ++ lock 0 ++
     [.call 1 true false 1, .ld 1 (.outer true false) .acq 1 0, .ld 1 .impl .acq 1 0] ++
     lock 1)).toOption.isNone := by decide

end Examples

end Once
