/-
  Property C13, condition-variable part, on the REPAIRED cv.c (/verif/fixes/F3/cv_fix.diff).

  "no waker accesses the bookkeeping of an nsync_wait_n or cancellable wait after that call can
   have returned, so the caller's stack frame may be reused immediately."

  Model: `NsyncVerif/Model/CvFix.lean`.  Every step carries the ghost label `touches s e`: the
  records whose memory the step reads or writes (the `waiting` flag, `remove_count`, `flags` /
  `l_type` / `cv_mu`, `sem`, the dll links of the element and of its neighbours — over-approximated
  by the whole list the element is on; the membership walk of the repaired `cv_dequeue` reads the
  links of every element of the queue).  In the repaired `wake_waiters` the read of `p_nw->sem`
  belongs to the step that stores `waiting := 0` (it precedes the store in program order); the V
  works on the local copy and touches no record.
  Quantifier: all reachable states, all events, both semaphore flavours.

  WHAT IS PROVED (everything in full, for ALL record kinds)
  * `C13_record_touch`: whenever cv.c code run by a thread `u` that is not the record's owner
    touches a record — pooled `waiter` or `nsync_waiter_s` of nsync_wait_n — the record is in the
    cv queue or on `u`'s private `to_wake_list`; it still has `waiting = 1`; it is registered; and
    if it is a record of nsync_wait_n, the call that owns it is still in progress
    (`alive`: same owner, same call, owner inside nsync_wait_n): the stack frame / heap array is
    valid.  `C13_record_touch_nw_full_true`: the statement refuted for the pinned code
    (`Cv.C13_record_touch_nw_full_false`) holds here.
  * `C13_listed_owner_waits`: a record on a waker's list has `waiting = 1`, so its owner cannot
    leave: a cv wait stays in its loop (cv.c:244), the repaired `cv_dequeue` stays in its wait
    loop.
  * `C13_owner_returns_clean` (cv wait leaves its loop) and `C13_owner_returns_clean_waitn`
    (`cv_dequeue` returns): the record is in no queue, on no waker's list, idle, and off the
    call's list; `C13_idle_not_touched`: from there on no step of another thread touches it (until
    its owner enqueues it again).
  * `C13_late_V_touches_nothing`: the two F3 schedules continued — the waker's V after the owner has
    returned is accepted and its label is empty.
-/
import NsyncVerif.Proofs.CvFixInvG
import NsyncVerif.Props.C04Fix

namespace NsyncVerif.CvFix

/-- Every touch by cv.c code of a non-owner happens while the record is registered with the acting
    thread: in the queue or on that thread's private list, `waiting = 1`; a record of nsync_wait_n
    is then alive.  (The owner is taken after the step: the first store of a wait, cv.c:196, is
    what makes the storing thread the owner.) -/
theorem C13_record_touch {cfg : Config} {s s' : State} {e : Event} {r : Rid} {u : Tid}
    (h : Reachable cfg s) (hs : step cfg s e = .ok s') (hr : r ∈ touches s e) (hu : e.tid = some u)
    (ho : (s'.recs r).owner ≠ u) :
    (r ∈ s.queue ∨ r ∈ (s.thr u).list) ∧ (s.recs r).waiting = true ∧ (s.recs r).stat.registered = true ∧
    (r.isMucv = false → alive s r = true) := by
  have hi := inv_reachable h
  have hg := invG_reachable h
  have ht := touch_registered hi (step_tr hs) r hr u hu ho
  have hst : (s.recs r).stat = .queued ∨ (s.recs r).stat = .listed u := by
    rcases ht with hq | hl
    · exact .inl ((hi.a.qMem r).mp hq)
    · exact .inr ((hi.a.lMem u r).mp hl)
  refine ⟨ht, ?_, ?_, ?_⟩
  · rcases hst with e | e
    · exact hi.a.qWait r e
    · exact hi.b.lWait r u e
  · rcases hst with e | e <;> simp [e, RStat.registered]
  · intro hm
    exact registered_alive hi.a hg r hm (by rcases hst with e | e <;> simp [e])

/-- The claim for the records of nsync_wait_n in the form that is refuted for the pinned code. -/
def C13_record_touch_nw_full : Prop :=
  ∀ (cfg : Config) (s s' : State) (e : Event) (r : Rid) (u : Tid), Reachable cfg s → step cfg s e = .ok s' →
    r ∈ touches s e → e.tid = some u → r.isMucv = false → (s'.recs r).owner ≠ u → alive s r = true

theorem C13_record_touch_nw_full_true : C13_record_touch_nw_full :=
  fun _ _ _ _ _ _ h hs hr hu hm ho => (C13_record_touch h hs hr hu ho).2.2.2 hm

/-- A record that is on a waker's list still has `waiting = 1` — every kind of record: its owner is
    inside the wait loop of nsync_cv_wait* or of cv_dequeue, so the STORE of wake_waiters goes to a
    record whose owner has not moved on. -/
theorem C13_listed_owner_waits {cfg : Config} {s : State} {r : Rid} {u : Tid} (h : Reachable cfg s)
    (hr : r ∈ (s.thr u).list) : (s.recs r).waiting = true := by
  have hi := inv_reachable h
  exact hi.b.lWait r u ((hi.a.lMem u r).mp hr)

/-- … and if it is a record of nsync_wait_n its memory is valid. -/
theorem C13_listed_alive {cfg : Config} {s : State} {r : Rid} {u : Tid} (h : Reachable cfg s)
    (hr : r ∈ (s.thr u).list) (hm : r.isMucv = false) : alive s r = true := by
  have hi := inv_reachable h
  have := (hi.a.lMem u r).mp hr
  exact registered_alive hi.a (invG_reachable h) r hm (by simp [this])

/-- When a cv wait leaves its loop (cv.c:244 observes `waiting == 0`) its record is in no queue and
    on no waker's private list.  From there to the `ret` the call does not touch the record again
    (the acceptor has no record event at the program points after the loop). -/
theorem C13_owner_returns_clean {cfg : Config} {s s' : State} {t : Tid} {r : Rid} (h : Reachable cfg s)
    (hs : step cfg s (.recLd t .wHead r 0) = .ok s') :
    r ∉ s'.queue ∧ (∀ u, r ∉ (s'.thr u).list) ∧ (s'.recs r).stat = .idle := by
  obtain ⟨_, _, hst, _⟩ := wHead_exit_accepted hs
  have hi := (inv_reachable (reachable_step h hs)).a
  refine ⟨?_, ?_, hst⟩
  · intro hm; have := (hi.qMem r).mp hm; rw [hst] at this; cases this
  · intro u hm; have := (hi.lMem u r).mp hm; rw [hst] at this; cases this

/-- When `cv_dequeue` returns (either way) its record is in no queue, on no waker's private list,
    idle, and no longer on the list of the call: nsync_wait_n may free the array / return. -/
theorem C13_owner_returns_clean_waitn {cfg : Config} {s s' : State} {t : Tid} {r : Rid} {e : Event}
    (h : Reachable cfg s) (hs : step cfg s e = .ok s') (hd : deqReturns s t r e) :
    r ∉ s'.queue ∧ (∀ u, r ∉ (s'.thr u).list) ∧ (s'.recs r).stat = .idle ∧ r ∉ (s'.thr t).mine := by
  obtain ⟨_, _, _, _, _, hst, _, hnm⟩ := C04_outcome h hs hd
  have hi' := inv_reachable (reachable_step h hs)
  refine ⟨?_, ?_, hst, hnm⟩
  · intro hm; have := (hi'.a.qMem r).mp hm; rw [hst] at this; cases this
  · intro u hm; have := (hi'.a.lMem u r).mp hm; rw [hst] at this; cases this

/-- No step of a thread other than the owner touches an idle record: after the owner's call has
    let go of it, nobody looks at it again (until the owner itself enqueues it anew). -/
theorem C13_idle_not_touched {cfg : Config} {s s' : State} {e : Event} {r : Rid} {u : Tid}
    (h : Reachable cfg s) (hs : step cfg s e = .ok s') (hu : e.tid = some u)
    (ho : (s'.recs r).owner ≠ u) (hidle : (s.recs r).stat = .idle) : r ∉ touches s e := by
  intro hr
  have := (C13_record_touch h hs hr hu ho).2.2.1
  rw [hidle] at this; simp [RStat.registered] at this

/-- The first window of F3 on the repaired code, continued: `f3Fixed` ends with the owner back in its
    caller; the waker has finished.  Second window: the waker stores `waiting := 0`; the owner,
    which has not gone to sleep yet, sees it, dequeues (nothing to do) and returns; the waker's V
    is accepted afterwards and touches NO record (on the pinned code it read `p_nw->sem` from the
    dead frame: `Cv.C13_nw_sem_read_after_return`). -/
def semReadTrace : List Event := [
  .tick 100, .callWaitN 0, .nwInit 0 (.nw 0),
  .wordLd 0 .spin0 0, .wordCas 0 0 1 0 true, .recSt 0 .enqSt (.nw 0) 1 0, .wordSt 0 .enqRel 2 1,
  .callBroadcast 1, .wordLd 1 .bcLd 2, .wordLd 1 .spin0 2, .wordCas 1 2 3 2 true, .wordSt 1 .bcRel 0 3,
  .recSt 1 .wake (.nw 0) 0 1,
  .recLd 0 .ready (.nw 0) 0,
  .wordLd 0 .spin0 0, .wordCas 0 0 1 0 true, .recLd 0 .deqLd (.nw 0) 0, .wordSt 0 .deqRel 0 1, .retWaitN 0]

theorem C13_late_V_touches_nothing :
    okRun ⟨false⟩ semReadTrace = true ∧
    ((runD ⟨false⟩ semReadTrace).thr 0).loc = .idle ∧
    alive (runD ⟨false⟩ semReadTrace) (.nw 0) = false ∧
    okRun ⟨false⟩ (semReadTrace ++ [.semV 1 0, .retBroadcast 1]) = true ∧
    touches (runD ⟨false⟩ semReadTrace) (.semV 1 0) = [] ∧
    -- the store that precedes it (label: the record and the rest of the waker's list) found the record alive
    (.nw 0) ∈ touches (runD ⟨false⟩ (semReadTrace.take 12)) (.recSt 1 .wake (.nw 0) 0 1) ∧
    alive (runD ⟨false⟩ (semReadTrace.take 12)) (.nw 0) = true := by decide

/-- Non-vacuity of `C13_record_touch` for a record of nsync_wait_n: the waker's store in the F3
    schedule touches `nw0` while its owner (thread 0) is in the wait loop of cv_dequeue. -/
example : okRun ⟨false⟩ (f3Fixed.take 23) = true ∧
    (.nw 0) ∈ touches (runD ⟨false⟩ (f3Fixed.take 22)) (.recSt 1 .wake (.nw 0) 0 1) ∧
    ((runD ⟨false⟩ (f3Fixed.take 22)).recs (.nw 0)).owner = 0 ∧
    ((runD ⟨false⟩ (f3Fixed.take 22)).thr 0).loc = .nDeqSpin ∧
    alive (runD ⟨false⟩ (f3Fixed.take 22)) (.nw 0) = true := by decide

/-- … and for a pooled record: the waker's store touches `w0` while it is on the waker's list. -/
example : okRun ⟨false⟩ (exBroadcast.take 22) = true ∧
    (.w 0) ∈ touches (runD ⟨false⟩ (exBroadcast.take 21)) (.recSt 1 .wake (.w 0) 0 1) ∧
    ((runD ⟨false⟩ (exBroadcast.take 21)).thr 1).list = [.w 0] ∧
    touches (runD ⟨false⟩ (exBroadcast.take 22)) (.semV 1 0) = [] := by decide

end NsyncVerif.CvFix
