/-
  Axiom audit of every theorem of Props/C08Release.lean and of the invariants it rests on
  (allowed: propext, Classical.choice, Quot.sound).
-/
import NsyncVerif.Props.C08Release

open Note

#print axioms Reachable.invR
#print axioms Reachable.invForest
#print axioms C08_notified_waiters_in_progress
#print axioms C08_waiting_record
#print axioms C08_no_lost_wakeup
#print axioms C08_waiters_released
#print axioms C08_complete_released
#print axioms C08_complete_full_holds
#print axioms Reachable.invJ
#print axioms Reachable.invLive
#print axioms Reachable.invScan
#print axioms no_stuck_state
#print axioms no_wait_blocked_all
#print axioms C08_child_iff_parent
#print axioms C08_children_nodup
#print axioms anc_of_chain
#print axioms C08_unaffected
#print axioms C08_unaffected_full_holds
#print axioms C08_siblings_unaffected
#print axioms not_anc_of_parent
#print axioms C08_parent_and_siblings_unaffected
#print axioms adoptsB_of
#print axioms reachableH_runH
#print axioms run_of_runH
#print axioms pc_of_not_actor_rel
#print axioms release_prefix_ok
#print axioms release_prefix_okH
#print axioms sibling_prefix_ok
