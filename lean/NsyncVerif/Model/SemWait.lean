/-
  Model/SemWait.lean — acceptor LTS for nsync_sem_wait_with_cancel_ (internal/sem_wait.c) together with the
  parts of internal/note.c that touch the `struct nsync_waiter_s nw` it puts on the cancel note's `waiters`
  list.  Core Lean only.

  nsync_sem_wait_with_cancel_ is the sleep of every cancellable nsync_cv_wait_with_deadline and
  nsync_mu_wait_with_deadline; the layers CvFix and MuC treat the cancel note abstractly, this layer models
  it.  The record `nw` lives in the frame of nsync_sem_wait_with_cancel_ and dies when it returns.

  Granularity: one step = one ATM_* operation, one acquisition / release of a note's mutex (`note_mu`, an
  abstract lock, justified by C01/C02: acquired at the `nret` of the nested nsync_mu_lock / successful
  nsync_mu_trylock, released at the `ncall` of the nested nsync_mu_unlock; nsync_mu_wait = release at its
  `ncall`, acquire at its `nret`), one semaphore operation, one `now`, the entry / return of
  nsync_sem_wait_with_cancel_ (not logged by the harness: the driver inserts the entry before the first event
  of the function and the return immediately after its last event, the earliest point at which the frame can
  die), or one tick of the model clock.

  Notes: flat (`Note`), any number, each with its mutex, `notified` flag, expiry time (none / past /
  future) and `waiters` list (a sequence of record ids, justified by C17).  The plain list operations are
  merged into the adjacent atomic operation made under the same lock: the waiter's enqueue and dequeue into
  its loads of `notified` at sem_wait.c:49 / :68 (NOTIFIED_TIME), a notifier's unlink into its
  `ATM_STORE_REL (&nw->waiting, 0)`.  The parent / child forest of note.c is not modelled (Model/Note.lean
  does that); what it contributes here is `inherit` / `bornNotified` (nsync_note_new lowers the expiry of a note that
  nobody uses yet to its parent's, and sets its flag at once if the parent is already notified) and the fact that notifiers are protocol driven:

  Notifiers (nsync_note_notify, nsync_note_is_notified, the lazy expiry of nsync_note_notified_deadline_,
  the recursion of note_notify_child into children, also when executed by a waiter inside
  nsync_sem_wait_with_cancel_: `NfSt.open`) are site independent: whoever holds a note's mutex may set its
  `notified` flag, and while the flag is set may unlink the head of `waiters` by
  `ATM_STORE_REL (&nw->waiting, 0)` and must then post the record's semaphore (`post t = some r` in between:
  `nsync_mu_semaphore_v (nw->sem)` reads `nw->sem` AFTER the store, still under note_mu).  A release of the
  mutex with a post pending, or with waiters left on a notified note, is rejected.

  Waiters: program counter per statement of sem_wait.c, and of the nsync_note_notified_deadline_ /
  nsync_note_notify calls it makes (`PC.nd`, `PC.nf`).

  Semaphores: `sem<k>` counts tokens; counting or binary flavour (`Config.binary`: V sets the count to 1).
  `&w->sem` of a call is not visible before the first semaphore event that names it: bound lazily
  (`Frame.sem`, `semUser`).  A timed P returns ETIMEDOUT only if the clock has reached its deadline and 0 only
  if a token is there (consumed).  Vs of other layers (cv signal, mutex hand-off) on the same semaphore are
  accounted.

  `Config.noReread` is the CONTROL variant (not the code): the value re-read under note_mu at sem_wait.c:49
  is ignored and the record always enqueued.  Every theorem assumes `noReread = false`;
  Props/C05Cancel.lean shows that the variant loses a cancellation.

  Ghost: `Rec.unl / popper / posted`, `Frame.consumed`, `Note.fresh`.
-/
namespace SemWait

abbrev Tid := Nat
abbrev SemId := Nat
abbrev NoteId := Nat
abbrev Rid := Nat
/-- absolute time in ns; `none` = nsync_time_no_deadline.  May be negative. -/
abbrev Deadline := Option Int

structure Config where
  /-- binary semaphores (V: count := 1) instead of counting ones -/
  binary : Bool
  /-- CONTROL variant: ignore the re-read of NOTIFIED_TIME under note_mu at sem_wait.c:49 -/
  noReread : Bool := false
  deriving Repr, DecidableEq

def b2n (b : Bool) : Nat := if b then 1 else 0

/-- `nsync_time_cmp (d, nsync_time_zero) <= 0` -/
def dlePast : Deadline → Bool
  | none => false
  | some x => decide (x ≤ 0)

/-- `d` has passed at time `now` -/
def expiredB (d : Deadline) (now : Nat) : Bool :=
  match d with
  | none => false
  | some x => decide (x ≤ (now : Int))

/-- `nsync_time_cmp (a, b) < 0` -/
def dlt : Deadline → Deadline → Bool
  | none, _ => false
  | some _, none => true
  | some x, some y => decide (x < y)

/-- the earlier of two deadlines (`a` if strictly earlier, else `b`) -/
def dmin (a b : Deadline) : Deadline := if dlt a b then a else b

inductive Ord | rlx | acq | rel | ar
  deriving DecidableEq, Repr

inductive Loc
  | notified (k : NoteId) | waiting (r : Rid) | other
  deriving DecidableEq, Repr

/-- function name of the `site` of an atomic operation -/
inductive Fn
  | nd        -- nsync_note_notified_deadline_
  | notify    -- notify
  | child     -- note_notify_child
  | sw        -- nsync_sem_wait_with_cancel_
  | other
  deriving DecidableEq, Repr

/-- result of nsync_sem_wait_with_cancel_: 0 / ETIMEDOUT / ECANCELED -/
inductive Outcome | ok | timedOut | cancelled
  deriving DecidableEq, Repr

inductive Ev
  | callSW (n : NoteId) (dl : Deadline)        -- entry of nsync_sem_wait_with_cancel_ (w, dl, note n)
  | retSW (o : Outcome)                        -- its return: the frame (and `nw`) dies
  | newNote (k : NoteId) (expiry : Deadline)   -- nsync_note_new: malloc + set_expiry_time
  | inherit (k p : NoteId)                     -- nsync_note_new: expiry := parent->expiry_time if earlier
  | bornNotified (k p : NoteId) (new obs : Nat) -- nsync_note_new: ATM_STORE_REL (&n->notified, 1), parent p already notified
  | lock (k : NoteId) | unlock (k : NoteId)    -- note_mu
  | muWait (k : NoteId)                        -- nsync_mu_wait (&n->note_mu, …) (WAIT_FOR_NO_CHILDREN) may release note_mu; its return = `lock`
  | ld (ord : Ord) (loc : Loc) (fn : Fn) (obs : Nat)
  | st (ord : Ord) (loc : Loc) (fn : Fn) (new obs : Nat)
  | pdEnter (j : SemId) (d : Deadline) | pdRet (j : SemId) (timedOut : Bool)
  | pEnter (j : SemId) | pRet (j : SemId) | semV (j : SemId)
  | now (ns : Nat)
  | other
  deriving Repr

inductive Event
  | thr (t : Tid) (e : Ev)
  | tick (ns : Nat)
  deriving Repr

/-- which call of nsync_note_notified_deadline_ / notify: sem_wait.c:39, or inside the nsync_note_notify of
    sem_wait.c:65 -/
inductive Use | first | l65
  deriving DecidableEq, Repr

/-- inside nsync_note_notified_deadline_ -/
inductive NDst
  | ld0                  -- ATM_LOAD_ACQ (&n->notified)
  | lk                   -- nsync_mu_lock (&n->note_mu)
  | ld1                  -- NOTIFIED_TIME (n)
  | ulk (obs : Bool)     -- nsync_mu_unlock
  | now                  -- nsync_time_now ()
  deriving DecidableEq, Repr

/-- inside the static notify () -/
inductive NfSt
  | lk                   -- nsync_mu_lock (&n->note_mu)
  | ld                   -- NOTIFIED_TIME (n)
  | open                 -- time > 0: disconnect from the parent, note_notify_child: protocol driven until note_mu is released with the flag set
  | ulk                  -- time <= 0: nsync_mu_unlock
  deriving DecidableEq, Repr

inductive PC
  | idle
  | nd (u : Use) (st : NDst)
  | nf (u : Use) (st : NfSt)
  | init                 -- sem_wait.c:46  ATM_STORE (&nw.waiting, 1)
  | lk1                  -- :48 nsync_mu_lock
  | ld49                 -- :49 NOTIFIED_TIME, :53 enqueue
  | ulk1 (enq : Bool)    -- :60 / :75 nsync_mu_unlock
  | pdEnter              -- :61 P with deadline
  | pdWait (j : SemId)
  | lk2                  -- :67 nsync_mu_lock
  | ld68                 -- :68 NOTIFIED_TIME, :71 dequeue
  | ulk2                 -- :75 nsync_mu_unlock
  | ret                  -- :78
  deriving DecidableEq, Repr

inductive Unl | none | waker | owner
  deriving DecidableEq, Repr

structure Note where
  known : Bool
  lock : Option Tid        -- holder of note_mu
  flag : Bool              -- notified
  expiry : Deadline        -- expiry_time
  queue : List Rid         -- waiters
  fresh : Bool             -- ghost: no nsync_sem_wait_with_cancel_ has been called with it yet
  deriving Repr

/-- the on-stack `struct nsync_waiter_s nw` of a call -/
structure Rec where
  live : Bool
  waiting : Bool
  owner : Tid
  note : NoteId
  unl : Unl                -- ghost: who unlinked it from the note's list
  popper : Tid                 -- ghost: the notifier that unlinked it
  posted : Bool            -- ghost: that notifier has done its V
  deriving Repr

/-- locals of one nsync_sem_wait_with_cancel_ call -/
structure Frame where
  note : NoteId
  dl : Deadline            -- abs_deadline
  nw : Option Rid          -- &nw once initialised
  sem : Option SemId       -- &w->sem once known
  locald : Deadline        -- local_abs_deadline
  nearer : Bool            -- deadline_is_nearer
  out : Outcome            -- sem_outcome
  consumed : Bool          -- ghost: the P of this call returned 0
  deriving Repr

def Frame.empty : Frame :=
  { note := 0, dl := none, nw := none, sem := none, locald := none, nearer := false, out := .cancelled,
    consumed := false }

structure State where
  note : NoteId → Note
  rcd : Rid → Rec
  sem : SemId → Nat
  semUser : SemId → Option Tid
  pc : Tid → PC
  fr : Tid → Frame
  post : Tid → Option Rid
  now : Nat

def Note.init : Note := { known := false, lock := none, flag := false, expiry := none, queue := [], fresh := true }
def Rec.init : Rec := { live := false, waiting := false, owner := 0, note := 0, unl := .none, popper := 0, posted := false }

def init : State :=
  { note := fun _ => Note.init, rcd := fun _ => Rec.init, sem := fun _ => 0, semUser := fun _ => none,
    pc := fun _ => .idle, fr := fun _ => Frame.empty, post := fun _ => none, now := 0 }

def State.setNote (s : State) (k : NoteId) (v : Note) : State :=
  { s with note := fun i => if i = k then v else s.note i }
def State.setRec (s : State) (r : Rid) (v : Rec) : State :=
  { s with rcd := fun i => if i = r then v else s.rcd i }
def State.setSem (s : State) (j : SemId) (n : Nat) : State :=
  { s with sem := fun i => if i = j then n else s.sem i }
def State.setSemUser (s : State) (j : SemId) (u : Option Tid) : State :=
  { s with semUser := fun i => if i = j then u else s.semUser i }
def State.setPc (s : State) (t : Tid) (p : PC) : State :=
  { s with pc := fun u => if u = t then p else s.pc u }
def State.setFr (s : State) (t : Tid) (f : Frame) : State :=
  { s with fr := fun u => if u = t then f else s.fr u }
def State.setPost (s : State) (t : Tid) (p : Option Rid) : State :=
  { s with post := fun u => if u = t then p else s.post u }

/-- end of the lifetime of the record (if any) -/
def State.kill (s : State) (o : Option Rid) : State :=
  { s with rcd := fun i => if o = some i then { s.rcd i with live := false } else s.rcd i }

/-- the call's semaphore (if known) is no longer bound to it -/
def State.unbind (s : State) (o : Option SemId) : State :=
  { s with semUser := fun i => if o = some i then none else s.semUser i }

/-- NOTIFIED_TIME (n) > 0 -/
def timePos (o : Note) : Bool := !o.flag && !dlePast o.expiry

/-- count after a V -/
def vCount (cfg : Config) (n : Nat) : Nat := if cfg.binary then 1 else n + 1

abbrev R := Except String State
def reject (msg : String) : R := .error msg

/-- bind the semaphore of `owner`'s call to `j`, or check the existing binding -/
def bindSem (s : State) (owner : Tid) (j : SemId) : Option State :=
  match (s.fr owner).sem with
  | some j' => if j' = j then some s else none
  | none =>
    match s.semUser j with
    | some _ => none
    | none => some ((s.setFr owner { s.fr owner with sem := some j }).setSemUser j (some owner))

/-- the V of a notifier on record `r` -/
def postSem (s : State) (r : Rid) (j : SemId) : Option State :=
  if (s.rcd r).live then bindSem s (s.rcd r).owner j else some s

def inCall (p : PC) : Bool :=
  match p with
  | .idle => false
  | _ => true

/-- Events the program counter does not prescribe: events of other layers are skipped (semaphore traffic is
    accounted); anything in this layer's vocabulary is rejected. -/
def dflt (cfg : Config) (s : State) (e : Ev) : R :=
  match e with
  | .other | .now _ | .pEnter _ | .pdEnter _ _ | .pdRet _ true => .ok s
  | .semV j => .ok (s.setSem j (vCount cfg (s.sem j)))
  | .pRet j | .pdRet j false =>
    match s.semUser j with
    | some _ => reject "P on a semaphore that belongs to an in-flight nsync_sem_wait_with_cancel_"
    | none =>
      match s.sem j with
      | 0 => reject "P returned 0 but the semaphore count is 0"
      | n + 1 => .ok (s.setSem j n)
  | .ld _ loc _ _ | .st _ loc _ _ _ =>
    match loc with
    | .other => .ok s
    | _ => reject "unexpected access to a note's flag or to a waiter record"
  | .lock _ | .unlock _ | .muWait _ => reject "unexpected operation on a note's mutex"
  | _ => reject "unexpected event"

/-! ### protocol-driven steps (notifiers, note creation) -/

def proto (cfg : Config) (s : State) (t : Tid) (e : Ev) : R :=
  match e with
  | .lock k =>
    if (s.note k).lock = none then .ok (s.setNote k { s.note k with lock := some t })
    else reject "note_mu acquired while held"
  | .unlock k | .muWait k =>
    let o := s.note k
    if o.lock = some t ∧ s.post t = none ∧ (o.flag = true → o.queue = []) then .ok (s.setNote k { o with lock := none })
    else reject "unlock: note_mu not held, a post is pending, or waiters left queued on a notified note"
  | .ld _ (.notified k) _ obs =>
    if obs = b2n (s.note k).flag then .ok s else reject "load notified: observed ≠ memory"
  | .st .rel (.notified k) .child new obs =>
    let o := s.note k
    if o.lock = some t ∧ o.known = true ∧ new = 1 ∧ obs = 0 ∧ o.flag = false ∧ dlePast o.expiry = false then
      .ok (s.setNote k { o with flag := true })
    else reject "store notified: note_mu not held, already notified / expired, or wrong value"
  | .st .rel (.waiting r) .child new obs =>
    -- note_notify_child: `n->waiters = nsync_dll_remove_ (n->waiters, p); ATM_STORE_REL (&nw->waiting, 0);`
    let rc := s.rcd r
    let o := s.note rc.note
    match o.queue with
    | [] => reject "wake: the list is empty"
    | h :: tl =>
      if h = r ∧ o.lock = some t ∧ o.flag = true ∧ s.post t = none ∧ new = 0 ∧ obs = b2n rc.waiting then
        .ok (((s.setNote rc.note { o with queue := tl }).setRec r
              { rc with waiting := false, unl := .waker, popper := t, posted := false }).setPost t (some r))
      else reject "wake: not the head of the list of a notified note whose mutex the thread holds"
  | .semV j =>
    match s.post t with
    | none => dflt cfg s e
    | some r =>
      -- `nsync_mu_semaphore_v (nw->sem)`: reads nw->sem
      match postSem s r j with
      | some s' =>
        .ok (((s'.setSem j (vCount cfg (s'.sem j))).setRec r { s'.rcd r with posted := true }).setPost t none)
      | none => reject "sem v: not the semaphore of the record's call"
  | .newNote k ex =>
    if (s.note k).known = false then
      .ok (s.setNote k { known := true, lock := none, flag := false, expiry := ex, queue := [], fresh := true })
    else reject "note exists"
  | .inherit k p =>
    -- `if (parent != NULL && parent->expiry_time < abs_deadline) set_expiry_time (n, parent->expiry_time)`:
    -- a plain read, no lock (the parent's expiry never changes once it is published)
    let o := s.note k
    if o.known = true ∧ o.fresh = true ∧ k ≠ p ∧ (s.note p).known = true then
      .ok (s.setNote k { o with expiry := dmin (s.note p).expiry o.expiry })
    else reject "inherit: note in use, or unknown parent"
  | .bornNotified k p new obs =>
    -- under the parent's mutex, NOTIFIED_TIME (parent) <= 0: the fresh, unpublished note starts out notified
    let o := s.note k
    if o.known = true ∧ o.fresh = true ∧ k ≠ p ∧ (s.note p).lock = some t ∧ timePos (s.note p) = false
        ∧ new = 1 ∧ obs = 0 ∧ o.flag = false then
      .ok (s.setNote k { o with flag := true })
    else reject "born notified: note in use, parent's mutex not held, or parent not notified"
  | e => dflt cfg s e

/-! ### nsync_note_notified_deadline_ and notify, called by the waiter -/

/-- program point after the static notify () has returned -/
def nfNext : Use → PC
  | .first => .ret         -- nsync_note_notified_deadline_ returns 0: ECANCELED
  | .l65 => .lk2           -- nsync_note_notify returns

/-- program point after nsync_note_notified_deadline_ has returned a time that is `> 0` (`pos`) or not -/
def ndNext : Use → Bool → PC
  | .first, true => .init
  | .first, false => .ret
  | .l65, true => .nf .l65 .lk     -- nsync_note_notify: `notify (n)`
  | .l65, false => .lk2

def stepND (cfg : Config) (s : State) (t : Tid) (u : Use) (st : NDst) (e : Ev) : R :=
  let n := (s.fr t).note
  let o := s.note n
  match st, e with
  | .ld0, .ld .acq (.notified n') .nd obs =>
    if n' = n ∧ obs = b2n o.flag then
      .ok (if o.flag then s.setPc t (ndNext u false) else s.setPc t (.nd u .lk))
    else reject "notified_deadline: wrong load"
  | .lk, .lock n' =>
    if n' = n ∧ o.lock = none then .ok ((s.setNote n { o with lock := some t }).setPc t (.nd u .ld1))
    else reject "notified_deadline: wrong mutex, or note_mu acquired while held"
  | .ld1, .ld .acq (.notified n') .nd obs =>
    if n' = n ∧ obs = b2n o.flag then .ok (s.setPc t (.nd u (.ulk o.flag)))
    else reject "notified_deadline: wrong load"
  | .ulk obs, .unlock n' =>
    if n' = n ∧ o.lock = some t then
      let s1 := s.setNote n { o with lock := none }
      -- ntime = NOTIFIED_TIME (n): zero if notified, else the expiry time
      .ok (if obs || dlePast o.expiry then s1.setPc t (ndNext u false) else s1.setPc t (.nd u .now))
    else reject "notified_deadline: wrong mutex"
  | .now, .now ns =>
    if ns = s.now then
      .ok (if expiredB o.expiry ns then s.setPc t (.nf u .lk) else s.setPc t (ndNext u true))
    else reject "now: not the current time"
  | _, e => dflt cfg s e

def stepNF (cfg : Config) (s : State) (t : Tid) (u : Use) (st : NfSt) (e : Ev) : R :=
  let n := (s.fr t).note
  let o := s.note n
  match st, e with
  | .lk, .lock n' =>
    if n' = n ∧ o.lock = none then .ok ((s.setNote n { o with lock := some t }).setPc t (.nf u .ld))
    else reject "notify: wrong mutex, or note_mu acquired while held"
  | .ld, .ld .acq (.notified n') .notify obs =>
    if n' = n ∧ obs = b2n o.flag then
      .ok (s.setPc t (.nf u (if o.flag || dlePast o.expiry then .ulk else .open)))
    else reject "notify: wrong load"
  | .ulk, .unlock n' =>
    if n' = n ∧ o.lock = some t then .ok ((s.setNote n { o with lock := none }).setPc t (nfNext u))
    else reject "notify: wrong mutex"
  | .open, .unlock n' =>
    -- the release of n->note_mu with the flag set is the last statement of notify (); with the flag clear it
    -- is the back-off after a failed trylock of the parent
    if n' = n ∧ o.flag = true then
      match proto cfg s t e with
      | .ok s' => .ok (s'.setPc t (nfNext u))
      | .error m => .error m
    else proto cfg s t e
  | .open, e => proto cfg s t e
  | _, e => dflt cfg s e

/-! ### the statements of sem_wait.c -/

def stepMain (cfg : Config) (s : State) (t : Tid) (e : Ev) : R :=
  let f := s.fr t
  let n := f.note
  let o := s.note n
  match s.pc t, e with
  | .init, .st .rlx (.waiting r) .sw new _ =>          -- obs unchecked: uninitialised stack memory
    if new = 1 ∧ (s.rcd r).live = false then
      .ok (((s.setRec r { live := true, waiting := true, owner := t, note := n, unl := .none, popper := 0, posted := false }).setFr t
              { f with nw := some r }).setPc t .lk1)
    else reject "record init: wrong value, or the record is in use"
  | .lk1, .lock n' =>
    if n' = n ∧ o.lock = none then .ok ((s.setNote n { o with lock := some t }).setPc t .ld49)
    else reject "sem_wait: wrong mutex, or note_mu acquired while held"
  | .ld49, .ld .acq (.notified n') .sw obs =>
    if n' = n ∧ obs = b2n o.flag then
      if cfg.noReread || timePos o then
        match f.nw with
        | some r =>
          .ok (((s.setNote n { o with queue := o.queue ++ [r] }).setFr t
                  { f with locald := dmin f.dl o.expiry, nearer := dlt f.dl o.expiry }).setPc t (.ulk1 true))
        | none => reject "internal: no record"
      else .ok (s.setPc t (.ulk1 false))
    else reject "sem_wait: wrong load"
  | .ulk1 enq, .unlock n' =>
    if n' = n ∧ o.lock = some t then
      .ok ((s.setNote n { o with lock := none }).setPc t (if enq then .pdEnter else .ret))
    else reject "sem_wait: wrong mutex"
  | .pdEnter, .pdEnter j d =>
    if d = f.locald then
      match bindSem s t j with
      | some s' => .ok (s'.setPc t (.pdWait j))
      | none => reject "pd_enter: not the semaphore of this call, or in use by another call"
    else reject "pd_enter: wrong deadline"
  | .pdWait j, .pdRet j' tmo =>
    if j' = j then
      if tmo then
        if expiredB f.locald s.now then
          if f.nearer then .ok ((s.setFr t { f with out := .timedOut }).setPc t .lk2)
          else .ok ((s.setFr t { f with out := .cancelled }).setPc t (.nd .l65 .ld0))   -- nsync_note_notify (cancel_note)
        else reject "pd_ret ETIMEDOUT before the deadline"
      else
        match s.sem j with
        | 0 => reject "pd_ret 0 but the semaphore count is 0"
        | c + 1 => .ok (((s.setSem j c).setFr t { f with out := .ok, consumed := true }).setPc t .lk2)
    else reject "pd_ret: wrong semaphore"
  | .lk2, .lock n' =>
    if n' = n ∧ o.lock = none then .ok ((s.setNote n { o with lock := some t }).setPc t .ld68)
    else reject "sem_wait: wrong mutex, or note_mu acquired while held"
  | .ld68, .ld .acq (.notified n') .sw obs =>
    if n' = n ∧ obs = b2n o.flag then
      if timePos o then
        match f.nw with
        | some r =>
          if r ∈ o.queue then
            .ok (((s.setNote n { o with queue := o.queue.erase r }).setRec r { s.rcd r with unl := .owner }).setPc t .ulk2)
          else reject "nsync_dll_remove_ of a record that is not on the list"
        | none => reject "internal: no record"
      else .ok (s.setPc t .ulk2)
    else reject "sem_wait: wrong load"
  | .ulk2, .unlock n' =>
    if n' = n ∧ o.lock = some t then .ok ((s.setNote n { o with lock := none }).setPc t .ret)
    else reject "sem_wait: wrong mutex"
  | .ret, .retSW out =>
    if out = f.out then
      .ok ((((s.kill f.nw).unbind f.sem).setFr t Frame.empty).setPc t .idle)
    else reject "nsync_sem_wait_with_cancel_: wrong result"
  | _, e => dflt cfg s e

def stepIdle (cfg : Config) (s : State) (t : Tid) (e : Ev) : R :=
  match e with
  | .callSW n dl =>
    if (s.note n).known = true ∧ s.post t = none ∧ (s.note n).lock ≠ some t then
      .ok (((s.setNote n { s.note n with fresh := false }).setFr t { Frame.empty with note := n, dl := dl }).setPc t
            (.nd .first .ld0))
    else reject "nsync_sem_wait_with_cancel_: unknown note, or call inside a notification"
  | e => proto cfg s t e

def stepThr (cfg : Config) (s : State) (t : Tid) (e : Ev) : R :=
  match s.pc t with
  | .idle => stepIdle cfg s t e
  | .nd u st => stepND cfg s t u st e
  | .nf u st => stepNF cfg s t u st e
  | _ => stepMain cfg s t e

def step (cfg : Config) (s : State) : Event → R
  | .thr t e => stepThr cfg s t e
  | .tick ns => if s.now ≤ ns then .ok { s with now := ns } else reject "tick: clock went backwards"

def run (cfg : Config) (s : State) : List Event → R
  | [] => .ok s
  | e :: es => match step cfg s e with
    | .ok s' => run cfg s' es
    | .error m => .error m

def Reachable (cfg : Config) (s : State) : Prop := ∃ evs, run cfg init evs = .ok s

def final (cfg : Config) (evs : List Event) : Option State :=
  match run cfg init evs with
  | .ok s => some s
  | .error _ => none

def accepts (cfg : Config) (evs : List Event) : Bool := (final cfg evs).isSome

/-- the record event `e` of thread `t` accesses in state `s`: a load / store of `nw->waiting`, or the
    `nsync_mu_semaphore_v (nw->sem)` of the notifier that unlinked it (it reads `nw->sem`) -/
def touches (s : State) (t : Tid) (e : Ev) (r : Rid) : Prop :=
  match e with
  | .ld _ (.waiting r') _ _ | .st _ (.waiting r') _ _ _ => r' = r
  | .semV _ => s.post t = some r
  | _ => False

/-- the record's frame is alive and the record initialised -/
def registered (s : State) (r : Rid) : Prop := (s.rcd r).live = true

end SemWait
