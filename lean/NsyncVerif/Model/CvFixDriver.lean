import NsyncVerif.Model.CvFix
/-
  Layer `CvFix` (cv.c with the repair /verif/fixes/F3/cv_fix.diff): line protocol for the
  correspondence check.  Same as `Model/CvDriver.lean` except for the site table: the repaired
  `cv_dequeue` has one more atomic operation, the acquire load of its wait loop (cv.c/35).

  One log line in, one verdict out:
    `ok`               the line is an event of this layer and the model accepts it
    `skip`             not this layer's business (state unchanged)
    `#`                `# begin …`: the driver was reset
    `REJECT <reason>`  cv.c as modelled by `CvFix.step` cannot perform this event here
    `bad-op`           the line cannot be parsed

  Demultiplexing.  There is one `Cv.State` per condition-variable name.  A line is translated
  into one model event per state:
    * API boundaries and atomics on `cv<i>.word` go to the state of that cv only;
    * an atomic operation of cv.c on a record field (`w<k>.waiting`, `w<k>.remove_count`,
      `nw<k>.waiting`, `nwarr<j>_<i>.waiting`) goes as the *proper* event (`recLd`/`recSt`/`recCas`
      with its site) to the state of the cv the thread is working on — the cv of its API call
      in progress; inside `nsync_wait_n` the cv whose spinlock it took last (cv_enqueue,
      cv_dequeue) or the cv the record was enqueued on (cv_ready_time) — and as a *foreign* access
      (`fLd`/`fSt`/`fCas`) to every other state, so that every state's copy of record memory
      stays exact; the same operation from any other file is foreign for every state;
    * semaphore operations and clock ticks go to every state;
    * the site table (file, ordinal, function, operation, memory order) ↦ model site is `recSite`,
      `wordSite`, `muSite` below; an atomic of cv.c on these locations that is not in the table
      is rejected (this includes a wrong memory order).
  The calls `cv_enqueue` / `cv_dequeue` / `cv_ready_time` are not API events in the log; they are
  recognised by the function name in the site of their atomics.
    * observers (C16): `call nsync_cv_debug_state|nsync_cv_debug_state_and_waiters|nsync_cv_debugger
      cv<i> …` / `ret … -` are `callDebug` / `retDebug` of that cv; the atomics of `emit_cv_state`
      on the cv word (debug.c/6, debug.c/7) are in `wordSite`; the loads of `emit_waiters`
      (debug.c/0, debug.c/1) are PROPER events (`dbgW`, `dbgRc`) of the cv of the thread's debug
      call in progress and foreign accesses for every other state; from a thread that is not inside
      a cv debug call (emit_mu_state walking a mutex queue) they are foreign for every state.

  The log does not say whether the harness ran with counting or binary semaphores.  The driver
  runs both hypotheses side by side; a hypothesis that rejects a line is dropped; the line is
  rejected when no hypothesis is left.

  Core Lean only.
-/
namespace NsyncVerif.CvFix.Driver

/-- Driver-side context of a thread. -/
structure TCtx where
  /-- 0 none, 1 cv wait, 2 signal, 3 broadcast, 4 wait_n, 5 debug call (nsync_cv_debug_state…) -/
  api : Nat := 0
  /-- cv of the API call (1-3) / cv whose spinlock the thread took last (4) -/
  cv : String := ""
  /-- cancel note of the wait -/
  note : String := ""
  /-- nesting depth of `ncall`s below the release / re-acquisition mark -/
  depth : Nat := 0
  /-- wait_n: the cvs among its objects -/
  cvs : List String := []

/-- One semaphore-flavour hypothesis. -/
structure Alt where
  cfg : Config
  cvs : List (String × State) := []
  /-- a state that belongs to no cv and receives every broadcast event (semaphores, ticks, record
      memory as foreign accesses) from the start of the execution: template for the state of a cv
      that is seen for the first time -/
  base : State := CvFix.init
  thr : List (Tid × TCtx) := []
  /-- nw record ↦ cv it was enqueued on -/
  home : List (Rid × String) := []

structure DState where
  alts : List Alt

def init : DState := { alts := [{ cfg := ⟨false⟩ }, { cfg := ⟨true⟩ }] }

def envTid : Tid := 1000000

/-- Strict decimal number. -/
def dec? (s : String) : Option Nat :=
  if s.isEmpty then none
  else if s.toList.all Char.isDigit then s.toNat? else none

def parseTid (s : String) : Option Tid :=
  if s == "-" then some envTid else dec? s

/-- Deadline: `inf`, a decimal number of ns, or a negative number (before the epoch: expired). -/
def parseDl (s : String) : Option (Option Nat) :=
  if s == "inf" then some none
  else if s.startsWith "-" then (dec? (s.drop 1).toString).map (fun _ => some 0)
  else (dec? s).map some

def parseIdx (pfx tok : String) : Option Nat :=
  if tok.startsWith pfx then dec? (tok.drop pfx.length).toString else none

/-- `w3` / `nw2` / `nwarr1_0` -/
def parseRid (name : String) : Option Rid :=
  if name.startsWith "nwarr" then
    match ((name.drop 5).toString).splitOn "_" with
    | [j, i] => match dec? j, dec? i with
      | some j, some i => some (.nwa j i)
      | _, _ => none
    | _ => none
  else if name.startsWith "nw" then (dec? (name.drop 2).toString).map .nw
  else if name.startsWith "w" then (dec? (name.drop 1).toString).map .w
  else none

/-- `w3.waiting`, `w3.remove_count`, `nw0.waiting`, `nwarr0_1.waiting` -/
def parseRecLoc (loc : String) : Option (Rid × Fld) :=
  match loc.splitOn "." with
  | [name, "waiting"] => (parseRid name).map (·, Fld.waiting)
  | [name, "remove_count"] =>
    match parseRid name with
    | some (.w k) => some (.w k, Fld.rc)
    | _ => none
  | _ => none

/-- A cv word: `cv0.word`, `note1.cv.word`, `oncesync5.cv.word`. -/
def cvOfLoc (loc : String) : Option String :=
  if loc.endsWith ".word" then
    let name := (loc.dropEnd 5).toString
    if name.endsWith ".cv" || (name.startsWith "cv" && !(name.contains '.')) then some name else none
  else none

def isMuLoc (loc : String) : Bool :=
  if loc.endsWith ".word" then
    let name := (loc.dropEnd 5).toString
    name.endsWith ".mu" || (name.startsWith "mu" && !(name.contains '.'))
  else false

structure Atm where
  file : String
  k : Nat
  fn : String
  op : String
  ord : String
  loc : String
  exp : Option Nat
  new : Option Nat
  obs : Option Nat
  ok : Option Bool

def parseAtm (toks : List String) : Option Atm :=
  match toks with
  | [site, op, ord, loc, exp, new, obs, ok] =>
    match site.splitOn "/" with
    | [file, k, fn] =>
      match dec? k with
      | none => none
      | some k =>
        if !(ord ∈ ["rlx", "acq", "rel", "ar"]) then none else
        match op with
        | "ld" =>
          match exp, new, dec? obs, ok with
          | "-", "-", some o, "-" => some ⟨file, k, fn, op, ord, loc, none, none, some o, none⟩
          | _, _, _, _ => none
        | "st" =>
          match exp, dec? new, dec? obs, ok with
          | "-", some n, some o, "-" => some ⟨file, k, fn, op, ord, loc, none, some n, some o, none⟩
          | _, _, _, _ => none
        | "cas" =>
          match dec? exp, dec? new, dec? obs, ok with
          | some e, some n, some o, "1" => some ⟨file, k, fn, op, ord, loc, some e, some n, some o, some true⟩
          | some e, some n, some o, "0" => some ⟨file, k, fn, op, ord, loc, some e, some n, some o, some false⟩
          | _, _, _, _ => none
        | _ => none
    | _ => none
  | _ => none

def wfn : String := "nsync_cv_wait_with_deadline_generic"

/-- Site table: atomics of cv.c on record fields. -/
def recSite (a : Atm) : Option RSite :=
  if a.file == "debug.c" then
    -- emit_waiters; proper only when called by emit_cv_state for the cv of the thread's debug call
    match a.k, a.fn, a.op, a.ord with
    | 0, "emit_waiters", "ld", "rlx" => some .dbgW
    | 1, "emit_waiters", "ld", "rlx" => some .dbgRc
    | _, _, _, _ => none
  else
  if a.file != "cv.c" then none else
  match a.k, a.fn, a.op, a.ord with
  | 5, "wake_waiters", "st", "rel" => some .wake
  | 6, _, "st", "rlx" => if a.fn == wfn then some .wSt1 else none
  | 8, _, "ld", "rlx" => if a.fn == wfn then some .wRc else none
  | 10, _, "ld", "acq" => if a.fn == wfn then some .wHead else none
  | 11, _, "ld", "rlx" => if a.fn == wfn then some .wChk else none
  | 12, _, "ld", "rlx" => if a.fn == wfn then some .wChk2 else none
  | 13, _, "ld", "rlx" => if a.fn == wfn then some .wCmp else none
  | 14, _, "ld", "rlx" => if a.fn == wfn then some .wRmLd else none
  | 15, _, "cas", "rlx" => if a.fn == wfn then some .wRmCas else none
  | 16, _, "st", "rel" => if a.fn == wfn then some .wClr else none
  | 18, _, "ld", "rlx" => if a.fn == wfn then some .wTail else none
  | 20, "nsync_cv_signal", "ld", "rlx" => some (.sRcLd true)
  | 21, "nsync_cv_signal", "cas", "rlx" => some (.sRcCas true)
  | 22, "nsync_cv_signal", "ld", "rlx" => some (.sRcLd false)
  | 23, "nsync_cv_signal", "cas", "rlx" => some (.sRcCas false)
  | 26, "nsync_cv_broadcast", "ld", "rlx" => some .bRcLd
  | 27, "nsync_cv_broadcast", "cas", "rlx" => some .bRcCas
  | 29, "cv_ready_time", "ld", "acq" => some .ready
  | 30, "cv_enqueue", "st", "rlx" => some .enqSt
  | 32, "cv_dequeue", "ld", "acq" => some .deqLd
  | 33, "cv_dequeue", "st", "rlx" => some .deqSt
  | 35, "cv_dequeue", "ld", "acq" => some .deqSpin
  | _, _, _, _ => none

/-- Site table: atomics on the cv word (cv.c and nsync_spin_test_and_set_). `none` for the CAS. -/
def wordSite (a : Atm) : Option (Option WSite) :=
  match a.file, a.k, a.fn, a.op, a.ord with
  | "common.c", 0, "nsync_spin_test_and_set_", "ld", "rlx" => some (some .spin0)
  | "common.c", 1, "nsync_spin_test_and_set_", "cas", "acq" => some none
  | "common.c", 2, "nsync_spin_test_and_set_", "ld", "rlx" => some (some .spin2)
  | "cv.c", 9, _, "st", "rel" => if a.fn == wfn then some (some .waitRel) else none
  | "cv.c", 17, _, "st", "rel" => if a.fn == wfn then some (some .waitRel2) else none
  | "cv.c", 19, "nsync_cv_signal", "ld", "acq" => some (some .sigLd)
  | "cv.c", 24, "nsync_cv_signal", "st", "rel" => some (some .sigRel)
  | "cv.c", 25, "nsync_cv_broadcast", "ld", "acq" => some (some .bcLd)
  | "cv.c", 28, "nsync_cv_broadcast", "st", "rel" => some (some .bcRel)
  | "cv.c", 31, "cv_enqueue", "st", "rel" => some (some .enqRel)
  | "cv.c", 34, "cv_dequeue", "st", "rel" => some (some .deqRel)
  | "debug.c", 6, "emit_cv_state", "ld", "rlx" => some (some .dbgLd)
  | "debug.c", 7, "emit_cv_state", "st", "rel" => some (some .dbgRel)
  | _, _, _, _, _ => none

/-- Site table: atomics of cv.c on a mutex word. -/
def muSite (a : Atm) : Option MSite :=
  if a.file != "cv.c" then none else
  match a.k, a.fn, a.op, a.ord with
  | 7, _, "ld", "rlx" => if a.fn == wfn then some .wMode else none
  | 0, "wake_waiters", "ld", "rlx" => some .wwLd
  | 1, "wake_waiters", "cas", "acq" => some .wwCas
  | 2, "wake_waiters", "ld", "rlx" => some .wwRelLd
  | 3, "wake_waiters", "cas", "rel" => some .wwRelCas
  | 4, "wake_waiters", "ld", "rlx" => some .wwRelLd2
  | _, _, _, _ => none

def getState (a : Alt) (cv : String) : State :=
  match a.cvs.find? (fun p => p.1 == cv) with
  | some p => p.2
  | none => a.base

def putState (a : Alt) (cv : String) (s : State) : Alt :=
  if a.cvs.any (fun p => p.1 == cv) then
    { a with cvs := a.cvs.map (fun p => if p.1 == cv then (cv, s) else p) }
  else { a with cvs := a.cvs ++ [(cv, s)] }

def getCtx (a : Alt) (t : Tid) : TCtx :=
  match a.thr.find? (fun p => p.1 == t) with
  | some p => p.2
  | none => {}

def putCtx (a : Alt) (t : Tid) (c : TCtx) : Alt :=
  { a with thr := (t, c) :: a.thr.filter (fun p => p.1 != t) }

/-- Result of one hypothesis on one line: new state and whether any non-skip event was accepted. -/
abbrev Res := Except String (Alt × Bool)

/-- Deliver `e` to the state of `cv` (created on first use). -/
def toCv (a : Alt) (cv : String) (e : Event) : Res :=
  match CvFix.step a.cfg (getState a cv) e with
  | .ok s' => .ok (putState a cv s', true)
  | .error m => .error s!"{cv}: {m}"

/-- Deliver `f cvName` to every known state. -/
def toAll (a : Alt) (f : String → Event) : Res :=
  let rec go (l : List (String × State)) (acc : List (String × State)) : Except String (List (String × State)) :=
    match l with
    | [] => .ok acc.reverse
    | (cv, s) :: rest =>
      match CvFix.step a.cfg s (f cv) with
      | .ok s' => go rest ((cv, s') :: acc)
      | .error m => .error s!"{cv}: {m}"
  match go a.cvs [] with
  | .ok cvs =>
    match CvFix.step a.cfg a.base (f "") with
    | .ok b => .ok ({ a with cvs := cvs, base := b }, !a.cvs.isEmpty)
    | .error m => .error s!"(template state): {m}"
  | .error m => .error m

/-- Proper event for `cv`, foreign event for all other states. -/
def toCvAndOthers (a : Alt) (cv : String) (proper foreign : Event) : Res :=
  match toCv a cv proper with
  | .error m => .error m
  | .ok (a1, _) => toAll a1 (fun c => if c == cv then .skip else foreign) |>.map (fun p => (p.1, true))

def foreignOf (t : Tid) (r : Rid) (f : Fld) (a : Atm) : Option Event :=
  match a.op, a.exp, a.new, a.obs, a.ok with
  | "ld", _, _, some o, _ => some (.fLd t r f o)
  | "st", _, some n, _, _ => some (.fSt t r f n)
  | "cas", some e, some n, some o, some ok => some (.fCas t r f e n o ok)
  | _, _, _, _, _ => none

def properOf (t : Tid) (site : RSite) (r : Rid) (a : Atm) : Option Event :=
  match a.op, a.exp, a.new, a.obs, a.ok with
  | "ld", _, _, some o, _ => some (.recLd t site r o)
  | "st", _, some n, some o, _ => some (.recSt t site r n o)
  | "cas", some e, some n, some o, some ok => some (.recCas t site r e n o ok)
  | _, _, _, _, _ => none

/-- An atomic operation on a record field. -/
def atmRec (al : Alt) (t : Tid) (r : Rid) (f : Fld) (a : Atm) : Res :=
  match foreignOf t r f a with
  | none => .error "record field: malformed operation"
  | some fe =>
    if a.file == "cv.c" then
      match recSite a with
      | none => .error s!"cv.c/{a.k}/{a.fn} {a.op} {a.ord} on a record field is not in the site table"
      | some site =>
        let c := getCtx al t
        let cv? : Option String :=
          if site == .ready then (al.home.find? (fun p => p.1 == r)).map (·.2)
          else if c.api = 0 then none else some c.cv
        match cv?, properOf t site r a with
        | some cv, some pe =>
          let al1 := if site == .enqSt then { al with home := (r, cv) :: al.home.filter (fun p => p.1 != r) } else al
          toCvAndOthers al1 cv pe fe
        | _, _ => .error "cv.c touches a record although the thread is not inside a cv call"
    else if a.file == "debug.c" && (getCtx al t).api = 5 then
      -- emit_waiters called by emit_cv_state
      match recSite a with
      | none => .error s!"debug.c/{a.k}/{a.fn} {a.op} {a.ord} on a record field is not in the site table"
      | some site =>
        match properOf t site r a with
        | some pe => toCvAndOthers al (getCtx al t).cv pe fe
        | none => .error "record field: malformed operation"
    else if a.file == "common.c" && a.fn == "nsync_waiter_new_" && a.op == "st" && f == .rc then
      toAll al (fun _ => .wInit t r)
    else if a.file == "wait.c" && a.fn == "nsync_wait_n" && a.op == "st" then
      let c := getCtx al t
      toAll al (fun cv => if c.api = 4 && c.cvs.contains cv then .nwInit t r else fe)
    else toAll al (fun _ => fe)

/-- An atomic operation on a cv word. -/
def atmWord (al : Alt) (t : Tid) (cv : String) (a : Atm) : Res :=
  match wordSite a with
  | none => .error s!"{a.file}/{a.k}/{a.fn} {a.op} {a.ord} on a cv word is not in the site table"
  | some site? =>
    let c := getCtx al t
    -- inside wait_n the spinlock acquisition tells which cv the thread works on
    let al1 := if c.api = 4 then putCtx al t { c with cv := cv } else al
    match site?, a.op, a.exp, a.new, a.obs, a.ok with
    | some site, "ld", _, _, some o, _ => toCv al1 cv (.wordLd t site o)
    | some site, "st", _, some n, some o, _ => toCv al1 cv (.wordSt t site n o)
    | none, "cas", some e, some n, some o, some ok => toCv al1 cv (.wordCas t e n o ok)
    | _, _, _, _, _, _ => .error "cv word: malformed operation"

/-- An atomic operation on a mutex word. -/
def atmMu (al : Alt) (t : Tid) (a : Atm) : Res :=
  let c := getCtx al t
  if a.file == "cv.c" then
    match muSite a with
    | none => .error s!"cv.c/{a.k}/{a.fn} {a.op} {a.ord} on a mutex word is not in the site table"
    | some site =>
      if c.api = 0 then .error "cv.c touches a mutex word although the thread is not inside a cv call" else
      match a.op, a.exp, a.new, a.obs, a.ok with
      | "ld", _, _, some o, _ => toCv al c.cv (.muLd t site o)
      | "cas", some e, some n, some o, some ok => toCv al c.cv (.muCas t site e n o ok)
      | _, _, _, _, _ => .error "mutex word: malformed operation"
  else if a.fn == "nsync_mu_lock_slow_" && c.api = 1 && c.depth = 0 &&
          ((getState al c.cv).thr t).loc == .wExit then
    -- cv.c:295: direct call of nsync_mu_lock_slow_ for a transferred waiter
    toCv al c.cv (.relockSlow t)
  else .ok (al, false)

def atmNote (al : Alt) (t : Tid) (note : String) (a : Atm) : Res :=
  let c := getCtx al t
  let nz : Bool := match a.op with
    | "ld" => a.obs != some 0
    | "st" => a.new != some 0
    | _ => false
  if c.api = 1 && c.note == note && nz then toCv al c.cv (.noteSeen t) else .ok (al, false)

def lineAtm (al : Alt) (t : Tid) (toks : List String) : Option Res :=
  match parseAtm toks with
  | none => none
  | some a =>
    match parseRecLoc a.loc with
    | some (r, f) => some (atmRec al t r f a)
    | none =>
      match cvOfLoc a.loc with
      | some cv => some (atmWord al t cv a)
      | none =>
        if isMuLoc a.loc then some (atmMu al t a)
        else match a.loc.splitOn "." with
          | [note, "notified"] => some (atmNote al t note a)
          | _ => some (.ok (al, false))

def lineSem (al : Alt) (t : Tid) (toks : List String) : Option Res :=
  match toks with
  | [op, semName] =>
    match parseIdx "sem" semName with
    | none => some (.ok (al, false))
    | some k =>
      match op with
      | "p_enter" => some (toAll al (fun _ => .semPEnter t k))
      | "p_ret" => some (toAll al (fun _ => .semPRet t k))
      | "v" => some (toAll al (fun _ => .semV t k))
      | _ => none
  | [op, semName, x] =>
    match parseIdx "sem" semName with
    | none => some (.ok (al, false))
    | some k =>
      match op with
      | "pd_enter" => (parseDl x).map (fun dl => toAll al (fun _ => .semPdEnter t k dl))
      | "pd_ret" =>
        if x == "0" then some (toAll al (fun _ => .semPdRet t k false))
        else if x == "ETIMEDOUT" then some (toAll al (fun _ => .semPdRet t k true))
        else none
      | _ => none
  | _ => none

def parseOutcome : String → Option Outcome
  | "0" => some .ok
  | "ETIMEDOUT" => some .timedOut
  | "ECANCELED" => some .cancelled
  | _ => none

/-- `call` / `ncall` of an API function. `nested`: the line was an `ncall`. -/
def lineCall (al : Alt) (t : Tid) (nested : Bool) (api : String) (args : List String) : Option Res :=
  let c := getCtx al t
  -- below a release / re-acquisition mark every nested call is the mutex layer's business
  if nested && c.depth > 0 then some (.ok (putCtx al t { c with depth := c.depth + 1 }, false)) else
  match api, args with
  | "nsync_cv_wait_with_deadline", [cv, _mu, d, note] | "nsync_cv_wait_with_deadline_generic", [cv, _mu, d, note] =>
    match parseDl d with
    | none => none
    | some dl =>
      if c.api != 0 then some (.ok (al, false)) else
      let gen := api == "nsync_cv_wait_with_deadline_generic"
      some ((toCv al cv (.callWait t gen dl (note != "-"))).map
        (fun p => (putCtx p.1 t { api := 1, cv := cv, note := note }, true)))
  | "nsync_cv_signal", [cv] =>
    if c.api != 0 then some (.ok (al, false)) else
    some ((toCv al cv (.callSignal t)).map (fun p => (putCtx p.1 t { api := 2, cv := cv }, true)))
  | "nsync_cv_broadcast", [cv] =>
    if c.api != 0 then some (.ok (al, false)) else
    some ((toCv al cv (.callBroadcast t)).map (fun p => (putCtx p.1 t { api := 3, cv := cv }, true)))
  | "nsync_cv_debug_state", cv :: _ | "nsync_cv_debug_state_and_waiters", cv :: _ | "nsync_cv_debugger", cv :: _ =>
    if nested || c.api != 0 then some (.ok (al, false)) else
    let k : DKind := if api == "nsync_cv_debug_state" then .state
      else if api == "nsync_cv_debug_state_and_waiters" then .waiters else .debugger
    some ((toCv al cv (.callDebug t k)).map (fun p => (putCtx p.1 t { api := 5, cv := cv }, true)))
  | "nsync_wait_n", _mu :: _d :: _n :: objs =>
    if nested || c.api != 0 then some (.ok (al, false)) else
    let cvs := (objs.filter (fun o => o.startsWith "cv" || o.endsWith ".cv")).eraseDups
    let rec go (al : Alt) (l : List String) : Res :=
      match l with
      | [] => .ok (al, true)
      | cv :: rest =>
        match toCv al cv (.callWaitN t) with
        | .ok (al1, _) => go al1 rest
        | .error m => .error m
    some ((go al cvs).map (fun p => (putCtx p.1 t { api := 4, cvs := cvs }, true)))
  | "nsync_mu_unlock", [_] | "nsync_mu_runlock", [_] | "nsync_mu_lock", [_] | "nsync_mu_rlock", [_] =>
    if !nested || c.api != 1 then some (.ok (al, false)) else
    let loc := ((getState al c.cv).thr t).loc
    let rd := api == "nsync_mu_runlock" || api == "nsync_mu_rlock"
    let isRel := api == "nsync_mu_unlock" || api == "nsync_mu_runlock"
    if loc == .wUnlock && isRel then
      some ((toCv al c.cv (.relMark t (if rd then .rd else .wr))).map
        (fun p => (putCtx p.1 t { c with depth := 1 }, true)))
    else if loc == .wExit && !isRel then
      some ((toCv al c.cv (.lockMark t (if rd then .rd else .wr))).map
        (fun p => (putCtx p.1 t { c with depth := 1 }, true)))
    else if loc == .wUnlock || loc == .wExit then
      some (.error s!"{c.cv}: {api} where the waiter must {if loc == .wUnlock then "release" else "re-acquire"} its mutex")
    else some (.ok (al, false))
  | "nsync_note_notify", [note] =>
    if nested && c.api = 1 && c.note == note && ((getState al c.cv).thr t).loc == .cPost then
      some (toCv al c.cv (.noteNotify t))
    else some (.ok (al, false))
  | _, _ => some (.ok (al, false))

def lineRet (al : Alt) (t : Tid) (nested : Bool) (api : String) (res : List String) : Option Res :=
  let c := getCtx al t
  if nested && c.depth > 1 then some (.ok (putCtx al t { c with depth := c.depth - 1 }, false)) else
  if nested && c.depth = 1 then
    some ((toCv al c.cv (.nret t)).map (fun p => (putCtx p.1 t { c with depth := 0 }, true)))
  else
  match api, res with
  | "nsync_cv_wait_with_deadline", [r] | "nsync_cv_wait_with_deadline_generic", [r] =>
    match parseOutcome r with
    | none => none
    | some o =>
      if c.api != 1 then some (.ok (al, false)) else
      some ((toCv al c.cv (.retWait t o)).map (fun p => (putCtx p.1 t {}, true)))
  | "nsync_cv_signal", ["-"] =>
    if c.api != 2 then some (.ok (al, false)) else
    some ((toCv al c.cv (.retSignal t)).map (fun p => (putCtx p.1 t {}, true)))
  | "nsync_cv_broadcast", ["-"] =>
    if c.api != 3 then some (.ok (al, false)) else
    some ((toCv al c.cv (.retBroadcast t)).map (fun p => (putCtx p.1 t {}, true)))
  | "nsync_cv_debug_state", _ | "nsync_cv_debug_state_and_waiters", _ | "nsync_cv_debugger", _ =>
    if nested || c.api != 5 then some (.ok (al, false)) else
    let k : DKind := if api == "nsync_cv_debug_state" then .state
      else if api == "nsync_cv_debug_state_and_waiters" then .waiters else .debugger
    some ((toCv al c.cv (.retDebug t k)).map (fun p => (putCtx p.1 t {}, true)))
  | "nsync_wait_n", [_] =>
    if nested || c.api != 4 then some (.ok (al, false)) else
    let rec go (al : Alt) (l : List String) : Res :=
      match l with
      | [] => .ok (al, true)
      | cv :: rest =>
        match toCv al cv (.retWaitN t) with
        | .ok (al1, _) => go al1 rest
        | .error m => .error m
    some ((go al c.cvs).map (fun p => (putCtx p.1 t {}, true)))
  | _, _ => some (.ok (al, false))

/-- One line for one hypothesis; `none` = unparsable. -/
def lineAlt (al : Alt) (toks : List String) : Option Res :=
  match toks with
  | ["-", "tick", ns] => (dec? ns).map (fun n => toAll al (fun _ => .tick n))
  | tidTok :: kind :: rest =>
    match parseTid tidTok with
    | none => none
    | some t =>
      match kind, rest with
      | "call", api :: args => lineCall al t false api args
      | "ncall", api :: args => lineCall al t true api args
      | "ret", api :: res => lineRet al t false api res
      | "nret", api :: res => lineRet al t true api res
      | "atm", toks => lineAtm al t toks
      | "sem", toks => lineSem al t toks
      | "panic", _ => some (.error "panic")
      | _, _ => some (.ok (al, false))
  | _ => some (.ok (al, false))

def step (d : DState) (line : String) : DState × String :=
  let l := line.trimAscii.toString
  if l.startsWith "# begin" then (init, "#")
  else if l.startsWith "#" || l.isEmpty then (d, "skip")
  else
    let toks := l.splitOn " "
    let results := d.alts.map (fun al => lineAlt al toks)
    if results.any (fun r => r.isNone) then (d, "bad-op")
    else
      let oks := results.filterMap (fun r => match r with | some (.ok p) => some p | _ => none)
      match oks with
      | [] =>
        match results.head? with
        | some (some (.error m)) => (d, "REJECT CvFix " ++ m)
        | _ => (d, "REJECT CvFix no semaphore hypothesis left")
      | _ => ({ alts := oks.map (·.1) }, if oks.any (·.2) then "ok" else "skip")

end NsyncVerif.CvFix.Driver
