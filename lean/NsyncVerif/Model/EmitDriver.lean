/-
Line protocol of the Emit correspondence check (pure differential driver, buffer half of C16).

Input lines, produced by /verif/harness/pure/emit/gen.c linked against the real nsync library:
  mu_state <n> <addr-hex> <word> => <bytes> canary=<ok|bad>
  cv_state <n> <addr-hex> <word> => <bytes> canary=<ok|bad>
  mu_waiters <n> <nwaiters> <full> => <bytes> canary=<ok|bad>
  cv_waiters <n> <nwaiters> <full> => <bytes> canary=<ok|bad>
  # cases=<n>
`<n>` is the size passed to the debug function (decimal, may be 0 or negative); `<bytes>` is the
hex dump of buf[0 .. max(n,0)-1] after the call, the buffer having been prefilled with 0xEE
(`-` when empty); `canary` tells whether the 64 bytes before and after the buffer still hold 0xA5.
`<addr-hex>` is the object's address, `<word>` the decimal value of its word when the call was made.
`<full>` (waiters lines) is the hex of the complete untruncated string, obtained with a large
buffer while the same threads were blocked.

For `mu_state`/`cv_state` the driver recomputes the bytes with the model (`muDebugState` /
`cvDebugState`, unwritten bytes = 0xEE) and compares.  For `*_waiters` it (a) checks the C16
buffer properties directly on the bytes (NUL inside when n >= 1; when truncated and n >= 4 the C
string has length n-1 and ends with "..."; untruncated: equals <full>), and (b) feeds `<full>`
as the character stream through the model's `emit_c` and compares the bytes.

Output: `ok`, `MISMATCH model=<…> impl=<…>`, or `bad-op`.

Core Lean only.
-/
import NsyncVerif.Model.Emit

namespace NsyncVerif
namespace Emit
namespace Driver

structure DState where
  cases : Nat := 0
deriving Repr

def init : DState := {}

def hexVal (c : Char) : Option Nat :=
  if '0' ≤ c ∧ c ≤ '9' then some (c.toNat - 48)
  else if 'a' ≤ c ∧ c ≤ 'f' then some (c.toNat - 87)
  else none

/-- Hex dump (two lower-case digits per byte, `-` for the empty string) to bytes. -/
def parseBytes (s : String) : Option (List UInt8) :=
  if s = "-" then some []
  else
    let rec go : List Char → Option (List UInt8)
      | [] => some []
      | [_] => none
      | a :: b :: rest =>
        match hexVal a, hexVal b, go rest with
        | some x, some y, some r => some ((16 * x + y).toUInt8 :: r)
        | _, _, _ => none
    if s.isEmpty then none else go s.toList

/-- A hexadecimal number (no prefix), e.g. an address; at most 16 digits (uintptr_t). -/
def parseHexNat (s : String) : Option Nat :=
  if s.isEmpty ∨ s.length > 16 then none
  else s.toList.foldl (fun acc c =>
    match acc, hexVal c with
    | some a, some v => some (16 * a + v)
    | _, _ => none) (some 0)

def hexNibble (d : Nat) : Char := Char.ofNat (hexDigit d).toNat

def showBytes (l : List UInt8) : String :=
  if l.isEmpty then "-"
  else String.ofList (l.flatMap fun b => [hexNibble (b.toNat / 16), hexNibble (b.toNat % 16)])

/-- `int n` -/
def parseInt32 (s : String) : Option Int :=
  match s.toInt? with
  | some v => if -2147483648 ≤ v ∧ v < 2147483648 then some v else none
  | none => none

def parseU32 (s : String) : Option Nat :=
  match s.toNat? with
  | some v => if v < 4294967296 then some v else none
  | none => none

def verdict (model impl : String) : String :=
  if model = impl then "ok" else s!"MISMATCH model={model} impl={impl}"

/-- Bytes before the first NUL, if there is one. -/
def cstrOf : List UInt8 → Option (List UInt8)
  | [] => none
  | c :: rest => if c = 0 then some [] else (cstrOf rest).map (c :: ·)

/-- The C16 buffer properties, checked on the observed bytes alone (`full` = untruncated text). -/
def checkProps (n : Int) (full bytes : List UInt8) : Option String :=
  if n ≤ 0 then (if bytes.isEmpty then none else some "C16:n<=0-but-bytes")
  else
    match cstrOf bytes with
    | none => some "C16(ii):no-NUL-inside-buffer"
    | some s =>
      if (full.length : Int) + 1 ≤ n then
        (if s = full then none else some "C16(iv):untruncated-differs")
      else if 4 ≤ n then
        (if (s.length : Int) = n - 1 ∧ s.drop (s.length - 3) = [46, 46, 46]
            ∧ s.take (s.length - 3) = full.take (s.length - 3)
         then none else some "C16(iii):truncated-without-dots")
      else
        (if s = List.replicate (n - 1).toNat 46 then none else some "C16(v):small-n")

def stateLine (st : DState) (isMu : Bool) (n addr word bytes canary : String) : DState × String :=
  match parseInt32 n, parseHexNat addr, parseU32 word, parseBytes bytes with
  | some n, some addr, some word, some bytes =>
    if (bytes.length : Int) ≠ max n 0 then (st, "bad-op")
    else if canary ≠ "canary=ok" ∧ canary ≠ "canary=bad" then (st, "bad-op")
    else
      let b := if isMu then muDebugState addr word n else cvDebugState addr word n
      let model := dump b n.toNat 0xEE
      ({ st with cases := st.cases + 1 },
        verdict (showBytes model ++ " canary=ok") (showBytes bytes ++ " " ++ canary))
  | _, _, _, _ => (st, "bad-op")

def waitersLine (st : DState) (n nw full bytes canary : String) : DState × String :=
  match parseInt32 n, nw.toNat?, parseBytes full, parseBytes bytes with
  | some n, some _, some full, some bytes =>
    if (bytes.length : Int) ≠ max n 0 then (st, "bad-op")
    else if canary ≠ "canary=ok" ∧ canary ≠ "canary=bad" then (st, "bad-op")
    else if full.any (· = 0) then (st, "bad-op")
    else
      let st' := { st with cases := st.cases + 1 }
      match checkProps n full bytes with
      | some err => (st', s!"MISMATCH model={err} impl={showBytes bytes} {canary}")
      | none =>
        let model := dump (run n full) n.toNat 0xEE
        (st', verdict (showBytes model ++ " canary=ok") (showBytes bytes ++ " " ++ canary))
  | _, _, _, _ => (st, "bad-op")

def stepTokens (st : DState) (toks : List String) : DState × String :=
  match toks with
  | ["mu_state", n, addr, word, "=>", bytes, canary] => stateLine st true n addr word bytes canary
  | ["cv_state", n, addr, word, "=>", bytes, canary] => stateLine st false n addr word bytes canary
  | ["mu_waiters", n, nw, full, "=>", bytes, canary] => waitersLine st n nw full bytes canary
  | ["cv_waiters", n, nw, full, "=>", bytes, canary] => waitersLine st n nw full bytes canary
  | ["#", trailer] =>
    match trailer.splitOn "=" with
    | ["cases", n] =>
      match n.toNat? with
      | some n => (st, verdict s!"cases={st.cases}" s!"cases={n}")
      | none => (st, "bad-op")
    | _ => (st, "bad-op")
  | _ => (st, "bad-op")

def step (st : DState) (line : String) : DState × String :=
  stepTokens st (line.trimAscii.toString.splitOn " ")

end Driver
end Emit
end NsyncVerif
