/-
  MuX — the exclusion protocol of one `nsync_mu` word.

  One model step = one atomic operation of the C code on `mu->word` (load, failed CAS,
  successful CAS, plain release-store), or one API boundary (call / return), or one of nsync's
  own lock annotations (`RWLOCK_TRYACQUIRE` / `RWLOCK_RELEASE`, common.h).

  The model is site-independent: a successful write is classified by what it does to the lock
  bits (writer bit, reader count) and to the queue-spinlock bit; the six hint bits are carried
  along uninterpreted.  The acceptor admits a write only if it is a legal transition *for the
  thread that performs it* given what that thread owns (ghost `w`, `rs`, `sp`).  A plain store
  is treated exactly like a successful CAS from the current word: it is admitted iff the
  transition it causes is legal for the storing thread — which is the semantic condition under
  which the two release-stores of mu_wait.c (and the one of debug.c) are sound.

  Core Lean only.
-/
namespace NsyncVerif.MuX

abbrev Tid := Nat

/-- Decoded view of the 32-bit mutex word (internal/common.h:136-145). -/
structure Word where
  wlock : Bool      -- MU_WLOCK     bit 0
  spin : Bool       -- MU_SPINLOCK  bit 1
  hints : Nat       -- bits 2..7 (WAITING, DESIG_WAKER, CONDITION, WRITER_WAITING, LONG_WAIT, ALL_FALSE)
  readers : Nat     -- MU_RLOCK_FIELD: v / 256
deriving DecidableEq, Repr

def decode (v : Nat) : Word :=
  { wlock := v % 2 = 1, spin := (v / 2) % 2 = 1, hints := (v / 4) % 64, readers := v / 256 }

def encode (w : Word) : Nat :=
  (if w.wlock then 1 else 0) + (if w.spin then 2 else 0) + 4 * (w.hints % 64) + 256 * w.readers

inductive Mode | W | R
deriving DecidableEq, Repr

inductive Share | none | W | R
deriving DecidableEq, Repr

def Mode.toShare : Mode → Share
  | .W => .W
  | .R => .R

/-- What a write does to the lock bits. -/
inductive LockDelta | same | addW | addR | subW | subR | r2w | w2r
deriving DecidableEq, Repr

/-- What a write does to the spinlock bit. -/
inductive SpinDelta | same | set | clear
deriving DecidableEq, Repr

def lockDelta (o n : Word) : Option LockDelta :=
  if o.wlock = n.wlock ∧ o.readers = n.readers then some .same
  else if o.wlock = false ∧ n.wlock = true ∧ o.readers = 0 ∧ n.readers = 0 then some .addW
  else if o.wlock = false ∧ n.wlock = false ∧ n.readers = o.readers + 1 then some .addR
  else if o.wlock = true ∧ n.wlock = false ∧ o.readers = 0 ∧ n.readers = 0 then some .subW
  else if o.wlock = false ∧ n.wlock = false ∧ o.readers = n.readers + 1 then some .subR
  else if o.wlock = false ∧ n.wlock = true ∧ o.readers = 1 ∧ n.readers = 0 then some .r2w
  else if o.wlock = true ∧ n.wlock = false ∧ o.readers = 0 ∧ n.readers = 1 then some .w2r
  else none

def spinDelta (o n : Word) : SpinDelta :=
  if o.spin = n.spin then .same else if n.spin then .set else .clear

/-- API calls on this mutex, as far as exclusion is concerned. -/
inductive Call
  | acq (l : Mode) (isTry : Bool)   -- nsync_mu_lock / rlock / trylock / rtrylock
  | rel (l : Mode)                  -- nsync_mu_unlock / runlock / unlock_without_wakeup
  | wait                            -- nsync_cv_wait*, nsync_mu_wait*, nsync_wait_n with this mutex
deriving DecidableEq, Repr

inductive Ev
  | call (t : Tid) (c : Call)
  | ret (t : Tid) (ok : Bool)            -- ok = result of a try-lock; true otherwise
  | ld (t : Tid) (v : Nat)               -- atomic load observed v
  | casFail (t : Tid) (exp obs : Nat)    -- failed CAS: observed obs ≠ exp
  | cas (t : Tid) (exp new : Nat)        -- successful CAS
  | st (t : Tid) (new : Nat)             -- plain (release) store
  | annAcq (t : Tid) (l : Mode)          -- RWLOCK_TRYACQUIRE fired
  | annRel (t : Tid) (l : Mode)          -- RWLOCK_RELEASE fired
deriving Repr

structure State where
  word : Nat
  w : Option Tid                 -- ghost: owner of the writer bit
  rs : List Tid                  -- ghost: owners of the reader count
  sp : Option Tid                -- ghost: owner of the queue spinlock
  call : Tid → Option (Call × Share)   -- call in progress on this mutex (+ mode held at a wait call)
  held : Tid → Share             -- client-visible ghost: between acquire-return and release-call
  ann : Tid → Share              -- what nsync's own annotations claim

def init : State :=
  { word := 0, w := none, rs := [], sp := none, call := fun _ => none,
    held := fun _ => .none, ann := fun _ => .none }

/-- The share a thread owns in the word, from the ghosts. -/
def shareOf (s : State) (t : Tid) : Share :=
  if s.w = some t then .W else if t ∈ s.rs then .R else .none

def setFn {α : Type} (f : Tid → α) (t : Tid) (v : α) : Tid → α := fun u => if u = t then v else f u

/-- A thread may give up or convert its share only once neither the client nor the annotations
    still count on it. -/
def mayChangeShare (s : State) (t : Tid) : Bool := s.held t = .none && s.ann t = .none

/-- Lock-bit part of a write by `t`: new ghost owners, or the reason it is illegal for `t`. -/
def lockPart (s : State) (t : Tid) : LockDelta → Except String (Option Tid × List Tid)
  | .same => .ok (s.w, s.rs)
  | .addW => if shareOf s t = Share.none then .ok (some t, s.rs) else .error "acquire by a thread that already owns a share"
  | .addR => if shareOf s t = Share.none then .ok (s.w, t :: s.rs) else .error "acquire by a thread that already owns a share"
  | .subW => if s.w = some t ∧ mayChangeShare s t then .ok (none, s.rs) else .error "writer bit cleared by a thread that does not own it (or still counted as holder)"
  | .subR => if t ∈ s.rs ∧ mayChangeShare s t then .ok (s.w, s.rs.erase t) else .error "reader count decremented by a thread that owns no read share (or still counted as holder)"
  | .r2w => if t ∈ s.rs ∧ mayChangeShare s t then .ok (some t, s.rs.erase t) else .error "reader-to-writer conversion by a non-reader"
  | .w2r => if s.w = some t ∧ mayChangeShare s t then .ok (none, t :: s.rs) else .error "writer-to-reader conversion by a non-writer"

/-- Effect of a legal write of `new` by `t` on the ghosts; error = illegal for this thread. -/
def applyWrite (s : State) (t : Tid) (new : Nat) : Except String State :=
  let o := decode s.word
  let n := decode new
  match lockDelta o n with
  | none => .error "write changes the lock bits in no legal way"
  | some ld =>
    match lockPart s t ld with
    | .error e => .error e
    | .ok (w', rs') =>
      match spinDelta o n with
      | .same => .ok { s with word := new, w := w', rs := rs' }
      | .set => if s.sp = none then .ok { s with word := new, w := w', rs := rs', sp := some t } else .error "spinlock taken while held"
      | .clear => if s.sp = some t then .ok { s with word := new, w := w', rs := rs', sp := none } else .error "spinlock released by a thread that does not hold it"

def step (s : State) : Ev → Except String State
  | .ld _ v => if v = s.word then .ok s else .error "load observed a value the model's word does not hold"
  | .casFail _ exp obs =>
      if obs = s.word ∧ exp ≠ obs then .ok s else .error "failed CAS inconsistent with the model's word"
  | .cas t exp new =>
      if exp = s.word then applyWrite s t new else .error "successful CAS whose expected value is not the model's word"
  | .st t new =>
      -- a plain store is sound only while the storing thread owns the spinlock
      if s.sp = some t then applyWrite s t new else .error "plain store to the word by a thread that does not hold the spinlock"
  | .call t c =>
      match s.call t with
      | some _ => .error "nested call on the same mutex"
      | none =>
        match c with
        | .acq _ _ =>
            if s.held t = .none ∧ shareOf s t = .none then .ok { s with call := setFn s.call t (some (c, .none)) }
            else .error "contract: acquiring a mutex already held by the caller"
        | .rel l =>
            if s.held t = l.toShare then
              .ok { s with call := setFn s.call t (some (c, .none)), held := setFn s.held t .none }
            else .error "contract: releasing a mutex not held in that mode"
        | .wait =>
            if s.held t ≠ .none then
              .ok { s with call := setFn s.call t (some (c, s.held t)), held := setFn s.held t .none }
            else .error "contract: waiting without holding the mutex"
  | .ret t ok =>
      match s.call t with
      | none => .error "return without call"
      | some (.acq l _, _) =>
          if ok then
            if shareOf s t = l.toShare ∧ s.sp ≠ some t then
              .ok { s with call := setFn s.call t none, held := setFn s.held t l.toShare }
            else .error "acquire returned success without owning the share"
          else
            if shareOf s t = .none ∧ s.sp ≠ some t then .ok { s with call := setFn s.call t none }
            else .error "try-lock returned failure while owning a share"
      | some (.rel _, _) =>
          if shareOf s t = .none ∧ s.sp ≠ some t then .ok { s with call := setFn s.call t none }
          else .error "release returned while still owning a share or the spinlock"
      | some (.wait, m) =>
          if shareOf s t = m ∧ s.sp ≠ some t then
            .ok { s with call := setFn s.call t none, held := setFn s.held t m }
          else .error "wait returned without owning the mutex in the caller's mode"
  | .annAcq t l =>
      if shareOf s t = l.toShare ∧ s.ann t = .none then .ok { s with ann := setFn s.ann t l.toShare }
      else .error "annotation claims an acquisition the thread does not own"
  | .annRel t l =>
      if s.ann t = l.toShare then .ok { s with ann := setFn s.ann t .none }
      else .error "annotation releases what was not annotated as held"

def run (s : State) : List Ev → Except String State
  | [] => .ok s
  | e :: es => match step s e with
    | .ok s' => run s' es
    | .error m => .error m

def Reachable (s : State) : Prop := ∃ evs, run init evs = .ok s

end NsyncVerif.MuX
