/-
  MuX — the exclusion protocol of one `nsync_mu` word.

  One model step = one atomic operation of the C code on `mu->word` (load, failed CAS,
  successful CAS, plain release-store), or one API boundary (call / return), or one of nsync's
  own lock annotations (`RWLOCK_TRYACQUIRE` / `RWLOCK_RELEASE`, common.h).

  The model is site-independent: a successful write is classified by what it does to the lock
  bits (writer bit, reader count) and to the queue-spinlock bit; the six hint bits are carried
  along uninterpreted.  The acceptor admits a write only if it is a legal transition *for the
  thread that performs it* given what that thread owns (ghost `w`, `rs`, `sp`).  A plain store
  is treated exactly like a successful CAS from the current word: it is admitted iff the
  transition it causes is legal for the storing thread — which is the semantic condition under
  which the two release-stores of mu_wait.c (and the one of debug.c) are sound.

  Core Lean only.
-/
namespace NsyncVerif.MuX

abbrev Tid := Nat

/-- Decoded view of the 32-bit mutex word (internal/common.h:136-145). -/
structure Word where
  wlock : Bool      -- MU_WLOCK     bit 0
  spin : Bool       -- MU_SPINLOCK  bit 1
  hints : Nat       -- bits 2..7 (WAITING, DESIG_WAKER, CONDITION, WRITER_WAITING, LONG_WAIT, ALL_FALSE)
  readers : Nat     -- MU_RLOCK_FIELD: v / 256
deriving DecidableEq, Repr

def decode (v : Nat) : Word :=
  { wlock := v % 2 = 1, spin := (v / 2) % 2 = 1, hints := (v / 4) % 64, readers := v / 256 }

def encode (w : Word) : Nat :=
  (if w.wlock then 1 else 0) + (if w.spin then 2 else 0) + 4 * (w.hints % 64) + 256 * w.readers

inductive Mode | W | R
deriving DecidableEq, Repr

/-- Memory order an atomic operation requests (atomic.h): relaxed, acquire, release, acq_rel. -/
inductive Ord | rlx | acq | rel | ar
deriving DecidableEq, Repr

def Ord.isAcq : Ord → Bool | .acq | .ar => true | _ => false
def Ord.isRel : Ord → Bool | .rel | .ar => true | _ => false

/-- Vector clocks: one component per thread. -/
abbrev VC := Tid → Nat
def VC.bot : VC := fun _ => 0
def VC.join (a b : VC) : VC := fun i => max (a i) (b i)
def VC.le (a b : VC) : Prop := ∀ i, a i ≤ b i

inductive Share | none | W | R
deriving DecidableEq, Repr

def Mode.toShare : Mode → Share
  | .W => .W
  | .R => .R

/-- What a write does to the lock bits. -/
inductive LockDelta | same | addW | addR | subW | subR | r2w | w2r
deriving DecidableEq, Repr

/-- What a write does to the spinlock bit. -/
inductive SpinDelta | same | set | clear
deriving DecidableEq, Repr

def lockDelta (o n : Word) : Option LockDelta :=
  if o.wlock = n.wlock ∧ o.readers = n.readers then some .same
  else if o.wlock = false ∧ n.wlock = true ∧ o.readers = 0 ∧ n.readers = 0 then some .addW
  else if o.wlock = false ∧ n.wlock = false ∧ n.readers = o.readers + 1 then some .addR
  else if o.wlock = true ∧ n.wlock = false ∧ o.readers = 0 ∧ n.readers = 0 then some .subW
  else if o.wlock = false ∧ n.wlock = false ∧ o.readers = n.readers + 1 then some .subR
  else if o.wlock = false ∧ n.wlock = true ∧ o.readers = 1 ∧ n.readers = 0 then some .r2w
  else if o.wlock = true ∧ n.wlock = false ∧ o.readers = 0 ∧ n.readers = 1 then some .w2r
  else none

def spinDelta (o n : Word) : SpinDelta :=
  if o.spin = n.spin then .same else if n.spin then .set else .clear

/-- API calls on this mutex, as far as exclusion is concerned. -/
inductive Call
  | acq (l : Mode) (isTry : Bool)   -- nsync_mu_lock / rlock / trylock / rtrylock
  | rel (l : Mode)                  -- nsync_mu_unlock / runlock / unlock_without_wakeup
  | wait                            -- nsync_cv_wait*, nsync_mu_wait*, nsync_wait_n with this mutex
  | observe                         -- nsync_mu_debug_state, nsync_mu_debug_state_and_waiters (property C16)
deriving DecidableEq, Repr

inductive Ev
  | call (t : Tid) (c : Call)
  | ret (t : Tid) (ok : Bool)            -- ok = result of a try-lock; true otherwise
  | ld (t : Tid) (v : Nat)               -- atomic load observed v
  | casFail (t : Tid) (exp obs : Nat)    -- failed CAS: observed obs ≠ exp
  | cas (t : Tid) (exp new : Nat) (ord : Ord := .ar)   -- successful CAS with its declared order
  | st (t : Tid) (new : Nat) (ord : Ord := .rel)       -- plain store with its declared order
  | annAcq (t : Tid) (l : Mode)          -- RWLOCK_TRYACQUIRE fired
  | annRel (t : Tid) (l : Mode)          -- RWLOCK_RELEASE fired
deriving Repr

structure State where
  word : Nat
  w : Option Tid                 -- ghost: owner of the writer bit
  rs : List Tid                  -- ghost: owners of the reader count
  sp : Option Tid                -- ghost: owner of the queue spinlock
  call : Tid → Option (Call × Share)   -- call in progress on this mutex (+ mode held at a wait call)
  held : Tid → Share             -- client-visible ghost: between acquire-return and release-call
  ann : Tid → Share              -- what nsync's own annotations claim
  -- happens-before ghosts (property C03), driven only by the declared orders of the writes to the word:
  vc : Tid → VC                  -- each thread's vector clock
  relc : VC                      -- release clock of the word (C++20 release sequence headed by the last release)
  released : VC                  -- join of the clocks of all threads at their release points so far

def init : State :=
  { word := 0, w := none, rs := [], sp := none, call := fun _ => none,
    held := fun _ => .none, ann := fun _ => .none,
    vc := fun t => fun i => if i = t then 1 else 0, relc := VC.bot, released := VC.bot }

/-- The share a thread owns in the word, from the ghosts. -/
def shareOf (s : State) (t : Tid) : Share :=
  if s.w = some t then .W else if t ∈ s.rs then .R else .none

def setFn {α : Type} (f : Tid → α) (t : Tid) (v : α) : Tid → α := fun u => if u = t then v else f u

/-- A thread may give up or convert its share only once neither the client nor the annotations
    still count on it. -/
def mayChangeShare (s : State) (t : Tid) : Bool := s.held t = .none && s.ann t = .none

/-- Lock-bit part of a write by `t`: new ghost owners, or the reason it is illegal for `t`. -/
def lockPart (s : State) (t : Tid) : LockDelta → Except String (Option Tid × List Tid)
  | .same => .ok (s.w, s.rs)
  | .addW => if shareOf s t = Share.none then .ok (some t, s.rs) else .error "acquire by a thread that already owns a share"
  | .addR => if shareOf s t = Share.none then .ok (s.w, t :: s.rs) else .error "acquire by a thread that already owns a share"
  | .subW => if s.w = some t ∧ mayChangeShare s t then .ok (none, s.rs) else .error "writer bit cleared by a thread that does not own it (or still counted as holder)"
  | .subR => if t ∈ s.rs ∧ mayChangeShare s t then .ok (s.w, s.rs.erase t) else .error "reader count decremented by a thread that owns no read share (or still counted as holder)"
  | .r2w => if t ∈ s.rs ∧ mayChangeShare s t then .ok (some t, s.rs.erase t) else .error "reader-to-writer conversion by a non-reader"
  | .w2r => if s.w = some t ∧ mayChangeShare s t then .ok (none, t :: s.rs) else .error "writer-to-reader conversion by a non-writer"

/-- Which order a write with these deltas must at least request: taking a share or the spinlock is an
    acquire, giving one up is a release (common.h "acquire CAS" / "release CAS" comments). -/
def needsAcq (ld : LockDelta) (sd : SpinDelta) : Bool :=
  (match ld with | .addW | .addR | .r2w => true | _ => false) || (match sd with | .set => true | _ => false)
def needsRel (ld : LockDelta) (sd : SpinDelta) : Bool :=
  (match ld with | .subW | .subR | .r2w => true | _ => false) || (match sd with | .clear => true | _ => false)
/-- A write at which the client's critical section ends for good: the share is given up. -/
def isReleasePoint : LockDelta → Bool | .subW | .subR => true | _ => false

/-- Clock update of a write by `t` (C++20: an RMW continues the release sequence; a release RMW joins its
    clock into it; a plain release store starts a new one; a relaxed plain store breaks it). -/
def clocks (s : State) (t : Tid) (ord : Ord) (isRmw : Bool) (relPoint : Bool) : (Tid → VC) × VC × VC :=
  let vt := if ord.isAcq && isRmw then VC.join (s.vc t) s.relc else s.vc t
  let vt' : VC := fun i => if i = t then vt i + 1 else vt i       -- tick own component
  let relc' := if isRmw then (if ord.isRel then VC.join s.relc vt else s.relc)
               else (if ord.isRel then vt else VC.bot)
  let released' := if relPoint then VC.join s.released vt else s.released
  (setFn s.vc t vt', relc', released')

/-- Effect of a legal write of `new` by `t` on the ghosts; error = illegal for this thread. -/
def applyWrite (s : State) (t : Tid) (new : Nat) (ord : Ord) (isRmw : Bool) : Except String State :=
  let o := decode s.word
  let n := decode new
  match lockDelta o n with
  | none => .error "write changes the lock bits in no legal way"
  | some ld =>
    match lockPart s t ld with
    | .error e => .error e
    | .ok (w', rs') =>
      let sd := spinDelta o n
      if needsAcq ld sd && !ord.isAcq then .error "a write that takes a share or the spinlock must be an acquire"
      else if needsRel ld sd && !ord.isRel then .error "a write that gives up a share or the spinlock must be a release"
      else
      let (vc', relc', released') := clocks s t ord isRmw (isReleasePoint ld)
      match sd with
      | .same => .ok { s with word := new, w := w', rs := rs', vc := vc', relc := relc', released := released' }
      | .set => if s.sp = none then .ok { s with word := new, w := w', rs := rs', sp := some t, vc := vc', relc := relc', released := released' } else .error "spinlock taken while held"
      | .clear => if s.sp = some t then .ok { s with word := new, w := w', rs := rs', sp := none, vc := vc', relc := relc', released := released' } else .error "spinlock released by a thread that does not hold it"

/-- A debug-state caller may only toggle the queue spinlock: the word after its write is the word
    before with MU_SPINLOCK (2) added or removed, every other bit untouched. -/
def spinOnly (old new : Nat) : Bool :=
  ((decode old).spin = false && new = old + 2) || ((decode old).spin = true && new + 2 = old)

def inObserve (s : State) (t : Tid) : Bool :=
  match s.call t with | some (.observe, _) => true | _ => false

def Ev.tid : Ev → Tid
  | .call t _ | .ret t _ | .ld t _ | .casFail t _ _ | .cas t _ _ _ | .st t _ _ | .annAcq t _ | .annRel t _ => t

def step (s : State) : Ev → Except String State
  | .ld _ v => if v = s.word then .ok s else .error "load observed a value the model's word does not hold"
  | .casFail _ exp obs =>
      if obs = s.word ∧ exp ≠ obs then .ok s else .error "failed CAS inconsistent with the model's word"
  | .cas t exp new ord =>
      if exp = s.word then
        if inObserve s t && !spinOnly s.word new then .error "a debug-state caller changed more than the spinlock bit"
        else applyWrite s t new ord true
      else .error "successful CAS whose expected value is not the model's word"
  | .st t new ord =>
      -- a plain store is sound only while the storing thread owns the spinlock AND the writer bit (nobody
      -- else can then write the word), and it must be a release store (a relaxed store would break the
      -- release sequence that carries earlier critical sections to later acquirers)
      if s.sp = some t ∧ s.w = some t then
        if inObserve s t then .error "a debug-state caller must not store to the word"
        else if ord.isRel then applyWrite s t new ord false else .error "plain store to the word must be a release store"
      else .error "plain store to the word by a thread that does not hold the spinlock and the writer bit"
  | .call t c =>
      match s.call t with
      | some _ => .error "nested call on the same mutex"
      | none =>
        match c with
        | .acq _ _ =>
            if s.held t = .none ∧ shareOf s t = .none then .ok { s with call := setFn s.call t (some (c, .none)) }
            else .error "contract: acquiring a mutex already held by the caller"
        | .rel l =>
            if s.held t = l.toShare then
              .ok { s with call := setFn s.call t (some (c, .none)), held := setFn s.held t .none }
            else .error "contract: releasing a mutex not held in that mode"
        | .wait =>
            if s.held t ≠ .none then
              .ok { s with call := setFn s.call t (some (c, s.held t)), held := setFn s.held t .none }
            else .error "contract: waiting without holding the mutex"
        | .observe => .ok { s with call := setFn s.call t (some (c, .none)) }
  | .ret t ok =>
      match s.call t with
      | none => .error "return without call"
      | some (.acq l _, _) =>
          if ok then
            if shareOf s t = l.toShare ∧ s.sp ≠ some t then
              .ok { s with call := setFn s.call t none, held := setFn s.held t l.toShare }
            else .error "acquire returned success without owning the share"
          else
            if shareOf s t = .none ∧ s.sp ≠ some t then .ok { s with call := setFn s.call t none }
            else .error "try-lock returned failure while owning a share"
      | some (.rel _, _) =>
          if shareOf s t = .none ∧ s.sp ≠ some t then .ok { s with call := setFn s.call t none }
          else .error "release returned while still owning a share or the spinlock"
      | some (.wait, m) =>
          if shareOf s t = m ∧ s.sp ≠ some t then
            .ok { s with call := setFn s.call t none, held := setFn s.held t m }
          else .error "wait returned without owning the mutex in the caller's mode"
      | some (.observe, _) =>
          if s.sp ≠ some t then .ok { s with call := setFn s.call t none }
          else .error "debug-state call returned while holding the spinlock"
  | .annAcq t l =>
      if inObserve s t then .error "lock annotation inside a debug-state call" else
      if shareOf s t = l.toShare ∧ s.ann t = .none then .ok { s with ann := setFn s.ann t l.toShare }
      else .error "annotation claims an acquisition the thread does not own"
  | .annRel t l =>
      if inObserve s t then .error "lock annotation inside a debug-state call" else
      if s.ann t = l.toShare then .ok { s with ann := setFn s.ann t .none }
      else .error "annotation releases what was not annotated as held"

def run (s : State) : List Ev → Except String State
  | [] => .ok s
  | e :: es => match step s e with
    | .ok s' => run s' es
    | .error m => .error m

def Reachable (s : State) : Prop := ∃ evs, run init evs = .ok s

end NsyncVerif.MuX
