/-
  Layer `Once` (property C07): executable acceptor model of /repo/internal/once.c:61-145.

  Granularity: one atomic operation on the once word, one lock operation on the shared
  `once_sync[k]` slot, or one callback boundary per step.

  ASSUMPTIONS (imported, not proved in this layer)
  * A1 (properties C01/C02): `nsync_mu` is a mutual-exclusion lock.  `once_sync[k].once_mu` is
    used as a black box: `nsync_mu_lock` completes (event `ret nsync_mu_lock`) only when no
    other thread holds the slot lock; `nsync_mu_unlock` releases it (event
    `call nsync_mu_unlock`).  The model *checks* this on the log (an acquisition while the
    model says the slot is held by another thread is rejected) rather than trusting it.
  * A2 (properties C04/C05): `nsync_cv_wait_with_deadline(cv, mu, d, NULL)` releases `mu`,
    returns `0` or `ETIMEDOUT` at any later time (spurious wake-ups and timeouts allowed) and
    holds `mu` again on return.  Release is placed at its `call`, re-acquisition at its `ret`;
    the model interval "held" is therefore contained in the real one, so mutual exclusion in
    the model is implied by mutual exclusion of the real lock.
  * A3: `nsync_cv_broadcast` has no effect on this layer's state (the wait loop re-tests the
    word after every return of the cv wait, whatever its cause).
  * A4: a thread is inside at most one run_once call at a time (a callback that calls run_once
    again is to be logged under a fresh logical tid).  The once word is touched by nobody but
    once.c.
  * `slotOf` (the hash `NSYNC_ONCE_SYNC_`) is an arbitrary parameter: every hashing is covered.

  Core Lean only.
-/

namespace Once

abbrev Tid := Nat
abbrev OnceId := Nat
abbrev SlotId := Nat

/-- Memory order requested by the ATM_* macro. -/
inductive Ord
  | rlx | acq | rel | ar
  deriving DecidableEq, Repr

/-- The C function that contains an atomic site (`<file>/<k>/<function>`; file must be once.c). -/
inductive Fn
  /-- `nsync_run_once`, `nsync_run_once_arg`, `nsync_run_once_spin`, `nsync_run_once_arg_spin` -/
  | outer (blocking arg : Bool)
  /-- `nsync_run_once_impl` -/
  | impl
  /-- anything else: never accepted -/
  | other
  deriving DecidableEq, Repr

/-- Parameters of one call: which once object, which of the four entry points. -/
structure Frame where
  o : OnceId
  blocking : Bool
  arg : Bool
  deriving DecidableEq, Repr

/-- Program counter of a thread, statement by statement through once.c. The constructor names
    say which event is expected *next*. -/
inductive PC
  /-- not inside any run_once call -/
  | idle
  /-- once.c:108/119/130/140 `o = ATM_LOAD_ACQ (once)` of the public wrapper -/
  | outerLd (f : Frame)
  /-- once.c:63 `o = ATM_LOAD_ACQ (once)` in `nsync_run_once_impl` -/
  | implLd (f : Frame)
  /-- once.c:67 `nsync_mu_lock (&s->once_mu)`: call event; `loc` is the local `o` -/
  | lock1Call (f : Frame) (loc : Nat)
  /-- once.c:67: waiting for the lock; return event acquires -/
  | lock1Ret (f : Frame) (loc : Nat)
  /-- once.c:69 `ATM_CAS_ACQ (once, 0, 1)` (local `o == 0`) -/
  | casTry (f : Frame)
  /-- once.c:70 `o = ATM_LOAD (once)` after a failed CAS -/
  | casReload (f : Frame)
  /-- once.c:74 winner: `nsync_mu_unlock` call event (releases) -/
  | wUnlockCall (f : Frame)
  /-- once.c:74 winner: `nsync_mu_unlock` return event -/
  | wUnlockRet (f : Frame)
  /-- once.c:77/79 winner: about to enter the user function -/
  | wCbStart (f : Frame)
  /-- once.c:77/79 winner: inside the user function -/
  | wCbEnd (f : Frame)
  /-- once.c:82 winner: `nsync_mu_lock` call event -/
  | wLockCall (f : Frame)
  /-- once.c:82 winner: waiting for the lock; return event acquires -/
  | wLockRet (f : Frame)
  /-- once.c:83 winner: `nsync_cv_broadcast` call event -/
  | wBcastCall (f : Frame)
  /-- once.c:83 winner: `nsync_cv_broadcast` return event -/
  | wBcastRet (f : Frame)
  /-- once.c:85 winner: `ATM_STORE_REL (once, 2)` -/
  | wStore (f : Frame)
  /-- once.c:87 `while (ATM_LOAD_ACQ (once) != 2)` -/
  | waitLd (f : Frame)
  /-- once.c:94 `nsync_cv_wait_with_deadline` call event (releases) -/
  | cvWaitCall (f : Frame)
  /-- once.c:94 `nsync_cv_wait_with_deadline` return event (re-acquires) -/
  | cvWaitRet (f : Frame)
  /-- once.c:100 `nsync_mu_unlock` call event (releases) -/
  | fUnlockCall (f : Frame)
  /-- once.c:100 `nsync_mu_unlock` return event -/
  | fUnlockRet (f : Frame)
  /-- the final load observed 2 (or a fast path did): the `ret` event is next -/
  | readyRet (f : Frame)
  deriving DecidableEq, Repr

/-- One log event as seen by this layer. -/
inductive Event
  /-- `<t> call nsync_run_once[_arg][_spin] once<o> …` -/
  | call (t : Tid) (blocking arg : Bool) (o : OnceId)
  /-- `<t> ret nsync_run_once[_arg][_spin] -` -/
  | ret (t : Tid) (blocking arg : Bool)
  /-- `<t> atm once.c/<k>/<fn> ld <ord> once<o> - - <obs> -` -/
  | ld (t : Tid) (fn : Fn) (ord : Ord) (o : OnceId) (obs : Nat)
  /-- `<t> atm once.c/<k>/<fn> st <ord> once<o> - <new> <obs> -` -/
  | st (t : Tid) (fn : Fn) (ord : Ord) (o : OnceId) (new obs : Nat)
  /-- `<t> atm once.c/<k>/<fn> cas <ord> once<o> <exp> <new> <obs> <ok>` -/
  | cas (t : Tid) (fn : Fn) (ord : Ord) (o : OnceId) (exp new obs : Nat) (ok : Bool)
  /-- `<t> cb f start` (arg = false) / `<t> cb farg start` (arg = true) -/
  | cbStart (t : Tid) (arg : Bool)
  /-- `<t> cb f end` / `<t> cb farg end` -/
  | cbEnd (t : Tid) (arg : Bool)
  /-- `<t> call nsync_mu_lock mu<k>` -/
  | muLockCall (t : Tid) (k : SlotId)
  /-- `<t> ret nsync_mu_lock -` -/
  | muLockRet (t : Tid)
  /-- `<t> call nsync_mu_unlock mu<k>` -/
  | muUnlockCall (t : Tid) (k : SlotId)
  /-- `<t> ret nsync_mu_unlock -` -/
  | muUnlockRet (t : Tid)
  /-- `<t> call nsync_cv_broadcast cv<k>` -/
  | cvBroadcastCall (t : Tid) (k : SlotId)
  /-- `<t> ret nsync_cv_broadcast -` -/
  | cvBroadcastRet (t : Tid)
  /-- `<t> call nsync_cv_wait_with_deadline cv<c> mu<k> <deadline> …` -/
  | cvWaitCall (t : Tid) (c k : SlotId)
  /-- `<t> ret nsync_cv_wait_with_deadline <0|ETIMEDOUT>` -/
  | cvWaitRet (t : Tid) (timedOut : Bool)
  /-- internal traffic of the mutex / condition variable / semaphore / clock, or an event of
      another layer: skipped (state unchanged) -/
  | internal
  deriving DecidableEq, Repr

/-- The thread performing the event (none for skipped events). -/
def Event.tid : Event → Option Tid
  | .call t .. | .ret t .. | .ld t .. | .st t .. | .cas t .. | .cbStart t .. | .cbEnd t ..
  | .muLockCall t .. | .muLockRet t | .muUnlockCall t .. | .muUnlockRet t
  | .cvBroadcastCall t .. | .cvBroadcastRet t | .cvWaitCall t .. | .cvWaitRet t .. => some t
  | .internal => none

/-- Configuration: the hashing of once objects to `once_sync[]` slots (arbitrary). -/
structure Config where
  slotOf : OnceId → SlotId

structure State where
  /-- value of each `nsync_once` word -/
  word : OnceId → Nat
  /-- holder of `once_sync[k].once_mu` (abstract lock, assumption A1) -/
  lockHolder : SlotId → Option Tid
  pc : Tid → PC
  /-- ghost: the thread whose `ATM_CAS_ACQ (once, 0, 1)` succeeded -/
  winner : OnceId → Option Tid
  /-- ghost: threads that entered the user function for this once object, in order -/
  fStarts : OnceId → List Tid
  /-- ghost: threads that left the user function for this once object, in order -/
  fEnds : OnceId → List Tid
  /-- ghost: calls started (most recent first) -/
  called : List (Tid × OnceId)
  /-- ghost: calls returned (most recent first) -/
  returned : List (Tid × OnceId)

/-- Pointwise function update. -/
def upd {β : Type} (f : Nat → β) (a : Nat) (b : β) : Nat → β :=
  fun x => if x = a then b else f x

@[simp] theorem upd_same {β : Type} (f : Nat → β) (a : Nat) (b : β) : upd f a b a = b := by
  simp [upd]

theorem upd_apply {β : Type} (f : Nat → β) (a : Nat) (b : β) (x : Nat) :
    upd f a b x = if x = a then b else f x := rfl

def init : State where
  word := fun _ => 0
  lockHolder := fun _ => none
  pc := fun _ => .idle
  winner := fun _ => none
  fStarts := fun _ => []
  fEnds := fun _ => []
  called := []
  returned := []

def State.setPc (s : State) (t : Tid) (p : PC) : State :=
  { s with pc := upd s.pc t p }

def State.acquire (s : State) (k : SlotId) (t : Tid) : State :=
  { s with lockHolder := upd s.lockHolder k (some t) }

def State.release (s : State) (k : SlotId) : State :=
  { s with lockHolder := upd s.lockHolder k none }

/-- `need c msg k`: continue with `k` if `c` holds, otherwise reject with `msg`. -/
def need (c : Prop) [Decidable c] (msg : String) (k : Except String State) : Except String State :=
  if c then k else .error msg

/-- Where control goes once the (optional) first lock is held, given the local `o`:
    the `while (o == 0 && !CAS)` loop if `o == 0`, otherwise (loop skipped, `if (o == 0)` false)
    the wait loop. -/
def afterLoc (f : Frame) (loc : Nat) : PC :=
  if loc = 0 then .casTry f else .waitLd f

/-- The acceptor. Rejects every event the C code could not perform in the given state. -/
def step (cfg : Config) (s : State) : Event → Except String State
  | .internal => .ok s
  | .call t b a o =>
    match s.pc t with
    | .idle =>
      .ok { s.setPc t (.outerLd ⟨o, b, a⟩) with called := (t, o) :: s.called }
    | _ => .error "call: thread is already inside a run_once call"
  | .ret t b a =>
    match s.pc t with
    | .readyRet f =>
      need (f.blocking = b ∧ f.arg = a) "ret: not the entry point that was called" <|
      .ok { s.setPc t .idle with returned := (t, f.o) :: s.returned }
    | .idle => .error "ret: thread is not inside a run_once call"
    | _ => .error "ret: return before the final load observed 2"
  | .ld t fn ord o obs =>
    match s.pc t with
    | .outerLd f =>
      need (fn = .outer f.blocking f.arg) "ld: wrong function for the wrapper load" <|
      need (ord = .acq) "ld: wrapper load must be acquire" <|
      need (o = f.o) "ld: wrong once object" <|
      need (obs = s.word o) "ld: observed value differs from the model word" <|
      .ok (s.setPc t (if obs = 2 then .readyRet f else .implLd f))
    | .implLd f =>
      need (fn = .impl) "ld: expected the first load of nsync_run_once_impl" <|
      need (ord = .acq) "ld: impl load must be acquire" <|
      need (o = f.o) "ld: wrong once object" <|
      need (obs = s.word o) "ld: observed value differs from the model word" <|
      .ok (s.setPc t
        (if obs = 2 then .readyRet f
         else if f.blocking then .lock1Call f obs else afterLoc f obs))
    | .casReload f =>
      need (fn = .impl) "ld: expected the reload in the CAS loop" <|
      need (ord = .rlx) "ld: the reload in the CAS loop is relaxed" <|
      need (o = f.o) "ld: wrong once object" <|
      need (obs = s.word o) "ld: observed value differs from the model word" <|
      .ok (s.setPc t (afterLoc f obs))
    | .waitLd f =>
      need (fn = .impl) "ld: expected the wait-loop load" <|
      need (ord = .acq) "ld: wait-loop load must be acquire" <|
      need (o = f.o) "ld: wrong once object" <|
      need (obs = s.word o) "ld: observed value differs from the model word" <|
      .ok (s.setPc t
        (if obs = 2 then (if f.blocking then .fUnlockCall f else .readyRet f)
         else (if f.blocking then .cvWaitCall f else .waitLd f)))
    | .idle => .error "ld: once word read by a thread outside run_once"
    | _ => .error "ld: no load of the once word at this point"
  | .cas t fn ord o exp new obs ok =>
    match s.pc t with
    | .casTry f =>
      need (fn = .impl) "cas: wrong function" <|
      need (ord = .acq) "cas: must be acquire" <|
      need (o = f.o) "cas: wrong once object" <|
      need (exp = 0 ∧ new = 1) "cas: must be 0 -> 1" <|
      need (obs = s.word o) "cas: observed value differs from the model word" <|
      need (ok = decide (obs = exp)) "cas: ok flag inconsistent with observed value" <|
      if ok then
        .ok { s.setPc t (if f.blocking then .wUnlockCall f else .wCbStart f) with
              word := upd s.word o 1, winner := upd s.winner o (some t) }
      else
        .ok (s.setPc t (.casReload f))
    | .idle => .error "cas: once word accessed by a thread outside run_once"
    | _ => .error "cas: no CAS of the once word at this point"
  | .st t fn ord o new obs =>
    match s.pc t with
    | .wStore f =>
      need (fn = .impl) "st: wrong function" <|
      need (ord = .rel) "st: must be release" <|
      need (o = f.o) "st: wrong once object" <|
      need (new = 2) "st: stored value must be 2" <|
      need (obs = s.word o) "st: previous value differs from the model word" <|
      .ok { s.setPc t (.waitLd f) with word := upd s.word o 2 }
    | .wCbStart _ => .error "st: store of 2 before the function was run"
    | .wCbEnd _ => .error "st: store of 2 before the function returned"
    | .idle => .error "st: once word written by a thread outside run_once"
    | _ => .error "st: no store to the once word at this point"
  | .cbStart t a =>
    match s.pc t with
    | .wCbStart f =>
      need (f.arg = a) "cb: wrong callback flavour (f vs farg)" <|
      .ok { s.setPc t (.wCbEnd f) with fStarts := upd s.fStarts f.o (s.fStarts f.o ++ [t]) }
    | _ => .error "cb start: thread did not win the CAS, or the function was already run"
  | .cbEnd t a =>
    match s.pc t with
    | .wCbEnd f =>
      need (f.arg = a) "cb: wrong callback flavour (f vs farg)" <|
      .ok { s.setPc t (if f.blocking then .wLockCall f else .wStore f) with
            fEnds := upd s.fEnds f.o (s.fEnds f.o ++ [t]) }
    | _ => .error "cb end: thread is not inside the function"
  | .muLockCall t k =>
    match s.pc t with
    | .idle => .ok s   -- not inside run_once: another layer's business
    | .lock1Call f loc =>
      need (k = cfg.slotOf f.o) "mu_lock: wrong slot for this once object" <|
      .ok (s.setPc t (.lock1Ret f loc))
    | .wLockCall f =>
      need (k = cfg.slotOf f.o) "mu_lock: wrong slot for this once object" <|
      .ok (s.setPc t (.wLockRet f))
    | _ => .error "mu_lock: run_once does not lock at this point"
  | .muLockRet t =>
    match s.pc t with
    | .idle => .ok s
    | .lock1Ret f loc =>
      need (s.lockHolder (cfg.slotOf f.o) = none) "mu_lock returned while the slot lock is held" <|
      .ok ((s.acquire (cfg.slotOf f.o) t).setPc t (afterLoc f loc))
    | .wLockRet f =>
      need (s.lockHolder (cfg.slotOf f.o) = none) "mu_lock returned while the slot lock is held" <|
      .ok ((s.acquire (cfg.slotOf f.o) t).setPc t (.wBcastCall f))
    | _ => .error "ret mu_lock: no lock call in progress"
  | .muUnlockCall t k =>
    match s.pc t with
    | .idle => .ok s
    | .wUnlockCall f =>
      need (k = cfg.slotOf f.o) "mu_unlock: wrong slot for this once object" <|
      need (s.lockHolder k = some t) "mu_unlock: slot lock not held by this thread" <|
      .ok ((s.release k).setPc t (.wUnlockRet f))
    | .fUnlockCall f =>
      need (k = cfg.slotOf f.o) "mu_unlock: wrong slot for this once object" <|
      need (s.lockHolder k = some t) "mu_unlock: slot lock not held by this thread" <|
      .ok ((s.release k).setPc t (.fUnlockRet f))
    | _ => .error "mu_unlock: run_once does not unlock at this point"
  | .muUnlockRet t =>
    match s.pc t with
    | .idle => .ok s
    | .wUnlockRet f => .ok (s.setPc t (.wCbStart f))
    | .fUnlockRet f => .ok (s.setPc t (.readyRet f))
    | _ => .error "ret mu_unlock: no unlock call in progress"
  | .cvBroadcastCall t k =>
    match s.pc t with
    | .idle => .ok s
    | .wBcastCall f =>
      need (k = cfg.slotOf f.o) "cv_broadcast: wrong slot for this once object" <|
      .ok (s.setPc t (.wBcastRet f))
    | _ => .error "cv_broadcast: run_once does not broadcast at this point"
  | .cvBroadcastRet t =>
    match s.pc t with
    | .idle => .ok s
    | .wBcastRet f => .ok (s.setPc t (.wStore f))
    | _ => .error "ret cv_broadcast: no broadcast in progress"
  | .cvWaitCall t c k =>
    match s.pc t with
    | .idle => .ok s
    | .cvWaitCall f =>
      need (k = cfg.slotOf f.o) "cv_wait: wrong mutex for this once object" <|
      need (c = cfg.slotOf f.o) "cv_wait: wrong condition variable for this once object" <|
      need (s.lockHolder k = some t) "cv_wait: slot lock not held by this thread" <|
      .ok ((s.release k).setPc t (.cvWaitRet f))
    | _ => .error "cv_wait: run_once does not wait at this point"
  | .cvWaitRet t _ =>
    match s.pc t with
    | .idle => .ok s
    | .cvWaitRet f =>
      need (s.lockHolder (cfg.slotOf f.o) = none) "cv_wait returned while the slot lock is held" <|
      .ok ((s.acquire (cfg.slotOf f.o) t).setPc t (.waitLd f))
    | _ => .error "ret cv_wait: no wait in progress"

/-- Run the acceptor over an event list. -/
def run (cfg : Config) (s : State) : List Event → Except String State
  | [] => .ok s
  | e :: es =>
    match step cfg s e with
    | .ok s' => run cfg s' es
    | .error m => .error m

/-- All states the C code can reach, under any program / schedule / hashing. -/
def Reachable (cfg : Config) (s : State) : Prop :=
  ∃ evs, run cfg init evs = .ok s

end Once
