/-
  Layer `Note` (C08, C09, C19 note half): line protocol for the correspondence check.

  One log line in, one verdict out:
    `ok`               an event of this layer, accepted by `Note.step`; or a `state` line of the
                       harness whose forest digest equals the model's forest
    `skip`             traffic of other layers: atomics on mutex words / waiter pool / waiter
                       structs, everything a thread emits while it is inside a nested
                       `nsync_mu_lock|unlock|trylock|wait` call on a note's mutex (except the
                       matching `nret`), API calls of other layers, auxiliary lines
    `REJECT <reason>`  the C code modelled by `Note.step` cannot perform this event here; or the
                       logged forest differs from the model's; or the step dereferences a note
                       that has been freed (`touches`)
    `bad-op`           the line cannot be parsed
  A line starting with `# begin` resets the driver.

  Core Lean only.
-/
import NsyncVerif.Model.Note

namespace Note
namespace Driver

structure DState where
  st : State

def init : DState := { st := Note.init }

/-- Strict decimal number. -/
def dec? (s : String) : Option Nat :=
  if s.isEmpty then none
  else if s.toList.all Char.isDigit then s.toNat? else none

/-- `parseIdx "note" "note12" = some 12`. -/
def parseIdx (pfx tok : String) : Option Nat :=
  if tok.startsWith pfx then dec? (tok.drop pfx.length).toString else none

/-- `note<k>.<field>` -/
def parseNoteField (field tok : String) : Option Nat :=
  match tok.splitOn "." with
  | [n, f] => if f = field then parseIdx "note" n else none
  | _ => none

/-- `note<k>.mu.word` -/
def parseNoteMuWord (tok : String) : Option Nat :=
  match tok.splitOn "." with
  | [n, "mu", "word"] => parseIdx "note" n
  | _ => none

def parseNwWaiting (tok : String) : Option Nat :=
  match tok.splitOn "." with
  | [n, "waiting"] => parseIdx "nw" n
  | _ => none

def parseOrd : String → Option Ord
  | "rlx" => some .rlx
  | "acq" => some .acq
  | "rel" => some .rel
  | "ar" => some .ar
  | _ => none

/-- Deadline token: `inf` or a decimal number of ns.  Negative and raw deadlines are outside the
    scope of the model. -/
def parseDl (tok : String) : Option Dl :=
  if tok = "inf" then some none
  else match dec? tok with
    | some v => some (some v)
    | none => none

/-- `<sec>:<nsec>` as printed for `nsync_note_expiry`; `nsync_time_no_deadline` is
    `9223372036854775807:999999999`. -/
def parseTime (tok : String) : Option Dl :=
  match tok.splitOn ":" with
  | [a, b] =>
    match dec? a, dec? b with
    | some sec, some ns =>
      if sec = 9223372036854775807 ∧ ns = 999999999 then some none
      else if ns < 1000000000 then some (some (sec * 1000000000 + ns)) else none
    | _, _ => none
  | _ => none

/-- `<file>/<k>/<function>` -/
def parseSite (site : String) : Option Site :=
  match site.splitOn "/" with
  | [file, k, fn] =>
    match dec? k with
    | none => none
    | some k =>
      if file = "note.c" then
        some (match k, fn with
          | 0, "note_notify_child" => .childLd
          | 1, "note_notify_child" => .childSt
          | 2, "note_notify_child" => .childWake
          | 3, "notify" => .notifyLd
          | 4, "nsync_note_notified_deadline_" => .dlLd1
          | 5, "nsync_note_notified_deadline_" => .dlLd2
          | 6, "nsync_note_new" => .newLd
          | 7, "nsync_note_new" => .newSt
          | 8, "note_enqueue" => .enqLd
          | 9, "note_enqueue" => .enqSt1
          | 10, "note_enqueue" => .enqSt0
          | 11, "note_dequeue" => .deqLd
          | 12, "note_dequeue" => .deqSt
          | _, _ => .other)
      else if file = "wait.c" ∧ k = 0 ∧ fn = "nsync_wait_n" then some .waitInit
      else some .other
  | _ => none

inductive Parsed
  | ev (e : Event)
  /-- an atomic operation on the mutex word of note k (other layer, but must not be freed) -/
  | muWord (k : NoteId)
  /-- `- state note<k> parent=… children=[…] waiters=<n> disc=<d> notified=<b>` -/
  | state (k : NoteId) (parent : Option NoteId) (children : List NoteId) (waiters disc : Nat)
      (notified : Bool)
  | reset
  | reject (msg : String)
  | bad

def parseAtm (t : Tid) (toks : List String) : Parsed :=
  match toks with
  | [site, op, ord, loc, exp, new, obs, ok] =>
    match parseSite site, parseOrd ord with
    | some st, some ord =>
      match parseNoteField "notified" loc with
      | some k =>
        match op with
        | "ld" =>
          match exp, new, dec? obs, ok with
          | "-", "-", some obs, "-" => .ev (.ld t st ord k obs)
          | _, _, _, _ => .bad
        | "st" =>
          match exp, dec? new, dec? obs, ok with
          | "-", some new, some obs, "-" => .ev (.stNote t st ord k new obs)
          | _, _, _, _ => .bad
        | "cas" => .reject "cas on a notified word"
        | _ => .bad
      | none =>
        match parseNwWaiting loc, op with
        | some r, "st" =>
          match exp, dec? new, dec? obs, ok with
          | "-", some new, some obs, "-" =>
            -- records of other kinds of waits (cv.c, counter.c) belong to other layers
            if st = .other then .ev .skip else .ev (.stW t st ord r new obs)
          | _, _, _, _ => .bad
        | _, _ =>
          if op = "ld" ∨ op = "st" ∨ op = "cas" then
            match parseNoteMuWord loc with
            | some k => .muWord k
            | none => .ev .skip
          else .bad
    | _, _ => .bad
  | _ => .bad

def parseNoteArg (tok : String) : Option NoteId := parseIdx "note" tok

def parseCall (t : Tid) (api : String) (args : List String) : Parsed :=
  match api, args with
  | "nsync_note_new", [p, d] =>
    match parseDl d with
    | none => .reject "unsupported deadline (outside the scope of the model)"
    | some dl =>
      if p = "-" then .ev (.call t (.new none dl))
      else match parseNoteArg p with
        | some p => .ev (.call t (.new (some p) dl))
        | none => .bad
  | "nsync_note_notify", [n] =>
    match parseNoteArg n with | some n => .ev (.call t (.notify n)) | none => .bad
  | "nsync_note_is_notified", [n] =>
    match parseNoteArg n with | some n => .ev (.call t (.isNotified n)) | none => .bad
  | "nsync_note_free", [n] =>
    match parseNoteArg n with | some n => .ev (.call t (.free n)) | none => .bad
  | "nsync_note_expiry", [n] =>
    match parseNoteArg n with | some n => .ev (.call t (.expiry n)) | none => .bad
  | "nsync_note_wait", [n, d] =>
    match parseNoteArg n, parseDl d with
    | some n, some dl => .ev (.call t (.wait n dl))
    | some _, none => .reject "unsupported deadline (outside the scope of the model)"
    | none, _ => .bad
  | "nsync_note_new", _ | "nsync_note_notify", _ | "nsync_note_is_notified", _
  | "nsync_note_free", _ | "nsync_note_expiry", _ | "nsync_note_wait", _ => .bad
  | _, _ => .ev .skip

def parseRet (t : Tid) (api : String) (res : List String) : Parsed :=
  match api, res with
  | "nsync_note_new", ["NULL"] => .ev (.ret t (.new none))
  | "nsync_note_new", [n] =>
    match parseNoteArg n with | some n => .ev (.ret t (.new (some n))) | none => .bad
  | "nsync_note_notify", ["-"] => .ev (.ret t .notify)
  | "nsync_note_is_notified", ["0"] => .ev (.ret t (.isNotified false))
  | "nsync_note_is_notified", ["1"] => .ev (.ret t (.isNotified true))
  | "nsync_note_wait", ["0"] => .ev (.ret t (.wait false))
  | "nsync_note_wait", ["1"] => .ev (.ret t (.wait true))
  | "nsync_note_free", ["-"] => .ev (.ret t .free)
  | "nsync_note_expiry", [v] =>
    match parseTime v with | some d => .ev (.ret t (.expiry d)) | none => .bad
  | "nsync_note_new", _ | "nsync_note_notify", _ | "nsync_note_is_notified", _
  | "nsync_note_free", _ | "nsync_note_expiry", _ | "nsync_note_wait", _ => .bad
  | _, _ :: _ => .ev .skip
  | _, [] => .bad

/-- `note<k>.mu` -/
def parseNoteMu (tok : String) : Option NoteId := parseNoteField "mu" tok

def parseNcall (t : Tid) (api : String) (args : List String) : Parsed :=
  match api, args with
  | "nsync_wait_n", [m, d, c] =>
    if m = "-" ∧ c = "1" then
      match parseDl d with
      | some dl => .ev (.waitnCall t dl)
      | none => .reject "unsupported deadline (outside the scope of the model)"
    else .ev .skip   -- a wait_n of another layer
  | "nsync_mu_lock", [m] =>
    match parseNoteMu m with | some k => .ev (.lockCall t k) | none => .ev .skip
  | "nsync_mu_unlock", [m] =>
    match parseNoteMu m with | some k => .ev (.unlockCall t k) | none => .ev .skip
  | "nsync_mu_trylock", [m] =>
    match parseNoteMu m with | some k => .ev (.tryCall t k) | none => .ev .skip
  | "nsync_mu_wait", [m] =>
    match parseNoteMu m with | some k => .ev (.waitCall t k) | none => .ev .skip
  | _, _ => .ev .skip

def parseNret (t : Tid) (api : String) (res : List String) : Parsed :=
  match api, res with
  | "nsync_wait_n", [r] =>
    match dec? r with | some r => .ev (.waitnRet t r) | none => .bad
  | "nsync_mu_lock", ["-"] => .ev (.lockRet t)
  | "nsync_mu_unlock", ["-"] => .ev (.unlockRet t)
  | "nsync_mu_trylock", ["0"] => .ev (.tryRet t false)
  | "nsync_mu_trylock", ["1"] => .ev (.tryRet t true)
  | "nsync_mu_wait", ["-"] => .ev (.waitRet t)
  | "nsync_wait_n", _ | "nsync_mu_lock", _ | "nsync_mu_unlock", _ | "nsync_mu_trylock", _
  | "nsync_mu_wait", _ => .bad
  | _, _ :: _ => .ev .skip
  | _, [] => .bad

def parseKV (key tok : String) : Option String :=
  if tok.startsWith (key ++ "=") then some (tok.drop (key.length + 1)).toString else none

def parseNameList (s : String) : Option (List NoteId) :=
  if s = "[]" then some []
  else if s.startsWith "[" ∧ s.endsWith "]" then
    (((s.drop 1).dropEnd 1).toString.splitOn ",").mapM parseNoteArg
  else none

def parseState (toks : List String) : Parsed :=
  match toks with
  | [n, p, c, w, d, f] =>
    match parseNoteArg n, parseKV "parent" p, parseKV "children" c, parseKV "waiters" w,
          parseKV "disc" d, parseKV "notified" f with
    | some n, some p, some c, some w, some d, some f =>
      let par : Option (Option NoteId) :=
        if p = "-" then some none else (parseNoteArg p).map some
      match par, parseNameList c, dec? w, dec? d, dec? f with
      | some par, some cs, some w, some d, some f =>
        if f ≤ 1 then .state n par cs w d (f = 1) else .bad
      | _, _, _, _, _ => .bad
    | _, _, _, _, _, _ => .bad
  | _ => .bad

def parseLine (line : String) : Parsed :=
  let l := line.trimAscii.toString
  if l.startsWith "# begin" then .reset
  else if l.startsWith "#" then .ev .skip
  else
    match l.splitOn " " with
    | "-" :: "tick" :: [ns] =>
      match dec? ns with | some v => .ev (.tick v) | none => .bad
    | "-" :: "state" :: rest => parseState rest
    | "-" :: "crash" :: _ => .reject "crash"
    | "-" :: _ :: _ => .ev .skip
    | ["-"] => .bad
    | tidTok :: kind :: rest =>
      match dec? tidTok with
      | none => .bad
      | some t =>
        match kind, rest with
        | "call", api :: args => parseCall t api args
        | "ret", api :: res => parseRet t api res
        | "ncall", api :: args => parseNcall t api args
        | "nret", api :: res => parseNret t api res
        | "atm", toks => parseAtm t toks
        | "now", [v] => match dec? v with | some v => .ev (.now t v) | none => .bad
        | "sem", ["v", s] =>
          match parseIdx "sem" s with | some j => .ev (.semV t j) | none => .ev .skip
        | "sem", ["pd_enter", s, d] =>
          match parseIdx "sem" s, parseDl d with
          | some j, some dl => .ev (.pdEnter t j dl)
          | _, _ => .ev .skip
        | "sem", ["pd_ret", s, "0"] =>
          match parseIdx "sem" s with | some j => .ev (.pdRet t j false) | none => .ev .skip
        | "sem", ["pd_ret", s, "ETIMEDOUT"] =>
          match parseIdx "sem" s with | some j => .ev (.pdRet t j true) | none => .ev .skip
        | "sem", _ :: _ => .ev .skip
        | "malloc", ["NULL", "nsync_note_new"] => .ev (.malloc t none)
        | "malloc", [o, "nsync_note_new"] =>
          match parseNoteArg o with | some k => .ev (.malloc t (some k)) | none => .bad
        | "malloc", [_, _] => .ev .skip
        | "free", [o, "nsync_note_free"] =>
          match parseNoteArg o with | some k => .ev (.free t k) | none => .bad
        | "free", [_, _] => .ev .skip
        | "panic", _ => .reject "panic"
        | "futex", _ :: _ | "cb", [_, _] | "cond", [_, _, _] | "lockann", _ :: _ | "data", _ :: _
        | "oracle", _ :: _ | "reclaim", _ | "condarg", _ :: _ | "plain", _ :: _ => .ev .skip
        | _, _ => .bad
    | _ => .bad

/-- The kind of `nret` that ends the nested mutex call the thread is in, if it is in one. -/
inductive Nested
  | lock | unlock | try | wait
  deriving DecidableEq

def nestedOf : PC → Option Nested
  | .dl .lockRet .. | .nfy .lockRet .. | .nfy .sLockPRet .. | .nfy .sLockNRet ..
  | .chd (.lockChildRet _) .. | .newP .lockRet .. | .fr .lockRet .. | .fr .sLockPRet ..
  | .fr .sLockNRet .. | .fr .lockChildRet .. | .wt .eLockRet .. | .wt .qLockRet .. => some .lock
  | .dl .unlockRet .. | .nfy .sUnlockRet .. | .nfy .unlockPRet .. | .nfy .unlockRet ..
  | .chd (.unlockChildRet _) .. | .newP .unlockRet .. | .fr .sUnlockRet ..
  | .fr .unlockChildRet .. | .fr .unlockPRet .. | .fr .unlockRet .. | .wt .eUnlockRet ..
  | .wt (.qUnlockRet _) .. => some .unlock
  | .nfy .tryRet .. | .fr .tryRet .. => some .try
  | .chd (.waitRet _) .. | .fr (.waitRet _) .. => some .wait
  | _ => none

def Event.tid : Event → Option Tid
  | .call t _ | .ret t _ | .ld t .. | .stNote t .. | .stW t .. | .lockCall t _ | .lockRet t
  | .unlockCall t _ | .unlockRet t | .tryCall t _ | .tryRet t _ | .waitCall t _ | .waitRet t
  | .waitnCall t _ | .waitnRet t _ | .now t _ | .semV t _ | .pdEnter t .. | .pdRet t ..
  | .malloc t _ | .free t _ => some t
  | .tick _ | .skip => none

def endsNested : Nested → Event → Bool
  | .lock, .lockRet _ | .unlock, .unlockRet _ | .try, .tryRet _ _ | .wait, .waitRet _ => true
  | _, _ => false

def namesOf (l : List NoteId) : String := ",".intercalate (l.map (fun k => s!"note{k}"))

def step (d : DState) (line : String) : DState × String :=
  match parseLine line with
  | .bad => (d, "bad-op")
  | .reset => (init, "skip")
  | .reject m => (d, "REJECT " ++ m)
  | .muWord k =>
    if (d.st.notes k).freed then (d, s!"REJECT atomic access to the mutex of freed note{k}")
    else (d, "skip")
  | .state k par cs w dc f =>
    let r := d.st.notes k
    if r.allocated = true ∧ r.freed = false ∧ r.parent = par ∧ r.children = cs ∧
        r.waiters.length = w ∧ r.disconnecting = dc ∧ r.notified = f then (d, "ok")
    else (d, s!"REJECT forest digest differs: model note{k} parent={repr r.parent} " ++
              s!"children=[{namesOf r.children}] waiters={r.waiters.length} " ++
              s!"disc={r.disconnecting} notified={r.notified} freed={r.freed}")
  | .ev .skip => (d, "skip")
  | .ev e =>
    let nestedSkip : Bool :=
      match Event.tid e with
      | some t =>
        match nestedOf (d.st.pc t) with
        | some k => !endsNested k e
        | none => false
      | none => false
    if nestedSkip then (d, "skip")
    else
      match (touches d.st e).find? (fun k => (d.st.notes k).freed) with
      | some k => (d, s!"REJECT the step dereferences freed note{k}")
      | none =>
        match Note.step d.st e with
        | .ok s' =>
          -- events of threads that are outside any note call and that the model ignores
          let ignored : Bool :=
            match e, Event.tid e with
            | .call .., _ | .tick _, _ => false
            | _, some t => decide (d.st.pc t = .idle)
            | _, none => false
          ({ st := s' }, if ignored then "skip" else "ok")
        | .error m => (d, "REJECT " ++ m)

end Driver
end Note
