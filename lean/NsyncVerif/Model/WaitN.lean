/-
  Model/WaitN.lean — acceptor LTS for nsync_wait_n (internal/wait.c) over condition variables, notes
  and counters, with the three waitable implementations (end of cv.c / note.c / counter.c) and the
  waker sides that touch the `struct nsync_waiter_s` records (wake_waiters in cv.c, note_notify_child
  in note.c, the zeroing branch of nsync_counter_add).  Core Lean only.

  Granularity: one step = one ATM_* operation, one nested lock operation (`ncall`/`nret` of
  nsync_mu_lock / nsync_mu_unlock on an object's mutex), one semaphore operation, one API
  call/return, one `now`, one malloc/free of the heap array, one lock annotation of the caller's
  mutex, or one tick.

  Objects (`Obj`, one structure for the three kinds, only the state nsync_wait_n depends on):
  * cv<k>:   `lock` = holder of CV_SPINLOCK, `flag` = CV_NON_EMPTY, `queue` = pcv->waiters.  The cv word
             is `b2n lock.isSome + 2 * b2n flag`.  Only nsync_wait_n callers wait on a cv of this layer
             (nsync_cv_wait on the same cv is out of scope).
  * note<k>: `lock` = holder of note_mu (abstract lock, justified by C01/C02), `flag` = notified,
             `queue` = n->waiters, `expiry` = expiry_time.  Notes without parent only.
  * ctr<k>:  `lock` = holder of counter_mu, `value`, `flag` = waited, `queue` = c->waiters.
  Lists are sequences of record ids (justified by C17); the plain list operations are merged into the
  adjacent atomic operation made under the same lock (enqueue: store waiting := 1; dequeue: store
  waiting := 0; wakers of notes/counters: STORE_REL waiting := 0; cv wakers: the store that releases
  the spinlock).

  Records `Rid`: `nw<k>` (element of nw_set[4] on the caller's stack) or `nwarr<j>_<i>` (element i of the
  malloc'ed array j when count > 4).  wait.c has NO NULL check after malloc: a `malloc NULL` there is
  rejected by the model (the code would crash; out of C19's scope, said here once).
  A record is `live` (= registered) from its initialising store `ATM_STORE (&nw[i].waiting, 0)` to the
  return of the call (stack) resp. `free` (heap).  A dead record id may be initialised again (the
  stack slot is reused by the next call).

  Callers: program counter per statement of wait.c, frame (`Frame`) with the locals.
  Wakers:  nsync_cv_signal / nsync_cv_broadcast have a program counter (`PC.sg`).  Note and counter
  wakers are protocol driven (site independent, like MuX): whoever holds the object's mutex may, when
  the object is `wakeable` (note notified / counter at 0), pop the head of the queue by
  `STORE_REL waiting := 0` and must then post the record's semaphore (`post t = some r` in between).
  This covers nsync_note_notify, the lazy expiry inside nsync_note_notified_deadline_ (also when
  executed by an nsync_wait_n caller: `NDst.nfWake`), and nsync_counter_add.  An unlock of the object's
  mutex with a non-empty queue of a wakeable object is rejected.

  Semaphores: counting (`sem`); a binary semaphore of the harness is over-approximated (never fewer
  tokens in the model).  `nw->sem` is the same for all records of a call (`&w->sem`) and is not visible
  when the waiter is taken from the pool: bound lazily at the first semaphore event that names it.

  cv_dequeue (cv.c, after the repair of defect F3): `waiting != 0` under the spinlock does not imply that
  the record is still on pcv->waiters (a signaller unlinks under the spinlock and clears `waiting` after
  dropping it), so the code walks pcv->waiters (plain accesses under the spinlock, no logged event; the
  outcome is visible in the next atomic: `ATM_STORE (&nw->waiting, 0)` = found and removed, or the release
  store of the spinlock = not found).  Not found: after releasing the spinlock it loops on
  `ATM_LOAD_ACQ (&nw->waiting)` until the waker has cleared the field (`CvDeqSt.wspin`) and returns 0.
  The model checks the outcome of the walk against the queue at that event (the queue cannot change in
  between: the caller holds the spinlock).  wake_waiters reads `p_nw->sem` BEFORE its
  `ATM_STORE_REL (&p_nw->waiting, 0)`: the V of a cv signaller does not touch the record (`touches`).

  Ghost: `Rec.unl` (who unlinked the record), `Frame.held / why / deqRes / deqUnl / mallocs / frees`.
-/
namespace WaitN

abbrev Tid := Nat
abbrev SemId := Nat
abbrev MuId := Nat
/-- absolute time in ns; `none` = nsync_time_no_deadline.  May be negative. -/
abbrev Deadline := Option Int

def b2n (b : Bool) : Nat := if b then 1 else 0

/-- `nsync_time_cmp (d, nsync_time_zero) <= 0` -/
def dlePast : Deadline → Bool
  | none => false
  | some x => decide (x ≤ 0)

/-- `d` has passed at time `now` -/
def expiredB (d : Deadline) (now : Nat) : Bool :=
  match d with
  | none => false
  | some x => decide (x ≤ (now : Int))

/-- `nsync_time_cmp (a, b) < 0` -/
def dlt : Deadline → Deadline → Bool
  | none, _ => false
  | some _, none => true
  | some x, some y => decide (x < y)

inductive ObjId
  | cv (k : Nat) | note (k : Nat) | ctr (k : Nat)
  deriving DecidableEq, Repr

def ObjId.isCv : ObjId → Bool
  | .cv _ => true
  | _ => false

inductive Rid
  | stk (k : Nat) | heap (arr i : Nat)
  deriving DecidableEq, Repr

inductive Ord | rlx | acq | rel | ar
  deriving DecidableEq, Repr

inductive Loc
  | cvWord (c : Nat) | notified (n : Nat) | value (k : Nat) | waited (k : Nat) | waiting (r : Rid) | other
  deriving DecidableEq, Repr

/-- function name of the `site` of an atomic operation -/
inductive Fn
  | waitN | cvRT | cvEnq | cvDeq | ctrRT | ctrEnq | ctrDeq | noteND | noteEnq | noteDeq
  | notify | notifyChild | spin | sig | bcast | wake | other
  deriving DecidableEq, Repr

inductive Ev
  | callWaitN (mu : Option MuId) (dl : Deadline) (objs : List ObjId) (nested : Bool)
  | retWaitN (r : Nat) (nested : Bool)
  | callSig (c : Nat) (bc : Bool) | retSig (bc : Bool)
  | newNote (k : Nat) (expiry : Deadline) | newCtr (k : Nat) (v : Nat)
  | lockCall (o : ObjId) | lockRet | unlockCall (o : ObjId) | unlockRet
  | ld (ord : Ord) (loc : Loc) (fn : Fn) (obs : Nat)
  | st (ord : Ord) (loc : Loc) (fn : Fn) (new obs : Nat)
  | cas (ord : Ord) (loc : Loc) (fn : Fn) (exp new obs : Nat) (ok : Bool)
  | pdEnter (j : SemId) (d : Deadline) | pdRet (j : SemId) (timedOut : Bool)
  | pEnter (j : SemId) | pRet (j : SemId) | semV (j : SemId)
  | now (ns : Nat)
  | malloc (arr : Option Nat) | free (arr : Nat)       -- the heap array of nsync_wait_n
  | annRel (m : MuId) | annAcq (m : MuId)               -- lock annotations of a user mutex
  | other
  deriving Repr

inductive Event
  | thr (t : Tid) (e : Ev)
  | tick (ns : Nat)
  deriving Repr

inductive Use | poll | loop | deq
  deriving DecidableEq, Repr

inductive SpinSt | ld | cas (v : Nat)
  deriving DecidableEq, Repr

/-- inside nsync_note_notified_deadline_ (and the static notify () it may call) -/
inductive NDst
  | ld0 | lockCall | lockWait | ld1 | unlockCall (obs : Bool) | unlockWait (obs : Bool) | now
  | nfLockCall | nfLockWait | nfLd0 | nfLd1 | nfStore | nfWake | nfUnlockCall | nfUnlockWait
  deriving DecidableEq, Repr

/-- note_enqueue / counter_enqueue -/
inductive EnqSt
  | lockCall | lockWait | load | store (enq : Bool) | unlockCall (enq : Bool) | unlockWait (enq : Bool)
  deriving DecidableEq, Repr

inductive CvEnqSt | spin (sp : SpinSt) | store | release
  deriving DecidableEq, Repr

/-- cv_dequeue -/
inductive CvDeqSt | spin (sp : SpinSt) | load | store | release (res : Bool) | wspin
  deriving DecidableEq, Repr

/-- note_dequeue (after its nsync_note_notified_deadline_ call) / counter_dequeue;
    `res` = the value the function will return ("was still enqueued") -/
inductive DeqSt
  | lockCall | lockWait | load | loadW (res : Bool) | store (res : Bool)
  | unlockCall (res : Bool) | unlockWait (res : Bool)
  deriving DecidableEq, Repr

/-- nsync_cv_signal / nsync_cv_broadcast -/
inductive SgSt | load | spin (sp : SpinSt) | held | wake (l : List Rid) | ret
  deriving DecidableEq, Repr

inductive PC
  | idle
  | stuck                                         -- unreachable (an index without object / record)
  | sg (c : Nat) (bc : Bool) (st : SgSt)
  | wCtrRT (u : Use) (i : Nat) (loaded : Bool)    -- counter_ready_time: store waited, load value
  | wND (u : Use) (i : Nat) (st : NDst)
  | wAlloc                                        -- malloc of the heap array (count > 4)
  | wInit (i : Nat)                               -- ATM_STORE (&nw[i].waiting, 0)
  | wEnqCv (i : Nat) (st : CvEnqSt)
  | wEnq (i : Nat) (st : EnqSt)
  | wUnlock                                       -- (*unlock) (mu)
  | wCvRT (j : Nat)                               -- cv_ready_time (v, &nw[j])
  | wPdEnter | wPdWait (j : SemId)
  | wDeqCv (j : Nat) (st : CvDeqSt)
  | wDeq (j : Nat) (st : DeqSt)
  | wFree | wRelock | wRet (r : Nat)
  deriving DecidableEq, Repr

/-- nested mutex call of a thread that is not at a caller program point (protocol-driven part) -/
inductive MC | none | locking (o : ObjId) | unlocking
  deriving DecidableEq, Repr

inductive Unl | none | waker | owner
  deriving DecidableEq, Repr

inductive Why | none | readyAt (k : Nat) | timeout
  deriving DecidableEq, Repr

structure Obj where
  known : Bool
  lock : Option Tid
  queue : List Rid
  flag : Bool
  value : Nat
  expiry : Deadline
  deriving Repr

/-- struct nsync_waiter_s of an nsync_wait_n call -/
structure Rec where
  live : Bool
  waiting : Bool
  owner : Tid
  obj : ObjId
  unl : Unl                  -- ghost: who unlinked it from the object's queue
  deqd : Bool                -- ghost: the owner's dequeue call for this record has released the lock
  deriving Repr

/-- locals of one nsync_wait_n call -/
structure Frame where
  mu : Option MuId
  dl : Deadline
  objs : List ObjId
  nested : Bool
  recs : List Rid            -- nw[0..i-1] initialised so far
  heap : Option Nat
  sem : Option SemId
  freed : Bool               -- nsync_waiter_free_ (w) done
  ready : Nat
  min : Deadline             -- min_ntime
  who : Option Nat           -- ghost: index of the object whose ready time is `min` (none: abs_deadline)
  unlocked : Bool
  held : Bool                -- ghost: the supplied mutex is held
  why : Why                  -- ghost: why the sleep loop was left / skipped
  deqRes : List Bool         -- ghost: results of the dequeue calls so far
  deqUnl : List Unl          -- ghost: `unl` of the record at the return of its dequeue call
  mallocs : Nat
  frees : Nat
  deriving Repr

def Frame.count (f : Frame) : Nat := f.objs.length

def Frame.empty : Frame :=
  { mu := none, dl := none, objs := [], nested := false, recs := [], heap := none, sem := none, freed := false, ready := 0,
    min := none, who := none, unlocked := false, held := false, why := .none, deqRes := [], deqUnl := [], mallocs := 0,
    frees := 0 }

/-- the frame at the entry of nsync_wait_n -/
def Frame.new (mu : Option MuId) (dl : Deadline) (objs : List ObjId) (nested : Bool) : Frame :=
  { Frame.empty with mu := mu, dl := dl, objs := objs, nested := nested, ready := objs.length, min := dl,
                     held := mu.isSome }

structure State where
  obj : ObjId → Obj
  rcd : Rid → Rec
  sem : SemId → Nat
  semUser : SemId → Option Tid
  pc : Tid → PC
  fr : Tid → Frame
  mc : Tid → MC
  post : Tid → Option Rid
  now : Nat

def Obj.init (o : ObjId) : Obj :=
  { known := o.isCv, lock := none, queue := [], flag := false, value := 0, expiry := none }

def init : State :=
  { obj := Obj.init,
    rcd := fun _ => { live := false, waiting := false, owner := 0, obj := .cv 0, unl := .none, deqd := false },
    sem := fun _ => 0, semUser := fun _ => none, pc := fun _ => .idle, fr := fun _ => Frame.empty,
    mc := fun _ => .none, post := fun _ => none, now := 0 }

def State.setObj (s : State) (o : ObjId) (v : Obj) : State :=
  { s with obj := fun i => if i = o then v else s.obj i }
def State.setRec (s : State) (r : Rid) (v : Rec) : State :=
  { s with rcd := fun i => if i = r then v else s.rcd i }
def State.setSem (s : State) (j : SemId) (n : Nat) : State :=
  { s with sem := fun i => if i = j then n else s.sem i }
def State.setSemUser (s : State) (j : SemId) (u : Option Tid) : State :=
  { s with semUser := fun i => if i = j then u else s.semUser i }
def State.setPc (s : State) (t : Tid) (p : PC) : State :=
  { s with pc := fun u => if u = t then p else s.pc u }
def State.setFr (s : State) (t : Tid) (f : Frame) : State :=
  { s with fr := fun u => if u = t then f else s.fr u }
def State.setMc (s : State) (t : Tid) (m : MC) : State :=
  { s with mc := fun u => if u = t then m else s.mc u }
def State.setPost (s : State) (t : Tid) (p : Option Rid) : State :=
  { s with post := fun u => if u = t then p else s.post u }

/-- end of the lifetime of the records in `l` -/
def State.kill (s : State) (l : List Rid) : State :=
  { s with rcd := fun r => if r ∈ l then { s.rcd r with live := false } else s.rcd r }

/-- value of the cv word -/
def cvWord (o : Obj) : Nat := b2n o.lock.isSome + 2 * b2n o.flag

/-- NOTIFIED_TIME (n) > 0, given the observed value of `notified` -/
def noteTimePos (o : Obj) (obs : Nat) : Bool := decide (obs = 0) && !dlePast o.expiry

/-- the object's waiters are being / have been released -/
def wakeable (i : ObjId) (o : Obj) : Bool :=
  match i with
  | .cv _ => false
  | .note _ => o.flag
  | .ctr _ => decide (o.value = 0)

abbrev R := Except String State
def reject (msg : String) : R := .error msg

/-- bind the semaphore of `owner`'s call to `j`, or check the existing binding -/
def bindSem (s : State) (owner : Tid) (j : SemId) : Option State :=
  match (s.fr owner).sem with
  | some j' => if j' = j then some s else none
  | none =>
    match s.semUser j with
    | some _ => none
    | none => some ((s.setFr owner { s.fr owner with sem := some j }).setSemUser j (some owner))

/-- nsync_waiter_free_: the call's semaphore goes back to the pool -/
def unbindSem (s : State) (t : Tid) : State :=
  match (s.fr t).sem with
  | some j => (s.setFr t { s.fr t with sem := none, freed := true }).setSemUser j none
  | none => s.setFr t { s.fr t with freed := true }

/-- the V of a waker on record `r`: binds / checks the semaphore of the owner's call while that call
    still uses its waiter -/
def postSem (s : State) (r : Rid) (j : SemId) : Option State :=
  if (s.rcd r).live ∧ !(s.fr (s.rcd r).owner).freed then bindSem s (s.rcd r).owner j else some s

def inCall (p : PC) : Bool :=
  match p with
  | .idle | .sg _ _ _ => false
  | _ => true

/-- Events the program counter does not prescribe: events of other layers are skipped (semaphore
    traffic is accounted); anything in this layer's vocabulary is rejected. -/
def dflt (s : State) (t : Tid) (e : Ev) : R :=
  match e with
  | .other | .now _ | .lockRet | .unlockRet | .pEnter _ | .pdEnter _ _ | .pdRet _ true => .ok s
  | .semV j => .ok (s.setSem j (s.sem j + 1))
  | .pRet j | .pdRet j false =>
    match s.semUser j with
    | some _ => reject "P on a semaphore that belongs to an in-flight nsync_wait_n"
    | none =>
      match s.sem j with
      | 0 => reject "P returned 0 but the semaphore count is 0"
      | n + 1 => .ok (s.setSem j n)
  | .ld _ loc _ _ | .st _ loc _ _ _ | .cas _ loc _ _ _ _ _ =>
    match loc with
    | .other => .ok s
    | _ => reject "unexpected access to an object or waiter record of this layer"
  | .lockCall _ | .unlockCall _ => reject "unexpected operation on an object's mutex"
  | .annRel m | .annAcq m =>
    if inCall (s.pc t) ∧ (s.fr t).mu = some m then reject "caller's mutex released / acquired at the wrong place"
    else .ok s
  | .malloc _ | .free _ => reject "unexpected malloc / free of a waiter array"
  | _ => reject "unexpected API event"

/-! ### program-counter arithmetic of wait.c -/

def relockNext (f : Frame) : PC := if f.unlocked then .wRelock else .wRet f.ready
def finNext (f : Frame) : PC := if f.heap.isSome then .wFree else relockNext f

/-- entry of `dequeue (waitable[j]->v, &nw[j])`, or the end of the dequeue loop -/
def deqNext (f : Frame) (j : Nat) : PC :=
  if j < f.recs.length then
    match f.objs[j]? with
    | some (.cv _) => .wDeqCv j (.spin .ld)
    | some (.note _) => .wND .deq j .ld0
    | some (.ctr _) => .wDeq j .lockCall
    | none => .stuck
  else finNext f

/-- end of a scan of the sleep loop: leave (min_ntime <= 0) or sleep -/
def scanEnd (f : Frame) : PC := if dlePast f.min then deqNext f 0 else .wPdEnter

/-- entry of `ready_time (waitable[j]->v, &nw[j])`, or the end of the scan -/
def loopNext (f : Frame) (j : Nat) : PC :=
  if j < f.count then
    match f.objs[j]? with
    | some (.cv _) => .wCvRT j
    | some (.note _) => .wND .loop j .ld0
    | some (.ctr _) => .wCtrRT .loop j false
    | none => .stuck
  else scanEnd f

/-- after `enqueue` number i-1 returned `res` (i objects attempted); `f.min = f.dl` here -/
def enqNext (f : Frame) (i : Nat) (res : Bool) : PC :=
  if res ∧ i < f.count then .wInit i
  else if i = f.count then (if f.mu.isSome then .wUnlock else loopNext f 0)
  else deqNext f 0

/-- first poll loop: next program point from object index `i` on (`cv_ready_time (v, NULL)` has no
    visible event and returns nsync_time_no_deadline) -/
def pollFrom (f : Frame) : List ObjId → Nat → PC
  | [], _ => if dlePast f.dl then .wRet f.count else if 4 < f.count then .wAlloc else enqNext f 0 true
  | .cv _ :: rest, i => pollFrom f rest (i + 1)
  | .note _ :: _, i => .wND .poll i .ld0
  | .ctr _ :: _, i => .wCtrRT .poll i false

def pollNext (f : Frame) (i : Nat) : PC := pollFrom f (f.objs.drop i) i

/-- a `ready_time` call of use `u` on object `i` returned `time` (ready ⇔ time <= 0) -/
def rtDone (s : State) (t : Tid) (u : Use) (i : Nat) (time : Deadline) : R :=
  let f := s.fr t
  match u with
  | .poll =>
    if dlePast time then .ok ((s.setFr t { f with ready := i }).setPc t (.wRet i))
    else .ok (s.setPc t (pollNext f (i + 1)))
  | .loop =>
    let f' : Frame :=
      if dlePast time then { f with min := some 0, who := some i, why := .readyAt i }
      else if dlt time f.min then { f with min := time, who := some i } else f
    .ok ((s.setFr t f').setPc t (loopNext f' (i + 1)))
  | .deq => .ok (s.setPc t (.wDeq i .lockCall))

/-- a `dequeue` call on object `j` returned `res` (true = was still enqueued) -/
def deqDone (s : State) (t : Tid) (j : Nat) (res : Bool) : R :=
  let f := s.fr t
  let u : Unl := match f.recs[j]? with | some r => (s.rcd r).unl | none => .none
  let f' : Frame := { f with ready := if !res ∧ f.ready = f.count then j else f.ready, deqRes := f.deqRes ++ [res],
                             deqUnl := f.deqUnl ++ [u] }
  if j + 1 < f'.recs.length then .ok ((s.setFr t f').setPc t (deqNext f' (j + 1)))
  else
    let s1 := unbindSem (s.setFr t f') t
    .ok (s1.setPc t (finNext (s1.fr t)))

/-- begin a new scan of the sleep loop -/
def startScan (s : State) (t : Tid) : State :=
  let f := { s.fr t with min := (s.fr t).dl, who := none }
  (s.setFr t f).setPc t (loopNext f 0)

/-- after the enqueue loop: i = number of objects attempted, `res` = result of the last enqueue -/
def afterEnq (s : State) (t : Tid) (i : Nat) (res : Bool) : R :=
  let f0 := s.fr t
  let f : Frame := if res then { f0 with who := none } else { f0 with who := none, why := .readyAt (i - 1) }
  .ok ((s.setFr t f).setPc t (enqNext f i res))

/-! ### spinlock of a cv (nsync_spin_test_and_set_ (&pcv->word, CV_SPINLOCK, CV_SPINLOCK, 0)) -/

def spinAcq (s : State) (t : Tid) (c : Nat) (st : SpinSt) (mk : SpinSt → PC) (done : PC) (e : Ev) : R :=
  let o := s.obj (.cv c)
  match st, e with
  | .ld, .ld .rlx (.cvWord c') .spin obs =>
    if c' = c ∧ obs = cvWord o then .ok (s.setPc t (mk (if obs % 2 = 1 then .ld else .cas obs)))
    else reject "spinlock: load of the wrong word or observed ≠ memory"
  | .cas v, .cas .acq (.cvWord c') .spin exp new obs ok =>
    if c' = c ∧ exp = v ∧ v % 2 = 0 ∧ new = v + 1 ∧ obs = cvWord o ∧ ok = decide (obs = exp) then
      if ok then .ok ((s.setObj (.cv c) { o with lock := some t }).setPc t done)
      else .ok (s.setPc t (mk .ld))
    else reject "spinlock: wrong cas"
  | _, e => dflt s t e

/-! ### protocol-driven steps (threads that are not at a caller program point) -/

/-- steps any thread may take according to the locks it holds (anything else: `dflt`) -/
def proto (s : State) (t : Tid) (e : Ev) : R :=
  match e with
  | .lockCall o =>
    if (s.obj o).known ∧ !o.isCv ∧ s.post t = none then .ok (s.setMc t (.locking o))
    else reject "lock of the mutex of an unknown object, or a post is pending"
  | .unlockCall o =>
    let ob := s.obj o
    if ob.lock = some t ∧ s.post t = none ∧ (wakeable o ob → ob.queue = []) then
      .ok ((s.setObj o { ob with lock := none }).setMc t .unlocking)
    else reject "unlock: mutex not held, a post is pending, or waiters left queued on a ready object"
  | .ld _ (.notified n) _ obs =>
    if obs = b2n (s.obj (.note n)).flag ∧ (s.obj (.note n)).known then .ok s
    else reject "load notified: observed ≠ memory"
  | .st .rel (.notified n) _ new obs =>
    let ob := s.obj (.note n)
    if ob.lock = some t ∧ new = 1 ∧ obs = 0 ∧ ob.flag = false ∧ !dlePast ob.expiry then
      .ok (s.setObj (.note n) { ob with flag := true })
    else reject "store notified: note_mu not held, already notified, or wrong value"
  | .ld _ (.value k) _ obs =>
    if obs = (s.obj (.ctr k)).value ∧ (s.obj (.ctr k)).known then .ok s
    else reject "load value: observed ≠ memory"
  | .ld _ (.waited k) _ obs =>
    if obs = b2n (s.obj (.ctr k)).flag ∧ (s.obj (.ctr k)).known then .ok s
    else reject "load waited: observed ≠ memory"
  | .cas .ar (.value k) _ exp new obs ok =>
    let ob := s.obj (.ctr k)
    if ob.lock = some t ∧ obs = ob.value ∧ ok = decide (obs = exp) then
      if ok then
        if ob.value = 0 ∧ ob.flag ∧ new ≠ 0 then reject "contract: increment from zero after a wait (ASSERT)"
        else .ok (s.setObj (.ctr k) { ob with value := new })
      else .ok s
    else reject "cas value: counter_mu not held or observed ≠ memory"
  | .st .rel (.waiting r) _ new obs =>
    let rc := s.rcd r
    let ob := s.obj rc.obj
    match ob.queue with
    | [] => reject "wake: queue is empty"
    | h :: tl =>
      if h = r ∧ !rc.obj.isCv ∧ ob.lock = some t ∧ wakeable rc.obj ob ∧ s.post t = none
          ∧ new = 0 ∧ obs = b2n rc.waiting then
        .ok (((s.setObj rc.obj { ob with queue := tl }).setRec r { rc with waiting := false, unl := .waker }).setPost t (some r))
      else reject "wake: not the head of the queue of a ready object whose mutex the thread holds"
  | .semV j =>
    match s.post t with
    | none => dflt s t e
    | some r =>
      match postSem s r j with
      | some s' => .ok ((s'.setSem j (s'.sem j + 1)).setPost t none)
      | none => reject "sem v: not the semaphore of the record's call"
  | e => dflt s t e

/-- a thread in unknown API code, or an nsync_wait_n caller inside the lazy notification of a note -/
def stepOpen (s : State) (t : Tid) (e : Ev) : R :=
  match s.mc t with
  | .locking o =>
    match e with
    | .lockRet =>
      if (s.obj o).lock = none ∧ (s.obj o).known then .ok ((s.setObj o { s.obj o with lock := some t }).setMc t .none)
      else reject "mutex acquired while held"
    | e => dflt s t e          -- internals of the Mu layer
  | .unlocking =>
    match e with
    | .unlockRet => .ok (s.setMc t .none)
    | e => dflt s t e
  | .none => proto s t e

/-! ### nsync_cv_signal / nsync_cv_broadcast -/

def stepSg (s : State) (t : Tid) (c : Nat) (bc : Bool) (st : SgSt) (e : Ev) : R :=
  let o := s.obj (.cv c)
  match st with
  | .load =>
    match e with
    | .ld .acq (.cvWord c') fn obs =>
      if c' = c ∧ obs = cvWord o ∧ fn = (if bc then .bcast else .sig) then
        .ok (s.setPc t (.sg c bc (if obs / 2 % 2 = 1 then .spin .ld else .ret)))
      else reject "signal: wrong load"
    | e => dflt s t e
  | .spin sp => spinAcq s t c sp (fun x => .sg c bc (.spin x)) (.sg c bc .held) e
  | .held =>
    match e with
    | .st .rel (.cvWord c') fn new obs =>
      -- the unlinking done under the spinlock is merged into the store that releases it
      let l : List Rid := if bc then o.queue else o.queue.take 1
      let q : List Rid := if bc then [] else o.queue.drop 1
      let fl : Bool := if bc then false else (o.flag && (o.queue.isEmpty || !q.isEmpty))
      if c' = c ∧ o.lock = some t ∧ obs = cvWord o ∧ new = 2 * b2n fl ∧ fn = (if bc then .bcast else .sig) then
        let s1 := s.setObj (.cv c) { o with lock := none, queue := q, flag := fl }
        let s2 : State := { s1 with rcd := fun r => if r ∈ l then { s1.rcd r with unl := .waker } else s1.rcd r }
        .ok (s2.setPc t (.sg c bc (if l = [] then .ret else .wake l)))
      else reject "signal: wrong release store"
    | e => dflt s t e
  | .wake l =>
    match s.post t, l, e with
    | none, r :: _, .st .rel (.waiting r') .wake new obs =>
      -- wake_waiters: `p_sem = p_nw->sem; … ATM_STORE_REL (&p_nw->waiting, 0)` (the record is live: C13)
      if r' = r ∧ new = 0 ∧ ((s.rcd r).live → obs = b2n (s.rcd r).waiting) then
        .ok ((s.setRec r { s.rcd r with waiting := false }).setPost t (some r))
      else reject "wake_waiters: wrong store"
    | some r, _ :: rest, .semV j =>
      -- nsync_mu_semaphore_v (p_sem): the pointer was copied before the store above; the record may be dead
      match postSem s r j with
      | some s' => .ok (((s'.setSem j (s'.sem j + 1)).setPost t none).setPc t (.sg c bc (if rest = [] then .ret else .wake rest)))
      | none => reject "sem v: not the semaphore of the record's call"
    | _, _, .semV _ => reject "wake_waiters: unexpected post"
    | _, _, e => dflt s t e
  | .ret =>
    match e with
    | .retSig bc' => if bc' = bc then .ok (s.setPc t .idle) else reject "wrong return"
    | e => dflt s t e

/-! ### counter_ready_time -/

def stepCtrRT (s : State) (t : Tid) (u : Use) (i : Nat) (loaded : Bool) (e : Ev) : R :=
  match (s.fr t).objs[i]? with
  | some (.ctr k) =>
    let o := s.obj (.ctr k)
    match loaded, e with
    | false, .st .rlx (.waited k') .ctrRT new obs =>
      if k' = k ∧ new = 1 ∧ obs = b2n o.flag then
        .ok ((s.setObj (.ctr k) { o with flag := true }).setPc t (.wCtrRT u i true))
      else reject "counter_ready_time: wrong store"
    | true, .ld .acq (.value k') .ctrRT obs =>
      if k' = k ∧ obs = o.value then rtDone s t u i (if obs = 0 then some 0 else none)
      else reject "counter_ready_time: wrong load"
    | _, e => dflt s t e
  | _ => reject "internal: not a counter"

/-! ### nsync_note_notified_deadline_ (note_ready_time, and the first statement of note_dequeue) -/

def stepND (s : State) (t : Tid) (u : Use) (i : Nat) (st : NDst) (e : Ev) : R :=
  match (s.fr t).objs[i]? with
  | some (.note n) =>
    let o := s.obj (.note n)
    let go (st' : NDst) : R := .ok (s.setPc t (.wND u i st'))
    match st with
    | .ld0 =>
      match e with
      | .ld .acq (.notified n') .noteND obs =>
        if n' = n ∧ obs = b2n o.flag then
          if obs ≠ 0 then rtDone s t u i (some 0) else go .lockCall
        else reject "notified_deadline: wrong load"
      | e => dflt s t e
    | .lockCall =>
      match e with
      | .lockCall o' => if o' = .note n then go .lockWait else reject "wrong mutex"
      | e => dflt s t e
    | .lockWait =>
      match e with
      | .lockRet =>
        if o.lock = none then .ok ((s.setObj (.note n) { o with lock := some t }).setPc t (.wND u i .ld1))
        else reject "note_mu acquired while held"
      | e => dflt s t e
    | .ld1 =>
      match e with
      | .ld .acq (.notified n') .noteND obs =>
        if n' = n ∧ obs = b2n o.flag then go (.unlockCall (decide (obs ≠ 0)))
        else reject "notified_deadline: wrong load"
      | e => dflt s t e
    | .unlockCall obs =>
      match e with
      | .unlockCall o' =>
        if o' = .note n ∧ o.lock = some t then
          .ok ((s.setObj (.note n) { o with lock := none }).setPc t (.wND u i (.unlockWait obs)))
        else reject "wrong mutex"
      | e => dflt s t e
    | .unlockWait obs =>
      match e with
      | .unlockRet =>
        -- ntime = NOTIFIED_TIME (n): zero if notified, else the expiry time
        if obs then rtDone s t u i (some 0)
        else if dlePast o.expiry then rtDone s t u i o.expiry
        else go .now
      | e => dflt s t e
    | .now =>
      match e with
      | .now ns =>
        if ns = s.now then
          if expiredB o.expiry ns then go .nfLockCall else rtDone s t u i o.expiry
        else reject "now: not the current time"
      | e => dflt s t e
    | .nfLockCall =>
      match e with
      | .lockCall o' => if o' = .note n then go .nfLockWait else reject "wrong mutex"
      | e => dflt s t e
    | .nfLockWait =>
      match e with
      | .lockRet =>
        if o.lock = none then .ok ((s.setObj (.note n) { o with lock := some t }).setPc t (.wND u i .nfLd0))
        else reject "note_mu acquired while held"
      | e => dflt s t e
    | .nfLd0 =>
      match e with
      | .ld .acq (.notified n') .notify obs =>
        if n' = n ∧ obs = b2n o.flag then go (if obs ≠ 0 then .nfUnlockCall else .nfLd1)
        else reject "notify: wrong load"
      | e => dflt s t e
    | .nfLd1 =>
      match e with
      | .ld .acq (.notified n') .notifyChild obs =>
        if n' = n ∧ obs = b2n o.flag ∧ obs = 0 then go .nfStore
        else reject "note_notify_child: wrong load"
      | e => dflt s t e
    | .nfStore =>
      match e with
      | .st .rel (.notified n') .notifyChild new obs =>
        if n' = n ∧ new = 1 ∧ obs = 0 ∧ o.flag = false ∧ o.lock = some t then
          .ok ((s.setObj (.note n) { o with flag := true }).setPc t (.wND u i .nfWake))
        else reject "note_notify_child: wrong store"
      | e => dflt s t e
    | .nfWake =>
      -- wake loop, children, WAIT_FOR_NO_CHILDREN: protocol driven, until note_mu is released
      match s.mc t, e with
      | .none, .unlockCall o' =>
        if o' = .note n then
          if o.lock = some t ∧ s.post t = none ∧ o.queue = [] then
            .ok ((s.setObj (.note n) { o with lock := none }).setPc t (.wND u i .nfUnlockWait))
          else reject "notify: unlock with waiters left queued or a post pending"
        else stepOpen s t e
      | _, e => stepOpen s t e
    | .nfUnlockCall =>
      match e with
      | .unlockCall o' =>
        if o' = .note n ∧ o.lock = some t then
          .ok ((s.setObj (.note n) { o with lock := none }).setPc t (.wND u i .nfUnlockWait))
        else reject "wrong mutex"
      | e => dflt s t e
    | .nfUnlockWait =>
      match e with
      | .unlockRet => rtDone s t u i (some 0)
      | e => dflt s t e
  | _ => reject "internal: not a note"

/-! ### enqueue -/

/-- cv_enqueue -/
def stepEnqCv (s : State) (t : Tid) (i : Nat) (st : CvEnqSt) (e : Ev) : R :=
  match (s.fr t).objs[i]?, (s.fr t).recs[i]? with
  | some (.cv c), some r =>
    let o := s.obj (.cv c)
    match st with
    | .spin sp => spinAcq s t c sp (fun x => .wEnqCv i (.spin x)) (.wEnqCv i .store) e
    | .store =>
      match e with
      | .st .rlx (.waiting r') .cvEnq new obs =>
        if r' = r ∧ new = 1 ∧ obs = b2n (s.rcd r).waiting ∧ o.lock = some t then
          .ok (((s.setObj (.cv c) { o with queue := o.queue ++ [r] }).setRec r { s.rcd r with waiting := true }).setPc t
                (.wEnqCv i .release))
        else reject "cv_enqueue: wrong store"
      | e => dflt s t e
    | .release =>
      match e with
      | .st .rel (.cvWord c') .cvEnq new obs =>
        if c' = c ∧ o.lock = some t ∧ obs = cvWord o ∧ new = 2 then
          afterEnq (s.setObj (.cv c) { o with lock := none, flag := true }) t (i + 1) true
        else reject "cv_enqueue: wrong release store"
      | e => dflt s t e
  | _, _ => reject "internal: not a cv / no record"

/-- note_enqueue / counter_enqueue -/
def stepEnq (s : State) (t : Tid) (i : Nat) (st : EnqSt) (e : Ev) : R :=
  match (s.fr t).objs[i]?, (s.fr t).recs[i]? with
  | some oid, some r =>
    let o := s.obj oid
    let go (st' : EnqSt) : R := .ok (s.setPc t (.wEnq i st'))
    match st with
    | .lockCall =>
      match e with
      | .lockCall o' => if o' = oid ∧ !oid.isCv then go .lockWait else reject "wrong mutex"
      | e => dflt s t e
    | .lockWait =>
      match e with
      | .lockRet =>
        if o.lock = none then .ok ((s.setObj oid { o with lock := some t }).setPc t (.wEnq i .load))
        else reject "mutex acquired while held"
      | e => dflt s t e
    | .load =>
      match oid, e with
      | .note n, .ld .acq (.notified n') .noteEnq obs =>
        if n' = n ∧ obs = b2n o.flag then go (.store (noteTimePos o obs)) else reject "note_enqueue: wrong load"
      | .ctr k, .ld .acq (.value k') .ctrEnq obs =>
        if k' = k ∧ obs = o.value then go (.store (decide (obs ≠ 0))) else reject "counter_enqueue: wrong load"
      | _, e => dflt s t e
    | .store enq =>
      match e with
      | .st .rlx (.waiting r') fn new obs =>
        if r' = r ∧ new = b2n enq ∧ obs = b2n (s.rcd r).waiting ∧ o.lock = some t
            ∧ fn = (match oid with | .note _ => Fn.noteEnq | _ => Fn.ctrEnq) then
          if enq then
            .ok (((s.setObj oid { o with queue := o.queue ++ [r] }).setRec r { s.rcd r with waiting := true }).setPc t
                  (.wEnq i (.unlockCall true)))
          else .ok ((s.setRec r { s.rcd r with waiting := false }).setPc t (.wEnq i (.unlockCall false)))
        else reject "enqueue: wrong store"
      | e => dflt s t e
    | .unlockCall enq =>
      match e with
      | .unlockCall o' =>
        if o' = oid ∧ o.lock = some t then
          .ok ((s.setObj oid { o with lock := none }).setPc t (.wEnq i (.unlockWait enq)))
        else reject "wrong mutex"
      | e => dflt s t e
    | .unlockWait enq =>
      match e with
      | .unlockRet => afterEnq s t (i + 1) enq
      | e => dflt s t e
  | _, _ => reject "internal: no object / record"

/-! ### dequeue -/

/-- owner's removal of its record from the queue of object `oid` (nsync_dll_remove_ + waiting := 0) -/
def ownerRemove (s : State) (oid : ObjId) (r : Rid) : State :=
  let o := s.obj oid
  let rc := s.rcd r
  (s.setObj oid { o with queue := o.queue.erase r }).setRec r
    { rc with waiting := false, unl := if r ∈ o.queue then .owner else rc.unl }

/-- cv_dequeue -/
def stepDeqCv (s : State) (t : Tid) (j : Nat) (st : CvDeqSt) (e : Ev) : R :=
  match (s.fr t).objs[j]?, (s.fr t).recs[j]? with
  | some (.cv c), some r =>
    let o := s.obj (.cv c)
    match st with
    | .spin sp => spinAcq s t c sp (fun x => .wDeqCv j (.spin x)) (.wDeqCv j .load) e
    | .load =>
      match e with
      | .ld .acq (.waiting r') .cvDeq obs =>
        if r' = r ∧ obs = b2n (s.rcd r).waiting then
          .ok (s.setPc t (.wDeqCv j (if obs ≠ 0 then .store else .release false)))
        else reject "cv_dequeue: wrong load"
      | e => dflt s t e
    | .store =>
      -- `waiting != 0` was read: the walk over pcv->waiters either finds `&nw->q` (remove, store) …
      match e with
      | .st .rlx (.waiting r') .cvDeq new obs =>
        if r' = r ∧ new = 0 ∧ obs = b2n (s.rcd r).waiting ∧ o.lock = some t ∧ o.queue.contains r then
          .ok ((ownerRemove s (.cv c) r).setPc t (.wDeqCv j (.release true)))
        else reject "cv_dequeue: wrong store, or removal of a record that is not on pcv->waiters"
      -- … or does not (a signaller has unlinked it): release the spinlock, then wait for `waiting == 0`
      | .st .rel (.cvWord c') .cvDeq new obs =>
        let fl := o.flag && !o.queue.isEmpty
        if c' = c ∧ o.lock = some t ∧ obs = cvWord o ∧ new = 2 * b2n fl ∧ !(o.queue.contains r) then
          .ok ((s.setObj (.cv c) { o with lock := none, flag := fl }).setPc t (.wDeqCv j .wspin))
        else reject "cv_dequeue: wrong release store, or a record still on pcv->waiters was not removed"
      | e => dflt s t e
    | .release res =>
      match e with
      | .st .rel (.cvWord c') .cvDeq new obs =>
        let fl := o.flag && !o.queue.isEmpty
        if c' = c ∧ o.lock = some t ∧ obs = cvWord o ∧ new = 2 * b2n fl then
          deqDone ((s.setObj (.cv c) { o with lock := none, flag := fl }).setRec r { s.rcd r with deqd := true }) t j res
        else reject "cv_dequeue: wrong release store"
      | e => dflt s t e
    | .wspin =>
      -- `while (ATM_LOAD_ACQ (&nw->waiting) != 0) attempts = nsync_spin_delay_ (attempts);`
      match e with
      | .ld .acq (.waiting r') .cvDeq obs =>
        if r' = r ∧ obs = b2n (s.rcd r).waiting then
          if obs = 0 then deqDone (s.setRec r { s.rcd r with deqd := true }) t j false else .ok s
        else reject "cv_dequeue: wrong load in the wait loop"
      | e => dflt s t e
  | _, _ => reject "internal: not a cv / no record"

/-- note_dequeue (after nsync_note_notified_deadline_) / counter_dequeue -/
def stepDeq (s : State) (t : Tid) (j : Nat) (st : DeqSt) (e : Ev) : R :=
  match (s.fr t).objs[j]?, (s.fr t).recs[j]? with
  | some oid, some r =>
    let o := s.obj oid
    let go (st' : DeqSt) : R := .ok (s.setPc t (.wDeq j st'))
    match st with
    | .lockCall =>
      match e with
      | .lockCall o' => if o' = oid ∧ !oid.isCv then go .lockWait else reject "wrong mutex"
      | e => dflt s t e
    | .lockWait =>
      match e with
      | .lockRet =>
        if o.lock = none then .ok ((s.setObj oid { o with lock := some t }).setPc t (.wDeq j .load))
        else reject "mutex acquired while held"
      | e => dflt s t e
    | .load =>
      match oid, e with
      | .note n, .ld .acq (.notified n') .noteDeq obs =>
        if n' = n ∧ obs = b2n o.flag then
          go (if noteTimePos o obs then .store true else .unlockCall false)
        else reject "note_dequeue: wrong load"
      | .ctr k, .ld .acq (.value k') .ctrDeq obs =>
        if k' = k ∧ obs = o.value then go (.loadW (decide (obs ≠ 0))) else reject "counter_dequeue: wrong load"
      | _, e => dflt s t e
    | .loadW res =>
      match e with
      | .ld .acq (.waiting r') .ctrDeq obs =>
        if r' = r ∧ obs = b2n (s.rcd r).waiting then go (if obs ≠ 0 then .store res else .unlockCall res)
        else reject "counter_dequeue: wrong load of waiting"
      | e => dflt s t e
    | .store res =>
      match e with
      | .st .rlx (.waiting r') fn new obs =>
        if r' = r ∧ new = 0 ∧ obs = b2n (s.rcd r).waiting ∧ o.lock = some t
            ∧ fn = (match oid with | .note _ => Fn.noteDeq | _ => Fn.ctrDeq) then
          .ok ((ownerRemove s oid r).setPc t (.wDeq j (.unlockCall res)))
        else reject "dequeue: wrong store"
      | e => dflt s t e
    | .unlockCall res =>
      match e with
      | .unlockCall o' =>
        if o' = oid ∧ o.lock = some t then
          .ok (((s.setObj oid { o with lock := none }).setRec r { s.rcd r with deqd := true }).setPc t (.wDeq j (.unlockWait res)))
        else reject "wrong mutex"
      | e => dflt s t e
    | .unlockWait res =>
      match e with
      | .unlockRet => deqDone s t j res
      | e => dflt s t e
  | _, _ => reject "internal: no object / record"

/-! ### the statements of wait.c between the waitable calls -/

/-- `r` is element `i` of the array the frame uses (nw_set when `h = none`, else the heap array) -/
def ridOk (r : Rid) (h : Option Nat) (i : Nat) : Bool :=
  match r, h with
  | .stk _, none => true
  | .heap a k, some a' => decide (a = a' ∧ k = i)
  | _, _ => false

/-- `nw = malloc (count * sizeof (nw[0]))` (count > 4) -/
def stepAlloc (s : State) (t : Tid) (e : Ev) : R :=
  let f := s.fr t
  match e with
  | .malloc (some arr) =>
    let f' := { f with heap := some arr, mallocs := f.mallocs + 1 }
    .ok ((s.setFr t f').setPc t (enqNext f' 0 true))
  | .malloc none => reject "malloc returned NULL: wait.c has no NULL check (the code would crash)"
  | e => dflt s t e

/-- `ATM_STORE (&nw[i].waiting, 0)` -/
def stepInit (s : State) (t : Tid) (i : Nat) (e : Ev) : R :=
  let f := s.fr t
  match e, f.objs[i]? with
  | .st .rlx (.waiting r) .waitN new _, some oid =>     -- obs unchecked: uninitialised memory
    if new = 0 ∧ (s.rcd r).live = false ∧ ridOk r f.heap i ∧ i = f.recs.length then
      let s1 := (s.setRec r { live := true, waiting := false, owner := t, obj := oid, unl := .none, deqd := false }).setFr t
                  { f with recs := f.recs ++ [r] }
      .ok (s1.setPc t (if oid.isCv then .wEnqCv i (.spin .ld) else .wEnq i .lockCall))
    else reject "record init: wrong value, record in use, or not the expected element"
  | e, _ => dflt s t e

/-- `(*unlock) (mu)`: the release mark of the caller's mutex -/
def stepUnlockMu (s : State) (t : Tid) (e : Ev) : R :=
  let f := s.fr t
  match e with
  | .annRel m =>
    if f.mu = some m then
      let f' := { f with held := false, unlocked := true, who := none }
      .ok ((s.setFr t f').setPc t (loopNext f' 0))
    else dflt s t e
  | e => dflt s t e

/-- cv_ready_time (v, &nw[j]) -/
def stepCvRT (s : State) (t : Tid) (j : Nat) (e : Ev) : R :=
  match e, (s.fr t).recs[j]? with
  | .ld .acq (.waiting r') .cvRT obs, some r =>
    if r' = r ∧ obs = b2n (s.rcd r).waiting then rtDone s t .loop j (if obs = 0 then some 0 else none)
    else reject "cv_ready_time: wrong load"
  | e, _ => dflt s t e

def stepPdEnter (s : State) (t : Tid) (e : Ev) : R :=
  match e with
  | .pdEnter j d =>
    if d = (s.fr t).min then
      match bindSem s t j with
      | some s' => .ok (s'.setPc t (.wPdWait j))
      | none => reject "pd_enter: not the semaphore of this call, or in use by another call"
    else reject "pd_enter: wrong deadline"
  | .pEnter _ | .pRet _ | .semV _ | .pdRet _ _ => reject "unexpected semaphore operation"
  | e => dflt s t e

def stepPdWait (s : State) (t : Tid) (j : SemId) (e : Ev) : R :=
  let f := s.fr t
  match e with
  | .pdRet j' tmo =>
    if j' = j then
      if tmo then
        if expiredB f.min s.now then
          let f' := { f with why := match f.who with | none => Why.timeout | some k => Why.readyAt k }
          .ok ((s.setFr t f').setPc t (deqNext f' 0))
        else reject "pd_ret ETIMEDOUT before the deadline"
      else
        match s.sem j with
        | 0 => reject "pd_ret 0 but the semaphore count is 0"
        | n + 1 => .ok (startScan (s.setSem j n) t)
    else reject "pd_ret: wrong semaphore"
  | .pEnter _ | .pRet _ | .semV _ | .pdEnter _ _ => reject "unexpected semaphore operation"
  | e => dflt s t e

/-- `free (nw)`: end of the lifetime of the heap records -/
def stepFree (s : State) (t : Tid) (e : Ev) : R :=
  let f := s.fr t
  match e with
  | .free arr =>
    if f.heap = some arr then
      let f' := { f with frees := f.frees + 1 }
      .ok (((s.kill f.recs).setFr t f').setPc t (relockNext f'))
    else reject "free of the wrong array"
  | e => dflt s t e

/-- `(*lock) (mu)`: the re-acquire mark of the caller's mutex -/
def stepRelock (s : State) (t : Tid) (e : Ev) : R :=
  let f := s.fr t
  match e with
  | .annAcq m =>
    if f.mu = some m then
      let f' := { f with held := true }
      .ok ((s.setFr t f').setPc t (.wRet f'.ready))
    else dflt s t e
  | e => dflt s t e

/-- return: end of the lifetime of the stack records (heap records died at `free`) -/
def stepRet (s : State) (t : Tid) (r : Nat) (e : Ev) : R :=
  let f := s.fr t
  match e with
  | .retWaitN r' nested =>
    if r' = r ∧ nested = f.nested then .ok (((s.kill (if f.heap.isSome then [] else f.recs)).setFr t Frame.empty).setPc t .idle)
    else reject "nsync_wait_n: wrong result"
  | e => dflt s t e

def stepIdle (s : State) (t : Tid) (e : Ev) : R :=
  match e with
  | .callWaitN mu dl objs nested =>
    if s.mc t = .none ∧ s.post t = none ∧ objs ≠ [] ∧ objs.all (fun o => (s.obj o).known) then
      .ok ((s.setFr t (Frame.new mu dl objs nested)).setPc t (pollNext (Frame.new mu dl objs nested) 0))
    else reject "nsync_wait_n: unknown object, count = 0 (not modelled), or call inside another operation"
  | .callSig c bc =>
    if s.mc t = .none ∧ s.post t = none then .ok (s.setPc t (.sg c bc .load))
    else reject "signal: call inside another operation"
  | .newNote k ex =>
    if (s.obj (.note k)).known = false then .ok (s.setObj (.note k) { s.obj (.note k) with known := true, expiry := ex })
    else reject "note exists"
  | .newCtr k v =>
    if (s.obj (.ctr k)).known = false then .ok (s.setObj (.ctr k) { s.obj (.ctr k) with known := true, value := v })
    else reject "counter exists"
  | e => stepOpen s t e

def stepThr (s : State) (t : Tid) (e : Ev) : R :=
  match s.pc t with
  | .idle => stepIdle s t e
  | .stuck => reject "internal: stuck"
  | .sg c bc st => stepSg s t c bc st e
  | .wCtrRT u i l => stepCtrRT s t u i l e
  | .wND u i st => stepND s t u i st e
  | .wEnqCv i st => stepEnqCv s t i st e
  | .wEnq i st => stepEnq s t i st e
  | .wDeqCv j st => stepDeqCv s t j st e
  | .wDeq j st => stepDeq s t j st e
  | .wAlloc => stepAlloc s t e
  | .wInit i => stepInit s t i e
  | .wUnlock => stepUnlockMu s t e
  | .wCvRT j => stepCvRT s t j e
  | .wPdEnter => stepPdEnter s t e
  | .wPdWait j => stepPdWait s t j e
  | .wFree => stepFree s t e
  | .wRelock => stepRelock s t e
  | .wRet r => stepRet s t r e

def step (s : State) : Event → R
  | .thr t e => stepThr s t e
  | .tick ns =>
    if s.now ≤ ns then .ok { s with now := ns } else reject "tick: clock went backwards"

def run (s : State) : List Event → R
  | [] => .ok s
  | e :: es => match step s e with
    | .ok s' => run s' es
    | .error m => .error m

def Reachable (s : State) : Prop := ∃ evs, run init evs = .ok s

def final (evs : List Event) : Option State :=
  match run init evs with
  | .ok s => some s
  | .error _ => none

def accepts (evs : List Event) : Bool := (final evs).isSome

/-- the records event `e` of thread `t` accesses in state `s`.  The V of a note / counter waker reads
    `nw->sem` (under the object's mutex); wake_waiters of cv.c has copied `p_nw->sem` before its store to
    `waiting` (that read belongs to the store's step), so the V of a cv signaller touches no record. -/
def touches (s : State) (t : Tid) (e : Ev) (r : Rid) : Prop :=
  match e with
  | .ld _ (.waiting r') _ _ | .st _ (.waiting r') _ _ _ | .cas _ (.waiting r') _ _ _ _ _ => r' = r
  | .semV _ =>
    match s.pc t with
    | .sg _ _ _ => False
    | _ => s.post t = some r
  | _ => False

/-- the record's frame is alive and initialised -/
def registered (s : State) (r : Rid) : Prop := (s.rcd r).live = true

end WaitN
