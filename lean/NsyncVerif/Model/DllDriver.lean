/-
Layer `Dll` (property C17): line protocol of the correspondence check against the real
`/repo/internal/dll.c` (generator: `/verif/harness/pure/dll/gen.c`, which documents the format).

Every input line is `[@<d> ]<op> <args> => <dump printed by the C implementation>`.  The driver
replays `<op>` on the model heap (`Dll.remove`, `Dll.makeFirst`, … of `Model/Dll.lean`), renders
the same canonical dump from the MODEL state using only the model's own
`first/next/last/prev/isEmpty`, and answers `ok` or `MISMATCH model=<…> impl=<…>`.
Lines starting with `#` are answered with `#`.  Anything that cannot be parsed is answered with
`bad-op` and leaves the state unchanged.

Core Lean only.
-/
import NsyncVerif.Model.Dll

namespace Dll.Driver

/-- One configuration: the model heap and the handle of every list. -/
structure Cfg where
  heap : Heap
  handles : List Addr

/-- Driver state: number of elements `n` (ids `1..n`), and `stack[d]` = configuration after the
first `d` operations of the current case (`stack[0]` is the configuration after `reset`). -/
structure DState where
  n : Nat
  stack : Array Cfg

def init : DState := { n := 0, stack := #[] }

def ids (xs : List Nat) : String :=
  ",".intercalate (xs.map toString)

/-- Canonical dump of a configuration, computed from the model only. -/
def dumpCfg (n : Nat) (c : Cfg) : String :=
  let fuel := n + 1
  let one (i : Nat) (l : Addr) : String :=
    "L" ++ toString i ++ ":f=" ++ ids (toListFwd c.heap l fuel) ++
      ";b=" ++ ids (toListBwd c.heap l fuel) ++
      ";e=" ++ (if isEmpty l then "1" else "0")
  let rec go (i : Nat) : List Addr → List String
    | [] => []
    | l :: ls => one i l :: go (i + 1) ls
  let members := c.handles.flatMap (fun l => toListFwd c.heap l fuel)
  let free := ((List.range n).map (· + 1)).filter (fun e => !members.contains e)
  let self (e : Addr) : Bool := c.heap.next e == e && c.heap.prev e == e
  " ".intercalate (go 0 c.handles) ++
    " S=" ++ ids (free.filter self) ++ " U=" ++ ids (free.filter (fun e => !self e))

/-- Configuration after `reset n l`: `nsync_dll_init_` on elements `1..n` of an all-zero heap
(container := the element's own id, as gen.c passes the element's own address), `l` empty lists. -/
def resetCfg (n l : Nat) : Cfg :=
  { heap := ((List.range n).map (· + 1)).foldl (fun H e => Dll.init H e e) Heap.zero
    handles := List.replicate l 0 }

def setHandle (hs : List Addr) (i : Nat) (v : Addr) : List Addr := hs.set i v

inductive Op where
  | makeFirst (lid e : Nat)
  | makeLast (lid e : Nat)
  | remove (lid e : Nat)
  | moveFirst (lid lid2 : Nat)
  | moveLast (lid lid2 : Nat)
  | splice (lid p lid2 n : Nat)
  | dump

/-- Parse an operation; `none` for anything not of the documented shape or out of range. -/
def parseOp (n nl : Nat) : List String → Option Op
  | ["dump"] => some .dump
  | [op, a, b] =>
    match a.toNat?, b.toNat? with
    | some a, some b =>
      let elemOk := 1 ≤ b ∧ b ≤ n
      let listOk := b < nl
      if a < nl then
        if op = "make_first" then (if elemOk then some (.makeFirst a b) else none)
        else if op = "make_last" then (if elemOk then some (.makeLast a b) else none)
        else if op = "remove" then (if elemOk then some (.remove a b) else none)
        else if op = "move_first" then (if listOk then some (.moveFirst a b) else none)
        else if op = "move_last" then (if listOk then some (.moveLast a b) else none)
        else none
      else none
    | _, _ => none
  | ["splice", a, p, c, e] =>
    match a.toNat?, p.toNat?, c.toNat?, e.toNat? with
    | some a, some p, some c, some e =>
      if a < nl ∧ c < nl ∧ 1 ≤ p ∧ p ≤ n ∧ 1 ≤ e ∧ e ≤ n then some (.splice a p c e) else none
    | _, _, _, _ => none
  | _ => none

/-- Replay one operation on the model exactly as gen.c calls the library. -/
def applyOp (c : Cfg) : Op → Cfg
  | .makeFirst lid e =>
    let r := Dll.makeFirst c.heap (c.handles.getD lid 0) e
    { heap := r.1, handles := setHandle c.handles lid r.2 }
  | .makeLast lid e =>
    let r := Dll.makeLast c.heap (c.handles.getD lid 0) e
    { heap := r.1, handles := setHandle c.handles lid r.2 }
  | .remove lid e =>
    let r := Dll.remove c.heap (c.handles.getD lid 0) e
    { heap := r.1, handles := setHandle c.handles lid r.2 }
  | .moveFirst lid lid2 =>
    let r := Dll.makeFirst c.heap (c.handles.getD lid 0) (Dll.first c.heap (c.handles.getD lid2 0))
    { heap := r.1, handles := setHandle (setHandle c.handles lid r.2) lid2 0 }
  | .moveLast lid lid2 =>
    let r := Dll.makeLast c.heap (c.handles.getD lid 0) (Dll.last c.heap (c.handles.getD lid2 0))
    { heap := r.1, handles := setHandle (setHandle c.handles lid r.2) lid2 0 }
  | .splice _ p lid2 n =>
    { heap := Dll.spliceAfter c.heap p n, handles := setHandle c.handles lid2 0 }
  | .dump => c

def verdict (model impl : String) : String :=
  if model = impl then "ok" else "MISMATCH model=" ++ model ++ " impl=" ++ impl

/-- Split the tokens at the first `=>`. -/
def splitArrow : List String → Option (List String × List String)
  | [] => none
  | t :: ts =>
    if t = "=>" then some ([], ts)
    else match splitArrow ts with
      | some (l, r) => some (t :: l, r)
      | none => none

/-- Optional `@d` prefix. `some none` = no prefix, `none` = malformed. -/
def parseAt : List String → Option (Option Nat × List String)
  | [] => none
  | t :: ts =>
    if t.startsWith "@" then
      match (t.drop 1).toNat? with
      | some d => some (some d, ts)
      | none => none
    else some (none, t :: ts)

def step (s : DState) (line : String) : DState × String :=
  let line := line.trimAscii.toString
  if line.startsWith "#" then (s, "#") else
  match splitArrow (line.splitOn " ") with
  | none => (s, "bad-op")
  | some (lhs, rhs) =>
    let impl := " ".intercalate rhs
    match lhs with
    | ["reset", n, l] =>
      match n.toNat?, l.toNat? with
      | some n, some l =>
        if 1 ≤ n ∧ n ≤ 8 ∧ 1 ≤ l ∧ l ≤ 3 then
          let c := resetCfg n l
          ({ n := n, stack := #[c] }, verdict (dumpCfg n c) impl)
        else (s, "bad-op")
      | _, _ => (s, "bad-op")
    | _ =>
      match parseAt lhs with
      | none => (s, "bad-op")
      | some (d?, toks) =>
        -- the configuration the operation applies to: top of stack, or stack[d] after rewinding
        let depth? : Option Nat :=
          match d? with
          | none => if s.stack.size = 0 then none else some (s.stack.size - 1)
          | some d => if d < s.stack.size then some d else none
        match depth? with
        | none => (s, "bad-op")
        | some d =>
          match s.stack[d]? with
          | none => (s, "bad-op")
          | some c =>
            match parseOp s.n c.handles.length toks with
            | none => (s, "bad-op")
            | some op =>
              let c' := applyOp c op
              ({ s with stack := (s.stack.extract 0 (d + 1)).push c' }, verdict (dumpCfg s.n c') impl)

end Dll.Driver
