/-
  MuC — ONE `nsync_mu` WITH conditional critical sections (property C06 and the nsync_mu_wait part of
  C05).  An adapted copy of Model/MuQ.lean (same word encoding, same queue / waiter representation,
  same style) extended by everything MuQ leaves out except condition-variable transfer and debug.

  SCOPE: nsync_mu_lock, nsync_mu_rlock, nsync_mu_trylock, nsync_mu_rtrylock, nsync_mu_unlock,
  nsync_mu_runlock, nsync_mu_unlock_without_wakeup, nsync_mu_wait_with_deadline (nsync_mu_wait = no
  deadline, no note) and what they call: nsync_mu_lock_slow_, nsync_mu_unlock_slow_ WITH
  `testing_conditions`, mu_release_spinlock, nsync_spin_test_and_set_ on mu->word,
  mu_try_acquire_after_timeout_or_cancel, nsync_remove_from_mu_queue_, nsync_maybe_merge_conditions_,
  skip_past_same_condition, condition_true (internal/mu.c, internal/mu_wait.c), on one mutex, by any
  number of threads, counting or binary semaphores (`Cfg.binary`).

  One model step = one atomic operation of the C code, one semaphore operation (`p_enter`, `p_ret`,
  `pd_enter`, `pd_ret`, `v`), one API boundary (`call`, `ret`), one evaluation of a wait condition
  (`cond`), one client data access (`data`) or one `tick` of the clock.  Plain statements are folded
  into the step that precedes them; they touch shared state only while the executing thread has
  exclusive access to it (spinlock held, or — for the private lists of unlock_slow — the lists are
  reachable by nobody else).

  CLIENT DATA AND CONDITIONS.  `data : Nat → Int` are the client's variables x<i> (all 0 initially),
  written only inside write critical sections (`dataW` by a thread with `held = some .W`, otherwise
  contract error).  A wait condition is `Cond` = function (`eq`: x == val, `ge`: x >= val), identity
  k of the argument object c<k>, the (variable, value) it denotes and whether `condition_arg_eq` was
  supplied.  `condEq` is WAIT_CONDITION_EQ (common.h:203) — note that the C macro only consults the
  `eq` function of its FIRST argument; the model does the same.

  QUEUES.  `queue` is mu->waiters, front to back.  Unlike MuQ, an unlocker that tests conditions
  releases the spinlock while it evaluates (mu.c:353), so the lists it has swapped into its locals
  (`waiters` = `Scan.done`, `new_waiters` = `Scan.passed ++ Scan.todo`, p = head of `todo`) are
  modelled as locals, and mu->waiters (`queue`) collects the threads that arrive meanwhile.

  SAME_CONDITION RINGS.  The `same_condition` rings are plain pointers the log cannot show.  They
  are represented by one bit per queued waiter, `WRec.lnk` = "my ring continues with my successor in
  the list I am on", i.e. by the partition of each list into runs; nsync_maybe_merge_conditions_,
  the unlinking / merging of nsync_remove_from_mu_queue_ and skip_past_same_condition are
  transcribed on that representation (`mergeLinks`, `removeLinks`, `skipPast`; the list layer C17
  justifies reading the pointer code as list operations).  Their effect is observable through WHICH
  conditions unlock_slow evaluates, which the acceptor checks (`usEval`).

  CANCEL NOTE.  nsync_sem_wait_with_cancel_ (sem_wait.c) is abstract: with a note, the nested traffic
  on the note and its mutex is not modelled.  What the model sees of it: `noteSeen t` (thread t, inside
  the call, loaded note.notified != 0 with an acquire load or stored 1 to it), `noteNotify t` (t called
  nsync_note_notify on the note after its P timed out at the note's deadline), the timed P itself.
  The call returns ECANCELED without a P only after `noteSeen`; a P that timed out yields ETIMEDOUT
  only if its deadline was the caller's deadline, otherwise `noteNotify` must follow (ECANCELED).
  `MW.saw` records that the note was seen notified / notified by this call.

  TIME.  `now` is the virtual clock (`tick`); a timed P may return ETIMEDOUT only when its deadline
  is ≤ now (contract of the semaphore, as `sem > 0` is for a successful P).

  GHOSTS.  `held`, `wOwner`, `rOwners`, `sp` as in MuQ.  `secStart` = the data at the beginning of the
  current write section, i.e. when the mutex was last ACQUIRED in write mode on behalf of the client
  (return of nsync_mu_lock / successful trylock / a nsync_mu_wait that did release and re-acquire; a
  nsync_mu_wait that returns at once, `MW.first`, never released, so the section continues and the
  snapshot is kept); `nwViol` becomes true when a write section that ends with
  nsync_mu_unlock_without_wakeup has made the condition of a queued waiter true (the contract of that
  call, mu_wait.c:296-304).

  Idealisations: reader count, wait_count unbounded; variables are mathematical integers.

  Core Lean only.
-/
namespace NsyncVerif.MuC

abbrev Tid := Nat
abbrev Wid := Nat

inductive Mode | W | R
deriving DecidableEq, Repr

/-- Decoded nsync_mu word (internal/common.h:136-147). -/
structure Word where
  wlock : Bool      -- MU_WLOCK          bit 0
  spin : Bool       -- MU_SPINLOCK       bit 1
  waiting : Bool    -- MU_WAITING        bit 2
  desig : Bool      -- MU_DESIG_WAKER    bit 3
  cond : Bool       -- MU_CONDITION      bit 4
  ww : Bool         -- MU_WRITER_WAITING bit 5
  lw : Bool         -- MU_LONG_WAIT      bit 6
  af : Bool         -- MU_ALL_FALSE      bit 7
  readers : Nat     -- MU_RLOCK_FIELD    v / 256
deriving DecidableEq, Repr

def b2n (b : Bool) : Nat := if b then 1 else 0

def encode (w : Word) : Nat :=
  b2n w.wlock + 2 * b2n w.spin + 4 * b2n w.waiting + 8 * b2n w.desig + 16 * b2n w.cond
    + 32 * b2n w.ww + 64 * b2n w.lw + 128 * b2n w.af + 256 * w.readers

def decode (v : Nat) : Word :=
  { wlock := v % 2 == 1, spin := v / 2 % 2 == 1, waiting := v / 4 % 2 == 1, desig := v / 8 % 2 == 1,
    cond := v / 16 % 2 == 1, ww := v / 32 % 2 == 1, lw := v / 64 % 2 == 1, af := v / 128 % 2 == 1,
    readers := v / 256 }

def Word.zero : Word :=
  { wlock := false, spin := false, waiting := false, desig := false, cond := false, ww := false,
    lw := false, af := false, readers := 0 }

/-- LONG_WAIT_THRESHOLD (common.h:208). -/
def longWaitThreshold : Nat := 30

/-! ### lock_type tables (common.c) as functions on decoded words -/

/-- `(word & zero_to_acquire) != 0`; `ign` = MU_WRITER_WAITING|MU_LONG_WAIT masked out (mu.c:60,122). -/
def blocked (l : Mode) (ign : Bool) (w : Word) : Bool :=
  match l with
  | .W => w.wlock || w.readers != 0 || (!ign && w.lw)
  | .R => w.wlock || (!ign && (w.ww || w.lw))

/-- `(word + add_to_acquire) & ~(clear | long_wait | clear_on_acquire)`. -/
def acqWord (l : Mode) (clear lwl : Bool) (w : Word) : Word :=
  match l with
  | .W => { w with wlock := true, ww := false, desig := w.desig && !clear, lw := w.lw && !lwl }
  | .R => { w with readers := w.readers + 1, desig := w.desig && !clear, lw := w.lw && !lwl }

/-- `(word | MU_SPINLOCK | long_wait | set_when_waiting) & ~(clear | MU_ALL_FALSE)` (mu.c:76). -/
def enqWord (l : Mode) (clear lwl : Bool) (w : Word) : Word :=
  { w with spin := true, waiting := true, ww := w.ww || (l == .W), lw := w.lw || lwl,
           desig := w.desig && !clear, af := false }

def addWord (l : Mode) : Word :=
  match l with
  | .W => { Word.zero with wlock := true }
  | .R => { Word.zero with readers := 1 }

/-- `word - add_to_acquire`; meaningful only when `hasShare l w`. -/
def subWord (l : Mode) (w : Word) : Word :=
  match l with
  | .W => { w with wlock := false }
  | .R => { w with readers := w.readers - 1 }

def hasShare (l : Mode) (w : Word) : Bool :=
  match l with
  | .W => w.wlock
  | .R => w.readers != 0

/-- `(word - add_to_acquire) & ~clear_on_uncontended_release` (also mu.c:469). -/
def relUncWord (l : Mode) (w : Word) : Word :=
  match l with
  | .W => { w with wlock := false, af := false }
  | .R => { w with readers := w.readers - 1 }

/-- `old_word - MU_WLOCK` of nsync_mu_unlock_without_wakeup (mu_wait.c:311): MU_ALL_FALSE is kept. -/
def relNwWord (w : Word) : Word := { w with wlock := false }

/-- `(word - early_release_mu) | MU_SPINLOCK | MU_DESIG_WAKER` (mu.c:301); with `tc`
    (testing_conditions) early_release_mu = add_to_acquire - MU_WLOCK: convert to a writer lock. -/
def grabWord (l : Mode) (tc : Bool) (w : Word) : Word :=
  { subWord l w with wlock := tc, spin := true, desig := true }

/-- First test of unlock_slow (mu.c:288-290): release without waking. -/
def uncontended (w : Word) : Bool :=
  !w.waiting || w.desig || decide (w.readers > 1) || (w.readers % 2 == 1 && w.af)

/-- `(word | MU_SPINLOCK | MU_WAITING | has_condition) & ~MU_ALL_FALSE` (mu_wait.c:202). -/
def mwEnqWord (hc : Bool) (w : Word) : Word :=
  { w with spin := true, waiting := true, cond := w.cond || hc, af := false }

/-- `(word + MU_WADD_TO_ACQUIRE + MU_SPINLOCK) & ~MU_WCLEAR_ON_ACQUIRE` (mu_wait.c:74). -/
def mtAcqWord (w : Word) : Word := { w with wlock := true, spin := true, ww := false }

/-- `(old_word & ~MU_WCLEAR_ON_ACQUIRE) + add` (mu_wait.c:108 / 113); `old_word` has neither lock
    nor spinlock bits (it passed the test of mu_wait.c:72). -/
def mtRelWord (add : Option Mode) (old : Word) : Word :=
  match add with
  | none => { old with ww := false }
  | some .W => { old with ww := false, wlock := true }
  | some .R => { old with ww := false, readers := old.readers + 1 }

/-! ### Conditions -/

inductive CFn | eq | ge
deriving DecidableEq, Repr

structure Cond where
  fn : CFn          -- condition
  k : Nat           -- identity of condition_arg (the object c<k>)
  var : Nat         -- the variable x<var> the argument names
  val : Int
  hasEq : Bool      -- condition_arg_eq != NULL
deriving DecidableEq, Repr

def evalCond (data : Nat → Int) (c : Cond) : Bool :=
  match c.fn with
  | .eq => data c.var == c.val
  | .ge => decide (c.val ≤ data c.var)

/-- `condition == NULL || (*condition) (condition_arg)`. -/
def evalOpt (data : Nat → Int) : Option Cond → Bool
  | none => true
  | some c => evalCond data c

/-- WAIT_CONDITION_EQ (a, b) (common.h:203): only `a`'s eq function is consulted. -/
def condEq (a b : Option Cond) : Bool :=
  match a, b with
  | some a, some b => a.fn == b.fn && (a.k == b.k || (a.hasEq && a.var == b.var && a.val == b.val))
  | _, _ => false

/-! ### Locals -/

inductive Outc | ok | timedout | cancelled
deriving DecidableEq, Repr

/-- Live locals (and parameters) of nsync_mu_wait_with_deadline. -/
structure MW where
  hm : Mode             -- ghost: the mode in which the caller held the mutex at the call
  l : Mode              -- l_type, as detected from the word (mu_wait.c:159-167)
  cond : Option Cond
  dl : Option Int       -- abs_deadline, none = nsync_time_no_deadline
  note : Bool           -- cancel_note != NULL
  first : Bool          -- first_wait
  w : Option Wid
  rcl : Nat             -- remove_count
  hadW : Bool           -- had_waiters
  so : Outc             -- sem_outcome
  hl : Bool             -- have_lock
  outc : Outc           -- outcome
  saw : Bool            -- ghost: the note was observed notified (or notified) by this call
  wk : Bool := false    -- mu_try_acquire_after_timeout_or_cancel: zero_to_acquire == MU_ANY_LOCK (*w was seen woken; repair of F9)
deriving DecidableEq, Repr

/-- Live locals of nsync_mu_lock_slow_; `mw` = the call was made by nsync_mu_wait_with_deadline
    (mu_wait.c:262) with these locals, to which it returns. -/
structure SL where
  l : Mode
  w : Option Wid
  clear : Bool      -- clear == MU_DESIG_WAKER
  ign : Bool        -- zero_to_acquire has MU_WRITER_WAITING|MU_LONG_WAIT masked out
  wc : Nat          -- wait_count
  lwl : Bool        -- long_wait == MU_LONG_WAIT
  mw : Option MW
deriving DecidableEq, Repr

def SL.entry (l : Mode) : SL :=
  { l := l, w := none, clear := false, ign := false, wc := 0, lwl := false, mw := none }

/-- lock_slow as called from mu_wait.c:262: clear = MU_DESIG_WAKER, the waiter is the caller's. -/
def SL.fromWait (c : MW) : SL :=
  { l := c.l, w := c.w, clear := true, ign := true, wc := 0, lwl := false, mw := some c }

/-- mu.c:105-122 after the wait loop. -/
def SL.woken (c : SL) : SL :=
  { c with wc := c.wc + 1, lwl := if c.wc + 1 = longWaitThreshold then true else c.lwl,
           clear := true, ign := true }

/-- Where nsync_mu_unlock_slow_ returns to. -/
inductive Ret
  | ul (l : Mode) (nw : Bool)     -- nsync_mu_unlock / runlock / unlock_without_wakeup (`nw`)
  | mw (c : MW)                   -- nsync_mu_wait_with_deadline (mu_wait.c:233)
deriving DecidableEq, Repr

def Ret.mode : Ret → Mode
  | .ul l _ => l
  | .mw c => c.l

/-- Locals of the waiter scan of unlock_slow (mu.c:322-411). -/
structure Scan where
  late : Bool           -- late_release_mu == MU_WLOCK (testing_conditions at mu.c:270)
  tc : Bool             -- testing_conditions (current value)
  done : List Wid       -- `waiters`
  passed : List Wid     -- the elements of `new_waiters` before p
  todo : List Wid       -- `new_waiters` from p to the end
  wake : List Wid       -- `wake`, in order
  wt : Option Mode      -- wake_type
  sww : Bool            -- set_on_release has MU_WRITER_WAITING
  saf : Bool            -- set_on_release has MU_ALL_FALSE
deriving DecidableEq, Repr

/-- Locals after the scan (mu.c:414-430). -/
structure Fin where
  late : Bool
  wake : List Wid
  sww : Bool
  saf : Bool
  cDesig : Bool         -- clear_on_release has MU_DESIG_WAKER (nothing woken)
  cAf : Bool            -- clear_on_release has MU_ALL_FALSE (not in set_on_release)
  cEmpty : Bool         -- no waiters left: clear MU_WAITING|MU_WRITER_WAITING|MU_CONDITION|MU_ALL_FALSE
deriving DecidableEq, Repr

/-- `((word - late_release_mu) | set_on_release) & ~clear_on_release` (mu.c:439). -/
def finWord (f : Fin) (w : Word) : Word :=
  { w with wlock := w.wlock && !f.late,
           spin := false,
           desig := w.desig && !f.cDesig,
           waiting := w.waiting && !f.cEmpty,
           cond := w.cond && !f.cEmpty,
           ww := (w.ww || f.sww) && !f.cEmpty,
           af := (w.af || f.saf) && !(f.cAf || f.cEmpty) }

def mkFin (sc : Scan) (queueEmpty : Bool) : Fin :=
  { late := sc.late, wake := sc.wake, sww := sc.sww, saf := sc.saf, cDesig := sc.wake.isEmpty,
    cAf := !sc.saf, cEmpty := queueEmpty }

/-- Waiter record. -/
structure WRec where
  owner : Option Tid    -- the thread using it on this mutex
  waiting : Bool        -- nw.waiting
  lType : Mode          -- l_type
  sem : Nat             -- semaphore count
  cond : Option Cond    -- cond.f / cond.v / cond.eq
  lnk : Bool            -- same_condition ring continues with the successor in the list
  rc : Nat              -- remove_count (as far as this mutex knows it)
deriving DecidableEq, Repr

@[noinline] def setFn {α : Type} (f : Nat → α) (t : Nat) (v : α) : Nat → α := fun u => if u = t then v else f u

/-! ### same_condition rings on the run representation -/

def predNext : List Wid → Wid → Option Wid → Option Wid × Option Wid
  | [], _, _ => (none, none)
  | x :: rest, k, prev => if x = k then (prev, rest.head?) else predNext rest k (some x)

/-- The members of k's ring that follow k in the list, and the remainder of the list. -/
def groupTail (wr : Wid → WRec) : Wid → List Wid → List Wid × List Wid
  | _, [] => ([], [])
  | k, n :: rest =>
    if (wr k).lnk then
      let r := groupTail wr n rest
      (n :: r.1, r.2)
    else ([], n :: rest)

/-- skip_past_same_condition (mu.c:209) for p = `k`, `passed` = the list before p, `rest` = the list
    after p.  Returns the new (`passed`, `todo`). -/
def skipPast (wr : Wid → WRec) (passed : List Wid) (k : Wid) (rest : List Wid) : List Wid × List Wid :=
  let firstOfRing := match passed.getLast? with | some q => !(wr q).lnk | none => true
  let g := groupTail wr k rest
  -- last_with_same_condition != p  &&  last_with_same_condition != p->prev
  if firstOfRing && !g.1.isEmpty && !(passed.isEmpty && g.2.isEmpty) then (passed ++ k :: g.1, g.2)
  else (passed ++ [k], rest)

inductive ScanRes
  | eval (k : Wid) (sc : Scan)     -- condition_true (p) is called for p = k = head of sc.todo
  | remove (k : Wid) (sc : Scan)   -- wake `k`: nsync_remove_from_mu_queue_ (new_waiters, k); sc is after it
  | iterEnd (sc : Scan)            -- the inner loop (mu.c:361) has ended; mu.c:390-394 done
  | panic                          -- "checking a waiter condition while unlocked"

/-- mu.c:373-386 for p = k (head of sc.todo = k :: rest) whose condition is NULL or true. -/
def wakeOrPass (wr : Wid → WRec) (k : Wid) (rest : List Wid) (sc : Scan) : Sum ScanRes Scan :=
  if sc.wt = none ∨ (wr k).lType = .R then
    .inl (.remove k { sc with todo := rest, wake := sc.wake ++ [k], wt := some (wr k).lType })
  else .inr { sc with passed := sc.passed ++ [k], todo := rest, sww := true, saf := false }

/-- The inner loop mu.c:361-388 up to the next condition evaluation or removal, then mu.c:390-394. -/
def scanGo (wr : Wid → WRec) : List Wid → Scan → ScanRes
  | [], sc => .iterEnd { sc with todo := [] }
  | k :: rest, sc =>
    if sc.wt = some .W then .iterEnd { sc with todo := k :: rest, saf := false }
    else if (wr k).cond.isSome then (if sc.tc then .eval k { sc with todo := k :: rest } else .panic)
    else match wakeOrPass wr k rest { sc with todo := k :: rest } with
      | .inl r => r
      | .inr sc' => scanGo wr rest sc'

/-- Program points: one constructor per point between two steps, with the live locals. -/
inductive PC
  | idle
  -- nsync_mu_lock / nsync_mu_rlock
  | lkCas0 (l : Mode) | lkLd (l : Mode) | lkCas1 (l : Mode) (old : Word) | lkRet (l : Mode)
  -- nsync_mu_trylock / nsync_mu_rtrylock
  | tryCas0 (l : Mode) | tryLd (l : Mode) | tryCas1 (l : Mode) (old : Word) | tryRet (l : Mode) (res : Bool)
  -- nsync_mu_lock_slow_
  | lsLd (c : SL) | lsCasAcq (c : SL) (old : Word) | lsCasEnq (c : SL) (old : Word)
  | lsSt (c : SL)                         -- spinlock held: STORE waiting := 1 (+ queue insertion)
  | lsRelLd (c : SL) | lsRelCas (c : SL) (old : Word)   -- mu_release_spinlock
  | lsWaitLd (c : SL) | lsPEnter (c : SL) | lsPRet (c : SL)
  -- nsync_mu_unlock / nsync_mu_runlock / nsync_mu_unlock_without_wakeup (`nw`)
  | ulCas0 (l : Mode) (nw : Bool) | ulLd (l : Mode) (nw : Bool) | ulCas1 (l : Mode) (nw : Bool) (old : Word)
  | ulRet (l : Mode) (nw : Bool)
  -- nsync_mu_unlock_slow_
  | usLd (r : Ret) | usCasUnc (r : Ret) (old : Word) | usCasGrab (r : Ret) (old : Word)
  | usRelLd (r : Ret) (sc : Scan) | usRelCas (r : Ret) (sc : Scan) (old : Word)   -- mu_release_spinlock (mu.c:354)
  | usEval (r : Ret) (sc : Scan)                                                  -- condition_true (p)
  | usRcLd (r : Ret) (sc : Scan) (k : Wid) | usRcCas (r : Ret) (sc : Scan) (k : Wid) (old : Nat)
  | usReLd (r : Ret) (sc : Scan) | usReCas (r : Ret) (sc : Scan) (old : Word)     -- nsync_spin_test_and_set_ (mu.c:399)
  | usFinLd (r : Ret) (f : Fin) | usFinCas (r : Ret) (f : Fin) (old : Word)
  | usWakeSt (r : Ret) (k : Wid) (rest : List Wid) | usWakeV (r : Ret) (k : Wid) (rest : List Wid)
  -- nsync_mu_wait_with_deadline
  | mwLd0 (c : MW)                        -- mode detection load (mu_wait.c:159)
  | mwEval (c : MW)                       -- first evaluation / re-evaluation of the condition (mu_wait.c:170, 265)
  | mwStW (c : MW)                        -- STORE waiting := 1 (mu_wait.c:198)
  | mwRcLd (c : MW)                       -- LOAD remove_count (mu_wait.c:199)
  | mwEnqLd (c : MW) | mwEnqCas (c : MW) (old : Word)      -- nsync_spin_test_and_set_ (mu_wait.c:202)
  | mwRelLd (c : MW) | mwRelCas (c : MW) (old : Word) (add0 : Bool)   -- release loop (mu_wait.c:222-229)
  | mwWaitLd (c : MW)                     -- LOAD_ACQ waiting (mu_wait.c:240)
  | mwSem (c : MW)                        -- inside nsync_sem_wait_with_cancel_, before a P
  | mwPdRet (c : MW) (dl : Option Int)    -- inside the timed P
  | mwNotify (c : MW)                     -- the P timed out at the note's deadline: nsync_note_notify follows
  | mwLd244 (c : MW)                      -- LOAD waiting (mu_wait.c:244), sem_outcome != 0
  | mwLd255 (c : MW)                      -- LOAD waiting (mu_wait.c:255)
  | mwRet (c : MW) (cit : Bool)
  -- mu_try_acquire_after_timeout_or_cancel
  | mtLd (c : MW) | mtCasAcq (c : MW) (old : Word) | mtCasWW (c : MW) (old : Word)
  | mtLdWk (c : MW) (old : Word)          -- LOAD_ACQ waiting at the top of the loop body (repair of F9)
  | mtLdW (c : MW) (old : Word) | mtLdRc (c : MW) (old : Word)
  | mtRmLd (c : MW) (old : Word) | mtRmCas (c : MW) (old : Word) (rc : Nat)
  | mtStW (c : MW) (old : Word)
  | mtStRel (c : MW) (old : Word) (ok : Bool)
deriving DecidableEq, Repr

inductive Ord | rlx | acq | rel | ar
deriving DecidableEq, Repr

inductive Loc
  | word | waiting (k : Wid) | rc (k : Wid)
deriving DecidableEq, Repr

inductive Api
  | lock | rlock | trylock | rtrylock | unlock | runlock | unlockNw
  | wait (c : Option Cond) (dl : Option Int) (note : Bool)
deriving DecidableEq, Repr

inductive Res | void | bool (b : Bool) | outc (o : Outc)
deriving DecidableEq, Repr

inductive Event
  | call (t : Tid) (a : Api)
  | ret (t : Tid) (a : Api) (res : Res)
  | ld (t : Tid) (o : Ord) (loc : Loc) (obs : Nat)
  | st (t : Tid) (o : Ord) (loc : Loc) (new obs : Nat)
  | cas (t : Tid) (o : Ord) (loc : Loc) (exp new obs : Nat) (ok : Bool)
  | semPEnter (t : Tid) (k : Wid)
  | semPRet (t : Tid) (k : Wid)
  | semPdEnter (t : Tid) (k : Wid) (dl : Option Int)
  | semPdRet (t : Tid) (k : Wid) (timedout : Bool)
  | semV (t : Tid) (k : Wid)
  | envV (k : Wid)               -- a V from outside this mutex (late post of an earlier use)
  | envSem (k : Wid) (n : Nat)   -- the count of a record not in use here, as the environment left it
  | cond (t : Tid) (fn : CFn) (k : Nat) (res : Bool)   -- a wait condition was evaluated
  | dataW (t : Tid) (x : Nat) (v : Int)
  | dataR (t : Tid) (x : Nat) (v : Int)
  | tick (n : Int)
  | noteSeen (t : Tid)
  | noteNotify (t : Tid)
deriving DecidableEq, Repr

def Event.tid : Event → Option Tid
  | .call t _ | .ret t _ _ | .ld t _ _ _ | .st t _ _ _ _ | .cas t _ _ _ _ _ _
  | .semPEnter t _ | .semPRet t _ | .semPdEnter t _ _ | .semPdRet t _ _ | .semV t _
  | .cond t _ _ _ | .dataW t _ _ | .dataR t _ _ | .noteSeen t | .noteNotify t => some t
  | .envV _ | .envSem _ _ | .tick _ => none

structure Cfg where
  binary : Bool      -- semaphore flavour: V sets the count to 1 instead of adding 1

structure State where
  word : Word
  queue : List Wid
  wr : Wid → WRec
  pc : Tid → PC
  data : Nat → Int
  cargs : Nat → Option (Nat × Int × Bool)   -- what the argument object c<k> denotes
  now : Int
  held : Tid → Option Mode       -- client-visible ghost: between acquire-return and release-call
  wOwner : Option Tid            -- ghost: owner of MU_WLOCK
  rOwners : List Tid             -- ghost: owners of the reader count
  sp : Option Tid                -- ghost: owner of MU_SPINLOCK
  secStart : Nat → Int           -- ghost: the data when the current write section began
  nwViol : Bool                  -- ghost: the contract of nsync_mu_unlock_without_wakeup was broken

def init : State :=
  { word := Word.zero, queue := [],
    wr := fun _ => { owner := none, waiting := false, lType := .W, sem := 0, cond := none, lnk := false, rc := 0 },
    pc := fun _ => .idle, data := fun _ => 0, cargs := fun _ => none, now := 0,
    held := fun _ => none, wOwner := none, rOwners := [], sp := none,
    secStart := fun _ => 0, nwViol := false }

def setPc (s : State) (t : Tid) (p : PC) : State := { s with pc := setFn s.pc t p }

def addShare (s : State) (t : Tid) : Mode → State
  | .W => { s with wOwner := some t }
  | .R => { s with rOwners := t :: s.rOwners }

def subShare (s : State) (t : Tid) : Mode → State
  | .W => { s with wOwner := none }
  | .R => { s with rOwners := s.rOwners.erase t }

def semPost (cfg : Cfg) (s : State) (k : Wid) : State :=
  { s with wr := setFn s.wr k { s.wr k with sem := if cfg.binary then 1 else (s.wr k).sem + 1 } }

def setLnk (s : State) (k : Wid) (b : Bool) : State :=
  { s with wr := setFn s.wr k { s.wr k with lnk := b } }

/-- nsync_maybe_merge_conditions_ (p, n) (mu.c:225). -/
def mergeLinks (s : State) : Option Wid → Option Wid → State
  | some p, some n => if condEq (s.wr p).cond (s.wr n).cond then setLnk s p true else s
  | _, _ => s

/-- The ring fix-up of nsync_remove_from_mu_queue_ (mu.c:246-260) for element `k` with list
    predecessor `pred` and list successor `next` (`none` = k is the first / last element). -/
def removeLinks (s : State) (pred : Option Wid) (k : Wid) (next : Option Wid) : State :=
  let predLinked := match pred with | some p => (s.wr p).lnk | none => false
  if predLinked || (s.wr k).lnk then
    -- *e is linked to a same_condition neighbour: just unlink it
    let s1 := match pred with
      | some p => if (s.wr p).lnk then setLnk s p (s.wr k).lnk else s
      | none => s
    setLnk s1 k false
  else
    match pred, next with
    | some p, some n => mergeLinks s (some p) (some n)
    | _, _ => s

/-- nsync_waiter_free_: the record is no longer in use on this mutex. -/
def dropW (s : State) : Option Wid → State
  | none => s
  | some k => { s with wr := setFn s.wr k { s.wr k with owner := none } }

/-- The client sees the mutex held in mode `m` from now on (a write section begins: snapshot). -/
def setHeld (s : State) (t : Tid) (m : Option Mode) : State :=
  { s with held := setFn s.held t m, secStart := if m = some .W then s.data else s.secStart }

/-- nsync_maybe_merge_conditions_ (last, w); make_last_in_list (mu_wait.c:207-211, mu.c:86). -/
def enqLast (s : State) (k : Wid) : State :=
  { mergeLinks s s.queue.getLast? (some k) with queue := s.queue ++ [k] }

/-- nsync_maybe_merge_conditions_ (w, first); make_first_in_list (mu_wait.c:214-218, mu.c:90). -/
def enqFirst (s : State) (k : Wid) : State :=
  { mergeLinks s (some k) s.queue.head? with queue := k :: s.queue }

/-- mu->waiters = nsync_remove_from_mu_queue_ (mu->waiters, k) without the remove_count atomics. -/
def dequeue (s : State) (k : Wid) : State :=
  let pn := predNext s.queue k none
  { removeLinks s pn.1 k pn.2 with queue := s.queue.erase k }

def casWord (s : State) (o want : Ord) (loc : Loc) (exp new obs : Nat) (ok : Bool)
    (old nw : Word) (succ fail : State) : Except String State :=
  if o ≠ want then .error "CAS with the wrong memory order"
  else if loc ≠ .word then .error "CAS on the wrong location"
  else if exp ≠ encode old then .error "CAS expected value differs from the model's"
  else if new ≠ encode nw then .error "CAS new value differs from the model's"
  else if obs ≠ encode s.word then .error "CAS observed a value the model's word does not hold"
  else if ok ≠ decide (obs = exp) then .error "CAS result inconsistent with observed/expected"
  else .ok (if ok then succ else fail)

/-- `casWord` whose success branch continues with plain code that may panic. -/
def casWordE (s : State) (o want : Ord) (loc : Loc) (exp new obs : Nat) (ok : Bool)
    (old nw : Word) (succ : Except String State) (fail : State) : Except String State :=
  if o ≠ want then .error "CAS with the wrong memory order"
  else if loc ≠ .word then .error "CAS on the wrong location"
  else if exp ≠ encode old then .error "CAS expected value differs from the model's"
  else if new ≠ encode nw then .error "CAS new value differs from the model's"
  else if obs ≠ encode s.word then .error "CAS observed a value the model's word does not hold"
  else if ok ≠ decide (obs = exp) then .error "CAS result inconsistent with observed/expected"
  else if ok then succ else .ok fail

def ldWord (s : State) (o : Ord) (loc : Loc) (obs : Nat) (next : State) : Except String State :=
  if o ≠ .rlx then .error "load with the wrong memory order"
  else if loc ≠ .word then .error "load from the wrong location"
  else if obs ≠ encode s.word then .error "load observed a value the model's word does not hold"
  else .ok next

def ldWaiting (s : State) (want : Ord) (k : Wid) (o : Ord) (loc : Loc) (obs : Nat) (next : State) :
    Except String State :=
  if o ≠ want then .error "load of `waiting` with the wrong memory order"
  else if loc ≠ .waiting k then .error "load from the wrong location"
  else if obs ≠ b2n (s.wr k).waiting then .error "load observed a value the model's `waiting` does not hold"
  else .ok next

/-! ### the scan of unlock_slow -/

/-- mu.c:403-410 and the head of the outer loop mu.c:331-348 (spinlock held): append `new_waiters`
    to `waiters`, pick up mu->waiters.  `none`: nothing new, the scan is over and `queue` is the
    final list. -/
def pickup (s : State) (sc : Scan) : State × Option Scan :=
  let cur := sc.passed ++ sc.todo
  let s1 := mergeLinks s sc.done.getLast? cur.head?
  let done' := sc.done ++ cur
  match s.queue with
  | [] => ({ s1 with queue := done' }, none)
  | p :: q =>
    let tc' := sc.tc && !(sc.wt == some .W) && !(sc.wt == none && (s.wr p).lType == .W && (s.wr p).cond.isNone)
    ({ s1 with queue := [] },
     some { sc with tc := tc', done := done', passed := [], todo := p :: q })

def toFin (s : State) (t : Tid) (r : Ret) (sc : Scan) : State :=
  setPc s t (.usFinLd r (mkFin sc s.queue.isEmpty))

/-- Continue the scan of thread `t` from `sc` (plain code up to the next step).  `fuel` bounds the
    number of outer-loop iterations that run without an intervening step: after `pickup` has emptied
    `queue` the next `pickup` of the same call finds it empty, so 2 always suffices. -/
def scanRun : Nat → State → Tid → Ret → Scan → Except String State
  | 0, _, _, _, _ => .error "unreachable: scan fuel"
  | n + 1, s, t, r, sc =>
    match scanGo s.wr sc.todo sc with
    | .panic => .error "panic: checking a waiter condition while unlocked"
    | .eval _ sc' => .ok (setPc s t (.usEval r sc'))
    | .remove k sc' =>
      .ok (setPc (removeLinks s sc'.passed.getLast? k sc'.todo.head?) t (.usRcLd r sc' k))
    | .iterEnd sc' =>
      if sc'.tc then .ok (setPc s t (.usReLd r sc'))
      else
        match pickup s sc' with
        | (s1, none) => .ok (toFin s1 t r sc')
        | (s1, some sc2) => if sc2.tc then .ok (setPc s1 t (.usRelLd r sc2)) else scanRun n s1 t r sc2

/-- After `pickup` with the spinlock held (grab CAS, or mu.c:399 done). -/
def afterPickup (p : State × Option Scan) (t : Tid) (r : Ret) (sc : Scan) : Except String State :=
  match p with
  | (s1, none) => .ok (toFin s1 t r sc)
  | (s1, some sc2) => if sc2.tc then .ok (setPc s1 t (.usRelLd r sc2)) else scanRun 3 s1 t r sc2

/-- After condition_true (p) returned `res` (mu.c:369-386). -/
def afterEval (s : State) (t : Tid) (r : Ret) (sc : Scan) (res : Bool) : Except String State :=
  match sc.todo with
  | [] => .error "unreachable: evaluation without a waiter"
  | k :: rest =>
    if !res then
      let p := skipPast s.wr sc.passed k rest
      scanRun 3 s t r { sc with passed := p.1, todo := p.2 }
    else
      match wakeOrPass s.wr k rest sc with
      | .inl (.remove k' sc') =>
        .ok (setPc (removeLinks s sc'.passed.getLast? k' sc'.todo.head?) t (.usRcLd r sc' k'))
      | .inl _ => .error "unreachable"
      | .inr sc' => scanRun 3 s t r sc'

def afterWakes (s : State) (t : Tid) (r : Ret) : State :=
  match r with
  | .ul l nw => setPc s t (.ulRet l nw)
  | .mw c => setPc s t (.mwWaitLd c)

def afterFin (s : State) (t : Tid) (r : Ret) : List Wid → State
  | [] => afterWakes s t r
  | k :: rest => setPc s t (.usWakeSt r k rest)

/-! ### steps -/

/-- The top of the loop of mu_wait.c:176, or the return. -/
def mwLoop (s : State) (t : Tid) (c : MW) (cit : Bool) : State :=
  if c.outc = .ok ∧ cit = false then setPc s t (.mwStW c) else setPc s t (.mwRet c cit)

def stepCall (s : State) (t : Tid) (a : Api) : Except String State :=
  match s.pc t with
  | .idle =>
    match a with
    | .lock => if s.held t = none then .ok (setPc s t (.lkCas0 .W)) else .error "contract: lock of a mutex the caller holds"
    | .rlock => if s.held t = none then .ok (setPc s t (.lkCas0 .R)) else .error "contract: rlock of a mutex the caller holds"
    | .trylock => if s.held t = none then .ok (setPc s t (.tryCas0 .W)) else .error "contract: trylock of a mutex the caller holds"
    | .rtrylock => if s.held t = none then .ok (setPc s t (.tryCas0 .R)) else .error "contract: rtrylock of a mutex the caller holds"
    | .unlock =>
      if s.held t = some .W then .ok { setPc s t (.ulCas0 .W false) with held := setFn s.held t none }
      else .error "contract: unlock of a mutex not held in write mode"
    | .runlock =>
      if s.held t = some .R then .ok { setPc s t (.ulCas0 .R false) with held := setFn s.held t none }
      else .error "contract: runlock of a mutex not held in read mode"
    | .unlockNw =>
      if s.held t = some .W then
        .ok { setPc s t (.ulCas0 .W true) with
                held := setFn s.held t none,
                nwViol := s.nwViol || s.queue.any (fun k =>
                  match (s.wr k).cond with
                  | some c => !evalCond s.secStart c && evalCond s.data c
                  | none => false) }
      else .error "contract: unlock_without_wakeup of a mutex not held in write mode"
    | .wait cnd dl note =>
      match s.held t with
      | none => .error "contract: nsync_mu_wait of a mutex the caller does not hold"
      | some m =>
        let c : MW := { hm := m, l := m, cond := cnd, dl := dl, note := note, first := true, w := none, rcl := 0,
                        hadW := false, so := .ok, hl := false, outc := .ok, saw := false }
        match cnd with
        | none => .ok { setPc s t (.mwLd0 c) with held := setFn s.held t none }
        | some cd =>
          if s.cargs cd.k ≠ none ∧ s.cargs cd.k ≠ some (cd.var, cd.val, cd.hasEq) then
            .error "contract: the condition argument object changed its meaning"
          else .ok { setPc s t (.mwLd0 c) with held := setFn s.held t none,
                                               cargs := setFn s.cargs cd.k (some (cd.var, cd.val, cd.hasEq)) }
  | _ => .error "call while another call on this mutex is in progress"

def stepRet (s : State) (t : Tid) (a : Api) (res : Res) : Except String State :=
  match s.pc t, a, res with
  | .lkRet .W, .lock, .void => .ok (setHeld (setPc s t .idle) t (some .W))
  | .lkRet .R, .rlock, .void => .ok (setHeld (setPc s t .idle) t (some .R))
  | .tryRet .W r, .trylock, .bool r' =>
    if r = r' then .ok (setHeld (setPc s t .idle) t (if r then some .W else none))
    else .error "trylock returned a result the model does not predict"
  | .tryRet .R r, .rtrylock, .bool r' =>
    if r = r' then .ok (setHeld (setPc s t .idle) t (if r then some .R else none))
    else .error "rtrylock returned a result the model does not predict"
  | .ulRet .W false, .unlock, .void => .ok (setPc s t .idle)
  | .ulRet .R false, .runlock, .void => .ok (setPc s t .idle)
  | .ulRet .W true, .unlockNw, .void => .ok (setPc s t .idle)
  | .mwRet c cit, .wait cnd dl note, .outc o =>
    if cnd ≠ c.cond ∨ dl ≠ c.dl ∨ note ≠ c.note then .error "return of another call than the one in progress"
    else if o ≠ (if cit then .ok else c.outc) then .error "nsync_mu_wait_with_deadline returned a result the model does not predict"
    else
      -- `c.first`: the call returns without ever having released the mutex (condition NULL or true at
      -- once, mu_wait.c:170-176) — the caller's write section simply continues: keep its snapshot.
      let s1 := setHeld (dropW (setPc s t .idle) c.w) t (some c.l)
      .ok (if c.first then { s1 with secStart := s.secStart } else s1)
  | _, _, _ => .error "return not prescribed at this program point"

def stepLd (s : State) (t : Tid) (o : Ord) (loc : Loc) (obs : Nat) : Except String State :=
  let old := s.word
  match s.pc t with
  | .lkLd l =>
    ldWord s o loc obs (if blocked l false old then setPc s t (.lsLd (SL.entry l)) else setPc s t (.lkCas1 l old))
  | .tryLd l =>
    ldWord s o loc obs (if blocked l false old then setPc s t (.tryRet l false) else setPc s t (.tryCas1 l old))
  | .lsLd c =>
    ldWord s o loc obs
      (if !blocked c.l c.ign old then setPc s t (.lsCasAcq c old)
       else if !old.spin then setPc s t (.lsCasEnq c old)
       else setPc s t (.lsLd c))
  | .lsRelLd c => ldWord s o loc obs (setPc s t (.lsRelCas c old))
  | .lsWaitLd c =>
    match c.w with
    | none => .error "wait loop without a waiter record"
    | some k =>
      ldWaiting s .acq k o loc obs
        (if (s.wr k).waiting then setPc s t (.lsPEnter c) else setPc s t (.lsLd c.woken))
  | .ulLd .W nw =>
    if !(old.wlock && old.readers == 0) then .error "panic: nsync_mu_unlock of a mutex not held in write mode"
    else ldWord s o loc obs
      (if old.waiting && !old.desig && !(nw && old.af) then setPc s t (.usLd (.ul .W nw)) else setPc s t (.ulCas1 .W nw old))
  | .ulLd .R nw =>
    if old.wlock || old.readers == 0 then .error "panic/underflow: nsync_mu_runlock of a mutex not held in read mode"
    else ldWord s o loc obs
      (if old.waiting && !old.desig && old.readers == 1 && !old.af then setPc s t (.usLd (.ul .R nw))
       else setPc s t (.ulCas1 .R nw old))
  | .usLd r =>
    if !hasShare r.mode old then .error "unlock_slow on a word without the caller's share"
    else ldWord s o loc obs
      (if uncontended old then setPc s t (.usCasUnc r old)
       else if !old.spin then setPc s t (.usCasGrab r old)
       else setPc s t (.usLd r))
  | .usRelLd r sc => ldWord s o loc obs (setPc s t (.usRelCas r sc old))
  | .usReLd r sc => ldWord s o loc obs (if old.spin then setPc s t (.usReLd r sc) else setPc s t (.usReCas r sc old))
  | .usRcLd r sc k =>
    if o ≠ .rlx then .error "load with the wrong memory order"
    else if loc ≠ .rc k then .error "load from the wrong location"
    else .ok (setPc s t (.usRcCas r sc k obs))
  | .usFinLd r f => ldWord s o loc obs (setPc s t (.usFinCas r f old))
  -- nsync_mu_wait_with_deadline
  | .mwLd0 c =>
    if !old.wlock && old.readers == 0 then .error "panic: nsync_mu not held in some mode when calling nsync_mu_wait_with_deadline"
    else
      let c' := { c with l := if old.readers != 0 then .R else .W }
      ldWord s o loc obs (if c.cond.isSome then setPc s t (.mwEval c') else mwLoop s t c' true)
  | .mwRcLd c =>
    match c.w with
    | none => .error "no waiter record"
    | some k =>
      if o ≠ .rlx then .error "load with the wrong memory order"
      else if loc ≠ .rc k then .error "load from the wrong location"
      else .ok { setPc s t (.mwEnqLd { c with rcl := obs }) with wr := setFn s.wr k { s.wr k with rc := obs } }
  | .mwEnqLd c => ldWord s o loc obs (if old.spin then setPc s t (.mwEnqLd c) else setPc s t (.mwEnqCas c old))
  | .mwRelLd c =>
    if !hasShare c.l old then .error "release loop of mu_wait on a word without the caller's share"
    else
      let sub := subWord c.l old
      let add0 := !sub.wlock && sub.readers == 0 && c.hadW && !old.desig
      ldWord s o loc obs (setPc s t (.mwRelCas c old add0))
  | .mwWaitLd c =>
    match c.w with
    | none => .error "wait loop without a waiter record"
    | some k =>
      ldWaiting s .acq k o loc obs
        (if (s.wr k).waiting then (if c.so = .ok then setPc s t (.mwSem c) else setPc s t (.mwLd255 c))
         else if c.hl then (if c.cond.isSome then setPc s t (.mwEval c) else mwLoop s t c true)
         else setPc s t (.lsLd (SL.fromWait c)))
  | .mwSem c =>
    -- nsync_sem_wait_with_cancel_ returned ECANCELED without a P: this is the load of mu_wait.c:244
    match c.w with
    | none => .error "wait loop without a waiter record"
    | some k =>
      if !(c.note && c.saw) then .error "sem_wait_with_cancel returned without a P although the note was not seen notified"
      else
        let c' := { c with so := .cancelled }
        ldWaiting s .rlx k o loc obs (if (s.wr k).waiting then setPc s t (.mtLd { c' with wk := false }) else setPc s t (.mwLd255 c'))
  | .mwLd244 c =>
    match c.w with
    | none => .error "wait loop without a waiter record"
    | some k =>
      ldWaiting s .rlx k o loc obs (if (s.wr k).waiting then setPc s t (.mtLd { c with wk := false }) else setPc s t (.mwLd255 c))
  | .mwLd255 c =>
    match c.w with
    | none => .error "wait loop without a waiter record"
    | some k => ldWaiting s .rlx k o loc obs (setPc s t (.mwWaitLd c))
  -- mu_try_acquire_after_timeout_or_cancel
  | .mtLd c =>
    -- `(old_word & (zero_to_acquire|MU_SPINLOCK)) != 0`; zero_to_acquire = MU_WZERO_TO_ACQUIRE, or MU_ANY_LOCK once woken
    ldWord s o loc obs
      (if !(old.wlock || old.readers != 0 || (!c.wk && old.lw) || old.spin) then setPc s t (.mtCasAcq c old)
       else setPc s t (.mtLdWk c old))
  | .mtLdWk c old' =>
    -- repair of F9, top of the loop body: `if (ATM_LOAD_ACQ (&w->nw.waiting) == 0) zero_to_acquire = MU_ANY_LOCK;` (the thread
    -- has been woken: like a woken thread in nsync_mu_lock_slow_ it no longer waits for MU_LONG_WAIT); then the
    -- MU_WRITER_WAITING attempt, or straight back to the re-load of the word
    match c.w with
    | none => .error "no waiter record"
    | some k =>
      let c' := { c with wk := c.wk || !(s.wr k).waiting }
      ldWaiting s .acq k o loc obs
        (if !(old'.ww || old'.spin) then setPc s t (.mtCasWW c' old') else setPc s t (.mtLd c'))
  | .mtLdW c old' =>
    match c.w with
    | none => .error "no waiter record"
    | some k =>
      ldWaiting s .rlx k o loc obs (if (s.wr k).waiting then setPc s t (.mtLdRc c old') else setPc s t (.mtStRel c old' false))
  | .mtLdRc c old' =>
    match c.w with
    | none => .error "no waiter record"
    | some k =>
      if o ≠ .rlx then .error "load with the wrong memory order"
      else if loc ≠ .rc k then .error "load from the wrong location"
      else if obs ≠ (s.wr k).rc then .error "load observed a value the model's remove_count does not hold"
      else if obs = c.rcl then
        if k ∈ s.queue then .ok (setPc (dequeue s k) t (.mtRmLd c old'))
        else .error "removal of a waiter that is not on mu->waiters"
      else .ok (setPc s t (.mtStRel c old' false))
  | .mtRmLd c old' =>
    match c.w with
    | none => .error "no waiter record"
    | some k =>
      if o ≠ .rlx then .error "load with the wrong memory order"
      else if loc ≠ .rc k then .error "load from the wrong location"
      else .ok (setPc s t (.mtRmCas c old' obs))
  | _ => .error "load not prescribed at this program point"

def stepSt (s : State) (t : Tid) (o : Ord) (loc : Loc) (new obs : Nat) : Except String State :=
  match s.pc t with
  | .lsSt c =>
    match loc with
    | .waiting k =>
      if o ≠ .rlx then .error "store with the wrong memory order"
      else if new ≠ 1 then .error "store of the wrong value"
      else if obs ≠ b2n (s.wr k).waiting then .error "store overwrote a value the model's `waiting` does not hold"
      else if k ∈ s.queue then .error "contract: waiter record already queued"
      else
        match c.w with
        | none =>
          -- the model learns which record nsync_waiter_new_ returned
          if (s.wr k).owner ≠ none then .error "contract: waiter record in use by another thread"
          else if (s.wr k).waiting then .error "contract: free waiter record with waiting ≠ 0"
          else
            let s1 := { s with wr := setFn s.wr k { s.wr k with owner := some t, waiting := true, lType := c.l, cond := none, lnk := false } }
            .ok (setPc (if c.wc = 0 then enqLast s1 k else enqFirst s1 k) t (.lsRelLd { c with w := some k }))
        | some k' =>
          if k ≠ k' then .error "store to another waiter record than the thread's own"
          else if (s.wr k).waiting then .error "contract: the thread's waiter record still has waiting ≠ 0"
          else
            let s1 := { s with wr := setFn s.wr k { s.wr k with waiting := true, lType := c.l, cond := none, lnk := false } }
            .ok (setPc (if c.wc = 0 then enqLast s1 k else enqFirst s1 k) t (.lsRelLd c))
    | _ => .error "store to the wrong location"
  | .usWakeSt r k rest =>
    if o ≠ .rel then .error "store with the wrong memory order"
    else if loc ≠ .waiting k then .error "store to the wrong location"
    else if new ≠ 0 then .error "store of the wrong value"
    else if obs ≠ b2n (s.wr k).waiting then .error "store overwrote a value the model's `waiting` does not hold"
    else .ok { setPc s t (.usWakeV r k rest) with wr := setFn s.wr k { s.wr k with waiting := false } }
  | .mwStW c =>
    match loc with
    | .waiting k =>
      if o ≠ .rlx then .error "store with the wrong memory order"
      else if new ≠ 1 then .error "store of the wrong value"
      else if obs ≠ b2n (s.wr k).waiting then .error "store overwrote a value the model's `waiting` does not hold"
      else if k ∈ s.queue then .error "contract: waiter record already queued"
      else
        match c.w with
        | none =>
          if (s.wr k).owner ≠ none then .error "contract: waiter record in use by another thread"
          else if (s.wr k).waiting then .error "contract: free waiter record with waiting ≠ 0"
          else .ok { setPc s t (.mwRcLd { c with w := some k }) with
                      wr := setFn s.wr k { s.wr k with owner := some t, waiting := true, lType := c.l, cond := c.cond, lnk := false } }
        | some k' =>
          if k ≠ k' then .error "store to another waiter record than the thread's own"
          else if (s.wr k).waiting then .error "contract: the thread's waiter record still has waiting ≠ 0"
          else .ok { setPc s t (.mwRcLd c) with
                      wr := setFn s.wr k { s.wr k with waiting := true, lType := c.l, cond := c.cond, lnk := false } }
    | _ => .error "store to the wrong location"
  | .mtStW c old' =>
    match c.w with
    | none => .error "no waiter record"
    | some k =>
      if o ≠ .rlx then .error "store with the wrong memory order"
      else if loc ≠ .waiting k then .error "store to the wrong location"
      else if new ≠ 0 then .error "store of the wrong value"
      else if obs ≠ b2n (s.wr k).waiting then .error "store overwrote a value the model's `waiting` does not hold"
      else .ok { setPc s t (.mtStRel c old' true) with wr := setFn s.wr k { s.wr k with waiting := false } }
  | .mtStRel c old' ok =>
    let nw := mtRelWord (if ok then some c.l else none) old'
    if o ≠ .rel then .error "store with the wrong memory order"
    else if loc ≠ .word then .error "store to the wrong location"
    else if new ≠ encode nw then .error "store of a value that differs from the model's"
    else if obs ≠ encode s.word then .error "store overwrote a value the model's word does not hold"
    else
      let s1 := { s with word := nw, sp := none, wOwner := none }
      if ok then .ok (setPc (addShare s1 t c.l) t (.mwLd255 { c with hl := true, outc := c.so }))
      else .ok (setPc s1 t (.mwLd255 c))
  | _ => .error "store not prescribed at this program point"

def stepCas (s : State) (t : Tid) (o : Ord) (loc : Loc) (exp new obs : Nat) (ok : Bool) :
    Except String State :=
  match s.pc t with
  | .lkCas0 l =>
    let nw := addWord l
    casWord s o .acq loc exp new obs ok Word.zero nw
      (addShare { setPc s t (.lkRet l) with word := nw } t l) (setPc s t (.lkLd l))
  | .lkCas1 l old =>
    let nw := acqWord l false false old
    casWord s o .acq loc exp new obs ok old nw
      (addShare { setPc s t (.lkRet l) with word := nw } t l) (setPc s t (.lsLd (SL.entry l)))
  | .tryCas0 l =>
    let nw := addWord l
    casWord s o .acq loc exp new obs ok Word.zero nw
      (addShare { setPc s t (.tryRet l true) with word := nw } t l) (setPc s t (.tryLd l))
  | .tryCas1 l old =>
    let nw := acqWord l false false old
    casWord s o .acq loc exp new obs ok old nw
      (addShare { setPc s t (.tryRet l true) with word := nw } t l) (setPc s t (.tryRet l false))
  | .lsCasAcq c old =>
    let nw := acqWord c.l c.clear c.lwl old
    let s1 := { s with word := nw }
    casWord s o .acq loc exp new obs ok old nw
      (match c.mw with
       | none => addShare (dropW (setPc s1 t (.lkRet c.l)) c.w) t c.l
       | some m => addShare (if m.cond.isSome then setPc s1 t (.mwEval m) else mwLoop s1 t m true) t c.l)
      (setPc s t (.lsLd c))
  | .lsCasEnq c old =>
    let nw := enqWord c.l c.clear c.lwl old
    casWord s o .acq loc exp new obs ok old nw
      { setPc s t (.lsSt c) with word := nw, sp := some t } (setPc s t (.lsLd c))
  | .lsRelCas c old =>
    let nw := { old with spin := false }
    casWord s o .rel loc exp new obs ok old nw
      { setPc s t (.lsWaitLd c) with word := nw, sp := none } (setPc s t (.lsRelLd c))
  | .ulCas0 l nwk =>
    casWord s o .rel loc exp new obs ok (addWord l) Word.zero
      (subShare { setPc s t (.ulRet l nwk) with word := Word.zero } t l) (setPc s t (.ulLd l nwk))
  | .ulCas1 l nwk old =>
    let nw := match l with
      | .W => if nwk then relNwWord old else relUncWord .W old
      | .R => relUncWord .R old
    casWord s o .rel loc exp new obs ok old nw
      (subShare { setPc s t (.ulRet l nwk) with word := nw } t l) (setPc s t (.usLd (.ul l nwk)))
  | .usCasUnc r old =>
    let nw := relUncWord r.mode old
    casWord s o .rel loc exp new obs ok old nw
      (subShare (afterWakes { s with word := nw } t r) t r.mode) (setPc s t (.usLd r))
  | .usCasGrab r old =>
    let nw := grabWord r.mode old.cond old
    let s1 := subShare { s with word := nw, sp := some t } t r.mode
    let s2 := { s1 with wOwner := if old.cond then some t else s1.wOwner }
    let sc0 : Scan := { late := old.cond, tc := old.cond, done := [], passed := [], todo := [], wake := [], wt := none,
                        sww := false, saf := true }
    casWordE s o .ar loc exp new obs ok old nw (afterPickup (pickup s2 sc0) t r sc0) (setPc s t (.usLd r))
  | .usRelCas r sc old =>
    let nw := { old with spin := false }
    casWordE s o .rel loc exp new obs ok old nw (scanRun 3 { s with word := nw, sp := none } t r sc) (setPc s t (.usRelLd r sc))
  | .usReCas r sc old =>
    let nw := { old with spin := true }
    casWordE s o .acq loc exp new obs ok old nw (afterPickup (pickup { s with word := nw, sp := some t } sc) t r sc) (setPc s t (.usReLd r sc))
  | .usRcCas r sc k old =>
    if o ≠ .rlx then .error "CAS with the wrong memory order"
    else if loc ≠ .rc k then .error "CAS on the wrong location"
    else if exp ≠ old then .error "CAS expected value differs from the value loaded"
    else if new ≠ (old + 1) % 4294967296 then .error "CAS new value is not remove_count+1"
    else if ok ≠ decide (obs = exp) then .error "CAS result inconsistent with observed/expected"
    else if ok then scanRun 3 { s with wr := setFn s.wr k { s.wr k with rc := new } } t r sc
    else .ok (setPc s t (.usRcLd r sc k))
  | .usFinCas r f old =>
    let nw := finWord f old
    let s1 := { s with word := nw, sp := none }
    casWord s o .rel loc exp new obs ok old nw
      (afterFin (if f.late then { s1 with wOwner := none } else s1) t r f.wake) (setPc s t (.usFinLd r f))
  -- nsync_mu_wait_with_deadline
  | .mwEnqCas c old =>
    match c.w with
    | none => .error "no waiter record"
    | some k =>
      let nw := mwEnqWord c.cond.isSome old
      let c' := { c with hadW := old.waiting, first := false }
      let s1 := { s with word := nw, sp := some t }
      casWord s o .acq loc exp new obs ok old nw
        (setPc (if c.first then enqLast s1 k else enqFirst s1 k) t (.mwRelLd c')) (setPc s t (.mwEnqLd c))
  | .mwRelCas c old add0 =>
    let nw := { (if add0 then old else subWord c.l old) with spin := false }
    casWord s o .rel loc exp new obs ok old nw
      (if add0 then { setPc s t (.usLd (.mw { c with so := .ok, hl := false })) with word := nw, sp := none }
       else subShare { setPc s t (.mwWaitLd { c with so := .ok, hl := false }) with word := nw, sp := none } t c.l)
      (setPc s t (.mwRelLd c))
  -- mu_try_acquire_after_timeout_or_cancel
  | .mtCasAcq c old =>
    let nw := mtAcqWord old
    casWord s o .acq loc exp new obs ok old nw
      { setPc s t (.mtLdW c old) with word := nw, sp := some t, wOwner := some t }
      (setPc s t (.mtLdWk c old))
  | .mtCasWW c old =>
    let nw := { old with ww := true }
    casWord s o .ar loc exp new obs ok old nw
      { setPc s t (.mtLd c) with word := nw } (setPc s t (.mtLd c))
  | .mtRmCas c old' rc =>
    match c.w with
    | none => .error "no waiter record"
    | some k =>
      if o ≠ .rlx then .error "CAS with the wrong memory order"
      else if loc ≠ .rc k then .error "CAS on the wrong location"
      else if exp ≠ rc then .error "CAS expected value differs from the value loaded"
      else if new ≠ (rc + 1) % 4294967296 then .error "CAS new value is not remove_count+1"
      else if ok ≠ decide (obs = exp) then .error "CAS result inconsistent with observed/expected"
      else if ok then .ok { setPc s t (.mtStW c old') with wr := setFn s.wr k { s.wr k with rc := new } }
      else .ok (setPc s t (.mtRmLd c old'))
  | _ => .error "CAS not prescribed at this program point"

/-- `a ≤ b` on deadlines (`none` = no deadline). -/
def dlLe : Option Int → Option Int → Bool
  | _, none => true
  | none, some _ => false
  | some a, some b => decide (a ≤ b)

def stepCond (s : State) (t : Tid) (fn : CFn) (k : Nat) (res : Bool) : Except String State :=
  let check (c : Option Cond) (next : Except String State) : Except String State :=
    match c with
    | none => .error "evaluation of a NULL condition"
    | some cd =>
      if cd.fn ≠ fn ∨ cd.k ≠ k then .error "another condition is evaluated than the model prescribes"
      else if res ≠ evalCond s.data cd then .error "condition result differs from the model's evaluation on the model's data"
      else next
  match s.pc t with
  | .mwEval c => check c.cond (.ok (mwLoop s t c res))
  | .usEval r sc =>
    match sc.todo with
    | [] => .error "unreachable: evaluation without a waiter"
    | k' :: _ => check (s.wr k').cond (afterEval s t r sc res)
  | _ => .error "condition evaluated at a program point that evaluates none"

def step (cfg : Cfg) (s : State) : Event → Except String State
  | .call t a => stepCall s t a
  | .ret t a res => stepRet s t a res
  | .ld t o loc obs => stepLd s t o loc obs
  | .st t o loc new obs => stepSt s t o loc new obs
  | .cas t o loc exp new obs ok => stepCas s t o loc exp new obs ok
  | .cond t fn k res => stepCond s t fn k res
  | .semPEnter t k =>
    match s.pc t with
    | .lsPEnter c => if c.w = some k then .ok (setPc s t (.lsPRet c)) else .error "P on a semaphore that is not the thread's own"
    | _ => .error "P not prescribed at this program point"
  | .semPRet t k =>
    match s.pc t with
    | .lsPRet c =>
      if c.w ≠ some k then .error "P on a semaphore that is not the thread's own"
      else if (s.wr k).sem = 0 then .error "P returned although the semaphore count is 0"
      else .ok { setPc s t (.lsWaitLd c) with
                  wr := setFn s.wr k { s.wr k with sem := if cfg.binary then 0 else (s.wr k).sem - 1 } }
    | _ => .error "P return not prescribed at this program point"
  | .semPdEnter t k dl =>
    match s.pc t with
    | .mwSem c =>
      if c.w ≠ some k then .error "timed P on a semaphore that is not the thread's own"
      else if c.note = false ∧ dl ≠ c.dl then .error "timed P with another deadline than the caller's"
      else if !dlLe dl c.dl then .error "timed P with a deadline after the caller's"
      else .ok (setPc s t (.mwPdRet c dl))
    | _ => .error "timed P not prescribed at this program point"
  | .semPdRet t k timedout =>
    match s.pc t with
    | .mwPdRet c dl =>
      if c.w ≠ some k then .error "timed P on a semaphore that is not the thread's own"
      else if !timedout then
        if (s.wr k).sem = 0 then .error "P returned although the semaphore count is 0"
        else .ok { setPc s t (.mwLd255 c) with
                    wr := setFn s.wr k { s.wr k with sem := if cfg.binary then 0 else (s.wr k).sem - 1 } }
      else
        match dl with
        | none => .error "timed P without deadline timed out"
        | some d =>
          if s.now < d then .error "timed P timed out before its deadline"
          else if dl = c.dl then .ok (setPc s t (.mwLd244 { c with so := .timedout }))
          else .ok (setPc s t (.mwNotify c))
    | _ => .error "timed P return not prescribed at this program point"
  | .semV t k =>
    match s.pc t with
    | .usWakeV r k' rest =>
      if k ≠ k' then .error "V on the wrong semaphore" else .ok (semPost cfg (afterFin s t r rest) k)
    | _ => .error "V not prescribed at this program point"
  | .envV k => .ok (semPost cfg s k)
  | .envSem k n =>
    if (s.wr k).owner = none then .ok { s with wr := setFn s.wr k { s.wr k with sem := n } }
    else .error "environment changed the semaphore of a waiter record in use on this mutex"
  | .dataW t x v =>
    if s.held t = some .W then .ok { s with data := setFn s.data x v }
    else .error "contract: client data written outside a write critical section"
  | .dataR _ x v =>
    if s.data x = v then .ok s else .error "client data read a value the model's data does not hold"
  | .tick n => if s.now ≤ n then .ok { s with now := n } else .error "the clock went backwards"
  | .noteSeen t =>
    match s.pc t with
    | .mwSem c => if c.note then .ok (setPc s t (.mwSem { c with saw := true })) else .error "no cancel note"
    | _ => .error "note observation outside nsync_sem_wait_with_cancel_"
  | .noteNotify t =>
    match s.pc t with
    | .mwNotify c => .ok (setPc s t (.mwLd244 { c with so := .cancelled, saw := true }))
    | .mwLd244 c =>
      if c.note ∧ c.so = .timedout then .ok (setPc s t (.mwLd244 { c with so := .cancelled, saw := true }))
      else .error "nsync_note_notify not prescribed at this program point"
    | _ => .error "nsync_note_notify not prescribed at this program point"

def run (cfg : Cfg) (s : State) : List Event → Except String State
  | [] => .ok s
  | e :: es =>
    match step cfg s e with
    | .ok s' => run cfg s' es
    | .error m => .error m

def Reachable (cfg : Cfg) (s : State) : Prop := ∃ evs, run cfg init evs = .ok s

end NsyncVerif.MuC
