/-
Layer L0 `Dll` (property C17): executable model of `/repo/internal/dll.c`.

Core Lean only.  The heap is a pair of total functions `next prev : Addr → Addr`
(plus the `container` field, which only `init` writes).  `Addr := Nat`, address `0` is `NULL`.
A list handle (`nsync_dll_list_`) is the address of the LAST element of a circular list,
`0` for the empty list.

Every function below mirrors one C function statement by statement; each `let H := H.setX a v`
is one C assignment `a->X = v`, and every read (`H.next a`) is evaluated in the heap that is
current at that statement, exactly as in C.

The model is total: address `0` is an ordinary cell of the model heap.  The C code has undefined
behaviour when it dereferences `NULL`; the theorems in `Props/C17.lean` carry the documented
contract as explicit hypotheses (inserted element is a ring disjoint from the list, removed
element is in the list, `0` is in no ring), under which no operation reads or writes cell `0`
(`removeDerefs` … below, `Proofs/DllDeref.lean`).
-/

namespace Dll

/-- Addresses; `0` is `NULL`. -/
abbrev Addr := Nat

/-- The three fields of every `nsync_dll_element_`, as total functions of the address. -/
structure Heap where
  next : Addr → Addr
  prev : Addr → Addr
  container : Addr → Nat

namespace Heap

/-- `a->next = v` -/
def setNext (H : Heap) (a v : Addr) : Heap :=
  { H with next := fun x => if x = a then v else H.next x }

/-- `a->prev = v` -/
def setPrev (H : Heap) (a v : Addr) : Heap :=
  { H with prev := fun x => if x = a then v else H.prev x }

/-- `a->container = c` -/
def setContainer (H : Heap) (a : Addr) (c : Nat) : Heap :=
  { H with container := fun x => if x = a then c else H.container x }

/-- A heap in which every field of every cell is `0` (used by the driver as "uninitialised"). -/
def zero : Heap := { next := fun _ => 0, prev := fun _ => 0, container := fun _ => 0 }

end Heap

/-- `nsync_dll_init_ (e, container)` -/
def init (H : Heap) (e : Addr) (container : Nat) : Heap :=
  let H := H.setNext e e            -- e->next = e;
  let H := H.setPrev e e            -- e->prev = e;
  let H := H.setContainer e container  -- e->container = container;
  H

/-- `nsync_dll_is_empty_ (list)` -/
def isEmpty (list : Addr) : Bool :=
  list == 0                         -- return (list == NULL);

/-- `nsync_dll_remove_ (list, e)`; returns the heap and the new list handle. -/
def remove (H : Heap) (list e : Addr) : Heap × Addr :=
  let list :=
    if list = e then                -- if (list == e) {
      if H.prev list = list then    --   if (list->prev == list) {
        0                           --     list = NULL;
      else                          --   } else {
        H.prev list                 --     list = list->prev; }
    else list                       -- }
  let H := H.setPrev (H.next e) (H.prev e)   -- e->next->prev = e->prev;
  let H := H.setNext (H.prev e) (H.next e)   -- e->prev->next = e->next;
  let H := H.setNext e e                     -- e->next = e;
  let H := H.setPrev e e                     -- e->prev = e;
  (H, list)                                  -- return (list);

/-- `nsync_dll_splice_after_ (p, n)` -/
def spliceAfter (H : Heap) (p n : Addr) : Heap :=
  let p_2nd := H.next p             -- nsync_dll_element_ *p_2nd = p->next;
  let n_last := H.prev n            -- nsync_dll_element_ *n_last = n->prev;
  let H := H.setNext p n            -- p->next = n;
  let H := H.setPrev n p            -- n->prev = p;
  let H := H.setNext n_last p_2nd   -- n_last->next = p_2nd;
  let H := H.setPrev p_2nd n_last   -- p_2nd->prev = n_last;
  H

/-- `nsync_dll_make_first_in_list_ (list, e)` -/
def makeFirst (H : Heap) (list e : Addr) : Heap × Addr :=
  if e ≠ 0 then                     -- if (e != NULL) {
    if list = 0 then                --   if (list == NULL) {
      (H, H.prev e)                 --     list = e->prev;
    else                            --   } else {
      (spliceAfter H list e, list)  --     nsync_dll_splice_after_ (list, e); }
  else                              -- }
    (H, list)                       -- return (list);

/-- `nsync_dll_make_last_in_list_ (list, e)`: calls `make_first (list, e->next)`, DISCARDS the
    returned handle, and returns `e`. -/
def makeLast (H : Heap) (list e : Addr) : Heap × Addr :=
  if e ≠ 0 then                                -- if (e != NULL) {
    let r := makeFirst H list (H.next e)       --   nsync_dll_make_first_in_list_ (list, e->next);
    (r.1, e)                                   --   list = e; }
  else
    (H, list)                                  -- return (list);

/-- `nsync_dll_first_ (list)` -/
def first (H : Heap) (list : Addr) : Addr :=
  if list ≠ 0 then H.next list else 0   -- first = NULL; if (list != NULL) first = list->next;

/-- `nsync_dll_last_ (list)` -/
def last (_H : Heap) (list : Addr) : Addr :=
  list                                  -- return (list);

/-- `nsync_dll_next_ (list, e)` -/
def next (H : Heap) (list e : Addr) : Addr :=
  if e ≠ list then H.next e else 0      -- next = NULL; if (e != list) next = e->next;

/-- `nsync_dll_prev_ (list, e)` (reads `list->next`: the caller must pass a non-empty list) -/
def prev (H : Heap) (list e : Addr) : Addr :=
  if e ≠ H.next list then H.prev e else 0   -- prev = NULL; if (e != list->next) prev = e->prev;

/-! ### Traversals, as client code writes them
`for (p = first (l); p != NULL; p = next (l, p))` and the backward dual.  `fuel` bounds the number
of iterations so that the functions are total on arbitrary (ill-formed) heaps. -/

/-- Walk forward from `e`. -/
def walkFwd (H : Heap) (list : Addr) : Nat → Addr → List Addr
  | 0, _ => []
  | fuel + 1, e => if e = 0 then [] else e :: walkFwd H list fuel (next H list e)

/-- Walk backward from `e`. -/
def walkBwd (H : Heap) (list : Addr) : Nat → Addr → List Addr
  | 0, _ => []
  | fuel + 1, e => if e = 0 then [] else e :: walkBwd H list fuel (prev H list e)

/-- `first`, `next`, `next`, … until `NULL` (at most `fuel` elements). -/
def toListFwd (H : Heap) (list : Addr) (fuel : Nat) : List Addr :=
  walkFwd H list fuel (first H list)

/-- `last`, `prev`, `prev`, … until `NULL` (at most `fuel` elements). -/
def toListBwd (H : Heap) (list : Addr) (fuel : Nat) : List Addr :=
  walkBwd H list fuel (last H list)

/-! ### Pointers dereferenced by each operation
The model heap is total (cell `0` exists), the C heap is not: `p->f` with `p == NULL` is undefined
behaviour.  For each function the list below names, in program order, every pointer the C code
dereferences (reads or writes a field through) when started in heap `H`.
`Proofs/DllDeref.lean` proves that under the documented contract none of them is `0`. -/

/-- `nsync_dll_remove_`: `list->prev` (only if `list == e`), then `e->next`, `e->next->prev`,
`e->prev`, `e->prev->next`, `e->next = …`, `e->prev = …`. -/
def removeDerefs (H : Heap) (list e : Addr) : List Addr :=
  (if list = e then [list] else []) ++ [e, H.next e, e, H.prev e, e, e]

/-- `nsync_dll_splice_after_`: `p->next`, `n->prev`, `p->next = …`, `n->prev = …`,
`n_last->next = …`, `p_2nd->prev = …`. -/
def spliceAfterDerefs (H : Heap) (p n : Addr) : List Addr :=
  [p, n, p, n, H.prev n, H.next p]

/-- `nsync_dll_make_first_in_list_`: `e->prev` if the list is empty, else the splice. -/
def makeFirstDerefs (H : Heap) (list e : Addr) : List Addr :=
  if e ≠ 0 then (if list = 0 then [e] else spliceAfterDerefs H list e) else []

/-- `nsync_dll_make_last_in_list_`: `e->next`, then `make_first (list, e->next)`. -/
def makeLastDerefs (H : Heap) (list e : Addr) : List Addr :=
  if e ≠ 0 then e :: makeFirstDerefs H list (H.next e) else []

/-- `nsync_dll_first_`: `list->next` if `list != NULL`. -/
def firstDerefs (list : Addr) : List Addr := if list ≠ 0 then [list] else []

/-- `nsync_dll_next_`: `e->next` if `e != list`. -/
def nextDerefs (list e : Addr) : List Addr := if e ≠ list then [e] else []

/-- `nsync_dll_prev_`: `list->next` always, `e->prev` if `e != list->next`. -/
def prevDerefs (H : Heap) (list e : Addr) : List Addr :=
  list :: (if e ≠ H.next list then [e] else [])

end Dll
