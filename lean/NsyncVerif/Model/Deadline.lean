import NsyncVerif.Model.Time
/-
  Deadline — what the timed entry points of nsync do with an arbitrary `abs_deadline`, as far as it is
  decided by pure computation on the deadline value (property C15).

  * `futexTimespec d` is the `struct timespec *` that `nsync_mu_semaphore_p_with_deadline`
    (platform/linux/src/nsync_semaphore_futex.c:96-117, FUTEX_WAIT_BITSET | FUTEX_CLOCK_REALTIME, i.e.
    absolute time) hands to the kernel: NULL for `nsync_time_no_deadline`, otherwise the deadline, with
    times before the epoch replaced by the epoch.
  * `kernelAccepts` is the futex(2) contract for an absolute timeout (trusted; re-validated against the
    running kernel by the real-platform probe on every run): NULL, or tv_sec ≥ 0 ∧ 0 ≤ tv_nsec < 10^9.
  * `classify d now ev` is the observable outcome class of a timed wait whose awaited event is absent
    (`ev = false`) or arrives well before any far-future deadline (`ev = true`).
  Core Lean only.
-/
namespace NsyncVerif.Deadline
open NsyncVerif.Time

def futexTimespec (d : Time) : Option (Int × Int) :=
  if cmp d noDeadline = 0 then none
  else if d.sec < 0 then some (0, 0)
  else some (d.sec, d.nsec)

def kernelAccepts : Option (Int × Int) → Bool
  | none => true
  | some (s, ns) => decide (0 ≤ s) && decide (0 ≤ ns) && decide (ns < 1000000000)

inductive Class | timeoutPrompt | timeoutAt | event
deriving DecidableEq, Repr

def Class.name : Class → String
  | .timeoutPrompt => "timeout_prompt"
  | .timeoutAt => "timeout_at"
  | .event => "event"

/-- Expected behaviour of every timed entry point. -/
def classify (d now : Time) (ev : Bool) : Class :=
  if cmp d now ≤ 0 then .timeoutPrompt      -- already expired: the timeout result, promptly
  else if ev then .event                     -- the event arrives long before the deadline
  else .timeoutAt                            -- times out, not before the deadline

/-- `nsync_wait_n` (wait.c:39) does not enqueue or sleep when nothing is ready and the deadline is not
    after time zero. -/
def waitNShortCircuits (d : Time) : Bool := decide (cmp d zero ≤ 0)

namespace Driver
structure DState where
  n : Nat := 0

def init : DState := {}

def step (st : DState) (line : String) : DState × String :=
  match line.trimAscii.toString.splitOn " " with
  | ["c15", _entry, s, ns, nows, nowns, ev, "=>", cls, _el] =>
    match s.toInt?, ns.toInt?, nows.toInt?, nowns.toInt? with
    | some s, some ns, some nows, some nowns =>
      let d : Time := ⟨s, ns⟩
      let now : Time := ⟨nows, nowns⟩
      let want := (classify d now (ev == "1")).name
      if !kernelAccepts (futexTimespec d) then ({ n := st.n + 1 }, s!"MISMATCH model: the timespec handed to the kernel is invalid")
      else if want == cls then ({ n := st.n + 1 }, "ok")
      else ({ n := st.n + 1 }, s!"MISMATCH model={want} impl={cls}")
    | _, _, _, _ => (st, "bad-op")
  | "c15" :: _entry :: _s :: _ns :: _nows :: _nowns :: _ev :: "=>" :: cls :: _ =>
    ({ n := st.n + 1 }, s!"MISMATCH model=<a result> impl={cls}")
  | "#" :: _ => (st, "#")
  | _ => (st, "bad-op")
end Driver
end NsyncVerif.Deadline
