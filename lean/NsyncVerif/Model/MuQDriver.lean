/-
  Layer `MuQ` (properties C02, C14, C13 mutex half): line protocol for the correspondence check.

  One log line in, one verdict out:
    `ok`               an event of a core operation on an in-scope mutex, accepted by `MuQ.step`
    `skip`             anything else: other layers' lines, waiter-pool traffic (`pool.mu`, everything
                       logged from nsync_waiter_new_/nsync_waiter_free_), mutexes embedded in other
                       objects (names with a dot), mutexes that are out of scope for the rest of
                       the execution, semaphore lines of threads that are not inside a core call
    `REJECT <reason>`  the C code modelled by `MuQ.step` cannot perform this event here
    `bad-op`           the line cannot be parsed
    `#`                `# begin …` : reset

  One `MuQ.State` per mutex name `mu<i>`.  A mutex becomes OUT OF SCOPE (all its lines `skip` until
  the next `# begin`) as soon as a non-core operation names it: any `call` other than the six core
  entry points with the mutex among its arguments (nsync_cv_wait_with_deadline,
  nsync_mu_wait_with_deadline, nsync_wait_n, nsync_mu_unlock_without_wakeup, debug and assert
  functions, …) or any nested `ncall` naming it.

  The log does not say which semaphore flavour the harness was configured with.  The driver
  therefore replays every line under BOTH configurations (`binary = false/true`) and drops a
  candidate when it rejects; a line is rejected when no candidate is left, i.e. when there is
  no flavour under which the whole execution so far is accepted.

  Semaphore `sem<k>` belongs to waiter record `w<k>`.  The driver keeps the count of every
  semaphore (per candidate).  Events on a semaphore are routed to the mutex of the core call the
  acting thread is in; a V by any other thread reaches every mutex on which that record is in
  use as `envV`; when a thread starts to use a record on a mutex (first `waiting := 1` store) the
  count the environment left behind is passed in as `envSem`.

  The site `<file>/<k>/<function>` of an `atm` line must name the function the model's program
  point lies in (`expectedFn`).

  Core Lean only.
-/
import NsyncVerif.Model.MuQ

namespace NsyncVerif.MuQ.Driver

structure Cand where
  cfg : Cfg
  mus : List (String × State)
  sems : List (Nat × Nat)

structure DState where
  cands : List Cand
  route : List (Nat × String)       -- tid ↦ in-scope mutex of the core call in progress
  oos : List String                 -- out-of-scope mutexes
  accepted : Nat

def init : DState :=
  { cands := [{ cfg := { binary := false }, mus := [], sems := [] },
              { cfg := { binary := true }, mus := [], sems := [] }],
    route := [], oos := [], accepted := 0 }

def dec? (s : String) : Option Nat :=
  if s.isEmpty then none
  else if s.toList.all Char.isDigit then s.toNat? else none

def parseIdx (pfx tok : String) : Option Nat :=
  if tok.startsWith pfx then dec? (tok.drop pfx.length).toString else none

/-- `mu3` (not `note1.mu`, not `mu`). -/
def isPlainMu (tok : String) : Bool := (parseIdx "mu" tok).isSome

def lookupMu (l : List (String × State)) (k : String) : State :=
  match l.find? (fun p => p.1 == k) with
  | some p => p.2
  | none => NsyncVerif.MuQ.init

def insertMu (l : List (String × State)) (k : String) (v : State) : List (String × State) :=
  (k, v) :: l.filter (fun p => p.1 != k)

def semCount (l : List (Nat × Nat)) (k : Nat) : Nat :=
  match l.find? (fun p => p.1 == k) with
  | some p => p.2
  | none => 0

def setSem (l : List (Nat × Nat)) (k n : Nat) : List (Nat × Nat) :=
  (k, n) :: l.filter (fun p => p.1 != k)

def parseOrd : String → Option Ord
  | "rlx" => some .rlx | "acq" => some .acq | "rel" => some .rel | "ar" => some .ar | _ => none

def parseApi : String → Option Api
  | "nsync_mu_lock" => some .lock | "nsync_mu_rlock" => some .rlock
  | "nsync_mu_trylock" => some .trylock | "nsync_mu_rtrylock" => some .rtrylock
  | "nsync_mu_unlock" => some .unlock | "nsync_mu_runlock" => some .runlock
  | _ => none

def parseLoc (mu : String) (loc : String) : Option Loc :=
  if loc == mu ++ ".word" then some .word
  else if loc.endsWith ".waiting" then (parseIdx "w" (loc.dropEnd 8).toString).map Loc.waiting
  else if loc.endsWith ".remove_count" then (parseIdx "w" (loc.dropEnd 13).toString).map Loc.rc
  else none

/-- The function of mu.c the program point lies in. -/
def expectedFn : PC → String
  | .idle => "-"
  | .lkCas0 .W | .lkLd .W | .lkCas1 .W _ | .lkRet .W => "nsync_mu_lock"
  | .lkCas0 .R | .lkLd .R | .lkCas1 .R _ | .lkRet .R => "nsync_mu_rlock"
  | .tryCas0 .W | .tryLd .W | .tryCas1 .W _ | .tryRet .W _ => "nsync_mu_trylock"
  | .tryCas0 .R | .tryLd .R | .tryCas1 .R _ | .tryRet .R _ => "nsync_mu_rtrylock"
  | .lsLd _ | .lsCasAcq _ _ | .lsCasEnq _ _ | .lsSt _ | .lsWaitLd _ | .lsPEnter _ | .lsPRet _ => "nsync_mu_lock_slow_"
  | .lsRelLd _ | .lsRelCas _ _ => "mu_release_spinlock"
  | .ulCas0 .W | .ulLd .W | .ulCas1 .W _ | .ulRet .W => "nsync_mu_unlock"
  | .ulCas0 .R | .ulLd .R | .ulCas1 .R _ | .ulRet .R => "nsync_mu_runlock"
  | .usLd _ | .usCasUnc _ _ | .usCasGrab _ _ | .usFinLd _ _ | .usFinCas _ _ _ | .usWakeSt _ _ _ | .usWakeV _ _ _ => "nsync_mu_unlock_slow_"
  | .usRcLd _ _ _ | .usRcCas _ _ _ _ => "nsync_remove_from_mu_queue_"

/-- Feed one model event for mutex `m` to one candidate. -/
def Cand.feed (c : Cand) (m : String) (e : Event) : Except String Cand :=
  match step c.cfg (lookupMu c.mus m) e with
  | .ok s' => .ok { c with mus := insertMu c.mus m s' }
  | .error msg => .error s!"{m}: {msg}"

/-- Before the first `waiting := 1` store of a thread on record `k`: pass the semaphore count. -/
def Cand.syncSem (c : Cand) (m : String) (k : Nat) : Except String Cand :=
  let s := lookupMu c.mus m
  if (s.wr k).owner = none ∧ (s.wr k).sem ≠ semCount c.sems k then c.feed m (.envSem k (semCount c.sems k))
  else .ok c

/-- A V on `sem<k>` by a thread that is not inside a core call on mutex `m`: every mutex (other
    than `skipMu`) on which the record is in use sees an `envV`. -/
def Cand.envV (c : Cand) (k : Nat) (skipMu : Option String) : Except String Cand :=
  c.mus.foldl (fun acc p =>
    match acc with
    | .error e => .error e
    | .ok c' =>
      if some p.1 == skipMu then .ok c'
      else if ((lookupMu c'.mus p.1).wr k).owner ≠ none then c'.feed p.1 (.envV k) else .ok c') (.ok c)

def Cand.semV (c : Cand) (k : Nat) : Cand :=
  { c with sems := setSem c.sems k (if c.cfg.binary then 1 else semCount c.sems k + 1) }

def Cand.semP (c : Cand) (k : Nat) : Except String Cand :=
  if semCount c.sems k = 0 then .error s!"sem{k}: P returned although the count is 0"
  else .ok { c with sems := setSem c.sems k (if c.cfg.binary then 0 else semCount c.sems k - 1) }

/-- Apply `f` to every candidate; keep the survivors. -/
def applyAll (d : DState) (f : Cand → Except String Cand) (counted : Bool) : DState × String :=
  let rs := d.cands.map f
  let ok := rs.filterMap (fun r => match r with | .ok c => some c | .error _ => none)
  match ok with
  | [] =>
    let msg := match rs with
      | (.error e) :: _ => e
      | _ => "no candidate configuration"
    (d, s!"REJECT MuQ {msg}")
  | _ => ({ d with cands := ok, accepted := if counted then d.accepted + 1 else d.accepted }, if counted then "ok" else "skip")

def routeOf (d : DState) (t : Nat) : Option String :=
  (d.route.find? (fun p => p.1 == t)).map (·.2)

def markOos (d : DState) (args : List String) : DState :=
  let ms := args.filter isPlainMu
  { d with oos := ms ++ d.oos, route := d.route.filter (fun p => !(ms.contains p.2)) }

def siteFn (site : String) : Option (String × String) :=
  match site.splitOn "/" with
  | [file, k, fn] => if (dec? k).isSome then some (file, fn) else none
  | _ => none

def pcOf (d : DState) (m : String) (t : Nat) : PC :=
  match d.cands with
  | c :: _ => (lookupMu c.mus m).pc t
  | [] => .idle

def step (d : DState) (line : String) : DState × String :=
  match line.trimAscii.toString.splitOn " " with
  | "#" :: "begin" :: _ => (init, "#")
  | tidS :: "call" :: api :: args =>
    match dec? tidS with
    | none => (d, "bad-op")
    | some t =>
      match parseApi api, args with
      | some a, [m] =>
        if !isPlainMu m || d.oos.contains m then (d, "skip")
        else
          let (d', out) := applyAll d (fun c => c.feed m (.call t a)) true
          if out == "ok" then ({ d' with route := (t, m) :: d'.route.filter (fun p => p.1 != t) }, out) else (d', out)
      | some _, _ => (d, "bad-op")
      | none, _ => (markOos d args, "skip")
  | _ :: "ncall" :: _ :: args => (markOos d args, "skip")
  | tidS :: "ret" :: api :: res :: _ =>
    match dec? tidS with
    | none => (d, "bad-op")
    | some t =>
      match parseApi api, routeOf d t with
      | some a, some m =>
        let r : Option (Option Bool) :=
          if res == "-" then some none else if res == "1" then some (some true)
          else if res == "0" then some (some false) else none
        match r with
        | none => (d, "bad-op")
        | some r =>
          let (d', out) := applyAll d (fun c => c.feed m (.ret t a r)) true
          ({ d' with route := d'.route.filter (fun p => p.1 != t) }, out)
      | _, _ => (d, "skip")
  | tidS :: "atm" :: site :: op :: ord :: loc :: exp :: new :: obs :: ok :: _ =>
    match dec? tidS, siteFn site, parseOrd ord with
    | some t, some (file, fn), some o =>
      if loc == "pool.mu" || fn == "nsync_waiter_new_" || fn == "nsync_waiter_free_" then (d, "skip")
      else
        -- which mutex?  a mutex word names it; waiter fields follow the thread's core call
        let mOpt : Option String :=
          if loc.endsWith ".word" then
            let name := (loc.dropEnd 5).toString
            if isPlainMu name then (if d.oos.contains name then none else some name) else none
          else if loc.endsWith ".waiting" || loc.endsWith ".remove_count" then routeOf d t
          else none
        match mOpt with
        | none => (d, "skip")
        | some m =>
          match parseLoc m loc with
          | none => (d, "bad-op")
          | some l =>
            if file != "mu.c" || fn != expectedFn (pcOf d m t) then
              (d, s!"REJECT MuQ {m}: atomic operation at site {site}, but the model's thread is in {expectedFn (pcOf d m t)}")
            else
            match op, exp, dec? new, dec? obs, ok with
            | "ld", "-", none, some v, "-" => if new == "-" then applyAll d (fun c => c.feed m (.ld t o l v)) true else (d, "bad-op")
            | "st", "-", some n, some v, "-" =>
              let pre : Cand → Except String Cand := fun c =>
                match l with
                | .waiting k => if n = 1 then c.syncSem m k else .ok c
                | _ => .ok c
              applyAll d (fun c => match pre c with | .ok c' => c'.feed m (.st t o l n v) | .error e => .error e) true
            | "cas", _, some n, some v, _ =>
              match dec? exp, ok with
              | some e, "1" => applyAll d (fun c => c.feed m (.cas t o l e n v true)) true
              | some e, "0" => applyAll d (fun c => c.feed m (.cas t o l e n v false)) true
              | _, _ => (d, "bad-op")
            | _, _, _, _, _ => (d, "bad-op")
    | _, _, _ => (d, "bad-op")
  | tidS :: "sem" :: kind :: sem :: rest =>
    match dec? tidS, parseIdx "sem" sem with
    | some t, some k =>
      let m := routeOf d t
      match kind with
      | "v" =>
        applyAll d (fun c =>
          let c1 := c.semV k
          match m with
          | some m => match c1.feed m (.semV t k) with
            | .ok c2 => c2.envV k (some m)
            | .error e => .error e
          | none => c1.envV k none) m.isSome
      | "p_enter" =>
        match m with
        | some m => applyAll d (fun c => c.feed m (.semPEnter t k)) true
        | none => (d, "skip")
      | "p_ret" =>
        applyAll d (fun c =>
          match c.semP k with
          | .error e => .error e
          | .ok c1 => match m with
            | some m => c1.feed m (.semPRet t k)
            | none => .ok c1) m.isSome
      | "pd_enter" =>
        match m with
        | some m => (d, s!"REJECT MuQ {m}: timed P inside a core operation")
        | none => (d, "skip")
      | "pd_ret" =>
        match m with
        | some m => (d, s!"REJECT MuQ {m}: timed P inside a core operation")
        | none => if rest == ["0"] then applyAll d (fun c => c.semP k) false else (d, "skip")
      | _ => (d, "bad-op")
    | some _, none => (d, "skip")     -- a semaphore that is not a waiter's (scenario `sem_p s<i>`)
    | none, _ => (d, "bad-op")
  | _ => (d, "skip")

end NsyncVerif.MuQ.Driver
