import NsyncVerif.Model.VC
/-
  The `vc` replay layer: runs the vector-clock machine of Model/VC.lean over EVERY atomic operation of a
  harness log (any location) and checks, on the real executions, the hand-offs that property C03 names:
    * data protected by a mutex: every `data r|w x<i>` access is ordered after the last conflicting one
      (race detector; only the declared orders create edges);
    * once: the end of the once-function happens before every nsync_run_once* return;
    * note: the call that set a note's `notified` flag happens before every observation of it as notified;
    * counter: the call whose CAS made the value zero happens before every nsync_counter_wait return of 0;
    * signal: the signal/broadcast call that unlinked a waiter happens before that waiter's return of 0.
  Semaphore, futex and scheduler events create no edges.
-/
namespace NsyncVerif.VC.Driver
open NsyncVerif.VC

structure DState where
  vcT : List (Nat × List (Nat × Nat)) := []        -- thread ↦ clock table (data, evaluated eagerly)
  relcT : List (String × List (Nat × Nat)) := []   -- location ↦ release clock table
  seen : List Nat := []                               -- threads that have started (fork edge from thread 99)
  callClock : List (Nat × Clock) := []
  callInfo : List (Nat × (String × List String)) := []
  lastWrite : List (String × (Nat × Clock)) := []
  reads : List (String × List (Nat × Clock)) := []
  fEnd : List (String × Clock) := []
  noteSet : List (String × Clock) := []
  ctrZero : List (String × Clock) := []
  wake : List (String × Clock) := []
  myRec : List (Nat × String) := []                   -- tid ↦ record used by its cv wait in progress
  nOps : Nat := 0
  nChecks : Nat := 0

def init : DState := {}

def lookupS {α : Type} (l : List (String × α)) (k : String) : Option α := (l.find? (fun p => p.1 == k)).map (·.2)
def lookupN {α : Type} (l : List (Nat × α)) (k : Nat) : Option α := (l.find? (fun p => p.1 == k)).map (·.2)
def setS {α : Type} (l : List (String × α)) (k : String) (v : α) : List (String × α) := (k, v) :: l.filter (fun p => p.1 != k)
def setN {α : Type} (l : List (Nat × α)) (k : Nat) (v : α) : List (Nat × α) := (k, v) :: l.filter (fun p => p.1 != k)

/-- decidable comparison of two clocks on the threads that matter (all threads seen so far + 99) -/
def leOn (ts : List Nat) (a b : Clock) : Bool := ts.all (fun i => a i ≤ b i)

/-- Clocks of the model are functions; the driver keeps them as tables (data) and rebuilds the model
    state around each step, so that no clock is ever a tower of closures. -/
def ofTable (tbl : List (Nat × Nat)) : Clock :=
  fun i => match tbl.find? (fun p => p.1 == i) with | some p => p.2 | none => 0

def toTable (ts : List Nat) (c : Clock) : List (Nat × Nat) := ts.map (fun t => (t, c t))

def initClock (t : Nat) : List (Nat × Nat) := [(t, 1)]

def parseOrd (s : String) : Ord := if s == "acq" then .acq else if s == "rel" then .rel else if s == "ar" then .ar else .rlx

def siteFn (site : String) : String := (site.splitOn "/").getLast?.getD ""

def threads (d : DState) : List Nat := 99 :: d.seen

def vcOf (d : DState) (t : Nat) : Clock :=
  match d.vcT.find? (fun p => p.1 == t) with | some p => ofTable p.2 | none => ofTable (initClock t)

/-- the model state the tables stand for -/
def model (d : DState) : St String :=
  { vc := fun t => vcOf d t,
    relc := fun l => match d.relcT.find? (fun p => p.1 == l) with | some p => ofTable p.2 | none => Clock.bot }

/-- first event of a thread: it was spawned after the set-up thread (99) finished -/
def touch (d : DState) (t : Nat) : DState :=
  if d.seen.contains t then d
  else
    let ts := t :: 99 :: d.seen
    { d with seen := t :: d.seen, vcT := (t, toTable ts (Clock.join (vcOf d t) (vcOf d 99))) :: d.vcT.filter (fun p => p.1 != t) }

def check (d : DState) (c : Option Clock) (t : Nat) (what : String) : DState × String :=
  match c with
  | none => (d, "ok")
  | some c =>
    if leOn (threads d) c (vcOf d t) then ({ d with nChecks := d.nChecks + 1 }, "ok")
    else (d, s!"REJECT vc: {what} is not ordered before thread {t}'s continuation under the declared memory orders")

def step (d0 : DState) (line : String) : DState × String :=
  match line.trimAscii.toString.splitOn " " with
  | "#" :: "begin" :: _ => (init, "#")
  | tidS :: rest =>
    match tidS.toNat? with
    | none => (d0, "skip")
    | some t =>
      let d := touch d0 t
      match rest with
      | "call" :: api :: args =>
          ({ d with callClock := setN d.callClock t (vcOf d t), callInfo := setN d.callInfo t (api, args) }, "ok")
      | ["ret", api, res] =>
          let info := lookupN d.callInfo t
          let arg0 := match info with | some (_, a :: _) => a | _ => ""
          if api.startsWith "nsync_run_once" then check d (lookupS d.fEnd arg0) t s!"the run of the once function of {arg0}"
          else if (api == "nsync_note_is_notified" || api == "nsync_note_wait") && res == "1" then
            check d (lookupS d.noteSet arg0) t s!"the notification of {arg0}"
          else if api == "nsync_counter_wait" && res == "0" then
            check d (lookupS d.ctrZero arg0) t s!"the decrement that zeroed {arg0}"
          else if api == "nsync_cv_wait_with_deadline" && res == "0" then
            match lookupN d.myRec t with
            | some r => check d (lookupS d.wake r) t s!"the signal/broadcast that woke record {r}"
            | none => (d, "ok")
          else (d, "ok")
      | ["cb", _, "end"] =>
          match lookupN d.callInfo t with
          | some (_, o :: _) => ({ d with fEnd := setS d.fEnd o (vcOf d t) }, "ok")
          | _ => (d, "ok")
      | ["plain", rw, x, _sz] =>
          -- a compiler-instrumented plain access of nsync's own code to a registered object (queue links,
          -- waiter fields, note tree fields, ...): same race rule as client data
          let lw := lookupS d.lastWrite x
          let rs := (lookupS d.reads x).getD []
          let ts := threads d
          let okW := match lw with | some (u, c) => u == t || leOn ts c (vcOf d t) | none => true
          if !okW then (d, s!"REJECT vc: race on nsync's own plain field {x}: access by thread {t} is not ordered after the last write")
          else if rw == "w" then
            if rs.all (fun (u, c) => u == t || leOn ts c (vcOf d t)) then
              ({ d with lastWrite := setS d.lastWrite x (t, vcOf d t), reads := setS d.reads x [], nChecks := d.nChecks + 1 }, "ok")
            else (d, s!"REJECT vc: race on nsync's own plain field {x}: write by thread {t} is not ordered after an earlier read")
          else ({ d with reads := setS d.reads x ((t, vcOf d t) :: rs.filter (fun p => p.1 != t)), nChecks := d.nChecks + 1 }, "ok")
      | ["data", rw, x, _v] =>
          let lw := lookupS d.lastWrite x
          let rs := (lookupS d.reads x).getD []
          let ts := threads d
          let okW := match lw with | some (u, c) => u == t || leOn ts c (vcOf d t) | none => true
          if !okW then (d, s!"REJECT vc: data race on {x}: access by thread {t} is not ordered after the last write")
          else if rw == "w" then
            if rs.all (fun (u, c) => u == t || leOn ts c (vcOf d t)) then
              ({ d with lastWrite := setS d.lastWrite x (t, vcOf d t), reads := setS d.reads x [], nChecks := d.nChecks + 1 }, "ok")
            else (d, s!"REJECT vc: data race on {x}: write by thread {t} is not ordered after an earlier read")
          else ({ d with reads := setS d.reads x ((t, vcOf d t) :: rs.filter (fun p => p.1 != t)), nChecks := d.nChecks + 1 }, "ok")
      | "atm" :: site :: op :: ordS :: loc :: _exp :: new :: _obs :: ok :: _ =>
          let ord := parseOrd ordS
          let fn := siteFn site
          let aop : Option (Op × Ord) :=
            if op == "ld" then some (.ld, ord) else if op == "st" then some (.st, ord)
            else if op == "cas" then (if ok == "1" then some (.rmw, ord) else some (.ld, .rlx)) else none
          match aop with
          | none => (d, "bad-op")
          | some (o, od) =>
            let cc := (lookupN d.callClock t).getD (vcOf d t)
            -- bookkeeping for the edge checks (before the machine step: clocks "at the call")
            let d := if o == .st && loc.endsWith ".notified" && new == "1" && (lookupS d.noteSet (loc.dropEnd 9).toString).isNone
                     then { d with noteSet := setS d.noteSet (loc.dropEnd 9).toString cc } else d
            let d := if o == .rmw && loc.endsWith ".value" && new == "0" then { d with ctrZero := setS d.ctrZero (loc.dropEnd 6).toString cc } else d
            let d := if o == .rmw && loc.endsWith ".remove_count" && (fn == "nsync_cv_signal" || fn == "nsync_cv_broadcast")
                     then { d with wake := setS d.wake (loc.dropEnd 13).toString cc } else d
            let d := if o == .st && loc.endsWith ".waiting" && new == "0" && fn == "wake_waiters" && (lookupS d.wake (loc.dropEnd 8).toString).isNone
                     then { d with wake := setS d.wake (loc.dropEnd 8).toString cc } else d
            let d := if o == .st && loc.endsWith ".waiting" && new == "1" && fn == "nsync_cv_wait_with_deadline_generic"
                     then { d with myRec := setN d.myRec t (loc.dropEnd 8).toString, wake := d.wake.filter (fun p => p.1 != (loc.dropEnd 8).toString) } else d
            let m' := NsyncVerif.VC.step (model d) { t := t, op := o, ord := od, loc := loc }
            let ts := threads d
            ({ d with vcT := (t, toTable ts (m'.vc t)) :: d.vcT.filter (fun p => p.1 != t),
                      relcT := (loc, toTable ts (m'.relc loc)) :: d.relcT.filter (fun p => p.1 != loc),
                      nOps := d.nOps + 1 }, "ok")
      | _ => (d, "skip")
  | _ => (d0, "skip")

end NsyncVerif.VC.Driver
