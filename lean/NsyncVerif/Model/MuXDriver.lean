import NsyncVerif.Model.MuX
/-
  Line protocol for the MuX acceptor: demultiplexes a harness event log by mutex name and
  replays every mutex's events through `MuX.step`.
-/
namespace NsyncVerif.MuX.Driver

structure DState where
  mus : List (String × State)          -- one acceptor state per mutex name
  route : List (Nat × String)          -- tid ↦ mutex of the API call in progress (for `ret` lines)
  cov : List (String × Nat)            -- transition coverage: key ↦ count

def init : DState := { mus := [], route := [], cov := [] }

def lookup (l : List (String × State)) (k : String) : State :=
  match l.find? (fun p => p.1 == k) with
  | some p => p.2
  | none => NsyncVerif.MuX.init

def insert (l : List (String × State)) (k : String) (v : State) : List (String × State) :=
  (k, v) :: l.filter (fun p => p.1 != k)

def bump (c : List (String × Nat)) (k : String) : List (String × Nat) :=
  match c.find? (fun p => p.1 == k) with
  | some p => (k, p.2 + 1) :: c.filter (fun q => q.1 != k)
  | none => (k, 1) :: c

/-- `mu3.word`, `note1.mu.word`, `ctr0.mu.word`, `oncesync5.mu.word` name mutex words. -/
def muOfLoc (loc : String) : Option String :=
  if loc.endsWith ".word" then
    let name := (loc.dropEnd 5).toString
    if name.endsWith ".mu" || (name.startsWith "mu" && !(name.contains '.')) then some name else none
  else none

def deltaKey (s : State) (new : Nat) : String :=
  let o := decode s.word
  let n := decode new
  let l := match lockDelta o n with
    | none => "illegal" | some .same => "same" | some .addW => "addW" | some .addR => "addR"
    | some .subW => "subW" | some .subR => "subR" | some .r2w => "r2w" | some .w2r => "w2r"
  let p := match spinDelta o n with | .same => "" | .set => "+spin" | .clear => "-spin"
  l ++ p

def feed (d : DState) (m : String) (e : Ev) (key : String) : DState × String :=
  let s := lookup d.mus m
  match step s e with
  | .ok s' => ({ d with mus := insert d.mus m s', cov := bump d.cov key }, "ok")
  | .error msg => (d, s!"REJECT MuX {m}: {msg}")

def callOf (api : String) (args : List String) : Option (String × Call) :=
  match api, args with
  | "nsync_mu_lock", m :: _ => some (m, .acq .W false)
  | "nsync_mu_rlock", m :: _ => some (m, .acq .R false)
  | "nsync_mu_trylock", m :: _ => some (m, .acq .W true)
  | "nsync_mu_rtrylock", m :: _ => some (m, .acq .R true)
  | "nsync_mu_unlock", m :: _ => some (m, .rel .W)
  | "nsync_mu_unlock_without_wakeup", m :: _ => some (m, .rel .W)
  | "nsync_mu_runlock", m :: _ => some (m, .rel .R)
  | "nsync_cv_wait_with_deadline", _ :: m :: _ => some (m, .wait)
  | "nsync_mu_wait_with_deadline", m :: _ => some (m, .wait)
  | "nsync_wait_n", m :: _ => if m == "-" then none else some (m, .wait)
  | "nsync_mu_debug_state", m :: _ => some (m, .observe)
  | "nsync_mu_debug_state_and_waiters", m :: _ => some (m, .observe)
  | _, _ => none

def isTracked (api : String) : Bool :=
  api ∈ ["nsync_mu_lock", "nsync_mu_rlock", "nsync_mu_trylock", "nsync_mu_rtrylock", "nsync_mu_unlock",
         "nsync_mu_unlock_without_wakeup", "nsync_mu_runlock", "nsync_cv_wait_with_deadline",
         "nsync_mu_wait_with_deadline", "nsync_wait_n", "nsync_mu_debug_state", "nsync_mu_debug_state_and_waiters"]

def step (d : DState) (line : String) : DState × String :=
  match line.trimAscii.toString.splitOn " " with
  | "#" :: "begin" :: _ => (init, "#")
  | tidS :: "call" :: api :: args =>
    match tidS.toNat?, callOf api args with
    | some t, some (m, c) =>
      let (d', out) := feed d m (.call t c) ("call:" ++ api)
      if out == "ok" then ({ d' with route := (t, m) :: d'.route.filter (fun p => p.1 != t) }, out) else (d', out)
    | _, _ => (d, "skip")
  | tidS :: "ret" :: api :: res :: _ =>
    match tidS.toNat? with
    | some t =>
      if isTracked api then
        match d.route.find? (fun p => p.1 == t) with
        | some (_, m) =>
          let okFlag := if api == "nsync_mu_trylock" || api == "nsync_mu_rtrylock" then res == "1" else true
          let (d', out) := feed d m (.ret t okFlag) ("ret:" ++ api)
          ({ d' with route := d'.route.filter (fun p => p.1 != t) }, out)
        | none => (d, "skip")
      else (d, "skip")
    | none => (d, "bad-op")
  | tidS :: "atm" :: _site :: op :: ordS :: loc :: exp :: new :: obs :: ok :: _ =>
    match muOfLoc loc, tidS.toNat? with
    | some m, some t =>
      let ord : Ord := if ordS == "acq" then .acq else if ordS == "rel" then .rel else if ordS == "ar" then .ar else .rlx
      match op with
      | "ld" => match obs.toNat? with
        | some v => feed d m (.ld t v) "ld"
        | none => (d, "bad-op")
      | "st" => match new.toNat? with
        | some v => feed d m (.st t v ord) ("st:" ++ deltaKey (lookup d.mus m) v)
        | none => (d, "bad-op")
      | "cas" => match exp.toNat?, new.toNat?, obs.toNat? with
        | some e, some n, some o =>
          if ok == "1" then
            if e == o then feed d m (.cas t e n ord) ("cas:" ++ deltaKey (lookup d.mus m) n)
            else (d, s!"REJECT MuX {m}: CAS reported success with obs ≠ exp")
          else feed d m (.casFail t e o) "casFail"
        | _, _, _ => (d, "bad-op")
      | _ => (d, "bad-op")
    | _, _ => (d, "skip")
  | tidS :: "lockann" :: kind :: m :: w :: _ =>
    match tidS.toNat? with
    | some t =>
      if m == "?" then (d, "skip") else
      let l : Mode := if w == "1" then .W else .R
      if kind == "acq" then feed d m (.annAcq t l) "annAcq" else feed d m (.annRel t l) "annRel"
    | none => (d, "bad-op")
  | _ => (d, "skip")

end NsyncVerif.MuX.Driver
