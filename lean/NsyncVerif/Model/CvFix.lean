/-
  Layer `CvFix` (property C04, cv parts of C05 and C13, for the REPAIRED cv.c): executable acceptor
  model of /repo/internal/cv.c with the patch /verif/fixes/F3/cv_fix.diff applied (all of it), the cv-related half of /repo/internal/sem_wait.c, and the way
  /repo/internal/wait.c drives `cv_enqueue` / `cv_ready_time` / `cv_dequeue`, for ONE condition
  variable.  One step = one atomic operation (on the cv word, on a record's `waiting` flag, on a
  record's `remove_count`, on the mutex word where cv.c itself touches it), one semaphore
  operation, one API boundary (`call`/`ret`, nested `ncall`/`nret`) or a clock tick.

  WHAT IS MODELLED EXACTLY
  * the cv word: bit 0 = CV_SPINLOCK, bit 1 = CV_NON_EMPTY; log values are compared exactly;
  * `pcv->waiters` as `queue : List Rid` (front to back).  The doubly linked list itself is the
    business of layer Dll (C17); list manipulations are not atomic operations and do not appear
    in the log.  Every one of them happens while the cv spinlock is held, so nobody can observe
    when exactly between two logged operations of the holder it happens.  The model performs it
    together with a neighbouring logged operation of the holder (stated at each place below);
  * records: `Rid.w k` = pooled `waiter` (flag NSYNC_WAITER_FLAG_MUCV; has `remove_count`,
    `l_type`), `Rid.nw k` / `Rid.nwa j i` = bare `struct nsync_waiter_s` of `nsync_wait_n` on the
    caller's stack / in its heap array (flags = 0, no remove_count);
  * the program counters follow cv.c statement by statement (see `Loc`);
  * `wake_waiters`: the decision to TRANSFER records to the mutex queue instead of waking them
    depends on the mutex word.  cv.c reads that word itself (ATM sites cv.c/0..4); the model takes
    the observed values from these events (`muLd`/`muCas`) and computes from them exactly what
    cv.c:61-135 computes.  The later wake-up of a transferred record comes from the mutex unlock
    path (mu.c stores `waiting := 0` and posts): accepted from any thread as a *foreign* access.
  * the mode of the waiter (`l_type`) is taken from the observed value of the load cv.c/7 (210).

  WHAT IS ABSTRACT (interfaces to other layers)
  * The mutex: the waiter's release (`ncall nsync_mu_unlock|runlock`, or the generic unlock
    callback) and re-acquisition (`ncall nsync_mu_lock|rlock`, the generic lock callback, or the
    direct call of `nsync_mu_lock_slow_` for a transferred waiter) are single marks
    (`relMark`, `lockMark`, `relockSlow`) followed by `nret`; everything the mutex code does in
    between is invisible here except its accesses to record fields (`fLd`/`fSt`/`fCas`) and to
    semaphores, which this layer must see to keep its copy of that memory exact.  Such *foreign*
    accesses (from mu.c, mu_wait.c, note.c, wait.c, common.c, or from cv.c working on ANOTHER
    condition variable) are accepted only on records that are not registered with this cv
    (`RStat.idle`) or that were transferred to the mutex (`RStat.xfer`), and only from threads that
    are not in the middle of cv.c code of this cv (`Loc.isOpen`).
  * The cancel note of a cancellable wait: the model records whether the waiting thread itself
    observed the note notified (`noteSeen`: a load of `note.notified` ≠ 0 or its own store of 1)
    and whether it called `nsync_note_notify` (`noteNotify`, sem_wait.c:65).
  * Semaphores are the harness' abstract semaphores: counting (`V`: count+1) or binary (`V`:
    count := 1), `Config.binary`.  `P` returns 0 only if the count is positive (and decrements);
    a timed `P` returns ETIMEDOUT only if its deadline has been reached (`d ≤ now`).

  WHAT THE REPAIR CHANGES (the only differences from `Model/Cv.lean`, the model of the pinned code)
  * `wake_waiters` (cv.c:139-152 of the patched file) copies `p_nw->sem` into a local BEFORE its
    `ATM_STORE_REL (&p_nw->waiting, 0)`; the V that follows does not touch the record any more
    (`touches … (.semV ..) = []`; the read of `sem` is part of the `wake` store's label).
  * `cv_dequeue`: after `ATM_LOAD_ACQ (&nw->waiting) != 0` [cv.c/32] the code walks `pcv->waiters`
    looking for `&nw->q` (plain accesses under the spinlock, no logged event: performed together
    with the load, label `r :: queue`).  Found: remove, `waiting := 0` [cv.c/33], `was_queued = 1`
    as before.  Not found: a waker has unlinked the record; nothing is removed, `being_woken = 1`
    (program point `nDeqRelW`), the spinlock is released [cv.c/34] and the code loops on
    `ATM_LOAD_ACQ (&nw->waiting)` [cv.c/35] (program point `nDeqSpin`) until it observes 0; then
    `cv_dequeue` returns 0 ("not still enqueued": the object is ready).
    The local `was_queued` is the frame field `wasQ`.
  * The ghost flag `f3` and the learned `sem` of nw records are gone (an nw instance is posted at
    most once; the semaphore identity of a pooled waiter is static).
  * Source positions: the `cv.c:NNN` line numbers in the comments below are those of the PINNED
    file (the patch shifts everything after line 139 down); the ordinals `cv.c/k` of the ATM_*
    macros are unchanged for k = 0..34 (the patch adds no macro before the end of cv_dequeue) and
    the new load of the wait loop is `cv.c/35`.

  OBSERVERS (property C16, cv half): /repo/internal/debug.c `emit_cv_state` called through
  `nsync_cv_debug_state` (blocking = 0, print_waiters = 0), `nsync_cv_debug_state_and_waiters`
  (1, 1) and `nsync_cv_debugger` (0, 1) — `DKind`.  Program points `dLd`, `dWalk`, `dRc`, `dRet`;
  the spinlock acquisition is the shared `nsync_spin_test_and_set_` loop (`spLd0`/`spLd2`/`spCas`
  with `cont = .dbg`, `set = clear = CV_SPINLOCK`).  The local `word` of emit_cv_state is the frame
  field `dWord` until the test-and-set overwrites it with its return value (the word just before
  the spinlock bit was set), which is the frame field `old`; the release store [debug.c/7] must
  write `old`.  `emit_waiters` under the spinlock walks `cv->waiters` front to back; for every
  element that is a pooled waiter it performs `ATM_LOAD (&nw->waiting)` [debug.c/0] and
  `ATM_LOAD (&w->remove_count)` [debug.c/1] (frame field `dIdx` = number of elements printed so
  far; the plain reads of the element's links, tag, flags, l_type, cond go with these two loads);
  the walk stops at the first bare `nsync_waiter_s` (DLL_WAITER of it is no `waiter`: tag
  mismatch) or when the output buffer is full; the remaining plain reads of the walk are performed
  together with the release store (label: the whole queue).
  NOT MODELLED: when print_waiters != 0 and the spinlock is NOT taken (CV_NON_EMPTY clear at the
  load, or nsync_cv_debugger finding the spinlock held) debug.c:255 still evaluates
  `emit_waiters (b, cv->waiters)` — WITHOUT the spinlock.  These are plain reads with no logged
  operation and no lock that would justify performing them together with a neighbouring event;
  they carry no label here (see Props/C16CvObserver.lean, "limits").  Any atomic load of
  emit_waiters by a thread that does not hold the spinlock is rejected.

  EXPLICIT LIMITS (rejected, never silently computed)
  * `remove_count` is a `Nat`; the increment `old → old+1` is required literally, so a log in
    which the 32-bit counter wraps is rejected (2^32 removals of one waiter struct).
  * Ghost flag `bad`: set by the two places where cv.c would operate on a list the record is not
    on *if* its own protocol failed (timeout path removing a record that is not queued; loop exit
    while still queued).  The invariant proves it stays `false`.

  Core Lean only.
-/

namespace NsyncVerif.CvFix

abbrev Tid := Nat
abbrev SemId := Nat

/-- Records. -/
inductive Rid where
  /-- pooled `waiter` `w<k>` -/
  | w (k : Nat)
  /-- stack `nsync_waiter_s` `nw<k>` of nsync_wait_n -/
  | nw (k : Nat)
  /-- heap array element `nwarr<j>_<i>` of nsync_wait_n -/
  | nwa (j i : Nat)
  deriving DecidableEq, Repr, Inhabited

/-- NSYNC_WAITER_FLAG_MUCV -/
def Rid.isMucv : Rid → Bool
  | .w _ => true
  | _ => false

/-- `w->l_type`: NULL (generic lock, cv_mu = NULL), reader, writer. -/
inductive LType where
  | gen | R | W
  deriving DecidableEq, Repr, Inhabited

/-- Result of a wait / of the semaphore wait. -/
inductive Outcome where
  | ok | timedOut | cancelled
  deriving DecidableEq, Repr, Inhabited

/-- Who unlinked an instance from the cv queue. -/
inductive Unl where
  | waker (t : Tid)
  | self
  deriving DecidableEq, Repr, Inhabited

/-- Where a record is, from this cv's point of view. -/
inductive RStat where
  /-- not registered with this cv; other code may use it -/
  | idle
  /-- cv wait: `waiting := 1` stored, not yet in the queue -/
  | prep
  /-- in `pcv->waiters` -/
  | queued
  /-- unlinked by waker `u`, on `u`'s private `to_wake_list`, not yet woken -/
  | listed (u : Tid)
  /-- moved to the mutex queue by wake_waiters (cv.c:80-114) -/
  | xfer
  /-- a waker of this cv stored `waiting := 0` -/
  | woken
  /-- removed by its owner (timeout/cancel path of the wait, or cv_dequeue) -/
  | selfOut
  deriving DecidableEq, Repr, Inhabited

/-- The record is on the cv queue, on a waker's list, or about to be enqueued. -/
def RStat.registered : RStat → Bool
  | .queued | .listed _ | .prep => true
  | _ => false

/-- The cv word. -/
structure Word where
  spin : Bool := false
  ne : Bool := false
  deriving DecidableEq, Repr, Inhabited

def Word.enc (w : Word) : Nat := (if w.spin then 1 else 0) + (if w.ne then 2 else 0)

def Word.dec? : Nat → Option Word
  | 0 => some ⟨false, false⟩
  | 1 => some ⟨true, false⟩
  | 2 => some ⟨false, true⟩
  | 3 => some ⟨true, true⟩
  | _ => none

def b2n (b : Bool) : Nat := if b then 1 else 0

structure Rec where
  /-- `nw.waiting` -/
  waiting : Bool := false
  /-- `remove_count` (mucv only) -/
  rc : Nat := 0
  /-- the thread whose wait uses the record -/
  owner : Tid := 0
  lt : LType := .gen
  stat : RStat := .idle
  /-- ghost: the enqueue has been published (spinlock released after the append) -/
  pub : Bool := false
  /-- ghost: global sequence number at publication -/
  enqSeq : Nat := 0
  /-- ghost: everybody who unlinked the current instance, in order -/
  unl : List Unl := []
  /-- ghost: the waker's V for the current instance has been performed -/
  posted : Bool := false
  /-- nw only: number of wait_n calls the owner had completed when the record was created -/
  epoch : Nat := 0
  deriving Repr, Inhabited

/-- The entry points of debug.c that print a condition variable (debug.c:273-298). -/
inductive DKind where
  /-- `nsync_cv_debug_state`: blocking = 0, print_waiters = 0 -/
  | state
  /-- `nsync_cv_debug_state_and_waiters`: blocking = 1, print_waiters = 1 -/
  | waiters
  /-- `nsync_cv_debugger`: blocking = 0, print_waiters = 1 -/
  | debugger
  deriving DecidableEq, Repr, Inhabited

def DKind.blocking : DKind → Bool
  | .waiters => true
  | _ => false

def DKind.printWaiters : DKind → Bool
  | .state => false
  | _ => true

/-- debug.c:246-247: does emit_cv_state take the spinlock, having loaded `word`? -/
def dbgAcquires (k : DKind) (word : Nat) : Bool :=
  decide (word / 2 % 2 = 1) && k.printWaiters && (k.blocking || decide (word % 2 = 0))

/-- Program points.  The name says which event is expected NEXT. -/
inductive Loc where
  | idle
  -- nsync_cv_wait_with_deadline_generic
  /-- cv.c:196 `ATM_STORE (&w->nw.waiting, 1)` [cv.c/6] (nsync_waiter_new_ traffic before it is foreign) -/
  | wNew
  /-- cv.c:210 `ATM_LOAD (&cv_mu->word)` [cv.c/7] -/
  | wMode
  /-- cv.c:230 `ATM_LOAD (&w->remove_count)` [cv.c/8]; spinlock held, record appended -/
  | wEnq
  /-- cv.c:232 `ATM_STORE_REL (&pcv->word, old_word|CV_NON_EMPTY)` [cv.c/9] -/
  | wRel
  /-- cv.c:235-239 release of the mutex: mark -/
  | wUnlock
  /-- inside the release of the mutex; `nret` next -/
  | wUnlocking
  /-- cv.c:244 `ATM_LOAD_ACQ (&w->nw.waiting)` [cv.c/10] -/
  | wHead
  /-- sem_wait.c:36 `sem pd_enter` (no note) -/
  | wSemEnter
  /-- … `sem pd_ret` -/
  | wSemRet
  /-- sem_wait.c:39-60 with a note, before the semaphore wait -/
  | cPre
  /-- sem_wait.c:61 inside the semaphore wait -/
  | cWait
  /-- sem_wait.c:63-75 after the semaphore wait -/
  | cPost
  /-- cv.c:249 `ATM_LOAD (&w->nw.waiting)` [cv.c/11] -/
  | wChk
  /-- cv.c:259 `ATM_LOAD (&w->nw.waiting)` [cv.c/12]; spinlock held -/
  | wChk2
  /-- cv.c:260 `ATM_LOAD (&w->remove_count)` [cv.c/13] -/
  | wCmp
  /-- cv.c:270 `ATM_LOAD (&w->remove_count)` [cv.c/14]; record removed from the queue -/
  | wRmLd
  /-- cv.c:271 `ATM_CAS (&w->remove_count, old, old+1)` [cv.c/15] -/
  | wRmCas
  /-- cv.c:275 `ATM_STORE_REL (&w->nw.waiting, 0)` [cv.c/16] -/
  | wClr
  /-- cv.c:279 `ATM_STORE_REL (&pcv->word, old_word)` [cv.c/17] -/
  | wRel2
  /-- cv.c:282 `ATM_LOAD (&w->nw.waiting)` [cv.c/18] -/
  | wTail
  /-- cv.c:292-305 loop left: re-acquisition mark next -/
  | wExit
  /-- inside `nsync_mu_lock`/`rlock`/generic lock; `nret` next -/
  | wLocking
  /-- inside `nsync_mu_lock_slow_` (transferred waiter); `ret` next -/
  | wRelocking
  /-- `ret` next -/
  | wRet
  -- nsync_spin_test_and_set_ on the cv word
  /-- common.c:105 first load [common.c/0] -/
  | spLd0
  /-- common.c:108 reload [common.c/2] -/
  | spLd2
  /-- common.c:106 `ATM_CAS_ACQ` [common.c/1] -/
  | spCas
  -- nsync_cv_signal / nsync_cv_broadcast
  /-- cv.c:316 / 400 `ATM_LOAD_ACQ (&pcv->word)` [cv.c/19, cv.c/25] -/
  | sLd
  /-- `ATM_LOAD (&…->remove_count)` [cv.c/20, 22, 26]; spinlock held, records unlinked -/
  | sRcLd
  /-- `ATM_CAS (&…->remove_count, old, old+1)` [cv.c/21, 23, 27] -/
  | sRcCas
  /-- cv.c:389 / 427 `ATM_STORE_REL (&pcv->word, …)` [cv.c/24, 28] -/
  | sRel
  -- wake_waiters
  /-- cv.c:61 `ATM_LOAD (&pmu->word)` [cv.c/0] -/
  | wwMuLd
  /-- cv.c:67 `ATM_CAS_ACQ (&pmu->word, …)` [cv.c/1] -/
  | wwMuCas
  /-- cv.c:130 `ATM_LOAD (&pmu->word)` [cv.c/2] -/
  | wwRelLd
  /-- cv.c:131 `ATM_CAS_REL (&pmu->word, …)` [cv.c/3] -/
  | wwRelCas
  /-- cv.c:133 `ATM_LOAD (&pmu->word)` [cv.c/4] -/
  | wwRelLd2
  /-- `ATM_STORE_REL (&p_nw->waiting, 0)` [cv.c/5]; `p_sem = p_nw->sem` has been read just before -/
  | wwStore
  /-- `nsync_mu_semaphore_v (p_sem)`: the record is not touched -/
  | wwV
  /-- signal/broadcast: `ret` next -/
  | kRet
  -- nsync_wait_n, as far as this cv is concerned
  /-- inside nsync_wait_n, outside cv_enqueue/cv_dequeue of this cv (cv_ready_time is one load) -/
  | nOut
  /-- spinlock taken by cv_enqueue or cv_dequeue: cv.c:465 [cv.c/30] or cv.c:476 [cv.c/32] next -/
  | nLocked
  /-- cv.c:467 `ATM_STORE_REL (&pcv->word, old_word | CV_NON_EMPTY)` [cv.c/31] -/
  | nEnqRel
  /-- cv.c:478 `ATM_STORE (&nw->waiting, 0)` [cv.c/33] -/
  | nDeqSt
  /-- cv_dequeue: `ATM_STORE_REL (&pcv->word, old_word)` [cv.c/34], `being_woken == 0` -/
  | nDeqRel
  /-- cv_dequeue: the same release [cv.c/34] with `being_woken == 1`: the record was not found in
      `pcv->waiters` although `waiting != 0` -/
  | nDeqRelW
  /-- cv_dequeue: `ATM_LOAD_ACQ (&nw->waiting)` [cv.c/35] of the loop that waits for the waker;
      spinlock released -/
  | nDeqSpin
  -- emit_cv_state (debug.c), entered through nsync_cv_debug_state[_and_waiters] / nsync_cv_debugger
  /-- debug.c:245 `ATM_LOAD (&cv->word)` [debug.c/6] -/
  | dLd
  /-- spinlock held by emit_cv_state: the next `ATM_LOAD (&nw->waiting)` [debug.c/0] of emit_waiters,
      or the release `ATM_STORE_REL (&cv->word, word)` [debug.c/7] -/
  | dWalk
  /-- emit_waiters: `ATM_LOAD (&w->remove_count)` [debug.c/1] of the element whose `waiting` was just
      loaded; spinlock held -/
  | dRc
  /-- emit_cv_state is done: `ret` next -/
  | dRet
  deriving DecidableEq, Repr, Inhabited

/-- The thread is executing code outside cv.c's handling of this cv: foreign accesses allowed. -/
def Loc.isOpen : Loc → Bool
  | .idle | .wNew | .wUnlocking | .wExit | .wLocking | .wRelocking | .cPre | .cWait | .cPost | .nOut => true
  | _ => false

/-- What follows the acquisition of the cv spinlock. -/
inductive Cont where
  /-- cv.c:228 enqueue of the wait -/
  | waitEnq
  /-- cv.c:252 timeout/cancel check of the wait -/
  | waitChk
  /-- cv.c:320 / 406 signal or broadcast -/
  | sig
  /-- cv.c:463 / 475 cv_enqueue or cv_dequeue -/
  | waitn
  /-- debug.c:248 emit_cv_state -/
  | dbg
  deriving DecidableEq, Repr, Inhabited

structure Thr where
  loc : Loc := .idle
  /-- the record the thread is working on (wait: its own; wait_n: current) -/
  r : Rid := .w 0
  /-- generic lock (`cv_mu == NULL`) -/
  gen : Bool := false
  /-- `abs_deadline` (`none` = nsync_time_no_deadline) -/
  dl : Option Nat := none
  /-- `cancel_note != NULL` -/
  note : Bool := false
  /-- local `remove_count` -/
  saved : Nat := 0
  /-- local `old_word`, kept up to date with the `&= ~CV_NON_EMPTY` / `|CV_NON_EMPTY` the code applies -/
  old : Word := {}
  /-- local `sem_outcome` -/
  semOut : Outcome := .ok
  /-- local `outcome` -/
  out : Outcome := .ok
  /-- the thread observed its cancel note notified during this call -/
  sawNote : Bool := false
  /-- deadline handed to the semaphore wait in progress -/
  semDl : Option Nat := none
  /-- sem_wait.c: the semaphore wait returned ETIMEDOUT -/
  cTimed : Bool := false
  /-- sem_wait.c:65 nsync_note_notify was called -/
  cNotified : Bool := false
  cont : Cont := .sig
  /-- `set` of nsync_spin_test_and_set_ includes CV_NON_EMPTY -/
  setNE : Bool := false
  /-- expected value of the pending CAS -/
  casExp : Nat := 0
  /-- the waiter was transferred to the mutex queue (`w->cv_mu == NULL`) -/
  xferd : Bool := false
  /-- broadcast (true) or signal (false) -/
  bcast : Bool := false
  /-- private `to_wake_list`, front first; head = next record to wake -/
  list : List Rid := []
  /-- mucv records whose `remove_count++` is still to be done -/
  todo : List Rid := []
  /-- the next `remove_count++` is the one at cv.c:331-335 (first waiter of a signal) -/
  firstRc : Bool := false
  /-- record between `waiting := 0` and V, with the sequence number of its instance -/
  cur : Option (Rid × Nat) := none
  allReaders : Bool := false
  /-- ghost: global sequence number at the first load of the cv word by signal/broadcast -/
  seq0 : Nat := 0
  /-- wake_waiters: `old_mu_word` -/
  muObs : Nat := 0
  /-- wake_waiters: `set_on_release` -/
  setOnRel : Nat := 0
  /-- wait_n: records of this call enqueued on this cv and not yet dequeued -/
  mine : List Rid := []
  /-- cv_dequeue: local `was_queued` -/
  wasQ : Bool := false
  /-- number of completed wait_n calls -/
  epoch : Nat := 0
  /-- ghost: the unlinkers of the wait's instance, frozen when the wait loop is left (the pooled
      record may be reused by another thread before this call returns) -/
  exitUnl : List Unl := []
  /-- debug call: which entry point -/
  dk : DKind := .state
  /-- emit_cv_state: the local `word` as loaded at debug.c:245 (the test-and-set overwrites it
      with its return value: `old`) -/
  dWord : Nat := 0
  /-- emit_waiters under the spinlock: number of queue elements printed so far -/
  dIdx : Nat := 0
  deriving Repr, Inhabited

/-- Sites of atomic operations on the cv word. -/
inductive WSite where
  | spin0 | spin2 | waitRel | waitRel2 | sigLd | sigRel | bcLd | bcRel | enqRel | deqRel
  /-- debug.c/6 and debug.c/7 (emit_cv_state) -/
  | dbgLd | dbgRel
  deriving DecidableEq, Repr

/-- Sites of atomic operations of cv.c on record fields. -/
inductive RSite where
  | wSt1 | wRc | wHead | wChk | wChk2 | wCmp | wRmLd | wRmCas | wClr | wTail
  /-- cv.c/20,21 (first = true) and cv.c/22,23 of signal; cv.c/26,27 of broadcast -/
  | sRcLd (first : Bool) | sRcCas (first : Bool) | bRcLd | bRcCas
  | wake | ready | enqSt | deqLd | deqSt
  /-- cv.c/35: the wait loop of the repaired cv_dequeue -/
  | deqSpin
  /-- debug.c/0 and debug.c/1 (emit_waiters called by emit_cv_state) -/
  | dbgW | dbgRc
  deriving DecidableEq, Repr

/-- Sites of atomic operations of cv.c on the mutex word. -/
inductive MSite where
  | wMode | wwLd | wwCas | wwRelLd | wwRelCas | wwRelLd2
  deriving DecidableEq, Repr

inductive Fld where
  | waiting | rc
  deriving DecidableEq, Repr

/-- How the mutex is released / re-acquired by the waiter. -/
inductive MuOp where
  /-- nsync_mu_unlock / nsync_mu_lock -/
  | wr
  /-- nsync_mu_runlock / nsync_mu_rlock -/
  | rd
  /-- generic callbacks -/
  | gen
  deriving DecidableEq, Repr

inductive Event where
  /-- `- tick <ns>` -/
  | tick (ns : Nat)
  /-- `<t> call nsync_cv_wait_with_deadline[_generic] cv mu <deadline> <note|->` -/
  | callWait (t : Tid) (gen : Bool) (dl : Option Nat) (note : Bool)
  /-- `<t> ret nsync_cv_wait_with_deadline <0|ETIMEDOUT|ECANCELED>` -/
  | retWait (t : Tid) (res : Outcome)
  | callSignal (t : Tid)
  | retSignal (t : Tid)
  | callBroadcast (t : Tid)
  | retBroadcast (t : Tid)
  /-- `<t> call nsync_wait_n …` -/
  | callWaitN (t : Tid)
  /-- `<t> ret nsync_wait_n <k>` -/
  | retWaitN (t : Tid)
  /-- the waiter starts releasing the mutex (`ncall nsync_mu_unlock|runlock`, generic unlock) -/
  | relMark (t : Tid) (op : MuOp)
  /-- the waiter starts re-acquiring the mutex (`ncall nsync_mu_lock|rlock`, generic lock) -/
  | lockMark (t : Tid) (op : MuOp)
  /-- first atomic operation of the direct call `nsync_mu_lock_slow_ (cv_mu, w, …)` (cv.c:295) -/
  | relockSlow (t : Tid)
  /-- `<t> nret …` ending the nested release / re-acquisition -/
  | nret (t : Tid)
  | wordLd (t : Tid) (site : WSite) (obs : Nat)
  /-- common.c/1 -/
  | wordCas (t : Tid) (exp new obs : Nat) (ok : Bool)
  | wordSt (t : Tid) (site : WSite) (new obs : Nat)
  | recLd (t : Tid) (site : RSite) (r : Rid) (obs : Nat)
  | recSt (t : Tid) (site : RSite) (r : Rid) (new obs : Nat)
  | recCas (t : Tid) (site : RSite) (r : Rid) (exp new obs : Nat) (ok : Bool)
  | muLd (t : Tid) (site : MSite) (obs : Nat)
  | muCas (t : Tid) (site : MSite) (exp new obs : Nat) (ok : Bool)
  | semPdEnter (t : Tid) (k : SemId) (dl : Option Nat)
  | semPdRet (t : Tid) (k : SemId) (timedOut : Bool)
  | semPEnter (t : Tid) (k : SemId)
  | semPRet (t : Tid) (k : SemId)
  | semV (t : Tid) (k : SemId)
  /-- common.c/5 `ATM_STORE (&w->remove_count, 0)` of a freshly allocated waiter -/
  | wInit (t : Tid) (r : Rid)
  /-- wait.c/0 `ATM_STORE (&nw[i].waiting, 0)` -/
  | nwInit (t : Tid) (r : Rid)
  /-- atomic load of a record field from code outside cv.c (or cv.c on another cv) -/
  | fLd (t : Tid) (r : Rid) (f : Fld) (obs : Nat)
  | fSt (t : Tid) (r : Rid) (f : Fld) (new : Nat)
  | fCas (t : Tid) (r : Rid) (f : Fld) (exp new obs : Nat) (ok : Bool)
  /-- the waiting thread observed its cancel note notified -/
  | noteSeen (t : Tid)
  /-- the waiting thread calls nsync_note_notify on its cancel note (sem_wait.c:65) -/
  | noteNotify (t : Tid)
  /-- `<t> call nsync_cv_debug_state|nsync_cv_debug_state_and_waiters|nsync_cv_debugger cv …` -/
  | callDebug (t : Tid) (k : DKind)
  /-- `<t> ret nsync_cv_debug_state|… -` -/
  | retDebug (t : Tid) (k : DKind)
  /-- anything else -/
  | skip
  deriving DecidableEq, Repr

def Event.tid : Event → Option Tid
  | .tick _ | .skip => none
  | .callWait t .. | .retWait t _ | .callSignal t | .retSignal t | .callBroadcast t
  | .retBroadcast t | .callWaitN t | .retWaitN t | .relMark t _ | .lockMark t _ | .relockSlow t
  | .nret t | .wordLd t .. | .wordCas t .. | .wordSt t .. | .recLd t .. | .recSt t .. | .recCas t ..
  | .muLd t .. | .muCas t .. | .semPdEnter t .. | .semPdRet t .. | .semPEnter t _ | .semPRet t _
  | .semV t _ | .wInit t _ | .nwInit t _ | .fLd t .. | .fSt t .. | .fCas t .. | .noteSeen t
  | .noteNotify t | .callDebug t _ | .retDebug t _ => some t

structure Config where
  /-- binary semaphores (`V`: count := 1) instead of counting ones -/
  binary : Bool

structure State where
  word : Word := {}
  /-- ghost: holder of the cv spinlock -/
  holder : Option Tid := none
  queue : List Rid := []
  recs : Rid → Rec := fun _ => {}
  thr : Tid → Thr := fun _ => {}
  sem : SemId → Nat := fun _ => 0
  now : Nat := 0
  /-- ghost: number of published enqueues so far -/
  seq : Nat := 0
  /-- ghost: cv.c operated on a list the record was not on (proved impossible) -/
  bad : Bool := false

def init : State := {}

def updT (f : Tid → Thr) (a : Tid) (b : Thr) : Tid → Thr := fun x => if x = a then b else f x
def updR (f : Rid → Rec) (a : Rid) (b : Rec) : Rid → Rec := fun x => if x = a then b else f x
def updS (f : SemId → Nat) (a : SemId) (b : Nat) : SemId → Nat := fun x => if x = a then b else f x

def State.setThr (s : State) (t : Tid) (x : Thr) : State := { s with thr := updT s.thr t x }
def State.setRec (s : State) (r : Rid) (x : Rec) : State := { s with recs := updR s.recs r x }
def State.setLoc (s : State) (t : Tid) (l : Loc) : State := s.setThr t { s.thr t with loc := l }

def need (c : Prop) [Decidable c] (msg : String) (k : Except String State) : Except String State :=
  if c then k else .error msg

/-- `abs_deadline a ≤ abs_deadline b` (`none` = no deadline = +∞). -/
def dlLe : Option Nat → Option Nat → Bool
  | _, none => true
  | none, some _ => false
  | some a, some b => decide (a ≤ b)

/-- The semaphore of a record as far as the model knows it: a pooled waiter `w<k>` owns `sem<k>`;
    an nw record points to the semaphore of the pooled waiter of its owner's call (not tracked). -/
def semOf : Rid → Option SemId
  | .w k => some k
  | _ => none

def vCount (cfg : Config) (n : Nat) : Nat := if cfg.binary then 1 else n + 1

/-! ### selection of the records to wake -/

/-- reader-mode record of an nsync_mu (cv.c:338-339, 361-362, 414-415) -/
def isReader (recs : Rid → Rec) (r : Rid) : Bool := r.isMucv && decide ((recs r).lt = .R)

/-- cv.c:356-382: every reader, and the first non-reader. -/
def pickReaders (recs : Rid → Rec) : List Rid → Bool → List Rid
  | [], _ => []
  | p :: ps, wokeWriter =>
    if isReader recs p then p :: pickReaders recs ps wokeWriter
    else if wokeWriter then pickReaders recs ps wokeWriter
    else p :: pickReaders recs ps true

/-- cv.c:322-383: the records nsync_cv_signal unlinks, in queue order. -/
def sigSelect (recs : Rid → Rec) : List Rid → List Rid
  | [] => []
  | f :: rest => if isReader recs f then f :: pickReaders recs rest false else [f]

/-! ### wake_waiters: the transfer decision (cv.c:49-121) -/

def MU_WLOCK : Nat := 1
def MU_SPINLOCK : Nat := 2
def MU_WAITING : Nat := 4
def MU_WRITER_WAITING : Nat := 0x20
def MU_LONG_WAIT : Nat := 0x40
def MU_ALL_FALSE : Nat := 0x80
def MU_RLOCK_FIELD : Nat := 0xffffff00
def MU_ANY_LOCK : Nat := 0xffffff01
def MASK32 : Nat := 0xffffffff

def zeroToAcquire : LType → Nat
  | .W => MU_ANY_LOCK ||| MU_LONG_WAIT
  | .R => MU_WLOCK ||| MU_WRITER_WAITING ||| MU_LONG_WAIT
  | .gen => 0

/-- `first_cant_acquire` -/
def firstCantAcquire (lt : LType) (muWord : Nat) : Bool := (muWord &&& zeroToAcquire lt) != 0

/-- cv.c:64-66: the conditions under which the CAS of cv.c:67 is attempted -/
def wantTransfer (lt : LType) (muWord : Nat) (listLen : Nat) (allReaders : Bool) : Bool :=
  (muWord &&& MU_ANY_LOCK) != 0 && (muWord &&& MU_SPINLOCK) == 0 &&
  (firstCantAcquire lt muWord || (decide (2 ≤ listLen) && !allReaders))

/-- cv.c:78-121: is the element transferred?  `isFirst`: it is the first of the list. -/
def transferred (recs : Rid → Rec) (fca firstW : Bool) (isFirst : Bool) (p : Rid) : Bool :=
  if isFirst then fca
  else p.isMucv && (fca || firstW || decide ((recs p).lt = .W))

def transferSet (recs : Rid → Rec) (fca : Bool) : List Rid → List Rid
  | [] => []
  | f :: rest =>
    let firstW := decide ((recs f).lt = .W)
    (if fca then [f] else []) ++ rest.filter (transferred recs fca firstW false)

/-- cv.c:125-127 `set_on_release` -/
def setOnRelease (recs : Rid → Rec) (fca : Bool) (l : List Rid) : Nat :=
  match l with
  | [] => 0
  | f :: rest =>
    let firstW := decide ((recs f).lt = .W)
    let xs := transferSet recs fca l
    let transferredWriter := xs.any (fun p => decide ((recs p).lt = .W))
    let wokeReader := (!fca && !firstW) ||
      rest.any (fun p => p.isMucv && !(transferred recs fca firstW false p))
    if transferredWriter && !wokeReader then MU_WRITER_WAITING else 0

/-! ### the acceptor -/

/-- A fresh frame for a new API call; `epoch` is kept. -/
def Thr.fresh (x : Thr) (l : Loc) : Thr := { loc := l, epoch := x.epoch }

/-- Where wake_waiters starts: cv.c:45-49 looks at the first record. -/
def wakeEntry (s : State) (l : List Rid) : Loc :=
  match l with
  | [] => .kRet
  | f :: _ => if f.isMucv && (s.recs f).lt != .gen then .wwMuLd else .wwStore

/-- The continuation after the cv spinlock has been acquired (CAS succeeded).  `s` already has the
    new word and holder; `x` is the thread's frame with `old` = the pre-CAS word. -/
def afterAcquire (s : State) (t : Tid) (x : Thr) : State :=
  match x.cont with
  | .waitEnq =>
    -- cv.c:229 make_last_in_list: performed here (spinlock just taken)
    let r := x.r
    let s1 := { s with queue := s.queue ++ [r] }
    let s2 := s1.setRec r { s.recs r with stat := .queued }
    s2.setThr t { x with loc := .wEnq, old := { spin := false, ne := true } }
  | .waitChk => s.setThr t { x with loc := .wChk2 }
  | .waitn => s.setThr t { x with loc := .nLocked }
  | .dbg => s.setThr t { x with loc := .dWalk }   -- debug.c:248-249, `acquired = 1`
  | .sig =>
    -- cv.c:322-383 / 411-425: all unlinking is performed here (spinlock just taken)
    let sel := if x.bcast then s.queue else sigSelect s.recs s.queue
    let q' := s.queue.filter (fun r => !(sel.contains r))
    let recs' : Rid → Rec := fun r =>
      if sel.contains r then { s.recs r with stat := .listed t, unl := (s.recs r).unl ++ [Unl.waker t] }
      else s.recs r
    let old' : Word :=
      if x.bcast then { spin := false, ne := false }
      else if !s.queue.isEmpty && q'.isEmpty then { x.old with ne := false } else x.old
    let todo := sel.filter Rid.isMucv
    let x' := { x with list := sel, todo := todo, firstRc := true, old := old',
                       allReaders := sel.all (isReader s.recs),
                       loc := if todo.isEmpty then .sRel else .sRcLd }
    { s with queue := q', recs := recs', thr := updT s.thr t x' }

/-- sem_wait.c with a note: settle `sem_outcome` when control returns to cv.c. -/
def settleCancel (x : Thr) : Except String Thr :=
  match x.loc with
  | .cPre =>
    -- sem_wait.c:40-41 or 50: the note was already notified, no semaphore wait
    if x.sawNote then .ok { x with semOut := .cancelled, loc := .wChk }
    else .error "sem_wait_with_cancel: ECANCELED without the note having been observed notified"
  | .cPost =>
    if !x.cTimed then .ok { x with semOut := .ok, loc := .wTail }
    else if x.cNotified then
      if x.sawNote then .ok { x with semOut := .cancelled, loc := .wChk }
      else .error "sem_wait_with_cancel: ECANCELED without the note having been observed notified"
    else
      -- ETIMEDOUT stays ETIMEDOUT only if `deadline_is_nearer`: the semaphore waited for abs_deadline
      if x.semDl = x.dl then .ok { x with semOut := .timedOut, loc := .wChk }
      else .error "sem_wait_with_cancel: ETIMEDOUT although the note's deadline was nearer"
  | _ => .ok x

def stepCall (s : State) (t : Tid) (x : Thr) : Except String State :=
  need ((s.thr t).loc = .idle) "call: thread is already inside a call on this cv" <|
  .ok (s.setThr t x)

def stepRet (s : State) (t : Tid) (ok : Bool) (msg : String) : Except String State :=
  need (ok = true) msg <|
  .ok (s.setThr t ((s.thr t).fresh .idle))

def stepWordLd (s : State) (t : Tid) (site : WSite) (obs : Nat) : Except String State :=
  let x := s.thr t
  need (obs = s.word.enc) "ld cv word: observed value differs from the model" <|
  match site, x.loc with
  | .spin0, .spLd0 | .spin2, .spLd2 =>
    .ok (s.setThr t (if obs % 2 = 1 then { x with loc := .spLd2 } else { x with loc := .spCas, casExp := obs }))
  | .spin0, .nOut =>
    -- cv_enqueue / cv_dequeue start with nsync_spin_test_and_set_ (cv.c:463, 475)
    .ok (s.setThr t (if obs % 2 = 1 then { x with loc := .spLd2, cont := .waitn, setNE := false }
                     else { x with loc := .spCas, casExp := obs, cont := .waitn, setNE := false }))
  | .sigLd, .sLd | .bcLd, .sLd =>
    need (x.bcast = (site == .bcLd)) "ld cv word: signal/broadcast site mismatch" <|
    .ok (s.setThr t (if obs / 2 % 2 = 1 then { x with loc := .spLd0, cont := .sig, setNE := false, seq0 := s.seq }
                     else { x with loc := .kRet, seq0 := s.seq }))
  | .dbgLd, .dLd =>
    -- debug.c:245-250
    .ok (s.setThr t (if dbgAcquires x.dk obs = true
                     then { x with dWord := obs, dIdx := 0, loc := .spLd0, cont := .dbg, setNE := false }
                     else { x with dWord := obs, loc := .dRet }))
  | _, _ => .error "ld cv word: not expected here"

def stepWordCas (s : State) (t : Tid) (exp new obs : Nat) (ok : Bool) : Except String State :=
  let x := s.thr t
  need (x.loc = .spCas) "cas cv word: not expected here" <|
  need (exp = x.casExp) "cas cv word: expected value is not the value loaded" <|
  need (new = exp + 1 + (if x.setNE ∧ exp / 2 % 2 = 0 then 2 else 0)) "cas cv word: new value is not (old | set)" <|
  need (obs = s.word.enc) "cas cv word: observed value differs from the model" <|
  need (ok = decide (obs = exp)) "cas cv word: ok flag inconsistent" <|
  if ok then
    match Word.dec? exp, Word.dec? new with
    | some o, some n =>
      .ok (afterAcquire { s with word := n, holder := some t } t { x with old := o })
    | _, _ => .error "cas cv word: value out of range"
  else .ok (s.setThr t { x with loc := .spLd2 })

/-- Release of the spinlock by a store of `new`. -/
def release (s : State) (t : Tid) (new obs : Nat) (k : State → Except String State) : Except String State :=
  need (s.holder = some t) "st cv word: spinlock not held by this thread" <|
  need (obs = s.word.enc) "st cv word: previous value differs from the model" <|
  match Word.dec? new with
  | some n => need (n.spin = false) "st cv word: spinlock bit stored" <| k { s with word := n, holder := none }
  | none => .error "st cv word: value out of range"

def stepWordSt (s : State) (t : Tid) (site : WSite) (new obs : Nat) : Except String State :=
  let x := s.thr t
  match site, x.loc with
  | .waitRel, .wRel =>
    need (new = x.old.enc) "st cv word: wait must store old_word|CV_NON_EMPTY" <|
    release s t new obs fun s1 =>
      .ok ({ s1 with seq := s.seq + 1 }.setRec x.r { s.recs x.r with pub := true, enqSeq := s.seq }
            |>.setThr t { x with loc := .wUnlock })
  | .waitRel2, .wRel2 =>
    need (new = x.old.enc) "st cv word: wait must store old_word" <|
    release s t new obs fun s1 => .ok (s1.setThr t { x with loc := .wTail })
  | .sigRel, .sRel | .bcRel, .sRel =>
    need (x.bcast = (site == .bcRel)) "st cv word: signal/broadcast site mismatch" <|
    need (new = if x.bcast then 0 else x.old.enc) "st cv word: wrong value released" <|
    release s t new obs fun s1 => .ok (s1.setThr t { x with loc := wakeEntry s x.list })
  | .enqRel, .nEnqRel =>
    need (new = x.old.enc) "st cv word: cv_enqueue must store old_word|CV_NON_EMPTY" <|
    release s t new obs fun s1 =>
      .ok ({ s1 with seq := s.seq + 1 }.setRec x.r { s.recs x.r with pub := true, enqSeq := s.seq }
            |>.setThr t { x with loc := .nOut })
  | .deqRel, .nDeqRel =>
    need (new = x.old.enc) "st cv word: cv_dequeue must store old_word" <|
    release s t new obs fun s1 =>
      let rc := s.recs x.r
      -- cv_dequeue returns `was_queued`; the record leaves this cv (a record on a waker's list
      -- stays there: the invariant shows that this does not happen)
      let st' := match rc.stat with | .listed u => RStat.listed u | _ => RStat.idle
      .ok (s1.setRec x.r { rc with stat := st' } |>.setThr t { x with loc := .nOut, mine := x.mine.erase x.r })
  | .deqRel, .nDeqRelW =>
    need (new = x.old.enc) "st cv word: cv_dequeue must store old_word" <|
    release s t new obs fun s1 => .ok (s1.setThr t { x with loc := .nDeqSpin })
  | .dbgRel, .dWalk =>
    -- debug.c:257-259: `word` is what nsync_spin_test_and_set_ returned
    need (new = x.old.enc) "st cv word: emit_cv_state must store the word returned by nsync_spin_test_and_set_" <|
    release s t new obs fun s1 => .ok (s1.setThr t { x with loc := .dRet })
  | _, _ => .error "st cv word: not expected here"

/-- Loads of record fields by cv.c. -/
def stepRecLd (s : State) (t : Tid) (site : RSite) (r : Rid) (obs : Nat) : Except String State :=
  match settleCancel (s.thr t) with
  | .error m => .error m
  | .ok x =>
  let rc := s.recs r
  match site, x.loc with
  | .wRc, .wEnq =>
    need (r = x.r) "ld remove_count: not the waiter's record" <|
    need (obs = rc.rc) "ld remove_count: observed value differs from the model" <|
    .ok (s.setThr t { x with saved := obs, loc := .wRel })
  | .wHead, .wHead =>
    need (r = x.r) "ld waiting: not the waiter's record" <|
    need (obs = b2n rc.waiting) "ld waiting: observed value differs from the model" <|
    if obs = 0 then
      -- loop left: the instance is over
      .ok ({ s with bad := s.bad || rc.stat.registered }.setRec r { rc with stat := .idle }
            |>.setThr t { x with loc := .wExit, xferd := decide (rc.stat = RStat.xfer), exitUnl := rc.unl })
    else if x.semOut = .ok then
      .ok (s.setThr t { x with loc := if x.note then .cPre else .wSemEnter, cTimed := false, cNotified := false })
    else .ok (s.setThr t { x with loc := .wChk })
  | .wChk, .wChk =>
    need (r = x.r) "ld waiting: not the waiter's record" <|
    need (obs = b2n rc.waiting) "ld waiting: observed value differs from the model" <|
    need (x.semOut ≠ .ok) "ld waiting (cv.c:249): sem_outcome is 0" <|
    if obs = 0 then .ok (s.setThr t { x with loc := .wTail })
    else .ok (s.setThr t { x with loc := .spLd0, cont := .waitChk, setNE := false })
  | .wChk2, .wChk2 =>
    need (r = x.r) "ld waiting: not the waiter's record" <|
    need (obs = b2n rc.waiting) "ld waiting: observed value differs from the model" <|
    .ok (s.setThr t { x with loc := if obs = 0 then .wRel2 else .wCmp })
  | .wCmp, .wCmp =>
    need (r = x.r) "ld remove_count: not the waiter's record" <|
    need (obs = rc.rc) "ld remove_count: observed value differs from the model" <|
    if obs = x.saved then
      -- cv.c:266-268 still in the cv queue (so the code believes): remove, performed here
      let q' := s.queue.erase r
      let old' : Word := if q'.isEmpty then { x.old with ne := false } else x.old
      .ok ({ s with queue := q', bad := s.bad || decide (rc.stat ≠ RStat.queued) }.setRec r
              { rc with stat := .selfOut, unl := rc.unl ++ [Unl.self] }
            |>.setThr t { x with loc := .wRmLd, old := old' })
    else .ok (s.setThr t { x with loc := .wRel2 })
  | .wRmLd, .wRmLd =>
    need (r = x.r) "ld remove_count: not the waiter's record" <|
    need (obs = rc.rc) "ld remove_count: observed value differs from the model" <|
    .ok (s.setThr t { x with casExp := obs, loc := .wRmCas })
  | .wTail, .wTail =>
    need (r = x.r) "ld waiting: not the waiter's record" <|
    need (obs = b2n rc.waiting) "ld waiting: observed value differs from the model" <|
    .ok (s.setThr t { x with loc := .wHead })
  | .sRcLd first, .sRcLd =>
    need (x.bcast = false ∧ first = x.firstRc) "ld remove_count: wrong site of signal" <|
    need (x.todo.head? = some r) "ld remove_count: not the next record unlinked by signal" <|
    need (obs = rc.rc) "ld remove_count: observed value differs from the model" <|
    .ok (s.setThr t { x with casExp := obs, loc := .sRcCas })
  | .bRcLd, .sRcLd =>
    need (x.bcast = true) "ld remove_count: wrong site of broadcast" <|
    need (x.todo.head? = some r) "ld remove_count: not the next record unlinked by broadcast" <|
    need (obs = rc.rc) "ld remove_count: observed value differs from the model" <|
    .ok (s.setThr t { x with casExp := obs, loc := .sRcCas })
  | .ready, .nOut =>
    -- cv_ready_time (cv.c:456)
    need (r ∈ x.mine) "cv_ready_time: record is not enqueued by this call" <|
    need (obs = b2n rc.waiting) "ld waiting: observed value differs from the model" <|
    .ok s
  | .deqLd, .nLocked =>
    -- cv_dequeue (cv.c:476-483)
    need (r ∈ x.mine) "cv_dequeue: record is not enqueued by this call" <|
    need (obs = b2n rc.waiting) "ld waiting: observed value differs from the model" <|
    if obs = 0 then
      let old' : Word := if s.queue.isEmpty then { x.old with ne := false } else x.old
      .ok (s.setThr t { x with r := r, old := old', wasQ := false, loc := .nDeqRel })
    else if r ∈ s.queue then
      -- the walk over `pcv->waiters` finds `&nw->q`: remove, performed here
      let q' := s.queue.erase r
      let old' : Word := if q'.isEmpty then { x.old with ne := false } else x.old
      .ok ({ s with queue := q' }.setRec r { rc with stat := .selfOut, unl := rc.unl ++ [Unl.self] }
            |>.setThr t { x with r := r, old := old', wasQ := true, loc := .nDeqSt })
    else
      -- not in the queue although `waiting != 0`: a waker has unlinked the record and is about to
      -- clear `waiting`; nothing is removed, `being_woken = 1`
      let old' : Word := if s.queue.isEmpty then { x.old with ne := false } else x.old
      .ok (s.setThr t { x with r := r, old := old', wasQ := false, loc := .nDeqRelW })
  | .deqSpin, .nDeqSpin =>
    -- the wait loop of cv_dequeue
    need (r = x.r) "ld waiting: not the record being dequeued" <|
    need (obs = b2n rc.waiting) "ld waiting: observed value differs from the model" <|
    if obs = 0 then
      -- cv_dequeue returns 0; the record leaves this cv
      let st' := match rc.stat with | .listed u => RStat.listed u | _ => RStat.idle
      .ok (s.setRec r { rc with stat := st' } |>.setThr t { x with loc := .nOut, mine := x.mine.erase r })
    else .ok s
  | .dbgW, .dWalk =>
    -- emit_waiters (debug.c:147-167): the next element of `cv->waiters`
    need (s.queue[x.dIdx]? = some r) "emit_waiters: not the next element of the cv queue" <|
    need (r.isMucv = true) "emit_waiters: element is a bare nsync_waiter_s (no WAITER_TAG: the walk stops)" <|
    need (obs = b2n rc.waiting) "ld waiting: observed value differs from the model" <|
    .ok (s.setThr t { x with loc := .dRc })
  | .dbgRc, .dRc =>
    need (s.queue[x.dIdx]? = some r) "emit_waiters: not the element whose `waiting` was just loaded" <|
    need (obs = rc.rc) "ld remove_count: observed value differs from the model" <|
    .ok (s.setThr t { x with dIdx := x.dIdx + 1, loc := .dWalk })
  | _, _ => .error "ld record field: not expected here"

def stepRecSt (s : State) (t : Tid) (site : RSite) (r : Rid) (new obs : Nat) : Except String State :=
  let x := s.thr t
  let rc := s.recs r
  match site, x.loc with
  | .wSt1, .wNew =>
    need (r.isMucv = true) "st waiting: cv wait must use a pooled waiter" <|
    need (rc.stat = .idle) "st waiting: nsync_waiter_new_ returned a record that is registered with the cv" <|
    need (new = 1) "st waiting: cv wait must store 1" <|
    need (obs = b2n rc.waiting) "st waiting: previous value differs from the model" <|
    .ok (s.setRec r { rc with waiting := true, owner := t, stat := .prep, pub := false, unl := [],
                              posted := false, lt := .gen }
          |>.setThr t (if x.gen then { x with r := r, loc := .spLd0, cont := .waitEnq, setNE := true }
                       else { x with r := r, loc := .wMode }))
  | .wClr, .wClr =>
    need (r = x.r) "st waiting: not the waiter's record" <|
    need (new = 0) "st waiting: must store 0" <|
    need (obs = b2n rc.waiting) "st waiting: previous value differs from the model" <|
    .ok (s.setRec r { rc with waiting := false } |>.setThr t { x with out := x.semOut, loc := .wRel2 })
  | .wake, .wwStore =>
    need (x.list.head? = some r) "st waiting: wake_waiters must wake the next record of its list" <|
    need (new = 0) "st waiting: must store 0" <|
    need (obs = b2n rc.waiting) "st waiting: previous value differs from the model" <|
    .ok (s.setRec r { rc with waiting := false, stat := match rc.stat with | .listed _ => .woken | st => st }
          |>.setThr t { x with list := x.list.tail, cur := some (r, rc.enqSeq), loc := .wwV })
  | .enqSt, .nLocked =>
    -- cv_enqueue (cv.c:464-465): make_last_in_list performed here
    need (r.isMucv = false) "cv_enqueue: record must be a bare nsync_waiter_s" <|
    need (rc.stat = .idle) "cv_enqueue: record is already registered" <|
    need (rc.owner = t ∧ rc.epoch = x.epoch) "cv_enqueue: record was not initialised by this wait_n call" <|
    need (new = 1) "st waiting: cv_enqueue must store 1" <|
    need (obs = b2n rc.waiting) "st waiting: previous value differs from the model" <|
    .ok ({ s with queue := s.queue ++ [r] }.setRec r
            { rc with waiting := true, stat := .queued, pub := false, unl := [], posted := false }
          |>.setThr t { x with r := r, mine := r :: x.mine, old := { x.old with ne := true }, loc := .nEnqRel })
  | .deqSt, .nDeqSt =>
    need (r = x.r) "st waiting: not the record being dequeued" <|
    need (new = 0) "st waiting: must store 0" <|
    need (obs = b2n rc.waiting) "st waiting: previous value differs from the model" <|
    .ok (s.setRec r { rc with waiting := false } |>.setThr t { x with loc := .nDeqRel })
  | _, _ => .error "st record field: not expected here"

def stepRecCas (s : State) (t : Tid) (site : RSite) (r : Rid) (exp new obs : Nat) (ok : Bool) :
    Except String State :=
  let x := s.thr t
  let rc := s.recs r
  need (exp = x.casExp) "cas remove_count: expected value is not the value loaded" <|
  need (new = exp + 1) "cas remove_count: new value is not old+1 (or the 32-bit counter wrapped)" <|
  need (obs = rc.rc) "cas remove_count: observed value differs from the model" <|
  need (ok = decide (obs = exp)) "cas remove_count: ok flag inconsistent" <|
  match site, x.loc with
  | .wRmCas, .wRmCas =>
    need (r = x.r) "cas remove_count: not the waiter's record" <|
    if ok then .ok (s.setRec r { rc with rc := new } |>.setThr t { x with loc := .wClr })
    else .ok (s.setThr t { x with loc := .wRmLd })
  | .sRcCas first, .sRcCas =>
    need (x.bcast = false ∧ first = x.firstRc) "cas remove_count: wrong site of signal" <|
    need (x.todo.head? = some r) "cas remove_count: not the next record unlinked by signal" <|
    if ok then
      .ok (s.setRec r { rc with rc := new }
            |>.setThr t { x with todo := x.todo.tail, firstRc := false,
                                 loc := if x.todo.tail.isEmpty then .sRel else .sRcLd })
    else .ok (s.setThr t { x with loc := .sRcLd })
  | .bRcCas, .sRcCas =>
    need (x.bcast = true) "cas remove_count: wrong site of broadcast" <|
    need (x.todo.head? = some r) "cas remove_count: not the next record unlinked by broadcast" <|
    if ok then
      .ok (s.setRec r { rc with rc := new }
            |>.setThr t { x with todo := x.todo.tail, firstRc := false,
                                 loc := if x.todo.tail.isEmpty then .sRel else .sRcLd })
    else .ok (s.setThr t { x with loc := .sRcLd })
  | _, _ => .error "cas record field: not expected here"

def stepMuLd (s : State) (t : Tid) (site : MSite) (obs : Nat) : Except String State :=
  let x := s.thr t
  match site, x.loc with
  | .wMode, .wMode =>
    -- cv.c:210-225
    let isW := obs % 2 = 1
    let isR := (obs &&& MU_RLOCK_FIELD) ≠ 0
    need (¬ (isW ∧ isR)) "cv wait: mu held in reader and writer mode simultaneously (nsync panics)" <|
    need (isW ∨ isR) "cv wait: mu not held on entry (nsync panics)" <|
    let lt : LType := if isW then .W else .R
    .ok (s.setRec x.r { s.recs x.r with lt := lt }
          |>.setThr t { x with loc := .spLd0, cont := .waitEnq, setNE := true })
  | .wwLd, .wwMuLd =>
    match x.list with
    | [] => .error "wake_waiters: empty list"
    | f :: _ =>
      let lt := (s.recs f).lt
      .ok (s.setThr t { x with muObs := obs,
                               loc := if wantTransfer lt obs x.list.length x.allReaders then .wwMuCas else .wwStore })
  | .wwRelLd, .wwRelLd | .wwRelLd2, .wwRelLd2 =>
    .ok (s.setThr t { x with muObs := obs, loc := .wwRelCas })
  | _, _ => .error "ld mutex word: not expected here"

def stepMuCas (s : State) (t : Tid) (site : MSite) (exp new obs : Nat) (ok : Bool) : Except String State :=
  let x := s.thr t
  need (exp = x.muObs) "cas mutex word: expected value is not the value loaded" <|
  need (ok = decide (obs = exp)) "cas mutex word: ok flag inconsistent" <|
  match site, x.loc with
  | .wwCas, .wwMuCas =>
    need (new = ((exp ||| MU_SPINLOCK ||| MU_WAITING) &&& (MASK32 - MU_ALL_FALSE)))
      "cas mutex word: new value is not (old|MU_SPINLOCK|MU_WAITING) & ~MU_ALL_FALSE" <|
    if ok then
      match x.list with
      | [] => .error "wake_waiters: empty list"
      | f :: _ =>
        let fca := firstCantAcquire (s.recs f).lt exp
        let xs := transferSet s.recs fca x.list
        let recs' : Rid → Rec := fun r => if xs.contains r then { s.recs r with stat := .xfer } else s.recs r
        let x' := { x with list := x.list.filter (fun r => !(xs.contains r)),
                           setOnRel := setOnRelease s.recs fca x.list, loc := .wwRelLd }
        .ok { s with recs := recs', thr := updT s.thr t x' }
    else .ok (s.setThr t { x with loc := .wwStore })
  | .wwRelCas, .wwRelCas =>
    need (new = ((exp ||| x.setOnRel) &&& (MASK32 - MU_SPINLOCK)))
      "cas mutex word: new value is not (old|set_on_release) & ~MU_SPINLOCK" <|
    if ok then .ok (s.setThr t { x with loc := if x.list.isEmpty then .kRet else .wwStore })
    else .ok (s.setThr t { x with loc := .wwRelLd2 })
  | _, _ => .error "cas mutex word: not expected here"

/-- A record may be accessed by foreign code. -/
def foreignOk (rc : Rec) : Bool :=
  match rc.stat with
  | .idle | .xfer => true
  | _ => false

def fieldVal (rc : Rec) : Fld → Nat
  | .waiting => b2n rc.waiting
  | .rc => rc.rc

def stepSemV (cfg : Config) (s : State) (t : Tid) (k : SemId) : Except String State :=
  let x := s.thr t
  match x.loc with
  | .wwV =>
    match x.cur with
    | none => .error "sem v: no record is being woken"
    | some (r, q) =>
      let rc := s.recs r
      need ((match semOf r with | some k' => decide (k' = k) | none => true) = true) "sem v: not the semaphore of the record" <|
      -- ghost only: the V uses the local copy of the semaphore pointer
      let rc' := { rc with posted := rc.posted || (decide (rc.enqSeq = q) && decide (rc.stat = RStat.woken)) }
      .ok ({ s with sem := updS s.sem k (vCount cfg (s.sem k)) }.setRec r rc'
            |>.setThr t { x with cur := none, loc := if x.list.isEmpty then .kRet else .wwStore })
  | _ =>
    need (x.loc.isOpen = true) "sem v: not expected here" <|
    .ok { s with sem := updS s.sem k (vCount cfg (s.sem k)) }

def stepSemPdEnter (s : State) (t : Tid) (k : SemId) (dl : Option Nat) : Except String State :=
  let x := s.thr t
  match x.loc with
  | .wSemEnter =>
    need (x.r = .w k) "sem pd_enter: not the waiter's semaphore" <|
    need (dl = x.dl) "sem pd_enter: deadline is not abs_deadline" <|
    .ok (s.setThr t { x with semDl := dl, loc := .wSemRet })
  | .cPre =>
    need (x.r = .w k) "sem pd_enter: not the waiter's semaphore" <|
    need (dlLe dl x.dl = true) "sem pd_enter: deadline later than abs_deadline" <|
    .ok (s.setThr t { x with semDl := dl, loc := .cWait })
  | .idle | .nOut => .ok s
  | _ => .error "sem pd_enter: not expected here"

def stepSemPdRet (s : State) (t : Tid) (k : SemId) (timedOut : Bool) : Except String State :=
  let x := s.thr t
  let timeOk : Bool := match x.semDl with | some d => decide (d ≤ s.now) | none => false
  match x.loc with
  | .wSemRet =>
    need (x.r = .w k) "sem pd_ret: not the waiter's semaphore" <|
    if timedOut then
      need (timeOk = true) "sem pd_ret: ETIMEDOUT before the deadline" <|
      .ok (s.setThr t { x with semOut := .timedOut, loc := .wChk })
    else
      need (0 < s.sem k) "sem pd_ret: returned 0 with count 0" <|
      .ok ({ s with sem := updS s.sem k (s.sem k - 1) }.setThr t { x with loc := .wTail })
  | .cWait =>
    need (x.r = .w k) "sem pd_ret: not the waiter's semaphore" <|
    if timedOut then
      need (timeOk = true) "sem pd_ret: ETIMEDOUT before the deadline" <|
      .ok (s.setThr t { x with cTimed := true, loc := .cPost })
    else
      need (0 < s.sem k) "sem pd_ret: returned 0 with count 0" <|
      .ok ({ s with sem := updS s.sem k (s.sem k - 1) }.setThr t { x with cTimed := false, loc := .cPost })
  | .idle | .nOut =>
    if timedOut then .ok s
    else need (0 < s.sem k) "sem pd_ret: returned 0 with count 0" <|
      .ok { s with sem := updS s.sem k (s.sem k - 1) }
  | _ => .error "sem pd_ret: not expected here"

/-- The acceptor. -/
def step (cfg : Config) (s : State) : Event → Except String State
  | .skip => .ok s
  | .tick ns =>
    need (s.now ≤ ns) "tick: clock goes backwards" <| .ok { s with now := ns }
  | .callWait t gen dl note =>
    stepCall s t { (s.thr t).fresh .wNew with gen := gen, dl := dl, note := note }
  | .retWait t res =>
    let x := s.thr t
    stepRet s t (decide ((x.loc = .wRet ∨ x.loc = .wRelocking) ∧ res = x.out))
      "ret cv wait: not at the end of the call, or the result is not `outcome`"
  | .callSignal t => stepCall s t { (s.thr t).fresh .sLd with bcast := false }
  | .callBroadcast t => stepCall s t { (s.thr t).fresh .sLd with bcast := true }
  | .retSignal t =>
    let x := s.thr t
    stepRet s t (decide (x.loc = .kRet ∧ x.bcast = false)) "ret signal: not at the end of nsync_cv_signal"
  | .retBroadcast t =>
    let x := s.thr t
    stepRet s t (decide (x.loc = .kRet ∧ x.bcast = true)) "ret broadcast: not at the end of nsync_cv_broadcast"
  | .callWaitN t => stepCall s t ((s.thr t).fresh .nOut)
  | .retWaitN t =>
    let x := s.thr t
    need (x.loc = .nOut) "ret wait_n: inside a cv function" <|
    need (x.mine = []) "ret wait_n: records still enqueued" <|
    .ok (s.setThr t { (x.fresh .idle) with epoch := x.epoch + 1 })
  | .relMark t op =>
    let x := s.thr t
    need (x.loc = .wUnlock) "mutex release: not expected here" <|
    need (op = match (s.recs x.r).lt with | .gen => MuOp.gen | .R => .rd | .W => .wr)
      "mutex release: wrong unlock function for the mode of the waiter" <|
    .ok (s.setThr t { x with loc := .wUnlocking })
  | .lockMark t op =>
    let x := s.thr t
    need (x.loc = .wExit) "mutex re-acquisition: not expected here" <|
    need (x.xferd = false) "mutex re-acquisition: a transferred waiter must call nsync_mu_lock_slow_" <|
    need (op = match (s.recs x.r).lt with | .gen => MuOp.gen | .R => .rd | .W => .wr)
      "mutex re-acquisition: wrong lock function for the mode of the waiter" <|
    .ok (s.setThr t { x with loc := .wLocking })
  | .relockSlow t =>
    let x := s.thr t
    need (x.loc = .wExit) "nsync_mu_lock_slow_: not expected here" <|
    need (x.xferd = true) "nsync_mu_lock_slow_: waiter was not transferred" <|
    .ok (s.setThr t { x with loc := .wRelocking })
  | .nret t =>
    let x := s.thr t
    match x.loc with
    | .wUnlocking => .ok (s.setThr t { x with loc := .wHead })
    | .wLocking => .ok (s.setThr t { x with loc := .wRet })
    | _ => .error "nret: not expected here"
  | .wordLd t site obs => stepWordLd s t site obs
  | .wordCas t exp new obs ok => stepWordCas s t exp new obs ok
  | .wordSt t site new obs => stepWordSt s t site new obs
  | .recLd t site r obs => stepRecLd s t site r obs
  | .recSt t site r new obs => stepRecSt s t site r new obs
  | .recCas t site r exp new obs ok => stepRecCas s t site r exp new obs ok
  | .muLd t site obs => stepMuLd s t site obs
  | .muCas t site exp new obs ok => stepMuCas s t site exp new obs ok
  | .semPdEnter t k dl => stepSemPdEnter s t k dl
  | .semPdRet t k timedOut => stepSemPdRet s t k timedOut
  | .semPEnter t _ =>
    need ((s.thr t).loc.isOpen = true) "sem p_enter: not expected here" <| .ok s
  | .semPRet t k =>
    need ((s.thr t).loc.isOpen = true) "sem p_ret: not expected here" <|
    need (0 < s.sem k) "sem p_ret: returned with count 0" <|
    .ok { s with sem := updS s.sem k (s.sem k - 1) }
  | .semV t k => stepSemV cfg s t k
  | .wInit t r =>
    let rc := s.recs r
    need ((s.thr t).loc.isOpen = true) "waiter init: not expected here" <|
    need (r.isMucv = true) "waiter init: not a pooled waiter" <|
    need (rc.stat = .idle) "waiter init: record is registered with the cv" <|
    .ok (s.setRec r { rc with rc := 0, waiting := false })
  | .nwInit t r =>
    let rc := s.recs r
    let x := s.thr t
    need (x.loc = .nOut) "nw init: thread is not inside nsync_wait_n" <|
    need (r.isMucv = false) "nw init: not a bare nsync_waiter_s" <|
    need (rc.stat = .idle) "nw init: record is registered with the cv" <|
    .ok (s.setRec r { rc with waiting := false, owner := t, epoch := x.epoch })
  | .fLd t r f obs =>
    let rc := s.recs r
    need ((s.thr t).loc.isOpen = true) "foreign load: thread is inside cv.c" <|
    need (foreignOk rc = true) "foreign load: record is registered with the cv" <|
    need (obs = fieldVal rc f) "foreign load: observed value differs from the model" <|
    .ok s
  | .fSt t r f new =>
    let rc := s.recs r
    need ((s.thr t).loc.isOpen = true) "foreign store: thread is inside cv.c" <|
    need (foreignOk rc = true) "foreign store: record is registered with the cv" <|
    match f with
    | .waiting =>
      need (new ≤ 1) "foreign store: waiting must be 0 or 1" <|
      .ok (s.setRec r { rc with waiting := decide (new = 1) })
    | .rc => .error "foreign store: remove_count is only ever incremented by CAS"
  | .fCas t r f exp new obs ok =>
    let rc := s.recs r
    need ((s.thr t).loc.isOpen = true) "foreign cas: thread is inside cv.c" <|
    need (foreignOk rc = true) "foreign cas: record is registered with the cv" <|
    need (f = .rc) "foreign cas: only remove_count is ever updated by CAS" <|
    need (new = exp + 1) "foreign cas: new value is not old+1 (or the 32-bit counter wrapped)" <|
    need (obs = rc.rc) "foreign cas: observed value differs from the model" <|
    need (ok = decide (obs = exp)) "foreign cas: ok flag inconsistent" <|
    if ok then .ok (s.setRec r { rc with rc := new }) else .ok s
  | .noteSeen t =>
    let x := s.thr t
    match x.loc with
    | .cPre | .cWait | .cPost => .ok (s.setThr t { x with sawNote := true })
    | _ => .ok s
  | .noteNotify t =>
    let x := s.thr t
    need (x.loc = .cPost ∧ x.cTimed = true) "nsync_note_notify from sem_wait.c: semaphore wait did not time out" <|
    .ok (s.setThr t { x with cNotified := true })
  | .callDebug t k => stepCall s t { (s.thr t).fresh .dLd with dk := k }
  | .retDebug t k =>
    let x := s.thr t
    stepRet s t (decide (x.loc = .dRet ∧ k = x.dk)) "ret debug: not at the end of emit_cv_state"

def run (cfg : Config) (s : State) : List Event → Except String State
  | [] => .ok s
  | e :: es =>
    match step cfg s e with
    | .ok s' => run cfg s' es
    | .error m => .error m

/-- All states the C code can reach: any number of threads and records, any program, any
    schedule, any timing. -/
def Reachable (cfg : Config) (s : State) : Prop :=
  ∃ evs, run cfg init evs = .ok s

/-! ### ghost label: the records whose memory a step reads or writes -/

/-- Records touched by an event of cv.c performed in state `s` (dll operations touch the neighbours
    of the element: over-approximated by the whole list the element is on).  Foreign accesses and
    the initialisations by nsync_waiter_new_ / nsync_wait_n are code of other layers: `[]`. -/
def touches (s : State) : Event → List Rid
  | .recLd t site r obs =>
    match site, (s.thr t).loc with
    | .wCmp, .wCmp => r :: s.queue           -- possible nsync_dll_remove_
    | .deqLd, .nLocked =>
      if obs = 0 then [r]                    -- `waiting == 0`: no list operation
      else r :: s.queue                      -- the membership walk (and the removal, if found)
    | _, _ => [r]
  | .recSt t site r _ _ =>
    match site with
    | .enqSt => r :: s.queue                 -- make_last_in_list
    | .wake => r :: (s.thr t).list           -- read of `p_nw->sem`, nsync_dll_remove_ from the private list
    | _ => [r]
  | .recCas _ _ r .. => [r]
  | .wordCas t _ _ _ ok =>
    let x := s.thr t
    if ok then
      match x.cont with
      | .waitEnq => x.r :: s.queue
      | .sig =>
        if x.bcast then s.queue
        else match s.queue with
          | [] => []
          | f :: _ => if isReader s.recs f then s.queue else [f]
      | _ => []
    else []
  | .wordSt t site _ _ =>
    match site with
    | .sigRel | .bcRel => ((s.thr t).list.head?).toList    -- wake_waiters reads first_nw->flags, cv_mu, l_type
    | .dbgRel => s.queue                                   -- emit_waiters under the spinlock: the walk
    | _ => []
  | .muLd t site _ =>
    match site with
    | .wwLd => ((s.thr t).list.head?).toList
    | _ => []
  | .muCas t site _ _ _ ok =>
    match site with
    | .wwCas => if ok then (s.thr t).list else []
    | _ => []
  | _ => []

end NsyncVerif.CvFix
