/-
  Model/SemWaitDriver.lean — line protocol of the SemWait layer (correspondence check).
  One input line (an event of the harness log, CONVENTIONS.md format plus the auxiliary lines of
  BUILDERS.md) → one output line:
    ok                 the event is a step the model prescribes / a protocol step / a tick
    skip               the event belongs to another layer (semaphore traffic is still accounted)
    REJECT <reason>    the C code modelled by Model/SemWait.lean could not have done this here
    bad-op             the line cannot be parsed
    #                  comment line (`# begin` resets the driver)

  nsync_sem_wait_with_cancel_ is a static-like internal function: the harness logs neither its entry nor its
  return.  A thread is inside a cancellable wait from `call nsync_cv_wait_with_deadline <cv> <mu> <dl> <note>` /
  `call nsync_mu_wait_with_deadline <mu> <cond> <dl> <note>` (note ≠ `-`) to the matching `ret`.  Inside it,
  the first event of nsync_sem_wait_with_cancel_ is the load of `notified` in nsync_note_notified_deadline_
  (sem_wait.c:39): the driver feeds `callSW` before it.  The return has no event of its own: the driver feeds
  `retSW` immediately after the last event of the function (the earliest point at which the frame can die).
  At the `ret` of the enclosing wait the driver checks that the thread is not inside
  nsync_sem_wait_with_cancel_ and that a non-zero result is the result of its last call.

  note_mu: `ncall nsync_mu_lock note<k>.mu` … `nret` = acquisition at the `nret`; `ncall nsync_mu_trylock` the
  same if the `nret` says 1; `ncall nsync_mu_unlock note<k>.mu` = release at the `ncall`; `ncall nsync_mu_wait
  note<k>.mu` = release at the `ncall`, acquisition at the `nret`.
  Notes are created by `malloc note<k> nsync_note_new` (expiry from the enclosing `call nsync_note_new <parent>
  <dl>`).  nsync_note_new reads `parent->expiry_time` (a plain read, no event) after its nsync_note_is_notified (n)
  and before it locks the parent: `inherit` is fed before that `ncall nsync_mu_lock <parent>.mu`, or at the `ret`
  if the parent is not locked (the note was born expired).  The store `ATM_STORE_REL (&n->notified, 1)` of
  nsync_note_new (parent already notified) is fed as `bornNotified <note> <parent>`.
  Records of nsync_wait_n on a note's list are outside this layer: after `nsync_wait_n` / `nsync_note_wait`
  (or the re-use of a note id after nsync_note_free) the rest of the execution is answered `skip`.
  The log does not say whether the semaphores are counting or binary: every line is replayed under both
  configurations; a configuration that rejects is dropped; REJECT is answered when none is left.
  Core Lean only.
-/
import NsyncVerif.Model.SemWait

namespace SemWait.Driver

open SemWait

structure Cand where
  cfg : Config
  st : State

structure DState where
  cands : List Cand
  /-- thread → (note, abs_deadline) of the cancellable wait it is in -/
  waits : List (Tid × NoteId × Deadline)
  /-- thread → result of the last nsync_sem_wait_with_cancel_ of the wait it is in -/
  lastOut : List (Tid × Outcome)
  /-- thread → stack of pending nested calls (api, argument) -/
  pend : List (Tid × List (String × String))
  /-- thread → deadline and parent arguments of its `call nsync_note_new` -/
  newDl : List (Tid × Deadline × Option NoteId)
  /-- thread → note it is creating, its parent, whether `inherit` has been fed -/
  creating : List (Tid × NoteId × Option NoteId × Bool)
  /-- out of scope for the rest of the execution -/
  off : Bool

def init : DState :=
  { cands := [{ cfg := { binary := false }, st := SemWait.init }, { cfg := { binary := true }, st := SemWait.init }],
    waits := [], lastOut := [], pend := [], newDl := [], creating := [], off := false }

def lookup {α} (k : Nat) : List (Nat × α) → Option α
  | [] => none
  | (k', v) :: r => if k' = k then some v else lookup k r

def insert {α} (k : Nat) (v : α) (l : List (Nat × α)) : List (Nat × α) :=
  (k, v) :: l.filter (fun p => p.1 ≠ k)

def remove {α} (k : Nat) (l : List (Nat × α)) : List (Nat × α) := l.filter (fun p => p.1 ≠ k)

def parseId (pfx : String) (tok : String) : Option Nat :=
  if tok.startsWith pfx then (tok.drop pfx.length).toNat? else none

def parseDeadline (tok : String) : Option Deadline :=
  if tok = "inf" then some none else (tok.toInt?).map some

def parseOrd : String → Option Ord
  | "rlx" => some .rlx | "acq" => some .acq | "rel" => some .rel | "ar" => some .ar | _ => none

def parseFn (site : String) : Fn :=
  match site.splitOn "/" with
  | [_, _, f] =>
    match f with
    | "nsync_note_notified_deadline_" => .nd
    | "notify" => .notify
    | "note_notify_child" => .child
    | "nsync_sem_wait_with_cancel_" => .sw
    | _ => .other
  | _ => .other

def siteFn (site : String) : String :=
  match site.splitOn "/" with
  | [_, _, f] => f
  | _ => ""

def parseLoc (tok : String) : Loc :=
  match tok.splitOn "." with
  | [obj, "notified"] => match parseId "note" obj with | some k => .notified k | none => .other
  | [obj, "waiting"] =>
    -- `nw<k>`: an on-stack struct nsync_waiter_s (`w<k>.waiting` is the waiter of a cv / mu wait: another layer)
    if obj.startsWith "nwarr" then .other
    else match parseId "nw" obj with | some r => .waiting r | none => .other
  | _ => .other

/-- `note3.mu` -/
def parseNoteMu (tok : String) : Option NoteId :=
  if tok.endsWith ".mu" then parseId "note" (tok.dropEnd 3).toString else none

def outcomeOf : String → Option Outcome
  | "0" => some .ok | "ETIMEDOUT" => some .timedOut | "ECANCELED" => some .cancelled | _ => none

/-- feed one model event to every surviving configuration -/
def feed (d : DState) (ev : Event) : DState × Option String :=
  let rs := d.cands.map (fun c => (c.cfg, step c.cfg c.st ev))
  let oks := rs.filterMap (fun p => match p.2 with | .ok s => some { cfg := p.1, st := s : Cand } | .error _ => none)
  match oks with
  | [] =>
    let why := match rs with
      | (_, .error m) :: _ => m
      | _ => "no configuration left"
    (d, some why)
  | _ => ({ d with cands := oks }, none)

/-- the return of nsync_sem_wait_with_cancel_ as soon as the thread has reached sem_wait.c:78 -/
def eagerRet (d : DState) (t : Tid) : DState × Option String :=
  match d.cands with
  | c :: _ =>
    if c.st.pc t = .ret then
      let o := (c.st.fr t).out
      let (d', err) := feed d (.thr t (.retSW o))
      ({ d' with lastOut := insert t o d'.lastOut }, err)
    else (d, none)
  | [] => (d, none)

def inSW (d : DState) (t : Tid) : Bool :=
  match d.cands with
  | c :: _ => inCall (c.st.pc t)
  | [] => false

/-- feed a thread event (preceded by `callSW` when it is the first event of nsync_sem_wait_with_cancel_) -/
def feedThr (d : DState) (t : Tid) (e : Ev) : DState × String :=
  let isFirst : Bool :=
    match e, lookup t d.waits with
    | .ld _ (.notified k) .nd _, some (n, _) => k = n && !inSW d t
    | _, _ => false
  let (d1, err1) : DState × Option String :=
    if isFirst then
      match lookup t d.waits with
      | some (n, dl) => feed d (.thr t (.callSW n dl))
      | none => (d, none)
    else (d, none)
  match err1 with
  | some m => (d1, "REJECT " ++ m)
  | none =>
    let (d2, err2) := feed d1 (.thr t e)
    match err2 with
    | some m => (d2, "REJECT " ++ m)
    | none =>
      let (d3, err3) := eagerRet d2 t
      match err3 with
      | some m => (d3, "REJECT " ++ m)
      | none => (d3, match e with | .other => "skip" | _ => "ok")

def push (d : DState) (t : Tid) (api arg : String) : DState :=
  { d with pend := insert t ((api, arg) :: (lookup t d.pend).getD []) d.pend }

def pop (d : DState) (t : Tid) : DState × Option (String × String) :=
  match lookup t d.pend with
  | some (x :: rest) => ({ d with pend := insert t rest d.pend }, some x)
  | _ => (d, none)

def known (d : DState) (k : NoteId) : Bool :=
  match d.cands with
  | c :: _ => (c.st.note k).known
  | [] => false

def handleAtm (d : DState) (t : Tid) (toks : List String) : DState × String :=
  match toks with
  | [site, op, ord, loc, exp, new, obs, ok] =>
    match parseOrd ord, obs.toNat? with
    | some o, some ob =>
      let l := parseLoc loc
      let l := match l with
        | .notified k => if known d k then l else .other
        | _ => l
      let fn := parseFn site
      match l with
      | .other => feedThr d t .other
      | _ =>
        match op, exp, new, ok with
        | "ld", "-", "-", "-" =>
          feedThr d t (.ld o l fn ob)
        | "st", "-", n, "-" =>
          match n.toNat? with
          | some nv =>
            if siteFn site = "nsync_note_new" then
              -- `ATM_STORE_REL (&n->notified, 1)`: the note being created starts out notified
              match l, lookup t d.creating with
              | .notified k, some (k', some p, _) =>
                if k = k' then feedThr d t (.bornNotified k p nv ob) else feedThr d t (.st o l fn nv ob)
              | _, _ => feedThr d t (.st o l fn nv ob)
            else feedThr d t (.st o l fn nv ob)
          | none => (d, "bad-op")
        | "cas", _, _, _ => (d, "REJECT compare-and-swap on a location the code only loads and stores")
        | _, _, _, _ => (d, "bad-op")
    | _, _ => (d, "bad-op")
  | _ => (d, "bad-op")

def handleSem (d : DState) (t : Tid) (toks : List String) : DState × String :=
  match toks with
  | ["pd_enter", s, dl] =>
    match parseId "sem" s, parseDeadline dl with
    | some j, some x => feedThr d t (.pdEnter j x)
    | _, _ => (d, "bad-op")
  | ["pd_ret", s, r] =>
    match parseId "sem" s, r with
    | some j, "0" => feedThr d t (.pdRet j false)
    | some j, "ETIMEDOUT" => feedThr d t (.pdRet j true)
    | _, _ => (d, "bad-op")
  | ["p_enter", s] => match parseId "sem" s with | some j => feedThr d t (.pEnter j) | none => (d, "bad-op")
  | ["p_ret", s] => match parseId "sem" s with | some j => feedThr d t (.pRet j) | none => (d, "bad-op")
  | ["v", s] => match parseId "sem" s with | some j => feedThr d t (.semV j) | none => (d, "bad-op")
  | _ => (d, "bad-op")

def handleCall (d : DState) (t : Tid) (nested : Bool) (toks : List String) : DState × String :=
  match toks with
  | "nsync_wait_n" :: _ => ({ d with off := true }, "skip")
  | "nsync_note_wait" :: _ => ({ d with off := true }, "skip")
  | ["nsync_cv_wait_with_deadline", _, _, dl, note] =>
    if nested then (d, "skip")
    else if note = "-" then (d, "skip")
    else
      match parseId "note" note, parseDeadline dl with
      | some n, some x => ({ d with waits := insert t (n, x) d.waits, lastOut := remove t d.lastOut }, "ok")
      | _, _ => (d, "bad-op")
  | ["nsync_mu_wait_with_deadline", _, _, dl, note] =>
    if nested then (d, "skip")
    else if note = "-" then (d, "skip")
    else
      match parseId "note" note, parseDeadline dl with
      | some n, some x => ({ d with waits := insert t (n, x) d.waits, lastOut := remove t d.lastOut }, "ok")
      | _, _ => (d, "bad-op")
  | ["nsync_note_new", par, dl] =>
    if nested then (d, "skip")
    else match parseDeadline dl with
      | some x => ({ d with newDl := insert t (x, parseId "note" par) d.newDl }, "skip")
      | none => (d, "bad-op")
  | [api, arg] =>
    if nested then
      match parseNoteMu arg with
      | some k =>
        if api = "nsync_mu_unlock" ∨ api = "nsync_mu_wait" then
          let d1 := push d t api arg
          if known d k then feedThr d1 t (if api = "nsync_mu_wait" then .muWait k else .unlock k) else (d1, "skip")
        else
          -- nsync_note_new is about to lock the parent: it has read parent->expiry_time
          match lookup t d.creating with
          | some (n, some p, false) =>
            if api = "nsync_mu_lock" ∧ p = k ∧ known d p then
              let d1 := { d with creating := insert t (n, some p, true) d.creating }
              let (d2, r) := feedThr d1 t (.inherit n p)
              if r.startsWith "REJECT" then (d2, r) else (push d2 t api arg, "ok")
            else (push d t api arg, "skip")
          | _ => (push d t api arg, "skip")
      | none => (push d t api arg, "skip")
    else (d, "skip")
  | api :: _ => if nested then (push d t api "", "skip") else (d, "skip")
  | [] => (d, "bad-op")

def handleRet (d : DState) (t : Tid) (nested : Bool) (toks : List String) : DState × String :=
  match toks with
  | [api, r] =>
    if nested then
      let (d1, top) := pop d t
      match top with
      | some (api', arg) =>
        if api' ≠ api then (d1, "skip")
        else
          match parseNoteMu arg with
          | some k =>
            if !known d k then (d1, "skip")
            else if api = "nsync_mu_lock" ∨ api = "nsync_mu_wait" ∨ (api = "nsync_mu_trylock" ∧ r = "1") then
              feedThr d1 t (.lock k)
            else (d1, "skip")
          | none => (d1, "skip")
      | none => (d1, "skip")
    else if api = "nsync_cv_wait_with_deadline" ∨ api = "nsync_mu_wait_with_deadline" then
      match lookup t d.waits with
      | none => (d, "skip")
      | some _ =>
        let d1 := { d with waits := remove t d.waits, lastOut := remove t d.lastOut }
        if inSW d t then (d1, "REJECT the wait returned while the thread is inside nsync_sem_wait_with_cancel_")
        else
          match outcomeOf r with
          | none => (d1, "bad-op")
          | some .ok => (d1, "ok")
          | some o =>
            if lookup t d.lastOut = some o then (d1, "ok")
            else (d1, "REJECT the wait returned a non-zero result that is not the result of its last nsync_sem_wait_with_cancel_")
    else if api = "nsync_note_new" then
      let d1 := { d with newDl := remove t d.newDl, creating := remove t d.creating }
      match lookup t d.creating with
      | some (n, some p, false) => if known d p then feedThr d1 t (.inherit n p) else (d1, "skip")
      | _ => (d1, "skip")
    else (d, "skip")
  | _ => (d, "skip")

def handleMalloc (d : DState) (t : Tid) (toks : List String) : DState × String :=
  match toks with
  | [obj, "nsync_note_new"] =>
    match parseId "note" obj, lookup t d.newDl with
    | some k, some (dl, par) =>
      if known d k then ({ d with off := true }, "skip")      -- id re-used after nsync_note_free
      else feedThr { d with creating := insert t (k, par, false) d.creating } t (.newNote k dl)
    | _, _ => (d, "skip")
  | _ => (d, "skip")

def step (d : DState) (line : String) : DState × String :=
  let l := line.trimAscii.toString
  if l.startsWith "# begin" then (init, "#")
  else if l.startsWith "#" then (d, "#")
  else if l = "" then (d, "skip")
  else if d.off then (d, "skip")
  else
  match l.splitOn " " with
  | ["-", "tick", ns] =>
    match ns.toNat? with
    | some n =>
      let (d', err) := feed d (.tick n)
      (d', match err with | some m => "REJECT " ++ m | none => "ok")
    | none => (d, "bad-op")
  | "-" :: _ => (d, "skip")
  | tid :: kind :: rest =>
    match tid.toNat? with
    | none => (d, "bad-op")
    | some t =>
      match kind with
      | "call" => handleCall d t false rest
      | "ncall" => handleCall d t true rest
      | "ret" => handleRet d t false rest
      | "nret" => handleRet d t true rest
      | "atm" => handleAtm d t rest
      | "sem" => handleSem d t rest
      | "now" =>
        match rest with
        | [ns] => (match ns.toNat? with | some n => feedThr d t (.now n) | none => (d, "bad-op"))
        | _ => (d, "bad-op")
      | "malloc" => handleMalloc d t rest
      | _ => (d, "skip")
  | _ => (d, "bad-op")

end SemWait.Driver
