/-
  Model/WaitNDriver.lean — line protocol of the WaitN layer (correspondence check).
  One input line (an event of the harness log, CONVENTIONS.md format plus the auxiliary lines of
  BUILDERS.md) → one output line:
    ok                 the event is a step the model prescribes / a protocol step / a tick
    skip               the event belongs to another layer (semaphore traffic is still accounted)
    REJECT <reason>    the C code modelled by Model/WaitN.lean could not have done this here
    bad-op             the line cannot be parsed
    #                  comment line
  Objects: cv<k> are known from the start (zero-initialised); note<k> becomes known at
  `malloc note<k> nsync_note_new` of a call without parent (notes with a parent are out of scope and
  stay unknown: every event that names an unknown object is skipped, an nsync_wait_n call that names
  one is rejected as out of scope); ctr<k> becomes known at the initialising store of
  nsync_counter_new.
  nsync_wait_n is logged either as `call nsync_wait_n <mu|-> <deadline> <count> <objects…>` (scenario
  interpreter) or as `ncall nsync_wait_n - <deadline> 1` nested in `call nsync_note_wait <note> …` /
  `call nsync_counter_wait <ctr> …` (object learned from the enclosing call).
  The waitable functions are reached through function pointers and are not API events: the model
  recognises them by the function name in the `site` of their atomics.
  Core Lean only.
-/
import NsyncVerif.Model.WaitN

namespace WaitN.Driver

open WaitN

structure DState where
  st : State
  /-- thread → (api, first argument, second argument) of its last `call` line -/
  last : List (Tid × String × String × String)

def init : DState := { st := WaitN.init, last := [] }

def lookup {α} (k : Nat) : List (Nat × α) → Option α
  | [] => none
  | (k', v) :: r => if k' = k then some v else lookup k r

def insert {α} (k : Nat) (v : α) (l : List (Nat × α)) : List (Nat × α) :=
  (k, v) :: l.filter (fun p => p.1 ≠ k)

def parseId (pfx : String) (tok : String) : Option Nat :=
  if tok.startsWith pfx then (tok.drop pfx.length).toNat? else none

def parseDeadline (tok : String) : Option Deadline :=
  if tok = "inf" then some none else (tok.toInt?).map some

def parseOrd : String → Option Ord
  | "rlx" => some .rlx | "acq" => some .acq | "rel" => some .rel | "ar" => some .ar | _ => none

def parseObj (tok : String) : Option ObjId :=
  match parseId "cv" tok with
  | some k => some (.cv k)
  | none =>
    match parseId "note" tok with
    | some k => some (.note k)
    | none => (parseId "ctr" tok).map .ctr

def parseObjs : List String → Option (List ObjId)
  | [] => some []
  | t :: r =>
    match parseObj t, parseObjs r with
    | some o, some l => some (o :: l)
    | _, _ => none

/-- `nw12` / `nwarr3_2` -/
def parseRid (tok : String) : Option Rid :=
  if tok.startsWith "nwarr" then
    match (tok.drop 5).toString.splitOn "_" with
    | [a, i] =>
      match a.toNat?, i.toNat? with
      | some a, some i => some (.heap a i)
      | _, _ => none
    | _ => none
  else (parseId "nw" tok).map .stk

def parseFn (site : String) : Fn :=
  match site.splitOn "/" with
  | [_, _, f] =>
    match f with
    | "nsync_wait_n" => .waitN
    | "cv_ready_time" => .cvRT | "cv_enqueue" => .cvEnq | "cv_dequeue" => .cvDeq
    | "counter_ready_time" => .ctrRT | "counter_enqueue" => .ctrEnq | "counter_dequeue" => .ctrDeq
    | "nsync_note_notified_deadline_" => .noteND | "note_enqueue" => .noteEnq | "note_dequeue" => .noteDeq
    | "notify" => .notify | "note_notify_child" => .notifyChild
    | "nsync_spin_test_and_set_" => .spin
    | "nsync_cv_signal" => .sig | "nsync_cv_broadcast" => .bcast | "wake_waiters" => .wake
    | _ => .other
  | _ => .other

def knownObj (s : State) (o : ObjId) : Bool := (s.obj o).known

def parseLoc (s : State) (tok : String) : Loc :=
  match tok.splitOn "." with
  | [obj, fld] =>
    match fld with
    | "word" => match parseId "cv" obj with | some k => .cvWord k | none => .other
    | "notified" =>
      match parseId "note" obj with
      | some k => if knownObj s (.note k) then .notified k else .other
      | none => .other
    | "value" =>
      match parseId "ctr" obj with
      | some k => if knownObj s (.ctr k) then .value k else .other
      | none => .other
    | "waited" =>
      match parseId "ctr" obj with
      | some k => if knownObj s (.ctr k) then .waited k else .other
      | none => .other
    | "waiting" => match parseRid obj with | some r => .waiting r | none => .other
    | _ => .other
  | _ => .other

inductive Cmd
  | tick (ns : Nat)
  | ev (t : Tid) (e : Ev)
  | remember (t : Tid) (api a b : String)       -- an API call whose arguments a nested call needs
  | nestedWaitN (t : Tid) (dl : Deadline) (count : Nat)
  | comment
  | skip
  | panic
  | outOfScope (why : String)
  | bad

def parseAtm (s : State) (t : Tid) (toks : List String) : Cmd :=
  match toks with
  | [site, op, ord, loc, exp, new, obs, ok] =>
    match parseOrd ord, obs.toNat? with
    | some o, some ob =>
      let l := parseLoc s loc
      let fn := parseFn site
      match op, exp, new, ok with
      | "ld", "-", "-", "-" => .ev t (.ld o l fn ob)
      | "st", "-", n, "-" =>
        match n.toNat? with
        | some nv =>
          -- the initialising store of nsync_counter_new creates the counter
          if site.endsWith "/nsync_counter_new" then
            match (loc.splitOn "."), parseId "ctr" ((loc.splitOn ".").headD "") with
            | [_, "value"], some k => .ev t (.newCtr k nv)
            | _, _ => .bad
          else .ev t (.st o l fn nv ob)
        | none => .bad
      | "cas", e, n, k =>
        match e.toNat?, n.toNat?, k with
        | some ev, some nv, "1" => .ev t (.cas o l fn ev nv ob true)
        | some ev, some nv, "0" => .ev t (.cas o l fn ev nv ob false)
        | _, _, _ => .bad
      | _, _, _, _ => .bad
    | _, _ => .bad
  | _ => .bad

def parseSem (t : Tid) (toks : List String) : Cmd :=
  match toks with
  | ["pd_enter", s, d] =>
    match parseId "sem" s, parseDeadline d with
    | some j, some dl => .ev t (.pdEnter j dl)
    | _, _ => .bad
  | ["pd_ret", s, r] =>
    match parseId "sem" s, r with
    | some j, "0" => .ev t (.pdRet j false)
    | some j, "ETIMEDOUT" => .ev t (.pdRet j true)
    | _, _ => .bad
  | ["p_enter", s] => match parseId "sem" s with | some j => .ev t (.pEnter j) | none => .bad
  | ["p_ret", s] => match parseId "sem" s with | some j => .ev t (.pRet j) | none => .bad
  | ["v", s] => match parseId "sem" s with | some j => .ev t (.semV j) | none => .bad
  | _ => .bad

/-- `note3.mu` / `ctr0.mu` of a known object -/
def parseMuOf (s : State) (tok : String) : Option ObjId :=
  if tok.endsWith ".mu" then
    match parseObj (tok.dropEnd 3).toString with
    | some (.cv _) => none
    | some o => if knownObj s o then some o else none
    | none => none
  else none

def parseCall (s : State) (t : Tid) (nested : Bool) (toks : List String) : Cmd :=
  match toks with
  | "nsync_wait_n" :: mu :: dl :: cnt :: objs =>
    match parseDeadline dl, cnt.toNat? with
    | some d, some n =>
      if nested then (if objs = [] then .nestedWaitN t d n else .bad)
      else
        let m : Option (Option MuId) := if mu = "-" then some none else (parseId "mu" mu).map some
        match m, parseObjs objs with
        | some m, some os =>
          if os.length ≠ n then .bad
          else if os.all (knownObj s) then .ev t (.callWaitN m d os false)
          else .outOfScope "nsync_wait_n on an object this layer does not track"
        | _, _ => .bad
    | _, _ => .bad
  | ["nsync_cv_signal", c] => match parseId "cv" c with | some k => .ev t (.callSig k false) | none => .bad
  | ["nsync_cv_broadcast", c] => match parseId "cv" c with | some k => .ev t (.callSig k true) | none => .bad
  | ["nsync_mu_lock", m] =>
    if nested then match parseMuOf s m with | some o => .ev t (.lockCall o) | none => .ev t .other
    else .ev t .other
  | ["nsync_mu_unlock", m] =>
    if nested then match parseMuOf s m with | some o => .ev t (.unlockCall o) | none => .ev t .other
    else .ev t .other
  | ["nsync_note_new", par, dl] => if nested then .ev t .other else .remember t "nsync_note_new" par dl
  | ["nsync_note_wait", n, dl] => if nested then .ev t .other else .remember t "nsync_note_wait" n dl
  | ["nsync_counter_wait", c, dl] => if nested then .ev t .other else .remember t "nsync_counter_wait" c dl
  | api :: _ =>
    if api.startsWith "nsync_cv_wait" then
      .outOfScope "nsync_cv_wait on a condition variable is outside the WaitN layer"
    else .ev t .other
  | [] => .bad

def parseRet (t : Tid) (nested : Bool) (toks : List String) : Cmd :=
  match toks with
  | ["nsync_wait_n", r] => match r.toNat? with | some v => .ev t (.retWaitN v nested) | none => .bad
  | ["nsync_cv_signal", "-"] => if nested then .ev t .other else .ev t (.retSig false)
  | ["nsync_cv_broadcast", "-"] => if nested then .ev t .other else .ev t (.retSig true)
  | ["nsync_mu_lock", "-"] => if nested then .ev t .lockRet else .ev t .other
  | ["nsync_mu_unlock", "-"] => if nested then .ev t .unlockRet else .ev t .other
  | _ :: _ => .ev t .other
  | [] => .bad

def parseLine (s : State) (line : String) : Cmd :=
  let l := line.trimAscii.toString
  if l.startsWith "#" then .comment
  else
  match l.splitOn " " with
  | ["-", "tick", ns] => match ns.toNat? with | some n => .tick n | none => .bad
  | "-" :: _ => .skip
  | tid :: kind :: rest =>
    match tid.toNat? with
    | none => .bad
    | some t =>
      match kind with
      | "call" => parseCall s t false rest
      | "ncall" => parseCall s t true rest
      | "ret" => parseRet t false rest
      | "nret" => parseRet t true rest
      | "atm" => parseAtm s t rest
      | "sem" => parseSem t rest
      | "now" => match rest with | [ns] => (match ns.toNat? with | some n => .ev t (.now n) | none => .bad) | _ => .bad
      | "malloc" =>
        match rest with
        | [obj, "nsync_wait_n"] =>
          if obj = "NULL" then .ev t (.malloc none)
          else match parseId "nwarr" obj with | some a => .ev t (.malloc (some a)) | none => .bad
        | [obj, "nsync_note_new"] =>
          match parseId "note" obj with
          | some k => .ev t (.newNote k none)     -- expiry filled in by `exec` from the remembered call
          | none => .ev t .other
        | _ => .ev t .other
      | "free" =>
        match rest with
        | [obj, "nsync_wait_n"] => match parseId "nwarr" obj with | some a => .ev t (.free a) | none => .bad
        | _ => .ev t .other
      | "lockann" =>
        match rest with
        | ["rel", m, _] => match parseId "mu" m with | some k => .ev t (.annRel k) | none => .ev t .other
        | ["acq", m, _] => match parseId "mu" m with | some k => .ev t (.annAcq k) | none => .ev t .other
        | _ => .bad
      | "panic" => .panic
      | "cb" | "cond" | "futex" | "data" | "oracle" | "reclaim" | "condarg" | "plain" | "state" => .ev t .other
      | _ => .bad
  | _ => .bad

def isProto : Ev → Bool
  | .other | .now _ | .lockRet | .unlockRet | .pEnter _ | .pdEnter _ _ | .pdRet _ _ | .pRet _ | .semV _
  | .annRel _ | .annAcq _ => false
  | .ld _ .other _ _ | .st _ .other _ _ _ | .cas _ .other _ _ _ _ _ => false
  | _ => true

def feed (d : DState) (t : Tid) (e : Ev) : DState × String :=
  match WaitN.step d.st (.thr t e) with
  | .error m => (d, "REJECT " ++ m)
  | .ok s' =>
    let changed : Bool := decide (s'.pc t ≠ d.st.pc t) || decide (s'.mc t ≠ d.st.mc t)
                          || decide (s'.post t ≠ d.st.post t)
    ({ d with st := s' }, if changed || isProto e then "ok" else "skip")

def exec (d : DState) (c : Cmd) : DState × String :=
  match c with
  | .bad => (d, "bad-op")
  | .comment => (d, "#")
  | .skip => (d, "skip")
  | .panic => (d, "REJECT panic: an ASSERT of the library fired (contract violation or model mismatch)")
  | .outOfScope why => (d, "REJECT out of scope: " ++ why)
  | .tick ns =>
    match WaitN.step d.st (.tick ns) with
    | .ok s' => ({ d with st := s' }, "ok")
    | .error m => (d, "REJECT " ++ m)
  | .remember t api a b => feed { d with last := insert t (api, a, b) d.last } t .other
  | .nestedWaitN t dl count =>
    match lookup t d.last with
    | some (api, a, _) =>
      let o : Option ObjId :=
        if api = "nsync_note_wait" then (parseId "note" a).map .note
        else if api = "nsync_counter_wait" then (parseId "ctr" a).map .ctr
        else none
      match o with
      | some o =>
        if count ≠ 1 then (d, "bad-op")
        else if knownObj d.st o then feed d t (.callWaitN none dl [o] true)
        else (d, "REJECT out of scope: nsync_wait_n on an object this layer does not track")
      | none => (d, "REJECT nested nsync_wait_n outside nsync_note_wait / nsync_counter_wait")
    | none => (d, "REJECT nested nsync_wait_n without an enclosing call")
  | .ev t (.newNote k _) =>
    match lookup t d.last with
    | some ("nsync_note_new", par, dl) =>
      if par = "-" then
        match parseDeadline dl with
        | some ex => feed d t (.newNote k ex)
        | none => (d, "bad-op")
      else (d, "skip")       -- note with a parent: not tracked
    | _ => (d, "REJECT malloc in nsync_note_new without a call")
  | .ev t e => feed d t e

def step (d : DState) (line : String) : DState × String :=
  if line.startsWith "# begin" then (init, "#") else exec d (parseLine d.st line)

/-- run a whole log; returns the verdict lines -/
def runLog (lines : List String) : List String :=
  (lines.foldl (fun (acc : DState × List String) l =>
      let (d', out) := step acc.1 l
      (d', out :: acc.2)) (init, [])).2.reverse

end WaitN.Driver
