/-
  Line protocol of the `Futex` layer (property C12): one event-log line in, one verdict out.

    ok              the line is exactly what the model prescribes for that thread / semaphore
    REJECT <why>    the C code could not have performed this event in this state
    skip            not an event of this layer (other api, loc that is not `sem<i>.i`, comment)
    bad-op          an event of this layer that cannot be parsed (never defaulted)

  Several semaphores can be replayed from one log: the semaphore is selected by the `sem<i>`
  argument of `call`, and by the `sem<i>.i` location of `atm` / `futex` lines.  `ret` and `now`
  lines carry no semaphore name; they are routed to the semaphore of that tid's last accepted
  `call`.  `- tick <ns>` is applied to every semaphore (one global virtual clock).
  A line `# ---` resets the driver (separator between concatenated logs).
  In `<site> = <file>/<k>/<function>` only `<function>` is checked (`<file>`, `<k>` are
  informative).  After a REJECT the state is left unchanged.
-/
import NsyncVerif.Model.Futex

namespace NsyncVerif.Futex.Driver

open NsyncVerif.Futex

structure DState where
  now : Nat                        -- global virtual clock (last accepted tick)
  sems : List (String × State)     -- semaphore name ↦ model state
  cur : List (Tid × String)        -- tid ↦ semaphore of its call in progress

def init : DState := { now := 0, sems := [], cur := [] }

def lookupSem (d : DState) (name : String) : State :=
  match d.sems.lookup name with
  | some s => s
  | none => { Futex.init with now := d.now }    -- = run init [tick d.now]

def setSem (d : DState) (name : String) (s : State) : DState :=
  { d with sems := (name, s) :: d.sems.filter (fun p => p.1 != name) }

/-- Deadline token: `inf`, a non-negative ns value, or a NEGATIVE ns value (a deadline before the epoch).
    nsync_mu_semaphore_p_with_deadline hands the kernel the epoch for a pre-epoch deadline
    (nsync_semaphore_futex.c, `if (ts_buf.tv_sec < 0)`), and on the model's clock (ℕ) a negative deadline and
    deadline 0 are the same "already expired" instant; the clamp itself is `Deadline.futexTimespec`,
    proved correct in Props/C15.lean. -/
def parseDl (tok : String) : Option (Option Nat) :=
  if tok = "inf" then some none
  else if tok.startsWith "-" then (match (tok.drop 1).toString.toNat? with | some _ => some (some 0) | none => none)
  else tok.toNat?.map some

def parseOrd (tok : String) : Option Ord :=
  if tok = "rlx" then some .rlx else if tok = "acq" then some .acq
  else if tok = "rel" then some .rel else if tok = "ar" then some .ar else none

def parseFn (name : String) : Option Fn :=
  if name = Fn.p.name then some .p else if name = Fn.pd.name then some .pd
  else if name = Fn.v.name then some .v else none

/-- `<file>/<k>/<function>` ↦ function (the last `/`-component). -/
def siteFn (site : String) : Option String :=
  match (site.splitOn "/").reverse with
  | fn :: _ :: _ :: _ => some fn
  | _ => none

def parseFRes (tok : String) : Option FRes :=
  if tok = "0" then some .ok else if tok = "EINTR" then some .eintr
  else if tok = "EAGAIN" then some .eagain else if tok = "EWOULDBLOCK" then some .eagain
  else if tok = "ETIMEDOUT" then some .etimedout else none

def parseBit (tok : String) : Option Bool :=
  if tok = "1" then some true else if tok = "0" then some false else none

/-- `sem<i>.i` ↦ `sem<i>`. -/
def locSem (loc : String) : Option String :=
  if loc.startsWith "sem" && loc.endsWith ".i" then some (loc.dropEnd 2).toString else none

def isSemName (name : String) : Bool := name.startsWith "sem" && !name.contains '.'

/-- Feed one event to semaphore `name`. -/
def feed (d : DState) (name : String) (e : Event) (after : DState → DState := id) :
    DState × String :=
  match Futex.step (lookupSem d name) e with
  | .ok s' => (after (setSem d name s'), "ok")
  | .error m => (d, s!"REJECT {name}: {m}")

def tickAll (d : DState) (ns : Nat) : DState × String :=
  if d.now ≤ ns then
    ({ d with now := ns, sems := d.sems.map (fun p => (p.1, { p.2 with now := ns })) }, "ok")
  else (d, s!"REJECT tick {ns}: clock would go backwards (now={d.now})")

def step (d : DState) (line : String) : DState × String :=
  match line.trimAscii.toString.splitOn " " with
  | [""] => (d, "skip")
  | ["#", "---"] => (init, "skip")
  | ["-", "tick", ns] =>
      match ns.toNat? with
      | some n => tickAll d n
      | none => (d, "bad-op")
  | t :: "call" :: api :: sem :: rest =>
      match parseFn api with
      | none => (d, "skip")
      | some fn =>
        if !isSemName sem then (d, "skip") else
        match t.toNat? with
        | none => (d, "bad-op")
        | some tid =>
          if (d.cur.lookup tid).isSome then
            (d, s!"REJECT contract: tid {tid} calls {api} while inside another semaphore call")
          else
            let enter := fun (d' : DState) => { d' with cur := (tid, sem) :: d'.cur }
            match fn, rest with
            | .p, [] => feed d sem (.callP tid) enter
            | .v, [] => feed d sem (.callV tid) enter
            | .pd, [dl] =>
                match parseDl dl with
                | some dl => feed d sem (.callPD tid dl) enter
                | none => (d, "bad-op")
            | _, _ => (d, "bad-op")
  | [t, "ret", api, res] =>
      match parseFn api with
      | none => (d, "skip")
      | some fn =>
        match t.toNat? with
        | none => (d, "bad-op")
        | some tid =>
          match d.cur.lookup tid with
          | none => (d, s!"REJECT ret {api} by tid {tid} without a call in progress")
          | some sem =>
            let leave := fun (d' : DState) => { d' with cur := d'.cur.filter (fun p => p.1 != tid) }
            match fn, res with
            | .p, "-" => feed d sem (.retP tid) leave
            | .v, "-" => feed d sem (.retV tid) leave
            | .pd, "0" => feed d sem (.retPD tid false) leave
            | .pd, "ETIMEDOUT" => feed d sem (.retPD tid true) leave
            | _, _ => (d, "bad-op")
  | [t, "atm", site, op, ord, loc, exp, new, obs, ok] =>
      match locSem loc with
      | none => (d, "skip")
      | some sem =>
        match t.toNat?, siteFn site, parseOrd ord, obs.toNat? with
        | some tid, some fname, some o, some ob =>
          match parseFn fname with
          | none => (d, s!"REJECT {sem}: atomic access to the semaphore word from {fname}")
          | some fn =>
            if op = "ld" then
              if exp = "-" ∧ new = "-" ∧ ok = "-" then feed d sem (.ld tid fn o ob) else (d, "bad-op")
            else if op = "st" then
              match new.toNat? with
              | some nw => if exp = "-" ∧ ok = "-" then feed d sem (.st tid fn o nw ob) else (d, "bad-op")
              | none => (d, "bad-op")
            else if op = "cas" then
              match exp.toNat?, new.toNat?, parseBit ok with
              | some ex, some nw, some b => feed d sem (.cas tid fn o ex nw ob b)
              | _, _, _ => (d, "bad-op")
            else (d, "bad-op")
        | _, _, _, _ => (d, "bad-op")
  | [t, "futex", "wait", loc, val, dl] =>
      match locSem loc with
      | none => (d, "skip")
      | some sem =>
        match t.toNat?, val.toNat?, parseDl dl with
        | some tid, some v, some dl => feed d sem (.fwait tid v dl)
        | _, _, _ => (d, "bad-op")
  | [t, "futex", "wait_ret", loc, res] =>
      match locSem loc with
      | none => (d, "skip")
      | some sem =>
        match t.toNat?, parseFRes res with
        | some tid, some r => feed d sem (.fwaitRet tid r)
        | _, _ => (d, "bad-op")
  | [t, "futex", "wake", loc, n, woken] =>
      match locSem loc with
      | none => (d, "skip")
      | some sem =>
        match t.toNat?, n.toNat?, woken.toNat? with
        | some tid, some n, some w => feed d sem (.fwake tid n w)
        | _, _, _ => (d, "bad-op")
  | [t, "now", ns] =>
      match t.toNat? with
      | none => (d, "skip")                 -- environment / not a fiber
      | some tid =>
        match d.cur.lookup tid with
        | none => (d, "skip")               -- clock read outside any semaphore call
        | some sem =>
          match ns.toNat? with
          | some n => feed d sem (.now tid n)
          | none => (d, "bad-op")
  | tok :: rest =>
      if tok.startsWith "#" then (d, "skip")
      else match rest with
        | "futex" :: _ => (d, "bad-op")
        | "tick" :: _ => (d, "bad-op")
        | "atm" :: more => if more.any (fun x => (locSem x).isSome) then (d, "bad-op") else (d, "skip")
        | "call" :: api :: _ => if (parseFn api).isSome then (d, "bad-op") else (d, "skip")
        | "ret" :: api :: _ => if (parseFn api).isSome then (d, "bad-op") else (d, "skip")
        | _ => (d, "skip")
  | [] => (d, "skip")

/-- Replay a whole log; the list of verdicts. -/
def replay (lines : List String) : List String :=
  (lines.foldl (fun (acc : DState × List String) l =>
      let r := step acc.1 l
      (r.1, r.2 :: acc.2)) (init, [])).2.reverse

end NsyncVerif.Futex.Driver
