import NsyncVerif.Model.CvFix
import NsyncVerif.Model.MuX
import NsyncVerif.Model.VC
/-
  CvMu — the COMPOSITION of two existing acceptors on one event log (property C03, cv-signal edge
  for waiters that wake_waiters TRANSFERS to the mutex queue, cv.c:64-135).  No new model of any
  C code: a joint event is delivered to
    * `CvFix.step`  (cv.c, statement by statement) — events `cv e …`, and
    * `MuX.step`    (the exclusion protocol of one `nsync_mu` word, one copy per mutex `m`) —
                    events `mu m x` (mu.c, mu_wait.c, debug.c, cv.c of another cv, … on the word of
                    mutex `m`), AND the accesses of cv.c itself to a mutex word
                    (`muLd` / `muCas`, cv.c/0..4 and cv.c/7), which are events of BOTH layers.
  So the mutex word is a real location for all threads, with its value, the ghost holder `sp` of
  its queue spinlock, and the order checks of `MuX.applyWrite` (a write that takes the spinlock is
  an acquire, one that gives it up a release, a plain store to the word is a release store by the
  holder of spinlock and writer bit).

  On top of the two acceptors there are five CHECKS (`ghostStep`), each a fact about cv.c / mu.c
  that neither layer can state alone; a joint log is accepted iff both layers accept their
  projections (`Proofs/CvMuVC.lean`: `jrun_cv`, `jrun_mu`) and the checks hold:
    K1  a successful `ATM_CAS_ACQ (&pmu->word, …)` [cv.c/1] makes its thread the holder of the
        spinlock of that mutex (cv.c:65 tests `(old_mu_word & MU_SPINLOCK) == 0`);
    K2  the successful `ATM_CAS_REL (&pmu->word, …)` [cv.c/3] is on the mutex of cv.c/1;
    K3  a thread between cv.c/1 and cv.c/3 executes only cv.c (no event of other code on a mutex
        word);
    K4  the store that wakes a TRANSFERRED waiter (`waiting := 0` into a record in status `xfer`,
        from outside cv.c: mu.c/28, nsync_mu_unlock_slow_) is a RELEASE store;
    K5  … by a thread that has performed a successful ACQUIRE read-modify-write on the word of the
        mutex the record was transferred to, after the transfer was PUBLISHED (after the waker's
        cv.c/3).  [nsync_mu_unlock_slow_ takes the waiters it wakes from `mu->waiters`, which it
        reads only while holding the queue spinlock, which it takes with `ATM_CAS_RELACQ` (mu.c/24)
        or, when re-taking it after evaluating conditions, with nsync_spin_test_and_set_'s
        `ATM_CAS_ACQ` (common.c/1).  The queue itself is plain memory: no layer has it as events;
        this is the one fact taken from the log instead of being derived.]
  Ghosts of the checks: `tm u` mutex of `u`'s latest successful cv.c/1; `xm r` mutex the record
  was last transferred to; `pub r` that transfer has been published; `got v r` thread `v` has
  acquired the word of `xm r` since.

  Core Lean only.
-/
namespace NsyncVerif.CvMu
open NsyncVerif NsyncVerif.CvFix

abbrev MuId := Nat

def ordX : VC.Ord → MuX.Ord
  | .rlx => .rlx | .acq => .acq | .rel => .rel | .ar => .ar

/-- The order cv.c declares at its sites on a mutex word (cv.c/1 `ATM_CAS_ACQ`, cv.c/3
    `ATM_CAS_REL`, the loads relaxed); equal to `siteOrd ∘ mSite` (`mOrd_siteOrd`). -/
def mOrd : MSite → VC.Ord
  | .wwCas => .acq
  | .wwRelCas => .rel
  | _ => .rlx

/-- cv.c's access to a mutex word as an event of the mutex protocol. -/
def muxOf : Event → Option MuX.Ev
  | .muLd t _ obs => some (.ld t obs)
  | .muCas t site exp new obs ok =>
    some (if ok then .cas t exp new (ordX (mOrd site)) else .casFail t exp obs)
  | _ => none

/-- A joint event. -/
inductive XEv where
  /-- an event of the CvFix layer; `m` = the mutex of a `muLd` / `muCas` (unused otherwise);
      `o` = the order logged with a foreign access `fLd` / `fSt` / `fCas` (unused otherwise) -/
  | cv (e : Event) (m : MuId) (o : VC.Ord)
  /-- an event of other code on mutex `m` (any `MuX.Ev`: atomics on the word, API boundaries,
      lock annotations) -/
  | mu (m : MuId) (x : MuX.Ev)

/-- wake_waiters holds a mutex' spinlock: between cv.c/1 succeeded and cv.c/3 succeeded. -/
def inTransfer : Loc → Bool
  | .wwRelLd | .wwRelCas | .wwRelLd2 => true
  | _ => false

structure Ghost where
  tm : Tid → MuId := fun _ => 0
  xm : Rid → MuId := fun _ => 0
  pub : Rid → Bool := fun _ => false
  got : Tid → Rid → Bool := fun _ _ => false

/-- What the checks need to know of an event. -/
inductive Kind where
  /-- successful cv.c/1 by `u` on mutex `m` -/
  | xferCas (u : Tid) (m : MuId)
  /-- successful cv.c/3 -/
  | pubCas (u : Tid) (m : MuId)
  /-- other code: successful CAS with acquire on the word of `m` -/
  | muAcq (v : Tid) (m : MuId)
  /-- other code: any other event on a mutex -/
  | muOther (v : Tid)
  /-- store of 0 into `r.waiting` from outside cv.c (of this cv), logged order `o` -/
  | wake (v : Tid) (r : Rid) (o : VC.Ord)
  | other

def kindCv (e : Event) (m : MuId) (o : VC.Ord) : Kind :=
  match e with
  | .muCas u .wwCas _ _ _ true => .xferCas u m
  | .muCas u .wwRelCas _ _ _ true => .pubCas u m
  | .fSt v r .waiting 0 => .wake v r o
  | _ => .other

def kindMu (m : MuId) (x : MuX.Ev) : Kind :=
  match x with
  | .cas t _ _ ord => if ord.isAcq then .muAcq t m else .muOther t
  | x => .muOther x.tid

def chk {α : Type} (c : Prop) [Decidable c] (msg : String) (k : Except String α) : Except String α :=
  if c then k else .error msg

/-- The record enters status `xfer` in this step. -/
def newly (s s' : State) (r : Rid) : Bool :=
  decide ((s'.recs r).stat = RStat.xfer) && !decide ((s.recs r).stat = RStat.xfer)

/-- The checks K1–K5 and the ghost updates.  `s`, `s'`: CvFix state before / after the event;
    `sp'`: holder of the queue spinlock of every mutex after the event. -/
def ghostStep (s s' : State) (sp' : MuId → Option Tid) (k : Kind) (g : Ghost) : Except String Ghost :=
  match k with
  | .xferCas u m =>
    chk (sp' m = some u) "K1: cv.c/1 succeeded but its thread is not the holder of the mutex' spinlock" <|
    .ok { tm := fun t => if t = u then m else g.tm t,
          xm := fun r => if newly s s' r then m else g.xm r,
          pub := fun r => if newly s s' r then false else g.pub r,
          got := fun v r => if newly s s' r then false else g.got v r }
  | .pubCas u m =>
    chk (m = g.tm u) "K2: cv.c/3 on another mutex than cv.c/1" <|
    .ok { g with pub := fun r => g.pub r ||
            (decide ((s.recs r).stat = RStat.xfer) && decide ((s.recs r).unl = [Unl.waker u])) }
  | .muAcq v m =>
    chk (inTransfer (s.thr v).loc = false) "K3: event of other code on a mutex from a thread between cv.c/1 and cv.c/3" <|
    .ok { g with got := fun t r => g.got t r || (decide (t = v) && g.pub r && decide (g.xm r = m)) }
  | .muOther v =>
    chk (inTransfer (s.thr v).loc = false) "K3: event of other code on a mutex from a thread between cv.c/1 and cv.c/3" <|
    .ok g
  | .wake v r o =>
    if (s.recs r).stat = RStat.xfer then
      chk (o.isRel = true) "K4: a transferred waiter is woken by a store that is not a release" <|
      chk (g.got v r = true) "K5: a transferred waiter is woken by a thread that has not acquired the mutex word since the transfer was published" <|
      .ok g
    else .ok g
  | .other => .ok g

structure JState where
  s : State
  mx : MuId → MuX.State
  g : Ghost

def jinit : JState := ⟨CvFix.init, fun _ => MuX.init, {}⟩

def updM (f : MuId → MuX.State) (m : MuId) (v : MuX.State) : MuId → MuX.State :=
  fun x => if x = m then v else f x

/-- Deliver `x?` (if any) to the protocol state of mutex `m`. -/
def muxStep (mx : MuId → MuX.State) (m : MuId) : Option MuX.Ev → Except String (MuId → MuX.State)
  | none => .ok mx
  | some x =>
    match MuX.step (mx m) x with
    | .ok mm => .ok (updM mx m mm)
    | .error msg => .error ("MuX: " ++ msg)

def jstep (cfg : Config) (j : JState) : XEv → Except String JState
  | .cv e m o =>
    match CvFix.step cfg j.s e with
    | .error msg => .error msg
    | .ok s' =>
      match muxStep j.mx m (muxOf e) with
      | .error msg => .error msg
      | .ok mx' =>
        match ghostStep j.s s' (fun k => (mx' k).sp) (kindCv e m o) j.g with
        | .error msg => .error msg
        | .ok g' => .ok ⟨s', mx', g'⟩
  | .mu m x =>
    match muxStep j.mx m (some x) with
    | .error msg => .error msg
    | .ok mx' =>
      match ghostStep j.s j.s (fun k => (mx' k).sp) (kindMu m x) j.g with
      | .error msg => .error msg
      | .ok g' => .ok ⟨j.s, mx', g'⟩

def jrun (cfg : Config) (j : JState) : List XEv → Except String JState
  | [] => .ok j
  | e :: es =>
    match jstep cfg j e with
    | .ok j' => jrun cfg j' es
    | .error msg => .error msg

/-- All joint states the code can reach: any number of threads, records and mutexes, any program,
    any schedule. -/
def JReachable (cfg : Config) (j : JState) : Prop := ∃ evs, jrun cfg jinit evs = .ok j

/-- The projections: what each layer sees of a joint log. -/
def cvProj : List XEv → List Event
  | [] => []
  | .cv e _ _ :: es => e :: cvProj es
  | .mu _ _ :: es => cvProj es

def muProj (m : MuId) : List XEv → List MuX.Ev
  | [] => []
  | .cv e m' _ :: es =>
    match muxOf e with
    | some x => if m' = m then x :: muProj m es else muProj m es
    | none => muProj m es
  | .mu m' x :: es => if m' = m then x :: muProj m es else muProj m es

end NsyncVerif.CvMu
