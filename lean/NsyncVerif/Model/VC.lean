/-
  VC — happens-before from declared memory orders, for arbitrary atomic locations (property C03).

  A vector-clock machine over the atomic operations of a trace.  The ONLY sources of ordering are
  program order and synchronises-with edges derived from the order each operation requests
  (relaxed / acquire / release / acq_rel) with the C++20 release-sequence rule:
    * a release store starts a release sequence on its location (release clock := the storer's clock);
    * a relaxed plain store breaks it (release clock := ⊥);
    * a successful read-modify-write continues it, and joins its own clock into it if it is a release;
    * an acquire load / acquire RMW joins the location's release clock into the reader's clock;
    * a failed CAS is a relaxed load (all three atomic.h flavours request relaxed on failure).
  Semaphores, the futex, the scheduler and sequential consistency of the interleaving contribute NO
  edges.  Core Lean only.
-/
namespace NsyncVerif.VC

abbrev Tid := Nat
abbrev Clock := Tid → Nat

def Clock.bot : Clock := fun _ => 0
def Clock.join (a b : Clock) : Clock := fun i => max (a i) (b i)
def Clock.le (a b : Clock) : Prop := ∀ i, a i ≤ b i
def Clock.tick (a : Clock) (t : Tid) : Clock := fun i => if i = t then a i + 1 else a i

inductive Ord | rlx | acq | rel | ar
deriving DecidableEq, Repr
def Ord.isAcq : Ord → Bool | .acq | .ar => true | _ => false
def Ord.isRel : Ord → Bool | .rel | .ar => true | _ => false

/-- An atomic operation: load (or failed CAS), plain store, successful read-modify-write. -/
inductive Op | ld | st | rmw
deriving DecidableEq, Repr

structure AEv (Loc : Type) where
  t : Tid
  op : Op
  ord : Ord
  loc : Loc

structure St (Loc : Type) where
  vc : Tid → Clock
  relc : Loc → Clock

def St.init {Loc : Type} : St Loc :=
  { vc := fun t => fun i => if i = t then 1 else 0, relc := fun _ => Clock.bot }

def upd {α β : Type} [DecidableEq α] (f : α → β) (a : α) (b : β) : α → β := fun x => if x = a then b else f x

def step {Loc : Type} [DecidableEq Loc] (s : St Loc) (e : AEv Loc) : St Loc :=
  match e.op with
  | .ld =>
      if e.ord.isAcq then { s with vc := upd s.vc e.t (Clock.join (s.vc e.t) (s.relc e.loc)) } else s
  | .st =>
      { vc := upd s.vc e.t ((s.vc e.t).tick e.t),
        relc := upd s.relc e.loc (if e.ord.isRel then s.vc e.t else Clock.bot) }
  | .rmw =>
      let vt := if e.ord.isAcq then Clock.join (s.vc e.t) (s.relc e.loc) else s.vc e.t
      { vc := upd s.vc e.t (vt.tick e.t),
        relc := upd s.relc e.loc (if e.ord.isRel then Clock.join (s.relc e.loc) vt else s.relc e.loc) }

def run {Loc : Type} [DecidableEq Loc] (s : St Loc) : List (AEv Loc) → St Loc
  | [] => s
  | e :: es => run (step s e) es

end NsyncVerif.VC
