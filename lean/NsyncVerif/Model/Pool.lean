/-
  Layer `Pool` (the "waiter-pool contract" of the trusted base): executable acceptor model of
  /repo/internal/common.c:139-229 — `nsync_waiter_new_`, `nsync_waiter_free_`, `waiter_destroy`,
  the free list `free_waiters`, its spinlock word `free_waiters_mu` (log name `pool.mu`) taken by
  `nsync_spin_test_and_set_ (&free_waiters_mu, 1, 1, 0)` (common.c:102-111) and released by
  `ATM_STORE_REL (&free_waiters_mu, 0)`.

  Granularity: one atomic operation on `pool.mu` / on `w.remove_count` per step (the three ATM
  sites of the spin loop, the three release stores, the initialising store of `remove_count`),
  plus the logged `malloc`, plus the two API boundaries of the pool that carry the identity of
  the struct: `new` returns `w` (`nret nsync_waiter_new_ w<k>`), `free (w)` is entered
  (`ncall nsync_waiter_free_ w<k>`).  Plain code is folded into the adjacent step:
    * the test of `tw` / `tw->flags` at the head of `nsync_waiter_new_` into the FIRST step of the
      call (fast path: the return step; pool path: the first load of the spin loop);
    * the list operation of a critical section (`nsync_dll_remove_` / `…make_first_in_list_`)
      into the release store that ends it (it is executed while the lock is still held);
    * common.c:197-203 (tags, semaphore, `nw.sem`, `nw.q`, `nw.waiting = 0`, `nw.flags = MUCV`)
      into the `malloc` step; common.c:204-206 (`remove_count = 0`, `same_condition`,
      `flags = 0`) into the store of site 5;
    * common.c:208-217 (`flags |= RESERVED`, `nsync_set_per_thread_waiter_`, `flags |= IN_USE`)
      into the return step;
    * common.c:222-224 (`ASSERT IN_USE`, `flags &= ~IN_USE`, test of RESERVED) into the entry step
      of `nsync_waiter_free_`; common.c:152-155 into the `exit` step of `waiter_destroy`.
  All folded plain accesses are to memory private to the executing thread at that moment (the
  struct in transit, the thread's own reserved struct, the per-thread slot), or to the list while
  the spinlock is held — theorem `Pool_free_list_inv` proves the latter, `Pool_no_leak` the
  former (a struct has exactly one location).

  The 2-bit word `w->flags` is represented by two Booleans (`reserved`, `inuse`); the C tests
  `(flags & (RESERVED|IN_USE)) != RESERVED`, `(flags & IN_USE) != 0`, `(flags & RESERVED) == 0`
  are the corresponding Boolean tests.

  `HAVE_THREAD_LOCAL` is off in the harness: the per-thread slot is `nsync_per_thread_waiter_ ()`
  (`ptw`), keyed by fiber.  With thread-local storage on, `waiter_for_thread` plays the same role
  (both are only read/written by the thread itself), so the model covers both builds.

  NOT MODELLED / REJECTED
  * `malloc` returning NULL: common.c:197 dereferences the result unchecked.  Event `mallocNull`
    is always rejected (the theorems say nothing about executions with a failed allocation).
  * Client obligations, checked by the acceptor (they are what the other layers do): a thread
    frees only a struct it holds (`free`); only the holder blocks on the struct's semaphore (`use`);
    clients write `remove_count` / `nw.waiting` only of initialised structs (`env`).

  Core Lean only.
-/

namespace Pool

abbrev Tid := Nat
abbrev Wid := Nat

/-- `NSYNC_WAITER_FLAG_MUCV` -/
def MUCV : Nat := 1

/-- What a thread inside `nsync_spin_test_and_set_ (&free_waiters_mu, 1, 1, 0)` will do with the
    lock: the caller and (for free/destroy) the struct it carries. -/
inductive Job
  /-- called from `nsync_waiter_new_` (common.c:184) -/
  | new
  /-- called from `nsync_waiter_free_ (w)` (common.c:225) -/
  | free (w : Wid)
  /-- called from `waiter_destroy (w)` (common.c:156) -/
  | destroy (w : Wid)
  deriving DecidableEq, Repr

/-- The function that contains a release store of `pool.mu` (sites 4, 6, 3). -/
inductive Fn
  | new | free | destroy
  deriving DecidableEq, Repr

def Job.fn : Job → Fn
  | .new => .new
  | .free _ => .free
  | .destroy _ => .destroy

/-- The struct a spinning thread carries. -/
def Job.carried : Job → Option Wid
  | .new => none
  | .free w => some w
  | .destroy w => some w

/-- Program counter: the constructor says which event is expected next. -/
inductive PC
  /-- not inside any pool function -/
  | idle
  /-- common.c:105 `old = ATM_LOAD (w)` (site 0) -/
  | spin0 (j : Job)
  /-- common.c:106 `ATM_CAS_ACQ (w, old, (old | set) & ~clear)` (site 1); `(old & test) == 0` -/
  | spinCas (j : Job) (old : Nat)
  /-- common.c:108 `old = ATM_LOAD (w)` (site 2), after a set test bit or a failed CAS -/
  | spinLd2 (j : Job)
  /-- spinlock held: list operation, then `ATM_STORE_REL (&free_waiters_mu, 0)` -/
  | cs (j : Job)
  /-- common.c:191-195: the list was empty, `malloc` is next -/
  | newMalloc
  /-- common.c:204 `ATM_STORE (&w->remove_count, 0)` (site 5) is next -/
  | newInit (w : Wid)
  /-- common.c:208-217: mark and return `w` -/
  | newRet (w : Wid)
  deriving DecidableEq, Repr

/-- The struct that is in the hands of the pool code executed by a thread at this pc
    (neither on the list, nor reserved-idle, nor handed out). -/
def PC.transit : PC → Option Wid
  | .idle => none
  | .spin0 j => j.carried
  | .spinCas j _ => j.carried
  | .spinLd2 j => j.carried
  | .cs j => j.carried
  | .newMalloc => none
  | .newInit w => some w
  | .newRet w => some w

/-- GHOST: where a struct is. -/
inductive Loc
  /-- not yet allocated -/
  | unalloc
  /-- on `free_waiters` -/
  | free
  /-- carried by the pool code executed by thread `t` -/
  | transit (t : Tid)
  /-- handed out by `nsync_waiter_new_` to `t`, not yet given back -/
  | held (t : Tid)
  /-- the reserved struct of `t`, not in use -/
  | resIdle (t : Tid)
  deriving DecidableEq, Repr

/-- The four fields of the contract that clients rely on. -/
inductive Fld
  | rc | waiting | nwflags | sem
  deriving DecidableEq, Repr

/-- The two atomic fields clients write. -/
inductive AFld
  | rc | waiting
  deriving DecidableEq, Repr

inductive Ev
  /-- `<t> atm common.c/<site>/nsync_spin_test_and_set_ ld rlx pool.mu - - <obs> -`, site 0 or 2 -/
  | ld (t : Tid) (site : Nat) (obs : Nat)
  /-- `<t> atm common.c/1/nsync_spin_test_and_set_ cas acq pool.mu <exp> <new> <obs> <ok>` -/
  | cas (t : Tid) (exp new obs : Nat) (ok : Bool)
  /-- `<t> atm common.c/<3|4|6>/<fn> st rel pool.mu - 0 <obs> -` -/
  | rel (t : Tid) (fn : Fn) (obs : Nat)
  /-- `<t> malloc w<k> nsync_waiter_new_` -/
  | malloc (t : Tid) (w : Wid)
  /-- `<t> malloc NULL nsync_waiter_new_`: always rejected -/
  | mallocNull (t : Tid)
  /-- `<t> atm common.c/5/nsync_waiter_new_ st rlx w<k>.remove_count - 0 <obs> -`
      (`obs` is uninitialised memory: unconstrained) -/
  | stRc (t : Tid) (w : Wid) (obs : Nat)
  /-- `<t> nret nsync_waiter_new_ w<k>` -/
  | ret (t : Tid) (w : Wid)
  /-- `<t> ncall nsync_waiter_free_ w<k>` -/
  | free (t : Tid) (w : Wid)
  /-- thread exit: the platform calls `waiter_destroy (per-thread waiter)` -/
  | exit (t : Tid)
  /-- client: `t` blocks on the semaphore of `w` (`sem p_enter|pd_enter sem<k>`) -/
  | use (t : Tid) (w : Wid)
  /-- client: an atomic store / successful CAS to `w.remove_count` or `w.nw.waiting` -/
  | env (w : Wid) (f : AFld) (obs new : Nat)
  deriving DecidableEq, Repr

structure State where
  /-- `free_waiters_mu` -/
  mu : Nat
  /-- `free_waiters`, first element first -/
  free : List Wid
  /-- number of structs allocated so far (they are named 0 … nalloc-1, in malloc order) -/
  nalloc : Nat
  /-- `w->flags & WAITER_RESERVED` -/
  reserved : Wid → Bool
  /-- `w->flags & WAITER_IN_USE` -/
  inuse : Wid → Bool
  /-- `nsync_per_thread_waiter_ ()` of each thread -/
  ptw : Tid → Option Wid
  pc : Tid → PC
  /-- `w->remove_count` -/
  rc : Wid → Nat
  /-- `w->nw.waiting` -/
  waiting : Wid → Nat
  /-- `w->nw.flags` -/
  nwflags : Wid → Nat
  /-- `w->nw.sem` (`some w` = `&w->sem`) -/
  sem : Wid → Option Wid
  /-- ghost: the thread whose CAS took the spinlock -/
  holder : Option Tid
  /-- ghost: location of each struct -/
  loc : Wid → Loc
  /-- ghost: the initialisation block (common.c:197-206) of the struct has completed -/
  ready : Wid → Bool
  /-- ghost: number of executions of the initialisation block on the struct -/
  inits : Wid → Nat
  /-- ghost: number of writes by pool code to each contract field of the struct -/
  nwr : Wid → Fld → Nat

/-- Pointwise function update. -/
def upd {β : Type} (f : Nat → β) (a : Nat) (b : β) : Nat → β :=
  fun x => if x = a then b else f x

@[simp] theorem upd_same {β : Type} (f : Nat → β) (a : Nat) (b : β) : upd f a b a = b := by
  simp [upd]

theorem upd_apply {β : Type} (f : Nat → β) (a : Nat) (b : β) (x : Nat) :
    upd f a b x = if x = a then b else f x := rfl

/-- One more pool write to field `f` of struct `w`. -/
def bump (n : Wid → Fld → Nat) (w : Wid) (f : Fld) : Wid → Fld → Nat :=
  fun x g => if x = w ∧ g = f then n x g + 1 else n x g

def init : State where
  mu := 0
  free := []
  nalloc := 0
  reserved := fun _ => false
  inuse := fun _ => false
  ptw := fun _ => none
  pc := fun _ => .idle
  rc := fun _ => 0
  waiting := fun _ => 0
  nwflags := fun _ => 0
  sem := fun _ => none
  holder := none
  loc := fun _ => .unalloc
  ready := fun _ => false
  inits := fun _ => 0
  nwr := fun _ _ => 0

def need (c : Prop) [Decidable c] (msg : String) (k : Except String State) : Except String State :=
  if c then k else .error msg

/-- The struct the fast path of `nsync_waiter_new_` returns (common.c:182 false):
    `tw != NULL && (tw->flags & (RESERVED|IN_USE)) == RESERVED`. -/
def fast (s : State) (t : Tid) : Option Wid :=
  match s.ptw t with
  | some w => if s.reserved w = true ∧ s.inuse w = false then some w else none
  | none => none

/-- common.c:105-108: after a load of `pool.mu`: `(old & 1) != 0` → reload, else try the CAS. -/
def afterLoad (j : Job) (obs : Nat) : PC :=
  if obs % 2 = 1 then .spinLd2 j else .spinCas j obs

/-- The acceptor.  Rejects every event the C code (and a contract-abiding client) could not
    perform in the given state. -/
def step (s : State) : Ev → Except String State
  | .ld t site obs =>
    need (obs = s.mu) "ld: observed value differs from pool.mu" <|
    match s.pc t with
    | .idle =>
      need (site = 0) "ld: not the first load of the spin loop" <|
      need (fast s t = none) "new: pool path taken although the reserved struct is idle" <|
      .ok { s with pc := upd s.pc t (afterLoad .new obs) }
    | .spin0 j =>
      need (site = 0) "ld: not the first load of the spin loop" <|
      .ok { s with pc := upd s.pc t (afterLoad j obs) }
    | .spinLd2 j =>
      need (site = 2) "ld: not the reload of the spin loop" <|
      .ok { s with pc := upd s.pc t (afterLoad j obs) }
    | _ => .error "ld: thread is not at a load of the spin loop"
  | .cas t exp new obs ok =>
    match s.pc t with
    | .spinCas j old =>
      need (exp = old) "cas: expected value is not the loaded one" <|
      need (new = old ||| 1) "cas: new value is not old | 1" <|
      need (obs = s.mu) "cas: observed value differs from pool.mu" <|
      need (ok = decide (obs = exp)) "cas: wrong success flag" <|
      if ok then .ok { s with mu := new, holder := some t, pc := upd s.pc t (.cs j) }
      else .ok { s with pc := upd s.pc t (.spinLd2 j) }
    | _ => .error "cas: thread is not at the CAS of the spin loop"
  | .rel t fn obs =>
    match s.pc t with
    | .cs j =>
      need (j.fn = fn) "rel: release store of another function" <|
      need (obs = s.mu) "rel: observed value differs from pool.mu" <|
      match j with
      | .new =>
        match s.free with
        | [] => .ok { s with mu := 0, holder := none, pc := upd s.pc t .newMalloc }
        | q :: rest =>
          .ok { s with mu := 0, holder := none, free := rest, loc := upd s.loc q (.transit t),
                       pc := upd s.pc t (.newRet q) }
      | .free w =>
        .ok { s with mu := 0, holder := none, free := w :: s.free, loc := upd s.loc w .free,
                     pc := upd s.pc t .idle }
      | .destroy w =>
        .ok { s with mu := 0, holder := none, free := w :: s.free, loc := upd s.loc w .free,
                     pc := upd s.pc t .idle }
    | _ => .error "rel: thread does not hold the spinlock"
  | .malloc t w =>
    match s.pc t with
    | .newMalloc =>
      need (w = s.nalloc) "malloc: not a fresh struct" <|
      .ok { s with nalloc := s.nalloc + 1, loc := upd s.loc w (.transit t),
                   sem := upd s.sem w (some w), waiting := upd s.waiting w 0,
                   nwflags := upd s.nwflags w MUCV, inits := upd s.inits w (s.inits w + 1),
                   nwr := bump (bump (bump s.nwr w .sem) w .waiting) w .nwflags,
                   pc := upd s.pc t (.newInit w) }
    | _ => .error "malloc: thread is not at the allocation of nsync_waiter_new_"
  | .mallocNull _ =>
    .error "malloc NULL: common.c:197 dereferences the result of malloc unchecked"
  | .stRc t w _ =>
    match s.pc t with
    | .newInit w' =>
      need (w = w') "stRc: not the struct being initialised" <|
      .ok { s with rc := upd s.rc w 0, reserved := upd s.reserved w false,
                   inuse := upd s.inuse w false, ready := upd s.ready w true,
                   nwr := bump s.nwr w .rc, pc := upd s.pc t (.newRet w) }
    | _ => .error "stRc: thread is not initialising a struct"
  | .ret t w =>
    match s.pc t with
    | .idle =>
      need (fast s t = some w) "ret: fast path does not return this struct" <|
      .ok { s with inuse := upd s.inuse w true, loc := upd s.loc w (.held t) }
    | .newRet w' =>
      need (w = w') "ret: not the struct taken from the pool" <|
      match s.ptw t with
      | none =>
        .ok { s with reserved := upd s.reserved w true, ptw := upd s.ptw t (some w),
                     inuse := upd s.inuse w true, loc := upd s.loc w (.held t),
                     pc := upd s.pc t .idle }
      | some _ =>
        .ok { s with inuse := upd s.inuse w true, loc := upd s.loc w (.held t),
                     pc := upd s.pc t .idle }
    | _ => .error "ret: nsync_waiter_new_ cannot return here"
  | .free t w =>
    match s.pc t with
    | .idle =>
      need (s.loc w = .held t) "free: the caller does not hold this struct" <|
      need (s.inuse w = true) "free: ASSERT ((w->flags & WAITER_IN_USE) != 0)" <|
      if s.reserved w = true then
        .ok { s with inuse := upd s.inuse w false, loc := upd s.loc w (.resIdle t) }
      else
        .ok { s with inuse := upd s.inuse w false, loc := upd s.loc w (.transit t),
                     pc := upd s.pc t (.spin0 (.free w)) }
    | _ => .error "free: thread is inside a pool function"
  | .exit t =>
    match s.pc t with
    | .idle =>
      match s.ptw t with
      | some w =>
        need (s.reserved w = true ∧ s.inuse w = false)
          "exit: ASSERT ((w->flags & (RESERVED|IN_USE)) == RESERVED)" <|
        .ok { s with reserved := upd s.reserved w false, ptw := upd s.ptw t none,
                     loc := upd s.loc w (.transit t), pc := upd s.pc t (.spin0 (.destroy w)) }
      | none => .error "exit: no per-thread struct, the destructor is not called"
    | _ => .error "exit: thread is inside a pool function"
  | .use t w =>
    need (s.loc w = .held t) "use: thread blocks on the semaphore of a struct it does not hold" <|
    .ok s
  | .env w f obs new =>
    need (s.ready w = true) "env: client access to an uninitialised struct" <|
    match f with
    | .rc =>
      need (obs = s.rc w) "env: observed remove_count differs from the model" <|
      .ok { s with rc := upd s.rc w new }
    | .waiting =>
      need (obs = s.waiting w) "env: observed nw.waiting differs from the model" <|
      .ok { s with waiting := upd s.waiting w new }

def run (s : State) : List Ev → Except String State
  | [] => .ok s
  | e :: es =>
    match step s e with
    | .ok s' => run s' es
    | .error m => .error m

def Reachable (s : State) : Prop := ∃ evs, run init evs = .ok s

/-- The thread performing the event (`none` for client writes, which any thread may do). -/
def Ev.tid : Ev → Option Tid
  | .ld t .. | .cas t .. | .rel t .. | .malloc t .. | .mallocNull t | .stRc t .. | .ret t ..
  | .free t .. | .exit t | .use t .. => some t
  | .env .. => none

end Pool
