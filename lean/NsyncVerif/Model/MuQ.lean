/-
  MuQ — the detailed model of ONE `nsync_mu`: hint bits, waiter queue, per-waiter `waiting` flag
  and semaphore (properties C02, C14 and the mutex half of C13).

  SCOPE ("core operations", exactly the quantifier of C02): nsync_mu_lock, nsync_mu_rlock,
  nsync_mu_trylock, nsync_mu_rtrylock, nsync_mu_unlock, nsync_mu_runlock, nsync_mu_lock_slow_,
  nsync_mu_unlock_slow_, mu_release_spinlock (internal/mu.c) on one mutex, by any number of
  threads, with counting or binary semaphores (`Cfg.binary`).  NOT in scope: nsync_mu_wait*,
  condition-variable transfer, nsync_mu_unlock_without_wakeup, debug calls.  Consequently
  MU_CONDITION is never set: the model's word never has the bit (invariant `C02_inv_lock`), so a
  logged value with that bit differs from the model's memory and is rejected by the acceptor,
  `testing_conditions` (mu.c:270) is always false, `early_release_mu = l_type->add_to_acquire`,
  `late_release_mu = 0`, no waiter has a condition.  MU_ALL_FALSE is kept exactly as the code
  manipulates it (set by the scan of unlock_slow, cleared by the enqueue CAS and by writer
  releases), although no core operation ever tests a condition.

  One model step = one atomic operation of the C code (load, failed or successful CAS, store),
  one semaphore operation (`p_enter`, `p_ret`, `v`) or one API boundary (`call`, `ret`).  Plain
  (non-atomic) statements are folded into the atomic step that precedes them; the only plain
  statements that touch shared state are executed while the executing thread holds MU_SPINLOCK
  (queue insertion in lock_slow, the waiter scan of unlock_slow).  `nsync_spin_delay_` performs no
  atomic operation and is not a step.

  `queue` is mu->waiters, front to back (list layer C17: make_last appends, make_first prepends,
  remove erases).  While an unlocker scans (mu.c:322-414) the C code keeps the list in the locals
  `new_waiters`/`waiters` and mu->waiters is NULL; nobody else can look (spinlock), so the model
  keeps the logical list in `queue` throughout and the scan removes the woken elements from it.

  Waiter records are shared with other mutexes/cvs through the free pool.  While a record is not
  in use by a thread inside lock_slow on THIS mutex, the environment may set its semaphore count
  arbitrarily (`envSem`); a V by somebody outside this mutex (a late post of an earlier use) may
  arrive at any time (`envV`).  `remove_count` is memory this mutex does not own: its loads are
  unconstrained, its CAS is checked against the value loaded.

  Idealisations: the reader count and `wait_count` are unbounded naturals (the C fields are 24
  and 32 bits wide).

  Core Lean only.
-/
namespace NsyncVerif.MuQ

abbrev Tid := Nat
abbrev Wid := Nat

inductive Mode | W | R
deriving DecidableEq, Repr

/-- Decoded nsync_mu word (internal/common.h:136-147). -/
structure Word where
  wlock : Bool      -- MU_WLOCK          bit 0
  spin : Bool       -- MU_SPINLOCK       bit 1
  waiting : Bool    -- MU_WAITING        bit 2
  desig : Bool      -- MU_DESIG_WAKER    bit 3
  cond : Bool       -- MU_CONDITION      bit 4
  ww : Bool         -- MU_WRITER_WAITING bit 5
  lw : Bool         -- MU_LONG_WAIT      bit 6
  af : Bool         -- MU_ALL_FALSE      bit 7
  readers : Nat     -- MU_RLOCK_FIELD    v / 256
deriving DecidableEq, Repr

def b2n (b : Bool) : Nat := if b then 1 else 0

def encode (w : Word) : Nat :=
  b2n w.wlock + 2 * b2n w.spin + 4 * b2n w.waiting + 8 * b2n w.desig + 16 * b2n w.cond
    + 32 * b2n w.ww + 64 * b2n w.lw + 128 * b2n w.af + 256 * w.readers

def decode (v : Nat) : Word :=
  { wlock := v % 2 == 1, spin := v / 2 % 2 == 1, waiting := v / 4 % 2 == 1, desig := v / 8 % 2 == 1,
    cond := v / 16 % 2 == 1, ww := v / 32 % 2 == 1, lw := v / 64 % 2 == 1, af := v / 128 % 2 == 1,
    readers := v / 256 }

def Word.zero : Word :=
  { wlock := false, spin := false, waiting := false, desig := false, cond := false, ww := false,
    lw := false, af := false, readers := 0 }

/-- LONG_WAIT_THRESHOLD (common.h:208). -/
def longWaitThreshold : Nat := 30

/-! ### lock_type tables (common.c:234-254) as functions on decoded words -/

/-- `(word & zero_to_acquire) != 0`; `ign` = `zero_to_acquire &= ~(MU_WRITER_WAITING|MU_LONG_WAIT)`
    has been executed (mu.c:60, mu.c:122). -/
def blocked (l : Mode) (ign : Bool) (w : Word) : Bool :=
  match l with
  | .W => w.wlock || w.readers != 0 || (!ign && w.lw)
  | .R => w.wlock || (!ign && (w.ww || w.lw))

/-- `(word + add_to_acquire) & ~(clear | long_wait | clear_on_acquire)`. -/
def acqWord (l : Mode) (clear lwl : Bool) (w : Word) : Word :=
  match l with
  | .W => { w with wlock := true, ww := false, desig := w.desig && !clear, lw := w.lw && !lwl }
  | .R => { w with readers := w.readers + 1, desig := w.desig && !clear, lw := w.lw && !lwl }

/-- `(word | MU_SPINLOCK | long_wait | set_when_waiting) & ~(clear | MU_ALL_FALSE)`. -/
def enqWord (l : Mode) (clear lwl : Bool) (w : Word) : Word :=
  { w with spin := true, waiting := true, ww := w.ww || (l == .W), lw := w.lw || lwl,
           desig := w.desig && !clear, af := false }

/-- The word holding exactly one share of mode `l` (MU_WLOCK resp. MU_RLOCK). -/
def addWord (l : Mode) : Word :=
  match l with
  | .W => { Word.zero with wlock := true }
  | .R => { Word.zero with readers := 1 }

/-- `word - add_to_acquire`; meaningful only when `hasShare l w`. -/
def subWord (l : Mode) (w : Word) : Word :=
  match l with
  | .W => { w with wlock := false }
  | .R => { w with readers := w.readers - 1 }

def hasShare (l : Mode) (w : Word) : Bool :=
  match l with
  | .W => w.wlock
  | .R => w.readers != 0

/-- `(word - add_to_acquire) & ~clear_on_uncontended_release`. -/
def relUncWord (l : Mode) (w : Word) : Word :=
  match l with
  | .W => { w with wlock := false, af := false }
  | .R => { w with readers := w.readers - 1 }

/-- `(word - early_release_mu) | MU_SPINLOCK | MU_DESIG_WAKER` with early_release_mu = add. -/
def grabWord (l : Mode) (w : Word) : Word :=
  { subWord l w with spin := true, desig := true }

/-- First test of unlock_slow (mu.c:288-290): release without waking. -/
def uncontended (w : Word) : Bool :=
  !w.waiting || w.desig || decide (w.readers > 1) || (w.readers % 2 == 1 && w.af)

/-! ### Locals -/

/-- Live locals of nsync_mu_lock_slow_. -/
structure SL where
  l : Mode
  w : Option Wid    -- the waiter record, once the model has learned it (first `waiting` store)
  clear : Bool      -- clear == MU_DESIG_WAKER
  ign : Bool        -- zero_to_acquire has MU_WRITER_WAITING|MU_LONG_WAIT masked out
  wc : Nat          -- wait_count
  lwl : Bool        -- long_wait == MU_LONG_WAIT
deriving DecidableEq, Repr

/-- lock_slow as entered from nsync_mu_lock / nsync_mu_rlock: clear = 0. -/
def SL.entry (l : Mode) : SL := { l := l, w := none, clear := false, ign := false, wc := 0, lwl := false }

/-- mu.c:105-122 after the wait loop. -/
def SL.woken (c : SL) : SL :=
  { c with wc := c.wc + 1, lwl := if c.wc + 1 = longWaitThreshold then true else c.lwl,
           clear := true, ign := true }

/-- Locals of the waiter scan of unlock_slow (mu.c:326-394), testing_conditions = 0. -/
structure Scan where
  wake : List Wid       -- `wake`, in order
  todo : List Wid       -- from `p` to the end of new_waiters
  wt : Option Mode      -- wake_type
  sww : Bool            -- set_on_release has MU_WRITER_WAITING
  saf : Bool            -- set_on_release has MU_ALL_FALSE
deriving DecidableEq, Repr

/-- Locals after the scan (mu.c:414-430). -/
structure Fin where
  wake : List Wid
  sww : Bool
  saf : Bool
  cDesig : Bool         -- clear_on_release has MU_DESIG_WAKER (nothing woken)
  cAf : Bool            -- clear_on_release has MU_ALL_FALSE (not in set_on_release)
  cEmpty : Bool         -- queue empty: clear MU_WAITING|MU_WRITER_WAITING|MU_CONDITION|MU_ALL_FALSE
deriving DecidableEq, Repr

/-- `(word | set_on_release) & ~clear_on_release` (late_release_mu = 0; MU_SPINLOCK always cleared). -/
def finWord (f : Fin) (w : Word) : Word :=
  { w with spin := false,
           desig := w.desig && !f.cDesig,
           waiting := w.waiting && !f.cEmpty,
           cond := w.cond && !f.cEmpty,
           ww := (w.ww || f.sww) && !f.cEmpty,
           af := (w.af || f.saf) && !(f.cAf || f.cEmpty) }

inductive ScanRes
  | remove (k : Wid) (sc : Scan)   -- wake `k` next: remove it (two atomics on its remove_count)
  | done (sc : Scan)

/-- The inner loop mu.c:361-388 up to the next removal, then mu.c:390-394. -/
def scanGo (lt : Wid → Mode) : List Wid → Scan → ScanRes
  | [], sc => .done { sc with todo := [] }
  | k :: rest, sc =>
    if sc.wt = some .W then .done { sc with todo := k :: rest, saf := false }
    else if sc.wt = none ∨ lt k = .R then
      .remove k { sc with wake := sc.wake ++ [k], todo := rest, wt := some (lt k) }
    else scanGo lt rest { sc with sww := true, saf := false }

def mkFin (sc : Scan) (queueEmpty : Bool) : Fin :=
  { wake := sc.wake, sww := sc.sww, saf := sc.saf, cDesig := sc.wake.isEmpty, cAf := !sc.saf,
    cEmpty := queueEmpty }

/-- Program points: one constructor per point between two steps, with the live locals. -/
inductive PC
  | idle
  -- nsync_mu_lock / nsync_mu_rlock
  | lkCas0 (l : Mode) | lkLd (l : Mode) | lkCas1 (l : Mode) (old : Word) | lkRet (l : Mode)
  -- nsync_mu_trylock / nsync_mu_rtrylock
  | tryCas0 (l : Mode) | tryLd (l : Mode) | tryCas1 (l : Mode) (old : Word) | tryRet (l : Mode) (res : Bool)
  -- nsync_mu_lock_slow_
  | lsLd (c : SL) | lsCasAcq (c : SL) (old : Word) | lsCasEnq (c : SL) (old : Word)
  | lsSt (c : SL)                         -- spinlock held: STORE waiting := 1 (+ queue insertion)
  | lsRelLd (c : SL) | lsRelCas (c : SL) (old : Word)   -- mu_release_spinlock
  | lsWaitLd (c : SL) | lsPEnter (c : SL) | lsPRet (c : SL)
  -- nsync_mu_unlock / nsync_mu_runlock
  | ulCas0 (l : Mode) | ulLd (l : Mode) | ulCas1 (l : Mode) (old : Word) | ulRet (l : Mode)
  -- nsync_mu_unlock_slow_
  | usLd (l : Mode) | usCasUnc (l : Mode) (old : Word) | usCasGrab (l : Mode) (old : Word)
  | usRcLd (l : Mode) (sc : Scan) (k : Wid) | usRcCas (l : Mode) (sc : Scan) (k : Wid) (old : Nat)
  | usFinLd (l : Mode) (f : Fin) | usFinCas (l : Mode) (f : Fin) (old : Word)
  | usWakeSt (l : Mode) (k : Wid) (rest : List Wid) | usWakeV (l : Mode) (k : Wid) (rest : List Wid)
deriving DecidableEq, Repr

/-- Waiter record. -/
structure WRec where
  owner : Option Tid    -- the thread using it inside lock_slow on this mutex
  waiting : Bool        -- nw.waiting
  lType : Mode          -- l_type
  sem : Nat             -- semaphore count
deriving DecidableEq, Repr

inductive Ord | rlx | acq | rel | ar
deriving DecidableEq, Repr

inductive Loc
  | word | waiting (k : Wid) | rc (k : Wid)
deriving DecidableEq, Repr

inductive Api | lock | rlock | trylock | rtrylock | unlock | runlock
deriving DecidableEq, Repr

inductive Event
  | call (t : Tid) (a : Api)
  | ret (t : Tid) (a : Api) (res : Option Bool)
  | ld (t : Tid) (o : Ord) (loc : Loc) (obs : Nat)
  | st (t : Tid) (o : Ord) (loc : Loc) (new obs : Nat)
  | cas (t : Tid) (o : Ord) (loc : Loc) (exp new obs : Nat) (ok : Bool)
  | semPEnter (t : Tid) (k : Wid)
  | semPRet (t : Tid) (k : Wid)
  | semV (t : Tid) (k : Wid)
  | envV (k : Wid)               -- a V from outside this mutex (late post of an earlier use)
  | envSem (k : Wid) (n : Nat)   -- the count of a record not in use here, as the environment left it
deriving Repr

def Event.tid : Event → Option Tid
  | .call t _ | .ret t _ _ | .ld t _ _ _ | .st t _ _ _ _ | .cas t _ _ _ _ _ _
  | .semPEnter t _ | .semPRet t _ | .semV t _ => some t
  | .envV _ | .envSem _ _ => none

def Event.isSem : Event → Bool
  | .semPEnter _ _ | .semPRet _ _ | .semV _ _ => true
  | _ => false

structure Cfg where
  binary : Bool      -- semaphore flavour: V sets the count to 1 instead of adding 1

structure State where
  word : Word
  queue : List Wid
  wr : Wid → WRec
  pc : Tid → PC
  held : Tid → Option Mode       -- client-visible ghost: between acquire-return and release-call
  wOwner : Option Tid            -- ghost: owner of MU_WLOCK
  rOwners : List Tid             -- ghost: owners of the reader count
  sp : Option Tid                -- ghost: owner of MU_SPINLOCK

def init : State :=
  { word := Word.zero, queue := [],
    wr := fun _ => { owner := none, waiting := false, lType := .W, sem := 0 },
    pc := fun _ => .idle, held := fun _ => none, wOwner := none, rOwners := [], sp := none }

def setFn {α : Type} (f : Nat → α) (t : Nat) (v : α) : Nat → α := fun u => if u = t then v else f u

def setPc (s : State) (t : Tid) (p : PC) : State := { s with pc := setFn s.pc t p }

def addShare (s : State) (t : Tid) : Mode → State
  | .W => { s with wOwner := some t }
  | .R => { s with rOwners := t :: s.rOwners }

def subShare (s : State) (t : Tid) : Mode → State
  | .W => { s with wOwner := none }
  | .R => { s with rOwners := s.rOwners.erase t }

def semPost (cfg : Cfg) (s : State) (k : Wid) : State :=
  { s with wr := setFn s.wr k { s.wr k with sem := if cfg.binary then 1 else (s.wr k).sem + 1 } }

/-- Release the waiter record when lock_slow returns. -/
def dropW (s : State) : Option Wid → State
  | none => s
  | some k => { s with wr := setFn s.wr k { s.wr k with owner := none } }

/-- A CAS on mu->word: the model supplies the expected word `old` (a local of the thread) and the
    new word `nw`; everything the log line says is compared with them and with the memory. -/
def casWord (s : State) (o want : Ord) (loc : Loc) (exp new obs : Nat) (ok : Bool)
    (old nw : Word) (succ fail : State) : Except String State :=
  if o ≠ want then .error "CAS with the wrong memory order"
  else if loc ≠ .word then .error "CAS on the wrong location"
  else if exp ≠ encode old then .error "CAS expected value differs from the model's"
  else if new ≠ encode nw then .error "CAS new value differs from the model's"
  else if obs ≠ encode s.word then .error "CAS observed a value the model's word does not hold"
  else if ok ≠ decide (obs = exp) then .error "CAS result inconsistent with observed/expected"
  else .ok (if ok then succ else fail)

def ldWord (s : State) (o : Ord) (loc : Loc) (obs : Nat) (next : State) : Except String State :=
  if o ≠ .rlx then .error "load with the wrong memory order"
  else if loc ≠ .word then .error "load from the wrong location"
  else if obs ≠ encode s.word then .error "load observed a value the model's word does not hold"
  else .ok next

/-- Continue the scan of unlock_slow for thread `t` from `sc` (plain code up to the next atomic). -/
def scanAdvance (s : State) (t : Tid) (l : Mode) (sc : Scan) : State :=
  match scanGo (fun k => (s.wr k).lType) sc.todo sc with
  | .remove k sc' => { setPc s t (.usRcLd l sc' k) with queue := s.queue.erase k }
  | .done sc' => setPc s t (.usFinLd l (mkFin sc' s.queue.isEmpty))

def afterFin (s : State) (t : Tid) (l : Mode) : List Wid → State
  | [] => setPc s t (.ulRet l)
  | k :: r => setPc s t (.usWakeSt l k r)

def stepCall (s : State) (t : Tid) (a : Api) : Except String State :=
  match s.pc t with
  | .idle =>
    match a with
    | .lock => if s.held t = none then .ok (setPc s t (.lkCas0 .W)) else .error "contract: lock of a mutex the caller holds"
    | .rlock => if s.held t = none then .ok (setPc s t (.lkCas0 .R)) else .error "contract: rlock of a mutex the caller holds"
    | .trylock => if s.held t = none then .ok (setPc s t (.tryCas0 .W)) else .error "contract: trylock of a mutex the caller holds"
    | .rtrylock => if s.held t = none then .ok (setPc s t (.tryCas0 .R)) else .error "contract: rtrylock of a mutex the caller holds"
    | .unlock =>
      if s.held t = some .W then .ok { setPc s t (.ulCas0 .W) with held := setFn s.held t none }
      else .error "contract: unlock of a mutex not held in write mode"
    | .runlock =>
      if s.held t = some .R then .ok { setPc s t (.ulCas0 .R) with held := setFn s.held t none }
      else .error "contract: runlock of a mutex not held in read mode"
  | _ => .error "call while another call on this mutex is in progress"

def stepRet (s : State) (t : Tid) (a : Api) (res : Option Bool) : Except String State :=
  match s.pc t, a, res with
  | .lkRet .W, .lock, none => .ok { setPc s t .idle with held := setFn s.held t (some .W) }
  | .lkRet .R, .rlock, none => .ok { setPc s t .idle with held := setFn s.held t (some .R) }
  | .tryRet .W r, .trylock, some r' =>
    if r = r' then .ok { setPc s t .idle with held := setFn s.held t (if r then some .W else none) }
    else .error "trylock returned a result the model does not predict"
  | .tryRet .R r, .rtrylock, some r' =>
    if r = r' then .ok { setPc s t .idle with held := setFn s.held t (if r then some .R else none) }
    else .error "rtrylock returned a result the model does not predict"
  | .ulRet .W, .unlock, none => .ok (setPc s t .idle)
  | .ulRet .R, .runlock, none => .ok (setPc s t .idle)
  | _, _, _ => .error "return not prescribed at this program point"

def stepLd (s : State) (t : Tid) (o : Ord) (loc : Loc) (obs : Nat) : Except String State :=
  let old := s.word
  match s.pc t with
  | .lkLd l =>
    ldWord s o loc obs (if blocked l false old then setPc s t (.lsLd (SL.entry l)) else setPc s t (.lkCas1 l old))
  | .tryLd l =>
    ldWord s o loc obs (if blocked l false old then setPc s t (.tryRet l false) else setPc s t (.tryCas1 l old))
  | .lsLd c =>
    ldWord s o loc obs
      (if !blocked c.l c.ign old then setPc s t (.lsCasAcq c old)
       else if !old.spin then setPc s t (.lsCasEnq c old)
       else setPc s t (.lsLd c))
  | .lsRelLd c => ldWord s o loc obs (setPc s t (.lsRelCas c old))
  | .lsWaitLd c =>
    match c.w with
    | none => .error "wait loop without a waiter record"
    | some k =>
      if o ≠ .acq then .error "load of `waiting` must be an acquire load"
      else if loc ≠ .waiting k then .error "load from the wrong location"
      else if obs ≠ b2n (s.wr k).waiting then .error "load observed a value the model's `waiting` does not hold"
      else if (s.wr k).waiting then .ok (setPc s t (.lsPEnter c))
      else .ok (setPc s t (.lsLd c.woken))
  | .ulLd .W =>
    if !(old.wlock && old.readers == 0) then .error "panic: nsync_mu_unlock of a mutex not held in write mode"
    else ldWord s o loc obs
      (if old.waiting && !old.desig then setPc s t (.usLd .W) else setPc s t (.ulCas1 .W old))
  | .ulLd .R =>
    if old.wlock || old.readers == 0 then .error "panic/underflow: nsync_mu_runlock of a mutex not held in read mode"
    else ldWord s o loc obs
      (if old.waiting && !old.desig && old.readers == 1 && !old.af then setPc s t (.usLd .R)
       else setPc s t (.ulCas1 .R old))
  | .usLd l =>
    if !hasShare l old then .error "unlock_slow on a word without the caller's share"
    else ldWord s o loc obs
      (if uncontended old then setPc s t (.usCasUnc l old)
       else if !old.spin then setPc s t (.usCasGrab l old)
       else setPc s t (.usLd l))
  | .usRcLd l sc k =>
    if o ≠ .rlx then .error "load with the wrong memory order"
    else if loc ≠ .rc k then .error "load from the wrong location"
    else .ok (setPc s t (.usRcCas l sc k obs))
  | .usFinLd l f => ldWord s o loc obs (setPc s t (.usFinCas l f old))
  | _ => .error "load not prescribed at this program point"

def stepSt (s : State) (t : Tid) (o : Ord) (loc : Loc) (new obs : Nat) : Except String State :=
  match s.pc t with
  | .lsSt c =>
    match loc with
    | .waiting k =>
      if o ≠ .rlx then .error "store with the wrong memory order"
      else if new ≠ 1 then .error "store of the wrong value"
      else if obs ≠ b2n (s.wr k).waiting then .error "store overwrote a value the model's `waiting` does not hold"
      else if k ∈ s.queue then .error "contract: waiter record already queued"
      else
        let q := if c.wc = 0 then s.queue ++ [k] else k :: s.queue
        match c.w with
        | none =>
          -- the model learns which record nsync_waiter_new_ returned
          if (s.wr k).owner ≠ none then .error "contract: waiter record in use by another thread"
          else if (s.wr k).waiting then .error "contract: free waiter record with waiting ≠ 0"
          else .ok { setPc s t (.lsRelLd { c with w := some k }) with
                      queue := q,
                      wr := setFn s.wr k { s.wr k with owner := some t, waiting := true, lType := c.l } }
        | some k' =>
          if k ≠ k' then .error "store to another waiter record than the thread's own"
          else .ok { setPc s t (.lsRelLd c) with
                      queue := q, wr := setFn s.wr k { s.wr k with waiting := true } }
    | _ => .error "store to the wrong location"
  | .usWakeSt l k r =>
    if o ≠ .rel then .error "store with the wrong memory order"
    else if loc ≠ .waiting k then .error "store to the wrong location"
    else if new ≠ 0 then .error "store of the wrong value"
    else if obs ≠ b2n (s.wr k).waiting then .error "store overwrote a value the model's `waiting` does not hold"
    else .ok { setPc s t (.usWakeV l k r) with wr := setFn s.wr k { s.wr k with waiting := false } }
  | _ => .error "store not prescribed at this program point"

def stepCas (s : State) (t : Tid) (o : Ord) (loc : Loc) (exp new obs : Nat) (ok : Bool) :
    Except String State :=
  match s.pc t with
  | .lkCas0 l =>
    let nw := addWord l
    casWord s o .acq loc exp new obs ok Word.zero nw
      (addShare { setPc s t (.lkRet l) with word := nw } t l) (setPc s t (.lkLd l))
  | .lkCas1 l old =>
    let nw := acqWord l false false old
    casWord s o .acq loc exp new obs ok old nw
      (addShare { setPc s t (.lkRet l) with word := nw } t l) (setPc s t (.lsLd (SL.entry l)))
  | .tryCas0 l =>
    let nw := addWord l
    casWord s o .acq loc exp new obs ok Word.zero nw
      (addShare { setPc s t (.tryRet l true) with word := nw } t l) (setPc s t (.tryLd l))
  | .tryCas1 l old =>
    let nw := acqWord l false false old
    casWord s o .acq loc exp new obs ok old nw
      (addShare { setPc s t (.tryRet l true) with word := nw } t l) (setPc s t (.tryRet l false))
  | .lsCasAcq c old =>
    let nw := acqWord c.l c.clear c.lwl old
    casWord s o .acq loc exp new obs ok old nw
      (addShare (dropW { setPc s t (.lkRet c.l) with word := nw } c.w) t c.l) (setPc s t (.lsLd c))
  | .lsCasEnq c old =>
    let nw := enqWord c.l c.clear c.lwl old
    casWord s o .acq loc exp new obs ok old nw
      { setPc s t (.lsSt c) with word := nw, sp := some t } (setPc s t (.lsLd c))
  | .lsRelCas c old =>
    let nw := { old with spin := false }
    casWord s o .rel loc exp new obs ok old nw
      { setPc s t (.lsWaitLd c) with word := nw, sp := none } (setPc s t (.lsRelLd c))
  | .ulCas0 l =>
    casWord s o .rel loc exp new obs ok (addWord l) Word.zero
      (subShare { setPc s t (.ulRet l) with word := Word.zero } t l) (setPc s t (.ulLd l))
  | .ulCas1 l old =>
    let nw := relUncWord l old
    casWord s o .rel loc exp new obs ok old nw
      (subShare { setPc s t (.ulRet l) with word := nw } t l) (setPc s t (.usLd l))
  | .usCasUnc l old =>
    let nw := relUncWord l old
    casWord s o .rel loc exp new obs ok old nw
      (subShare { setPc s t (.ulRet l) with word := nw } t l) (setPc s t (.usLd l))
  | .usCasGrab l old =>
    let nw := grabWord l old
    casWord s o .ar loc exp new obs ok old nw
      (scanAdvance (subShare { s with word := nw, sp := some t } t l) t l
        { wake := [], todo := s.queue, wt := none, sww := false, saf := true })
      (setPc s t (.usLd l))
  | .usRcCas l sc k old =>
    if o ≠ .rlx then .error "CAS with the wrong memory order"
    else if loc ≠ .rc k then .error "CAS on the wrong location"
    else if exp ≠ old then .error "CAS expected value differs from the value loaded"
    else if new ≠ (old + 1) % 4294967296 then .error "CAS new value is not remove_count+1"
    else if ok ≠ decide (obs = exp) then .error "CAS result inconsistent with observed/expected"
    else .ok (if ok then scanAdvance s t l sc else setPc s t (.usRcLd l sc k))
  | .usFinCas l f old =>
    let nw := finWord f old
    casWord s o .rel loc exp new obs ok old nw
      (afterFin { s with word := nw, sp := none } t l f.wake) (setPc s t (.usFinLd l f))
  | _ => .error "CAS not prescribed at this program point"

def step (cfg : Cfg) (s : State) : Event → Except String State
  | .call t a => stepCall s t a
  | .ret t a res => stepRet s t a res
  | .ld t o loc obs => stepLd s t o loc obs
  | .st t o loc new obs => stepSt s t o loc new obs
  | .cas t o loc exp new obs ok => stepCas s t o loc exp new obs ok
  | .semPEnter t k =>
    match s.pc t with
    | .lsPEnter c => if c.w = some k then .ok (setPc s t (.lsPRet c)) else .error "P on a semaphore that is not the thread's own"
    | _ => .error "P not prescribed at this program point"
  | .semPRet t k =>
    match s.pc t with
    | .lsPRet c =>
      if c.w ≠ some k then .error "P on a semaphore that is not the thread's own"
      else if (s.wr k).sem = 0 then .error "P returned although the semaphore count is 0"
      else .ok { setPc s t (.lsWaitLd c) with
                  wr := setFn s.wr k { s.wr k with sem := if cfg.binary then 0 else (s.wr k).sem - 1 } }
    | _ => .error "P return not prescribed at this program point"
  | .semV t k =>
    match s.pc t with
    | .usWakeV l k' r =>
      if k ≠ k' then .error "V on the wrong semaphore" else .ok (semPost cfg (afterFin s t l r) k)
    | _ => .error "V not prescribed at this program point"
  | .envV k => .ok (semPost cfg s k)
  | .envSem k n =>
    if (s.wr k).owner = none then .ok { s with wr := setFn s.wr k { s.wr k with sem := n } }
    else .error "environment changed the semaphore of a waiter record in use on this mutex"

def run (cfg : Cfg) (s : State) : List Event → Except String State
  | [] => .ok s
  | e :: es =>
    match step cfg s e with
    | .ok s' => run cfg s' es
    | .error m => .error m

def Reachable (cfg : Cfg) (s : State) : Prop := ∃ evs, run cfg init evs = .ok s

/-- Ghost label: the step taken from this program point reads or writes mu->word or mu->waiters.
    (All steps between the grab CAS and the final CAS of unlock_slow are labelled `true`: the plain
    scan folded into them reads and writes mu->waiters.) -/
def PC.touchesMu : PC → Bool
  | .idle | .lkRet _ | .tryRet _ _ | .ulRet _ => false
  | .lsWaitLd _ | .lsPEnter _ | .lsPRet _ => false
  | .usWakeSt _ _ _ | .usWakeV _ _ _ => false
  | _ => true

def stepTouchesMu (s : State) (e : Event) : Bool :=
  match e.tid with
  | some t => (s.pc t).touchesMu
  | none => false

end NsyncVerif.MuQ
