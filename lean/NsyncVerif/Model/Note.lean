/-
  Layer `Note` (properties C08, C09 and the note half of C19): executable acceptor model of
  /repo/internal/note.c (all of it) and of the path of /repo/internal/wait.c that
  `nsync_note_wait` takes (`nsync_wait_n` with one note object).

  The model follows note.c AFTER the repair of defect F5 (/verif/fixes/F5/note_fix.diff):
  `nsync_note_new` takes the minimum of `abs_deadline` and `parent->expiry_time` whether or not the
  new note starts out notified, and a note created under an already notified parent gets its
  `notified` flag set (note.c/7) instead of a zero `expiry_time`;
  and AFTER the repair of defects F4 and F7 (/verif/fixes/F4F7/note_fix.diff):
  * F7 "the last disconnector unlinks": the recursive call of `note_notify_child` is bracketed by
    `child->disconnecting++ / --`, and the unlink of `n` from `parent` is performed at the end of
    EVERY activation of `note_notify_child` (whether or not it found `n` notified already), but
    only if `n->disconnecting == 1`;
  * F4 "adopters wake the scanner, which rescans": the new plain field `children_adopted`
    (`NoteRec.adopted`), set by `nsync_note_free` when it appends an adopted child to
    `parent->children`, cleared by the two scanners (`note_notify_child`, `nsync_note_free`) before
    each scan of `children`; both scanners loop
    `do { children_adopted = 0; scan; WAIT_FOR_NO_CHILDREN (no_children_or_adopted) } while (!no_children)`.

  Granularity: one step = one atomic operation on `note<k>.notified` / `nw<r>.waiting`, one lock
  operation on a note's mutex, one clock read, one semaphore operation of a waiter record, one
  `malloc`/`free`, one API boundary, or one `tick`.  The plain (non-atomic) updates of the forest
  (`parent`, `children`, `children_adopted`, `disconnecting`, `waiters`, `expiry_time`) are folded into the step of the
  event that precedes them in the same scheduling window; the harness logs the real forest after
  every note API return and the driver compares it with the model's (`state` lines).

  ASSUMPTIONS (imported, not proved in this layer)
  * A1 (properties C01/C02): `note_mu` is a mutual-exclusion lock, used as a black box:
    `nsync_mu_lock` completes (`nret nsync_mu_lock`) only when nobody holds the lock,
    `nsync_mu_unlock` releases it (at its `ncall`), `nsync_mu_trylock` returns 1 only when nobody
    holds the lock (it may return 0 at any time).  The model *checks* this on the log.
  * A2 (property C06): `WAIT_FOR_NO_CHILDREN (n)` =
    `nsync_mu_wait (&n->note_mu, no_children_or_adopted, n)` returns only when the condition
    (`n->children` is empty or `n->children_adopted` is set) holds and with the lock held; if the
    condition holds at the call the lock is never released, otherwise it is released (model: at
    the `ncall`) and re-acquired (model: at the `nret`).
  * A3: the semaphore of a waiter record is harness-provided; `pd_ret 0` may happen at any time
    (the wait loop re-tests), `pd_ret ETIMEDOUT` only at or after the deadline.
  * Contract of the API (nsync_note.h), enforced as rejections: a note is passed to an API call
    only between its creation and the call of `nsync_note_free` on it, and `nsync_note_free (n)` is
    called only while no other thread is inside a call whose argument is `n`.
  * Scope: deadlines are `inf` or a number of ns ≥ 0; cancellable cv/mu waits (sem_wait.c) are not
    part of this layer (a thread touching a note outside a note API call is rejected).

  Core Lean only.
-/

namespace Note

abbrev Tid := Nat
abbrev NoteId := Nat
abbrev Rid := Nat

/-- A deadline / time value: `none` = `nsync_time_no_deadline`, `some ns` otherwise. -/
abbrev Dl := Option Nat

/-- `nsync_time_cmp (d, nsync_time_zero) > 0` -/
def Dl.pos (d : Dl) : Prop := d ≠ some 0
instance (d : Dl) : Decidable d.pos := by unfold Dl.pos; exact inferInstance

/-- `nsync_time_cmp (a, b) < 0` -/
def Dl.lt : Dl → Dl → Bool
  | some x, some y => decide (x < y)
  | some _, none => true
  | none, _ => false

/-- `min = a; if (b < min) min = b` -/
def Dl.min (a b : Dl) : Dl := if Dl.lt b a then b else a

/-- `nsync_time_cmp (d, now) <= 0` -/
def Dl.leNow : Dl → Nat → Bool
  | some x, v => decide (x ≤ v)
  | none, _ => false

/-- Atomic sites of note.c (`note.c/<k>/<function>`) and the one of wait.c used here. -/
inductive Site
  /-- note.c/0 note_notify_child: NOTIFIED_TIME (n) -/
  | childLd
  /-- note.c/1 note_notify_child: ATM_STORE_REL (&n->notified, 1) -/
  | childSt
  /-- note.c/2 note_notify_child: ATM_STORE_REL (&nw->waiting, 0) -/
  | childWake
  /-- note.c/3 notify: NOTIFIED_TIME (n) -/
  | notifyLd
  /-- note.c/4 nsync_note_notified_deadline_: ATM_LOAD_ACQ (&n->notified) -/
  | dlLd1
  /-- note.c/5 nsync_note_notified_deadline_: NOTIFIED_TIME (n) -/
  | dlLd2
  /-- note.c/6 nsync_note_new: NOTIFIED_TIME (parent) -/
  | newLd
  /-- note.c/7 nsync_note_new: ATM_STORE_REL (&n->notified, 1) (parent already notified) -/
  | newSt
  /-- note.c/8 note_enqueue: NOTIFIED_TIME (n) -/
  | enqLd
  /-- note.c/9 note_enqueue: ATM_STORE (&nw->waiting, 1) -/
  | enqSt1
  /-- note.c/10 note_enqueue: ATM_STORE (&nw->waiting, 0) -/
  | enqSt0
  /-- note.c/11 note_dequeue: NOTIFIED_TIME (n) -/
  | deqLd
  /-- note.c/12 note_dequeue: ATM_STORE (&nw->waiting, 0) -/
  | deqSt
  /-- wait.c/0 nsync_wait_n: ATM_STORE (&nw[i].waiting, 0) -/
  | waitInit
  /-- any other site: never accepted on a note location -/
  | other
  deriving DecidableEq, Repr

/-- Memory order requested by the macro. -/
inductive Ord
  | rlx | acq | rel | ar
  deriving DecidableEq, Repr

/-- Who called `nsync_note_notified_deadline_ (n)` (what happens with its result). -/
inductive DK
  /-- nsync_note_is_notified -/
  | isNotified
  /-- nsync_note_notify -/
  | notifyApi
  /-- nsync_note_new: `nsync_note_is_notified (n)` on the new note -/
  | newSelf (par : Option NoteId) (dl : Dl)
  /-- nsync_wait_n: the first `ready_time` loop -/
  | ready1 (wdl : Dl)
  /-- nsync_wait_n: `ready_time` in the wait loop -/
  | ready2 (r : Rid) (wdl : Dl)
  /-- note_dequeue -/
  | dequeue (r : Rid) (wdl : Dl)
  deriving DecidableEq, Repr

/-- Who called `notify (n)`. -/
inductive NK
  | ofApi
  | ofDeadline (k : DK)
  deriving DecidableEq, Repr

/-- Positions inside `nsync_note_notified_deadline_` (the event expected next). -/
inductive DPos
  | ld1 | lockCall | lockRet | ld2 | unlockCall | unlockRet | now
  deriving DecidableEq, Repr

/-- Positions inside `notify` (outside `note_notify_child`). `s…` = slow path after a failed
    trylock (note.c:155-159). -/
inductive NPos
  | lockCall | lockRet | ld | tryCall | tryRet
  | sUnlockCall | sUnlockRet | sLockPCall | sLockPRet | sLockNCall | sLockNRet
  | unlockPCall | unlockPRet | unlockCall | unlockRet
  deriving DecidableEq, Repr

/-- One activation of `note_notify_child`: the note, and the saved `next` pointer of its loop over
    the children. -/
structure Frame where
  note : NoteId
  next : Option NoteId
  deriving DecidableEq, Repr

/-- The outermost activation: `notify (n)` with its local `parent` and its caller. -/
structure Top where
  n : NoteId
  par : Option NoteId
  k : NK
  deriving DecidableEq, Repr

/-- Positions inside `note_notify_child` (innermost activation = head of the stack). -/
inductive CPos
  | ld | st
  | wake (r : Rid) | semV (r : Rid)
  | lockChild (c : NoteId) | lockChildRet (c : NoteId)
  | unlockChild (c : NoteId) | unlockChildRet (c : NoteId)
  /-- `waitRet kept`: inside WAIT_FOR_NO_CHILDREN; `kept` = the list was empty at the call, so the
      lock was not released -/
  | waitCall | waitRet (kept : Bool)
  deriving DecidableEq, Repr

/-- Positions inside the parent section of `nsync_note_new` (the critical section of
    `parent->note_mu`); `st` = the parent was found notified, the store to the new note's flag is
    next. -/
inductive NewPos
  | lockCall | lockRet | ld | st | unlockCall | unlockRet
  deriving DecidableEq, Repr

/-- Positions inside `nsync_note_free`. -/
inductive FPos
  | lockCall | lockRet | tryCall | tryRet
  | sUnlockCall | sUnlockRet | sLockPCall | sLockPRet | sLockNCall | sLockNRet
  | lockChild | lockChildRet | unlockChild | unlockChildRet
  | waitCall | waitRet (kept : Bool) | unlockPCall | unlockPRet | unlockCall | unlockRet
  | free | ret
  deriving DecidableEq, Repr

/-- Positions of `nsync_note_wait` / `nsync_wait_n` that have no waiter record. -/
inductive W0Pos
  | ncall | newRec | nret (ready : Nat) | ret (ready : Nat)
  deriving DecidableEq, Repr

/-- Positions of `nsync_wait_n` with the waiter record `nw<r>`: note_enqueue (`e…`), the
    semaphore wait, note_dequeue (`q…`). -/
inductive WPos
  | eLockCall | eLockRet | eLd | eSt (v : Bool) | eUnlockCall | eUnlockRet
  | pdEnter (d : Dl) | pdRet (d : Dl)
  | qLockCall | qLockRet | qLd | qSt | qUnlockCall (wasq : Bool) | qUnlockRet (wasq : Bool)
  deriving DecidableEq, Repr

/-- Program counter of a thread: the event expected next. -/
inductive PC
  | idle
  /-- nsync_note_new: `malloc` is next -/
  | newMalloc (par : Option NoteId) (dl : Dl)
  /-- nsync_note_new: malloc failed, `ret … NULL` is next -/
  | newRetNull (par : Option NoteId)
  /-- inside nsync_note_notified_deadline_ (n); `nt` = local `ntime` (valid from unlockCall on) -/
  | dl (p : DPos) (n : NoteId) (nt : Dl) (k : DK)
  /-- inside notify (n); `par` = local `parent` (valid after `ld`) -/
  | nfy (p : NPos) (n : NoteId) (par : Option NoteId) (k : NK)
  /-- inside note_notify_child; `stk` = activations, innermost first (never empty) -/
  | chd (p : CPos) (stk : List Frame) (top : Top)
  /-- nsync_note_new: parent section -/
  | newP (p : NewPos) (n : NoteId) (par : NoteId) (dl : Dl)
  | retNew (n : NoteId) (par : Option NoteId)
  | retIs (n : NoteId) (r : Bool)
  | retNotify (n : NoteId)
  | retExpiry (n : NoteId)
  /-- nsync_note_free (n); `par` local `parent`, `c` current child, `next` saved next pointer -/
  | fr (p : FPos) (n : NoteId) (par : Option NoteId) (c : NoteId) (next : Option NoteId)
  | wt0 (p : W0Pos) (n : NoteId) (wdl : Dl)
  | wt (p : WPos) (n : NoteId) (wdl : Dl) (r : Rid)
  deriving DecidableEq, Repr

/-- API calls of this layer. -/
inductive ApiCall
  | new (par : Option NoteId) (dl : Dl)
  | notify (n : NoteId)
  | isNotified (n : NoteId)
  | wait (n : NoteId) (dl : Dl)
  | free (n : NoteId)
  | expiry (n : NoteId)
  deriving DecidableEq, Repr

inductive ApiRet
  | new (res : Option NoteId)
  | notify
  | isNotified (r : Bool)
  | wait (r : Bool)
  | free
  | expiry (v : Dl)
  deriving DecidableEq, Repr

/-- One log event as seen by this layer. -/
inductive Event
  | call (t : Tid) (a : ApiCall)
  | ret (t : Tid) (r : ApiRet)
  /-- `<t> atm <site> ld <ord> note<k>.notified - - <obs> -` -/
  | ld (t : Tid) (site : Site) (ord : Ord) (k : NoteId) (obs : Nat)
  /-- `<t> atm <site> st <ord> note<k>.notified - <new> <obs> -` -/
  | stNote (t : Tid) (site : Site) (ord : Ord) (k : NoteId) (new obs : Nat)
  /-- `<t> atm <site> st <ord> nw<r>.waiting - <new> <obs> -` -/
  | stW (t : Tid) (site : Site) (ord : Ord) (r : Rid) (new obs : Nat)
  /-- `<t> ncall nsync_mu_lock note<k>.mu` / `<t> nret nsync_mu_lock -` -/
  | lockCall (t : Tid) (k : NoteId)
  | lockRet (t : Tid)
  /-- `<t> ncall nsync_mu_unlock note<k>.mu` / `<t> nret nsync_mu_unlock -` -/
  | unlockCall (t : Tid) (k : NoteId)
  | unlockRet (t : Tid)
  /-- `<t> ncall nsync_mu_trylock note<k>.mu` / `<t> nret nsync_mu_trylock <0|1>` -/
  | tryCall (t : Tid) (k : NoteId)
  | tryRet (t : Tid) (ok : Bool)
  /-- `<t> ncall nsync_mu_wait note<k>.mu` / `<t> nret nsync_mu_wait -` (WAIT_FOR_NO_CHILDREN) -/
  | waitCall (t : Tid) (k : NoteId)
  | waitRet (t : Tid)
  /-- `<t> ncall nsync_wait_n - <deadline> 1` / `<t> nret nsync_wait_n <ready>` -/
  | waitnCall (t : Tid) (dl : Dl)
  | waitnRet (t : Tid) (ready : Nat)
  | now (t : Tid) (v : Nat)
  | tick (v : Nat)
  /-- `<t> sem v sem<j>` -/
  | semV (t : Tid) (sem : Nat)
  | pdEnter (t : Tid) (sem : Nat) (d : Dl)
  | pdRet (t : Tid) (sem : Nat) (timedOut : Bool)
  /-- `<t> malloc note<k>|NULL nsync_note_new` -/
  | malloc (t : Tid) (res : Option NoteId)
  /-- `<t> free note<k> nsync_note_free` -/
  | free (t : Tid) (k : NoteId)
  /-- traffic of other layers (mutex words, waiter pool, nested semaphores, …) -/
  | skip
  deriving DecidableEq, Repr

/-- One note (`struct nsync_note_s_`) plus allocation status and the abstract mutex. -/
structure NoteRec where
  parent : Option NoteId
  children : List NoteId
  notified : Bool
  expiry : Dl
  disconnecting : Nat
  waiters : List Rid
  lockHolder : Option Tid
  /-- `children_adopted`: children were adopted since the last scan of `children` -/
  adopted : Bool
  /-- `malloc` returned this note at some time -/
  allocated : Bool
  /-- `free` was performed on it -/
  freed : Bool
  deriving DecidableEq, Repr

def NoteRec.blank : NoteRec :=
  { parent := none, children := [], notified := false, expiry := none, disconnecting := 0,
    waiters := [], lockHolder := none, adopted := false, allocated := false, freed := false }

/-- `NOTIFIED_TIME (n)` -/
def NoteRec.ntime (r : NoteRec) : Dl := if r.notified then some 0 else r.expiry

/-- A `struct nsync_waiter_s` of a wait on a note. -/
structure WRec where
  used : Bool
  waiting : Bool
  owner : Tid
  note : NoteId
  /-- the semaphore (`sem<j>` of the owner's `waiter`), learned at its first appearance -/
  sem : Option Nat
  /-- ghost: number of `sem v` performed for this record -/
  posted : Nat
  deriving DecidableEq, Repr

def WRec.blank : WRec :=
  { used := false, waiting := false, owner := 0, note := 0, sem := none, posted := 0 }

/-- One completed observation of a note's state by `nsync_note_is_notified` / `nsync_note_wait`. -/
structure Obs where
  t : Tid
  n : NoteId
  /-- the result -/
  res : Bool
  /-- ghost: a positive observation of `n` had already returned when this call started -/
  after : Bool
  deriving DecidableEq, Repr

structure State where
  notes : NoteId → NoteRec
  recs : Rid → WRec
  now : Nat
  pc : Tid → PC
  /-- threads currently inside an API call whose argument is this note -/
  users : NoteId → List Tid
  /-- `nsync_note_free` has been called on this note -/
  freeing : NoteId → Bool
  /-- `nsync_note_new` has returned this note (before that nobody can pass it to an API call) -/
  published : NoteId → Bool
  /-- ghost: `nsync_note_notify` has been called on this note -/
  notifyCalled : NoteId → Bool
  /-- ghost: the `abs_deadline` passed to `nsync_note_new` -/
  ownDl : NoteId → Dl
  /-- ghost: the `parent` passed to the `nsync_note_new` call that created the note (the
      creation-time parent; `nsync_note_free` of that parent later re-parents the note in the real
      forest, the ghost is never changed) -/
  cparent : NoteId → Option NoteId
  /-- ghost: the note itself and every note on the path from its intended parent to the root, at
      creation -/
  ancEver : NoteId → List NoteId
  /-- ghost: minimum of the deadlines on that path -/
  pathMin : NoteId → Dl
  /-- ghost: `nsync_note_new` found the note (or its parent) notified already: the note was born
      notified and never linked under its parent -/
  bornNotified : NoteId → Bool
  /-- ghost: per thread, see `Obs.after` -/
  after : Tid → Bool
  /-- ghost: completed observations, most recent first -/
  observed : List Obs

/-- Pointwise function update. -/
def upd {β : Type} (f : Nat → β) (a : Nat) (b : β) : Nat → β :=
  fun x => if x = a then b else f x

@[simp] theorem upd_same {β : Type} (f : Nat → β) (a : Nat) (b : β) : upd f a b a = b := by
  simp [upd]

theorem upd_apply {β : Type} (f : Nat → β) (a : Nat) (b : β) (x : Nat) :
    upd f a b x = if x = a then b else f x := rfl

def init : State where
  notes := fun _ => NoteRec.blank
  recs := fun _ => WRec.blank
  now := 0
  pc := fun _ => .idle
  users := fun _ => []
  freeing := fun _ => false
  published := fun _ => false
  notifyCalled := fun _ => false
  ownDl := fun _ => none
  cparent := fun _ => none
  ancEver := fun _ => []
  pathMin := fun _ => none
  bornNotified := fun _ => false
  after := fun _ => false
  observed := []

/-! ### Primitive state updates -/

def State.setPc (s : State) (t : Tid) (p : PC) : State :=
  { s with pc := upd s.pc t p }

def State.modNote (s : State) (k : NoteId) (f : NoteRec → NoteRec) : State :=
  { s with notes := upd s.notes k (f (s.notes k)) }

def State.modRec (s : State) (r : Rid) (f : WRec → WRec) : State :=
  { s with recs := upd s.recs r (f (s.recs r)) }

def State.acquire (s : State) (k : NoteId) (t : Tid) : State :=
  s.modNote k (fun r => { r with lockHolder := some t })

def State.release (s : State) (k : NoteId) : State :=
  s.modNote k (fun r => { r with lockHolder := none })

def State.incDisc (s : State) (k : NoteId) : State :=
  s.modNote k (fun r => { r with disconnecting := r.disconnecting + 1 })

def State.decDisc (s : State) (k : NoteId) : State :=
  s.modNote k (fun r => { r with disconnecting := r.disconnecting - 1 })

/-- `c->parent = p; p->children = make_last_in_list (p->children, c)` -/
def State.link (s : State) (c p : NoteId) : State :=
  (s.modNote p (fun r => { r with children := r.children ++ [c] })).modNote c
    (fun r => { r with parent := some p })

/-- `n->children_adopted = b` -/
def State.setAdopted (s : State) (k : NoteId) (b : Bool) : State :=
  s.modNote k (fun r => { r with adopted := b })

def State.setWaiters (s : State) (k : NoteId) (ws : List Rid) : State :=
  s.modNote k (fun r => { r with waiters := ws })

def State.setExpiry (s : State) (k : NoteId) (d : Dl) : State :=
  s.modNote k (fun r => { r with expiry := d })

def State.setNotified (s : State) (k : NoteId) : State :=
  s.modNote k (fun r => { r with notified := true })

def State.markFreed (s : State) (k : NoteId) : State :=
  s.modNote k (fun r => { r with freed := true })

/-- `n->children = remove (n->children, c)` -/
def State.eraseChild (s : State) (n c : NoteId) : State :=
  s.modNote n (fun r => { r with children := r.children.erase c })

/-- `c->parent = NULL` -/
def State.clearParent (s : State) (c : NoteId) : State :=
  s.modNote c (fun r => { r with parent := none })

/-- `p->children = remove (p->children, c); c->parent = NULL` -/
def State.unlink (s : State) (c p : NoteId) : State :=
  (s.eraseChild p c).clearParent c

def State.addUser (s : State) (n : NoteId) (t : Tid) : State :=
  { s with users := upd s.users n (t :: s.users n) }

def State.delUser (s : State) (n : NoteId) (t : Tid) : State :=
  { s with users := upd s.users n ((s.users n).erase t) }

def State.markFreeing (s : State) (n : NoteId) : State :=
  { s with freeing := upd s.freeing n true }

def State.markCalled (s : State) (n : NoteId) : State :=
  { s with notifyCalled := upd s.notifyCalled n true }

def State.markBorn (s : State) (n : NoteId) : State :=
  { s with bornNotified := upd s.bornNotified n true }

def State.publish (s : State) (n : NoteId) : State :=
  { s with published := upd s.published n true }

def State.setAfter (s : State) (t : Tid) (b : Bool) : State :=
  { s with after := upd s.after t b }

def State.pushObs (s : State) (o : Obs) : State :=
  { s with observed := o :: s.observed }

def State.setNow (s : State) (v : Nat) : State :=
  { s with now := v }

/-- ghost: the notes on the path from the intended parent to the root -/
def State.ancOf (s : State) : Option NoteId → List NoteId
  | some p => s.ancEver p
  | none => []

/-- ghost: the minimum of `dl` and the deadlines on the path from the intended parent to the root -/
def State.minOf (s : State) (dl : Dl) : Option NoteId → Dl
  | some p => Dl.min dl (s.pathMin p)
  | none => dl

/-- `malloc` + `memset` + `set_expiry_time (n, abs_deadline)` for the fresh note `k`, and the ghost
    history of the note. -/
def State.allocNote (s : State) (k : NoteId) (par : Option NoteId) (dl : Dl) : State :=
  { s with
    notes := upd s.notes k { NoteRec.blank with expiry := dl, allocated := true }
    ownDl := upd s.ownDl k dl
    cparent := upd s.cparent k par
    ancEver := upd s.ancEver k (k :: s.ancOf par)
    pathMin := upd s.pathMin k (s.minOf dl par) }

/-- A positive observation of `n` has already returned. -/
def State.seenPos (s : State) (n : NoteId) : Bool :=
  s.observed.any (fun o => o.n = n ∧ o.res = true)

/-- The element that follows `c` in the list (`nsync_dll_next_`). -/
def nextAfter : List NoteId → NoteId → Option NoteId
  | [], _ => none
  | x :: xs, c => if x = c then xs.head? else nextAfter xs c

/-- The note is notified as far as the API is concerned: the flag is set, or its expiry time is
    zero (a zero deadline on the path to the root: `NOTIFIED_TIME` is zero although the flag may
    stay 0). -/
def State.Notified (s : State) (n : NoteId) : Prop :=
  (s.notes n).notified = true ∨ (s.notes n).expiry = some 0

instance (s : State) (n : NoteId) : Decidable (s.Notified n) := by
  unfold State.Notified; exact inferInstance

/-- `need c msg k`: continue with `k` if `c` holds, otherwise reject with `msg`. -/
def need (c : Prop) [Decidable c] (msg : String) (k : Except String State) : Except String State :=
  if c then k else .error msg

def flagVal (b : Bool) : Nat := if b then 1 else 0

/-! ### Control transfers shared by several steps -/

/-- `nsync_note_notified_deadline_ (n)` returned `nt` to its caller `k`: where control goes. -/
def afterDeadlinePc (n : NoteId) (nt : Dl) : DK → PC
  | .isNotified => .retIs n (decide (¬ nt.pos))
  | .notifyApi => if nt.pos then .nfy .lockCall n none .ofApi else .retNotify n
  | .newSelf par dl =>
    if nt.pos then
      match par with
      | some p => .newP .lockCall n p dl
      | none => .retNew n par
    else .retNew n par
  | .ready1 wdl =>
    if nt.pos ∧ wdl.pos then .wt0 .newRec n wdl
    else .wt0 (.nret (if nt.pos then 1 else 0)) n wdl
  | .ready2 r wdl =>
    if (Dl.min wdl nt).pos then .wt (.pdEnter (Dl.min wdl nt)) n wdl r
    else .dl .ld1 n none (.dequeue r wdl)
  | .dequeue r wdl => .wt .qLockCall n wdl r

/-- The new note of `nsync_note_new` was found notified by its own `nsync_note_is_notified`. -/
def bornNow (nt : Dl) : DK → Bool
  | .newSelf _ _ => decide (¬ nt.pos)
  | _ => false

/-- `nsync_note_new` after `notified = nsync_note_is_notified (n)`: the expiry time of the new note
    is the minimum of `abs_deadline` and the parent's expiry time (itself the minimum over the
    parent's path), whether or not the note starts out notified:
    `if (parent != NULL && nsync_time_cmp (parent->expiry_time, abs_deadline) < 0)
       set_expiry_time (n, parent->expiry_time);`
    (`parent->expiry_time` is read without the parent's lock: it is constant once published). -/
def newExpiry (s : State) (n : NoteId) : DK → State
  | .newSelf (some p) dl => s.setExpiry n (Dl.min dl (s.notes p).expiry)
  | _ => s

/-- `nsync_note_notified_deadline_ (n)` returned `nt` to its caller `k` (and the plain code of the
    caller that follows: `newExpiry`). -/
def afterDeadline (s : State) (t : Tid) (n : NoteId) (nt : Dl) (k : DK) : State :=
  (if bornNow nt k then (newExpiry s n k).markBorn n else newExpiry s n k).setPc t
    (afterDeadlinePc n nt k)

/-- `notify (n)` returned to its caller. -/
def afterNotify (s : State) (t : Tid) (n : NoteId) : NK → State
  | .ofApi => s.setPc t (.retNotify n)
  | .ofDeadline k => afterDeadline s t n (some 0) k

/-- The innermost activation of `note_notify_child` (head of `f :: rest`) returns: where control
    goes. -/
def childReturnPc (f : Frame) (rest : List Frame) (top : Top) : PC :=
  match rest with
  | _ :: _ => .chd (.unlockChild f.note) rest top
  | [] =>
    match top.par with
    | some _ => .nfy .unlockPCall top.n top.par top.k
    | none => .nfy .unlockCall top.n top.par top.k

/-- The `parent` argument of the innermost activation. -/
def frameParent (rest : List Frame) (top : Top) : Option NoteId :=
  match rest with
  | g :: _ => some g.note
  | [] => top.par

/-- The tail of `note_notify_child (n, parent)` (repair of F7, "the last disconnector unlinks"):
    the parent the activation unlinks `n` from, if it does:
    `if (parent != NULL && n->disconnecting == 1)` -/
def childUnlinks (s : State) (f : Frame) (rest : List Frame) (top : Top) : Option NoteId :=
  match frameParent rest top with
  | some p => if (s.notes f.note).disconnecting = 1 then some p else none
  | none => none

/-- … `{ parent->children = remove (parent->children, n); n->parent = NULL; }` -/
def childUnlink (s : State) (f : Frame) (rest : List Frame) (top : Top) : State :=
  match childUnlinks s f rest top with
  | some p => s.unlink f.note p
  | none => s

/-- The `disconnecting--` that follows the return of an activation at once: `child->disconnecting--`
    in the recursion, `n->disconnecting--` in a `notify` that holds no parent lock. -/
def childReturnDec (f : Frame) (rest : List Frame) (top : Top) : Option NoteId :=
  match rest, top.par with
  | _ :: _, _ => some f.note
  | [], none => some top.n
  | [], some _ => none

/-- The innermost activation of `note_notify_child` (head of `f :: rest`) returns: its tail (the
    conditional unlink), and the plain code of the caller up to its next event. -/
def childReturn (s : State) (t : Tid) (f : Frame) (rest : List Frame) (top : Top) : State :=
  (match childReturnDec f rest top with
    | some k => (childUnlink s f rest top).decDisc k
    | none => childUnlink s f rest top).setPc t (childReturnPc f rest top)

/-- `note_notify_child`: the loop over the waiters is finished; start the loop over the children
    `cs` (`p = first (n->children)`, `next = next (p)`). -/
def childLoopStartPc (cs : List NoteId) (f : Frame) (rest : List Frame) (top : Top) : PC :=
  match cs with
  | [] => .chd .waitCall (f :: rest) top
  | c :: cs' => .chd (.lockChild c) ({ f with next := cs'.head? } :: rest) top

/-- `note_notify_child`: (re)start the scan of the children:
    `n->children_adopted = 0; p = first (n->children); …`. -/
def childScanStart (s : State) (t : Tid) (f : Frame) (rest : List Frame) (top : Top) : State :=
  (s.setAdopted f.note false).setPc t (childLoopStartPc (s.notes f.note).children f rest top)

/-- `note_notify_child`: continue waking waiters (the record is unlinked before its `waiting`
    word is cleared) or go on to the children. -/
def childWakeNext (s : State) (t : Tid) (f : Frame) (rest : List Frame) (top : Top) : State :=
  match (s.notes f.note).waiters with
  | r :: ws =>
    (s.setWaiters f.note ws).setPc t (.chd (.wake r) (f :: rest) top)
  | [] => childScanStart s t f rest top

/-- `nsync_note_free`: start the loop over the children `cs`. -/
def freeLoopStartPc (cs : List NoteId) (n : NoteId) (par : Option NoteId) : PC :=
  match cs with
  | [] => .fr .waitCall n par 0 none
  | c :: cs' => .fr .lockChild n par c cs'.head?

/-- `nsync_note_free`: (re)start the scan of the children: `n->children_adopted = 0; …`. -/
def freeLoopStart (s : State) (t : Tid) (n : NoteId) (par : Option NoteId) : State :=
  (s.setAdopted n false).setPc t (freeLoopStartPc (s.notes n).children n par)

/-- Enter `note_notify_child (n, par)` from `notify`. -/
def enterChild (s : State) (t : Tid) (n : NoteId) (par : Option NoteId) (k : NK) : State :=
  s.setPc t (.chd .ld [⟨n, none⟩] ⟨n, par, k⟩)

/-! ### The acceptor -/

/-- The note may be passed to an API call: `nsync_note_new` returned it and `nsync_note_free` has
    not been called on it. -/
def State.Live (s : State) (n : NoteId) : Prop :=
  (s.notes n).allocated = true ∧ s.published n = true ∧ (s.notes n).freed = false ∧
    s.freeing n = false

instance (s : State) (n : NoteId) : Decidable (s.Live n) := by
  unfold State.Live; exact inferInstance

/-- API entry. Contract: the argument is a live note on which free has not been called; free
    additionally requires that no other thread is inside a call on the note. -/
def stepCall (s : State) (t : Tid) : ApiCall → Except String State
  | .new par dl =>
    match par with
    | none => .ok (s.setPc t (.newMalloc none dl))
    | some p =>
      need (s.Live p) "call: the parent note is not live (contract)" <|
      .ok ((s.addUser p t).setPc t (.newMalloc (some p) dl))
  | .notify n =>
    need (s.Live n) "call: the note is not live (contract)" <|
    .ok (((s.addUser n t).markCalled n).setPc t (.dl .ld1 n none .notifyApi))
  | .isNotified n =>
    need (s.Live n) "call: the note is not live (contract)" <|
    .ok (((s.addUser n t).setAfter t (s.seenPos n)).setPc t (.dl .ld1 n none .isNotified))
  | .wait n dl =>
    need (s.Live n) "call: the note is not live (contract)" <|
    .ok (((s.addUser n t).setAfter t (s.seenPos n)).setPc t (.wt0 .ncall n dl))
  | .free n =>
    need (s.Live n) "call: the note is not live (contract)" <|
    need (s.users n = []) "call: free of a note another thread is inside a call on (contract)" <|
    .ok (((s.addUser n t).markFreeing n).setPc t (.fr .lockCall n none 0 none))
  | .expiry n =>
    need (s.Live n) "call: the note is not live (contract)" <|
    .ok ((s.addUser n t).setPc t (.retExpiry n))

def State.leave (s : State) (t : Tid) (n : NoteId) : State :=
  (s.delUser n t).setPc t .idle

/-- API return. -/
def stepRet (s : State) (t : Tid) (r : ApiRet) : Except String State :=
  match s.pc t, r with
  | .newRetNull par, .new none =>
    match par with
    | some p => .ok (s.leave t p)
    | none => .ok (s.setPc t .idle)
  | .retNew n par, .new (some k) =>
    need (k = n) "ret nsync_note_new: not the note that malloc returned" <|
    match par with
    | some p => .ok ((s.publish n).leave t p)
    | none => .ok ((s.publish n).setPc t .idle)
  | .retNotify n, .notify => .ok (s.leave t n)
  | .retIs n b, .isNotified b' =>
    need (b' = b) "ret nsync_note_is_notified: wrong result" <|
    .ok ((s.pushObs ⟨t, n, b, s.after t⟩).leave t n)
  | .wt0 (.ret rd) n _, .wait b =>
    need (b = decide (rd = 0)) "ret nsync_note_wait: wrong result" <|
    .ok ((s.pushObs ⟨t, n, b, s.after t⟩).leave t n)
  | .fr .ret n _ _ _, .free => .ok (s.leave t n)
  | .retExpiry n, .expiry v =>
    need (v = (s.notes n).expiry) "ret nsync_note_expiry: not the expiry time of the note" <|
    .ok (s.leave t n)
  | .idle, _ => .error "ret: thread is not inside a note call"
  | _, _ => .error "ret: the call cannot return here (or wrong kind of result)"

/-- Atomic load of `note<k>.notified`. -/
def stepLd (s : State) (t : Tid) (site : Site) (ord : Ord) (k : NoteId) (obs : Nat) :
    Except String State :=
  need (ord = .acq) "ld: loads of the notified word are acquire" <|
  need ((s.notes k).allocated = true) "ld: unknown note" <|
  need (obs = flagVal (s.notes k).notified) "ld: observed value differs from the model" <|
  match s.pc t with
  | .dl .ld1 n _ dk =>
    need (site = .dlLd1 ∧ k = n) "ld: expected note.c/4 on the note of the call" <|
    if (s.notes n).notified then .ok (afterDeadline s t n (some 0) dk)
    else .ok (s.setPc t (.dl .lockCall n none dk))
  | .dl .ld2 n _ dk =>
    need (site = .dlLd2 ∧ k = n) "ld: expected note.c/5 on the note of the call" <|
    .ok (s.setPc t (.dl .unlockCall n (s.notes n).ntime dk))
  | .nfy .ld n _ nk =>
    need (site = .notifyLd ∧ k = n) "ld: expected note.c/3 on the note being notified" <|
    if (s.notes n).ntime.pos then
      let s1 := s.incDisc n
      match (s.notes n).parent with
      | some p => .ok (s1.setPc t (.nfy .tryCall n (some p) nk))
      | none => .ok (enterChild s1 t n none nk)
    else .ok (s.setPc t (.nfy .unlockCall n none nk))
  | .chd .ld (f :: rest) top =>
    need (site = .childLd ∧ k = f.note) "ld: expected note.c/0 on the current note" <|
    if (s.notes f.note).ntime.pos then .ok (s.setPc t (.chd .st (f :: rest) top))
    else .ok (childReturn s t f rest top)
  | .newP .ld n p dl =>
    need (site = .newLd ∧ k = p) "ld: expected note.c/6 on the parent" <|
    if (s.notes p).ntime.pos then .ok ((s.link n p).setPc t (.newP .unlockCall n p dl))
    else .ok (s.setPc t (.newP .st n p dl))
  | .wt .eLd n wdl r =>
    need (site = .enqLd ∧ k = n) "ld: expected note.c/7 on the note waited for" <|
    if (s.notes n).ntime.pos then
      .ok ((s.setWaiters n ((s.notes n).waiters ++ [r])).setPc t (.wt (.eSt true) n wdl r))
    else .ok (s.setPc t (.wt (.eSt false) n wdl r))
  | .wt .qLd n wdl r =>
    need (site = .deqLd ∧ k = n) "ld: expected note.c/10 on the note waited for" <|
    if (s.notes n).ntime.pos then
      .ok ((s.setWaiters n ((s.notes n).waiters.erase r)).setPc t (.wt .qSt n wdl r))
    else .ok (s.setPc t (.wt (.qUnlockCall false) n wdl r))
  | .idle => .error "ld: notified word read by a thread outside any note call"
  | _ => .error "ld: no load of a notified word at this point"

/-- Atomic store to `note<k>.notified`. -/
def stepStNote (s : State) (t : Tid) (site : Site) (ord : Ord) (k : NoteId) (new obs : Nat) :
    Except String State :=
  need ((s.notes k).allocated = true) "st: unknown note" <|
  match s.pc t with
  | .chd .st (f :: rest) top =>
    need (site = .childSt ∧ ord = .rel ∧ k = f.note ∧ new = 1)
      "st: expected note.c/1: release store of 1 to the current note" <|
    need (obs = flagVal (s.notes k).notified) "st: previous value differs from the model" <|
    .ok (childWakeNext (s.setNotified k) t f rest top)
  | .newP .st n p dl =>
    need (site = .newSt ∧ ord = .rel ∧ k = n ∧ new = 1)
      "st: expected note.c/7: release store of 1 to the note being created" <|
    need (obs = flagVal (s.notes k).notified) "st: previous value differs from the model" <|
    .ok (((s.setNotified n).markBorn n).setPc t (.newP .unlockCall n p dl))
  | .idle => .error "st: notified word written by a thread outside any note call"
  | _ => .error "st: no store to a notified word at this point"

/-- Atomic store to `nw<r>.waiting`. -/
def stepStW (s : State) (t : Tid) (site : Site) (ord : Ord) (r : Rid) (new obs : Nat) :
    Except String State :=
  match s.pc t with
  | .chd (.wake r') (f :: rest) top =>
    need (site = .childWake ∧ ord = .rel ∧ r = r' ∧ new = 0)
      "st: expected note.c/2: release store of 0 to the record just unlinked" <|
    need (obs = flagVal (s.recs r).waiting) "st: previous value differs from the model" <|
    .ok ((s.modRec r (fun w => { w with waiting := false })).setPc t
          (.chd (.semV r) (f :: rest) top))
  | .wt0 .newRec n wdl =>
    need (site = .waitInit ∧ ord = .rlx ∧ new = 0) "st: expected wait.c/0: store of 0" <|
    need ((s.recs r).used = false) "st: waiter record is not fresh" <|
    .ok ((s.modRec r (fun _ => { used := true, waiting := false, owner := t, note := n,
                                 sem := none, posted := 0 })).setPc t (.wt .eLockCall n wdl r))
  | .wt (.eSt v) n wdl r' =>
    need (site = (if v then Site.enqSt1 else Site.enqSt0) ∧ ord = .rlx ∧ r = r' ∧ new = flagVal v)
      "st: expected note.c/8 (store 1) or note.c/9 (store 0) to the record of this wait" <|
    need (obs = flagVal (s.recs r).waiting) "st: previous value differs from the model" <|
    .ok ((s.modRec r (fun w => { w with waiting := v })).setPc t (.wt .eUnlockCall n wdl r))
  | .wt .qSt n wdl r' =>
    need (site = .deqSt ∧ ord = .rlx ∧ r = r' ∧ new = 0)
      "st: expected note.c/11: store of 0 to the record of this wait" <|
    need (obs = flagVal (s.recs r).waiting) "st: previous value differs from the model" <|
    .ok ((s.modRec r (fun w => { w with waiting := false })).setPc t
          (.wt (.qUnlockCall true) n wdl r))
  | .idle => .error "st: waiter record written by a thread outside any note call"
  | _ => .error "st: no store to a waiter record at this point"

/-- `ncall nsync_mu_lock note<k>.mu` -/
def stepLockCall (s : State) (t : Tid) (k : NoteId) : Except String State :=
  need ((s.notes k).allocated = true) "mu_lock: unknown note" <|
  match s.pc t with
  | .dl .lockCall n nt dk =>
    need (k = n) "mu_lock: wrong note" <| .ok (s.setPc t (.dl .lockRet n nt dk))
  | .nfy .lockCall n par nk =>
    need (k = n) "mu_lock: wrong note" <| .ok (s.setPc t (.nfy .lockRet n par nk))
  | .nfy .sLockPCall n (some p) nk =>
    need (k = p) "mu_lock: expected the parent" <| .ok (s.setPc t (.nfy .sLockPRet n (some p) nk))
  | .nfy .sLockNCall n par nk =>
    need (k = n) "mu_lock: wrong note" <| .ok (s.setPc t (.nfy .sLockNRet n par nk))
  | .chd (.lockChild c) stk top =>
    need (k = c) "mu_lock: expected the current child" <|
    .ok (s.setPc t (.chd (.lockChildRet c) stk top))
  | .newP .lockCall n p dl =>
    need (k = p) "mu_lock: expected the parent" <| .ok (s.setPc t (.newP .lockRet n p dl))
  | .fr .lockCall n par c nx =>
    need (k = n) "mu_lock: wrong note" <| .ok (s.setPc t (.fr .lockRet n par c nx))
  | .fr .sLockPCall n (some p) c nx =>
    need (k = p) "mu_lock: expected the parent" <| .ok (s.setPc t (.fr .sLockPRet n (some p) c nx))
  | .fr .sLockNCall n par c nx =>
    need (k = n) "mu_lock: wrong note" <| .ok (s.setPc t (.fr .sLockNRet n par c nx))
  | .fr .lockChild n par c nx =>
    need (k = c) "mu_lock: expected the current child" <|
    .ok (s.setPc t (.fr .lockChildRet n par c nx))
  | .wt .eLockCall n wdl r =>
    need (k = n) "mu_lock: wrong note" <| .ok (s.setPc t (.wt .eLockRet n wdl r))
  | .wt .qLockCall n wdl r =>
    need (k = n) "mu_lock: wrong note" <| .ok (s.setPc t (.wt .qLockRet n wdl r))
  | .idle => .error "mu_lock: note mutex used by a thread outside any note call"
  | _ => .error "mu_lock: the code does not lock at this point"

/-- `nret nsync_mu_lock -`: the acquisition (A1: only when the lock is free), and the plain code
    that follows it. -/
def stepLockRet (s : State) (t : Tid) : Except String State :=
  match s.pc t with
  | .dl .lockRet n nt dk =>
    need ((s.notes n).lockHolder = none) "mu_lock returned while the lock is held" <|
    .ok ((s.acquire n t).setPc t (.dl .ld2 n nt dk))
  | .nfy .lockRet n par nk =>
    need ((s.notes n).lockHolder = none) "mu_lock returned while the lock is held" <|
    .ok ((s.acquire n t).setPc t (.nfy .ld n par nk))
  | .nfy .sLockPRet n (some p) nk =>
    need ((s.notes p).lockHolder = none) "mu_lock returned while the lock is held" <|
    .ok ((s.acquire p t).setPc t (.nfy .sLockNCall n (some p) nk))
  | .nfy .sLockNRet n par nk =>
    need ((s.notes n).lockHolder = none) "mu_lock returned while the lock is held" <|
    .ok (enterChild (s.acquire n t) t n par nk)
  | .chd (.lockChildRet c) stk top =>
    need ((s.notes c).lockHolder = none) "mu_lock returned while the lock is held" <|
    if (s.notes c).disconnecting = 0 then
      -- child->disconnecting++; note_notify_child (child, n)
      .ok (((s.acquire c t).incDisc c).setPc t (.chd .ld (⟨c, none⟩ :: stk) top))
    else .ok ((s.acquire c t).setPc t (.chd (.unlockChild c) stk top))
  | .newP .lockRet n p dl =>
    need ((s.notes p).lockHolder = none) "mu_lock returned while the lock is held" <|
    .ok ((s.acquire p t).setPc t (.newP .ld n p dl))
  | .fr .lockRet n _ _ _ =>
    need ((s.notes n).lockHolder = none) "mu_lock returned while the lock is held" <|
    need ((s.notes n).waiters = []) "nsync_note_free: ASSERT (no waiters) fails (contract)" <|
    let s1 := (s.acquire n t).incDisc n
    match (s.notes n).parent with
    | some p => .ok (s1.setPc t (.fr .tryCall n (some p) 0 none))
    | none => .ok (freeLoopStart s1 t n none)
  | .fr .sLockPRet n (some p) c nx =>
    need ((s.notes p).lockHolder = none) "mu_lock returned while the lock is held" <|
    .ok ((s.acquire p t).setPc t (.fr .sLockNCall n (some p) c nx))
  | .fr .sLockNRet n par _ _ =>
    need ((s.notes n).lockHolder = none) "mu_lock returned while the lock is held" <|
    .ok (freeLoopStart (s.acquire n t) t n par)
  | .fr .lockChildRet n par c nx =>
    need ((s.notes c).lockHolder = none) "mu_lock returned while the lock is held" <|
    let s1 := s.acquire c t
    if (s.notes c).disconnecting = 0 then
      -- n->children = remove (n->children, child); child->parent = parent; append to parent
      let s2 := s1.eraseChild n c
      -- … parent->children_adopted = 1
      let s3 := match par with
        | some p => (s2.link c p).setAdopted p true
        | none => s2.clearParent c
      .ok (s3.setPc t (.fr .unlockChild n par c nx))
    else .ok (s1.setPc t (.fr .unlockChild n par c nx))
  | .wt .eLockRet n wdl r =>
    need ((s.notes n).lockHolder = none) "mu_lock returned while the lock is held" <|
    .ok ((s.acquire n t).setPc t (.wt .eLd n wdl r))
  | .wt .qLockRet n wdl r =>
    need ((s.notes n).lockHolder = none) "mu_lock returned while the lock is held" <|
    .ok ((s.acquire n t).setPc t (.wt .qLd n wdl r))
  | .idle => .error "nret mu_lock: thread is outside any note call"
  | _ => .error "nret mu_lock: no lock call in progress"

/-- `ncall nsync_mu_unlock note<k>.mu`: the release. -/
def stepUnlockCall (s : State) (t : Tid) (k : NoteId) : Except String State :=
  need ((s.notes k).allocated = true) "mu_unlock: unknown note" <|
  need ((s.notes k).lockHolder = some t) "mu_unlock: lock not held by this thread" <|
  match s.pc t with
  | .dl .unlockCall n nt dk =>
    need (k = n) "mu_unlock: wrong note" <| .ok ((s.release k).setPc t (.dl .unlockRet n nt dk))
  | .nfy .sUnlockCall n par nk =>
    need (k = n) "mu_unlock: wrong note" <| .ok ((s.release k).setPc t (.nfy .sUnlockRet n par nk))
  | .nfy .unlockPCall n (some p) nk =>
    need (k = p) "mu_unlock: expected the parent" <|
    .ok ((s.release k).setPc t (.nfy .unlockPRet n (some p) nk))
  | .nfy .unlockCall n par nk =>
    need (k = n) "mu_unlock: wrong note" <| .ok ((s.release k).setPc t (.nfy .unlockRet n par nk))
  | .chd (.unlockChild c) stk top =>
    need (k = c) "mu_unlock: expected the current child" <|
    .ok ((s.release k).setPc t (.chd (.unlockChildRet c) stk top))
  | .newP .unlockCall n p dl =>
    need (k = p) "mu_unlock: expected the parent" <|
    .ok ((s.release k).setPc t (.newP .unlockRet n p dl))
  | .fr .sUnlockCall n par c nx =>
    need (k = n) "mu_unlock: wrong note" <| .ok ((s.release k).setPc t (.fr .sUnlockRet n par c nx))
  | .fr .unlockChild n par c nx =>
    need (k = c) "mu_unlock: expected the current child" <|
    .ok ((s.release k).setPc t (.fr .unlockChildRet n par c nx))
  | .fr .unlockPCall n (some p) c nx =>
    need (k = p) "mu_unlock: expected the parent" <|
    .ok ((s.release k).setPc t (.fr .unlockPRet n (some p) c nx))
  | .fr .unlockCall n par c nx =>
    need (k = n) "mu_unlock: wrong note" <| .ok ((s.release k).setPc t (.fr .unlockRet n par c nx))
  | .wt .eUnlockCall n wdl r =>
    need (k = n) "mu_unlock: wrong note" <| .ok ((s.release k).setPc t (.wt .eUnlockRet n wdl r))
  | .wt (.qUnlockCall q) n wdl r =>
    need (k = n) "mu_unlock: wrong note" <| .ok ((s.release k).setPc t (.wt (.qUnlockRet q) n wdl r))
  | .idle => .error "mu_unlock: note mutex used by a thread outside any note call"
  | _ => .error "mu_unlock: the code does not unlock at this point"

/-- `nret nsync_mu_unlock -`, and the plain code that follows it. -/
def stepUnlockRet (s : State) (t : Tid) : Except String State :=
  match s.pc t with
  | .dl .unlockRet n nt dk =>
    if nt.pos then .ok (s.setPc t (.dl .now n nt dk)) else .ok (afterDeadline s t n nt dk)
  | .nfy .sUnlockRet n par nk => .ok (s.setPc t (.nfy .sLockPCall n par nk))
  | .nfy .unlockPRet n par nk => .ok ((s.decDisc n).setPc t (.nfy .unlockCall n par nk))
  | .nfy .unlockRet n _ nk => .ok (afterNotify s t n nk)
  | .chd (.unlockChildRet _) (f :: rest) top =>
    match f.next with
    | some c' =>
      need (c' ∈ (s.notes f.note).children) "loop pointer is not in the children list" <|
      .ok (s.setPc t (.chd (.lockChild c')
            ({ f with next := nextAfter (s.notes f.note).children c' } :: rest) top))
    | none => .ok (s.setPc t (.chd .waitCall (f :: rest) top))
  | .newP .unlockRet n p _ => .ok (s.setPc t (.retNew n (some p)))
  | .fr .sUnlockRet n par c nx => .ok (s.setPc t (.fr .sLockPCall n par c nx))
  | .fr .unlockChildRet n par _ nx =>
    match nx with
    | some c' =>
      need (c' ∈ (s.notes n).children) "loop pointer is not in the children list" <|
      .ok (s.setPc t (.fr .lockChild n par c' (nextAfter (s.notes n).children c')))
    | none => .ok (s.setPc t (.fr .waitCall n par 0 none))
  | .fr .unlockPRet n par c nx => .ok ((s.decDisc n).setPc t (.fr .unlockCall n par c nx))
  | .fr .unlockRet n par c nx => .ok (s.setPc t (.fr .free n par c nx))
  | .wt .eUnlockRet n wdl r => .ok (s.setPc t (.dl .ld1 n none (.ready2 r wdl)))
  | .wt (.qUnlockRet q) n wdl _ => .ok (s.setPc t (.wt0 (.nret (if q then 1 else 0)) n wdl))
  | .idle => .error "nret mu_unlock: thread is outside any note call"
  | _ => .error "nret mu_unlock: no unlock call in progress"

/-- `ncall nsync_mu_trylock note<k>.mu` -/
def stepTryCall (s : State) (t : Tid) (k : NoteId) : Except String State :=
  need ((s.notes k).allocated = true) "mu_trylock: unknown note" <|
  match s.pc t with
  | .nfy .tryCall n (some p) nk =>
    need (k = p) "mu_trylock: expected the parent" <| .ok (s.setPc t (.nfy .tryRet n (some p) nk))
  | .fr .tryCall n (some p) c nx =>
    need (k = p) "mu_trylock: expected the parent" <| .ok (s.setPc t (.fr .tryRet n (some p) c nx))
  | .idle => .error "mu_trylock: note mutex used by a thread outside any note call"
  | _ => .error "mu_trylock: the code does not trylock at this point"

/-- `nret nsync_mu_trylock <0|1>`: success only when the lock is free (A1). -/
def stepTryRet (s : State) (t : Tid) (ok : Bool) : Except String State :=
  match s.pc t with
  | .nfy .tryRet n (some p) nk =>
    if ok then
      need ((s.notes p).lockHolder = none) "mu_trylock succeeded while the lock is held" <|
      .ok (enterChild (s.acquire p t) t n (some p) nk)
    else .ok (s.setPc t (.nfy .sUnlockCall n (some p) nk))
  | .fr .tryRet n (some p) c nx =>
    if ok then
      need ((s.notes p).lockHolder = none) "mu_trylock succeeded while the lock is held" <|
      .ok (freeLoopStart (s.acquire p t) t n (some p))
    else .ok (s.setPc t (.fr .sUnlockCall n (some p) c nx))
  | .idle => .error "nret mu_trylock: thread is outside any note call"
  | _ => .error "nret mu_trylock: no trylock in progress"

/-- `no_children_or_adopted (n)` -/
def NoteRec.waitDone (r : NoteRec) : Bool := decide (r.children = []) || r.adopted

/-- `ncall nsync_mu_wait note<k>.mu` = WAIT_FOR_NO_CHILDREN (A2): the lock is released iff the
    condition `no_children_or_adopted` is false. -/
def stepWaitCall (s : State) (t : Tid) (k : NoteId) : Except String State :=
  need ((s.notes k).allocated = true) "mu_wait: unknown note" <|
  need ((s.notes k).lockHolder = some t) "mu_wait: lock not held by this thread" <|
  let kept : Bool := (s.notes k).waitDone
  let s1 := if kept then s else s.release k
  match s.pc t with
  | .chd .waitCall (f :: rest) top =>
    need (k = f.note) "mu_wait: expected the current note" <|
    .ok (s1.setPc t (.chd (.waitRet kept) (f :: rest) top))
  | .fr .waitCall n par c nx =>
    need (k = n) "mu_wait: wrong note" <| .ok (s1.setPc t (.fr (.waitRet kept) n par c nx))
  | .idle => .error "mu_wait: note mutex used by a thread outside any note call"
  | _ => .error "mu_wait: the code does not wait at this point"

/-- `nret nsync_mu_wait -` (A2): only when the condition `no_children_or_adopted` holds and the
    lock is free (or was never released); then `while (!no_children (n))`: another scan if
    children were adopted meanwhile, otherwise the end of the activation (`note_notify_child`:
    its tail) / the disconnection from the parent (`nsync_note_free`). -/
def stepWaitRet (s : State) (t : Tid) : Except String State :=
  match s.pc t with
  | .chd (.waitRet kept) (f :: rest) top =>
    need ((s.notes f.note).waitDone = true)
      "mu_wait returned while the note has children and none was adopted" <|
    need ((s.notes f.note).lockHolder = (if kept then some t else none))
      "mu_wait returned while the lock is held by another thread" <|
    let s1 := s.acquire f.note t
    if (s.notes f.note).children = [] then .ok (childReturn s1 t f rest top)
    else .ok (childScanStart s1 t f rest top)
  | .fr (.waitRet kept) n par c nx =>
    need ((s.notes n).waitDone = true)
      "mu_wait returned while the note has children and none was adopted" <|
    need ((s.notes n).lockHolder = (if kept then some t else none))
      "mu_wait returned while the lock is held by another thread" <|
    let s1 := s.acquire n t
    if (s.notes n).children = [] then
      match par with
      | some p => .ok ((s1.unlink n p).setPc t (.fr .unlockPCall n par c nx))
      | none => .ok ((s1.decDisc n).setPc t (.fr .unlockCall n par c nx))
    else .ok (freeLoopStart s1 t n par)
  | .idle => .error "nret mu_wait: thread is outside any note call"
  | _ => .error "nret mu_wait: no wait in progress"

/-- The semaphore of a record is fixed by its first appearance. -/
def semOk (w : WRec) (sem : Nat) : Prop := w.sem = none ∨ w.sem = some sem
instance (w : WRec) (sem : Nat) : Decidable (semOk w sem) := by unfold semOk; exact inferInstance

def step (s : State) : Event → Except String State
  | .skip => .ok s
  | .tick v => need (s.now ≤ v) "tick: the clock went backwards" <| .ok (s.setNow v)
  | .call t a =>
    match s.pc t with
    | .idle => stepCall s t a
    | _ => .error "call: thread is already inside a note call"
  | .ret t r => stepRet s t r
  | .ld t site ord k obs => stepLd s t site ord k obs
  | .stNote t site ord k new obs => stepStNote s t site ord k new obs
  | .stW t site ord r new obs => stepStW s t site ord r new obs
  | .lockCall t k => stepLockCall s t k
  | .lockRet t => stepLockRet s t
  | .unlockCall t k => stepUnlockCall s t k
  | .unlockRet t => stepUnlockRet s t
  | .tryCall t k => stepTryCall s t k
  | .tryRet t ok => stepTryRet s t ok
  | .waitCall t k => stepWaitCall s t k
  | .waitRet t => stepWaitRet s t
  | .waitnCall t d =>
    match s.pc t with
    | .wt0 .ncall n wdl =>
      need (d = wdl) "nsync_wait_n: not the deadline of the nsync_note_wait call" <|
      .ok (s.setPc t (.dl .ld1 n none (.ready1 wdl)))
    | _ => .error "nsync_wait_n: not called at this point"
  | .waitnRet t ready =>
    match s.pc t with
    | .wt0 (.nret rd) n wdl =>
      need (ready = rd) "nret nsync_wait_n: wrong result" <| .ok (s.setPc t (.wt0 (.ret rd) n wdl))
    | _ => .error "nret nsync_wait_n: cannot return here"
  | .now t v =>
    match s.pc t with
    | .dl .now n nt dk =>
      need (v = s.now) "now: not the current time" <|
      if nt.leNow v then .ok (s.setPc t (.nfy .lockCall n none (.ofDeadline dk)))
      else .ok (afterDeadline s t n nt dk)
    | .idle => .ok s
    | _ => .error "now: the code does not read the clock at this point"
  | .semV t sem =>
    match s.pc t with
    | .chd (.semV r) (f :: rest) top =>
      need (semOk (s.recs r) sem) "sem v: not the semaphore of the record" <|
      .ok (childWakeNext
            (s.modRec r (fun w => { w with sem := some sem, posted := w.posted + 1 })) t f rest top)
    | .idle => .ok s
    | _ => .error "sem v: the code does not post at this point"
  | .pdEnter t sem d =>
    match s.pc t with
    | .wt (.pdEnter m) n wdl r =>
      need (d = m) "sem pd_enter: wrong deadline" <|
      need (semOk (s.recs r) sem) "sem pd_enter: not the semaphore of the record" <|
      .ok ((s.modRec r (fun w => { w with sem := some sem })).setPc t (.wt (.pdRet m) n wdl r))
    | .idle => .ok s
    | _ => .error "sem pd_enter: the code does not sleep at this point"
  | .pdRet t sem timedOut =>
    match s.pc t with
    | .wt (.pdRet m) n wdl r =>
      need ((s.recs r).sem = some sem) "sem pd_ret: not the semaphore of the record" <|
      if timedOut then
        need (m.leNow s.now = true) "sem pd_ret: ETIMEDOUT before the deadline" <|
        .ok (s.setPc t (.dl .ld1 n none (.dequeue r wdl)))
      else .ok (s.setPc t (.dl .ld1 n none (.ready2 r wdl)))
    | .idle => .ok s
    | _ => .error "sem pd_ret: no sleep in progress"
  | .malloc t res =>
    match s.pc t with
    | .newMalloc par dl =>
      match res with
      | none => .ok (s.setPc t (.newRetNull par))
      | some k =>
        need ((s.notes k).allocated = false) "malloc: note id is not fresh" <|
        .ok ((s.allocNote k par dl).setPc t (.dl .ld1 k none (.newSelf par dl)))
    | .idle => .ok s
    | _ => .error "malloc: the code does not allocate a note at this point"
  | .free t k =>
    match s.pc t with
    | .fr .free n par c nx =>
      need (k = n) "free: not the note of the nsync_note_free call" <|
      .ok ((s.markFreed n).setPc t (.fr .ret n par c nx))
    | .idle => .ok s
    | _ => .error "free: the code does not free a note at this point"

/-- Run the acceptor over an event list. -/
def run (s : State) : List Event → Except String State
  | [] => .ok s
  | e :: es =>
    match step s e with
    | .ok s' => run s' es
    | .error m => .error m

/-- All states the C code can reach, under any program / schedule / clock. -/
def Reachable (s : State) : Prop :=
  ∃ evs, run init evs = .ok s

/-! ### Ghost label: the notes whose memory a step reads or writes -/

/-- Notes dereferenced by thread `t` when it performs `e` in `s`: the event itself and the plain
    code folded into it.  Walking or editing the children list of `n` dereferences the
    `parent_child_link` embedded in the children of `n`, so those count as touched too. -/
def touches (s : State) : Event → List NoteId
  | .skip | .tick _ | .waitnCall _ _ | .waitnRet _ _ | .pdEnter _ _ _ | .pdRet _ _ _
  | .call _ _ | .stW _ _ _ _ _ _ => []
  | .now t _ =>
    match s.pc t with
    | .dl .now n _ (.newSelf (some p) _) => [n, p]
    | _ => []
  | .ld t _ _ k _ =>
    match s.pc t with
    | .newP .ld n p _ => k :: n :: p :: (s.notes p).children
    | .dl .ld1 n _ (.newSelf (some p) _) => [k, n, p]
    | .chd .ld (f :: rest) top =>
      -- the tail of the activation when the note is notified already: `n->disconnecting`, the
      -- unlink from the parent, the caller's `disconnecting--`
      k :: f.note :: top.n ::
        (match frameParent rest top with | some p => p :: (s.notes p).children | none => [])
    | _ => [k]
  | .stNote _ _ _ k _ _ => k :: (s.notes k).children
  | .lockCall _ k | .unlockCall _ k | .tryCall _ k | .waitCall _ k => [k]
  | .lockRet t =>
    match s.pc t with
    | .dl .lockRet n _ _ | .nfy .lockRet n _ _ | .nfy .sLockNRet n _ _
    | .wt .eLockRet n _ _ | .wt .qLockRet n _ _ => [n]
    | .fr .lockRet n _ _ _ | .fr .sLockNRet n _ _ _ => n :: (s.notes n).children
    | .nfy .sLockPRet _ (some p) _ | .fr .sLockPRet _ (some p) _ _ | .newP .lockRet _ p _ => [p]
    | .chd (.lockChildRet c) _ _ => [c]
    | .fr .lockChildRet n par c _ =>
      c :: n :: (s.notes n).children ++
        (match par with | some p => p :: (s.notes p).children | none => [])
    | _ => []
  | .unlockRet t =>
    match s.pc t with
    | .nfy .unlockPRet n _ _ | .fr .unlockPRet n _ _ _ => [n]
    | .dl .unlockRet n _ (.newSelf (some p) _)
    | .nfy .unlockRet n _ (.ofDeadline (.newSelf (some p) _)) => [n, p]
    | .fr .unlockChildRet n _ _ _ => n :: (s.notes n).children
    | .chd (.unlockChildRet _) (f :: _) _ => f.note :: (s.notes f.note).children
    | _ => []
  | .tryRet t _ =>
    match s.pc t with
    | .nfy .tryRet n (some p) _ => [p, n]
    | .fr .tryRet n (some p) _ _ => p :: n :: (s.notes n).children
    | _ => []
  | .waitRet t =>
    match s.pc t with
    | .chd (.waitRet _) (f :: rest) top =>
      f.note :: top.n :: (s.notes f.note).children ++
        (match frameParent rest top with | some p => p :: (s.notes p).children | none => [])
    | .fr (.waitRet _) n par _ _ =>
      n :: (s.notes n).children ++
        (match par with | some p => p :: (s.notes p).children | none => [])
    | _ => []
  | .semV t _ =>
    match s.pc t with
    | .chd (.semV _) (f :: _) _ => f.note :: (s.notes f.note).children
    | _ => []
  -- (a `malloc` / `free` event of a thread that is outside any note call is traffic of another
  -- layer: the acceptor ignores it, and it is no access of this layer)
  | .malloc t res =>
    match s.pc t with
    | .newMalloc _ _ => res.toList
    | _ => []
  | .free t k =>
    match s.pc t with
    | .fr .free _ _ _ _ => [k]
    | _ => []
  | .ret t _ =>
    match s.pc t with
    | .retExpiry n => [n]
    | _ => []

end Note
