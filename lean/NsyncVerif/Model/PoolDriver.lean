/-
  Layer `Pool`: line protocol for the correspondence check.

  One log line in, one verdict out:
    `ok`               the line is an event of this layer and `Pool.step` accepts it
    `skip`             a line of another layer (state unchanged); `# begin …` resets to `init`
    `REJECT <reason>`  common.c (or a contract-abiding client) cannot perform this event here
    `bad-op`           the line cannot be parsed

  Lines of this layer
    <t> atm common.c/0|2/nsync_spin_test_and_set_ ld rlx pool.mu - - <obs> -      → ld
    <t> atm common.c/1/nsync_spin_test_and_set_ cas acq pool.mu <e> <n> <obs> <ok> → cas
    <t> atm common.c/4/nsync_waiter_new_  st rel pool.mu - 0 <obs> -              → rel new
    <t> atm common.c/6/nsync_waiter_free_ st rel pool.mu - 0 <obs> -              → rel free
    <t> atm common.c/3/waiter_destroy     st rel pool.mu - 0 <obs> -              → rel destroy
    <t> malloc w<k> nsync_waiter_new_ / <t> malloc NULL nsync_waiter_new_         → malloc / mallocNull
    <t> atm common.c/5/nsync_waiter_new_ st rlx w<k>.remove_count - 0 <obs> -     → stRc
    <t> nret nsync_waiter_new_ w<k>                                               → ret     (*)
    <t> ncall nsync_waiter_free_ w<k>                                             → free    (*)
    <t> ncall nsync_waiter_new_ / <t> nret nsync_waiter_free_ -    checked: the thread is outside
                                                                   (resp. has left) the pool code (*)
    <t> thread_exit                                                               → exit    (**)
    <t> sem p_enter|pd_enter sem<k> …   (k < 100: the semaphore of w<k>)          → use
    <t> atm <other site> ld|st|cas … w<k>.remove_count|w<k>.waiting …             → env (a load or a
                                        failed CAS is the write of the observed value: it only checks
                                        the observation against the model's memory)
  Any other access to `pool.mu`, and any other atomic access made by `nsync_waiter_new_`,
  `nsync_waiter_free_`, `waiter_destroy`, is rejected (pool code has no other atomic site).

  (*)  REQUIRED HARNESS LINES, not in the logs of the harness as of this delivery: the fast path of
       `nsync_waiter_new_` and the reserved path of `nsync_waiter_free_` perform no atomic operation,
       so they are invisible, and a struct popped from the free list is not named by any pool event.
       `harness/rt/wrap.c` must wrap the two functions (all callers are in other translation units:
       mu.c, cv.c, mu_wait.c, wait.c) and log `ncall nsync_waiter_new_` / `nret nsync_waiter_new_ w<k>`
       and `ncall nsync_waiter_free_ w<k>` / `nret nsync_waiter_free_ -` (+ two `-Wl,--wrap=` flags in
       build.sh).  Only `nret nsync_waiter_new_ w<k>` and `ncall nsync_waiter_free_ w<k>` carry
       information; the other two are merely checked.
  (**) The harness never ends a fiber's "thread" (`ptw_dest` is recorded, never called), so
       `waiter_destroy` does not occur in its logs.  Should it, the line `<t> thread_exit` announces
       it; without that line the driver infers the exit when an idle thread whose reserved struct is
       idle starts the spin loop (a `new` would have taken the fast path; a wrong inference is
       caught at the release store, whose site names the function).

  Core Lean only.
-/
import NsyncVerif.Model.Pool

namespace Pool
namespace Driver

structure DState where
  st : State

def init : DState := { st := Pool.init }

/-- Strict decimal number. -/
def dec? (s : String) : Option Nat :=
  if s.isEmpty then none
  else if s.toList.all Char.isDigit then s.toNat? else none

/-- `parseIdx "w" "w12" = some 12`. -/
def parseIdx (pfx tok : String) : Option Nat :=
  if tok.startsWith pfx then dec? (tok.drop pfx.length).toString else none

/-- `w<k>.remove_count` / `w<k>.waiting`. -/
def parseWField (loc : String) : Option (Wid × AFld) :=
  match loc.splitOn "." with
  | [w, "remove_count"] => (parseIdx "w" w).map (fun k => (k, AFld.rc))
  | [w, "waiting"] => (parseIdx "w" w).map (fun k => (k, AFld.waiting))
  | _ => none

/-- Is this the name of a pool function (an atomic site inside it is pool code)? -/
def poolFn (fn : String) : Bool :=
  fn = "nsync_waiter_new_" ∨ fn = "nsync_waiter_free_" ∨ fn = "waiter_destroy"

def apply (d : DState) (e : Ev) : DState × String :=
  match step d.st e with
  | .ok s' => ({ st := s' }, "ok")
  | .error m => (d, "REJECT " ++ m)

/-- `.exit t` inferred (see (**) above), then the event. -/
def applyLd (d : DState) (t : Tid) (site obs : Nat) : DState × String :=
  match d.st.pc t, fast d.st t with
  | .idle, some _ =>
    match step d.st (.exit t) with
    | .ok s' =>
      match step s' (.ld t site obs) with
      | .ok s'' => ({ st := s'' }, "ok")
      | .error m => (d, "REJECT (thread exit inferred) " ++ m)
    | .error m => (d, "REJECT (thread exit inferred) " ++ m)
  | _, _ => apply d (.ld t site obs)

def stepAtm (d : DState) (t : Tid) (toks : List String) : DState × String :=
  match toks with
  | [site, op, ord, loc, exp, new, obs, ok] =>
    match site.splitOn "/" with
    | [file, k, fn] =>
      match dec? k with
      | none => (d, "bad-op")
      | some k =>
        if loc = "pool.mu" then
          if file ≠ "common.c" then (d, "REJECT access to pool.mu outside common.c") else
          match op, ord, exp, dec? new, dec? obs, ok with
          | "ld", "rlx", "-", none, some obs, "-" =>
            if new ≠ "-" then (d, "bad-op")
            else if fn = "nsync_spin_test_and_set_" ∧ (k = 0 ∨ k = 2) then applyLd d t k obs
            else (d, "REJECT unknown load of pool.mu")
          | "cas", "acq", _, some new, some obs, _ =>
            match dec? exp, ok with
            | some exp, "1" =>
              if fn = "nsync_spin_test_and_set_" ∧ k = 1 then apply d (.cas t exp new obs true)
              else (d, "REJECT unknown CAS of pool.mu")
            | some exp, "0" =>
              if fn = "nsync_spin_test_and_set_" ∧ k = 1 then apply d (.cas t exp new obs false)
              else (d, "REJECT unknown CAS of pool.mu")
            | _, _ => (d, "bad-op")
          | "st", "rel", "-", some 0, some obs, "-" =>
            if fn = "nsync_waiter_new_" ∧ k = 4 then apply d (.rel t .new obs)
            else if fn = "nsync_waiter_free_" ∧ k = 6 then apply d (.rel t .free obs)
            else if fn = "waiter_destroy" ∧ k = 3 then apply d (.rel t .destroy obs)
            else (d, "REJECT unknown release store of pool.mu")
          | _, _, _, _, _, _ =>
            if op = "ld" ∨ op = "st" ∨ op = "cas" then (d, "REJECT unknown access to pool.mu")
            else (d, "bad-op")
        else if file = "common.c" ∧ poolFn fn then
          -- the only other atomic site of pool code: the initialising store of remove_count
          match parseWField loc, op, ord, exp, dec? new, dec? obs, ok with
          | some (w, .rc), "st", "rlx", "-", some 0, some obs, "-" =>
            if fn = "nsync_waiter_new_" ∧ k = 5 then apply d (.stRc t w obs)
            else (d, "REJECT pool code writes remove_count outside the initialisation block")
          | _, _, _, _, _, _, _ =>
            (d, "REJECT unknown atomic access by pool code: " ++ site ++ " " ++ op ++ " " ++ loc)
        else
          match parseWField loc with
          | none =>
            if op = "ld" ∨ op = "st" ∨ op = "cas" then (d, "skip") else (d, "bad-op")
          | some (w, f) =>
            match op, exp, dec? new, dec? obs, ok with
            | "ld", "-", none, some obs, "-" => apply d (.env w f obs obs)
            | "st", "-", some new, some obs, "-" => apply d (.env w f obs new)
            | "cas", _, some new, some obs, "1" => apply d (.env w f obs new)
            | "cas", _, some _, some obs, "0" => apply d (.env w f obs obs)
            | _, _, _, _, _ => (d, "bad-op")
    | _ => (d, "bad-op")
  | _ => (d, "bad-op")

def step (d : DState) (line : String) : DState × String :=
  let l := line.trimAscii.toString
  if l.startsWith "# begin" then (init, "skip")
  else if l.startsWith "#" ∨ l.isEmpty then (d, "skip")
  else
    match l.splitOn " " with
    | tidTok :: kind :: rest =>
      if tidTok = "-" then (d, "skip") else
      match dec? tidTok with
      | none => (d, "bad-op")
      | some t =>
        match kind, rest with
        | "atm", toks => stepAtm d t toks
        | "malloc", [obj, "nsync_waiter_new_"] =>
          if obj = "NULL" then apply d (.mallocNull t)
          else match parseIdx "w" obj with
            | some w => apply d (.malloc t w)
            | none => (d, "REJECT malloc in nsync_waiter_new_ of something that is not a waiter")
        | "nret", ["nsync_waiter_new_", obj] =>
          (match parseIdx "w" obj with
           | some w => apply d (.ret t w)
           | none => (d, "bad-op"))
        | "ncall", ["nsync_waiter_free_", obj] =>
          (match parseIdx "w" obj with
           | some w => apply d (.free t w)
           | none => (d, "bad-op"))
        | "ncall", ["nsync_waiter_new_"] =>
          if d.st.pc t = .idle then (d, "ok")
          else (d, "REJECT nsync_waiter_new_ called inside a pool function")
        | "nret", ["nsync_waiter_free_", "-"] =>
          if d.st.pc t = .idle then (d, "ok")
          else (d, "REJECT nsync_waiter_free_ returns before its release store")
        | "thread_exit", [] => apply d (.exit t)
        | "sem", op :: s :: _ =>
          if op = "p_enter" ∨ op = "pd_enter" then
            match parseIdx "sem" s with
            | some k => if k < 100 then apply d (.use t k) else (d, "skip")
            | none => (d, "skip")
          else (d, "skip")
        | _, _ => (d, "skip")
    | _ => (d, "bad-op")

/-- Whole log, for tests. -/
def runLog (lines : List String) : List String :=
  (lines.foldl (fun (acc : DState × List String) l =>
    let (d, out) := step acc.1 l
    (d, out :: acc.2)) (init, [])).2.reverse

end Driver
end Pool
