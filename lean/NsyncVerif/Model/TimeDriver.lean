/-
Line protocol of the Time correspondence check (pure differential driver).

Input lines, produced by /verif/harness/pure/time/gen.c linked against the real sources:
  add <as> <ans> <bs> <bns> => <s> <ns>
  sub <as> <ans> <bs> <bns> => <s> <ns>
  cmp <as> <ans> <bs> <bns> => <-1|0|1>
  ms <x> => <s> <ns>
  us <x> => <s> <ns>
  s_ns <s> <ns> => <s> <ns>
  const zero => <s> <ns>
  const no_deadline => <s> <ns>
  # cases=<n>
Output: `ok`, `MISMATCH model=<…> impl=<…>`, or `bad-op` (unparsable, argument outside the machine
type, or an add/sub whose C execution would overflow `tv_sec`/`tv_nsec`, i.e. UB: such a line
must not be generated).  The `# cases=<n>` trailer is checked against the number of case lines
seen (a truncated stream is reported as MISMATCH).

Core Lean only.
-/
import NsyncVerif.Model.Time

namespace NsyncVerif
namespace Time
namespace Driver

structure DState where
  cases : Nat := 0
deriving Repr

def init : DState := {}

/-- Parse a decimal `time_t`/`long`; `none` unless representable in 64 bits. -/
def parseI64 (s : String) : Option Int :=
  match s.toInt? with
  | some v => if InRange64 v then some v else none
  | none => none

/-- Parse a decimal `unsigned`; `none` unless < 2^32. -/
def parseU32 (s : String) : Option Nat :=
  match s.toNat? with
  | some v => if InRangeU32 v then some v else none
  | none => none

def showTime (t : Time) : String := s!"{t.sec} {t.nsec}"

def verdict (model impl : String) : String :=
  if model = impl then "ok" else s!"MISMATCH model={model} impl={impl}"

def stepTokens (st : DState) (toks : List String) : DState × String :=
  let bump : DState := { st with cases := st.cases + 1 }
  match toks with
  | ["add", as, ans, bs, bns, "=>", rs, rns] =>
    match parseI64 as, parseI64 ans, parseI64 bs, parseI64 bns, parseI64 rs, parseI64 rns with
    | some as, some ans, some bs, some bns, some rs, some rns =>
      let a : Time := ⟨as, ans⟩
      let b : Time := ⟨bs, bns⟩
      if AddNoOverflow a b then (bump, verdict (showTime (add a b)) (showTime ⟨rs, rns⟩))
      else (st, "bad-op")
    | _, _, _, _, _, _ => (st, "bad-op")
  | ["sub", as, ans, bs, bns, "=>", rs, rns] =>
    match parseI64 as, parseI64 ans, parseI64 bs, parseI64 bns, parseI64 rs, parseI64 rns with
    | some as, some ans, some bs, some bns, some rs, some rns =>
      let a : Time := ⟨as, ans⟩
      let b : Time := ⟨bs, bns⟩
      if SubNoOverflow a b then (bump, verdict (showTime (sub a b)) (showTime ⟨rs, rns⟩))
      else (st, "bad-op")
    | _, _, _, _, _, _ => (st, "bad-op")
  | ["cmp", as, ans, bs, bns, "=>", r] =>
    match parseI64 as, parseI64 ans, parseI64 bs, parseI64 bns, parseI64 r with
    | some as, some ans, some bs, some bns, some r =>
      (bump, verdict (toString (cmp ⟨as, ans⟩ ⟨bs, bns⟩)) (toString r))
    | _, _, _, _, _ => (st, "bad-op")
  | ["ms", x, "=>", rs, rns] =>
    match parseU32 x, parseI64 rs, parseI64 rns with
    | some x, some rs, some rns => (bump, verdict (showTime (ms x)) (showTime ⟨rs, rns⟩))
    | _, _, _ => (st, "bad-op")
  | ["us", x, "=>", rs, rns] =>
    match parseU32 x, parseI64 rs, parseI64 rns with
    | some x, some rs, some rns => (bump, verdict (showTime (us x)) (showTime ⟨rs, rns⟩))
    | _, _, _ => (st, "bad-op")
  | ["s_ns", s, ns, "=>", rs, rns] =>
    match parseI64 s, parseU32 ns, parseI64 rs, parseI64 rns with
    | some s, some ns, some rs, some rns =>
      (bump, verdict (showTime (sNs s ns)) (showTime ⟨rs, rns⟩))
    | _, _, _, _ => (st, "bad-op")
  | ["const", "zero", "=>", rs, rns] =>
    match parseI64 rs, parseI64 rns with
    | some rs, some rns => (bump, verdict (showTime zero) (showTime ⟨rs, rns⟩))
    | _, _ => (st, "bad-op")
  | ["const", "no_deadline", "=>", rs, rns] =>
    match parseI64 rs, parseI64 rns with
    | some rs, some rns => (bump, verdict (showTime noDeadline) (showTime ⟨rs, rns⟩))
    | _, _ => (st, "bad-op")
  | ["#", trailer] =>
    match trailer.splitOn "=" with
    | ["cases", n] =>
      match n.toNat? with
      | some n => (st, verdict s!"cases={st.cases}" s!"cases={n}")
      | none => (st, "bad-op")
    | _ => (st, "bad-op")
  | _ => (st, "bad-op")

def step (st : DState) (line : String) : DState × String :=
  stepTokens st (line.trimAscii.toString.splitOn " ")

end Driver
end Time
end NsyncVerif
