/-
  Model/CounterDriver.lean — line protocol of the Counter layer (correspondence check).
  One input line (an event of the harness log, CONVENTIONS.md format) → one output line:
    ok                 the event is the step the model prescribes (or a tick)
    skip               the event belongs to another layer (semaphore traffic is still accounted)
    REJECT <reason>    the C code modelled by Model/Counter.lean could not have done this here
    bad-op             the line cannot be parsed
  Several counters: a map  ctr id → Counter.State.  An event that names `ctr<k>` goes to that
  counter; `ret`s go to the counter the thread is operating on; all other thread events
  (lock calls, `nw<k>.waiting`, semaphores, …) are shown to every counter — in the counters where
  the thread is idle they are skipped / accounted / rejected by `Counter.dflt`.
  Core Lean only.
-/
import NsyncVerif.Model.Counter

namespace Counter.Driver

open Counter

structure DState where
  ctrs : List (Nat × State)        -- live / freed counters by log id
  creating : List (Tid × State)    -- nsync_counter_new in flight, object not named yet
  active : List (Tid × Nat)        -- thread → counter of its in-flight call
  env : State                      -- a counter LTS that has not been created yet: it has seen every
                                   -- tick and every semaphore event so far; nsync_counter_new clones it

def init : DState := { ctrs := [], creating := [], active := [], env := Counter.init }

def lookup {α} (k : Nat) : List (Nat × α) → Option α
  | [] => none
  | (k', v) :: r => if k' = k then some v else lookup k r

def erase {α} (k : Nat) : List (Nat × α) → List (Nat × α)
  | [] => []
  | (k', v) :: r => if k' = k then erase k r else (k', v) :: erase k r

def insert {α} (k : Nat) (v : α) (l : List (Nat × α)) : List (Nat × α) := (k, v) :: erase k l

/-- `ctr12` → 12 for prefix "ctr" -/
def parseId (pfx : String) (tok : String) : Option Nat :=
  if tok.startsWith pfx then (tok.drop pfx.length).toNat? else none

def parseDeadline (tok : String) : Option Deadline :=
  if tok = "inf" then some none else (tok.toInt?).map some

def parseOrd : String → Option Ord
  | "rlx" => some .rlx | "acq" => some .acq | "rel" => some .rel | "ar" => some .ar | _ => none

inductive PLoc | ctr (k : Nat) (l : Loc) | plain (l : Loc)

def parseLoc (tok : String) : PLoc :=
  match tok.splitOn "." with
  | [obj, fld] =>
    match parseId "ctr" obj, fld with
    | some k, "value" => .ctr k .value
    | some k, "waited" => .ctr k .waited
    | _, _ =>
      match parseId "nw" obj, fld with
      | some k, "waiting" => .plain (.nwWaiting k)
      | _, _ => .plain .other
  | _ => .plain .other

/-- A parsed line. -/
inductive Cmd
  | tick (ns : Nat)
  | callNew (t : Tid) (v : Nat)
  | malloc (t : Tid) (obj : Option Nat)           -- none: NULL
  | mallocOther (t : Tid)
  | retNew (t : Tid) (obj : Option Nat)
  | call (t : Tid) (c : Nat) (e : Ev)              -- API call naming ctr c
  | ret (t : Tid) (e : Ev)                         -- API return
  | freeCtr (t : Tid) (c : Nat)
  | onCtr (t : Tid) (c : Nat) (e : Ev)             -- atomic on ctr<c>.value / .waited
  | ev (t : Tid) (e : Ev)                          -- anything else of a thread
  | panic
  | bad

def parseAtm (t : Tid) (toks : List String) : Cmd :=
  match toks with
  | [_site, op, ord, loc, exp, new, obs, ok] =>
    match parseOrd ord, obs.toNat? with
    | some o, some ob =>
      let mk (f : Loc → Ev) : Cmd :=
        match parseLoc loc with
        | .ctr k l => .onCtr t k (f l)
        | .plain l => .ev t (f l)
      match op, exp, new, ok with
      | "ld", "-", "-", "-" => mk (fun l => .ld o l ob)
      | "st", "-", n, "-" =>
        match n.toNat? with
        | some nv => mk (fun l => .st o l nv ob)
        | none => .bad
      | "cas", e, n, k =>
        match e.toNat?, n.toNat?, k with
        | some ev, some nv, "1" => mk (fun l => .cas o l ev nv ob true)
        | some ev, some nv, "0" => mk (fun l => .cas o l ev nv ob false)
        | _, _, _ => .bad
      | _, _, _, _ => .bad
    | _, _ => .bad
  | _ => .bad

def parseSem (t : Tid) (toks : List String) : Cmd :=
  match toks with
  | ["pd_enter", s, d] =>
    match parseId "sem" s, parseDeadline d with
    | some j, some dl => .ev t (.pdEnter j dl)
    | _, _ => .bad
  | ["pd_ret", s, r] =>
    match parseId "sem" s, r with
    | some j, "0" => .ev t (.pdRet j false)
    | some j, "ETIMEDOUT" => .ev t (.pdRet j true)
    | _, _ => .bad
  | ["p_enter", s] => match parseId "sem" s with | some j => .ev t (.pEnter j) | none => .bad
  | ["p_ret", s] => match parseId "sem" s with | some j => .ev t (.pRet j) | none => .bad
  | ["v", s] => match parseId "sem" s with | some j => .ev t (.semV j) | none => .bad
  | _ => .bad

def parseCall (t : Tid) (toks : List String) : Cmd :=
  match toks with
  | ["nsync_counter_new", v] => match v.toNat? with | some n => .callNew t n | none => .bad
  | ["nsync_counter_free", c] => match parseId "ctr" c with | some k => .call t k .callFree | none => .bad
  | ["nsync_counter_add", c, d] =>
    match parseId "ctr" c, d.toInt? with
    | some k, some dv => .call t k (.callAdd dv)
    | _, _ => .bad
  | ["nsync_counter_value", c] => match parseId "ctr" c with | some k => .call t k .callValue | none => .bad
  | ["nsync_counter_wait", c, d] =>
    match parseId "ctr" c, parseDeadline d with
    | some k, some dl => .call t k (.callWait dl)
    | _, _ => .bad
  | ["nsync_mu_lock", m] => match parseId "mu" m with | some k => .ev t (.callLock k) | none => .bad
  | ["nsync_mu_unlock", m] => match parseId "mu" m with | some k => .ev t (.callUnlock k) | none => .bad
  | api :: _ => if api.startsWith "nsync_counter_" then .bad else .ev t .other
  | [] => .bad

def parseRet (t : Tid) (toks : List String) : Cmd :=
  match toks with
  | ["nsync_counter_new", r] =>
    if r = "NULL" then .retNew t none
    else match parseId "ctr" r with | some k => .retNew t (some k) | none => .bad
  | ["nsync_counter_free", "-"] => .ret t .retFree
  | ["nsync_counter_add", r] => match r.toNat? with | some v => .ret t (.retAdd v) | none => .bad
  | ["nsync_counter_value", r] => match r.toNat? with | some v => .ret t (.retValue v) | none => .bad
  | ["nsync_counter_wait", r] => match r.toNat? with | some v => .ret t (.retWait v) | none => .bad
  | ["nsync_mu_lock", "-"] => .ev t .retLock
  | ["nsync_mu_unlock", "-"] => .ev t .retUnlock
  | api :: _ => if api.startsWith "nsync_counter_" then .bad else .ev t .other
  | [] => .bad

def parseLine (line : String) : Cmd :=
  match line.trimAscii.toString.splitOn " " with
  | ["-", "tick", ns] => match ns.toNat? with | some n => .tick n | none => .bad
  | tid :: kind :: rest =>
    match tid.toNat? with
    | none => .bad
    | some t =>
      match kind with
      | "call" => parseCall t rest
      | "ret" => parseRet t rest
      | "atm" => parseAtm t rest
      | "sem" => parseSem t rest
      | "malloc" =>
        match rest with
        | ["NULL"] => .malloc t none
        | [obj] => match parseId "ctr" obj with | some k => .malloc t (some k) | none => .mallocOther t
        | _ => .bad
      | "free" =>
        match rest with
        | [obj] => match parseId "ctr" obj with | some k => .freeCtr t k | none => .ev t .other
        | _ => .bad
      | "now" | "cb" | "cond" | "futex" => .ev t .other
      | "panic" => .panic
      | _ => .bad
  | _ => .bad

/-- apply `f` to every state of an association list; first error wins -/
def mapAll {κ} (f : State → Except String State) : List (κ × State) → Except String (List (κ × State))
  | [] => .ok []
  | (k, s) :: r =>
    match f s with
    | .error m => .error m
    | .ok s' => match mapAll f r with
      | .error m => .error m
      | .ok r' => .ok ((k, s') :: r')

/-- show a thread event to every counter (see file header) -/
def broadcast (d : DState) (t : Tid) (e : Ev) : Except String DState :=
  match mapAll (fun s => Counter.step s (.thr t e)) d.ctrs with
  | .error m => .error m
  | .ok cs =>
    match mapAll (fun s => Counter.step s (.thr t e)) d.creating with
    | .error m => .error m
    | .ok cr =>
      match Counter.step d.env (.thr t e) with
      | .error m => .error m
      | .ok en => .ok { d with ctrs := cs, creating := cr, env := en }

def pcOf (d : DState) (t : Tid) : Option PC :=
  match lookup t d.active with
  | some c => (lookup c d.ctrs).map (fun s => s.pc t)
  | none => (lookup t d.creating).map (fun s => s.pc t)

def verdict (d d' : DState) (t : Tid) : String :=
  if pcOf d t ≠ pcOf d' t then "ok" else "skip"

/-- events the driver routes itself (API calls / returns, malloc, free) never reach `broadcast` -/
def isRouted : Ev → Bool
  | .callNew _ | .malloc _ | .retNew _ | .callFree | .free | .retFree | .callAdd _ | .retAdd _
  | .callValue | .retValue _ | .callWait _ | .retWait _ => true
  | _ => false

def exec (d : DState) (c : Cmd) : DState × String :=
  match c with
  | .bad => (d, "bad-op")
  | .panic => (d, "REJECT panic: the library's ASSERT fired (contract violation or model mismatch)")
  | .tick ns =>
    match mapAll (fun s => Counter.step s (.tick ns)) d.ctrs with
    | .error m => (d, "REJECT " ++ m)
    | .ok cs =>
      match mapAll (fun s => Counter.step s (.tick ns)) d.creating with
      | .error m => (d, "REJECT " ++ m)
      | .ok cr =>
        match Counter.step d.env (.tick ns) with
        | .error m => (d, "REJECT " ++ m)
        | .ok en => ({ d with ctrs := cs, creating := cr, env := en }, "ok")
  | .callNew t v =>
    match lookup t d.active, lookup t d.creating with
    | none, none =>
      -- the new counter's LTS starts from `env` (a reachable state of the single-counter LTS)
      match Counter.step d.env (.thr t (.callNew v)) with
      | .ok s => ({ d with creating := insert t s d.creating }, "ok")
      | .error m => (d, "REJECT " ++ m)
    | _, _ => (d, "REJECT thread already inside a counter operation")
  | .malloc t obj =>
    match lookup t d.creating with
    | none => (d, "skip")
    | some s =>
      match obj with
      | none =>
        match Counter.step s (.thr t (.malloc false)) with
        | .ok s' => ({ d with creating := insert t s' d.creating }, "ok")
        | .error m => (d, "REJECT " ++ m)
      | some k =>
        let fresh : Bool := match lookup k d.ctrs with
          | none => true
          | some old => decide (old.sh.phase = .freed)
        if fresh then
          match Counter.step s (.thr t (.malloc true)) with
          | .ok s' => ({ d with creating := erase t d.creating, ctrs := insert k s' d.ctrs,
                                active := insert t k d.active }, "ok")
          | .error m => (d, "REJECT " ++ m)
        else (d, "REJECT malloc returned an object that is still live")
  | .mallocOther t =>
    match lookup t d.creating with
    | some _ => (d, "REJECT nsync_counter_new: malloc of a foreign object")
    | none => (d, "skip")
  | .retNew t obj =>
    match obj with
    | none =>
      match lookup t d.creating with
      | none => (d, "REJECT ret nsync_counter_new NULL without a failed malloc")
      | some s =>
        match Counter.step s (.thr t (.retNew false)) with
        | .ok _ => ({ d with creating := erase t d.creating }, "ok")   -- the LTS instance is dropped
        | .error m => (d, "REJECT " ++ m)
    | some k =>
      match lookup t d.active with
      | none => (d, "REJECT ret nsync_counter_new without a call")
      | some c =>
        if c = k then
          match lookup k d.ctrs with
          | none => (d, "REJECT unknown counter")
          | some s =>
            match Counter.step s (.thr t (.retNew true)) with
            | .ok s' => ({ d with ctrs := insert k s' d.ctrs, active := erase t d.active }, "ok")
            | .error m => (d, "REJECT " ++ m)
        else (d, "REJECT nsync_counter_new returned a different object than malloc")
  | .call t c e =>
    match lookup t d.active, lookup t d.creating, lookup c d.ctrs with
    | none, none, some s =>
      match Counter.step s (.thr t e) with
      | .ok s' => ({ d with ctrs := insert c s' d.ctrs, active := insert t c d.active }, "ok")
      | .error m => (d, "REJECT " ++ m)
    | _, _, none => (d, "REJECT unknown counter")
    | _, _, _ => (d, "REJECT thread already inside a counter operation")
  | .ret t e =>
    match lookup t d.active with
    | none => (d, "REJECT return without a call")
    | some c =>
      match lookup c d.ctrs with
      | none => (d, "REJECT unknown counter")
      | some s =>
        match Counter.step s (.thr t e) with
        | .ok s' => ({ d with ctrs := insert c s' d.ctrs, active := erase t d.active }, "ok")
        | .error m => (d, "REJECT " ++ m)
  | .freeCtr t c =>
    match lookup c d.ctrs with
    | none => (d, "REJECT free of an unknown counter")
    | some s =>
      match Counter.step s (.thr t .free) with
      | .ok s' => ({ d with ctrs := insert c s' d.ctrs }, "ok")
      | .error m => (d, "REJECT " ++ m)
  | .onCtr t c e =>
    match lookup c d.ctrs with
    | none => (d, "REJECT access to an unknown counter")
    | some s =>
      match Counter.step s (.thr t e) with
      | .ok s' => ({ d with ctrs := insert c s' d.ctrs }, "ok")
      | .error m => (d, "REJECT " ++ m)
  | .ev t e =>
    if isRouted e then (d, "bad-op")
    else
      match broadcast d t e with
      | .error m => (d, "REJECT " ++ m)
      | .ok d' => (d', verdict d d' t)

def step (d : DState) (line : String) : DState × String := exec d (parseLine line)

/-- run a whole log; returns the verdict lines -/
def runLog (lines : List String) : List String :=
  (lines.foldl (fun (acc : DState × List String) l =>
      let (d', out) := step acc.1 l
      (d', out :: acc.2)) (init, [])).2.reverse

end Counter.Driver
