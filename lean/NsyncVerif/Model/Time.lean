/-
Model of nsync's time arithmetic (layer "Time", properties C18 and the arithmetic half of C15).

Sources modelled, statement by statement:
  /repo/platform/posix/src/time_rep.c            (C build)
  /repo/platform/c++11/src/time_rep_timespec.cc  (C++11 build)
  /repo/internal/time_internal.c                 (nsync_time_ms, nsync_time_us; both builds)

The two `time_rep` files define `nsync_time_s_ns`, `nsync_time_add`, `nsync_time_sub`,
`nsync_time_cmp`, `nsync_time_zero`, `nsync_time_no_deadline` with *textually identical* bodies
(checked with diff), and in both default builds `nsync_time` is `struct timespec`
(nsync_time_internal.h: the `NSYNC_USE_CPP11_TIMEPOINT` branch and the default branch both say
`typedef struct timespec nsync_time`).  One model therefore covers both; the differential driver
is nevertheless run against both objects.

Machine types (LP64 Linux, the two default builds): `time_t` = `long` = 64-bit two's complement,
`int` = 32-bit, `unsigned` = 32-bit.  Signed overflow is undefined behaviour in C; the model
*wraps* (`wrap64`), and every theorem about `add`/`sub` carries an explicit "no overflow"
hypothesis (`InRange64 …` of the ideal intermediate), so nothing is claimed about UB executions.
Unsigned arithmetic wraps modulo 2^32 by the C standard (`wrapU32`); the theorems about `ms`/`us`
prove that no wrap actually happens.

Core Lean only.
-/

namespace NsyncVerif

/-- `struct timespec { time_t tv_sec; long tv_nsec; }` — both fields 64-bit signed. -/
structure Time where
  sec : Int
  nsec : Int
deriving DecidableEq, Repr, Inhabited

namespace Time

/-- Representable in a 64-bit two's complement integer (`time_t`, `long`). -/
def InRange64 (x : Int) : Prop := -9223372036854775808 ≤ x ∧ x < 9223372036854775808

instance (x : Int) : Decidable (InRange64 x) := by unfold InRange64; exact inferInstance

/-- Representable in `unsigned` (32 bits). -/
def InRangeU32 (x : Nat) : Prop := x < 4294967296

instance (x : Nat) : Decidable (InRangeU32 x) := by unfold InRangeU32; exact inferInstance

/-- Result of 64-bit signed machine arithmetic: reduce modulo 2^64 into [-2^63, 2^63). -/
def wrap64 (x : Int) : Int := (x + 9223372036854775808) % 18446744073709551616 - 9223372036854775808

/-- Result of 32-bit signed (`int`) machine arithmetic. -/
def wrapI32 (x : Int) : Int := (x + 2147483648) % 4294967296 - 2147483648

/-- Result of `unsigned` arithmetic: modulo 2^32 (defined behaviour). -/
def wrapU32 (x : Nat) : Nat := x % 4294967296

/-- `#define NSYNC_NS_IN_S_ (1000 * 1000 * 1000)`: evaluated in `int`. -/
def NS_IN_S : Int := wrapI32 (wrapI32 (1000 * 1000) * 1000)

/-- A timespec is a machine value: both fields are 64-bit. -/
def Machine (t : Time) : Prop := InRange64 t.sec ∧ InRange64 t.nsec

instance (t : Time) : Decidable (Machine t) := by unfold Machine; exact inferInstance

/-- Normalized: `0 <= nanoseconds < 1e9` (the domain of property C18). -/
def Norm (t : Time) : Prop := 0 ≤ t.nsec ∧ t.nsec < 1000000000

instance (t : Time) : Decidable (Norm t) := by unfold Norm; exact inferInstance

/-- The integer (nanoseconds) denoted by a time. -/
def toNs (t : Time) : Int := t.sec * 1000000000 + t.nsec

/-
nsync_time nsync_time_s_ns (time_t s, unsigned ns) {
	nsync_time t;
	memset (&t, 0, sizeof (t));
	t.tv_sec = s;
	t.tv_nsec = ns;          // unsigned -> long: value-preserving (2^32 <= 2^63), written as wrap64
	return (t);
}
-/
def sNs (s : Int) (ns : Nat) : Time :=
  { sec := s, nsec := wrap64 (Int.ofNat ns) }

/-- `NSYNC_TIME_STATIC_INIT (0, 0)` -/
def zero : Time := { sec := 0, nsec := 0 }

/-- `NSYNC_TIME_STATIC_INIT (MAX_INT_TYPE (time_t), NSYNC_NS_IN_S_ - 1)`;
`MAX_INT_TYPE (time_t)` is `(time_t) ((((uintmax_t)1) << 63) - 1)` = 2^63-1. -/
def noDeadline : Time := { sec := 9223372036854775807, nsec := wrapI32 (NS_IN_S - 1) }

/-
nsync_time nsync_time_add (nsync_time a, nsync_time b) {
	a.tv_sec += b.tv_sec;
	a.tv_nsec += b.tv_nsec;
	if (a.tv_nsec >= NSYNC_NS_IN_S_) {
		a.tv_nsec -= NSYNC_NS_IN_S_;
		a.tv_sec++;
	}
	return (a);
}
-/
def add (a b : Time) : Time :=
  let sec := wrap64 (a.sec + b.sec)
  let nsec := wrap64 (a.nsec + b.nsec)
  if nsec ≥ NS_IN_S then
    { sec := wrap64 (sec + 1), nsec := wrap64 (nsec - NS_IN_S) }
  else
    { sec := sec, nsec := nsec }

/-
nsync_time nsync_time_sub (nsync_time a, nsync_time b) {
	a.tv_sec -= b.tv_sec;
	if (a.tv_nsec < b.tv_nsec) {
		a.tv_nsec += NSYNC_NS_IN_S_;
		a.tv_sec--;
	}
	a.tv_nsec -= b.tv_nsec;
	return (a);
}
-/
def sub (a b : Time) : Time :=
  let sec := wrap64 (a.sec - b.sec)
  if a.nsec < b.nsec then
    { sec := wrap64 (sec - 1), nsec := wrap64 (wrap64 (a.nsec + NS_IN_S) - b.nsec) }
  else
    { sec := sec, nsec := wrap64 (a.nsec - b.nsec) }

/-- Exactly the condition under which the C execution of `nsync_time_add (a, b)` performs no
signed overflow (each ideal intermediate value that the taken path computes is representable).
Outside it the C program has undefined behaviour; the differential driver rejects such cases. -/
def AddNoOverflow (a b : Time) : Prop :=
  InRange64 (a.sec + b.sec) ∧ InRange64 (a.nsec + b.nsec) ∧
  (a.nsec + b.nsec ≥ NS_IN_S →
    InRange64 (a.nsec + b.nsec - NS_IN_S) ∧ InRange64 (a.sec + b.sec + 1))

instance (a b : Time) : Decidable (AddNoOverflow a b) := by
  unfold AddNoOverflow; exact inferInstance

/-- Likewise for `nsync_time_sub (a, b)`. -/
def SubNoOverflow (a b : Time) : Prop :=
  InRange64 (a.sec - b.sec) ∧
  (a.nsec < b.nsec →
    InRange64 (a.nsec + NS_IN_S) ∧ InRange64 (a.sec - b.sec - 1) ∧
    InRange64 (a.nsec + NS_IN_S - b.nsec)) ∧
  (¬ a.nsec < b.nsec → InRange64 (a.nsec - b.nsec))

instance (a b : Time) : Decidable (SubNoOverflow a b) := by
  unfold SubNoOverflow; exact inferInstance

/-- C's value of a relational expression: `int` 1 or 0. -/
def b2i (p : Bool) : Int := if p then 1 else 0

/-
int nsync_time_cmp (nsync_time a, nsync_time b) {
	int cmp = (NSYNC_TIME_SEC (a) > NSYNC_TIME_SEC (b)) -
		  (NSYNC_TIME_SEC (a) < NSYNC_TIME_SEC (b));
	if (cmp == 0) {
		cmp = (NSYNC_TIME_NSEC (a) > NSYNC_TIME_NSEC (b)) -
		      (NSYNC_TIME_NSEC (a) < NSYNC_TIME_NSEC (b));
	}
	return (cmp);
}
(differences of 0/1 values: no `int` overflow possible, written with wrapI32 anyway)
-/
def cmp (a b : Time) : Int :=
  let c := wrapI32 (b2i (decide (a.sec > b.sec)) - b2i (decide (a.sec < b.sec)))
  if c = 0 then
    wrapI32 (b2i (decide (a.nsec > b.nsec)) - b2i (decide (a.nsec < b.nsec)))
  else c

/-
nsync_time nsync_time_ms (unsigned ms) {
        unsigned s = ms / 1000;
	return (nsync_time_s_ns (s, 1000 * 1000 * (ms % 1000)));
}
Integer promotions: `1000 * 1000` is `int * int` = int 1000000 (fits in 32 bits);
`int * unsigned` converts the int to unsigned, so the product `1000000u * (ms % 1000)` is
computed modulo 2^32.  `ms / 1000`, `ms % 1000`: the int constant is converted to unsigned;
unsigned division.  `s` (unsigned) is passed as `time_t`: value-preserving widening.
-/
def ms (x : Nat) : Time :=
  let s : Nat := x / 1000
  sNs (wrap64 (Int.ofNat s)) (wrapU32 ((wrapI32 (1000 * 1000)).toNat * (x % 1000)))

/-
nsync_time nsync_time_us (unsigned us) {
        unsigned s = us / (1000 * 1000);
	return (nsync_time_s_ns (s, 1000 * (us % (1000 * 1000))));
}
-/
def us (x : Nat) : Time :=
  let s : Nat := x / (wrapI32 (1000 * 1000)).toNat
  sNs (wrap64 (Int.ofNat s)) (wrapU32 (1000 * (x % (wrapI32 (1000 * 1000)).toNat)))

end Time
end NsyncVerif
