/-
Model of the bounded output buffer of /repo/internal/debug.c (layer "Emit", buffer half of C16).

Modelled exactly (debug.c:34-65): `struct emit_buf`, `emit_init`, `emit_c`, including the suffix
loop that overwrites the tail of a full buffer with "..." and a NUL.  Pointers into the caller's
buffer are modelled as integer indices relative to `b->start`; `mem` is the caller's buffer as a
partial map (`none` = never stored to by these functions), and the ghost field `written` logs the
index of every store, in order.

Also modelled (debug.c:70-141, 195-265), as functions producing the *character stream* that is fed
to `emit_c`: `emit_print` (format specifiers `%s`, `%i`), `emit_word`, and the streams printed by
`nsync_mu_debug_state` / `nsync_cv_debug_state` for a given address and word value
(`print_waiters == 0`, so `emit_waiters` is not called and `b->overflow` is never read outside
`emit_c`; all output goes through `emit_c`, hence "stream, then fold `emitC`" is exact).

`len` is C `int`; the model accepts every `Int` (0 and negative included).  With `len <= 0` the C
code forms `&b->start[b->len]` and compares it with `b->start` without dereferencing; the model
follows the index arithmetic (nothing is ever stored).

Core Lean only.
-/

namespace NsyncVerif
namespace Emit

/-- `struct emit_buf` + the caller's memory + ghost write log. -/
structure Buf where
  len : Int                      -- b->len
  pos : Int                      -- b->pos
  overflow : Bool                -- b->overflow
  mem : Int → Option UInt8       -- b->start[i]; `none` = not stored to
  written : List Int             -- ghost: indices stored to, oldest first

/-
static struct emit_buf *emit_init (struct emit_buf *b, char *start, int len) {
        b->start = start;
        b->len = len;
        b->pos = 0;
        b->overflow = 0;
        return (b);
}
-/
def init (len : Int) : Buf :=
  { len := len, pos := 0, overflow := false, mem := fun _ => none, written := [] }

/-- `b->start[i] = c` -/
def store (b : Buf) (i : Int) (c : UInt8) : Buf :=
  { b with mem := fun j => if j = i then some c else b.mem j, written := b.written ++ [i] }

/-- `static const char suffix[] = "...";`  — sizeof 4, the last element is the NUL. -/
def suffix : List UInt8 := [46, 46, 46, 0]

/--
```
const char *s = &suffix[sizeof (suffix)];   /* past nul */
char *p = &b->start[b->len];                /* past end */
while (s > suffix && p > b->start) {
        *--p = *--s;
}
```
`rest` holds the bytes of `suffix` not yet copied, last first (so `s > suffix` iff `rest ≠ []`,
and `*--s` is its head); `p` is the index of `p` relative to `b->start`. -/
def suffixLoop : List UInt8 → Int → Buf → Buf
  | [], _, b => b
  | c :: rest, p, b =>
    if p > 0 then suffixLoop rest (p - 1) (store b (p - 1) c) else b

/-
static void emit_c (struct emit_buf *b, int c) {
        if (b->pos < b->len) {
                b->start[b->pos++] = c;
        } else if (!b->overflow) {
                static const char suffix[] = "...";
                const char *s = &suffix[sizeof (suffix)]; /* past nul */
                char *p = &b->start[b->len];  /* past end */
                while (s > suffix && p > b->start) {
                        *--p = *--s;
                }
                b->overflow = 1;
        }
}
(`b->pos++` cannot overflow `int`: pos < len <= INT_MAX.)
-/
def emitC (b : Buf) (c : UInt8) : Buf :=
  if b.pos < b.len then
    { store b b.pos c with pos := b.pos + 1 }
  else if !b.overflow then
    { suffixLoop suffix.reverse b.len b with overflow := true }
  else b

/-- Feed a whole character stream. -/
def emitAll (b : Buf) (cs : List UInt8) : Buf := cs.foldl emitC b

/-- What every debug entry point does: `emit_init`, the stream, then `emit_c (b, 0)`. -/
def run (n : Int) (cs : List UInt8) : Buf := emitC (emitAll (init n) cs) 0

/-- The first `n` bytes of the caller's buffer after the call, given its previous contents
(`fill`, e.g. 0xEE in the differential test). -/
def dump (b : Buf) (n : Nat) (fill : UInt8) : List UInt8 :=
  (List.range n).map fun i =>
    match b.mem (Int.ofNat i) with
    | some v => v
    | none => fill

/-! ### emit_print / emit_word as stream producers -/

/-- ASCII bytes of a literal. -/
def asc (s : String) : List UInt8 := s.toList.map fun c => c.toNat.toUInt8

/-- `"0123456789abcdef"[d]` for `d < 16`. -/
def hexDigit (d : Nat) : UInt8 :=
  if d < 10 then (48 + d).toUInt8 else (87 + d).toUInt8

/-- `for (i = 0; (n >> i) >= 0x10; i += 4) {}` — returns the final `i`.  `fuel` bounds the number
of iterations: for a 64-bit `uintptr_t` the loop stops at `i <= 60`, so 16 suffices (and the shift
count never reaches 64, which would be UB). -/
def hexTopShift (n : Nat) : Nat → Nat → Nat
  | 0, i => i
  | fuel + 1, i => if n >>> i ≥ 16 then hexTopShift n fuel (i + 4) else i

/-- `for (; i >= 0; i -= 4) emit_c (b, "0123456789abcdef"[(n >> i) & 0xf]);` with `i = 4*k`,
`k` counting down from `steps - 1` to 0. -/
def hexFrom (n : Nat) : Nat → List UInt8
  | 0 => []
  | k + 1 => hexDigit ((n >>> (4 * k)) &&& 15) :: hexFrom n k

/-- The characters `%i` produces for a `uintptr_t` (lower-case hex, no leading zeros, "0" for 0). -/
def hexChars (n : Nat) : List UInt8 :=
  hexFrom n (hexTopShift n 16 0 / 4 + 1)

/-- Variadic arguments of `emit_print`. -/
inductive Arg where
  | str (s : List UInt8)     -- const char * (bytes up to, excluding, the NUL)
  | hex (n : Nat)            -- uintptr_t

/-- `emit_print (b, fmt, ...)` as the stream of characters passed to `emit_c`.
`none`: the `ASSERT (0)` branch (unknown specifier), or an argument of the wrong kind / missing
(undefined behaviour of `va_arg`). -/
def emitPrint : List UInt8 → List Arg → Option (List UInt8)
  | [], _ => some []
  | [c], _ => if c = 37 then none else some [c]
  | c :: d :: fmt, args =>
    if c ≠ 37 then (emitPrint (d :: fmt) args).map (c :: ·)
    else if d = 115 then                      -- %s
      match args with
      | Arg.str s :: args => (emitPrint fmt args).map (s ++ ·)
      | _ => none
    else if d = 105 then                      -- %i
      match args with
      | Arg.hex n :: args => (emitPrint fmt args).map (hexChars n ++ ·)
      | _ => none
    else none

/-- `struct bit_name` tables (debug.c:107-124); the sentinel `{0, ""}` is the end of the list. -/
def muBit : List (Nat × String) :=
  [(1, "wlock"), (2, "spin"), (4, "wait"), (8, "desig"), (16, "cond"), (32, "writer"),
   (64, "long"), (128, "false")]

def cvBit : List (Nat × String) := [(1, "spin"), (2, "wait")]

/-- `emit_word (b, name, word)`: for each table entry whose mask intersects `word`,
`emit_print (b, " %s", name)`. -/
def emitWord (names : List (Nat × String)) (word : Nat) : List UInt8 :=
  names.flatMap fun p =>
    if word &&& p.1 ≠ 0 then asc " " ++ asc p.2 else []

/-- The stream printed by `emit_mu_state` with `print_waiters == 0` (before the final NUL) when
`mu` is at address `addr` and `ATM_LOAD (&mu->word)` returned `word` (a uint32):
```
readers = word / MU_RLOCK;
emit_print (b, "mu 0x%i -> 0x%i = {", (uintptr_t) mu, word);
emit_word (b, mu_bit, word);
if (readers != 0) emit_print (b, " readers=0x%i", readers);
emit_print (b, " }");
```
-/
def muDebugChars (addr word : Nat) : List UInt8 :=
  let readers := word / 256
  asc "mu 0x" ++ hexChars addr ++ asc " -> 0x" ++ hexChars word ++ asc " = {" ++
  emitWord muBit word ++
  (if readers ≠ 0 then asc " readers=0x" ++ hexChars readers else []) ++
  asc " }"

/-- Likewise `emit_cv_state`:
`emit_print (b, "cv 0x%i -> 0x%i = {", (uintptr_t) cv, word); emit_word (b, cv_bit, word);
 emit_print (b, " }");` -/
def cvDebugChars (addr word : Nat) : List UInt8 :=
  asc "cv 0x" ++ hexChars addr ++ asc " -> 0x" ++ hexChars word ++ asc " = {" ++
  emitWord cvBit word ++ asc " }"

/-- `nsync_mu_debug_state (mu, buf, n)`. -/
def muDebugState (addr word : Nat) (n : Int) : Buf := run n (muDebugChars addr word)

/-- `nsync_cv_debug_state (cv, buf, n)`. -/
def cvDebugState (addr word : Nat) (n : Int) : Buf := run n (cvDebugChars addr word)

end Emit
end NsyncVerif
