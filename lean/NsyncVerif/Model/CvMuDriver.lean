import NsyncVerif.Model.CvMu
import NsyncVerif.Model.CvFixDriver
import NsyncVerif.Model.MuXDriver
/-
  Composition CvFix × MuX (`Model/CvMu.lean`): line protocol for the correspondence check.

  The joint acceptor delivers an event to `CvFix.step` and / or `MuX.step` and then runs the checks
  K1–K5 (`CvMu.ghostStep`).  This driver does exactly that on a harness log, re-using the two
  layers' own drivers for the demultiplexing (one CvFix state per condition variable and semaphore
  hypothesis, one MuX state per mutex name):
    1. the line goes to `CvFix.Driver.step` and to `MuX.Driver.step`; a complaint of either is
       passed on;
    2. for every CvFix state (semaphore hypothesis × cv) the line is classified (`Kind`) the way
       `kindCv` / `kindMu` classify the joint event that this state sees:
         * cv.c/1, cv.c/3 successful, from the thread's cv call in progress ↦ `xferCas` / `pubCas`
           for that cv; the same line is an event of other code for every other cv;
         * any other successful CAS with `acq` or `ar` on a mutex word ↦ `muAcq`; any other line the
           MuX driver consumed (atomics on a mutex word, API boundaries, lock annotations) ↦ `muOther`;
         * a store of 0 into a `…waiting` flag ↦ `wake` with the logged order (for the cv of a
           cv.c call in progress it is a proper event of cv.c, never on a transferred record);
    3. `ghostStep` runs with the CvFix state before / after the line and the spinlock holders of
       the MuX states after the line; a hypothesis whose check fails is dropped, the line is
       rejected when none is left.
  Verdicts: `ok` / `skip` / `#` / `REJECT <reason>` / `bad-op`.  Core Lean only.
-/
namespace NsyncVerif.CvMu.Driver
open NsyncVerif NsyncVerif.CvFix

structure DState where
  cv : CvFix.Driver.DState := CvFix.Driver.init
  mux : MuX.Driver.DState := MuX.Driver.init
  /-- mutex names; `MuId` = position -/
  mus : List String := []
  /-- (binary-semaphore hypothesis, cv name) ↦ ghosts of the checks -/
  ghosts : List ((Bool × String) × Ghost) := []
  /-- statistics: successful cv.c/1, checked wake-ups of transferred records -/
  xfers : Nat := 0
  wakes : Nat := 0

def init : DState := {}

def muId (mus : List String) (name : String) : List String × MuId :=
  match mus.findIdx? (· == name) with
  | some i => (mus, i)
  | none => (mus ++ [name], mus.length)

def getGhost (gs : List ((Bool × String) × Ghost)) (k : Bool × String) : Ghost :=
  match gs.find? (fun p => p.1 == k) with
  | some p => p.2
  | none => {}

def putGhost (gs : List ((Bool × String) × Ghost)) (k : Bool × String) (g : Ghost) :
    List ((Bool × String) × Ghost) :=
  (k, g) :: gs.filter (fun p => p.1 != k)

def parseOrd : String → VC.Ord
  | "acq" => .acq | "rel" => .rel | "ar" => .ar | _ => .rlx

/-- What a line is for the checks, before it is known which cv state looks at it. -/
inductive LineKind where
  | nothing
  /-- cv.c on a mutex word: `proper` for the cv of the thread's call in progress, `other` elsewhere -/
  | cvMu (t : Tid) (proper other : Kind)
  | all (k : Kind)

def classify (mus : List String) (muxOk : Bool) (toks : List String) : List String × LineKind :=
  match toks with
  | tidTok :: "atm" :: rest =>
    match CvFix.Driver.parseTid tidTok, CvFix.Driver.parseAtm rest with
    | some t, some a =>
      if CvFix.Driver.isMuLoc a.loc then
        let (mus', m) := muId mus (a.loc.dropEnd 5).toString
        let okCas := a.op == "cas" && a.ok == some true
        let other : Kind := if okCas && (a.ord == "acq" || a.ord == "ar") then .muAcq t m else .muOther t
        if a.file == "cv.c" then
          let proper : Kind :=
            if okCas && a.k == 1 then .xferCas t m else if okCas && a.k == 3 then .pubCas t m else .other
          (mus', .cvMu t proper other)
        else (mus', .all other)
      else
        match CvFix.Driver.parseRecLoc a.loc with
        | some (r, .waiting) =>
          if a.op == "st" && a.new == some 0 then (mus, .all (.wake t r (parseOrd a.ord))) else (mus, .nothing)
        | _ => (mus, .nothing)
    | _, _ => (mus, .nothing)
  | tidTok :: _ =>
    if muxOk then
      match CvFix.Driver.parseTid tidTok with
      | some t => (mus, .all (.muOther t))
      | none => (mus, .nothing)
    else (mus, .nothing)
  | _ => (mus, .nothing)

def kindFor (lk : LineKind) (al : CvFix.Driver.Alt) (cv : String) : Kind :=
  match lk with
  | .nothing => .other
  | .all k => k
  | .cvMu t proper other =>
    let c := CvFix.Driver.getCtx al t
    if c.api != 0 && c.cv == cv then proper else other

def isCheck : Kind → Bool
  | .other => false
  | _ => true

/-- The checks for all cv states of one semaphore hypothesis (`old` / `new` = before / after). -/
def checkAlt (lk : LineKind) (sp' : MuId → Option Tid) (gs : List ((Bool × String) × Ghost))
    (old new : CvFix.Driver.Alt) : Except String (List ((Bool × String) × Ghost)) :=
  let rec go (l : List (String × State)) (gs : List ((Bool × String) × Ghost)) :
      Except String (List ((Bool × String) × Ghost)) :=
    match l with
    | [] => .ok gs
    | (cv, s') :: rest =>
      let key := (new.cfg.binary, cv)
      let s := CvFix.Driver.getState old cv
      match ghostStep s s' sp' (kindFor lk old cv) (getGhost gs key) with
      | .ok g' => go rest (putGhost gs key g')
      | .error m => .error s!"{cv}: {m}"
  go new.cvs gs

def step (d : DState) (line : String) : DState × String :=
  let l := line.trimAscii.toString
  if l.startsWith "# begin" then (init, "#")
  else if l.startsWith "#" || l.isEmpty then (d, "skip")
  else
    let (cv', oc) := CvFix.Driver.step d.cv line
    let (mux', om) := MuX.Driver.step d.mux line
    if oc.startsWith "REJECT" || oc == "bad-op" then (d, oc)
    else if om.startsWith "REJECT" || om == "bad-op" then (d, om)
    else
      let (mus', lk) := classify d.mus (om == "ok") (l.splitOn " ")
      match lk with
      | .nothing => ({ d with cv := cv', mux := mux', mus := mus' }, if oc == "ok" || om == "ok" then "ok" else "skip")
      | _ =>
        let sp' : MuId → Option Tid := fun m =>
          match mus'[m]? with
          | some nm => (MuX.Driver.lookup mux'.mus nm).sp
          | none => none
        -- every surviving hypothesis of the CvFix driver, with its state before the line
        let rec go (alts : List CvFix.Driver.Alt) (gs : List ((Bool × String) × Ghost))
            (keep : List CvFix.Driver.Alt) (err : Option String) :
            List CvFix.Driver.Alt × List ((Bool × String) × Ghost) × Option String :=
          match alts with
          | [] => (keep.reverse, gs, err)
          | al' :: rest =>
            match d.cv.alts.find? (fun o => o.cfg.binary == al'.cfg.binary) with
            | none => go rest gs (al' :: keep) err
            | some old =>
              match checkAlt lk sp' gs old al' with
              | .ok gs' => go rest gs' (al' :: keep) err
              | .error m => go rest gs keep (if err.isNone then some m else err)
        let (keep, gs', err) := go cv'.alts d.ghosts [] none
        match keep with
        | [] => (d, "REJECT CvMu " ++ err.getD "no semaphore hypothesis left")
        | _ =>
          let isX := match lk with | .cvMu _ (.xferCas ..) _ => 1 | _ => 0
          let isW := match lk with
            | .all (.wake _ r _) => if keep.any (fun al => al.cvs.any (fun p =>
                ((CvFix.Driver.getState (d.cv.alts.find? (fun o => o.cfg.binary == al.cfg.binary) |>.getD al) p.1).recs r).stat == RStat.xfer)) then 1 else 0
            | _ => 0
          ({ cv := { alts := keep }, mux := mux', mus := mus', ghosts := gs',
             xfers := d.xfers + isX, wakes := d.wakes + isW }, "ok")

end NsyncVerif.CvMu.Driver
