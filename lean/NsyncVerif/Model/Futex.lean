/-
  Layer `Futex` (property C12): executable model of
      /repo/platform/linux/src/nsync_semaphore_futex.c
  for ONE semaphore, as a labelled transition system / acceptor at the granularity
  "one atomic operation or one futex call per step".  Core Lean only.

  Modelled code (Linux flavour: FUTEX_WAIT_BITSET is defined, so FUTEX_TIMEOUT_IS_ABSOLUTE = 1
  and the timed wait hands the *absolute* deadline to the kernel; no clock read before the wait):

    nsync_mu_semaphore_p:
      do { i = ATM_LOAD(&f->i);                                         [ld rlx]
           if (i == 0) { r = futex(WAIT, i, NULL);
                         ASSERT(r==0||EINTR||EWOULDBLOCK); }
      } while (i == 0 || !ATM_CAS_ACQ(&f->i, i, i-1));                  [cas acq]

    nsync_mu_semaphore_v:
      do { old = ATM_LOAD(&f->i);                                       [ld rlx]
      } while (!ATM_CAS_REL(&f->i, old, old+1));                        [cas rel]
      futex(WAKE, 1);

    nsync_mu_semaphore_p_with_deadline(abs_deadline):
      result = 0;
      do { i = ATM_LOAD(&f->i);                                         [ld rlx]
           if (i == 0) { ts = (abs_deadline == no_deadline) ? NULL : abs_deadline;
                         r = futex(WAIT, i, ts);
                         ASSERT(r==0||EINTR||EWOULDBLOCK||ETIMEDOUT);
                         if (r == ETIMEDOUT && abs_deadline <= nsync_time_now()) result = ETIMEDOUT; }
      } while (result == 0 && (i == 0 || !ATM_CAS_ACQ(&f->i, i, i-1))); [cas acq]
      return result;

  TRUSTED KERNEL CONTRACT (futex(2); this is the only assumption of the layer):
    * `futex WAIT(val, timeout)` compares `word = val` ATOMICALLY with going to sleep.  If the
      word differs it returns EAGAIN (= EWOULDBLOCK) at once and the thread never sleeps.  If
      equal the thread becomes a sleeper on this word.
    * A sleeping thread may return at any later moment with
        0          woken by a FUTEX_WAKE addressed to it, or spuriously (futex(2) allows it),
        EINTR      at any time while not yet woken,
        ETIMEDOUT  only if it has a timeout and is not yet woken; possibly BEFORE the deadline
                   (premature timeout = injectable fault).
      A sleeper that has been marked woken by a FUTEX_WAKE returns 0.
      With a NULL timeout the kernel never returns ETIMEDOUT.
    * `futex WAKE(1)` marks at most one not-yet-woken sleeper of this word as woken and returns
      the number marked (0 or 1).  Since only the owning thread ever waits on its semaphore
      (nsync's usage; enforced below as an API-contract rejection) there is at most one sleeper.
    * Deadlines are `Option Nat` (ns since epoch; `none` = nsync_time_no_deadline, which no
      clock value ever reaches).  Pre-epoch deadlines (kernel EINVAL → ASSERT crash) are defect
      F2 and handled in the C15 layer, not here.
    * The 32-bit word: `V` with `old+1 ≥ 2^32` would wrap to 0 in C and silently drop 2^32
      posts.  That is outside the contract of the semaphore; the model REJECTS it explicitly
      ("count overflow") instead of computing with unbounded naturals behind the reader's back.
-/

namespace NsyncVerif.Futex

abbrev Tid := Nat

/-- Which of the two waiting functions the waiter is executing (with its `abs_deadline`). -/
inductive WKind where
  | p
  | pd (dl : Option Nat)
  deriving DecidableEq, Repr, Inhabited

/-- The `timeout` argument handed to the kernel: NULL for `P` and for `no_deadline`. -/
def WKind.timeout : WKind → Option Nat
  | .p => none
  | .pd dl => dl

/-- Program counter of a thread inside the three functions; one constructor per statement that
    performs an atomic operation, a futex call, a clock read or the return. -/
inductive PC where
  | idle
  | wLoad (k : WKind)              -- about to `i = ATM_LOAD(&f->i)`
  | wWait (k : WKind)              -- loaded i == 0; about to call futex WAIT(i = 0, timeout)
  | wSleep (k : WKind)             -- inside the futex WAIT syscall (asleep, woken or EAGAIN pending)
  | wNow (dl : Option Nat)         -- PD only: futex returned ETIMEDOUT; about to read the clock
  | wCas (k : WKind) (i : Nat)     -- loaded i != 0; about to ATM_CAS_ACQ(&f->i, i, i-1)
  | wRet (k : WKind) (timedOut : Bool)  -- loop left; about to return (0 / ETIMEDOUT)
  | vLoad                          -- about to `old = ATM_LOAD(&f->i)`
  | vCas (old : Nat)               -- about to ATM_CAS_REL(&f->i, old, old+1)
  | vWake                          -- CAS succeeded; about to futex WAKE(1)
  | vRet                           -- about to return from V
  deriving DecidableEq, Repr, Inhabited

/-- The waiter's entry in the kernel's wait queue of this word. -/
structure SleepInfo where
  deadline : Option Nat     -- the absolute timeout given to the kernel, `none` = NULL
  woken : Bool              -- a FUTEX_WAKE has been addressed to it (it will return 0)
  deriving DecidableEq, Repr, Inhabited

structure State where
  word : Nat                      -- f->i
  now : Nat                       -- virtual clock, ns
  sleeper : Option SleepInfo      -- the waiter is queued in the kernel on this word
  owner : Option Tid              -- the (single) thread that calls P / P_with_deadline
  pc : Tid → PC
  -- ghost counters
  posts : Nat                     -- successful CAS old → old+1 of V
  takes : Nat                     -- successful CAS i → i-1 of P / P_with_deadline
  succRets : Nat                  -- returns of P, and of P_with_deadline with result 0
  toRets : Nat                    -- returns of P_with_deadline with ETIMEDOUT

def init : State :=
  { word := 0, now := 0, sleeper := none, owner := none, pc := fun _ => .idle,
    posts := 0, takes := 0, succRets := 0, toRets := 0 }

def setPc (f : Tid → PC) (t : Tid) (v : PC) : Tid → PC :=
  fun u => if u = t then v else f u

/-! ### Events (CONVENTIONS.md, event-log format) -/

inductive Ord where
  | rlx | acq | rel | ar
  deriving DecidableEq, Repr, Inhabited

inductive Fn where
  | p | pd | v
  deriving DecidableEq, Repr, Inhabited

def Fn.name : Fn → String
  | .p => "nsync_mu_semaphore_p"
  | .pd => "nsync_mu_semaphore_p_with_deadline"
  | .v => "nsync_mu_semaphore_v"

/-- The `<function>` component of `<site> = <file>/<k>/<function>`.  The acceptor matches on
    function name + operation + order + location only; `<file>` and the ordinal `<k>` are
    informative and ignored by the driver. -/
abbrev Site := Fn

def WKind.fn : WKind → Fn
  | .p => .p
  | .pd _ => .pd

def ldSite (k : WKind) : Site := k.fn
def casSite (k : WKind) : Site := k.fn
def vLdSite : Site := .v
def vCasSite : Site := .v

/-- Result of a futex WAIT. -/
inductive FRes where
  | ok | eintr | eagain | etimedout
  deriving DecidableEq, Repr, Inhabited

inductive Event where
  | callP (t : Tid)                                   -- t call nsync_mu_semaphore_p sem
  | callPD (t : Tid) (dl : Option Nat)                -- t call nsync_mu_semaphore_p_with_deadline sem dl|inf
  | callV (t : Tid)                                   -- t call nsync_mu_semaphore_v sem
  | retP (t : Tid)                                    -- t ret nsync_mu_semaphore_p -
  | retPD (t : Tid) (timedOut : Bool)                 -- t ret nsync_mu_semaphore_p_with_deadline 0|ETIMEDOUT
  | retV (t : Tid)                                    -- t ret nsync_mu_semaphore_v -
  | ld (t : Tid) (site : Site) (ord : Ord) (obs : Nat)
  | st (t : Tid) (site : Site) (ord : Ord) (new obs : Nat)
  | cas (t : Tid) (site : Site) (ord : Ord) (exp new obs : Nat) (ok : Bool)
  | fwait (t : Tid) (val : Nat) (dl : Option Nat)     -- t futex wait sem.i val dl|inf
  | fwaitRet (t : Tid) (r : FRes)                     -- t futex wait_ret sem.i 0|EINTR|EAGAIN|ETIMEDOUT
  | fwake (t : Tid) (n woken : Nat)                   -- t futex wake sem.i n woken
  | now (t : Tid) (ns : Nat)                          -- t now ns
  | tick (ns : Nat)                                   -- - tick ns
  deriving DecidableEq, Repr, Inhabited

/-! ### Pretty printing for rejection messages -/

def WKind.show : WKind → String
  | .p => "p"
  | .pd none => "pd(inf)"
  | .pd (some d) => s!"pd({d})"

def PC.show : PC → String
  | .idle => "idle"
  | .wLoad k => s!"{k.show}:load"
  | .wWait k => s!"{k.show}:futex-wait"
  | .wSleep k => s!"{k.show}:in-futex-wait"
  | .wNow _ => "pd:now"
  | .wCas k i => s!"{k.show}:cas({i})"
  | .wRet k b => s!"{k.show}:ret({if b then "ETIMEDOUT" else "0"})"
  | .vLoad => "v:load"
  | .vCas o => s!"v:cas({o})"
  | .vWake => "v:futex-wake"
  | .vRet => "v:ret"

/-- `abs_deadline <= now`, with `none` = no_deadline = never. -/
def expired (dl : Option Nat) (now : Nat) : Bool :=
  match dl with
  | none => false
  | some d => decide (d ≤ now)

/-- The sleeper is really asleep: queued and no FUTEX_WAKE addressed to it yet. -/
def asleepInfo : Option SleepInfo → Bool
  | some si => !si.woken
  | none => false

/-- Number of sleepers a FUTEX_WAKE(1) marks. -/
def wakeCount (sl : Option SleepInfo) : Nat := if asleepInfo sl then 1 else 0

def markWoken : Option SleepInfo → Option SleepInfo
  | some si => some { si with woken := true }
  | none => none

/-- Is `r` a return the kernel contract permits for a thread inside futex WAIT, given the
    kernel's record of it (`none` = the compare failed: it never slept)? -/
def waitRetAllowed (sl : Option SleepInfo) (r : FRes) : Bool :=
  match sl, r with
  | none, .eagain => true                       -- value already changed
  | none, _ => false
  | some _, .ok => true                         -- woken, or spurious
  | some si, .eintr => !si.woken
  | some si, .etimedout => !si.woken && si.deadline.isSome   -- possibly premature
  | some _, .eagain => false

def limit : Nat := 4294967296  -- 2^32

/-! ### The acceptor -/

def step (s : State) : Event → Except String State
  | .tick ns =>
      if s.now ≤ ns then .ok { s with now := ns }
      else .error s!"tick {ns}: clock would go backwards (now={s.now})"
  | .callP t =>
      match s.pc t with
      | .idle =>
          if s.owner = none ∨ s.owner = some t then
            .ok { s with owner := some t, pc := setPc s.pc t (.wLoad .p) }
          else .error s!"contract: P by tid {t} but the semaphore is owned by another thread (single waiter)"
      | pc => .error s!"contract: call P by tid {t} while it is at {pc.show} (concurrent call)"
  | .callPD t dl =>
      match s.pc t with
      | .idle =>
          if s.owner = none ∨ s.owner = some t then
            .ok { s with owner := some t, pc := setPc s.pc t (.wLoad (.pd dl)) }
          else .error s!"contract: P_with_deadline by tid {t} but the semaphore is owned by another thread (single waiter)"
      | pc => .error s!"contract: call P_with_deadline by tid {t} while it is at {pc.show} (concurrent call)"
  | .callV t =>
      match s.pc t with
      | .idle => .ok { s with pc := setPc s.pc t .vLoad }
      | pc => .error s!"contract: call V by tid {t} while it is at {pc.show}"
  | .retP t =>
      match s.pc t with
      | .wRet .p false =>
          .ok { s with pc := setPc s.pc t .idle, succRets := s.succRets + 1 }
      | pc => .error s!"ret P by tid {t}: thread is at {pc.show}, no successful take precedes this return"
  | .retPD t timedOut =>
      match s.pc t with
      | .wRet (.pd _) b =>
          if b = timedOut then
            .ok { s with pc := setPc s.pc t .idle,
                         succRets := if timedOut then s.succRets else s.succRets + 1,
                         toRets := if timedOut then s.toRets + 1 else s.toRets }
          else .error s!"ret P_with_deadline by tid {t}: model result is {if b then "ETIMEDOUT" else "0"}"
      | pc => .error s!"ret P_with_deadline by tid {t}: thread is at {pc.show}"
  | .retV t =>
      match s.pc t with
      | .vRet => .ok { s with pc := setPc s.pc t .idle }
      | pc => .error s!"ret V by tid {t}: thread is at {pc.show}"
  | .ld t site ord obs =>
      match s.pc t with
      | .wLoad k =>
          if site = ldSite k ∧ ord = .rlx ∧ obs = s.word then
            .ok { s with pc := setPc s.pc t (if s.word = 0 then .wWait k else .wCas k s.word) }
          else .error s!"ld by tid {t} at {(PC.wLoad k).show}: expected {(ldSite k).name} ld rlx obs={s.word}"
      | .vLoad =>
          if site = vLdSite ∧ ord = .rlx ∧ obs = s.word then
            .ok { s with pc := setPc s.pc t (.vCas s.word) }
          else .error s!"ld by tid {t} at v:load: expected {vLdSite.name} ld rlx obs={s.word}"
      | pc => .error s!"ld by tid {t}: thread is at {pc.show}"
  | .st t _ _ _ _ =>
      .error s!"st by tid {t}: P/P_with_deadline/V never store to the word"
  | .cas t site ord exp new obs ok =>
      match s.pc t with
      | .wCas k i =>
          if site = casSite k ∧ ord = .acq ∧ exp = i ∧ new = i - 1 ∧ obs = s.word
              ∧ ok = decide (s.word = i) then
            if s.word = i then
              .ok { s with word := i - 1, takes := s.takes + 1, pc := setPc s.pc t (.wRet k false) }
            else
              .ok { s with pc := setPc s.pc t (.wLoad k) }
          else .error s!"cas by tid {t} at {(PC.wCas k i).show}: expected {(casSite k).name} cas acq exp={i} new={i - 1} obs={s.word} ok={if s.word = i then 1 else 0}"
      | .vCas old =>
          if site = vCasSite ∧ ord = .rel ∧ exp = old ∧ new = old + 1 ∧ obs = s.word
              ∧ ok = decide (s.word = old) then
            if old + 1 < limit then
              if s.word = old then
                .ok { s with word := old + 1, posts := s.posts + 1, pc := setPc s.pc t .vWake }
              else
                .ok { s with pc := setPc s.pc t .vLoad }
            else .error s!"contract: count overflow, V with old+1 = 2^32"
          else .error s!"cas by tid {t} at v:cas({old}): expected {vCasSite.name} cas rel exp={old} new={old + 1} obs={s.word} ok={if s.word = old then 1 else 0}"
      | pc => .error s!"cas by tid {t}: thread is at {pc.show}"
  | .fwait t val dl =>
      match s.pc t with
      | .wWait k =>
          if val = 0 ∧ dl = k.timeout then
            -- the kernel's atomic compare-and-sleep
            if s.word = 0 then
              .ok { s with sleeper := some { deadline := dl, woken := false },
                           pc := setPc s.pc t (.wSleep k) }
            else
              .ok { s with sleeper := none, pc := setPc s.pc t (.wSleep k) }
          else .error s!"futex wait by tid {t} at {(PC.wWait k).show}: expected val=0 timeout={match k.timeout with | none => "inf" | some d => toString d}"
      | pc => .error s!"futex wait by tid {t}: thread is at {pc.show} (a wait is only issued right after a load that observed 0)"
  | .fwaitRet t r =>
      match s.pc t with
      | .wSleep k =>
          if waitRetAllowed s.sleeper r then
            match r, k with
            | .etimedout, .pd dl => .ok { s with sleeper := none, pc := setPc s.pc t (.wNow dl) }
            | .etimedout, .p => .error s!"futex wait_ret ETIMEDOUT inside P (NULL timeout): ASSERT would fail"
            | _, _ => .ok { s with sleeper := none, pc := setPc s.pc t (.wLoad k) }
          else .error s!"futex wait_ret by tid {t}: result not permitted by the kernel contract (word={s.word}, asleep={asleepInfo s.sleeper}, queued={s.sleeper.isSome})"
      | pc => .error s!"futex wait_ret by tid {t}: thread is at {pc.show}"
  | .fwake t n woken =>
      match s.pc t with
      | .vWake =>
          if n = 1 ∧ woken = wakeCount s.sleeper then
            .ok { s with sleeper := markWoken s.sleeper, pc := setPc s.pc t .vRet }
          else .error s!"futex wake by tid {t}: expected n=1 woken={wakeCount s.sleeper}"
      | pc => .error s!"futex wake by tid {t}: thread is at {pc.show} (wake only after the successful CAS of V)"
  | .now t ns =>
      match s.pc t with
      | .wNow dl =>
          if ns = s.now then
            .ok { s with
              pc := setPc s.pc t (if expired dl s.now then .wRet (.pd dl) true else .wLoad (.pd dl)) }
          else .error s!"now by tid {t}: clock is {s.now}"
      | pc => .error s!"now by tid {t}: thread is at {pc.show}"

def run (s : State) : List Event → Except String State
  | [] => .ok s
  | e :: es =>
      match step s e with
      | .ok s' => run s' es
      | .error m => .error m

def Reachable (s : State) : Prop := ∃ evs, run init evs = .ok s

/-! ### Vocabulary of the theorems -/

/-- The waiter is asleep in the kernel: queued and no wake addressed to it yet. -/
def State.asleep (s : State) : Prop := asleepInfo s.sleeper = true

instance (s : State) : Decidable s.asleep := inferInstanceAs (Decidable (_ = true))

/-- The pc is inside P / P_with_deadline. -/
def PC.isWaiter : PC → Bool
  | .wLoad _ | .wWait _ | .wSleep _ | .wNow _ | .wCas _ _ | .wRet _ _ => true
  | _ => false

/-- Takes whose `ret 0` has not happened yet (0 or 1: only the owner waits). -/
def inFlight (s : State) : Nat :=
  match s.owner with
  | none => 0
  | some o => match s.pc o with
    | .wRet _ false => 1
    | _ => 0

/-- `abs_deadline` of the call thread `t` is currently executing (`none`: not inside
    P_with_deadline; `some none`: no_deadline). -/
def callDeadline (s : State) (t : Tid) : Option (Option Nat) :=
  match s.pc t with
  | .wLoad (.pd d) | .wWait (.pd d) | .wSleep (.pd d) | .wNow d | .wCas (.pd d) _
  | .wRet (.pd d) _ => some d
  | _ => none

/-- The unique fault-free event thread `t` performs next when it runs alone; `none` when it
    is blocked (asleep in the kernel) or idle.  Faults (spurious 0, EINTR, early ETIMEDOUT) are
    excluded: a thread inside the syscall only returns EAGAIN (never slept) or 0 (woken). -/
def soloEvent (s : State) (t : Tid) : Option Event :=
  match s.pc t with
  | .idle => none
  | .wLoad k => some (.ld t (ldSite k) .rlx s.word)
  | .wWait k => some (.fwait t 0 k.timeout)
  | .wSleep _ =>
      match s.sleeper with
      | none => some (.fwaitRet t .eagain)
      | some si => if si.woken then some (.fwaitRet t .ok) else none
  | .wNow _ => some (.now t s.now)
  | .wCas k i => some (.cas t (casSite k) .acq i (i - 1) s.word (decide (s.word = i)))
  | .wRet .p _ => some (.retP t)
  | .wRet (.pd _) b => some (.retPD t b)
  | .vLoad => some (.ld t vLdSite .rlx s.word)
  | .vCas old => some (.cas t vCasSite .rel old (old + 1) s.word (decide (s.word = old)))
  | .vWake => some (.fwake t 1 (wakeCount s.sleeper))
  | .vRet => some (.retV t)

/-- Run thread `t` alone (no other thread, no tick, no fault) for at most `fuel` of its own
    steps, stopping when it has returned.  `error` if the waiter is asleep in the kernel in any
    visited state (so `.ok` means: never slept), or if `t` cannot step. -/
def runSolo (s : State) (t : Tid) : Nat → Except String State
  | 0 => .ok s
  | fuel + 1 =>
      if s.pc t = .idle then .ok s
      else if s.asleep then .error "asleep"
      else match soloEvent s t with
        | none => .error "blocked"
        | some e =>
            match step s e with
            | .ok s' => runSolo s' t fuel
            | .error m => .error m

end NsyncVerif.Futex
