/-
  Layer `Once` (property C07): line protocol for the correspondence check.

  One log line in, one verdict out:
    `ok`               the line is an event of this layer and the model accepts it
    `skip`             internal traffic of mutex/cv/semaphore/clock (this includes every
                       mutex/cv API event a thread emits while it is already inside a nested
                       `nsync_mu_lock`/`nsync_mu_unlock`/`nsync_cv_broadcast`/`nsync_cv_wait…`
                       call, except the matching `ret`), a mutex/cv API event of a thread that
                       is not inside run_once, a `#` comment; state unchanged
                       (`# ---` additionally resets the driver to `init`)
    `REJECT <reason>`  the C code modelled by `Once.step` cannot perform this event here
    `bad-op`           the line cannot be parsed

  The hashing `slotOf` is not known to the driver in advance.  The slot of an once object is
  learned from the first `call nsync_mu_lock mu<k>` that a thread performs inside a blocking
  run_once call on it (`lock1Call`, once.c:67); `mu<k>` names the slot.  The model consults
  `slotOf o` only at lock/cv events of blocking calls on `o`, all of which come after that first
  lock call, so extending the map never invalidates an earlier verdict.  A lock/cv event on an
  once object whose slot is still unknown is rejected explicitly (the fall-back value of
  `cfgOf` is therefore never consulted).  In the same way the name `cv<c>` of the slot's
  condition variable is learned at its first use and must stay the same afterwards.

  Core Lean only.
-/
import NsyncVerif.Model.Once

namespace Once
namespace Driver

structure DState where
  st : State
  /-- learned hashing: once object ↦ slot (index of its `mu<k>`) -/
  slots : List (OnceId × SlotId)
  /-- learned: slot ↦ index of its `cv<c>` -/
  cvs : List (SlotId × Nat)

def init : DState := { st := Once.init, slots := [], cvs := [] }

/-- Strict decimal number. -/
def dec? (s : String) : Option Nat :=
  if s.isEmpty then none
  else if s.toList.all Char.isDigit then s.toNat? else none

/-- `parseIdx "once" "once12" = some 12`. -/
def parseIdx (pfx tok : String) : Option Nat :=
  if tok.startsWith pfx then dec? (tok.drop pfx.length).toString else none

def parseOrd : String → Option Ord
  | "rlx" => some .rlx
  | "acq" => some .acq
  | "rel" => some .rel
  | "ar" => some .ar
  | _ => none

/-- The four public entry points: (blocking, arg). -/
def parseEntry : String → Option (Bool × Bool)
  | "nsync_run_once" => some (true, false)
  | "nsync_run_once_arg" => some (true, true)
  | "nsync_run_once_spin" => some (false, false)
  | "nsync_run_once_arg_spin" => some (false, true)
  | _ => none

/-- `<file>/<k>/<function>`; the ordinal is only required to be a number. -/
def parseSite (site : String) : Option Fn :=
  match site.splitOn "/" with
  | [file, k, fn] =>
    match dec? k with
    | none => none
    | some _ =>
      if file = "once.c" then
        if fn = "nsync_run_once_impl" then some .impl
        else match parseEntry fn with
          | some (b, a) => some (.outer b a)
          | none => some .other
      else some .other
  | _ => none

/-- Result of parsing one line. -/
inductive Parsed
  | ev (e : Event)
  /-- the separator line `# ---` -/
  | reset
  /-- `<tid> panic <text…>` -/
  | panic
  /-- unparsable -/
  | bad

def parseAtm (t : Tid) (toks : List String) : Parsed :=
  match toks with
  | [site, op, ord, loc, exp, new, obs, ok] =>
    match parseSite site, parseOrd ord with
    | some fn, some ord =>
      match parseIdx "once" loc with
      | none =>
        -- an atomic of another layer; only the shape is checked
        if op = "ld" ∨ op = "st" ∨ op = "cas" then .ev .internal else .bad
      | some o =>
        match op with
        | "ld" =>
          match exp, new, dec? obs, ok with
          | "-", "-", some obs, "-" => .ev (.ld t fn ord o obs)
          | _, _, _, _ => .bad
        | "st" =>
          match exp, dec? new, dec? obs, ok with
          | "-", some new, some obs, "-" => .ev (.st t fn ord o new obs)
          | _, _, _, _ => .bad
        | "cas" =>
          match dec? exp, dec? new, dec? obs, ok with
          | some exp, some new, some obs, "1" => .ev (.cas t fn ord o exp new obs true)
          | some exp, some new, some obs, "0" => .ev (.cas t fn ord o exp new obs false)
          | _, _, _, _ => .bad
        | _ => .bad
    | _, _ => .bad
  | _ => .bad

def parseCall (t : Tid) (api : String) (args : List String) : Parsed :=
  match parseEntry api with
  | some (b, a) =>
    match args with
    | oTok :: _ =>
      match parseIdx "once" oTok with
      | some o => .ev (.call t b a o)
      | none => .bad
    | [] => .bad
  | none =>
    match api, args with
    | "nsync_mu_lock", [m] =>
      match parseIdx "mu" m with
      | some k => .ev (.muLockCall t k)
      | none => .bad
    | "nsync_mu_unlock", [m] =>
      match parseIdx "mu" m with
      | some k => .ev (.muUnlockCall t k)
      | none => .bad
    | "nsync_cv_broadcast", [c] =>
      match parseIdx "cv" c with
      | some c => .ev (.cvBroadcastCall t c)
      | none => .bad
    | "nsync_cv_wait_with_deadline", c :: m :: d :: _ =>
      match parseIdx "cv" c, parseIdx "mu" m with
      | some c, some k =>
        if d = "inf" ∨ (dec? d).isSome then .ev (.cvWaitCall t c k) else .bad
      | _, _ => .bad
    | "nsync_mu_lock", _ | "nsync_mu_unlock", _ | "nsync_cv_broadcast", _
    | "nsync_cv_wait_with_deadline", _ => .bad
    | _, _ => .ev .internal

def parseRet (t : Tid) (api : String) (res : List String) : Parsed :=
  match parseEntry api with
  | some (b, a) =>
    match res with
    | ["-"] => .ev (.ret t b a)
    | _ => .bad
  | none =>
    match api, res with
    | "nsync_mu_lock", ["-"] => .ev (.muLockRet t)
    | "nsync_mu_unlock", ["-"] => .ev (.muUnlockRet t)
    | "nsync_cv_broadcast", ["-"] => .ev (.cvBroadcastRet t)
    | "nsync_cv_wait_with_deadline", ["0"] => .ev (.cvWaitRet t false)
    | "nsync_cv_wait_with_deadline", ["ETIMEDOUT"] => .ev (.cvWaitRet t true)
    | "nsync_mu_lock", _ | "nsync_mu_unlock", _ | "nsync_cv_broadcast", _
    | "nsync_cv_wait_with_deadline", _ => .bad
    | _, _ :: _ => .ev .internal
    | _, [] => .bad

def parseLine (line : String) : Parsed :=
  let l := line.trimAscii.toString
  if l = "# ---" then .reset
  else if l.startsWith "#" then .ev .internal
  else
    match l.splitOn " " with
    | "-" :: "tick" :: [ns] => if (dec? ns).isSome then .ev .internal else .bad
    | tidTok :: kind :: rest =>
      match dec? tidTok with
      | none => .bad
      | some t =>
        match kind, rest with
        | "call", api :: args => parseCall t api args
        | "ret", api :: res => parseRet t api res
        | "atm", toks => parseAtm t toks
        | "cb", ["f", "start"] => .ev (.cbStart t false)
        | "cb", ["farg", "start"] => .ev (.cbStart t true)
        | "cb", ["f", "end"] => .ev (.cbEnd t false)
        | "cb", ["farg", "end"] => .ev (.cbEnd t true)
        | "cb", [_, "start"] | "cb", [_, "end"] => .ev .internal
        | "sem", _ :: _ | "futex", _ :: _ | "now", [_] | "cond", [_, _, _]
        | "malloc", [_] | "free", [_] => .ev .internal
        | "panic", _ => .panic
        | _, _ => .bad
    | _ => .bad

/-- The configuration learned so far.  The fall-back value is never consulted, see the file
    header: `step` below rejects lock/cv events on once objects whose slot is unknown. -/
def cfgOf (slots : List (OnceId × SlotId)) : Config :=
  { slotOf := fun o => match slots.lookup o with | some k => k | none => 0 }

/-- The once object of the call the thread is in, and whether this is its first lock call. -/
def frameOf : PC → Option (Frame × Bool)
  | .idle => none
  | .lock1Call f _ => some (f, true)
  | .outerLd f | .implLd f | .lock1Ret f _ | .casTry f | .casReload f
  | .wUnlockCall f | .wUnlockRet f | .wCbStart f | .wCbEnd f | .wLockCall f | .wLockRet f
  | .wBcastCall f | .wBcastRet f | .wStore f | .waitLd f | .cvWaitCall f | .cvWaitRet f
  | .fUnlockCall f | .fUnlockRet f | .readyRet f => some (f, false)

def verdict (d : DState) (slots : List (OnceId × SlotId)) (cvs : List (SlotId × Nat))
    (e : Event) : DState × String :=
  match Once.step (cfgOf slots) d.st e with
  | .ok s' => ({ st := s', slots := slots, cvs := cvs }, "ok")
  | .error m => (d, "REJECT " ++ m)

/-- A lock / cv event of thread `t`: make sure the slot (and cv name) is known or learn it. -/
def lockEvent (d : DState) (t : Tid) (e : Event) (muIdx : Option SlotId) (cvIdx : Option Nat) :
    DState × String :=
  match frameOf (d.st.pc t) with
  | none => (d, "skip")   -- thread is not inside run_once: another layer's business
  | some (f, first) =>
    -- 1. the slot of f.o
    let slots? : Option (List (OnceId × SlotId)) :=
      match d.slots.lookup f.o, muIdx with
      | some _, _ => some d.slots
      | none, some k => if first then some ((f.o, k) :: d.slots) else none
      | none, none => none
    match slots? with
    | none => (d, "REJECT lock/cv event on an once object whose slot is unknown")
    | some slots =>
      match cvIdx with
      | none => verdict d slots d.cvs e
      | some c =>
        let k := (cfgOf slots).slotOf f.o
        match d.cvs.lookup k with
        | some c' =>
          if c = c' then verdict d slots d.cvs e
          else (d, "REJECT wrong condition variable for this slot")
        | none =>
          if d.cvs.any (fun p => p.2 = c) then
            (d, "REJECT condition variable already belongs to another slot")
          else verdict d slots ((k, c) :: d.cvs) e

/-- The thread is inside a nested mutex/cv API call (between its `call` and its `ret`). -/
def insideNested : PC → Bool
  | .lock1Ret _ _ | .wLockRet _ | .wUnlockRet _ | .fUnlockRet _ | .wBcastRet _ | .cvWaitRet _ => true
  | _ => false

/-- `e` is the `ret` that ends the nested API call the thread is in. -/
def isMatchingRet : PC → Event → Bool
  | .lock1Ret _ _, .muLockRet _ | .wLockRet _, .muLockRet _ => true
  | .wUnlockRet _, .muUnlockRet _ | .fUnlockRet _, .muUnlockRet _ => true
  | .wBcastRet _, .cvBroadcastRet _ => true
  | .cvWaitRet _, .cvWaitRet _ _ => true
  | _, _ => false

/-- A mutex/cv API event of thread `t`.  While the thread is inside a nested API call, further
    mutex/cv API events (e.g. the `nsync_mu_unlock`/`nsync_mu_lock` that the cv wait performs
    internally) are internal traffic of that call: only the matching `ret` is looked at. -/
def nestedEvent (d : DState) (t : Tid) (e : Event) (muIdx : Option SlotId) (cvIdx : Option Nat) :
    DState × String :=
  if insideNested (d.st.pc t) && !isMatchingRet (d.st.pc t) e then (d, "skip")
  else lockEvent d t e muIdx cvIdx

def step (d : DState) (line : String) : DState × String :=
  match parseLine line with
  | .bad => (d, "bad-op")
  | .reset => (init, "skip")
  | .panic => (d, "REJECT panic")
  | .ev .internal => (d, "skip")
  | .ev (.muLockCall t k) => nestedEvent d t (.muLockCall t k) (some k) none
  | .ev (.muLockRet t) => nestedEvent d t (.muLockRet t) none none
  | .ev (.muUnlockCall t k) => nestedEvent d t (.muUnlockCall t k) (some k) none
  | .ev (.muUnlockRet t) => nestedEvent d t (.muUnlockRet t) none none
  | .ev (.cvBroadcastCall t c) =>
    -- the model names a slot's cv by the slot index: translate the learned name
    match frameOf (d.st.pc t) with
    | none => (d, "skip")
    | some (f, _) =>
      nestedEvent d t (.cvBroadcastCall t ((cfgOf d.slots).slotOf f.o)) none (some c)
  | .ev (.cvBroadcastRet t) => nestedEvent d t (.cvBroadcastRet t) none none
  | .ev (.cvWaitCall t c k) =>
    match frameOf (d.st.pc t) with
    | none => (d, "skip")
    | some (f, _) =>
      nestedEvent d t (.cvWaitCall t ((cfgOf d.slots).slotOf f.o) k) (some k) (some c)
  | .ev (.cvWaitRet t r) => nestedEvent d t (.cvWaitRet t r) none none
  | .ev e => verdict d d.slots d.cvs e

end Driver
end Once
