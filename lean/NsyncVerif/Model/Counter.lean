/-
  Model/Counter.lean — acceptor LTS for ONE nsync_counter (internal/counter.c) including
  nsync_counter_wait = nsync_wait_n (NULL, NULL, NULL, abs_deadline, 1, {counter}) (internal/wait.c).
  Core Lean only.

  Granularity: one step = one ATM_* operation, one lock operation (call/ret of nsync_mu_lock /
  nsync_mu_unlock on counter_mu), one semaphore operation, one API call/return, or one tick.

  Abstractions (each one is named where it is used):
  * counter_mu is an abstract lock: acquired at `ret nsync_mu_lock` (enabled when free), released at
    `call nsync_mu_unlock`.  Justified by properties C01/C02 of the Mu layer.  Everything the thread
    emits between `call` and `ret` of these two functions is internal to the Mu layer (skipped here,
    except that semaphore traffic is still *counted*, see `dflt`).
  * c->waiters is a sequence of record ids (justified by C17, the Dll layer).  The plain list
    operations happen under counter_mu and are merged into the adjacent atomic store on
    `nw->waiting` (append + store 1; remove + store 0).
  * Semaphores are counting semaphores `sem : SemId → Nat` (justified by C12).  *All* semaphore
    events of all threads are accounted (V: +1; successful P: −1) because a late V of the Mu layer
    may legitimately land on a semaphore that is meanwhile used by a counter wait.
  * `nw->sem` (= &w->sem of the waiter obtained by nsync_waiter_new_) is not visible in the log when
    the record is initialised.  It is bound lazily by the first semaphore event that names it
    (the owner's `pd_enter` or a waker's `v`); every later use must agree, and a semaphore may be
    bound to at most one live record (allocator contract of nsync_waiter_new_).
  * nsync_wait_n with count = 1 (wait.c): the enqueue loop leaves `i == count` whether or not the
    record was enqueued, so the sleep loop (ready_time, then P unless min_ntime <= 0) is always
    entered and dequeue is always called; the model follows the code.
  * The object becomes `live` at the initialising store of nsync_counter_new (before the `ret`);
    calls by other threads before the return are a harmless over-approximation.
  * API contract (the library's ASSERTs) = explicit `Reject`s: decrement below zero, increment that
    overflows 2^32, increment from zero after a wait has been called.  The first two depend only on
    locals of the adding thread and are rejected at the CAS that would commit them; the third is
    rejected at the CAS when `waited` is already set, and at the following `ATM_LOAD (&c->waited)`
    when the flag was set in between.
-/
namespace Counter

abbrev Tid := Nat
abbrev NwId := Nat
abbrev SemId := Nat
abbrev MuId := Nat
/-- absolute deadline in ns; `none` = nsync_time_no_deadline.  May be negative. -/
abbrev Deadline := Option Int

def two32 : Nat := 4294967296

/-- uint32 arithmetic of `value + delta` (delta is an int32 converted to uint32). -/
def wrapAdd (v : Nat) (d : Int) : Nat := (((v : Int) + d) % (two32 : Int)).toNat
/-- `(uint32_t) delta` -/
def u32 (d : Int) : Nat := (d % (two32 : Int)).toNat

def b2n (b : Bool) : Nat := if b then 1 else 0

/-- `nsync_time_cmp (abs_deadline, nsync_time_zero) <= 0` -/
def dlePast : Deadline → Bool
  | none => false
  | some x => decide (x ≤ 0)

/-- the deadline has passed at time `now` -/
def expired (d : Deadline) (now : Nat) : Prop :=
  match d with
  | none => False
  | some x => x ≤ (now : Int)

instance (d : Deadline) (now : Nat) : Decidable (expired d now) := by
  unfold expired; cases d <;> exact inferInstance

inductive Ord | rlx | acq | rel | ar
  deriving DecidableEq, Repr

inductive Loc
  | value | waited | nwWaiting (k : NwId) | other
  deriving DecidableEq, Repr

/-- Events of one thread, as far as this layer distinguishes them. -/
inductive Ev
  | callNew (v : Nat) | malloc (ok : Bool) | retNew (ok : Bool)
  | callFree | free | retFree
  | callAdd (d : Int) | retAdd (v : Nat)
  | callValue | retValue (v : Nat)
  | callWait (d : Deadline) | retWait (r : Nat)
  | callLock (m : MuId) | retLock | callUnlock (m : MuId) | retUnlock
  | ld (ord : Ord) (loc : Loc) (obs : Nat)
  | st (ord : Ord) (loc : Loc) (new obs : Nat)
  | cas (ord : Ord) (loc : Loc) (exp new obs : Nat) (ok : Bool)
  | pdEnter (j : SemId) (d : Deadline) | pdRet (j : SemId) (timedOut : Bool)
  | pEnter (j : SemId) | pRet (j : SemId) | semV (j : SemId)
  | other
  deriving Repr

inductive Event
  | thr (t : Tid) (e : Ev)
  | tick (ns : Nat)
  deriving Repr

inductive Phase | absent | creating | live | freed
  deriving DecidableEq, Repr

/-- Program points between the atomic / lock / semaphore operations of the C code. -/
inductive PC
  | idle
  -- nsync_counter_new (v)
  | newMalloc (v : Nat) | newStore (v : Nat) | newRet (ok : Bool)
  -- nsync_counter_free
  | fLockCall | fLockWait | fHeld | fUnlockWait | fFree | fRet
  -- nsync_counter_value
  | valLoad | valRet (v : Nat)
  -- nsync_counter_add, delta == 0
  | azLoad | azRet (v : Nat)
  -- nsync_counter_add, delta != 0.  r = value after own CAS; idx = ghost index of r in `hist`
  | aLockCall (d : Int) | aLockWait (d : Int) | aLoad (d : Int) | aCas (d : Int) (v : Nat)
  | aLoadWaited (d : Int) (r idx : Nat)
  | aHeld (d : Int) (r idx : Nat) (wake : Bool)      -- wake ⇔ r == 0 : head of the wake loop
  | aPost (d : Int) (r idx : Nat) (k : NwId)          -- between STORE_REL waiting:=0 and sem v
  | aUnlockWait (d : Int) (r idx : Nat) | aRet (d : Int) (r idx : Nat)
  -- nsync_counter_wait (dl)
  | w0Store (dl : Deadline) | w0Load (dl : Deadline)          -- ready_time (c, NULL)
  | wInit (dl : Deadline)                                      -- ATM_STORE (&nw[0].waiting, 0)
  | wEnqLockCall (dl : Deadline) (k : NwId) | wEnqLockWait (dl : Deadline) (k : NwId)
  | wEnqLoad (dl : Deadline) (k : NwId) | wEnqStore (dl : Deadline) (k : NwId) (v : Nat)
  | wEnqUnlockCall (dl : Deadline) (k : NwId) (enq : Bool)
  | wEnqUnlockWait (dl : Deadline) (k : NwId) (enq : Bool)
  | wLoopStore (dl : Deadline) (k : NwId) | wLoopLoad (dl : Deadline) (k : NwId)
  | wPdEnter (dl : Deadline) (k : NwId) | wPdWait (dl : Deadline) (k : NwId) (j : SemId)
  -- counter_dequeue; `tmo` (ghost) = the sleep loop was left because P timed out
  | wDeqLockCall (dl : Deadline) (k : NwId) (tmo : Bool)
  | wDeqLockWait (dl : Deadline) (k : NwId) (tmo : Bool)
  | wDeqLoadV (dl : Deadline) (k : NwId) (tmo : Bool)
  | wDeqLoadW (dl : Deadline) (k : NwId) (tmo : Bool) (v : Nat)
  | wDeqStore (dl : Deadline) (k : NwId) (tmo : Bool) (v : Nat)
  | wDeqUnlockCall (dl : Deadline) (k : NwId) (tmo : Bool) (v : Nat)
  | wDeqUnlockWait (dl : Deadline) (k : NwId) (tmo : Bool) (v : Nat)
  | wFinalLoad (dl : Deadline) | wRet (dl : Deadline) (r : Nat)
  deriving DecidableEq, Repr

/-- struct nsync_waiter_s on the stack of nsync_wait_n, as far as counter.c uses it. -/
structure Rec where
  live : Bool            -- inside the lifetime of the nw_set frame of an in-flight wait
  waiting : Bool
  sem : Option SemId     -- lazily bound, see header
  owner : Tid
  deriving Repr

/-- Everything except the program counters. -/
structure Shared where
  phase : Phase
  value : Nat
  waited : Bool
  lockHolder : Option Tid
  mu : Option MuId              -- log name of counter_mu (bound at first use)
  waiters : List NwId
  nw : NwId → Rec
  sem : SemId → Nat
  semUser : SemId → Option NwId -- live record a semaphore is bound to
  now : Nat
  active : Nat                  -- API calls in flight (contract of nsync_counter_free)
  -- ghost
  created : Bool
  initial : Nat
  hist : List Nat               -- every value the counter has held, oldest first
  deltas : List Int             -- deltas of the successful CASes, oldest first
  waking : Bool                 -- the lock holder is an add that made the value 0
  posting : Option NwId         -- record removed by the waker whose semaphore is not posted yet

structure State where
  sh : Shared
  pc : Tid → PC

def Shared.init : Shared :=
  { phase := .absent, value := 0, waited := false, lockHolder := none, mu := none, waiters := [],
    nw := fun _ => { live := false, waiting := false, sem := none, owner := 0 },
    sem := fun _ => 0, semUser := fun _ => none, now := 0, active := 0,
    created := false, initial := 0, hist := [], deltas := [], waking := false, posting := none }

def init : State := { sh := Shared.init, pc := fun _ => .idle }

def Shared.setRec (sh : Shared) (k : NwId) (r : Rec) : Shared :=
  { sh with nw := fun i => if i = k then r else sh.nw i }

def Shared.setSem (sh : Shared) (j : SemId) (n : Nat) : Shared :=
  { sh with sem := fun i => if i = j then n else sh.sem i }

def Shared.setSemUser (sh : Shared) (j : SemId) (u : Option NwId) : Shared :=
  { sh with semUser := fun i => if i = j then u else sh.semUser i }

/-- bind record `k` to semaphore `j` (or check an existing binding). -/
def Shared.bind (sh : Shared) (k : NwId) (j : SemId) : Option Shared :=
  match (sh.nw k).sem with
  | some j' => if j' = j then some sh else none
  | none =>
    match sh.semUser j with
    | some _ => none
    | none => some ((sh.setRec k { sh.nw k with sem := some j }).setSemUser j (some k))

/-- end of the record's lifetime (return of nsync_wait_n). -/
def Shared.release (sh : Shared) (k : NwId) : Shared :=
  let sh1 := sh.setRec k { sh.nw k with live := false, waiting := false }
  match (sh.nw k).sem with
  | some j => sh1.setSemUser j none
  | none => sh1

/-- check / bind the log name of counter_mu -/
def Shared.useMu (sh : Shared) (m : MuId) : Option Shared :=
  match sh.mu with
  | none => some { sh with mu := some m }
  | some m' => if m' = m then some sh else none

def State.setPc (s : State) (t : Tid) (p : PC) : State :=
  { s with pc := fun u => if u = t then p else s.pc u }

def State.mk' (sh : Shared) (s : State) (t : Tid) (p : PC) : State :=
  { sh := sh, pc := fun u => if u = t then p else s.pc u }

abbrev R := Except String State

def reject (msg : String) : R := .error msg

/-- Events the program counter does not prescribe.  Events of other layers are skipped, except
    that semaphore operations are accounted; anything that touches this layer's vocabulary
    (counter API, `ctr.value`, `ctr.waited`, a live record, counter_mu, a P on a semaphore that is
    bound to a live record) is rejected. -/
def dflt (s : State) (idle : Bool) (e : Ev) : R :=
  match e with
  | .other => .ok s
  | .semV j => .ok { s with sh := s.sh.setSem j (s.sh.sem j + 1) }
  | .pEnter _ => .ok s
  | .pdEnter _ _ => .ok s
  | .pdRet _ true => .ok s
  | .pRet j | .pdRet j false =>
    match s.sh.semUser j with
    | some _ => reject "P on a semaphore that belongs to an in-flight counter wait"
    | none =>
      match s.sh.sem j with
      | 0 => reject "P returned 0 but the semaphore count is 0"
      | n + 1 => .ok { s with sh := s.sh.setSem j n }
  | .ld _ loc _ | .st _ loc _ _ | .cas _ loc _ _ _ _ =>
    match loc with
    | .other => .ok s
    | .nwWaiting k => if (s.sh.nw k).live then reject "unexpected access to a live waiter record"
                      else .ok s
    | _ => reject "unexpected access to the counter"
  | .callLock m | .callUnlock m =>
    if s.sh.mu = some m then reject "unexpected operation on counter_mu" else .ok s
  | .retLock | .retUnlock | .malloc _ | .free =>
    if idle then .ok s else reject "unexpected event inside a counter operation"
  | _ => reject "unexpected counter API event"

/-- Range of an int32 delta. -/
def int32ok (d : Int) : Bool := decide (-2147483648 ≤ d) && decide (d < 2147483648)

def stepThr (s : State) (t : Tid) (e : Ev) : R :=
  let sh := s.sh
  match s.pc t with
  | .idle =>
    match e with
    | .callNew v =>
      if sh.phase = .absent ∧ v < two32 then .ok (s.setPc t (.newMalloc v))
      else reject "nsync_counter_new: object exists or value out of range"
    | .callFree =>
      if sh.phase = .live ∧ sh.active = 0 then .ok (s.setPc t .fLockCall)
      else reject "nsync_counter_free: not live or operations in flight"
    | .callAdd d =>
      if sh.phase = .live ∧ int32ok d then
        .ok (State.mk' { sh with active := sh.active + 1 } s t (if d = 0 then .azLoad else .aLockCall d))
      else reject "nsync_counter_add: counter not live or delta out of range"
    | .callValue =>
      if sh.phase = .live then .ok (State.mk' { sh with active := sh.active + 1 } s t .valLoad)
      else reject "nsync_counter_value: counter not live"
    | .callWait dl =>
      if sh.phase = .live then .ok (State.mk' { sh with active := sh.active + 1 } s t (.w0Store dl))
      else reject "nsync_counter_wait: counter not live"
    | e => dflt s true e
  -- nsync_counter_new ------------------------------------------------------------------------
  | .newMalloc v =>
    match e with
    | .malloc false => .ok (s.setPc t (.newRet false))
    | .malloc true =>
      if sh.phase = .absent then .ok (State.mk' { sh with phase := .creating } s t (.newStore v))
      else reject "malloc: object already exists"
    | e => dflt s false e
  | .newStore v =>
    match e with
    | .st .rlx .value new obs =>
      if new = v ∧ obs = 0 ∧ sh.phase = .creating then
        .ok (State.mk' { sh with phase := .live, value := v, created := true, initial := v, hist := [v] }
              s t (.newRet true))
      else reject "nsync_counter_new: wrong store"
    | e => dflt s false e
  | .newRet ok =>
    match e with
    | .retNew ok' =>
      if ok' = ok then
        .ok (s.setPc t .idle)
      else reject "nsync_counter_new: wrong result"
    | e => dflt s false e
  -- nsync_counter_free -----------------------------------------------------------------------
  | .fLockCall =>
    match e with
    | .callLock m =>
      match sh.useMu m with
      | some sh' => .ok (State.mk' sh' s t .fLockWait)
      | none => reject "wrong mutex"
    | e => dflt s false e
  | .fLockWait =>
    match e with
    | .retLock =>
      if sh.lockHolder = none then .ok (State.mk' { sh with lockHolder := some t } s t .fHeld)
      else reject "counter_mu acquired while held"
    | e => dflt s false e
  | .fHeld =>
    match e with
    | .callUnlock m =>
      if sh.mu = some m ∧ sh.waiters = [] then
        .ok (State.mk' { sh with lockHolder := none } s t .fUnlockWait)
      else reject "nsync_counter_free: wrong mutex or waiters present (ASSERT)"
    | e => dflt s false e
  | .fUnlockWait =>
    match e with
    | .retUnlock => .ok (s.setPc t .fFree)
    | e => dflt s false e
  | .fFree =>
    match e with
    | .free =>
      if sh.phase = .live then .ok (State.mk' { sh with phase := .freed } s t .fRet)
      else reject "free: counter not live (double free)"
    | e => dflt s false e
  | .fRet =>
    match e with
    | .retFree => .ok (s.setPc t .idle)
    | e => dflt s false e
  -- nsync_counter_value ----------------------------------------------------------------------
  | .valLoad =>
    match e with
    | .ld .acq .value obs =>
      if obs = sh.value then .ok (s.setPc t (.valRet obs)) else reject "load: observed ≠ memory"
    | e => dflt s false e
  | .valRet v =>
    match e with
    | .retValue r =>
      if r = v then .ok (State.mk' { sh with active := sh.active - 1 } s t .idle)
      else reject "nsync_counter_value: wrong result"
    | e => dflt s false e
  -- nsync_counter_add (0) --------------------------------------------------------------------
  | .azLoad =>
    match e with
    | .ld .acq .value obs =>
      if obs = sh.value then .ok (s.setPc t (.azRet obs)) else reject "load: observed ≠ memory"
    | e => dflt s false e
  | .azRet v =>
    match e with
    | .retAdd r =>
      if r = v then .ok (State.mk' { sh with active := sh.active - 1 } s t .idle)
      else reject "nsync_counter_add: wrong result"
    | e => dflt s false e
  -- nsync_counter_add (delta ≠ 0) --------------------------------------------------------------
  | .aLockCall d =>
    match e with
    | .callLock m =>
      match sh.useMu m with
      | some sh' => .ok (State.mk' sh' s t (.aLockWait d))
      | none => reject "wrong mutex"
    | e => dflt s false e
  | .aLockWait d =>
    match e with
    | .retLock =>
      if sh.lockHolder = none then .ok (State.mk' { sh with lockHolder := some t } s t (.aLoad d))
      else reject "counter_mu acquired while held"
    | e => dflt s false e
  | .aLoad d =>
    match e with
    | .ld .rlx .value obs =>
      if obs = sh.value then .ok (s.setPc t (.aCas d obs)) else reject "load: observed ≠ memory"
    | e => dflt s false e
  | .aCas d v =>
    match e with
    | .cas .ar .value exp new obs ok =>
      if exp = v ∧ new = wrapAdd v d ∧ obs = sh.value ∧ ok = decide (obs = exp) then
        if ok then
          if (v : Int) + d < 0 then reject "contract: decrement below zero (ASSERT)"
          else if (two32 : Int) ≤ (v : Int) + d then reject "contract: increment overflows (ASSERT)"
          else if v = 0 ∧ 0 < d ∧ sh.waited then reject "contract: increment from zero after a wait (ASSERT)"
          else
            let sh' := { sh with value := new, hist := sh.hist ++ [new], deltas := sh.deltas ++ [d],
                                 waking := decide (new = 0) }
            -- C short-circuit: ATM_LOAD (&c->waited) only if delta > 0 and value == (uint32_t) delta
            if 0 < d ∧ new = u32 d then .ok (State.mk' sh' s t (.aLoadWaited d new sh.hist.length))
            else .ok (State.mk' sh' s t (.aHeld d new sh.hist.length (decide (new = 0))))
        else .ok (s.setPc t (.aLoad d))
      else reject "cas: wrong expected/new/observed/ok"
    | e => dflt s false e
  | .aLoadWaited d r idx =>
    match e with
    | .ld .rlx .waited obs =>
      if obs = b2n sh.waited then
        if obs = 0 then .ok (s.setPc t (.aHeld d r idx (decide (r = 0))))
        else reject "contract: increment from zero after a wait (ASSERT)"
      else reject "load: observed ≠ memory"
    | e => dflt s false e
  | .aHeld d r idx wake =>
    match e with
    | .st .rel (.nwWaiting k) new obs =>
      match sh.waiters with
      | [] => reject "wake loop: queue is empty"
      | k' :: tl =>
        if wake = true ∧ k = k' ∧ new = 0 ∧ obs = b2n (sh.nw k).waiting then
          .ok (State.mk' ({ sh with waiters := tl, posting := some k }.setRec k
                  { sh.nw k with waiting := false }) s t (.aPost d r idx k))
        else reject "wake loop: wrong record / value, or not waking"
    | .callUnlock m =>
      if sh.mu = some m ∧ (wake = true → sh.waiters = []) then
        .ok (State.mk' { sh with lockHolder := none, waking := false } s t (.aUnlockWait d r idx))
      else reject "unlock: wrong mutex or waiters left queued at zero"
    | e => dflt s false e
  | .aPost d r idx k =>
    match e with
    | .semV j =>
      match sh.bind k j with
      | some sh' =>
        .ok (State.mk' { sh'.setSem j (sh'.sem j + 1) with posting := none } s t (.aHeld d r idx true))
      | none => reject "sem v: not the record's semaphore"
    | .pEnter _ | .pRet _ | .pdEnter _ _ | .pdRet _ _ => reject "unexpected semaphore operation"
    | e => dflt s false e
  | .aUnlockWait d r idx =>
    match e with
    | .retUnlock => .ok (s.setPc t (.aRet d r idx))
    | e => dflt s false e
  | .aRet _ r _ =>
    match e with
    | .retAdd v =>
      if v = r then .ok (State.mk' { sh with active := sh.active - 1 } s t .idle)
      else reject "nsync_counter_add: wrong result"
    | e => dflt s false e
  -- nsync_counter_wait -------------------------------------------------------------------------
  | .w0Store dl =>
    match e with
    | .st .rlx .waited new obs =>
      if new = 1 ∧ obs = b2n sh.waited then .ok (State.mk' { sh with waited := true } s t (.w0Load dl))
      else reject "store waited: wrong value"
    | e => dflt s false e
  | .w0Load dl =>
    match e with
    | .ld .acq .value obs =>
      if obs = sh.value then
        if obs = 0 then .ok (s.setPc t (.wRet dl 0))
        else if dlePast dl then .ok (s.setPc t (.wFinalLoad dl))
        else .ok (s.setPc t (.wInit dl))
      else reject "load: observed ≠ memory"
    | e => dflt s false e
  | .wInit dl =>
    match e with
    | .st .rlx (.nwWaiting k) new _ =>        -- obs unchecked: uninitialised stack memory
      if new = 0 ∧ (sh.nw k).live = false then
        .ok (State.mk' (sh.setRec k { live := true, waiting := false, sem := none, owner := t })
              s t (.wEnqLockCall dl k))
      else reject "record init: wrong value or record in use (allocator contract)"
    | e => dflt s false e
  | .wEnqLockCall dl k =>
    match e with
    | .callLock m =>
      match sh.useMu m with
      | some sh' => .ok (State.mk' sh' s t (.wEnqLockWait dl k))
      | none => reject "wrong mutex"
    | e => dflt s false e
  | .wEnqLockWait dl k =>
    match e with
    | .retLock =>
      if sh.lockHolder = none then .ok (State.mk' { sh with lockHolder := some t } s t (.wEnqLoad dl k))
      else reject "counter_mu acquired while held"
    | e => dflt s false e
  | .wEnqLoad dl k =>
    match e with
    | .ld .acq .value obs =>
      if obs = sh.value then .ok (s.setPc t (.wEnqStore dl k obs)) else reject "load: observed ≠ memory"
    | e => dflt s false e
  | .wEnqStore dl k v =>
    match e with
    | .st .rlx (.nwWaiting k') new obs =>
      if k' = k ∧ new = b2n (decide (v ≠ 0)) ∧ obs = b2n (sh.nw k).waiting then
        if v ≠ 0 then
          .ok (State.mk' ({ sh with waiters := sh.waiters ++ [k] }.setRec k { sh.nw k with waiting := true })
                s t (.wEnqUnlockCall dl k true))
        else .ok (State.mk' (sh.setRec k { sh.nw k with waiting := false }) s t (.wEnqUnlockCall dl k false))
      else reject "enqueue: wrong store"
    | e => dflt s false e
  | .wEnqUnlockCall dl k enq =>
    match e with
    | .callUnlock m =>
      if sh.mu = some m then .ok (State.mk' { sh with lockHolder := none } s t (.wEnqUnlockWait dl k enq))
      else reject "wrong mutex"
    | e => dflt s false e
  | .wEnqUnlockWait dl k _ =>
    match e with
    -- wait.c: after the enqueue loop `i == count` holds whether or not the record was enqueued
    -- (the loop increments i before testing `enqueued`), so the sleep loop is always entered;
    -- when the record was not enqueued (value was 0) its ready_time sees 0 and leaves at once.
    | .retUnlock => .ok (s.setPc t (.wLoopStore dl k))
    | e => dflt s false e
  | .wLoopStore dl k =>
    match e with
    | .st .rlx .waited new obs =>
      if new = 1 ∧ obs = b2n sh.waited then .ok (State.mk' { sh with waited := true } s t (.wLoopLoad dl k))
      else reject "store waited: wrong value"
    | e => dflt s false e
  | .wLoopLoad dl k =>
    match e with
    | .ld .acq .value obs =>
      if obs = sh.value then
        -- ready_time = zero → min_ntime = zero → leave the loop; else min_ntime = abs_deadline > zero
        .ok (s.setPc t (if obs = 0 then .wDeqLockCall dl k false else .wPdEnter dl k))
      else reject "load: observed ≠ memory"
    | e => dflt s false e
  | .wPdEnter dl k =>
    match e with
    | .pdEnter j d =>
      if d = dl then
        match sh.bind k j with
        | some sh' => .ok (State.mk' sh' s t (.wPdWait dl k j))
        | none => reject "pd_enter: semaphore in use by another wait or not the record's semaphore"
      else reject "pd_enter: wrong deadline"
    | .pEnter _ | .pRet _ | .semV _ | .pdRet _ _ => reject "unexpected semaphore operation"
    | e => dflt s false e
  | .wPdWait dl k j =>
    match e with
    | .pdRet j' tmo =>
      if j' = j then
        if tmo then
          if expired dl sh.now then .ok (s.setPc t (.wDeqLockCall dl k true))
          else reject "pd_ret ETIMEDOUT before the deadline"
        else
          match sh.sem j with
          | 0 => reject "pd_ret 0 but the semaphore count is 0"
          | n + 1 => .ok (State.mk' (sh.setSem j n) s t (.wLoopStore dl k))
      else reject "pd_ret: wrong semaphore"
    | .pEnter _ | .pRet _ | .semV _ | .pdEnter _ _ => reject "unexpected semaphore operation"
    | e => dflt s false e
  | .wDeqLockCall dl k tmo =>
    match e with
    | .callLock m =>
      match sh.useMu m with
      | some sh' => .ok (State.mk' sh' s t (.wDeqLockWait dl k tmo))
      | none => reject "wrong mutex"
    | e => dflt s false e
  | .wDeqLockWait dl k tmo =>
    match e with
    | .retLock =>
      if sh.lockHolder = none then .ok (State.mk' { sh with lockHolder := some t } s t (.wDeqLoadV dl k tmo))
      else reject "counter_mu acquired while held"
    | e => dflt s false e
  | .wDeqLoadV dl k tmo =>
    match e with
    | .ld .acq .value obs =>
      if obs = sh.value then .ok (s.setPc t (.wDeqLoadW dl k tmo obs)) else reject "load: observed ≠ memory"
    | e => dflt s false e
  | .wDeqLoadW dl k tmo v =>
    match e with
    | .ld .acq (.nwWaiting k') obs =>
      if k' = k ∧ obs = b2n (sh.nw k).waiting then
        .ok (s.setPc t (if obs ≠ 0 then .wDeqStore dl k tmo v else .wDeqUnlockCall dl k tmo v))
      else reject "dequeue: wrong load"
    | e => dflt s false e
  | .wDeqStore dl k tmo v =>
    match e with
    | .st .rlx (.nwWaiting k') new obs =>
      if k' = k ∧ new = 0 ∧ obs = b2n (sh.nw k).waiting then
        .ok (State.mk' ({ sh with waiters := sh.waiters.erase k }.setRec k { sh.nw k with waiting := false })
              s t (.wDeqUnlockCall dl k tmo v))
      else reject "dequeue: wrong store"
    | e => dflt s false e
  | .wDeqUnlockCall dl k tmo v =>
    match e with
    | .callUnlock m =>
      if sh.mu = some m then .ok (State.mk' { sh with lockHolder := none } s t (.wDeqUnlockWait dl k tmo v))
      else reject "wrong mutex"
    | e => dflt s false e
  | .wDeqUnlockWait dl k _ v =>
    match e with
    | .retUnlock =>
      -- end of nsync_wait_n: the nw_set frame dies, the waiter goes back to the pool.
      -- dequeue returned (v != 0); ready = 0 iff it returned 0.
      .ok (State.mk' (sh.release k) s t (if v = 0 then .wRet dl 0 else .wFinalLoad dl))
    | e => dflt s false e
  | .wFinalLoad dl =>
    match e with
    | .ld .acq .value obs =>
      if obs = sh.value then .ok (s.setPc t (.wRet dl obs)) else reject "load: observed ≠ memory"
    | e => dflt s false e
  | .wRet _ r =>
    match e with
    | .retWait v =>
      if v = r then .ok (State.mk' { sh with active := sh.active - 1 } s t .idle)
      else reject "nsync_counter_wait: wrong result"
    | e => dflt s false e

def step (s : State) : Event → R
  | .thr t e => stepThr s t e
  | .tick ns =>
    if s.sh.now ≤ ns then .ok { s with sh := { s.sh with now := ns } }
    else reject "tick: clock went backwards"

def run (s : State) : List Event → R
  | [] => .ok s
  | e :: es => match step s e with
    | .ok s' => run s' es
    | .error m => .error m

def Reachable (s : State) : Prop := ∃ evs, run init evs = .ok s

/-- final state of an accepted trace (for the concrete examples and the driver) -/
def final (evs : List Event) : Option State :=
  match run init evs with
  | .ok s => some s
  | .error _ => none

def accepts (evs : List Event) : Bool := (final evs).isSome

end Counter
