/-
  Layer `MuC` (property C06, nsync_mu_wait part of C05): line protocol for the correspondence check.

  One log line in, one verdict out:
    `ok`               an event on an in-scope mutex, accepted by `MuC.step`
    `skip`             anything else: other layers' lines, waiter-pool traffic, mutexes embedded in
                       other objects (names with a dot), out-of-scope mutexes, everything a thread
                       logs inside a NESTED api call (`ncall` … `nret`: note.c / sem_wait.c calling
                       nsync_mu_lock on a note's mutex, nsync_note_notify, …) except its effect on the
                       semaphore counts
    `REJECT <reason>`  the C code modelled by `MuC.step` cannot perform this event here
    `bad-op`           the line cannot be parsed
    `#`                `# begin …` : reset

  One `MuC.State` per mutex name `mu<i>`.  A mutex becomes OUT OF SCOPE for the rest of the execution
  when a call outside the layer names it (nsync_cv_wait_with_deadline, nsync_wait_n, debug and assert
  calls, a nested `ncall`) or when a deadline cannot be represented (`raw:` deadlines).

  `call nsync_mu_wait_with_deadline mu<i> <eq|ge|-> <deadline> <note|->`: with a condition function
  the call is held back until the `condarg c<k> x<i> <val> eq=<b>` line of the same thread, which
  completes the `MuC.Api.wait` event.

  Client data: `data w x<i> <v>` is fed to every in-scope mutex the writing thread holds in write
  mode, and — as a contract violation — to every in-scope mutex some condition of which reads x<i>
  while the thread does not hold it; `data r` is fed (value check) to the mutexes that know x<i>.
  Variables start at 0 (the scenarios of the MuC families never give another initial value).

  Cancel note (see Model/MuC.lean): a thread inside nsync_mu_wait_with_deadline with a note that
  loads `note<k>.notified` ≠ 0 or stores 1 to it yields `noteSeen`; `ncall nsync_note_notify note<k>`
  by it yields `noteNotify` when the model is at a point where sem_wait.c can make that call.

  As in MuQDriver every line is replayed under both semaphore flavours; the site of an `atm` line
  must name the function the model's program point lies in.

  Core Lean only.
-/
import NsyncVerif.Model.MuC

namespace NsyncVerif.MuC.Driver

structure Cand where
  cfg : Cfg
  mus : List (String × State)
  sems : List (Nat × Nat)
  trace : List (String × Event) := []   -- the model events accepted so far, newest first (for extracting witnesses)

structure Pending where
  tid : Nat
  mu : String
  fn : CFn
  dl : Option Int
  note : Bool

structure DState where
  cands : List Cand
  route : List (Nat × String)       -- tid ↦ in-scope mutex of the call in progress
  calls : List (Nat × Api)          -- tid ↦ the call in progress
  pend : List Pending               -- wait calls whose condarg line has not arrived
  nest : List (Nat × Nat)           -- tid ↦ depth of nested api calls
  oos : List String                 -- out-of-scope mutexes
  vars : List (String × Nat)        -- (mutex, variable) pairs the mutex's model knows
  now : Int
  accepted : Nat

def init : DState :=
  { cands := [{ cfg := { binary := false }, mus := [], sems := [] },
              { cfg := { binary := true }, mus := [], sems := [] }],
    route := [], calls := [], pend := [], nest := [], oos := [], vars := [], now := 0, accepted := 0 }

def dec? (s : String) : Option Nat :=
  if s.isEmpty then none
  else if s.toList.all Char.isDigit then s.toNat? else none

def int? (s : String) : Option Int :=
  if s.startsWith "-" then (dec? (s.drop 1).toString).map (fun n => - (Int.ofNat n))
  else (dec? s).map Int.ofNat

def parseIdx (pfx tok : String) : Option Nat :=
  if tok.startsWith pfx then dec? (tok.drop pfx.length).toString else none

/-- `mu3` (not `note1.mu`, not `mu`). -/
def isPlainMu (tok : String) : Bool := (parseIdx "mu" tok).isSome

def lookupMu (now : Int) (l : List (String × State)) (k : String) : State :=
  match l.find? (fun p => p.1 == k) with
  | some p => p.2
  | none => { NsyncVerif.MuC.init with now := now }

def insertMu (l : List (String × State)) (k : String) (v : State) : List (String × State) :=
  (k, v) :: l.filter (fun p => p.1 != k)

def semCount (l : List (Nat × Nat)) (k : Nat) : Nat :=
  match l.find? (fun p => p.1 == k) with
  | some p => p.2
  | none => 0

def setSem (l : List (Nat × Nat)) (k n : Nat) : List (Nat × Nat) :=
  (k, n) :: l.filter (fun p => p.1 != k)

def parseOrd : String → Option Ord
  | "rlx" => some .rlx | "acq" => some .acq | "rel" => some .rel | "ar" => some .ar | _ => none

def parseApi : String → Option Api
  | "nsync_mu_lock" => some .lock | "nsync_mu_rlock" => some .rlock
  | "nsync_mu_trylock" => some .trylock | "nsync_mu_rtrylock" => some .rtrylock
  | "nsync_mu_unlock" => some .unlock | "nsync_mu_runlock" => some .runlock
  | "nsync_mu_unlock_without_wakeup" => some .unlockNw
  | _ => none

def parseLoc (mu : String) (loc : String) : Option Loc :=
  if loc == mu ++ ".word" then some .word
  else if loc.endsWith ".waiting" then (parseIdx "w" (loc.dropEnd 8).toString).map Loc.waiting
  else if loc.endsWith ".remove_count" then (parseIdx "w" (loc.dropEnd 13).toString).map Loc.rc
  else none

/-- `inf`, or nanoseconds (possibly negative); `raw:…` is not representable. -/
def parseDl (s : String) : Option (Option Int) :=
  if s == "inf" then some none else (int? s).map some

/-- The file and function the program point lies in. -/
def expectedSite : PC → String × String
  | .idle => ("-", "-")
  | .lkCas0 .W | .lkLd .W | .lkCas1 .W _ | .lkRet .W => ("mu.c", "nsync_mu_lock")
  | .lkCas0 .R | .lkLd .R | .lkCas1 .R _ | .lkRet .R => ("mu.c", "nsync_mu_rlock")
  | .tryCas0 .W | .tryLd .W | .tryCas1 .W _ | .tryRet .W _ => ("mu.c", "nsync_mu_trylock")
  | .tryCas0 .R | .tryLd .R | .tryCas1 .R _ | .tryRet .R _ => ("mu.c", "nsync_mu_rtrylock")
  | .lsLd _ | .lsCasAcq _ _ | .lsCasEnq _ _ | .lsSt _ | .lsWaitLd _ | .lsPEnter _ | .lsPRet _ => ("mu.c", "nsync_mu_lock_slow_")
  | .lsRelLd _ | .lsRelCas _ _ | .usRelLd _ _ | .usRelCas _ _ _ => ("mu.c", "mu_release_spinlock")
  | .ulCas0 _ true | .ulLd _ true | .ulCas1 _ true _ | .ulRet _ true => ("mu_wait.c", "nsync_mu_unlock_without_wakeup")
  | .ulCas0 .W false | .ulLd .W false | .ulCas1 .W false _ | .ulRet .W false => ("mu.c", "nsync_mu_unlock")
  | .ulCas0 .R false | .ulLd .R false | .ulCas1 .R false _ | .ulRet .R false => ("mu.c", "nsync_mu_runlock")
  | .usLd _ | .usCasUnc _ _ | .usCasGrab _ _ | .usEval _ _ | .usFinLd _ _ | .usFinCas _ _ _ | .usWakeSt _ _ _ | .usWakeV _ _ _ =>
    ("mu.c", "nsync_mu_unlock_slow_")
  | .usRcLd _ _ _ | .usRcCas _ _ _ _ | .mtRmLd _ _ | .mtRmCas _ _ _ => ("mu.c", "nsync_remove_from_mu_queue_")
  | .usReLd _ _ | .usReCas _ _ _ | .mwEnqLd _ | .mwEnqCas _ _ => ("common.c", "nsync_spin_test_and_set_")
  | .mwLd0 _ | .mwEval _ | .mwStW _ | .mwRcLd _ | .mwRelLd _ | .mwRelCas _ _ _ | .mwWaitLd _ | .mwSem _ | .mwPdRet _ _
  | .mwNotify _ | .mwLd244 _ | .mwLd255 _ | .mwRet _ _ => ("mu_wait.c", "nsync_mu_wait_with_deadline")
  | .mtLd _ | .mtCasAcq _ _ | .mtCasWW _ _ | .mtLdWk _ _ | .mtLdW _ _ | .mtLdRc _ _ | .mtStW _ _ | .mtStRel _ _ _ =>
    ("mu_wait.c", "mu_try_acquire_after_timeout_or_cancel")

/-- Feed one model event for mutex `m` to one candidate. -/
def Cand.feed (now : Int) (c : Cand) (m : String) (e : Event) : Except String Cand :=
  match step c.cfg (lookupMu now c.mus m) e with
  | .ok s' => .ok { c with mus := insertMu c.mus m s', trace := (m, e) :: c.trace }
  | .error msg => .error s!"{m}: {msg}"

/-- Before the first `waiting := 1` store of a thread on record `k`: pass the semaphore count. -/
def Cand.syncSem (now : Int) (c : Cand) (m : String) (k : Nat) : Except String Cand :=
  let s := lookupMu now c.mus m
  if (s.wr k).owner = none ∧ (s.wr k).sem ≠ semCount c.sems k then c.feed now m (.envSem k (semCount c.sems k))
  else .ok c

/-- A V on `sem<k>` by a thread that is not acting inside a call on mutex `skipMu`: every other mutex
    on which the record is in use sees an `envV`. -/
def Cand.envV (now : Int) (c : Cand) (k : Nat) (skipMu : Option String) : Except String Cand :=
  c.mus.foldl (fun acc p =>
    match acc with
    | .error e => .error e
    | .ok c' =>
      if some p.1 == skipMu then .ok c'
      else if ((lookupMu now c'.mus p.1).wr k).owner ≠ none then c'.feed now p.1 (.envV k) else .ok c') (.ok c)

def Cand.semV (c : Cand) (k : Nat) : Cand :=
  { c with sems := setSem c.sems k (if c.cfg.binary then 1 else semCount c.sems k + 1) }

def Cand.semP (c : Cand) (k : Nat) : Except String Cand :=
  if semCount c.sems k = 0 then .error s!"sem{k}: P returned although the count is 0"
  else .ok { c with sems := setSem c.sems k (if c.cfg.binary then 0 else semCount c.sems k - 1) }

/-- Feed an event to several mutexes in turn. -/
def Cand.feedAll (now : Int) (c : Cand) (ms : List String) (e : Event) : Except String Cand :=
  ms.foldl (fun acc m => match acc with | .error x => .error x | .ok c' => c'.feed now m e) (.ok c)

/-- Apply `f` to every candidate; keep the survivors. -/
def applyAll (d : DState) (f : Cand → Except String Cand) (counted : Bool) : DState × String :=
  let rs := d.cands.map f
  let ok := rs.filterMap (fun r => match r with | .ok c => some c | .error _ => none)
  match ok with
  | [] =>
    let msg := match rs with
      | (.error e) :: _ => e
      | _ => "no candidate configuration"
    (d, s!"REJECT MuC {msg}")
  | _ => ({ d with cands := ok, accepted := if counted then d.accepted + 1 else d.accepted }, if counted then "ok" else "skip")

def routeOf (d : DState) (t : Nat) : Option String :=
  (d.route.find? (fun p => p.1 == t)).map (·.2)

def callOf (d : DState) (t : Nat) : Option Api :=
  (d.calls.find? (fun p => p.1 == t)).map (·.2)

def depthOf (d : DState) (t : Nat) : Nat :=
  match d.nest.find? (fun p => p.1 == t) with
  | some p => p.2
  | none => 0

def setDepth (d : DState) (t n : Nat) : DState :=
  { d with nest := (t, n) :: d.nest.filter (fun p => p.1 != t) }

def markOos (d : DState) (args : List String) : DState :=
  let ms := args.filter isPlainMu
  { d with oos := ms ++ d.oos, route := d.route.filter (fun p => !(ms.contains p.2)),
           pend := d.pend.filter (fun p => !(ms.contains p.mu)) }

def siteFn (site : String) : Option (String × String) :=
  match site.splitOn "/" with
  | [file, k, fn] => if (dec? k).isSome then some (file, fn) else none
  | _ => none

def stateOf (d : DState) (m : String) : State :=
  match d.cands with
  | c :: _ => lookupMu d.now c.mus m
  | [] => { NsyncVerif.MuC.init with now := d.now }

def pcOf (d : DState) (m : String) (t : Nat) : PC := (stateOf d m).pc t

/-- The in-scope mutexes the driver has a state for. -/
def knownMus (d : DState) : List String :=
  match d.cands with
  | c :: _ => (c.mus.map (·.1)).filter (fun m => !d.oos.contains m)
  | [] => []

def startCall (d : DState) (t : Nat) (m : String) (a : Api) : DState × String :=
  let (d', out) := applyAll d (fun c => c.feed d.now m (.call t a)) true
  if out == "ok" then
    ({ d' with route := (t, m) :: d'.route.filter (fun p => p.1 != t),
               calls := (t, a) :: d'.calls.filter (fun p => p.1 != t) }, out)
  else (d', out)

def parseOutc : String → Option Outc
  | "0" => some .ok | "ETIMEDOUT" => some .timedout | "ECANCELED" => some .cancelled | _ => none

def step (d : DState) (line : String) : DState × String :=
  match line.trimAscii.toString.splitOn " " with
  | "#" :: "begin" :: _ => (init, "#")
  | ["-", "tick", ns] =>
    match int? ns with
    | none => (d, "bad-op")
    | some n =>
      let d1 := { d with now := n }
      applyAll d1 (fun c => c.feedAll d.now (c.mus.map (·.1) |>.filter (fun m => !d.oos.contains m)) (.tick n)) true
  | tidS :: "call" :: api :: args =>
    match dec? tidS with
    | none => (d, "bad-op")
    | some t =>
      if api == "nsync_mu_wait_with_deadline" then
        match args with
        | [m, fn, dl, note] =>
          if !isPlainMu m || d.oos.contains m then (d, "skip")
          else
            match parseDl dl with
            | none => (markOos d [m], "skip")
            | some dlv =>
              let nt := note != "-"
              if fn == "-" then startCall d t m (.wait none dlv nt)
              else if fn == "eq" then ({ d with pend := { tid := t, mu := m, fn := .eq, dl := dlv, note := nt } :: d.pend }, "ok")
              else if fn == "ge" then ({ d with pend := { tid := t, mu := m, fn := .ge, dl := dlv, note := nt } :: d.pend }, "ok")
              else (d, "bad-op")
        | _ => (d, "bad-op")
      else
      match parseApi api, args with
      | some a, [m] =>
        if !isPlainMu m || d.oos.contains m then (d, "skip") else startCall d t m a
      | some _, _ => (d, "bad-op")
      | none, _ => (markOos d args, "skip")
  | [tidS, "condarg", ck, xv, val, eqs] =>
    match dec? tidS, parseIdx "c" ck, parseIdx "x" xv, int? val with
    | some t, some k, some x, some v =>
      match d.pend.find? (fun p => p.tid == t) with
      | none => (d, "skip")
      | some p =>
        let he := eqs == "eq=1"
        if eqs != "eq=1" && eqs != "eq=0" then (d, "bad-op")
        else
          let d1 := { d with pend := d.pend.filter (fun q => q.tid != t), vars := (p.mu, x) :: d.vars }
          startCall d1 t p.mu (.wait (some { fn := p.fn, k := k, var := x, val := v, hasEq := he }) p.dl p.note)
    | _, _, _, _ => (d, "bad-op")
  | tidS :: "ncall" :: api :: args =>
    match dec? tidS with
    | none => (d, "bad-op")
    | some t =>
      let d1 := setDepth (markOos d args) t (depthOf d t + 1)
      if depthOf d t == 0 && api == "nsync_note_notify" then
        match routeOf d t with
        | some m =>
          match pcOf d m t with
          | .mwNotify _ | .mwLd244 _ => applyAll d1 (fun c => c.feed d.now m (.noteNotify t)) true
          | _ => (d1, "skip")
        | none => (d1, "skip")
      else (d1, "skip")
  | tidS :: "nret" :: _ =>
    match dec? tidS with
    | none => (d, "bad-op")
    | some t => (setDepth d t (depthOf d t - 1), "skip")
  | tidS :: "ret" :: api :: res :: _ =>
    match dec? tidS with
    | none => (d, "bad-op")
    | some t =>
      match routeOf d t, callOf d t with
      | some m, some a =>
        let r : Option Res :=
          if api == "nsync_mu_wait_with_deadline" then
            (match a with | .wait _ _ _ => (parseOutc res).map Res.outc | _ => none)
          else if parseApi api != some a then none
          else if res == "-" then some .void else if res == "1" then some (.bool true)
          else if res == "0" then some (.bool false) else none
        match r with
        | none => (d, s!"REJECT MuC {m}: return `{api} {res}` does not match the call in progress")
        | some r =>
          let (d', out) := applyAll d (fun c => c.feed d.now m (.ret t a r)) true
          ({ d' with route := d'.route.filter (fun p => p.1 != t), calls := d'.calls.filter (fun p => p.1 != t) }, out)
      | _, _ => (d, "skip")
  | tidS :: "atm" :: site :: op :: ord :: loc :: exp :: new :: obs :: ok :: _ =>
    match dec? tidS, siteFn site, parseOrd ord with
    | some t, some (file, fn), some o =>
      if loc == "pool.mu" || fn == "nsync_waiter_new_" || fn == "nsync_waiter_free_" then (d, "skip")
      else if depthOf d t != 0 then (d, "skip")
      else if loc.startsWith "note" && loc.endsWith ".notified" then
        -- the cancel note as seen by a thread inside nsync_sem_wait_with_cancel_
        match routeOf d t with
        | some m =>
          match pcOf d m t with
          | .mwSem c =>
            let seen := (op == "ld" && obs != "0") || (op == "st" && new != "0")
            if c.note && seen then applyAll d (fun c => c.feed d.now m (.noteSeen t)) true else (d, "skip")
          | _ => (d, "skip")
        | none => (d, "skip")
      else
        -- which mutex?  a mutex word names it; waiter fields follow the thread's call
        let mOpt : Option String :=
          if loc.endsWith ".word" then
            let name := (loc.dropEnd 5).toString
            if isPlainMu name then (if d.oos.contains name then none else some name) else none
          else if (loc.endsWith ".waiting" && (parseIdx "w" (loc.dropEnd 8).toString).isSome)
                  || (loc.endsWith ".remove_count" && (parseIdx "w" (loc.dropEnd 13).toString).isSome) then routeOf d t
          else none
        match mOpt with
        | none => (d, "skip")
        | some m =>
          match parseLoc m loc with
          | none => (d, "bad-op")
          | some l =>
            if (file, fn) != expectedSite (pcOf d m t) then
              (d, s!"REJECT MuC {m}: atomic operation at site {site}, but the model's thread is in {(expectedSite (pcOf d m t)).2}")
            else
            match op, exp, dec? new, dec? obs, ok with
            | "ld", "-", none, some v, "-" => if new == "-" then applyAll d (fun c => c.feed d.now m (.ld t o l v)) true else (d, "bad-op")
            | "st", "-", some n, some v, "-" =>
              let pre : Cand → Except String Cand := fun c =>
                match l with
                | .waiting k => if n = 1 then c.syncSem d.now m k else .ok c
                | _ => .ok c
              applyAll d (fun c => match pre c with | .ok c' => c'.feed d.now m (.st t o l n v) | .error e => .error e) true
            | "cas", _, some n, some v, _ =>
              match dec? exp, ok with
              | some e, "1" => applyAll d (fun c => c.feed d.now m (.cas t o l e n v true)) true
              | some e, "0" => applyAll d (fun c => c.feed d.now m (.cas t o l e n v false)) true
              | _, _ => (d, "bad-op")
            | _, _, _, _, _ => (d, "bad-op")
    | _, _, _ => (d, "bad-op")
  | tidS :: "sem" :: kind :: sem :: rest =>
    match dec? tidS, parseIdx "sem" sem with
    | some t, some k =>
      -- inside nsync_sem_wait_with_cancel_ with a note, note.c's static `notify` may post the
      -- semaphores of the note's waiters: those V are the environment's as far as the mutex goes
      let inNote : Bool := match routeOf d t with
        | some m => (match pcOf d m t with
          | .mwSem c | .mwPdRet c _ | .mwNotify c | .mwLd244 c | .mwLd255 c => c.note && kind == "v"
          | _ => false)
        | none => false
      let m := if depthOf d t != 0 || inNote then none else routeOf d t
      match kind with
      | "v" =>
        applyAll d (fun c =>
          let c1 := c.semV k
          match m with
          | some m => match c1.feed d.now m (.semV t k) with
            | .ok c2 => c2.envV d.now k (some m)
            | .error e => .error e
          | none => c1.envV d.now k none) m.isSome
      | "p_enter" =>
        match m with
        | some m => applyAll d (fun c => c.feed d.now m (.semPEnter t k)) true
        | none => (d, "skip")
      | "p_ret" =>
        applyAll d (fun c =>
          match c.semP k with
          | .error e => .error e
          | .ok c1 => match m with
            | some m => c1.feed d.now m (.semPRet t k)
            | none => .ok c1) m.isSome
      | "pd_enter" =>
        match m, rest with
        | some m, [dl] =>
          match parseDl dl with
          | some dlv => applyAll d (fun c => c.feed d.now m (.semPdEnter t k dlv)) true
          | none => (d, "bad-op")
        | some _, _ => (d, "bad-op")
        | none, _ => (d, "skip")
      | "pd_ret" =>
        match rest with
        | [r] =>
          if r != "0" && r != "ETIMEDOUT" then (d, "bad-op")
          else
            applyAll d (fun c =>
              match (if r == "0" then c.semP k else .ok c) with
              | .error e => .error e
              | .ok c1 => match m with
                | some m => c1.feed d.now m (.semPdRet t k (r != "0"))
                | none => .ok c1) m.isSome
        | _ => (d, "bad-op")
      | _ => (d, "bad-op")
    | some _, none => (d, "skip")     -- a semaphore that is not a waiter's (scenario `sem_p s<i>`)
    | none, _ => (d, "bad-op")
  | [tidS, "cond", fn, ck, res] =>
    match dec? tidS, parseIdx "c" ck with
    | some t, some k =>
      let f : Option CFn := if fn == "eq" then some .eq else if fn == "ge" then some .ge else none
      let r : Option Bool := if res == "1" then some true else if res == "0" then some false else none
      match f, r with
      | some f, some r =>
        if depthOf d t != 0 then (d, "skip")
        else
          match routeOf d t with
          | some m => applyAll d (fun c => c.feed d.now m (.cond t f k r)) true
          | none =>
            -- a condition evaluated by a thread that is in no call on an in-scope mutex
            if (knownMus d).any (fun m => ((stateOf d m).cargs k).isSome) then
              (d, s!"REJECT MuC condition c{k} evaluated by a thread that is not inside a call on its mutex")
            else (d, "skip")
      | _, _ => (d, "bad-op")
    | _, _ => (d, "bad-op")
  | [tidS, "data", rw, xv, val] =>
    match dec? tidS, parseIdx "x" xv, int? val with
    | some t, some x, some v =>
      if rw == "w" then
        let holders := (knownMus d).filter (fun m => (stateOf d m).held t == some .W)
        let readers := (knownMus d).filter (fun m => d.vars.contains (m, x) && !holders.contains m)
        if holders.isEmpty && readers.isEmpty then (d, "skip")
        else
          let d1 := { d with vars := holders.map (fun m => (m, x)) ++ d.vars }
          applyAll d1 (fun c => c.feedAll d.now (holders ++ readers) (.dataW t x v)) true
      else if rw == "r" then
        let ms := (knownMus d).filter (fun m => d.vars.contains (m, x))
        if ms.isEmpty then (d, "skip") else applyAll d (fun c => c.feedAll d.now ms (.dataR t x v)) true
      else (d, "bad-op")
    | _, _, _ => (d, "bad-op")
  | _ => (d, "skip")

end NsyncVerif.MuC.Driver
