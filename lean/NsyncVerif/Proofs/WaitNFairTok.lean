/-
  Proofs/WaitNFairTok.lean — WaitN layer, liveness, case (b): the token flow behind `C11_no_oversleep` as leads-to
  facts.  For a caller that sleeps in the P of wait.c:78 and is never woken again: a token on its semaphore stays
  (`token_stays`); a waker that owes a post on one of its records posts, and the post is on its semaphore
  (`inflight_posts`); a signaller that has unlinked one of its records clears `waiting` (`pend_clears`).
-/
import NsyncVerif.Proofs.WaitNFairReady

set_option linter.unusedSimpArgs false
set_option linter.unusedVariables false

namespace WaitN

variable {s0 : State}

theorem sb_of_reachable {s : State} (h : Reachable s) : SB s := by
  obtain ⟨evs, hrun⟩ := h
  exact (inv_of_run evs s hrun).1

/-- a thread that owes a post stays at its program point until it posts -/
theorem post_keeps_pc {s s' : State} {u : Tid} {e : Ev} {r : Rid} (hr : Reachable s) (h : stepThr s u e = .ok s')
    (hp : s.post u = some r) (hp' : s'.post u = some r) : s'.pc u = s.pc u := by
  have hopn := ((qinv_of_reachable hr).qi.q6 u (by rw [hp]; simp)).2
  unfold stepThr at h
  split at h <;> rename_i hpc <;> (try (rw [hpc] at hopn; cases hopn; done))
  · -- idle
    unfold stepIdle at h
    split_ok h
    all_goals first
      | exact congrFun (stepOpen_keeps2 h).1 u
      | (cases h; rfl)
      | (exfalso; simp_all; done)
  · -- signaller in its wake loop
    rename_i c bc st
    cases st <;> (try (rw [hpc] at hopn; cases hopn; done))
    simp only [stepSg] at h
    split_ok h
    all_goals first
      | exact congrFun (dflt_keeps h).1 u
      | (exfalso; simp_all; done)
      | (cases h; simp at hp'; done)
      | (cases h; simp; done)
  · -- lazy notification of a note
    rename_i uu i st
    cases st <;> (try (rw [hpc] at hopn; cases hopn; done))
    unfold stepND at h
    split_ok h
    all_goals first
      | exact congrFun (stepOpen_keeps2 h).1 u
      | exact congrFun (dflt_keeps h).1 u
      | (exfalso; simp_all; done)
      | (cases h; simp at hp'; done)

/-- a token on the semaphore of a sleeper that is never woken stays -/
theorem token_step (x : Exec s0) (hr : Reachable s0) (t : Tid) (k : SemId) (a : Nat)
    (hp : (x.ρ a).pc t = .wPdWait k) (hp' : (x.ρ (a + 1)).pc t = .wPdWait k) :
    (x.ρ a).sem k ≤ (x.ρ (a + 1)).sem k := by
  cases hs : x.σ a with
  | none => rw [x.next_none hs]; exact Nat.le_refl _
  | some ev =>
    have hstep := x.next_some hs
    cases ev with
    | tick ns => rw [(step_tick hstep).1]; exact Nat.le_refl _
    | thr v e =>
      apply Classical.byContradiction
      intro hlt
      have sa := sema_stepThr (step_thr hstep)
      have sb := sb_of_reachable (x.reach hr a)
      have hpr := sa.dec k (by omega)
      have hu := sb.b1 t k (sb.b3 t k hp)
      rcases sa.pret k hpr with h | ⟨h1, h2⟩
      · rw [hu] at h; cases h
      · have hv := sb.b1 v k (sb.b3 v k h1)
        rw [hu] at hv; cases hv
        exact h2 k hp'

theorem token_stays (x : Exec s0) (hr : Reachable s0) (t : Tid) (k : SemId) (a : Nat)
    (hp : ∀ a', a ≤ a' → (x.ρ a').pc t = .wPdWait k) (h : 0 < (x.ρ a).sem k) :
    ∀ a', a ≤ a' → 0 < (x.ρ a').sem k := by
  intro a' ha
  obtain ⟨d, rfl⟩ : ∃ d, a' = a + d := ⟨a' - a, by omega⟩
  induction d with
  | zero => exact h
  | succ d ih =>
    have := token_step x hr t k (a + d) (hp _ (by omega)) (hp _ (by omega))
    have ih := ih (by omega)
    show 0 < (x.ρ (a + d + 1)).sem k
    omega

theorem blocking_of_opn {p : PC} (h : opn p = true) : blockingPc p = false := by
  unfold opn at h
  split at h <;> first | rfl | cases h

/-- a waker that owes a post on a record of the sleeper posts, and the post lands on the sleeper's semaphore -/
theorem inflight_posts (x : Exec s0) (H : FairHyps x) (t : Tid) (k : SemId) (a : Nat) (u : Tid) (r : Rid)
    (hp : ∀ a', a ≤ a' → (x.ρ a').pc t = .wPdWait k) (hrecs : ∀ a', a ≤ a' → r ∈ ((x.ρ a').fr t).recs)
    (hpost : (x.ρ a).post u = some r) : ∃ a', a ≤ a' ∧ 0 < (x.ρ a').sem k := by
  have hr := H.reach
  -- the post is made
  have hex : ∃ d, (x.ρ (a + d)).post u ≠ some r := by
    apply Classical.byContradiction
    intro hno
    have hall : ∀ d, (x.ρ (a + d)).post u = some r := fun d =>
      Classical.byContradiction (fun h => hno ⟨d, h⟩)
    have hpc : ∀ d, (x.ρ (a + d + 1)).pc u = (x.ρ (a + d)).pc u := by
      intro d
      cases hs : x.σ (a + d) with
      | none => rw [x.next_none hs]
      | some ev =>
        have hstep := x.next_some hs
        cases ev with
        | tick ns => rw [(step_tick hstep).1]
        | thr v e =>
          by_cases hv : v = u
          · subst hv; exact post_keeps_pc (x.reach hr _) (step_thr hstep) (hall d) (hall (d + 1))
          · exact (others_stepThr (step_thr hstep) u (fun h => hv h.symm)).1
    obtain ⟨j2, hj2, hm⟩ := H.weak u a (fun j' hj' => by
      obtain ⟨d, rfl⟩ : ∃ d, j' = a + d := ⟨j' - a, by omega⟩
      have hq6 := ((qinv_of_reachable (x.reach hr (a + d))).qi.q6 u (by rw [hall d]; simp)).2
      exact ⟨.inr (by rw [hall d]; simp), not_blocked_of_pc (blocking_of_opn hq6)⟩)
    obtain ⟨d, rfl⟩ : ∃ d, j2 = a + d := ⟨j2 - a, by omega⟩
    rcases hm with h | h
    · exact h (hpc d)
    · exact h (by rw [hall d]; exact hall (d + 1))
  obtain ⟨d, hd⟩ := hex
  -- the first time at which it is gone
  induction d with
  | zero => exact absurd hpost hd
  | succ d ih =>
    by_cases hd' : (x.ρ (a + d)).post u = some r
    · refine ⟨a + d + 1, by omega, ?_⟩
      cases hs : x.σ (a + d) with
      | none => rw [show a + (d + 1) = a + d + 1 by omega, x.next_none hs] at hd; exact absurd hd' hd
      | some ev =>
        have hstep := x.next_some hs
        cases ev with
        | tick ns => rw [show a + (d + 1) = a + d + 1 by omega, (step_tick hstep).1] at hd; exact absurd hd' hd
        | thr v e =>
          by_cases hv : v = u
          · subst hv
            have hra := x.reach hr (a + d)
            obtain ⟨j0, _, hpos, hbind⟩ := (sema_stepThr (step_thr hstep)).vpost r hd' hd
            have hpa := hp (a + d) (by omega)
            have hsl : inSleep ((x.ρ (a + d)).pc t) = true := by rw [hpa]; rfl
            have hil := inLoop_of_inSleep hsl (linv_of_reachable hra t)
            have hown := (own_of_reachable hra).own t r (inCall_of_inSleep hsl) hil.frees (hrecs _ (by omega))
            have hb := hbind hown.1 (by rw [hown.2]; exact hil.freed)
            rw [hown.2] at hb
            have hb3 := (sb_of_reachable (x.reach hr (a + d + 1))).b3 t k (hp _ (by omega))
            rw [hb3] at hb; cases hb
            exact hpos
          · rw [show a + (d + 1) = a + d + 1 by omega, (others_stepThr (step_thr hstep) u (fun h => hv h.symm)).2.2.1] at hd
            exact absurd hd' hd
    · exact ih hd'

/-- a signaller that has unlinked a record clears its `waiting` -/
theorem pend_clears (x : Exec s0) (H : FairHyps x) (a : Nat) (u : Tid) (c : Nat) (l : List Rid) (r : Rid)
    (hwk : wk ((x.ρ a).pc u) = some (c, l)) (hp : r ∈ pend ((x.ρ a).post u) l) :
    ∃ a', a ≤ a' ∧ ((x.ρ a').rcd r).waiting = false := by
  apply Classical.byContradiction
  intro hno
  have hall : ∀ d, ((x.ρ (a + d)).rcd r).waiting = true := fun d => by
    cases h : ((x.ρ (a + d)).rcd r).waiting with
    | true => rfl
    | false => exact absurd ⟨a + d, by omega, h⟩ hno
  have hown : ∀ d, ∃ c' l', wk ((x.ρ (a + d)).pc u) = some (c', l') ∧ r ∈ pend ((x.ρ (a + d)).post u) l' := by
    intro d
    induction d with
    | zero => exact ⟨c, l, hwk, hp⟩
    | succ d ih =>
      obtain ⟨c', l', h1, h2⟩ := ih
      rcases pend_step x h1 h2 with h | h
      · exact h
      · have := hall (d + 1); rw [show a + (d + 1) = a + d + 1 by omega, h] at this; cases this
  exact descent x H.reach H.weak u _ a rfl (fun j' hj' => by
    obtain ⟨d, rfl⟩ : ∃ d, j' = a + d := ⟨j' - a, by omega⟩
    obtain ⟨c', l', h1, _⟩ := hown d
    exact straight_of_wk h1)

end WaitN
