/-
  Layer `CvFix`, liveness, the waiter's side: one hop along the control-flow graph of the wait.
  `hop`: a thread inside the wait at a program point outside the test-and-set loop eventually takes
  an edge `WSucc` (by weak fairness at the program points of cv.c, by `AllocFair` / `MutexFair` /
  `CancelFair` at the foreign ones, and — the caller's obligation — by the end of the semaphore
  wait); `hop_spin`: a thread in the test-and-set loop of the wait gets the spinlock.
-/
import NsyncVerif.Proofs.CvFixFairWaitRec

namespace NsyncVerif.CvFix

variable {cfg : Config} {s0 : State}

/-- One time step, seen from a thread inside the wait. -/
theorem exec_wait_step (x : Exec cfg s0) {t : Tid} {j : Nat} (hw : inWait ((x.ρ j).thr t) = true) :
    ((((x.ρ (j + 1)).thr t).loc = ((x.ρ j).thr t).loc ∧
        ((x.ρ (j + 1)).thr t).cont = ((x.ρ j).thr t).cont) ∨
      WSucc ((x.ρ j).thr t) ((x.ρ (j + 1)).thr t) ((x.ρ j).recs ((x.ρ j).thr t).r).waiting
        (decide (((x.ρ j).recs ((x.ρ j).thr t).r).rc = ((x.ρ j).thr t).saved))
        ((x.ρ j).recs ((x.ρ j).thr t).r).unl) ∧
    WKeep ((x.ρ j).thr t) ((x.ρ (j + 1)).thr t) ∧
    (((x.ρ (j + 1)).thr t).loc = .idle → ∃ res, x.σ j = some (.retWait t res)) := by
  have hni := (inWait_not_misc hw).1
  cases hs : x.σ j with
  | none => rw [x.next_none hs]; exact ⟨.inl ⟨rfl, rfl⟩, wkeep_refl _, fun h => absurd h hni⟩
  | some e =>
    by_cases ht : e.tid = some t
    · obtain ⟨a, b, c⟩ := wait_step (x.next_some hs) ht hw
      refine ⟨?_, b, fun h => ?_⟩
      · rcases a with ⟨a, a', _⟩ | a
        · exact .inl ⟨a, a'⟩
        · exact .inr a
      · obtain ⟨res, hr⟩ := c h; exact ⟨res, by rw [hr]⟩
    · rw [tr_other (step_tr (x.next_some hs)) ht]
      exact ⟨.inl ⟨rfl, rfl⟩, wkeep_refl _, fun h => absurd h hni⟩

/-- What stays the same while the program point does not change. -/
def Fz (a b : Thr) : Prop :=
  b.loc = a.loc ∧ (a.loc ≠ .wNew → b.r = a.r) ∧ b.dl = a.dl ∧ b.note = a.note ∧
  (a.loc ≠ .wHead → b.exitUnl = a.exitUnl)

theorem fz_refl (a : Thr) : Fz a a := ⟨rfl, fun _ => rfl, rfl, rfl, fun _ => rfl⟩

theorem inWait_loc {a b : Thr} (h : b.loc = a.loc) (hns : a.loc.spinLoop = false)
    (hw : inWait a = true) : inWait b = true := by
  unfold inWait waitLive waitPrep at *
  rw [h]
  cases hl : a.loc <;> simp_all [Loc.spinLoop]

theorem fz_step {a b c : Thr} (h1 : Fz a b) (hk : WKeep b c) (hl : c.loc = b.loc)
    (hni : b.loc ≠ .idle) : Fz a c := by
  obtain ⟨f1, f2, f3, f4, f5⟩ := h1
  obtain ⟨k1, k2, k3, _⟩ := hk
  have hci : c.loc ≠ .idle := by rw [hl]; exact hni
  refine ⟨hl.trans f1, fun h => ?_, (k2 hci).1.trans f3, (k2 hci).2.trans f4, fun h => ?_⟩
  · rw [k1 (by rw [f1]; exact h) hci]; exact f2 h
  · rw [k3 (by rw [f1]; exact h) hci]; exact f5 h

/-- The result of a hop from time `j0`: at time `j1` the thread is still at the same program point
    (with the same record, deadline, note), and the step at `j1` takes an edge. -/
def HopAt (x : Exec cfg s0) (t : Tid) (j0 j1 : Nat) : Prop :=
  j0 ≤ j1 ∧ Fz ((x.ρ j0).thr t) ((x.ρ j1).thr t) ∧ inWait ((x.ρ j1).thr t) = true ∧
  WSucc ((x.ρ j1).thr t) ((x.ρ (j1 + 1)).thr t) ((x.ρ j1).recs ((x.ρ j1).thr t).r).waiting
    (decide (((x.ρ j1).recs ((x.ρ j1).thr t).r).rc = ((x.ρ j1).thr t).saved))
    ((x.ρ j1).recs ((x.ρ j1).thr t).r).unl ∧
  WKeep ((x.ρ j1).thr t) ((x.ρ (j1 + 1)).thr t) ∧
  (((x.ρ (j1 + 1)).thr t).loc = .idle → ∃ res, x.σ j1 = some (.retWait t res))

/-- If the program point of a thread inside the wait ever changes, the first change is an edge. -/
theorem hop_first (x : Exec cfg s0) {t : Tid} {j0 : Nat} (hw : inWait ((x.ρ j0).thr t) = true)
    (hns : ((x.ρ j0).thr t).loc.spinLoop = false)
    (hc : ∃ j', j0 ≤ j' ∧ ((x.ρ j').thr t).loc ≠ ((x.ρ j0).thr t).loc) :
    ∃ j1, HopAt x t j0 j1 := by
  obtain ⟨j', hj', hne⟩ := hc
  obtain ⟨d, rfl⟩ : ∃ d, j' = j0 + d := ⟨j' - j0, by omega⟩
  obtain ⟨j, h1, h2, h3⟩ :=
    first_not (P := fun j => ((x.ρ j).thr t).loc = ((x.ρ j0).thr t).loc) d j0 hne
  have hlt : j0 < j := by
    rcases Nat.lt_or_ge j0 j with h | h
    · exact h
    · have : j = j0 := by omega
      subst this; exact absurd rfl h2
  obtain ⟨j1, rfl⟩ : ∃ j1, j = j1 + 1 := ⟨j - 1, by omega⟩
  have key : ∀ d, j0 + d ≤ j1 →
      Fz ((x.ρ j0).thr t) ((x.ρ (j0 + d)).thr t) ∧ inWait ((x.ρ (j0 + d)).thr t) = true := by
    intro d
    induction d with
    | zero => intro _; exact ⟨fz_refl _, hw⟩
    | succ d ih =>
      intro hd
      obtain ⟨f, w⟩ := ih (by omega)
      obtain ⟨_, k, _⟩ := exec_wait_step x w
      have hl1 := h3 (j0 + d + 1) (by omega) (by omega)
      have hl0 := h3 (j0 + d) (by omega) (by omega)
      have hl : ((x.ρ (j0 + d + 1)).thr t).loc = ((x.ρ (j0 + d)).thr t).loc := hl1.trans hl0.symm
      have f' := fz_step f k hl (inWait_not_misc w).1
      exact ⟨f', inWait_loc f'.1 hns hw⟩
  obtain ⟨d1, rfl⟩ : ∃ d1, j1 = j0 + d1 := ⟨j1 - j0, by omega⟩
  obtain ⟨f, w⟩ := key d1 (Nat.le_refl _)
  obtain ⟨a, k, c⟩ := exec_wait_step x w
  refine ⟨j0 + d1, by omega, f, w, ?_, k, c⟩
  rcases a with a | a
  · exact absurd (a.1.trans f.1) h2
  · exact a

theorem ready_not_open {s : State} {t : Tid} (h : Ready s t) : (s.thr t).loc.isOpen = false := by
  obtain ⟨h1, h2, h3⟩ := h
  cases hl : (s.thr t).loc <;> simp_all [Loc.isOpen, Loc.foreign, Loc.asleep]

/-- A thread inside the wait at a program point of cv.c takes an edge. -/
theorem hop_ready (x : Exec cfg s0) (hwf : WeakFair x) {t : Tid} {j0 : Nat}
    (hw : inWait ((x.ρ j0).thr t) = true) (hr : Ready (x.ρ j0) t) : ∃ j1, HopAt x t j0 j1 := by
  obtain ⟨j1, h1, ⟨e, he, ht, hne⟩, hthr⟩ := next_move x hwf hr
  have hw1 : inWait ((x.ρ j1).thr t) = true := by rw [hthr]; exact hw
  obtain ⟨a, b, c⟩ := wait_step (x.next_some he) ht hw1
  refine ⟨j1, h1, by rw [hthr]; exact fz_refl _, hw1, ?_, b, fun h => ?_⟩
  · rcases a with ⟨_, _, a | a⟩ | a
    · exact absurd a hne
    · rw [hthr, ready_not_open hr] at a; cases a
    · exact a
  · obtain ⟨res, hres⟩ := c h; exact ⟨res, by rw [he, hres]⟩

/-- A thread inside the wait, outside the test-and-set loop, takes an edge — provided its semaphore
    wait, if it is in one, ends. -/
theorem hop (x : Exec cfg s0) (hy : WaitHyps x) {t : Tid} {j0 : Nat}
    (hw : inWait ((x.ρ j0).thr t) = true) (hns : ((x.ρ j0).thr t).loc.spinLoop = false)
    (hsl : ((x.ρ j0).thr t).loc.asleep = true →
      ∃ j', j0 ≤ j' ∧ ((x.ρ j').thr t).loc.asleep = false) :
    ∃ j1, HopAt x t j0 j1 := by
  by_cases hr : Ready (x.ρ j0) t
  · exact hop_ready x hy.weak hw hr
  · apply hop_first x hw hns
    have hni := (inWait_not_misc hw).1
    have hn4 := (inWait_not_misc hw).2.2.2.1
    by_cases hm : ((x.ρ j0).thr t).loc.inMutex = true
    · exact hy.mutex t j0 hm
    · by_cases hc : ((x.ρ j0).thr t).loc.inCancel = true
      · exact hy.cancel t j0 hc
      · by_cases ha : ((x.ρ j0).thr t).loc.asleep = true
        · obtain ⟨j', h1, h2⟩ := hsl ha
          exact ⟨j', h1, fun h => by rw [h, ha] at h2; cases h2⟩
        · by_cases hnw : ((x.ρ j0).thr t).loc = .wNew
          · obtain ⟨j', h1, h2⟩ := hy.alloc t j0 hnw
            exact ⟨j', h1, by rw [hnw]; exact h2⟩
          · exfalso; apply hr
            refine ⟨hni, ?_, by simpa using ha⟩
            cases hl : ((x.ρ j0).thr t).loc <;>
              simp_all [Loc.foreign, Loc.inMutex, Loc.inCancel, Loc.asleep]

theorem wsucc_spin {x y : Thr} {w e : Bool} {u : List Unl} (h : WSucc x y w e u)
    (hs : x.loc.spinLoop = true) :
    (y.loc.spinLoop = true ∧ y.cont = x.cont) ∨ (x.cont = .waitEnq ∧ y.loc = .wEnq) ∨
    (x.cont = .waitChk ∧ y.loc = .wChk2) := by
  unfold WSucc at h
  cases hl : x.loc <;> simp_all [Loc.spinLoop]

theorem inWait_spin {a b : Thr} (ha : inWait a = true) (hsa : a.loc.spinLoop = true)
    (hsb : b.loc.spinLoop = true) (hc : b.cont = a.cont) : inWait b = true := by
  unfold inWait waitLive waitPrep at *
  cases hla : a.loc <;> cases hlb : b.loc <;> simp_all [Loc.spinLoop]

/-- A thread in the test-and-set loop of the wait gets the spinlock. -/
theorem hop_spin (x : Exec cfg s0) (hy : Hyps x) {t : Tid} {j0 : Nat}
    (hw : inWait ((x.ρ j0).thr t) = true) (hsp : ((x.ρ j0).thr t).loc.spinLoop = true) :
    ∃ j2, j0 ≤ j2 ∧ inWait ((x.ρ j2).thr t) = true ∧
      ((x.ρ j2).thr t).r = ((x.ρ j0).thr t).r ∧ ((x.ρ j2).thr t).dl = ((x.ρ j0).thr t).dl ∧
      ((x.ρ j2).thr t).note = ((x.ρ j0).thr t).note ∧
      (((x.ρ j0).thr t).semOut ≠ .ok → ((x.ρ j2).thr t).semOut = ((x.ρ j0).thr t).semOut) ∧
      ((((x.ρ j0).thr t).cont = .waitEnq ∧ ((x.ρ j2).thr t).loc = .wEnq) ∨
       (((x.ρ j0).thr t).cont = .waitChk ∧ ((x.ρ j2).thr t).loc = .wChk2)) := by
  generalize ha : (x.ρ j0).thr t = a at *
  -- invariant of the loop / goal
  have stepP : ∀ j, (inWait ((x.ρ j).thr t) = true ∧ ((x.ρ j).thr t).loc.spinLoop = true ∧
        ((x.ρ j).thr t).cont = a.cont ∧ ((x.ρ j).thr t).r = a.r ∧ ((x.ρ j).thr t).dl = a.dl ∧
        ((x.ρ j).thr t).note = a.note ∧ (a.semOut ≠ .ok → ((x.ρ j).thr t).semOut = a.semOut)) →
      (inWait ((x.ρ (j + 1)).thr t) = true ∧ ((x.ρ (j + 1)).thr t).r = a.r ∧
        ((x.ρ (j + 1)).thr t).dl = a.dl ∧ ((x.ρ (j + 1)).thr t).note = a.note ∧
        (a.semOut ≠ .ok → ((x.ρ (j + 1)).thr t).semOut = a.semOut)) ∧
      ((((x.ρ (j + 1)).thr t).loc.spinLoop = true ∧ ((x.ρ (j + 1)).thr t).cont = a.cont) ∨
        (a.cont = .waitEnq ∧ ((x.ρ (j + 1)).thr t).loc = .wEnq) ∨
        (a.cont = .waitChk ∧ ((x.ρ (j + 1)).thr t).loc = .wChk2)) := by
    intro j ⟨p1, p2, p3, p4, p5, p6, p7⟩
    by_cases hm : Moves x t j
    · obtain ⟨e, he, ht, hne⟩ := hm
      obtain ⟨u, k, _⟩ := wait_step (x.next_some he) ht p1
      have hop : ((x.ρ j).thr t).loc.isOpen = false := ready_not_open (spin_ready p2)
      have hs := u.resolve_left (by
        rintro ⟨_, _, h | h⟩
        · exact hne h
        · rw [hop] at h; cases h)
      have h3 := wsucc_spin hs p2
      rw [p3] at h3
      have hni : ((x.ρ (j + 1)).thr t).loc ≠ .idle := by
        rcases h3 with ⟨h, _⟩ | ⟨_, h⟩ | ⟨_, h⟩
        · intro h'; rw [h'] at h; cases h
        · rw [h]; simp
        · rw [h]; simp
      have hnw : ((x.ρ j).thr t).loc ≠ .wNew := by intro h; rw [h] at p2; cases p2
      obtain ⟨k1, k2, _, k4⟩ := k
      have hw' : inWait ((x.ρ (j + 1)).thr t) = true := by
        rcases h3 with ⟨h, hc⟩ | ⟨_, h⟩ | ⟨_, h⟩
        · exact inWait_spin p1 p2 h (hc.trans p3.symm)
        · simp [inWait, waitLive, h]
        · simp [inWait, waitLive, h]
      refine ⟨⟨hw', (k1 hnw hni).trans p4, (k2 hni).1.trans p5, (k2 hni).2.trans p6, fun hso => ?_⟩, h3⟩
      have := p7 hso
      rw [← this]
      exact k4 (by rw [this]; exact hso) (by intro h; rw [h] at p2; cases p2)
        (by intro h; rw [h] at p2; cases p2) (by intro h; rw [h] at p2; cases p2) hni
    · have := frozen x hm (spin_ready p2)
      rw [this]
      exact ⟨⟨p1, p4, p5, p6, p7⟩, .inl ⟨p2, p3⟩⟩
  obtain ⟨j', hj', hns⟩ := spin_exits x hy.reach hy.weak hy.spin t j0
  obtain ⟨d, rfl⟩ : ∃ d, j' = j0 + d := ⟨j' - j0, by omega⟩
  have key : ∀ d, (∃ j2, j0 ≤ j2 ∧ inWait ((x.ρ j2).thr t) = true ∧ ((x.ρ j2).thr t).r = a.r ∧
        ((x.ρ j2).thr t).dl = a.dl ∧ ((x.ρ j2).thr t).note = a.note ∧
        (a.semOut ≠ .ok → ((x.ρ j2).thr t).semOut = a.semOut) ∧
        ((a.cont = .waitEnq ∧ ((x.ρ j2).thr t).loc = .wEnq) ∨
         (a.cont = .waitChk ∧ ((x.ρ j2).thr t).loc = .wChk2))) ∨
      (inWait ((x.ρ (j0 + d)).thr t) = true ∧ ((x.ρ (j0 + d)).thr t).loc.spinLoop = true ∧
        ((x.ρ (j0 + d)).thr t).cont = a.cont ∧ ((x.ρ (j0 + d)).thr t).r = a.r ∧
        ((x.ρ (j0 + d)).thr t).dl = a.dl ∧ ((x.ρ (j0 + d)).thr t).note = a.note ∧
        (a.semOut ≠ .ok → ((x.ρ (j0 + d)).thr t).semOut = a.semOut)) := by
    intro d
    induction d with
    | zero => right; rw [Nat.add_zero, ha]; exact ⟨hw, hsp, rfl, rfl, rfl, rfl, fun _ => rfl⟩
    | succ d ih =>
      rcases ih with h | h
      · exact .inl h
      · obtain ⟨⟨q1, q2, q3, q4, q5⟩, q6⟩ := stepP (j0 + d) h
        rcases q6 with ⟨q6, q7⟩ | q6
        · right; rw [show j0 + (d + 1) = j0 + d + 1 by omega]; exact ⟨q1, q6, q7, q2, q3, q4, q5⟩
        · left; exact ⟨j0 + d + 1, by omega, q1, q2, q3, q4, q5, q6⟩
  rcases key d with h | ⟨_, h, _⟩
  · exact h
  · rw [h] at hns; cases hns

end NsyncVerif.CvFix
