import NsyncVerif.Proofs.MuCInv9Reach
/-
  MuC: facts about the locals of nsync_mu_wait_with_deadline between the evaluation that found the
  condition false and the release (the condition is still false; `had_waiters` clear means the queue
  holds nothing but the caller's record), and about `set_on_release & MU_WRITER_WAITING` of the scan.
-/
namespace NsyncVerif.MuC

/-- From the false evaluation (mu_wait.c:170/265) to the release CAS (mu_wait.c:229). -/
def PC.mwPre : PC → Option MW
  | .mwStW c | .mwRcLd c | .mwEnqLd c | .mwEnqCas c _ | .mwRelLd c | .mwRelCas c _ _ => some c
  | _ => none

/-- Between the enqueue CAS and the release CAS: the spinlock is held. -/
def PC.mwRel : PC → Option MW
  | .mwRelLd c | .mwRelCas c _ _ => some c
  | _ => none

/-- A writer the scan has passed over although it could have run (mu.c:382-385): it has no condition, or
    the unlocker holds the writer bit and found its condition true. -/
def PassedW (s : State) (late : Bool) (k : Wid) : Prop :=
  (s.wr k).lType = .W ∧ ((s.wr k).cond = none ∨ (late = true ∧ ∃ c, (s.wr k).cond = some c ∧ evalCond s.data c = true))

structure Inv10 (s : State) : Prop where
  pcf : ∀ t c, (s.pc t).mwPre = some c → evalOpt s.data c.cond = false
  prel : ∀ t c k, (s.pc t).mwRel = some c → c.w = some k → c.hadW = false → ∀ x, Queued s x → x = k
  sww : ∀ t sc, (s.pc t).scan? = some sc → sc.sww = true → ∃ k, k ∈ sc.done ++ sc.passed ∧ PassedW s sc.late k
  swf : ∀ t f, (s.pc t).finOf = some f → f.sww = true → ∃ k, k ∈ s.queue ∧ PassedW s f.late k

theorem mwPre_share {p : PC} {c : MW} (h : p.mwPre = some c) : pcShare p = some c.l := by
  cases p <;> simp [PC.mwPre] at h <;> subst h <;> rfl

theorem mwRel_spin {p : PC} {c : MW} (h : p.mwRel = some c) : p.spin = true := by
  cases p <;> simp [PC.mwRel] at h <;> rfl

theorem PassedW.congr {s s' : State} {late : Bool} {k : Wid} (hl : (s'.wr k).lType = (s.wr k).lType)
    (hc : (s'.wr k).cond = (s.wr k).cond) (hd : s'.data = s.data) (h : PassedW s late k) : PassedW s' late k := by
  unfold PassedW at h ⊢
  rw [hl, hc, hd]; exact h

/-- A step of `t` that leaves lists, records and data alone. -/
theorem Inv10.local {s s' : State} (t : Tid) (h : Inv10 s)
    (hQ : ∀ k, Queued s' k → Queued s k) (hq : s'.queue = s.queue)
    (hwr : ∀ x, (s'.wr x).lType = (s.wr x).lType ∧ (s'.wr x).cond = (s.wr x).cond)
    (hd : s'.data = s.data)
    (hpc : ∀ u, u ≠ t → s'.pc u = s.pc u)
    (hpre : ∀ c, (s'.pc t).mwPre = some c → (∃ c0, (s.pc t).mwPre = some c0 ∧ c.cond = c0.cond) ∨ evalOpt s.data c.cond = false)
    (hrel : ∀ c, (s'.pc t).mwRel = some c → ∃ c0, (s.pc t).mwRel = some c0 ∧ c.w = c0.w ∧ c.hadW = c0.hadW)
    (hsc : ∀ sc, (s'.pc t).scan? = some sc → (s.pc t).scan? = some sc)
    (hfin : ∀ f, (s'.pc t).finOf = some f → (s.pc t).finOf = some f) : Inv10 s' := by
  refine ⟨?_, ?_, ?_, ?_⟩
  · intro u c hu
    rw [hd]
    by_cases e : u = t
    · subst e
      rcases hpre c hu with ⟨c0, h0, e0⟩ | a
      · rw [e0]; exact h.pcf u c0 h0
      · exact a
    · rw [hpc u e] at hu; exact h.pcf u c hu
  · intro u c k hu hk hh x hx
    by_cases e : u = t
    · subst e
      obtain ⟨c0, h0, e1, e2⟩ := hrel c hu
      exact h.prel u c0 k h0 (by rw [← e1]; exact hk) (by rw [← e2]; exact hh) x (hQ x hx)
    · rw [hpc u e] at hu; exact h.prel u c k hu hk hh x (hQ x hx)
  · intro u sc hu hs
    have hu' : (s.pc u).scan? = some sc := by
      by_cases e : u = t
      · subst e; exact hsc sc hu
      · rw [← hpc u e]; exact hu
    obtain ⟨k, hk, hp⟩ := h.sww u sc hu' hs
    exact ⟨k, hk, hp.congr (hwr k).1 (hwr k).2 hd⟩
  · intro u f hu hs
    have hu' : (s.pc u).finOf = some f := by
      by_cases e : u = t
      · subst e; exact hfin f hu
      · rw [← hpc u e]; exact hu
    obtain ⟨k, hk, hp⟩ := h.swf u f hu' hs
    exact ⟨k, by rw [hq]; exact hk, hp.congr (hwr k).1 (hwr k).2 hd⟩

theorem inv10_init : Inv10 init := by
  refine ⟨?_, ?_, ?_, ?_⟩
  · intro t c hc; simp [init, PC.mwPre] at hc
  · intro t c k hc; simp [init, PC.mwRel] at hc
  · intro t sc hs; simp [init, PC.scan?] at hs
  · intro t f hf; simp [init, PC.finOf] at hf

end NsyncVerif.MuC
