import NsyncVerif.Proofs.MuCInv1Cas1
/-
  MuC, first invariant group: the CAS steps of unlock_slow.
-/
namespace NsyncVerif.MuC

theorem ScanPc.share {r : Ret} {late : Bool} {p : PC} (h : ScanPc r late p) :
    pcShare p = if late then some .W else none := by
  cases p <;> simp [ScanPc] at h <;> simp [pcShare, h]

theorem ScanPc.pcok {r : Ret} {late : Bool} {p : PC} (h : ScanPc r late p) (hr : r.ok) : p.ok := by
  cases p <;> simp [ScanPc] at h <;> simp [PC.ok] <;> simp_all

theorem ScanPc.ne_idle {r : Ret} {late : Bool} {p : PC} (h : ScanPc r late p) : p ≠ .idle := by
  cases p <;> simp [ScanPc] at h <;> simp

/-- A step of thread `t` that ends in the plain code of the scan. -/
theorem Inv1.scan_step {s s' : State} {r : Ret} {late : Bool} (t : Tid) (h : Inv1 s) (hni : s.pc t ≠ .idle)
    (hr : r.ok) (hh : s'.held = s.held) (hpc : ∀ u, u ≠ t → s'.pc u = s.pc u)
    (hp : ScanPc r late (s'.pc t)) (hlock : LockInv s') : Inv1 s' :=
  Inv1.step t h hh hpc hni (hp.pcok hr) hlock

/-- the same, when lock bits and ghosts are unchanged -/
theorem Inv1.scan_same {s s' : State} {r : Ret} {late : Bool} (t : Tid) (h : Inv1 s) (hni : s.pc t ≠ .idle)
    (hr : r.ok) (hsh : pcShare (s.pc t) = if late then some .W else none)
    (hw : s'.word.wlock = s.word.wlock) (hrd : s'.word.readers = s.word.readers)
    (ho : s'.wOwner = s.wOwner) (hro : s'.rOwners = s.rOwners)
    (hh : s'.held = s.held) (hpc : ∀ u, u ≠ t → s'.pc u = s.pc u)
    (hp : ScanPc r late (s'.pc t)) : Inv1 s' :=
  Inv1.local t h hw hrd ho hro hh hpc hni (hp.pcok hr) (by rw [hp.share, hsh])

theorem setFn_pc_other {s : State} {pc' : Tid → PC} {t : Tid} {p : PC} (h : pc' = setFn s.pc t p) :
    ∀ u, u ≠ t → pc' u = s.pc u := by
  intro u hu; rw [h]; simp [setFn, hu]

theorem inv1_stepCas2 {s s' : State} {t : Tid} {o : Ord} {loc : Loc} {exp new obs : Nat} {ok : Bool} (h : Inv1 s)
    (hp : match s.pc t with
      | .usCasUnc _ _ | .usRelCas _ _ _ | .usReCas _ _ _ | .usRcCas _ _ _ _ | .usFinCas _ _ _ => True
      | _ => False)
    (hs : stepCas s t o loc exp new obs ok = .ok s') : Inv1 s' := by
  unfold stepCas at hs
  split at hs
  all_goals try (rename_i heq; rw [heq] at hp; exact False.elim hp)
  all_goals try (rename_i hne; split at hp <;> first | exact False.elim hp | (exfalso; simp_all; done))
  · -- usCasUnc
    rename_i r old heq
    rcases casWord_ok hs with ⟨hw, -, rfl⟩ | ⟨-, -, rfl⟩
    · inv1_step t h heq
      refine h.lock.release (l := r.mode) (by sh_old t h heq) ?_ ?_
        (by cases r.mode <;> simp) (by cases r.mode <;> simp) (by sh_new t h heq) (by sh_oth)
      · simp [hw]; cases r.mode <;> rfl
      · simp [hw]; cases r.mode <;> rfl
    · inv1_local t h heq
  · -- usRelCas
    rename_i r sc old heq
    have hok0 := h.pcok t; rw [heq] at hok0
    rcases casWordE_ok hs with ⟨hw, -, hs⟩ | ⟨-, -, rfl⟩
    · obtain ⟨hf, p, hpc, hsc⟩ := scanRun_frame _ _ t r sc s' hs hok0.2
      refine Inv1.scan_same (late := sc.late) t h (by rw [heq]; simp) hok0.1 (by rw [heq]; rfl)
        (by rw [hf.word, hw]) (by rw [hf.word, hw]) hf.wOwner hf.rOwners hf.held (setFn_pc_other hpc) ?_
      rw [hpc]; simpa using hsc
    · inv1_local t h heq
  · -- usReCas
    rename_i r sc old heq
    have hok0 := h.pcok t; rw [heq] at hok0
    rcases casWordE_ok hs with ⟨hw, -, hs⟩ | ⟨-, -, rfl⟩
    · obtain ⟨hf, p, hpc, hsc⟩ := afterPickup_frame hs hok0.2
      refine Inv1.scan_same (late := sc.late) t h (by rw [heq]; simp) hok0.1 (by rw [heq]; rfl)
        (by rw [hf.word, hw]) (by rw [hf.word, hw]) hf.wOwner hf.rOwners hf.held (setFn_pc_other hpc) ?_
      rw [hpc]; simpa using hsc
    · inv1_local t h heq
  · -- usRcCas
    rename_i r sc k old heq
    have hok0 := h.pcok t; rw [heq] at hok0
    repeat' split at hs
    all_goals first
      | (cases hs; done)
      | skip
    · obtain ⟨hf, p, hpc, hsc⟩ := scanRun_frame _ _ t r sc s' hs hok0.2
      refine Inv1.scan_same (late := sc.late) t h (by rw [heq]; simp) hok0.1 (by rw [heq]; rfl)
        (by rw [hf.word]) (by rw [hf.word]) hf.wOwner hf.rOwners hf.held (setFn_pc_other hpc) ?_
      rw [hpc]; simpa using hsc
    · cases hs; inv1_local t h heq
  · -- usFinCas
    rename_i r f old heq
    have hok0 := h.pcok t; rw [heq] at hok0
    rcases casWord_ok hs with ⟨hw, -, rfl⟩ | ⟨-, -, rfl⟩
    · rw [afterFin_eq]
      cases hl : f.late with
      | false =>
        simp only [hl]
        refine Inv1.local t h (by simp [hw, finWord, hl]) (by simp [hw, finWord]) (by simp) (by simp) (by simp)
          (by intro u hu; simp [setFn, hu]) (by rw [heq]; simp) ?_ ?_
        · simp only [setPc_pc, setFn_same]; cases f.wake <;> (simp [finPc, PC.ok]; try cases r <;> simp_all [Ret.pc, PC.ok, Ret.ok, MW.inner])
        · simp only [setPc_pc, setFn_same, heq]; cases f.wake <;> (simp [finPc, pcShare, hl]; try cases r <;> simp_all [Ret.pc, pcShare, PC.ok, Ret.ok, MW.inner])
      | true =>
        simp only [hl]
        refine Inv1.step t h (by simp) (by intro u hu; simp [setFn, hu]) (by rw [heq]; simp) ?_ ?_
        · simp only [setPc_pc, setFn_same]; cases f.wake <;> (simp [finPc, PC.ok]; try cases r <;> simp_all [Ret.pc, PC.ok, Ret.ok, MW.inner])
        · have hsh : shareOf s t = some .W := by rw [h.share_eq (by rw [heq]; simp), heq]; simp [pcShare, hl]
          have hheld := h.held_none (t := t) (by rw [heq]; simp)
          refine h.lock.releaseW hsh (by simp [finWord, hl]) (by simp [hw, finWord]) (by simp) (by simp) ?_ (by sh_oth)
          simp only [shareOf, setPc_held, hheld, tshare, setPc_pc, setFn_same]
          cases f.wake <;> (simp [finPc, pcShare]; try cases r <;> simp_all [Ret.pc, pcShare, PC.ok, Ret.ok, MW.inner])
    · inv1_local t h heq

end NsyncVerif.MuC
