/-
  Proofs/CounterStepN.lean — invariant preservation, program points that bind / release a record.
-/
import NsyncVerif.Proofs.CounterStepBase
namespace Counter
variable {s s' : State} {t : Tid} {e : Ev}

theorem inv_aPost {d r idx k} (hi : Inv s) (hpc : s.pc t = .aPost d r idx k) (h : stepThr s t e = .ok s') : Inv s' := by
  step_open
  all_goals rename_i hb
  all_goals rcases bind_eq hb with ⟨hb1, hb2⟩ | ⟨hb1, hb2, hb3⟩
  all_goals subst_vars
  all_goals first | (show ShInv _; shinv_tac) | (show pcInv _ _ _; pcinv_tac) | (show ∀ u, _; rely_tac)

theorem inv_wPdEnter {dl k} (hi : Inv s) (hpc : s.pc t = .wPdEnter dl k) (h : stepThr s t e = .ok s') : Inv s' := by
  step_open
  all_goals rename_i hb
  all_goals rcases bind_eq hb with ⟨hb1, hb2⟩ | ⟨hb1, hb2, hb3⟩
  all_goals subst_vars
  all_goals first | (show ShInv _; shinv_tac) | (show pcInv _ _ _; pcinv_tac) | (show ∀ u, _; rely_tac)

theorem inv_wDeqUnlockWait {dl k tmo v} (hi : Inv s) (hpc : s.pc t = .wDeqUnlockWait dl k tmo v)
    (h : stepThr s t e = .ok s') : Inv s' := by
  have hp := hi.pcs t; rw [hpc] at hp
  have hs := hi.sh
  simp only [stepThr, hpc] at h
  split at h
  · cases h
    simp only [pcInv, pcFacts, holds] at hp
    apply inv_mk' hi
    all_goals simp only [Shared.release]
    all_goals split
    all_goals try split
    all_goals first | (show ShInv _; shinv_tac) | (show pcInv _ _ _; pcinv_tac) | (show ∀ u, _; rely_tac)
  · exact inv_dflt hi h

end Counter
