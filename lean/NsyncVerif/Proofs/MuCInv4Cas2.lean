import NsyncVerif.Proofs.MuCInv4Scan
/-
  MuC (I_queue): the CAS steps of unlock_slow that run the scan, the enqueue CAS of mu_wait, the
  acquiring CAS of lock_slow (which may release the waiter record), the final CAS of unlock_slow.
-/
namespace NsyncVerif.MuC

/-- An unlocker between grab and final CAS owns the writer bit or the spinlock. -/
theorem unl_cases {s : State} (h1 : Inv1 s) (h3 : Inv3 s) {u : Tid} (hu : (s.pc u).unl = true) :
    shareOf s u = some .W ∨ s.word.spin = true := by
  have hok := h1.pcok u
  have hok3 := h3.ok3 u
  have hse := h1.share_eq (t := u)
  have hspin : (s.pc u).spin = true → s.word.spin = true := fun e => by
    rw [h3.bit, (h3.own u).2 e]; rfl
  have key : ∀ sc' : Scan, pcShare (s.pc u) = (if sc'.late then some .W else none) → sc'.ok →
      ((s.pc u).spin = !sc'.tc ∨ (s.pc u).spin = true ∨ sc'.tc = true) → s.pc u ≠ .idle →
      shareOf s u = some .W ∨ s.word.spin = true := by
    intro sc' h1' h2 h3' h4
    have hs := hse h4
    rw [h1'] at hs
    cases hl : sc'.late with
    | true => rw [hl] at hs; exact Or.inl (by simpa using hs)
    | false =>
      have htc : sc'.tc = false := by
        cases ht : sc'.tc with
        | false => rfl
        | true => have := h2 ht; rw [hl] at this; cases this
      rcases h3' with h3' | h3' | h3'
      · rw [htc] at h3'; exact Or.inr (hspin h3')
      · exact Or.inr (hspin h3')
      · rw [htc] at h3'; cases h3'
  cases hpc : s.pc u <;> rw [hpc] at hu <;> simp [PC.unl] at hu <;> rw [hpc] at hok hok3 key hspin
  case usRelLd r sc0 => exact key sc0 rfl hok.2 (Or.inr (Or.inl rfl)) (by simp)
  case usRelCas r sc0 old => exact key sc0 rfl hok.2 (Or.inr (Or.inl rfl)) (by simp)
  case usEval r sc0 => exact key sc0 rfl hok.2.1 (Or.inr (Or.inr hok.2.2.1)) (by simp)
  case usRcLd r sc0 k => exact key sc0 rfl hok.2 (Or.inl rfl) (by simp)
  case usRcCas r sc0 k old => exact key sc0 rfl hok.2 (Or.inl rfl) (by simp)
  case usReLd r sc0 => exact key sc0 rfl hok.2 (Or.inr (Or.inr hok3)) (by simp)
  case usReCas r sc0 old => exact key sc0 rfl hok.2 (Or.inr (Or.inr hok3.2)) (by simp)
  case usFinLd r f => exact Or.inr (hspin rfl)
  case usFinCas r f old => exact Or.inr (hspin rfl)

/-- When a thread that owns a share finds the spinlock free, nobody is between grab and final CAS. -/
theorem no_unl_at_grab {s : State} (h1 : Inv1 s) (h3 : Inv3 s) {t : Tid} (ht : shareOf s t ≠ none)
    (hsp : s.word.spin = false) (u : Tid) (hu : u ≠ t) : (s.pc u).unl = false := by
  cases hunl : (s.pc u).unl with
  | false => rfl
  | true =>
    rcases unl_cases h1 h3 hunl with e | e
    · exact absurd (h1.lock.writer_alone e ht).symm hu
    · rw [hsp] at e; cases e

theorem inv4_stepCasA {s s' : State} {t : Tid} {o : Ord} {loc : Loc} {exp new obs : Nat} {ok : Bool}
    (h1 : Inv1 s) (h3 : Inv3 s) (h : Inv4 s)
    (hp : match s.pc t with
      | .usCasGrab _ _ | .usRelCas _ _ _ | .usReCas _ _ _ | .usRcCas _ _ _ _ => True
      | _ => False)
    (hs : stepCas s t o loc exp new obs ok = .ok s') : Inv4 s' := by
  unfold stepCas at hs
  split at hs
  all_goals try (rename_i heq; rw [heq] at hp; exact False.elim hp)
  all_goals try (rename_i hne; split at hp <;> first | exact False.elim hp | (exfalso; simp_all; done))
  · -- usCasGrab
    rename_i r old heq
    have hok3 := h3.ok3 t; rw [heq] at hok3
    rcases casWordE_ok hs with ⟨hw, -, hs⟩ | ⟨-, -, rfl⟩
    · have hsc0 : Scan.ok { late := old.cond, tc := old.cond, done := [], passed := [], todo := [], wake := [], wt := none,
                            sww := false, saf := true } := fun h => h
      obtain ⟨hf, p, hpc, hsc⟩ := afterPickup_frame hs hsc0
      obtain ⟨hlo, hperm⟩ := afterPickup_lists hs
      have hfq := afterPickup_finq hs
      have hpt : ScanPc r old.cond (s'.pc t) := by rw [hpc]; simpa using hsc
      have hsh : shareOf s t ≠ none := by
        rw [h1.share_eq (by rw [heq]; simp), heq]; simp [pcShare]
      refine Inv4.scan_step t h (fun x => by have := hlo x; simp at this; exact ⟨this.1, this.2.1⟩)
        (by intro u hu; rw [hpc]; simp [setFn, hu]) ?_
        (no_unl_at_grab h1 h3 hsh (by rw [hw]; exact hok3)) ?_ (scanPc_limbo hpt) hfq
      · refine hperm.trans ?_
        simp [allOf, heq, PC.priv, PC.scan?, PC.wakeL, Scan.lists]
      · intro k hk; rw [scanPc_ws hpt] at hk; rw [heq]; exact hk
    · inv4_local t h heq
  · -- usRelCas
    rename_i r sc old heq
    have hok1 := h1.pcok t; rw [heq] at hok1
    rcases casWordE_ok hs with ⟨hw, -, hs⟩ | ⟨-, -, rfl⟩
    · obtain ⟨hf, p, hpc, hsc⟩ := scanRun_frame _ _ t r sc s' hs hok1.2
      obtain ⟨hlo, hperm⟩ := scanRun_lists _ _ t r sc s' hs
      have hfq := scanRun_finq _ _ t r sc s' hs
      have hpt : ScanPc r sc.late (s'.pc t) := by rw [hpc]; simpa using hsc
      refine Inv4.scan_step t h (fun x => ⟨(hlo x).1, (hlo x).2.1⟩) (by intro u hu; rw [hpc]; simp [setFn, hu]) ?_
        ?_ ?_ (scanPc_limbo hpt) hfq
      · refine hperm.trans ?_
        simp [allOf, heq, PC.priv, PC.scan?, PC.wakeL]
      · intro u hu
        cases e : (s.pc u).unl with
        | false => rfl
        | true => exact absurd (h.uniq u t e (by rw [heq]; rfl)) hu
      · intro k hk; rw [scanPc_ws hpt] at hk; rw [heq]; exact hk
    · inv4_local t h heq
  · -- usReCas
    rename_i r sc old heq
    have hok1 := h1.pcok t; rw [heq] at hok1
    rcases casWordE_ok hs with ⟨hw, -, hs⟩ | ⟨-, -, rfl⟩
    · obtain ⟨hf, p, hpc, hsc⟩ := afterPickup_frame hs hok1.2
      obtain ⟨hlo, hperm⟩ := afterPickup_lists hs
      have hfq := afterPickup_finq hs
      have hpt : ScanPc r sc.late (s'.pc t) := by rw [hpc]; simpa using hsc
      refine Inv4.scan_step t h (fun x => ⟨(hlo x).1, (hlo x).2.1⟩) (by intro u hu; rw [hpc]; simp [setFn, hu]) ?_
        ?_ ?_ (scanPc_limbo hpt) hfq
      · refine hperm.trans ?_
        simp [allOf, heq, PC.priv, PC.scan?, PC.wakeL]
      · intro u hu
        cases e : (s.pc u).unl with
        | false => rfl
        | true => exact absurd (h.uniq u t e (by rw [heq]; rfl)) hu
      · intro k hk; rw [scanPc_ws hpt] at hk; rw [heq]; exact hk
    · inv4_local t h heq
  · -- usRcCas
    rename_i r sc k old heq
    have hok1 := h1.pcok t; rw [heq] at hok1
    repeat' split at hs
    all_goals first
      | (cases hs; done)
      | skip
    · obtain ⟨hf, p, hpc, hsc⟩ := scanRun_frame _ _ t r sc s' hs hok1.2
      obtain ⟨hlo, hperm⟩ := scanRun_lists _ _ t r sc s' hs
      have hfq := scanRun_finq _ _ t r sc s' hs
      have hpt : ScanPc r sc.late (s'.pc t) := by rw [hpc]; simpa using hsc
      refine Inv4.scan_step t h ?_ (by intro u hu; rw [hpc]; simp [setFn, hu]) ?_
        ?_ ?_ (scanPc_limbo hpt) hfq
      · intro x
        have := hlo x
        simp only [setFn] at this
        constructor
        · rw [this.1]; split <;> simp_all
        · rw [this.2.1]; split <;> simp_all
      · refine hperm.trans ?_
        simp [allOf, heq, PC.priv, PC.scan?, PC.wakeL]
      · intro u hu
        cases e : (s.pc u).unl with
        | false => rfl
        | true => exact absurd (h.uniq u t e (by rw [heq]; rfl)) hu
      · intro k hk; rw [scanPc_ws hpt] at hk; rw [heq]; exact hk
    · cases hs; inv4_local t h heq

end NsyncVerif.MuC
