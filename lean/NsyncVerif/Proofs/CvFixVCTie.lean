/-
  Layer `CvFix` × vector clocks: the order table `siteOrd` agrees with the site tables of the
  replay driver (`Model/CvFixDriver.lean`: `wordSite`, `recSite`, `muSite`), i.e. with what decides
  which log line becomes which model event.  For every model site: the log line of its code site
  (file, ordinal, function, kind of operation) WITH the order `siteOrd` declares is mapped to that
  model site, and with any other order it is rejected.  So an accepted log contains, at every
  site, exactly the order that the clock machine of `Proofs/CvFixVC.lean` uses.  Kernel-checked.
-/
import NsyncVerif.Proofs.CvFixVC
import NsyncVerif.Model.CvFixDriver

namespace NsyncVerif.CvFix
open NsyncVerif

def allOrds : List VC.Ord := [.rlx, .acq, .rel, .ar]

def WSite.all : List WSite :=
  [.spin0, .spin2, .waitRel, .waitRel2, .sigLd, .sigRel, .bcLd, .bcRel, .enqRel, .deqRel, .dbgLd, .dbgRel]

def RSite.all : List RSite :=
  [.wSt1, .wRc, .wHead, .wChk, .wChk2, .wCmp, .wRmLd, .wRmCas, .wClr, .wTail,
   .sRcLd true, .sRcLd false, .sRcCas true, .sRcCas false, .bRcLd, .bRcCas,
   .wake, .ready, .enqSt, .deqLd, .deqSt, .deqSpin, .dbgW, .dbgRc]

def MSite.all : List MSite := [.wMode, .wwLd, .wwCas, .wwRelLd, .wwRelCas, .wwRelLd2]

theorem WSite.mem_all (s : WSite) : s ∈ WSite.all := by cases s <;> simp [WSite.all]
theorem RSite.mem_all (s : RSite) : s ∈ RSite.all := by
  cases s <;> first | simp [RSite.all] | (rename_i b; cases b <;> simp [RSite.all])
theorem MSite.mem_all (s : MSite) : s ∈ MSite.all := by cases s <;> simp [MSite.all]

/-- The log line of code site `s` with order `o`. -/
def atmOf (s : Site) (o : VC.Ord) : Driver.Atm :=
  ⟨s.file, s.k, s.fn, s.op, ordStr o, "", none, none, none, none⟩

/-- cv word sites: accepted with the declared order and mapped to the model site; rejected with
    any other order. -/
theorem wordSite_tie :
    (WSite.all.all fun ws => allOrds.all fun o =>
      decide (Driver.wordSite (atmOf (wSite ws) o) =
        if o = siteOrd (wSite ws) then some (some ws) else none)) = true := by decide

/-- the spinlock CAS (common.c/1) -/
theorem wordCas_tie :
    (allOrds.all fun o =>
      decide (Driver.wordSite (atmOf .common1 o) = if o = siteOrd .common1 then some none else none)) = true := by
  decide

/-- record-field sites -/
theorem recSite_tie :
    (RSite.all.all fun rs => allOrds.all fun o =>
      decide (Driver.recSite (atmOf (rSite rs) o) =
        if o = siteOrd (rSite rs) then some rs else none)) = true := by decide

/-- mutex-word sites of cv.c -/
theorem muSite_tie :
    (MSite.all.all fun ms => allOrds.all fun o =>
      decide (Driver.muSite (atmOf (mSite ms) o) =
        if o = siteOrd (mSite ms) then some ms else none)) = true := by decide

/-- `Site.name` is `<file>/<k>/<function>`, the site token of the event log. -/
theorem site_names : Site.all.all (fun s => decide (s.name = s.file ++ "/" ++ toString s.k ++ "/" ++ s.fn)) = true := by
  decide

end NsyncVerif.CvFix
