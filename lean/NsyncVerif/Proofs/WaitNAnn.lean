/-
  Proofs/WaitNAnn.lean — the lock annotations of the caller's own mutex are accepted only at the two
  program points of wait.c that call (*unlock) (mu) and (*lock) (mu); and a witness extractor for the
  concrete traces of the Props files.
-/
import NsyncVerif.Proofs.WaitNDeath

set_option linter.unusedSimpArgs false
set_option linter.unusedVariables false

namespace WaitN

def isAnn (e : Ev) (m : MuId) : Prop := e = .annRel m ∨ e = .annAcq m

theorem dflt_ann {s s' : State} {t : Tid} {e : Ev} {m : MuId} (he : isAnn e m) (hc : inCall (s.pc t) = true)
    (hm : (s.fr t).mu = some m) : dflt s t e = .ok s' → False := by
  intro h
  rcases he with rfl | rfl <;> simp [dflt, hc, hm] at h

theorem proto_ann {s s' : State} {t : Tid} {e : Ev} {m : MuId} (he : isAnn e m) (hc : inCall (s.pc t) = true)
    (hm : (s.fr t).mu = some m) : proto s t e = .ok s' → False := by
  intro h
  rcases he with rfl | rfl <;> (simp only [proto] at h; exact dflt_ann (by first | exact .inl rfl | exact .inr rfl) hc hm h)

theorem stepOpen_ann {s s' : State} {t : Tid} {e : Ev} {m : MuId} (he : isAnn e m) (hc : inCall (s.pc t) = true)
    (hm : (s.fr t).mu = some m) : stepOpen s t e = .ok s' → False := by
  intro h
  unfold stepOpen at h
  split at h
  · split at h
    · rcases he with he | he <;> cases he
    · exact dflt_ann he hc hm h
  · split at h
    · rcases he with he | he <;> cases he
    · exact dflt_ann he hc hm h
  · exact proto_ann he hc hm h

theorem spinAcq_ann {s s' : State} {t : Tid} {c : Nat} {st : SpinSt} {mk : SpinSt → PC} {done : PC} {e : Ev} {m : MuId}
    (he : isAnn e m) (hc : inCall (s.pc t) = true) (hm : (s.fr t).mu = some m) :
    spinAcq s t c st mk done e = .ok s' → False := by
  intro h
  unfold spinAcq at h
  split at h
  · rcases he with he | he <;> cases he
  · rcases he with he | he <;> cases he
  · exact dflt_ann he hc hm h

set_option hygiene false in
macro "ann_leaf" : tactic =>
  `(tactic| first
    | exact (dflt_ann he hc hm h).elim
    | exact (stepOpen_ann he hc hm h).elim
    | exact (spinAcq_ann he hc hm h).elim
    | (rcases he with he | he <;> cases he; done)
    | (exfalso; rcases he with he | he <;> cases he <;> simp_all))

/-- an annotation of the caller's own mutex inside nsync_wait_n is the `(*unlock) (mu)` after the enqueue
    loop or the `(*lock) (mu)` before the return -/
theorem ann_pc {s s' : State} {t : Tid} {e : Ev} {m : MuId} (he : isAnn e m) (hc : inCall (s.pc t) = true)
    (hm : (s.fr t).mu = some m) (h : step s (.thr t e) = .ok s') :
    (e = .annRel m ∧ s.pc t = .wUnlock) ∨ (e = .annAcq m ∧ s.pc t = .wRelock) := by
  simp only [step] at h
  unfold stepThr at h
  split at h <;> rename_i hpc
  · rw [hpc] at hc; simp [inCall] at hc
  · simp at h
  · rw [hpc] at hc; simp [inCall] at hc
  · unfold stepCtrRT at h; split_ok h <;> ann_leaf
  · unfold stepND at h; split_ok h <;> ann_leaf
  · unfold stepEnqCv at h; split_ok h <;> ann_leaf
  · unfold stepEnq at h; split_ok h <;> ann_leaf
  · unfold stepDeqCv at h; split_ok h <;> ann_leaf
  · unfold stepDeq at h; split_ok h <;> ann_leaf
  · unfold stepAlloc at h; split_ok h <;> ann_leaf
  · unfold stepInit at h; split_ok h <;> ann_leaf
  · -- wUnlock
    rcases he with rfl | rfl
    · exact .inl ⟨rfl, hpc⟩
    · unfold stepUnlockMu at h; simp only at h; exact (dflt_ann (.inr rfl) hc hm h).elim
  · unfold stepCvRT at h; split_ok h <;> ann_leaf
  · unfold stepPdEnter at h; split_ok h <;> ann_leaf
  · unfold stepPdWait at h; split_ok h <;> ann_leaf
  · unfold stepFree at h; split_ok h <;> ann_leaf
  · -- wRelock
    rcases he with rfl | rfl
    · unfold stepRelock at h; simp only at h; exact (dflt_ann (.inl rfl) hc hm h).elim
    · exact .inr ⟨rfl, hpc⟩
  · unfold stepRet at h; split_ok h <;> ann_leaf

/-- from a `decide`d fact about the final state of a concrete trace to an existential over reachable states -/
theorem final_spec {evs : List Event} {P : State → Bool} (h : (final evs).map P = some true) :
    ∃ s, Reachable s ∧ P s = true := by
  unfold final at h
  split at h
  · rename_i s hs
    simp only [Option.map_some, Option.some.injEq] at h
    exact ⟨s, ⟨evs, hs⟩, h⟩
  · simp at h

/-- the step is accepted -/
def okB (r : R) : Bool := match r with | .ok _ => true | .error _ => false

theorem okB_spec {r : R} (h : okB r = true) : ∃ s', r = .ok s' := by
  cases r with
  | ok s' => exact ⟨s', rfl⟩
  | error m => simp [okB] at h

end WaitN
