/-
  Composition CvFix × MuX (`Model/CvMu.lean`): the facts about the two ACCEPTORS (no clocks yet)
  that the composed clock invariant needs.
    CvFix   `xfer_frame`     while a record is in status `xfer`, its `waiting` flag is changed only by
                             a foreign store `fSt _ r .waiting _`;
            `xfer_no_store`  … and no other accepted event is a plain store to that flag;
            `muCas_accepted` a successful CAS of cv.c on a mutex word is cv.c/1 at `wwMuCas` or
                             cv.c/3 at `wwRelCas`;
            `fSt_waiting`    effect of a foreign store to `waiting`;
    MuX     `mux_sp`         how an accepted event changes the holder `sp` of the queue spinlock:
                             not at all, or it is a successful ACQUIRE CAS that takes the free
                             spinlock, or a write of the holder that gives it up;
            `mux_st`         a plain store to the word is a RELEASE store by the holder.
-/
import NsyncVerif.Model.CvMu
import NsyncVerif.Proofs.CvFixVCXfer
import NsyncVerif.Proofs.MuX

namespace NsyncVerif.CvMu
open NsyncVerif NsyncVerif.CvFix

theorem inTransfer_muHeld (l : Loc) : inTransfer l = l.muHeld := by cases l <;> rfl

theorem mOrd_siteOrd (site : MSite) : mOrd site = siteOrd (mSite site) := by cases site <;> rfl

/-! ### CvFix: the `waiting` flag of a transferred record -/

theorem xf_same {s s' : State} (h : s'.recs = s.recs) (r : Rid) :
    (s'.recs r).waiting = (s.recs r).waiting := by rw [h]

/-- One record changes, and it is not `xfer` afterwards. -/
theorem xf_one {s s' : State} {r0 : Rid} (ho : ∀ q, q ≠ r0 → s'.recs q = s.recs q)
    (h0 : (s'.recs r0).stat ≠ .xfer) (r : Rid) (hw : (s'.recs r).stat = .xfer) :
    (s'.recs r).waiting = (s.recs r).waiting := by
  by_cases hr : r = r0
  · subst hr; exact absurd hw h0
  · rw [ho r hr]

/-- One record changes, keeping its flag. -/
theorem xf_keep {s s' : State} {r0 : Rid} (ho : ∀ q, q ≠ r0 → s'.recs q = s.recs q)
    (h0 : (s'.recs r0).waiting = (s.recs r0).waiting) (r : Rid) :
    (s'.recs r).waiting = (s.recs r).waiting := by
  by_cases hr : r = r0
  · subst hr; exact h0
  · rw [ho r hr]

/-- A record that is `xfer` after a transition has the `waiting` flag it had before, unless the
    transition is a foreign store to that flag. -/
theorem xfer_frame {cfg : Config} {s s' : State} {e : Event} (hi : Inv s) (h : Tr cfg s e s')
    (r : Rid) (hw : (s'.recs r).stat = .xfer) (hne : ∀ v new, e ≠ .fSt v r .waiting new) :
    (s'.recs r).waiting = (s.recs r).waiting := by
  cases h with
  | same e h => rfl
  | tick ns h => rfl
  | semOther e sem' h => rfl
  | loc h => exact xf_same rfl r
  | acq t exp new obs o n hl hexp hw' he ho hn hnew =>
    unfold afterAcquire at hw ⊢
    split at hw
    · exact xf_one (r0 := (s.thr t).r) (fun q hq => by simp [hq]) (by simp) r hw
    · rfl
    · rfl
    · rfl
    · dsimp only at hw ⊢
      by_cases hq : (if (s.thr t).bcast = true then s.queue else sigSelect s.recs s.queue).contains r = true
      · simp only [hq, if_true] at hw; cases hw
      · simp only [hq]; rfl
  | relWait t new obs n hl hh hnew hn hsp =>
    exact xf_keep (r0 := (s.thr t).r) (fun q hq => by simp [hq]) (by simp) r
  | relEnq t new obs n hl hh hnew hn hsp =>
    exact xf_keep (r0 := (s.thr t).r) (fun q hq => by simp [hq]) (by simp) r
  | relWait2 t new obs n hl hh hnew hn hsp => exact xf_same rfl r
  | relSig t site new obs n hl hs hh hnew hn hsp => exact xf_same rfl r
  | relDeq t new obs n hl hh hnew hn hsp =>
    exact xf_keep (r0 := (s.thr t).r) (fun q hq => by simp [hq]) (by simp) r
  | relDeqW t new obs n hl hh hnew hn hsp => exact xf_same rfl r
  | relDbg t new obs n hl hh hnew hn hsp => exact xf_same rfl r
  | wHeadExit t r0 y hy hl hr hw' =>
    exact xf_keep (r0 := r0) (fun q hq => by simp [hq]) (by simp) r
  | wCmpEq t r0 obs hl hr ho he =>
    exact xf_keep (r0 := r0) (fun q hq => by simp [hq]) (by simp) r
  | deqLdQueued t r0 obs hl hr hw' hq =>
    exact xf_keep (r0 := r0) (fun q hq => by simp [hq]) (by simp) r
  | deqSpinExit t r0 hl hr hw' =>
    exact xf_keep (r0 := r0) (fun q hq => by simp [hq]) (by simp) r
  | wSt1 t r0 obs hl hm hst =>
    exact xf_one (r0 := r0) (fun q hq => by simp [hq]) (by simp) r hw
  | wClr t r0 obs hl hr =>
    refine xf_one (r0 := r0) (fun q hq => by simp [hq]) ?_ r hw
    have := (hi.a.thr t).selfO (.inr (.inr hl)); rw [← hr] at this
    simp [this]
  | wake t r0 obs hl hr =>
    have hst : (s.recs r0).stat = .listed t := (hi.a.lMem t r0).mp (head_mem' hr)
    exact xf_one (r0 := r0) (fun q hq => by simp [hq]) (by simp [hst]) r hw
  | enqSt t r0 obs hl hm hst ho he =>
    exact xf_one (r0 := r0) (fun q hq => by simp [hq]) (by simp) r hw
  | deqSt t r0 obs hl hr =>
    refine xf_one (r0 := r0) (fun q hq => by simp [hq]) ?_ r hw
    have := (hi.b.thr t).deqS hl; rw [← hr] at this
    simp [this]
  | wRmCasOk t r0 exp new obs hl hr hn ho he =>
    exact xf_keep (r0 := r0) (fun q hq => by simp [hq]) (by simp) r
  | sRcCasOk t site r0 exp new obs hl hr hn ho he =>
    exact xf_keep (r0 := r0) (fun q hq => by simp [hq]) (by simp) r
  | muMode t obs lt hl hlt =>
    exact xf_keep (r0 := (s.thr t).r) (fun q hq => by simp [hq]) (by simp) r
  | wwCasOk t exp new obs f rest hl hlist =>
    dsimp only
    split <;> rfl
  | semVWake t k r0 q hl hc =>
    exact xf_keep (r0 := r0) (fun q hq => by simp [hq]) (by simp) r
  | semPdRetOkW t k hl => exact xf_same rfl r
  | semPdRetOkC t k hl => exact xf_same rfl r
  | wInit t r0 hl hm hst =>
    refine xf_one (r0 := r0) (fun q hq => by simp [hq]) ?_ r hw
    simp [hst]
  | nwInit t r0 hl hm hst =>
    refine xf_one (r0 := r0) (fun q hq => by simp [hq]) ?_ r hw
    simp [hst]
  | fStW t r0 new hl hf' =>
    by_cases hr : r = r0
    · subst hr; exact absurd rfl (hne t new)
    · simp [hr]
  | fCasOk t r0 exp new obs hl hf' hn ho he =>
    exact xf_keep (r0 := r0) (fun q hq => by simp [hq]) (by simp) r

/-- While a record is `xfer`, the only accepted plain stores to its `waiting` flag are foreign. -/
theorem xfer_no_store {cfg : Config} {s s' : State} {e : Event} (hi : Inv s)
    (hs : step cfg s e = .ok s') (r : Rid) (hw : (s.recs r).stat = .xfer)
    (hst : stOn e = some (.fld r .waiting)) : ∃ v new, e = .fSt v r .waiting new := by
  cases e <;> simp only [stOn, Option.some.injEq, VLoc.fld.injEq, reduceCtorEq] at hst
  case recSt t site r' new obs =>
    obtain ⟨rfl, _⟩ := hst
    exfalso
    have htr := step_tr hs
    cases htr with
    | same e h => simp [touches] at h; split at h <;> simp at h
    | semOther e sem' h => simp [touches] at h; split at h <;> simp at h
    | loc h => cases h
    | wSt1 t r0 obs hl hm hst => rw [hst] at hw; cases hw
    | wClr t r0 obs hl hr =>
      have := (hi.a.thr t).selfO (.inr (.inr hl)); rw [← hr, hw] at this; cases this
    | wake t r0 obs hl hr =>
      have := (hi.a.lMem t r').mp (head_mem' hr); rw [hw] at this; cases this
    | enqSt t r0 obs hl hm hst ho he => rw [hst] at hw; cases hw
    | deqSt t r0 obs hl hr =>
      have := (hi.b.thr t).deqS hl; rw [← hr, hw] at this; cases this
  case wInit t r' => exact absurd hst.2 (by simp)
  case nwInit t r' =>
    obtain ⟨rfl, _⟩ := hst
    exfalso
    simp only [step, need_ok] at hs
    rw [hw] at hs; exact absurd hs.2.2.1 (by simp)
  case fSt t r' f new =>
    obtain ⟨rfl, rfl⟩ := hst
    exact ⟨t, new, rfl⟩

/-- Effect of an accepted foreign store to a `waiting` flag. -/
theorem fSt_waiting {cfg : Config} {s s' : State} {v : Tid} {r : Rid} {new : Nat}
    (hs : step cfg s (.fSt v r .waiting new) = .ok s') :
    new ≤ 1 ∧ (s'.recs r).waiting = decide (new = 1) := by
  simp only [step, need_ok] at hs
  obtain ⟨_, _, h1, hs⟩ := hs
  cases hs
  exact ⟨h1, by simp⟩

/-- A successful CAS of cv.c on a mutex word: cv.c/1 at `wwMuCas`, or cv.c/3 at `wwRelCas`. -/
theorem muCas_accepted {cfg : Config} {s s' : State} {t : Tid} {site : MSite} {exp new obs : Nat}
    (hs : step cfg s (.muCas t site exp new obs true) = .ok s') :
    (site = .wwCas ∧ (s.thr t).loc = .wwMuCas) ∨ (site = .wwRelCas ∧ (s.thr t).loc = .wwRelCas) := by
  simp only [step] at hs
  unfold stepMuCas at hs
  dsimp only at hs
  simp only [need_ok] at hs
  obtain ⟨_, _, hs⟩ := hs
  split at hs
  · rename_i hl; exact .inl ⟨rfl, hl⟩
  · rename_i hl; exact .inr ⟨rfl, hl⟩
  · cases hs

/-! ### MuX: the holder of the queue spinlock -/

theorem aw_sp {s s' : MuX.State} {t : MuX.Tid} {new : Nat} {ord : MuX.Ord} {rmw : Bool}
    (h : MuX.applyWrite s t new ord rmw = .ok s') :
    s'.sp = s.sp ∨ (s.sp = none ∧ s'.sp = some t ∧ ord.isAcq = true) ∨ (s.sp = some t ∧ s'.sp = none) := by
  unfold MuX.applyWrite at h
  simp only at h
  split at h
  · cases h
  · rename_i ld hld
    split at h
    · cases h
    · split at h
      · cases h
      · rename_i hacq
        split at h
        · cases h
        · generalize hck : MuX.clocks s t ord rmw (MuX.isReleasePoint ld) = ck at h
          obtain ⟨vc', relc', released'⟩ := ck
          simp only at h
          split at h
          · cases h; exact .inl rfl
          · rename_i hsd
            split at h
            · rename_i hsp
              cases h
              refine .inr (.inl ⟨hsp, rfl, ?_⟩)
              cases ho : ord.isAcq with
              | true => rfl
              | false => simp [hsd, ho, MuX.needsAcq] at hacq
            · cases h
          · split at h
            · rename_i hsp; cases h; exact .inr (.inr ⟨hsp, rfl⟩)
            · cases h

/-- How an accepted event of the mutex protocol changes the holder of the queue spinlock. -/
theorem mux_sp {s s' : MuX.State} {x : MuX.Ev} (h : MuX.step s x = .ok s') :
    s'.sp = s.sp ∨
    (∃ t exp new ord, x = .cas t exp new ord ∧ ord.isAcq = true ∧ s.sp = none ∧ s'.sp = some t) ∨
    (s.sp = some x.tid ∧ s'.sp = none ∧
      ((∃ t exp new ord, x = .cas t exp new ord) ∨ ∃ t new ord, x = .st t new ord)) := by
  cases x with
  | ld t v => simp only [MuX.step] at h; split at h <;> cases h; exact .inl rfl
  | casFail t exp obs => simp only [MuX.step] at h; split at h <;> cases h; exact .inl rfl
  | cas t exp new ord =>
    simp only [MuX.step] at h
    split at h
    · split at h
      · cases h
      · rcases aw_sp h with h1 | ⟨h1, h2, h3⟩ | ⟨h1, h2⟩
        · exact .inl h1
        · exact .inr (.inl ⟨t, exp, new, ord, rfl, h3, h1, h2⟩)
        · exact .inr (.inr ⟨h1, h2, .inl ⟨t, exp, new, ord, rfl⟩⟩)
    · cases h
  | st t new ord =>
    simp only [MuX.step] at h
    split at h
    · rename_i hsp
      split at h
      · cases h
      · split at h
        · rcases aw_sp h with h1 | ⟨h1, _, _⟩ | ⟨h1, h2⟩
          · exact .inl h1
          · rw [hsp.1] at h1; cases h1
          · exact .inr (.inr ⟨h1, h2, .inr ⟨t, new, ord, rfl⟩⟩)
        · cases h
    · cases h
  | call t c =>
    simp only [MuX.step] at h
    split at h
    · cases h
    · split at h <;> (try split at h) <;> first | (cases h; exact .inl rfl) | cases h
  | ret t ok =>
    simp only [MuX.step] at h
    split at h
    · cases h
    all_goals (repeat' split at h) <;> first | (cases h; exact .inl rfl) | cases h
  | annAcq t l =>
    simp only [MuX.step] at h
    (repeat' split at h) <;> first | (cases h; exact .inl rfl) | cases h
  | annRel t l =>
    simp only [MuX.step] at h
    (repeat' split at h) <;> first | (cases h; exact .inl rfl) | cases h

/-- A plain store to a mutex word is accepted only from the holder of the spinlock and only as a
    release store. -/
theorem mux_st {s s' : MuX.State} {t : MuX.Tid} {new : Nat} {ord : MuX.Ord}
    (h : MuX.step s (.st t new ord) = .ok s') : s.sp = some t ∧ ord.isRel = true := by
  simp only [MuX.step] at h
  split at h
  · rename_i hsp
    split at h
    · cases h
    · split at h
      · rename_i hr; exact ⟨hsp.1, hr⟩
      · cases h
  · cases h

end NsyncVerif.CvMu
