/-
  Layer `Note`, fair termination: the concrete executions used by Props/C09Fair.lean.

  * `leafExec`     root note0; T1 `nsync_note_wait (note0)` really sleeps; T0 `nsync_note_notify
                   (note0)` sets the flag, clears `nw0.waiting`, posts; T1 wakes and returns; then
                   idling.  All hypotheses of `C09_fair_termination_leaf` hold (`leaf_hyps`).
  * `releaseExec`  `Traces.releaseTrace` (recorded from the library: a waiter on a CHILD released by
                   `notify (parent)`) followed by idling: the hypotheses of the FULL statement hold.
  * `stallExec`    a call has started and nothing ever happens: `WeakFair` is needed.
  * `bargeExec`    a lasso: T0 `nsync_note_is_notified (note0)` waits for ever inside
                   `nsync_mu_lock (&note0->note_mu)` while the waiter T1 goes round the wait loop of
                   `nsync_wait_n` (woken again and again without a V: accepted by assumption A3),
                   taking and releasing the mutex each time: `LockFair` is needed.
-/
import NsyncVerif.Proofs.NoteFairTrace
import NsyncVerif.Proofs.NoteRelTraces

set_option linter.unusedSimpArgs false

namespace Note

variable {s0 : State}

/-! ### criteria for executions that end quiescent -/

theorem weakFair_of_quiescent (x : Exec s0) (N : Nat)
    (hN : ∀ j, N ≤ j → ∀ t, (x.ρ j).pc t = .idle) : WeakFair x := by
  intro t i h
  exact absurd (hN (max i N) (by omega) t) (h (max i N) (by omega)).1

theorem lockFair_of_quiescent (x : Exec s0) (N : Nat)
    (hN : ∀ j, N ≤ j → ∀ t, (x.ρ j).pc t = .idle) : LockFair x := by
  intro t m i h _
  have := h (max i N) (by omega)
  rw [hN (max i N) (by omega) t] at this
  cases this

theorem waitFair_of_quiescent (x : Exec s0) (N : Nat)
    (hN : ∀ j, N ≤ j → ∀ t, (x.ρ j).pc t = .idle) : WaitFair x := by
  intro t m i h _
  have := h (max i N) (by omega)
  rw [hN (max i N) (by omega) t] at this
  cases this

theorem finiteArrivals_of_tail (x : Exec s0) (N : Nat) (hN : ∀ j, N ≤ j → x.σ j = none) :
    FiniteArrivals x :=
  ⟨N, fun j t a hj he => by rw [hN j hj] at he; cases he⟩

theorem ok_of_isSome (r : Except String State) (h : r.toOption.isSome = true) :
    r = .ok (r.toOption.get h) := by
  cases r with
  | ok s => rfl
  | error m => cases h

theorem two_le_of_ne {t : Nat} (h1 : t ≠ 1) (h0 : t ≠ 0) : 2 ≤ t := by omega
theorem lt3_cases {t : Nat} (h : t < 3) : t = 0 ∨ t = 1 ∨ t = 2 := by omega

/-! ### building blocks (root note0, clock at 0, semaphore 0, waiter record 0) -/

/-- `nsync_note_new (NULL, no deadline)` by `t`, returning note0. -/
def mkRoot (t : Tid) : List Event := [
  .call t (.new none none), .malloc t (some 0), .ld t .dlLd1 .acq 0 0, .lockCall t 0, .lockRet t,
  .ld t .dlLd2 .acq 0 0, .unlockCall t 0, .unlockRet t, .now t 0, .ret t (.new (some 0))]

/-- `nsync_note_wait (note0, no deadline)` by `t` up to the sleep on its semaphore: first
    `ready_time` loop, `note_enqueue`, second `ready_time`, `P`. -/
def waitPre (t : Tid) : List Event := [
  .call t (.wait 0 none), .waitnCall t none, .ld t .dlLd1 .acq 0 0, .lockCall t 0, .lockRet t,
  .ld t .dlLd2 .acq 0 0, .unlockCall t 0, .unlockRet t, .now t 0,
  .stW t .waitInit .rlx 0 0 0, .lockCall t 0, .lockRet t, .ld t .enqLd .acq 0 0,
  .stW t .enqSt1 .rlx 0 1 0, .unlockCall t 0, .unlockRet t,
  .ld t .dlLd1 .acq 0 0, .lockCall t 0, .lockRet t, .ld t .dlLd2 .acq 0 0, .unlockCall t 0,
  .unlockRet t, .now t 0, .pdEnter t 0 none]

/-- `nsync_note_notify (note0)` by `t`, complete: sets the flag, unlinks waiter record 0, clears
    its `waiting` word, posts its semaphore, finds no children. -/
def notifyAll (t : Tid) : List Event := [
  .call t (.notify 0), .ld t .dlLd1 .acq 0 0, .lockCall t 0, .lockRet t, .ld t .dlLd2 .acq 0 0,
  .unlockCall t 0, .unlockRet t, .now t 0,
  .lockCall t 0, .lockRet t, .ld t .notifyLd .acq 0 0, .ld t .childLd .acq 0 0,
  .stNote t .childSt .rel 0 1 0, .stW t .childWake .rel 0 0 1, .semV t 0,
  .waitCall t 0, .waitRet t, .unlockCall t 0, .unlockRet t, .ret t .notify]

/-- The sleeper `t` wakes up, finds the flag set, dequeues (already unlinked), returns 1. -/
def wakeAll (t : Tid) : List Event := [
  .pdRet t 0 false, .ld t .dlLd1 .acq 0 1, .ld t .dlLd1 .acq 0 1, .lockCall t 0, .lockRet t,
  .ld t .deqLd .acq 0 1, .unlockCall t 0, .unlockRet t, .waitnRet t 0, .ret t (.wait true)]

/-! ### non-vacuity of the leaf theorem -/

def leafEvs : List Event := mkRoot 2 ++ waitPre 1 ++ notifyAll 0 ++ wakeAll 1

def leafFinal : State := (run init leafEvs).toOption.get (by decide)

theorem leaf_run : run init leafEvs = .ok leafFinal := ok_of_isSome _ _

def leafExec : Exec init := traceExec init leafEvs leafFinal leaf_run

theorem leaf_state (j : Nat) : leafExec.ρ j = stateFrom init (leafEvs.take j) := rfl

theorem init_idle (t : Tid) : init.pc t = .idle := rfl

theorem leaf_high {t : Tid} (ht : 3 ≤ t) (j : Nat) : (leafExec.ρ j).pc t = .idle := by
  rw [leaf_state]
  exact (run_untouched _ _ _ (tidsBelow_ne (n := 3) (tidsBelow_take (by decide) j) ht)
    (stateFrom_ok leaf_run j)).trans (init_idle t)

theorem leaf_final_idle (t : Tid) : leafFinal.pc t = .idle := by
  by_cases ht : t < 3
  · have h : leafFinal.pc 0 = .idle ∧ leafFinal.pc 1 = .idle ∧ leafFinal.pc 2 = .idle := by decide
    rcases lt3_cases ht with rfl | rfl | rfl
    · exact h.1
    · exact h.2.1
    · exact h.2.2
  · exact (run_untouched leafEvs init leafFinal (tidsBelow_ne (n := 3) (by decide) (Nat.le_of_not_lt ht))
      leaf_run).trans (init_idle t)

theorem leaf_tail {j : Nat} (hj : leafEvs.length ≤ j) : ∀ t, (leafExec.ρ j).pc t = .idle := by
  intro t
  rw [show leafExec.ρ j = leafFinal from (traceExec_tail leaf_run hj).1]
  exact leaf_final_idle t

theorem leaf_low : ∀ j, j ≤ 64 → ∀ t, t < 3 →
    ((stateFrom init (leafEvs.take j)).pc t).inChildLoop = false := by decide

theorem leaf_leafCalls : LeafCalls leafExec := by
  intro j t
  by_cases hj : j ≤ 64
  · by_cases ht : t < 3
    · exact leaf_low j hj t ht
    · rw [leaf_high (Nat.le_of_not_lt ht) j]; rfl
  · rw [leaf_tail (show 64 ≤ j from Nat.le_of_lt (Nat.lt_of_not_le hj)) t]; rfl

/-- All hypotheses of `C09_fair_termination_leaf` (and `WaitFair`) hold for `leafExec`. -/
theorem leaf_hyps : Reachable init ∧ WeakFair leafExec ∧ LockFair leafExec ∧ WaitFair leafExec ∧
    FiniteArrivals leafExec ∧ LeafCalls leafExec :=
  ⟨⟨[], rfl⟩, weakFair_of_quiescent _ _ (fun _ hj => leaf_tail hj),
   lockFair_of_quiescent _ _ (fun _ hj => leaf_tail hj),
   waitFair_of_quiescent _ _ (fun _ hj => leaf_tail hj),
   finiteArrivals_of_tail _ leafEvs.length (fun _ hj => (traceExec_tail leaf_run hj).2),
   leaf_leafCalls⟩

/-! ### non-vacuity of the full statement: `Traces.releaseTrace`, then idling -/

def relFinal : State := (run init Traces.releaseTrace).toOption.get (by decide)

theorem rel_run : run init Traces.releaseTrace = .ok relFinal := ok_of_isSome _ _

def releaseExec : Exec init := traceExec init Traces.releaseTrace relFinal rel_run

theorem rel_actors : ∀ e ∈ Traces.releaseTrace,
    e.actor = none ∨ e.actor = some 0 ∨ e.actor = some 1 ∨ e.actor = some 99 := by decide

theorem rel_final_idle (t : Tid) : relFinal.pc t = .idle := by
  by_cases ht : t = 0 ∨ t = 1 ∨ t = 99
  · have h : relFinal.pc 0 = .idle ∧ relFinal.pc 1 = .idle ∧ relFinal.pc 99 = .idle := by decide
    rcases ht with rfl | rfl | rfl
    · exact h.1
    · exact h.2.1
    · exact h.2.2
  · refine (run_untouched Traces.releaseTrace init relFinal (fun e he hte => ?_) rel_run).trans
      (init_idle t)
    rcases rel_actors e he with h | h | h | h <;> rw [h] at hte <;> cases hte <;> simp at ht

theorem rel_tail {j : Nat} (hj : Traces.releaseTrace.length ≤ j) :
    ∀ t, (releaseExec.ρ j).pc t = .idle := by
  intro t
  rw [show releaseExec.ρ j = relFinal from (traceExec_tail rel_run hj).1]
  exact rel_final_idle t

/-- All hypotheses of the FULL statement hold for `releaseExec`. -/
theorem release_hyps : Reachable init ∧ WeakFair releaseExec ∧ LockFair releaseExec ∧
    WaitFair releaseExec ∧ FiniteArrivals releaseExec :=
  ⟨⟨[], rfl⟩, weakFair_of_quiescent _ _ (fun _ hj => rel_tail hj),
   lockFair_of_quiescent _ _ (fun _ hj => rel_tail hj),
   waitFair_of_quiescent _ _ (fun _ hj => rel_tail hj),
   finiteArrivals_of_tail _ Traces.releaseTrace.length
     (fun _ hj => (traceExec_tail rel_run hj).2)⟩

/-! ### `WeakFair` is needed -/

def stallA : State := (run init [.call 0 (.new none none)]).toOption.get (by decide)

theorem stall_reach : Reachable stallA := ⟨_, ok_of_isSome _ _⟩

theorem stallA_pc (t : Tid) : (t = 0 → stallA.pc t = .newMalloc none none) ∧
    (t ≠ 0 → stallA.pc t = .idle) := by
  refine ⟨fun h => by subst h; decide, fun h => ?_⟩
  exact (run_untouched [.call 0 (.new none none)] init stallA
    (tidsBelow_ne (n := 1) (by decide) (Nat.pos_of_ne_zero h)) (ok_of_isSome _ _)).trans
    (init_idle t)

/-- T0 has called nsync_note_new and nothing happens any more. -/
def stallExec : Exec stallA := traceExec stallA [] stallA rfl

theorem stall_at (j : Nat) : stallExec.ρ j = stallA ∧ stallExec.σ j = none :=
  traceExec_tail (s := stallA) (evs := []) rfl (Nat.zero_le j)

/-! ### `LockFair` is needed -/

/-- note0 exists; T1 sleeps in `nsync_note_wait (note0)`; T0 has called
    `nsync_note_is_notified (note0)`, found the flag unset and called `nsync_mu_lock`. -/
def bargePre : List Event := mkRoot 2 ++ waitPre 1 ++
  [.call 0 (.isNotified 0), .ld 0 .dlLd1 .acq 0 0, .lockCall 0 0]

/-- One iteration of the wait loop of T1: P returns 0, `ready_time` (flag unset: lock, read the
    expiry time, unlock, read the clock), P again. -/
def bargeLoop : List Event := [.pdRet 1 0 false, .ld 1 .dlLd1 .acq 0 0, .lockCall 1 0, .lockRet 1,
  .ld 1 .dlLd2 .acq 0 0, .unlockCall 1 0, .unlockRet 1, .now 1 0, .pdEnter 1 0 none]

def bargeA : State := (run init bargePre).toOption.get (by decide)

theorem barge_reach : Reachable bargeA := ⟨_, ok_of_isSome _ _⟩

theorem bargeA_facts : bargeA.pc 1 = .wt (.pdRet none) 0 none 0 ∧
    bargeA.pc 0 = .dl .lockRet 0 none .isNotified ∧ bargeA.pc 2 = .idle ∧
    (bargeA.notes 0).lockHolder = none ∧ (bargeA.notes 0).notified = false ∧
    (bargeA.notes 0).allocated = true ∧ (bargeA.notes 0).expiry = none ∧
    (bargeA.recs 0).sem = some 0 ∧ bargeA.now = 0 ∧ (bargeA.recs 0).posted = 0 := by decide

theorem bargeA_idle {t : Tid} (ht : 2 ≤ t) : bargeA.pc t = .idle := by
  by_cases h2 : t = 2
  · subst h2; exact bargeA_facts.2.2.1
  · have h3 : 3 ≤ t := by
      rcases Nat.lt_or_ge t 3 with h | h
      · exact absurd (Nat.le_antisymm (Nat.le_of_lt_succ h) ht) h2
      · exact h
    exact (run_untouched bargePre init bargeA (tidsBelow_ne (n := 3) (by decide) h3)
      (ok_of_isSome _ _)).trans (init_idle t)

theorem noteRec_eta (r : NoteRec) (a : r.notified = false) (b : r.expiry = none)
    (c : r.lockHolder = none) (d : r.allocated = true) :
    r = { parent := r.parent, children := r.children, notified := false, expiry := none,
          disconnecting := r.disconnecting, waiters := r.waiters, lockHolder := none,
          adopted := r.adopted, allocated := true, freed := r.freed } := by
  cases r; simp_all

theorem wrec_eta (w : WRec) (a : w.sem = some 0) :
    w = { used := w.used, waiting := w.waiting, owner := w.owner, note := w.note, sem := some 0,
          posted := w.posted } := by
  cases w; simp_all

theorem barge_cycle : run bargeA bargeLoop = .ok bargeA := by
  obtain ⟨h1, _, _, hl, hn, ha, he, hs, hnow, _⟩ := bargeA_facts
  simp [bargeLoop, run, step, stepLd, stepLockCall, stepLockRet, stepUnlockCall, stepUnlockRet, h1,
    need, hl, hn, ha, he, hs, hnow, flagVal, afterDeadline, afterDeadlinePc, bornNow, newExpiry,
    NoteRec.ntime, Dl.pos, Dl.min, Dl.lt, Dl.leNow, semOk, State.setPc, State.acquire,
    State.release, State.modNote, State.modRec, upd_same]
  simp only [upd_upd]
  rw [upd_eq_self h1, upd_eq_self (noteRec_eta _ hn he hl ha), upd_eq_self (wrec_eta _ hs)]
  have e : ∀ s : State, s.now = 0 → ({ s with now := 0 } : State) = s := by
    intro s h; cases s; simp_all
  exact e bargeA hnow

/-- T0 waits for the mutex of note0 for ever while T1 goes round its wait loop for ever. -/
def bargeExec : Exec bargeA := loopExec bargeA bargeLoop barge_cycle (by decide)

theorem barge_state (j : Nat) : bargeExec.ρ j = stateFrom bargeA (bargeLoop.take (j % 9)) := rfl

theorem barge_ev (j : Nat) : bargeExec.σ j = bargeLoop[j % 9]? := rfl

theorem barge_loop_tids : ∀ e ∈ bargeLoop, e.actor = some 1 := by decide

theorem barge_pc0 (j : Nat) : (bargeExec.ρ j).pc 0 = .dl .lockRet 0 none .isNotified := by
  have := loopExec_untouched barge_cycle (by decide) (t := 0)
    (fun e he => by rw [barge_loop_tids e he]; decide) j
  exact this.trans bargeA_facts.2.1

theorem barge_idle (j : Nat) {t : Tid} (ht : 2 ≤ t) : (bargeExec.ρ j).pc t = .idle := by
  have := loopExec_untouched barge_cycle (by decide) (t := t)
    (fun e he => by rw [barge_loop_tids e he]; intro h; cases h; exact absurd ht (by decide)) j
  exact this.trans (bargeA_idle ht)

theorem barge_states : ∀ r, r < 9 →
    ((stateFrom bargeA (bargeLoop.take r)).pc 1).inChildLoop = false ∧
    ((stateFrom bargeA (bargeLoop.take r)).pc 1).condWait = none ∧
    (r = 4 → ((stateFrom bargeA (bargeLoop.take r)).notes 0).lockHolder = some 1) ∧
    (r = 0 → ((stateFrom bargeA (bargeLoop.take r)).notes 0).lockHolder = none) ∧
    (stateFrom bargeA (bargeLoop.take r)).pc 1 ≠ .idle := by
  decide

theorem barge_moves (j : Nat) : Moves bargeExec 1 j := by
  have hlt : j % 9 < bargeLoop.length := by show j % 9 < 9; omega
  refine ⟨bargeLoop[j % 9], ?_, barge_loop_tids _ (List.getElem_mem hlt)⟩
  rw [barge_ev]; exact List.getElem?_eq_getElem hlt

theorem barge_not_moves0 (j : Nat) : ¬ Moves bargeExec 0 j := by
  rintro ⟨e, he, ha⟩
  have hlt : j % 9 < bargeLoop.length := by show j % 9 < 9; omega
  rw [barge_ev, List.getElem?_eq_getElem hlt] at he
  have := barge_loop_tids _ (List.getElem_mem hlt)
  rw [Option.some.inj he, ha] at this
  cases this

end Note
