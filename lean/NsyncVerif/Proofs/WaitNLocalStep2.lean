/-
  Proofs/WaitNLocalStep2.lean — thread-local invariant: deqDone, afterEnq, startScan, spinAcq.
-/
import NsyncVerif.Proofs.WaitNLocalStep

namespace WaitN

theorem getElem?_append_left' {α} {l m : List α} {i : Nat} (h : i < l.length) : (l ++ m)[i]? = l[i]? :=
  List.getElem?_append_left h

theorem readyOK_push {f : Frame} {j : Nat} {res : Bool} (h : ReadyOK f) (hl : f.deqRes.length = j) (hj : j < f.count) :
    ReadyOK { f with ready := if !res ∧ f.ready = f.count then j else f.ready, deqRes := f.deqRes ++ [res] } := by
  constructor
  · show (if !res ∧ f.ready = f.count then j else f.ready) ≤ f.count
    split
    · exact Nat.le_of_lt hj
    · exact h.le
  · show (if !res ∧ f.ready = f.count then j else f.ready) = f.count → ∀ b ∈ f.deqRes ++ [res], b = true
    split
    · intro h'; omega
    · rename_i hc
      intro hr b hb
      rcases List.mem_append.1 hb with hb | hb
      · exact h.all hr b hb
      · simp only [List.mem_singleton] at hb
        subst hb
        cases b with
        | true => rfl
        | false => exact absurd ⟨rfl, hr⟩ hc
  · show (if !res ∧ f.ready = f.count then j else f.ready) < f.count →
      (f.deqRes ++ [res])[if !res ∧ f.ready = f.count then j else f.ready]? = some false ∧
        ∀ k, k < (if !res ∧ f.ready = f.count then j else f.ready) → (f.deqRes ++ [res])[k]? = some true
    split
    · rename_i hc
      intro _
      have hres : res = false := by cases res <;> simp_all
      refine ⟨?_, ?_⟩
      · rw [List.getElem?_append_right (by omega)]; simp [hl, hres]
      · intro k hk
        rw [getElem?_append_left' (by omega)]
        have hk' : k < f.deqRes.length := by omega
        rw [List.getElem?_eq_getElem hk']
        congr 1
        exact h.all hc.2 _ (List.getElem_mem hk')
    · intro hr
      obtain ⟨h1, h2⟩ := h.first hr
      have hlen : f.ready < f.deqRes.length := by
        rcases Nat.lt_or_ge f.ready f.deqRes.length with h' | h'
        · exact h'
        · rw [List.getElem?_eq_none h'] at h1; cases h1
      refine ⟨by rw [getElem?_append_left' hlen]; exact h1, ?_⟩
      intro k hk
      rw [getElem?_append_left' (by omega)]; exact h2 k hk

@[simp] theorem InDeq.semFreed (f : Frame) (v b) : InDeq { f with sem := v, freed := b } ↔ InDeq f :=
  ⟨fun a => { a with rdy := { a.rdy with } }, fun a => { a with rdy := { a.rdy with } }⟩
@[simp] theorem InDeq.freedOnly (f : Frame) (b) : InDeq { f with freed := b } ↔ InDeq f :=
  ⟨fun a => { a with rdy := { a.rdy with } }, fun a => { a with rdy := { a.rdy with } }⟩

theorem linv_unbind_fin {s : State} {t : Tid} (h : InDeq (s.fr t)) (hl : (s.fr t).deqRes.length = (s.fr t).recs.length) :
    LInv (finNext ((unbindSem s t).fr t)) ((unbindSem s t).fr t) := by
  unfold unbindSem
  split
  · simp only [setSemUser_fr, setFr_fr, if_true]
    exact linv_finNext ((InDeq.semFreed _ _ _).2 h) hl rfl
  · simp only [setFr_fr, if_true]
    exact linv_finNext ((InDeq.freedOnly _ _).2 h) hl rfl

theorem linv_deqDone {s s' : State} {t : Tid} {j : Nat} {res : Bool}
    (hd : InDeq (s.fr t)) (hl : (s.fr t).deqRes.length = j) (hj : j < (s.fr t).recs.length)
    (hf : (s.fr t).freed = false) (h : deqDone s t j res = .ok s') : LInv (s'.pc t) (s'.fr t) := by
  unfold deqDone at h
  dsimp only at h
  have hjc : j < (s.fr t).count := Nat.lt_of_lt_of_le hj hd.len
  have hd' : ∀ u : List Unl, InDeq ({ s.fr t with
      ready := (if !res ∧ (s.fr t).ready = (s.fr t).count then j else (s.fr t).ready),
      deqRes := (s.fr t).deqRes ++ [res], deqUnl := u } : Frame) :=
    fun u => { hd with rdy := { (readyOK_push hd.rdy hl hjc) with }, dlen := by simp; omega }
  split at h
  · rename_i hlt
    cases h
    simp only [setPc_pc, setPc_fr, setFr_fr, if_true]
    exact linv_deqNext (hd' _) (by simp; omega) hlt hf
  · rename_i hlt
    cases h
    simp only [setPc_pc, setPc_fr, if_true]
    apply linv_unbind_fin
    · simpa using hd' _
    · simp at hlt ⊢; omega

theorem linv_afterEnq {s s' : State} {t : Tid} {i : Nat} {res : Bool}
    (hp : PreLoop (s.fr t)) (hl : (s.fr t).recs.length = i + 1) (hw : (s.fr t).why = .none)
    (h : afterEnq s t (i + 1) res = .ok s') : LInv (s'.pc t) (s'.fr t) := by
  unfold afterEnq at h
  dsimp only at h
  cases h
  simp only [setPc_pc, setPc_fr, setFr_fr, if_true]
  cases res with
  | true => simp only [if_true]; exact linv_enqNext (res := true) { hp with } hl (by simpa using hw) (by simp)
  | false =>
    simp only [Bool.false_eq_true, if_false]
    exact linv_enqNext (res := false) { hp with } hl (by simp) (by simp)

theorem linv_startScan {s : State} {t : Tid} (h : InLoop (s.fr t)) :
    LInv ((startScan s t).pc t) ((startScan s t).fr t) := by
  unfold startScan
  simp only [setPc_pc, setPc_fr, setFr_fr, if_true]
  apply linv_loopNext
  exact { h with whyMin := by intro hm; simp only at hm; rw [h.dl] at hm; cases hm }

theorem linv_spinAcq {s s' : State} {t : Tid} {c : Nat} {st : SpinSt} {mk : SpinSt → PC} {done : PC} {e : Ev}
    (hinv : LInv (s.pc t) (s.fr t)) (hmk : ∀ x, LInv (mk x) (s.fr t)) (hdone : LInv done (s.fr t))
    (h : spinAcq s t c st mk done e = .ok s') : LInv (s'.pc t) (s'.fr t) := by
  unfold spinAcq at h
  split_ok h
  all_goals first
    | exact (keeps_dflt h).linv hinv
    | (cases h; simp only [setPc_pc, setPc_fr, setObj_fr, if_true]; first | exact hmk _ | exact hdone)

end WaitN
