/-
  Layer `Once`: invariant preservation for callback boundaries and the nested
  mutex / condition-variable API events on the shared slot.
-/
import NsyncVerif.Proofs.OnceInv

namespace Once

theorem inv_cbStart {cfg s s' t a} (hi : Inv cfg s)
    (h : step cfg s (.cbStart t a) = .ok s') : Inv cfg s' := by
  simp only [step] at h
  split at h <;> step_norm h <;> try contradiction
  obtain ⟨h1, rfl⟩ := h
  inv_finish

theorem inv_cbEnd {cfg s s' t a} (hi : Inv cfg s)
    (h : step cfg s (.cbEnd t a) = .ok s') : Inv cfg s' := by
  simp only [step] at h
  split at h <;> step_norm h <;> try contradiction
  obtain ⟨h1, rfl⟩ := h
  inv_finish

theorem inv_muLockCall {cfg s s' t k} (hi : Inv cfg s)
    (h : step cfg s (.muLockCall t k) = .ok s') : Inv cfg s' := by
  simp only [step] at h
  split at h <;> step_norm h <;> try contradiction
  · subst h; exact hi
  · obtain ⟨h1, rfl⟩ := h
    inv_finish
  · obtain ⟨h1, rfl⟩ := h
    inv_finish

theorem inv_muLockRet {cfg s s' t} (hi : Inv cfg s)
    (h : step cfg s (.muLockRet t) = .ok s') : Inv cfg s' := by
  simp only [step] at h
  split at h <;> step_norm h <;> try contradiction
  · subst h; exact hi
  · obtain ⟨h1, rfl⟩ := h
    inv_finish
  · obtain ⟨h1, rfl⟩ := h
    inv_finish

theorem inv_muUnlockCall {cfg s s' t k} (hi : Inv cfg s)
    (h : step cfg s (.muUnlockCall t k) = .ok s') : Inv cfg s' := by
  simp only [step] at h
  split at h <;> step_norm h <;> try contradiction
  · subst h; exact hi
  · obtain ⟨h1, h2, rfl⟩ := h
    inv_finish
  · obtain ⟨h1, h2, rfl⟩ := h
    inv_finish

theorem inv_muUnlockRet {cfg s s' t} (hi : Inv cfg s)
    (h : step cfg s (.muUnlockRet t) = .ok s') : Inv cfg s' := by
  simp only [step] at h
  split at h <;> step_norm h <;> try contradiction
  · subst h; exact hi
  · subst h; inv_finish
  · subst h; inv_finish

end Once
