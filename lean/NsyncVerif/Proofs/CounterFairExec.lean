/-
  Proofs/CounterFairExec.lean — Counter layer, fair release: generic facts about executions (frames,
  first move, the use of weak fairness `fair_move`), the invariant `JInv`, and
  `holder_releases`: under weak fairness the holder of counter_mu releases it.
-/
import NsyncVerif.Proofs.CounterFairDefs

namespace Counter

variable {s0 : State}

theorem not_moves_eq {x : Exec s0} {t : Tid} {j : Nat} (h : ¬ Moves x t j) :
    (x.ρ (j + 1)).pc t = (x.ρ j).pc t := by
  unfold Moves at h; exact Classical.not_not.1 h

theorem frame_until (x : Exec s0) {t : Tid} {i : Nat} : ∀ d,
    (∀ j, i ≤ j → j < i + d → ¬ Moves x t j) → (x.ρ (i + d)).pc t = (x.ρ i).pc t := by
  intro d
  induction d with
  | zero => intro _; rfl
  | succ d ih =>
    intro h
    have a := ih (fun j h1 h2 => h j h1 (by omega))
    have b := not_moves_eq (h (i + d) (by omega) (by omega))
    rw [show i + (d + 1) = i + d + 1 by omega, b, a]

theorem frame_between (x : Exec s0) {t : Tid} {i j : Nat} (hij : i ≤ j)
    (h : ∀ j', i ≤ j' → j' < j → ¬ Moves x t j') : (x.ρ j).pc t = (x.ρ i).pc t := by
  obtain ⟨d, rfl⟩ : ∃ d, j = i + d := ⟨j - i, by omega⟩
  exact frame_until x d h

theorem first_move (x : Exec s0) {t : Tid} : ∀ d i, Moves x t (i + d) →
    ∃ j, i ≤ j ∧ Moves x t j ∧ ∀ j', i ≤ j' → j' < j → ¬ Moves x t j' := by
  intro d
  induction d with
  | zero => intro i h; exact ⟨i, Nat.le_refl _, h, fun j' h1 h2 => by omega⟩
  | succ d ih =>
    intro i h
    by_cases hi : Moves x t i
    · exact ⟨i, Nat.le_refl _, hi, fun j' h1 h2 => by omega⟩
    · obtain ⟨j, h1, h2, h3⟩ := ih (i + 1) (by rw [show i + 1 + d = i + (d + 1) by omega]; exact h)
      refine ⟨j, by omega, h2, fun j' h4 h5 => ?_⟩
      by_cases hj : j' = i
      · subst hj; exact hi
      · exact h3 j' (by omega) h5

theorem first_move' (x : Exec s0) {t : Tid} {i : Nat} (h : ∃ j, i ≤ j ∧ Moves x t j) :
    ∃ j, i ≤ j ∧ Moves x t j ∧ ∀ j', i ≤ j' → j' < j → ¬ Moves x t j' := by
  obtain ⟨j, hij, hm⟩ := h
  obtain ⟨d, rfl⟩ : ∃ d, j = i + d := ⟨j - i, by omega⟩
  exact first_move x d i hm

/-- Weak fairness: a thread that stays unblocked as long as it does not move, moves. -/
theorem fair_move (x : Exec s0) (hf : WeakFair x) {t : Tid} {i : Nat} (hne : (x.ρ i).pc t ≠ .idle)
    (h : ∀ j, i ≤ j → (x.ρ j).pc t = (x.ρ i).pc t → ¬ Blocked (x.ρ j) t) :
    ∃ j, i ≤ j ∧ Moves x t j := by
  apply Classical.byContradiction
  intro hn
  have hnm : ∀ j, i ≤ j → ¬ Moves x t j := fun j hj hm => hn ⟨j, hj, hm⟩
  have hpc : ∀ j, i ≤ j → (x.ρ j).pc t = (x.ρ i).pc t :=
    fun j hj => frame_between x hj (fun j' h1 _ => hnm j' h1)
  obtain ⟨j, hj, hm⟩ := hf t i (fun j hj => ⟨by rw [hpc j hj]; exact hne, h j hj (hpc j hj)⟩)
  exact hnm j hj hm

/-- a move of `t` is an accepted event of `t` -/
theorem moves_prog (x : Exec s0) (hr : Reachable s0) {t : Tid} {j : Nat} (h : Moves x t j) :
    ∃ e, x.σ j = some (.thr t e) ∧ Prog (x.ρ j) t e (x.ρ (j + 1)) ∧ StepFacts (x.ρ j) t e (x.ρ (j + 1)) := by
  rcases x.step_cases hr j with h1 | ⟨h1, _⟩ | ⟨u, e, h1, h2, h3⟩
  · exact absurd (by rw [h1]) h
  · exact absurd (by rw [h1]) h
  · by_cases hu : t = u
    · subst hu; exact ⟨e, h1, h2, h3⟩
    · exact absurd (h3.others t hu) h

/-! ### the value an add is about to CAS is the current value -/

def JInv (s : State) : Prop := ∀ u d v, s.pc u = .aCas d v → v = s.sh.value

theorem holder_of_holds {s : State} (hi : Inv s) {u : Tid} (h : holds (s.pc u) = true) :
    s.sh.lockHolder = some u := (hi.pcs u).1.2 h

theorem holds_of_holder {s : State} (hi : Inv s) {u : Tid} (h : s.sh.lockHolder = some u) :
    holds (s.pc u) = true := (hi.pcs u).1.1 h

theorem jinv_of_reachable {s : State} (h : Reachable s) : JInv s := by
  refine Reachable.induct (P := JInv) ?_ ?_ h
  · intro u d v hp; simp [init] at hp
  · intro s e s' hr hp hs
    cases e with
    | tick ns =>
      simp only [step] at hs
      split at hs
      · cases hs; exact hp
      · cases hs
    | thr t ev =>
      have hi := inv_of_reachable hr
      have f := facts_stepThr hi hs
      have g := prog_stepThr hs
      intro u d v hpu
      by_cases hut : u = t
      · subst hut; exact g.jpres (fun d v h => hp _ d v h) d v hpu
      · rw [f.others u hut] at hpu
        have hv := hp u d v hpu
        have hu : s.sh.lockHolder = some u := holder_of_holds hi (by rw [hpu]; rfl)
        rcases f.hist with h1 | ⟨d', v', new, h1, _⟩ | ⟨v', h1, h2, _⟩
        · rw [h1.2.2.1]; exact hv
        · have : s.sh.lockHolder = some t := holder_of_holds hi (by rw [h1]; rfl)
          rw [hu] at this; cases this; exact absurd rfl hut
        · have := (hi.sh.hnil h2).2.2.1; rw [hu] at this; cases this

/-! ### the holder of counter_mu releases it -/

theorem hm_congr {sh sh' : Shared} (h : sh'.waiters = sh.waiters) (p : PC) : hm sh' p = hm sh p := by
  cases p <;> simp [hm, h]

/-- one step seen from the holder `u` -/
theorem hm_step (x : Exec s0) (hr : Reachable s0) {u : Tid} {j : Nat}
    (hh : holds ((x.ρ j).pc u) = true) :
    (¬ Moves x u j → hm (x.ρ (j + 1)).sh ((x.ρ (j + 1)).pc u) ≤ hm (x.ρ j).sh ((x.ρ j).pc u))
    ∧ (Moves x u j → holds ((x.ρ (j + 1)).pc u) = false
        ∨ hm (x.ρ (j + 1)).sh ((x.ρ (j + 1)).pc u) < hm (x.ρ j).sh ((x.ρ j).pc u)) := by
  have hi := inv_of_reachable (x.reach hr j)
  rcases x.step_cases hr j with h1 | ⟨h1, _, h2⟩ | ⟨t, e, h1, g, f⟩
  · exact ⟨fun _ => (by rw [h1]; exact Nat.le_refl _), fun hm => absurd (by rw [h1]) hm⟩
  · refine ⟨fun _ => ?_, fun hm => absurd (by rw [h1]) hm⟩
    rw [h1, hm_congr (show (x.ρ (j + 1)).sh.waiters = (x.ρ j).sh.waiters by rw [h2])]
    exact Nat.le_refl _
  · by_cases hu : u = t
    · subst hu
      rcases g.hrank (fun d v h => jinv_of_reachable (x.reach hr j) _ d v h) hh with ⟨a, b⟩ | a | a
      · exact ⟨fun _ => (by rw [a, hm_congr b]; exact Nat.le_refl _), fun hm => absurd a hm⟩
      · exact ⟨fun hn => (by rw [not_moves_eq hn, hh] at a; cases a), fun _ => Or.inl a⟩
      · exact ⟨fun _ => Nat.le_of_lt a, fun _ => Or.inr a⟩
    · have hl := holder_of_holds hi hh
      have hw := f.waiters (by rw [hl]; intro h; cases h; exact hu rfl)
      refine ⟨fun _ => ?_, fun hm => absurd (f.others u hu) hm⟩
      rw [f.others u hu, hm_congr hw]; exact Nat.le_refl _

theorem holds_not_blocked {s : State} {u : Tid} (h : holds (s.pc u) = true) : ¬ Blocked s u := by
  rintro (⟨dl, k, j, hp, _⟩ | ⟨hp, _⟩)
  · rw [hp] at h; cases h
  · cases hpc : s.pc u <;> rw [hpc] at h hp <;> simp [holds, lockWaitPc] at h hp

theorem holds_not_idle {p : PC} (h : holds p = true) : p ≠ .idle := by
  intro hp; rw [hp] at h; cases h

/-- Under weak fairness the holder of counter_mu releases it. -/
theorem holder_releases (x : Exec s0) (hr : Reachable s0) (hf : WeakFair x) (u : Tid) :
    ∀ m j, holds ((x.ρ j).pc u) = true → hm (x.ρ j).sh ((x.ρ j).pc u) ≤ m →
      ∃ j', j ≤ j' ∧ holds ((x.ρ j').pc u) = false := by
  intro m
  induction m with
  | zero =>
    intro j hh hm0
    exfalso
    cases hpc : (x.ρ j).pc u <;> rw [hpc] at hh hm0 <;> simp [holds, hm] at hh hm0
  | succ m ih =>
    intro j hh hle
    have hmv := fair_move x hf (t := u) (i := j) (holds_not_idle hh)
      (fun j' _ hp => holds_not_blocked (by rw [hp]; exact hh))
    obtain ⟨j1, h1, h2, h3⟩ := first_move' x hmv
    -- up to j1 the holder stays where it is and hm does not grow
    have hstay : ∀ d, j + d ≤ j1 → (x.ρ (j + d)).pc u = (x.ρ j).pc u
        ∧ hm (x.ρ (j + d)).sh ((x.ρ (j + d)).pc u) ≤ hm (x.ρ j).sh ((x.ρ j).pc u) := by
      intro d
      induction d with
      | zero => intro _; exact ⟨rfl, Nat.le_refl _⟩
      | succ d ihd =>
        intro hd
        obtain ⟨a, b⟩ := ihd (by omega)
        have hnm := h3 (j + d) (by omega) (by omega)
        have hh' : holds ((x.ρ (j + d)).pc u) = true := by rw [a]; exact hh
        have c := (hm_step x hr hh').1 hnm
        rw [show j + (d + 1) = j + d + 1 by omega]
        exact ⟨by rw [not_moves_eq hnm, a], Nat.le_trans c b⟩
    obtain ⟨d, rfl⟩ : ∃ d, j1 = j + d := ⟨j1 - j, by omega⟩
    obtain ⟨a, b⟩ := hstay d (Nat.le_refl _)
    have hh' : holds ((x.ρ (j + d)).pc u) = true := by rw [a]; exact hh
    rcases (hm_step x hr hh').2 h2 with c | c
    · exact ⟨j + d + 1, by omega, c⟩
    · by_cases hh2 : holds ((x.ρ (j + d + 1)).pc u) = true
      · obtain ⟨j', h4, h5⟩ := ih (j + d + 1) hh2 (by omega)
        exact ⟨j', by omega, h5⟩
      · exact ⟨j + d + 1, by omega, by simpa using hh2⟩

end Counter
