import NsyncVerif.Proofs.MuCFairKeep2
import NsyncVerif.Proofs.MuCOther2
/-
  MuC, fair termination: `CallKeep` for every accepted step, and along runs.
-/
namespace NsyncVerif.MuC

theorem keep_stepCall {s s' : State} {t : Tid} {a : Api} (hs : stepCall s t a = .ok s') :
    CallKeep (s.pc t) (s'.pc t) := by
  unfold stepCall at hs
  split at hs
  · rename_i heq
    cases a <;> dsimp only at hs
    all_goals (repeat' split at hs)
    all_goals first
      | (cases hs; done)
      | (cases hs; keep_local heq)
  · cases hs

theorem keep_stepRet {s s' : State} {t : Tid} {a : Api} {res : Res} (hs : stepRet s t a res = .ok s') :
    CallKeep (s.pc t) (s'.pc t) := by
  unfold stepRet at hs
  split at hs
  all_goals first
    | (cases hs; done)
    | (rename_i heq
       repeat' split at hs
       all_goals first
         | (cases hs; done)
         | (cases hs; keep_local heq))

theorem keep_stepCond {s s' : State} {t : Tid} {fn : CFn} {k : Nat} {res : Bool} (h1 : Inv1 s)
    (hs : stepCond s t fn k res = .ok s') : CallKeep (s.pc t) (s'.pc t) := by
  unfold stepCond at hs
  dsimp only at hs
  split at hs
  · rename_i c heq
    repeat' split at hs
    all_goals first
      | (cases hs; done)
      | (cases hs; keep_local heq)
  · rename_i r sc heq
    have hok0 := h1.pcok t; rw [heq] at hok0
    repeat' split at hs
    all_goals first
      | (cases hs; done)
      | skip
    obtain ⟨hf, p, hpc, hsc⟩ := afterEval_frame hs hok0.2.1
    exact keep_of_pc heq (by rw [hpc]) (CallKeep.scan (r := r) rfl hsc)
  · cases hs

/-- Every accepted step keeps the call of every thread. -/
theorem keep_step {cfg : Cfg} {s s' : State} {e : Event} (h1 : Inv1 s) (hs : step cfg s e = .ok s') (u : Tid) :
    CallKeep (s.pc u) (s'.pc u) := by
  by_cases hu : e.tid = some u
  · cases e <;> simp only [Event.tid, Option.some.injEq, reduceCtorEq] at hu
    all_goals subst hu
    case call t a => exact keep_stepCall hs
    case ret t a res => exact keep_stepRet hs
    case ld t o loc obs => exact keep_stepLd hs
    case st t o loc new obs => exact keep_stepSt hs
    case cas t o loc exp new obs ok => exact keep_stepCas h1 hs
    case cond t fn k res => exact keep_stepCond h1 hs
    case semPEnter t k =>
      simp only [step] at hs
      split at hs
      · rename_i heq; ld_caseK heq hs
      · cases hs
    case semPRet t k =>
      simp only [step] at hs
      split at hs
      · rename_i heq; ld_caseK heq hs
      · cases hs
    case semPdEnter t k dl =>
      simp only [step] at hs
      split at hs
      · rename_i heq; ld_caseK heq hs
      · cases hs
    case semPdRet t k timedout =>
      simp only [step] at hs
      split at hs
      · rename_i heq; ld_caseK heq hs
      · cases hs
    case semV t k =>
      simp only [step] at hs
      split at hs
      · rename_i r k' rest heq
        split at hs
        · cases hs
        · cases hs
          rw [afterFin_eq, heq]
          simp only [semPost_pc, setPc_pc, setFn_same]
          cases rest <;> cases r <;> simp [finPc, Ret.pc, CallKeep, PC.mw, PC.okD, Ret.mw?, MW.same]
      · cases hs
    case dataW t x v =>
      simp only [step] at hs
      split at hs
      · cases hs; exact CallKeep.refl _
      · cases hs
    case dataR t x v =>
      simp only [step] at hs
      split at hs
      · cases hs; exact CallKeep.refl _
      · cases hs
    case noteSeen t =>
      simp only [step] at hs
      split at hs
      · rename_i heq; ld_caseK heq hs
      · cases hs
    case noteNotify t =>
      simp only [step] at hs
      split at hs
      · rename_i heq; ld_caseK heq hs
      · rename_i heq; ld_caseK heq hs
      · cases hs
  · exact CallKeep.of_eq (step_other hs u hu).1

end NsyncVerif.MuC
