/-
  Proofs/WaitNFairReady.lean — WaitN layer, liveness, case (b): the sleep loop as a rank interval; `becameReady` is
  stable while the caller stays in its sleep loop (`ready_step`).
-/
import NsyncVerif.Proofs.WaitNFairRet

set_option linter.unusedSimpArgs false
set_option linter.unusedVariables false

namespace WaitN

variable {s0 : State}

theorem ndR_le (st : NDst) : 1 ≤ ndR st ∧ ndR st ≤ 15 := by cases st <;> simp [ndR]
theorem cvDeqR_le (st : CvDeqSt) : cvDeqR st ≤ 5 := by cases st <;> simp [cvDeqR]
theorem deqR_le (st : DeqSt) : deqR st ≤ 7 := by cases st <;> simp [deqR]

/-- the sleep loop of wait.c is a rank interval -/
theorem inSleep_iff_rank {p : PC} (n : Nat) (po : Option Rid) (hc : inCall p = true) :
    inSleep p = true ↔ (offS n + 1 ≤ rank p n po ∧ rank p n po < offU n) := by
  cases p with
  | idle => cases hc
  | sg c bc st => cases hc
  | stuck => simp [inSleep, rank, offS]
  | wCtrRT u i l => cases u <;> cases l <;> simp [inSleep, rank, base, offS, offU, offA] <;> omega
  | wND u i st => have := ndR_le st; cases u <;> simp [inSleep, rank, base, offS, offU, offA] <;> omega
  | wAlloc => simp [inSleep, rank, offS, offU, offA]; omega
  | wInit i => simp [inSleep, rank, offS, offU]; omega
  | wEnqCv i st => simp [inSleep, rank, offS, offU]; omega
  | wEnq i st => simp [inSleep, rank, offS, offU]; omega
  | wUnlock => simp [inSleep, rank, offS, offU]
  | wCvRT j => simp [inSleep, rank, offS, offU]; omega
  | wPdEnter => simp [inSleep, rank, offS, offU]; omega
  | wPdWait j => simp [inSleep, rank, offS, offU]; omega
  | wDeqCv j st => have := cvDeqR_le st; simp [inSleep, rank, offS, offU]; omega
  | wDeq j st => have := deqR_le st; simp [inSleep, rank, offS, offU]; omega
  | wFree => simp [inSleep, rank, offS, offU]
  | wRelock => simp [inSleep, rank, offS, offU]
  | wRet r => simp [inSleep, rank, offS, offU]

/-- one step of a call in progress: the rank does not increase, except at a wake-up, which starts a new scan -/
theorem rank_step (x : Exec s0) (hr : Reachable s0) (t : Tid) (m : Nat) (h1 : (x.ρ m).pc t ≠ .idle)
    (h2 : (x.ρ (m + 1)).pc t ≠ .idle) (hc : inCall ((x.ρ m).pc t) = true) :
    ((x.ρ (m + 1)).fr t).objs = ((x.ρ m).fr t).objs ∧
    (rk (x.ρ (m + 1)) t ≤ rk (x.ρ m) t
     ∨ ((∃ k, (x.ρ m).pc t = .wPdWait k) ∧ rk (x.ρ (m + 1)) t < offU ((x.ρ m).fr t).count)) := by
  obtain ⟨e, hp, _⟩ := x.prog hr t m
  rcases hp with h | h | ⟨ho, _, h | h | h | h | h | h⟩
  · exact absurd h h1
  · exact absurd h h2
  · exact ⟨ho, .inl (Nat.le_of_eq (rk_eq_of_same h.1 h.2.1 ho))⟩
  · exact ⟨ho, .inl (Nat.le_of_lt h)⟩
  · exact ⟨ho, .inl (Nat.le_of_eq h.2.2.1)⟩
  · obtain ⟨k, hk, _, hlt⟩ := h; exact ⟨ho, .inr ⟨⟨k, hk⟩, hlt⟩⟩
  · refine ⟨ho, .inl (Nat.le_of_eq ?_)⟩
    simp only [rk, h.2, count_eq ho]
    exact rank_nfWake h.1 _ _ _
  · have := sgNext_early h.1
    revert this hc
    cases (x.ρ m).pc t <;> simp [sgEarly, inCall]

/-- between two times at which the caller is in its sleep loop it is in its sleep loop -/
theorem inSleep_between (x : Exec s0) (hr : Reachable s0) (t : Tid) (a : Nat) :
    ∀ d, (∀ m, a ≤ m → m ≤ a + d → (x.ρ m).pc t ≠ .idle) → inSleep ((x.ρ a).pc t) = true →
      inSleep ((x.ρ (a + d)).pc t) = true → ∀ m, a ≤ m → m ≤ a + d → inSleep ((x.ρ m).pc t) = true := by
  intro d hni ha hb
  have hca := inCall_of_inSleep ha
  -- the call goes on
  have hcall : ∀ e, e ≤ d → inCall ((x.ρ (a + e)).pc t) = true ∧ ((x.ρ (a + e)).fr t).count = ((x.ρ a).fr t).count := by
    intro e
    induction e with
    | zero => intro _; exact ⟨hca, rfl⟩
    | succ e ih =>
      intro he
      have ih := ih (by omega)
      have hn1 := hni (a + e) (by omega) (by omega)
      have hn2 := hni (a + e + 1) (by omega) (by omega)
      refine ⟨?_, ?_⟩
      · rw [show a + (e + 1) = a + e + 1 by omega, x.inCall_step t (a + e) hn1 hn2]; exact ih.1
      · rw [show a + (e + 1) = a + e + 1 by omega, count_eq (rank_step x hr t (a + e) hn1 hn2 ih.1).1]; exact ih.2
  -- upper bound from `a` on
  have hup : ∀ e, e ≤ d → rk (x.ρ (a + e)) t < offU ((x.ρ a).fr t).count := by
    intro e
    induction e with
    | zero => intro _; exact ((inSleep_iff_rank _ _ hca).1 ha).2
    | succ e ih =>
      intro he
      have ih := ih (by omega)
      have hn1 := hni (a + e) (by omega) (by omega)
      have hn2 := hni (a + e + 1) (by omega) (by omega)
      rcases (rank_step x hr t (a + e) hn1 hn2 (hcall e (by omega)).1).2 with h | h
      · show rk (x.ρ (a + e + 1)) t < _; omega
      · show rk (x.ρ (a + e + 1)) t < _
        rw [← (hcall e (by omega)).2]; exact h.2
  -- once below the sleep loop, below for ever
  have hdown : ∀ e f, e + f ≤ d → rk (x.ρ (a + e)) t < offS ((x.ρ a).fr t).count + 1 →
      rk (x.ρ (a + e + f)) t < offS ((x.ρ a).fr t).count + 1 := by
    intro e f
    induction f with
    | zero => intro _ h; exact h
    | succ f ih =>
      intro hef h
      have ih := ih (by omega) h
      have hn1 := hni (a + e + f) (by omega) (by omega)
      have hn2 := hni (a + e + f + 1) (by omega) (by omega)
      have hc' := hcall (e + f) (by omega)
      rw [show a + (e + f) = a + e + f by omega] at hc'
      rcases (rank_step x hr t (a + e + f) hn1 hn2 hc'.1).2 with h' | ⟨⟨k, hk⟩, _⟩
      · show rk (x.ρ (a + e + f + 1)) t < _; omega
      · exfalso
        simp only [rk, hk, rank, hc'.2] at ih
        omega
  intro m hm1 hm2
  obtain ⟨e, rfl⟩ : ∃ e, m = a + e := ⟨m - a, by omega⟩
  have hc' := hcall e (by omega)
  have hlow : offS ((x.ρ a).fr t).count + 1 ≤ rk (x.ρ (a + e)) t := by
    apply Classical.byContradiction
    intro hlt
    have := hdown e (d - e) (by omega) (by omega)
    rw [show a + e + (d - e) = a + d by omega] at this
    have hb' := ((inSleep_iff_rank ((x.ρ (a + d)).fr t).count ((x.ρ (a + d)).post t) (inCall_of_inSleep hb)).1 hb).1
    rw [(hcall d (Nat.le_refl _)).2] at hb'
    simp only [rk] at this
    rw [(hcall d (Nat.le_refl _)).2] at this
    omega
  refine (inSleep_iff_rank ((x.ρ (a + e)).fr t).count ((x.ρ (a + e)).post t) hc'.1).2 ?_
  have hu := hup e (by omega)
  simp only [rk, hc'.2] at hlow hu
  rw [hc'.2]
  exact ⟨hlow, hu⟩

theorem waited_of_inSleep {s : State} {p : PC} {f : Frame} (h : inSleep p = true) (htf : TF s p f) :
    Waited s f f.count := by
  cases p <;> simp [inSleep] at h
  · rename_i u i l; cases u <;> simp [inSleep] at h; exact htf.1
  · rename_i u i st; cases u <;> simp [inSleep] at h; exact htf.1
  · exact htf.1
  · exact htf.1
  · exact htf.1

/-- `becameReady` (and the record) is stable over a step during which the caller stays in its sleep loop. -/
theorem ready_stepThr {s s' : State} {v t : Tid} {e : Ev} {k : Nat} {r : Rid} (hr : Reachable s)
    (hs : stepThr s v e = .ok s') (h1 : inSleep (s.pc t) = true) (h2 : inSleep (s'.pc t) = true)
    (hrec : (s.fr t).recs[k]? = some r) (hb : becameReady s t k r) :
    (s'.fr t).recs[k]? = some r ∧ becameReady s' t k r := by
  have hr' : Reachable s' := reachable_step (e := .thr v e) hr hs
  have hc := inCall_of_inSleep h1
  have hl := linv_of_reachable hr t
  have hil := inLoop_of_inSleep h1 hl
  have own := own_of_reachable hr
  have hmem : r ∈ (s.fr t).recs := List.mem_of_getElem? hrec
  have hlive := (own.own t r hc hil.frees hmem).1
  have hidx := own.idx t k r hc hil.frees hrec
  have hmono := mono_stepThr (t := v) hs
  -- the frame
  have hfr : (s'.fr t).recs = (s.fr t).recs ∧ (s'.fr t).objs = (s.fr t).objs := by
    by_cases hv : v = t
    · subst hv
      rcases quiet_or_structural hs with q | st
      · exact ⟨q.recs v, q.objs v⟩
      · cases st with
        | call mu dl objs nested hpc _ _ _ => rw [hpc] at h1; cases h1
        | init i r oid hpc _ _ _ _ => rw [hpc] at h1; cases h1
        | free hpc _ => rw [hpc] at h1; cases h1
        | ret r hpc _ => rw [hpc] at h1; cases h1
    · have := (others_stepThr hs t (fun h => hv h.symm)).2.2.2
      exact ⟨frSame_recs this, frSame_objs this⟩
  refine ⟨by rw [hfr.1]; exact hrec, ?_⟩
  unfold becameReady at hb ⊢
  rw [hfr.2]
  cases ho : (s.fr t).objs[k]? with
  | none => rw [ho] at hb; exact hb.elim
  | some o =>
    rw [ho] at hb
    have hknown : (s.obj o).known = true := known_of_reachable hr t hc o (List.mem_of_getElem? ho)
    cases o with
    | note n =>
      simp only at hb ⊢
      rcases hb with hb | hb
      · exact .inl (hmono.flag _ rfl hknown hb)
      · right; rw [hmono.expiry _ hknown]; exact expiredB_mono hmono.now hb
    | ctr c =>
      simp only at hb ⊢
      have hw := waited_of_inSleep h1 (tf_of_reachable hr t) k c (lt_count_of_objs ho) ho
      exact hmono.zero c hknown hb hw
    | cv c =>
      simp only at hb ⊢
      intro hq'
      have q' := (qinv_of_reachable hr').qi
      have q := (qinv_of_reachable hr).qi
      have hw' := (q'.q1 _ r hq').2.2.1
      rw [ho] at hidx
      have hobj : (s.rcd r).obj = .cv c := (Option.some.inj hidx).symm
      cases hw : (s.rcd r).waiting with
      | false =>
        obtain ⟨i2, hi2, hri2⟩ := hmono.wtrue r hw hw'
        have hlv := linv_of_reachable hr v
        have hvt : v = t := by
          rcases hi2 with hi | hi
          · rw [hi] at hlv
            exact owner_unique own (by rw [hi]; rfl) hlv.1.frees (List.mem_of_getElem? hri2) hc hil.frees hmem
          · rw [hi] at hlv
            exact owner_unique own (by rw [hi]; rfl) hlv.1.frees (List.mem_of_getElem? hri2) hc hil.frees hmem
        subst hvt
        rcases hi2 with hi | hi <;> (rw [hi] at h1; cases h1)
      | true =>
        rcases q.q3 r hlive hw with h | ⟨u, c1, l, hwk, hp⟩
        · rw [hobj] at h; exact hb h
        · have hp' : ∃ c' l', wk (s'.pc u) = some (c', l') ∧ r ∈ pend (s'.post u) l' := by
            by_cases huv : u = v
            · subst huv
              rcases pend_persist hwk hp hs with h | h
              · exact h
              · rw [h] at hw'; cases hw'
            · obtain ⟨h1', _, h3', _⟩ := others_stepThr hs u huv
              exact ⟨c1, l, by rw [h1']; exact hwk, by rw [h3']; exact hp⟩
          obtain ⟨c', l', hwk', hp'⟩ := hp'
          exact (q'.q4 u c' l' hwk').2.2 r hp' |>.2.2.2.2 _ hq'

/-- execution form -/
theorem ready_step (x : Exec s0) (hr : Reachable s0) (t : Tid) (m : Nat) {k : Nat} {r : Rid}
    (h1 : inSleep ((x.ρ m).pc t) = true) (h2 : inSleep ((x.ρ (m + 1)).pc t) = true)
    (hrec : ((x.ρ m).fr t).recs[k]? = some r) (hb : becameReady (x.ρ m) t k r) :
    ((x.ρ (m + 1)).fr t).recs[k]? = some r ∧ becameReady (x.ρ (m + 1)) t k r := by
  cases hs : x.σ m with
  | none => rw [x.next_none hs]; exact ⟨hrec, hb⟩
  | some ev =>
    have hstep := x.next_some hs
    cases ev with
    | tick ns =>
      have hle := (step_tick hstep).2
      rw [(step_tick hstep).1]
      refine ⟨hrec, ?_⟩
      unfold becameReady at hb ⊢
      show match ((x.ρ m).fr t).objs[k]? with
        | some (.note n) => ((x.ρ m).obj (.note n)).flag = true ∨ expiredB ((x.ρ m).obj (.note n)).expiry ns = true
        | some (.ctr c) => ((x.ρ m).obj (.ctr c)).value = 0
        | some (.cv c) => r ∉ ((x.ρ m).obj (.cv c)).queue
        | none => False
      cases ho : ((x.ρ m).fr t).objs[k]? with
      | none => rw [ho] at hb; exact hb.elim
      | some o =>
        rw [ho] at hb
        cases o with
        | note n => exact hb.elim .inl (fun h => .inr (expiredB_mono hle h))
        | ctr c => exact hb
        | cv c => exact hb
    | thr v e => exact ready_stepThr (x.reach hr m) (step_thr hstep) h1 h2 hrec hb

end WaitN
