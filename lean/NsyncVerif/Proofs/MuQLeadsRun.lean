import NsyncVerif.Proofs.MuQSoloAcq
import NsyncVerif.Proofs.MuQSoloRel
import NsyncVerif.Proofs.MuQSoloFrame
/-
  MuQ, leads-to (C02): schedules built from SOLO RUNS.

  `RunP cfg P s evs s'`: `evs` is accepted from `s`, ends in `s'`, and every step satisfies `P`.
  `QuietStep s e`: the step is taken by a thread that is neither a fresh contender for the lock
  (`freshPc`: fast paths of lock/rlock/trylock/rtrylock, lock_slow before its first sleep without
  the spinlock) nor idle holding nothing (so a `call` in such a schedule is always the unlock /
  runlock of a holder): no barging, no new acquisition, no environment event.

  Existence of solo runs (from `thread_enabled` + the solo ranks):
  * `solo_acq_exists`   a non-fresh acquiring thread, spinlock free or its own, can be run alone
                        until it has returned or is asleep; nobody else's program point, `held` or
                        asleep-status changes.
  * `solo_rel_exists`   a releasing thread can be run alone until it has returned.
  * `holder_release_exists`  a thread that owns a share (or is past its release point) can be run
                        alone — return from lock, call unlock/runlock, run to the return — until it
                        is idle holding nothing.
-/
namespace NsyncVerif.MuQ

def QuietStep (s : State) (e : Event) : Prop :=
  ∃ u, e.tid = some u ∧ ¬ freshPc (s.pc u) ∧ ¬ IdleHoldingNothing s u

inductive RunP (cfg : Cfg) (P : State → Event → Prop) : State → List Event → State → Prop
  | nil (s : State) : RunP cfg P s [] s
  | cons {s s1 s' : State} {e : Event} {es : List Event} :
      P s e → step cfg s e = .ok s1 → RunP cfg P s1 es s' → RunP cfg P s (e :: es) s'

theorem RunP.run_eq {cfg : Cfg} {P : State → Event → Prop} {s s' : State} {evs : List Event}
    (h : RunP cfg P s evs s') : run cfg s evs = .ok s' := by
  induction h with
  | nil s => rfl
  | cons hp hs _ ih => simp [run, hs, ih]

theorem RunP.append {cfg : Cfg} {P : State → Event → Prop} {s s1 s2 : State} {evs evs' : List Event}
    (h : RunP cfg P s evs s1) (h' : RunP cfg P s1 evs' s2) : RunP cfg P s (evs ++ evs') s2 := by
  induction h with
  | nil s => exact h'
  | cons hp hs _ ih => exact .cons hp hs (ih h')

theorem RunP.reachable {cfg : Cfg} {P : State → Event → Prop} {s s' : State} {evs : List Event}
    (h : RunP cfg P s evs s') (hr : Reachable cfg s) : Reachable cfg s' := by
  induction h with
  | nil s => exact hr
  | cons hp hs _ ih => exact ih (reachable_step hr hs)

theorem RunP.all {cfg : Cfg} {P : State → Event → Prop} {s s' : State} {evs : List Event}
    (h : RunP cfg P s evs s') {Q : Event → Prop} (hq : ∀ s e, P s e → Q e) : ∀ e ∈ evs, Q e := by
  induction h with
  | nil s => intro e he; cases he
  | cons hp hs _ ih =>
    intro e he
    rcases List.mem_cons.1 he with rfl | he
    · exact hq _ _ hp
    · exact ih e he

/-- Building a run by well-founded descent on a rank. -/
theorem runP_wf {cfg : Cfg} {P : State → Event → Prop} (Inv Tgt : State → Prop)
    (Fr : State → State → Prop) (rank : State → Nat)
    (frefl : ∀ s, Fr s s) (ftrans : ∀ a b c, Fr a b → Fr b c → Fr a c)
    (hstep : ∀ s, Inv s → ¬ Tgt s → ∃ e s', P s e ∧ step cfg s e = .ok s' ∧ Fr s s' ∧
      (Tgt s' ∨ (Inv s' ∧ rank s' < rank s))) :
    ∀ n s, rank s ≤ n → Inv s → ∃ evs s', RunP cfg P s evs s' ∧ Tgt s' ∧ Fr s s' := by
  intro n
  induction n with
  | zero =>
    intro s hn hi
    by_cases ht : Tgt s
    · exact ⟨[], s, .nil s, ht, frefl s⟩
    · obtain ⟨e, s', hp, hs, hf, h⟩ := hstep s hi ht
      rcases h with h | ⟨_, h⟩
      · exact ⟨[e], s', .cons hp hs (.nil s'), h, hf⟩
      · omega
  | succ n ih =>
    intro s hn hi
    by_cases ht : Tgt s
    · exact ⟨[], s, .nil s, ht, frefl s⟩
    · obtain ⟨e, s', hp, hs, hf, h⟩ := hstep s hi ht
      rcases h with h | ⟨hi', h⟩
      · exact ⟨[e], s', .cons hp hs (.nil s'), h, hf⟩
      · obtain ⟨evs, s'', hrun, ht'', hf''⟩ := ih s' (by omega) hi'
        exact ⟨e :: evs, s'', .cons hp hs hrun, ht'', ftrans _ _ _ hf hf''⟩

/-! ### the semaphore counts are bounded -/

def SemBound (a : AState) : Prop := ∃ M, ∀ k, (a.wr k).sem ≤ M

theorem semBound_step {cfg : Cfg} {a a' : AState} (h : SemBound a) (st : AStep cfg a a') : SemBound a' := by
  obtain ⟨M, hM⟩ := h
  obtain ⟨k, hk⟩ := astep_wr st
  refine ⟨max M (a'.wr k).sem, fun k' => ?_⟩
  by_cases e : k' = k
  · subst e; exact Nat.le_max_right _ _
  · rw [hk k' e]; exact Nat.le_trans (hM k') (Nat.le_max_left _ _)

theorem reachable_semBound {cfg : Cfg} {s : State} (h : Reachable cfg s) : ∃ M, ∀ k, (s.wr k).sem ≤ M :=
  reachable_ainv (P := SemBound) ⟨0, fun _ => Nat.le_refl _⟩ (fun _ _ hp st => semBound_step hp st) s h

/-! ### frames -/

/-- Only thread `u` moved (as far as program points and the client ghost are concerned). -/
def Frame (u : Tid) (s s' : State) : Prop :=
  ∀ t, t ≠ u → s'.pc t = s.pc t ∧ s'.held t = s.held t

/-- … and nobody else fell asleep or was woken. -/
def FrameA (u : Tid) (s s' : State) : Prop :=
  Frame u s s' ∧ ∀ t, t ≠ u → asleepB s' t = asleepB s t

/-- … and `held` did not change at all. -/
def FrameR (u : Tid) (s s' : State) : Prop :=
  (∀ t, t ≠ u → s'.pc t = s.pc t) ∧ s'.held = s.held

theorem Frame.refl (u : Tid) (s : State) : Frame u s s := fun _ _ => ⟨rfl, rfl⟩
theorem Frame.trans {u : Tid} {a b c : State} (h1 : Frame u a b) (h2 : Frame u b c) : Frame u a c :=
  fun t ht => ⟨by rw [(h2 t ht).1, (h1 t ht).1], by rw [(h2 t ht).2, (h1 t ht).2]⟩

theorem FrameA.refl (u : Tid) (s : State) : FrameA u s s := ⟨Frame.refl u s, fun _ _ => rfl⟩
theorem FrameA.trans {u : Tid} {a b c : State} (h1 : FrameA u a b) (h2 : FrameA u b c) : FrameA u a c :=
  ⟨h1.1.trans h2.1, fun t ht => by rw [h2.2 t ht, h1.2 t ht]⟩

theorem FrameR.refl (u : Tid) (s : State) : FrameR u s s := ⟨fun _ _ => rfl, rfl⟩
theorem FrameR.trans {u : Tid} {a b c : State} (h1 : FrameR u a b) (h2 : FrameR u b c) : FrameR u a c :=
  ⟨fun t ht => by rw [h2.1 t ht, h1.1 t ht], by rw [h2.2, h1.2]⟩

theorem FrameR.frame {u : Tid} {a b : State} (h : FrameR u a b) : Frame u a b :=
  fun t ht => ⟨h.1 t ht, by rw [h.2]⟩

theorem step_frame {cfg : Cfg} {s s' : State} {e : Event} {u : Tid}
    (h : step cfg s e = .ok s') (he : e.tid = some u) : Frame u s s' := by
  intro t ht
  have hne : e.tid ≠ some t := by rw [he]; intro e'; exact ht (Option.some.inj e').symm
  exact ⟨step_pc_other h hne, step_held_other h hne⟩

theorem relPc_not_fresh {p : PC} (h : relPc p = true) : ¬ freshPc p := by
  cases p <;> simp [relPc] at h <;> simp [freshPc]

/-! ### solo runs exist -/

/-- A non-fresh acquiring thread (`wokenPc`), with the spinlock free or its own, can be run alone
    until it has returned or is asleep on its semaphore. -/
theorem solo_acq_exists {cfg : Cfg} {s : State} {u : Tid} (hr : Reachable cfg s)
    (hpc : wokenPc (s.pc u) = true) (hsp : s.sp = none ∨ s.sp = some u) :
    ∃ evs s', RunP cfg QuietStep s evs s' ∧ (s'.pc u = .idle ∨ AsleepOnSem s' u) ∧ FrameA u s s' := by
  obtain ⟨M, hM⟩ := reachable_semBound hr
  refine runP_wf (cfg := cfg) (P := QuietStep)
    (fun s => Reachable cfg s ∧ (∀ k, (s.wr k).sem ≤ M) ∧ wokenPc (s.pc u) = true ∧ (s.sp = none ∨ s.sp = some u))
    (fun s => s.pc u = .idle ∨ AsleepOnSem s u) (FrameA u) (fun s => acqRank M s.word s.wr (s.pc u))
    (FrameA.refl u) (fun _ _ _ => FrameA.trans) ?_ _ s (Nat.le_refl _) ⟨hr, hM, hpc, hsp⟩
  intro s ⟨hr, hM, hpc, hsp⟩ htgt
  have hne : s.pc u ≠ .idle := fun h => htgt (Or.inl h)
  have hna : ¬ AsleepOnSem s u := fun h => htgt (Or.inr h)
  obtain ⟨e, he, _, _, s', hs⟩ := thread_enabled hr hne hna
  have hacq := wokenPc_acq hpc
  refine ⟨e, s', ⟨u, he, wokenPc_not_fresh hpc, fun h => hne h.1⟩, hs,
    ⟨step_frame hs he, fun t ht => acq_step_asleep_other hr hacq he hs ht⟩, ?_⟩
  rcases solo_acq_step hr hM hacq hsp he hs with hid | ⟨hM', _, hsp', hrk⟩
  · exact Or.inl (Or.inl hid)
  · rcases woken_step hpc he hs with hw | hid
    · exact Or.inr ⟨⟨reachable_step hr hs, hM', hw, hsp'⟩, hrk⟩
    · exact Or.inl (Or.inl hid)

/-- A releasing thread, with the spinlock free or its own, can be run alone until it has returned
    (the CASes on `remove_count` offered by `thread_enabled` succeed). -/
theorem solo_rel_exists {cfg : Cfg} {s : State} {u : Tid} (hr : Reachable cfg s)
    (hpc : relPc (s.pc u) = true) (hsp : s.sp = none ∨ s.sp = some u) :
    ∃ evs s', RunP cfg QuietStep s evs s' ∧ s'.pc u = .idle ∧ FrameR u s s' := by
  refine runP_wf (cfg := cfg) (P := QuietStep)
    (fun s => Reachable cfg s ∧ relPc (s.pc u) = true ∧ (s.sp = none ∨ s.sp = some u))
    (fun s => s.pc u = .idle) (FrameR u) (fun s => relRank s.word s.queue.length (s.pc u))
    (FrameR.refl u) (fun _ _ _ => FrameR.trans) ?_ _ s (Nat.le_refl _) ⟨hr, hpc, hsp⟩
  intro s ⟨hr, hpc, hsp⟩ htgt
  have hna : ¬ AsleepOnSem s u := by
    rintro ⟨c, k, hp, _⟩; rw [hp] at hpc; cases hpc
  obtain ⟨e, he, hrc, _, s', hs⟩ := thread_enabled hr htgt hna
  refine ⟨e, s', ⟨u, he, relPc_not_fresh hpc, fun h => htgt h.1⟩, hs,
    ⟨fun t ht => (step_frame hs he t ht).1, rel_step_held hpc he hs⟩, ?_⟩
  rcases solo_rel_step hr hpc hsp he hs with hid | ⟨hpc', hsp', hrk⟩
  · exact Or.inl hid
  · simp only [hrc, Bool.false_eq_true, if_false] at hrk
    exact Or.inr ⟨⟨reachable_step hr hs, hpc', hsp'⟩, hrk⟩

/-- Return points of the acquiring operations. -/
def retPc : PC → Bool
  | .lkRet _ | .tryRet _ _ => true
  | _ => false

/-- At a return point the only accepted own event is the `ret`. -/
theorem ret_only {cfg : Cfg} {s s1 : State} {e : Event} {t : Tid}
    (hret : retPc (s.pc t) = true) (he : e.tid = some t) (hs : step cfg s e = .ok s1) :
    ∃ hd, s1 = { setPc s t .idle with held := hd } := by
  cases e <;> simp only [Event.tid, Option.some.injEq, reduceCtorEq] at he <;> try subst he
  case ret t a res => exact stepRet_shape hs
  case call t a =>
    simp only [step, stepCall] at hs
    cases hp : s.pc t <;> simp [hp, retPc] at hret hs
  case ld t o loc obs =>
    simp only [step, stepLd] at hs
    cases hp : s.pc t <;> simp [hp, retPc] at hret hs
  case st t o loc new obs =>
    simp only [step, stepSt] at hs
    cases hp : s.pc t <;> simp [hp, retPc] at hret hs
  case cas t o loc exp new obs ok =>
    simp only [step, stepCas] at hs
    cases hp : s.pc t <;> simp [hp, retPc] at hret hs
  case semPEnter t k =>
    simp only [step] at hs
    cases hp : s.pc t <;> simp [hp, retPc] at hret hs
  case semPRet t k =>
    simp only [step] at hs
    cases hp : s.pc t <;> simp [hp, retPc] at hret hs
  case semV t k =>
    simp only [step] at hs
    cases hp : s.pc t <;> simp [hp, retPc] at hret hs

/-- Owns a share or is past the release point: will be idle holding nothing after returning,
    calling unlock / runlock and returning again. -/
def HolderLike (s : State) (u : Tid) : Prop :=
  (s.pc u = .idle ∧ s.held u ≠ none) ∨ retPc (s.pc u) = true ∨ relPc (s.pc u) = true

theorem holder_idle_exists {cfg : Cfg} {s : State} {u : Tid} (hr : Reachable cfg s)
    (hpc : s.pc u = .idle) (hh : s.held u ≠ none) (hsp : s.sp = none ∨ s.sp = some u) :
    ∃ evs s', RunP cfg QuietStep s evs s' ∧ s'.pc u = .idle ∧ s'.held u = none ∧ Frame u s s' := by
  cases hm : s.held u with
  | none => exact absurd hm hh
  | some m =>
    -- the call of unlock / runlock
    let a : Api := match m with | .W => .unlock | .R => .runlock
    have hstep : step cfg s (.call u a) = .ok { setPc s u (.ulCas0 m) with held := setFn s.held u none } := by
      cases m <;> simp [a, step, stepCall, hpc, hm]
    have hr1 := reachable_step hr hstep
    obtain ⟨evs, s', hrun, hid, hf⟩ := solo_rel_exists (u := u) hr1 (by simp [setPc, relPc]) (by simpa [setPc] using hsp)
    have hq : QuietStep s (.call u a) := ⟨u, rfl, by rw [hpc]; simp [freshPc], fun h => hh h.2⟩
    refine ⟨_ :: evs, s', .cons hq hstep hrun, hid, ?_, (step_frame hstep rfl).trans hf.frame⟩
    rw [hf.2]; simp

theorem holder_release_exists {cfg : Cfg} {s : State} {u : Tid} (hr : Reachable cfg s)
    (hl : HolderLike s u) (hsp : s.sp = none ∨ s.sp = some u) :
    ∃ evs s', RunP cfg QuietStep s evs s' ∧ s'.pc u = .idle ∧ s'.held u = none ∧ Frame u s s' := by
  rcases hl with ⟨hpc, hh⟩ | hret | hrel
  · exact holder_idle_exists hr hpc hh hsp
  · -- return from the acquiring call first
    have hne : s.pc u ≠ .idle := by intro h; rw [h] at hret; cases hret
    have hna : ¬ AsleepOnSem s u := by
      rintro ⟨c, k, hp, _⟩; rw [hp] at hret; cases hret
    have hnf : ¬ freshPc (s.pc u) := by
      cases hp : s.pc u <;> simp [hp, retPc] at hret <;> simp [freshPc]
    obtain ⟨e, he, _, _, s1, hs⟩ := thread_enabled hr hne hna
    have hq : QuietStep s e := ⟨u, he, hnf, fun h => hne h.1⟩
    have hr1 := reachable_step hr hs
    have hshape := ret_only hret he hs
    have hid1 : s1.pc u = .idle := by obtain ⟨hd, rfl⟩ := hshape; simp [setPc]
    have hsp1 : s1.sp = none ∨ s1.sp = some u := by obtain ⟨hd, rfl⟩ := hshape; simpa [setPc] using hsp
    by_cases hh1 : s1.held u = none
    · exact ⟨[e], s1, .cons hq hs (.nil s1), hid1, hh1, step_frame hs he⟩
    · obtain ⟨evs, s', hrun, hid, hh', hf⟩ := holder_idle_exists hr1 hid1 hh1 hsp1
      exact ⟨e :: evs, s', .cons hq hs hrun, hid, hh', (step_frame hs he).trans hf⟩
  · have hne : s.pc u ≠ .idle := by intro h; rw [h] at hrel; cases hrel
    have hnone : s.held u = none := held_none_of_active (reachable_side hr).2 hne
    obtain ⟨evs, s', hrun, hid, hf⟩ := solo_rel_exists hr hrel hsp
    exact ⟨evs, s', hrun, hid, by rw [hf.2]; exact hnone, hf.frame⟩

end NsyncVerif.MuQ
