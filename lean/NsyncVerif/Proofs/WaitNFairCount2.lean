/-
  Proofs/WaitNFairCount2.lean — WaitN layer, liveness, token counting: `Eff` for every step function and for `stepThr`;
  a wake-up consumes a token (`wake_dec`).
-/
import NsyncVerif.Proofs.WaitNFairCount1

set_option linter.unusedSimpArgs false
set_option linter.unusedVariables false

namespace WaitN

/-- closes `Eff s s' t e` at an accepting leaf -/
macro "eff_leaf" h:ident : tactic => `(tactic| first
  | exact eff_dflt $h
  | exact Eff.of_keep ((keep_rtDone $h).1.trans rfl) ((keep_rtDone $h).2.trans rfl)
  | exact Eff.of_keep ((keep_deqDone $h).1.trans rfl) ((keep_deqDone $h).2.trans rfl)
  | exact Eff.of_keep ((keep_afterEnq $h).1.trans rfl) ((keep_afterEnq $h).2.trans rfl)
  | exact eff_spinAcq $h
  | exact eff_stepOpen $h
  | (cases $h:ident; exact Eff.of_keep rfl rfl))

theorem eff_stepSg {s s' : State} {t : Tid} {c : Nat} {bc : Bool} {st : SgSt} {e : Ev} (hpc : s.pc t = .sg c bc st)
    (h : stepSg s t c bc st e = .ok s') : Eff s s' t e := by
  unfold stepSg at h
  split_ok h
  all_goals first
    | eff_leaf h
    | (cases h
       rename_i r rest r' new obs hpost hc
       exact ⟨fun k hk => absurd hk (Nat.lt_irrefl _),
         .inr (.inr ⟨r, by simp, hpost, by simp, .inl ⟨c, bc, _, hpc, rfl⟩⟩)⟩)
    | (cases h
       have hk := keep_postSem ‹postSem _ _ _ = some _›
       refine ⟨fun k hk' => ?_, .inr (.inl (by simp))⟩
       simp only [setPc_sem, setPost_sem, setSem_sem, hk.1] at hk'
       split at hk'
       · subst_vars; rfl
       · exact absurd hk' (Nat.lt_irrefl _))

theorem eff_stepCtrRT {s s' : State} {t : Tid} {u : Use} {i : Nat} {l : Bool} {e : Ev}
    (h : stepCtrRT s t u i l e = .ok s') : Eff s s' t e := by
  unfold stepCtrRT at h
  split_ok h <;> eff_leaf h

theorem eff_stepND {s s' : State} {t : Tid} {u : Use} {i : Nat} {st : NDst} {e : Ev}
    (h : stepND s t u i st e = .ok s') : Eff s s' t e := by
  unfold stepND at h
  split_ok h <;> eff_leaf h

theorem eff_stepEnqCv {s s' : State} {t : Tid} {i : Nat} {st : CvEnqSt} {e : Ev}
    (h : stepEnqCv s t i st e = .ok s') : Eff s s' t e := by
  unfold stepEnqCv at h
  split_ok h <;> eff_leaf h

theorem eff_stepEnq {s s' : State} {t : Tid} {i : Nat} {st : EnqSt} {e : Ev}
    (h : stepEnq s t i st e = .ok s') : Eff s s' t e := by
  unfold stepEnq at h
  split_ok h <;> eff_leaf h

theorem eff_stepDeqCv {s s' : State} {t : Tid} {j : Nat} {st : CvDeqSt} {e : Ev}
    (h : stepDeqCv s t j st e = .ok s') : Eff s s' t e := by
  unfold stepDeqCv at h
  split_ok h <;> eff_leaf h

theorem eff_stepDeq {s s' : State} {t : Tid} {j : Nat} {st : DeqSt} {e : Ev}
    (h : stepDeq s t j st e = .ok s') : Eff s s' t e := by
  unfold stepDeq at h
  split_ok h <;> eff_leaf h

theorem eff_stepAlloc {s s' : State} {t : Tid} {e : Ev} (h : stepAlloc s t e = .ok s') : Eff s s' t e := by
  unfold stepAlloc at h
  split_ok h <;> eff_leaf h

theorem eff_stepInit {s s' : State} {t : Tid} {i : Nat} {e : Ev} (h : stepInit s t i e = .ok s') : Eff s s' t e := by
  unfold stepInit at h
  split_ok h <;> eff_leaf h

theorem eff_stepUnlockMu {s s' : State} {t : Tid} {e : Ev} (h : stepUnlockMu s t e = .ok s') : Eff s s' t e := by
  unfold stepUnlockMu at h
  split_ok h <;> eff_leaf h

theorem eff_stepCvRT {s s' : State} {t : Tid} {j : Nat} {e : Ev} (h : stepCvRT s t j e = .ok s') : Eff s s' t e := by
  unfold stepCvRT at h
  split_ok h <;> eff_leaf h

theorem eff_stepPdEnter {s s' : State} {t : Tid} {e : Ev} (h : stepPdEnter s t e = .ok s') : Eff s s' t e := by
  unfold stepPdEnter at h
  split_ok h
  all_goals first
    | eff_leaf h
    | (cases h
       have hk := keep_bindSem ‹bindSem _ _ _ = some _›
       exact Eff.of_keep hk.1 hk.2)

theorem eff_stepPdWait {s s' : State} {t : Tid} {j : SemId} {e : Ev} (h : stepPdWait s t j e = .ok s') : Eff s s' t e := by
  unfold stepPdWait at h
  split_ok h
  all_goals first
    | eff_leaf h
    | (cases h
       refine ⟨fun k hk => ?_, .inl rfl⟩
       simp only [startScan, setPc_sem, setFr_sem, setSem_sem] at hk
       split at hk
       · subst_vars; omega
       · exact absurd hk (Nat.lt_irrefl _))

theorem eff_stepFree {s s' : State} {t : Tid} {e : Ev} (h : stepFree s t e = .ok s') : Eff s s' t e := by
  unfold stepFree at h
  split_ok h <;> eff_leaf h

theorem eff_stepRelock {s s' : State} {t : Tid} {e : Ev} (h : stepRelock s t e = .ok s') : Eff s s' t e := by
  unfold stepRelock at h
  split_ok h <;> eff_leaf h

theorem eff_stepRet {s s' : State} {t : Tid} {r : Nat} {e : Ev} (h : stepRet s t r e = .ok s') : Eff s s' t e := by
  unfold stepRet at h
  split_ok h <;> eff_leaf h

theorem eff_stepIdle {s s' : State} {t : Tid} {e : Ev} (h : stepIdle s t e = .ok s') : Eff s s' t e := by
  unfold stepIdle at h
  split_ok h <;> eff_leaf h

theorem eff_stepThr {s s' : State} {t : Tid} {e : Ev} (h : stepThr s t e = .ok s') : Eff s s' t e := by
  unfold stepThr at h
  split at h <;> rename_i hpc
  · exact eff_stepIdle h
  · simp at h
  · exact eff_stepSg hpc h
  · exact eff_stepCtrRT h
  · exact eff_stepND h
  · exact eff_stepEnqCv h
  · exact eff_stepEnq h
  · exact eff_stepDeqCv h
  · exact eff_stepDeq h
  · exact eff_stepAlloc h
  · exact eff_stepInit h
  · exact eff_stepUnlockMu h
  · exact eff_stepCvRT h
  · exact eff_stepPdEnter h
  · exact eff_stepPdWait h
  · exact eff_stepFree h
  · exact eff_stepRelock h
  · exact eff_stepRet h

/-- the wake-up `pd_ret 0` of the P of wait.c:78 consumes a token -/
theorem wake_dec {s s' : State} {t : Tid} {k : SemId} (hpc : s.pc t = .wPdWait k)
    (h : stepThr s t (.pdRet k false) = .ok s') : s'.sem k < s.sem k := by
  unfold stepThr at h
  rw [hpc] at h
  simp only [stepPdWait] at h
  split_ok h
  all_goals first
    | (simp_all; done)
    | (cases h; simp_all [startScan]; done)

end WaitN
