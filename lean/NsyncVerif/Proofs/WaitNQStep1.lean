/-
  Proofs/WaitNQStep1.lean — `QI ∧ CF` across the caller's own steps, part 1: rtDone, counter_ready_time,
  cv_ready_time.
-/
import NsyncVerif.Proofs.WaitNQOwn

set_option linter.unusedSimpArgs false
set_option linter.unusedVariables false

namespace WaitN

theorem opn_false_of_inCall {p : PC} (h : inCall p = true) (hn : isNfWake p = false) : opn p = false := by
  cases p with
  | idle => simp [inCall] at h
  | sg c bc st => simp [inCall] at h
  | wND u i st => cases st <;> simp [isNfWake] at hn <;> rfl
  | _ => rfl

/-- all records of the frame are still unmarked (before the dequeue loop) -/
def NoneDeqd (s : State) (f : Frame) : Prop := ∀ (k : Nat) (r : Rid), f.recs[k]? = some r → (s.rcd r).deqd = false

theorem plain_of_pc {s' : State} {t : Tid} {p : PC} (hp : s'.pc t = p) (h : Plain p (s'.fr t)) :
    Plain (s'.pc t) (s'.fr t) := by rw [hp]; exact h

theorem noneDeqd_of_cf {s : State} {t : Tid} (h : CF s t) (hc : inCall (s.pc t) = true) (hf : (s.fr t).frees = 0)
    (h0 : dqIdx (s.pc t) (s.fr t) = 0) : NoneDeqd s (s.fr t) := by
  intro k r hr
  have := h.dq hc hf k r hr
  rw [h0] at this
  cases hd : (s.rcd r).deqd with
  | false => rfl
  | true => exact absurd (this.1 hd) (Nat.not_lt_zero _)

theorem dq_of_noneDeqd {s : State} {f : Frame} {p : PC} (h : NoneDeqd s f) (h0 : dqIdx p f = 0) :
    ∀ k r, f.recs[k]? = some r → ((s.rcd r).deqd = true ↔ k < dqIdx p f) := by
  intro k r hr
  rw [h0, h k r hr]
  simp

/-- a `ready_time` call ends (poll or loop): the caller lands at a plain program point -/
theorem qcf_rtDone {s s' : State} {t : Tid} {u : Use} {i : Nat} {time : Deadline} (c : QCtx s t)
    (hu : u ≠ .deq) (hc : inCall (s.pc t) = true) (hnop : opn (s.pc t) = false)
    (h0 : dqIdx (s.pc t) (s.fr t) = 0) (hfr : (s.fr t).frees = 0) (hlen : (s.fr t).recs.length ≤ (s.fr t).count)
    (hpoll : u = .poll → (s.fr t).recs = [])
    (h : rtDone s t u i time = .ok s') : QI s' ∧ CF s' t := by
  have hpost := post_none_of_pc c.qi hnop
  have hmc := mc_none_of_pc c.qi hnop
  have hw0 := wk_none_of_opn hnop
  have hnd := noneDeqd_of_cf c.cf hc hfr h0
  unfold rtDone at h
  cases u with
  | deq => exact absurd rfl hu
  | poll =>
    simp only at h
    have hr0 := hpoll rfl
    split at h
    · cases h
      refine ⟨qi_setPc (qi_setFr c.qi) hw0 rfl hpost hmc, cf_plain (plain_of_pc (p := .wRet i) (by simp) ⟨rfl, rfl, rfl, rfl⟩) ?_⟩
      intro _ _ k r hk
      simp only [setPc_fr, setFr_fr, if_true, hr0] at hk
      cases hk
    · cases h
      have hpl := plain_pollNext (s.fr t) (i + 1)
      refine ⟨qi_setPc c.qi hw0 ?_ hpost hmc, cf_plain (by simpa using hpl) ?_⟩
      · have := hpl.1
        cases hp : pollNext (s.fr t) (i + 1) <;> simp [wk]
        rename_i cc bc st
        have := inCall_pollNext (s.fr t) (i + 1)
        rw [hp] at this; simp [inCall] at this
      · intro _ _ k r hk
        simp only [setPc_fr, hr0] at hk
        cases hk
  | loop =>
    simp only at h
    cases h
    have key : ∀ f' : Frame, f'.recs = (s.fr t).recs → f'.objs = (s.fr t).objs → f'.frees = (s.fr t).frees →
        QI ((s.setFr t f').setPc t (loopNext f' (i + 1))) ∧ CF ((s.setFr t f').setPc t (loopNext f' (i + 1))) t := by
      intro f' h1 h2 h3
      have hlen' : f'.recs.length ≤ f'.count := by unfold Frame.count; rw [h1, h2]; exact hlen
      have hpl := plain_loopNext f' (i + 1)
      refine ⟨qi_setPc (qi_setFr c.qi) hw0 ?_ hpost hmc, cf_plain (by simpa using hpl) ?_⟩
      · have hic := inCall_loopNext f' (i + 1)
        cases hp : loopNext f' (i + 1) <;> simp [wk]
        rw [hp] at hic; simp [inCall] at hic
      · intro _ _ k r hk
        simp only [setPc_fr, setFr_fr, if_true, setPc_pc, setPc_rcd, setFr_rcd] at hk ⊢
        rw [h1] at hk
        rw [dqIdx_loopNext f' (i + 1) hlen', hnd k r hk]; simp
    split
    · exact key _ rfl rfl rfl
    · split
      · exact key _ rfl rfl rfl
      · exact key _ rfl rfl rfl

theorem wk_none_of_inCall {p : PC} (h : inCall p = true) : wk p = none := by
  cases p <;> simp [inCall] at h <;> rfl

/-- the enqueue loop moves on -/
theorem qcf_afterEnq {s s' : State} {t : Tid} {i : Nat} {res : Bool} (hqi : QI s) (hnd : NoneDeqd s (s.fr t))
    (hw0 : wk (s.pc t) = none) (hpost : s.post t = none) (hmc : s.mc t = .none)
    (hlen : (s.fr t).recs.length ≤ (s.fr t).count)
    (h : afterEnq s t i res = .ok s') : QI s' ∧ CF s' t := by
  unfold afterEnq at h
  dsimp only at h
  cases h
  have key : ∀ f' : Frame, f'.recs = (s.fr t).recs → f'.objs = (s.fr t).objs →
      QI ((s.setFr t f').setPc t (enqNext f' i res)) ∧ CF ((s.setFr t f').setPc t (enqNext f' i res)) t := by
    intro f' h1 h2
    have hlen' : f'.recs.length ≤ f'.count := by unfold Frame.count; rw [h1, h2]; exact hlen
    refine ⟨qi_setPc (qi_setFr hqi) hw0 (wk_none_of_inCall (inCall_enqNext _ _ _)) hpost hmc,
            cf_plain (by simpa using plain_enqNext f' i res) ?_⟩
    intro _ _ k r hk
    simp only [setPc_fr, setFr_fr, if_true, setPc_pc, setPc_rcd, setFr_rcd] at hk ⊢
    rw [h1] at hk
    rw [dqIdx_enqNext f' i res hlen', hnd k r hk]; simp
  split
  · exact key _ rfl rfl
  · exact key _ rfl rfl

/-- a new scan of the sleep loop -/
theorem qcf_startScan {s : State} {t : Tid} (hqi : QI s) (hnd : NoneDeqd s (s.fr t))
    (hw0 : wk (s.pc t) = none) (hpost : s.post t = none) (hmc : s.mc t = .none)
    (hlen : (s.fr t).recs.length ≤ (s.fr t).count) : QI (startScan s t) ∧ CF (startScan s t) t := by
  unfold startScan
  dsimp only
  have hlen' : ({ s.fr t with min := (s.fr t).dl, who := none } : Frame).recs.length
      ≤ ({ s.fr t with min := (s.fr t).dl, who := none } : Frame).count := hlen
  refine ⟨qi_setPc (qi_setFr hqi) hw0 (wk_none_of_inCall (inCall_loopNext _ _)) hpost hmc,
          cf_plain (by simpa using plain_loopNext _ 0) ?_⟩
  intro _ _ k r hk
  simp only [setPc_fr, setFr_fr, if_true, setPc_pc, setPc_rcd, setFr_rcd] at hk ⊢
  rw [dqIdx_loopNext _ 0 hlen', hnd k r hk]; simp

/-- a dequeue call is over -/
theorem qcf_deqDone {s s' : State} {t : Tid} {j : Nat} {res : Bool} (hqi : QI s)
    (hdq : ∀ (k : Nat) (r : Rid), (s.fr t).recs[k]? = some r → ((s.rcd r).deqd = true ↔ k < j + 1))
    (hw0 : wk (s.pc t) = none) (hpost : s.post t = none) (hmc : s.mc t = .none)
    (hj : j < (s.fr t).recs.length) (hlen : (s.fr t).recs.length ≤ (s.fr t).count)
    (h : deqDone s t j res = .ok s') : QI s' ∧ CF s' t := by
  unfold deqDone at h
  dsimp only at h
  split at h
  · rename_i hlt
    cases h
    refine ⟨qi_setPc (qi_setFr hqi) hw0 (wk_none_of_inCall (inCall_deqNext _ _)) hpost hmc,
            cf_plain (by simpa using plain_deqNext _ (j + 1)) ?_⟩
    intro _ _ k r hk
    simp only [setPc_fr, setFr_fr, if_true, setPc_pc, setPc_rcd, setFr_rcd] at hk ⊢
    rw [dqIdx_deqNext (by simpa using Nat.le_of_lt hlt) (by simpa [Frame.count] using hlen)]
    exact hdq k r hk
  · rename_i hlt
    cases h
    have hrl : (s.fr t).recs.length = j + 1 := by simp at hlt; omega
    have hfr : ∀ x, ((unbindSem (s.setFr t x) t).fr t).recs = x.recs := by
      intro x; unfold unbindSem; split <;> simp
    have hrc : ∀ x, (unbindSem (s.setFr t x) t).rcd = s.rcd := by
      intro x; unfold unbindSem; split <;> rfl
    have hpc0 : ∀ x, (unbindSem (s.setFr t x) t).pc = s.pc := by
      intro x; unfold unbindSem; split <;> rfl
    have hpo0 : ∀ x, (unbindSem (s.setFr t x) t).post = s.post := by
      intro x; unfold unbindSem; split <;> rfl
    have hmc0 : ∀ x, (unbindSem (s.setFr t x) t).mc = s.mc := by
      intro x; unfold unbindSem; split <;> rfl
    refine ⟨qi_setPc (qi_unbindSem (qi_setFr hqi)) (by rw [hpc0]; exact hw0) (wk_none_of_inCall (inCall_finNext _))
              (by rw [hpo0]; exact hpost) (by rw [hmc0]; exact hmc),
            cf_plain (by simpa using plain_finNext _) ?_⟩
    intro _ _ k r hk
    simp only [setPc_fr, setPc_pc, if_true, setPc_rcd] at hk ⊢
    rw [dqIdx_finNext, hfr, hrc]
    rw [hfr] at hk
    simp only at hk ⊢
    rw [hrl]; exact hdq k r hk

end WaitN
