/-
  Layer `Note`, invariant family G (no use after free), fifth part: preservation of the two facts
  about the end of `nsync_note_free`, and the invariant.
-/
import NsyncVerif.Proofs.NoteFixG4

set_option linter.unusedSimpArgs false

namespace Note

/-- The acting thread reaches / stays in the part of `nsync_note_free (n)` after the last
    WAIT_FOR_NO_CHILDREN: `n` has neither parent nor children. -/
theorem done_actor {s s' : State} {e : Event} (hr : Reachable s) (hG : InvLive s)
    (hs : step s e = .ok s') (t : Tid) (ha : e.actor = some t) {pos' : FPos} {n : NoteId}
    {par : Option NoteId} {c : NoteId} {nx : Option NoteId}
    (hpc' : s'.pc t = .fr pos' n par c nx) (haw : pos'.afterWait = true) :
    (s'.notes n).parent = none ∧ (s'.notes n).children = [] := by
  have hF := hr.invForest
  have hL := hr.inv6.2.2.2.2.1
  cases e
  all_goals step_cases hs
  all_goals simp only [Event.actor, Option.some.injEq, reduceCtorEq] at ha
  all_goals (try subst ha)
  nrel_pc_cases hpc'
  all_goals (try (cases hpc'; simp [FPos.afterWait] at haw; done))
  -- inside the last part already
  all_goals (try (
    cases hpc'
    have := hG.done _ _ _ _ _ _ ‹s.pc _ = _› rfl
    simpa using this
    done))
  -- leaving the last WAIT_FOR_NO_CHILDREN, with a parent: the disconnection
  all_goals (try (
    have hpc := ‹s.pc _ = PC.fr (FPos.waitRet _) _ (some _) _ _›
    have hch := ‹(s.notes _).children = []›
    cases hpc'
    have hne := ((hL.claim_of hpc).2.1 _ rfl).2
    refine ⟨by simp, ?_⟩
    simp [hne.symm, hch]
    done))
  -- … without parent
  all_goals (
    have hpc := ‹s.pc _ = PC.fr (FPos.waitRet _) _ none _ _›
    have hch := ‹(s.notes _).children = []›
    cases hpc'
    have hst := hF.stale _ _ _ (by rw [hpc]; rfl)
    refine ⟨by simpa using hst, by simpa using hch⟩)

/-- … and this is preserved by the steps of the other threads. -/
theorem done_other {s s' : State} {e : Event} (hr : Reachable s) (hG : InvLive s)
    (hs : step s e = .ok s') (t : Tid) {pos : FPos} {n : NoteId}
    {par : Option NoteId} {c : NoteId} {nx : Option NoteId}
    (hpc : s.pc t = .fr pos n par c nx) (haw : pos.afterWait = true) :
    (s'.notes n).parent = none ∧ (s'.notes n).children = [] := by
  have hF := hr.invForest
  have hU := hr.invU
  have hR := hr.invR
  have hA := hr.inv6.1
  obtain ⟨hd1, hd2⟩ := hG.done t pos n par c nx hpc haw
  have hsole := hU.sole t n (by rw [hpc]; rfl)
  constructor
  · cases hp : (s'.notes n).parent with
    | none => rfl
    | some q =>
      exfalso
      rcases step_parent hs q n hp with h | ⟨a, dl, _, hpa⟩ | ⟨a, n0, nx0, _, hpa⟩
      · rw [hd1] at h; cases h
      · have h1 := hR.pub t n (by rw [hsole]; simp)
        rw [(hA.creating a n (by rw [hpa]; rfl)).2] at h1; cases h1
      · have := hF.c2p n0 n (hF.frc a _ _ _ _ _ hpa rfl)
        rw [hd1] at this; cases this
  · cases hc : (s'.notes n).children with
    | nil => rfl
    | cons x xs =>
      exfalso
      rcases step_children' hs n x (by rw [hc]; simp) with h | ⟨a, dl, _, hpa, _⟩ |
        ⟨a, n0, nx0, _, hpa, _⟩
      · rw [hd2] at h; cases h
      · have : a ∈ s.users n := (hU.users a n).mpr (by rw [hpa]; rfl)
        rw [hsole] at this
        obtain rfl := List.mem_singleton.mp this
        rw [hpc] at hpa; cases hpa
      · have h1 := hF.linked a n0 n (by rw [hpa]; rfl)
        have := hr.invT.p2c n n0 h1
        rw [hd2] at this; cases this

/-- Nobody is about to acquire the mutex of a note whose `nsync_note_free` has left its last
    WAIT_FOR_NO_CHILDREN — except that call itself. -/
theorem no_acquire_done {s : State} (hr : Reachable s) (hG : InvLive s) {t : Tid} {pos : FPos}
    {n : NoteId} {par : Option NoteId} {c : NoteId} {nx : Option NoteId}
    (hpc : s.pc t = .fr pos n par c nx) (haw : pos.afterWait = true) {u : Tid}
    (hw : (s.pc u).wants = some n ∨ (∃ n' nk, s.pc u = .nfy .tryRet n' (some n) nk) ∨
      (∃ n' c' nx', s.pc u = .fr .tryRet n' (some n) c' nx')) : u = t := by
  have hF := hr.invForest
  have hU := hr.invU
  have hR := hr.invR
  have hA := hr.inv6.1
  have hL := hr.inv6.2.2.2.2.1
  obtain ⟨hd1, hd2⟩ := hG.done t pos n par c nx hpc haw
  have hsole := hU.sole t n (by rw [hpc]; rfl)
  -- a thread whose call is on `n`, or that is creating `n`
  have self : (s.pc u).arg = some n ∨ (s.pc u).creating = some n → u = t := by
    rintro (h | h)
    · have : u ∈ s.users n := (hU.users u n).mpr h
      rw [hsole] at this; exact List.mem_singleton.mp this
    · have h1 := hR.pub t n (by rw [hsole]; simp)
      rw [(hA.creating u n h).2] at h1; cases h1
  -- a thread whose local `parent` is `n` and that has not yet seen its note disconnected
  have lnk : ∀ m, (s.pc u).linked = some (m, n) → False := by
    intro m h
    have := hr.invT.p2c n m (hF.linked u m n h)
    rw [hd2] at this; cases this
  -- a thread that has selected `n` in a children list
  have chl : ∀ q, n ∈ (s.notes q).children → False := by
    intro q h
    have := hF.c2p q n h
    rw [hd1] at this; cases this
  rcases hw with hw | ⟨n', nk, hpu⟩ | ⟨n', c', nx', hpu⟩
  · cases hpu : s.pc u with
    | dl p m nt dk =>
      rw [hpu] at hw
      cases p <;> simp [PC.wants] at hw
      subst hw
      refine self ?_
      rw [hpu]
      cases dk <;> simp [PC.arg, DK.arg]
    | nfy p m par' nk =>
      rw [hpu] at hw
      cases p <;> simp [PC.wants] at hw
      · subst hw
        refine self ?_
        rw [hpu]
        cases nk with
        | ofApi => simp [PC.arg, NK.arg]
        | ofDeadline dk => cases dk <;> simp [PC.arg, NK.arg, DK.arg]
      · subst hw; exact (lnk m (by rw [hpu]; rfl)).elim
      · subst hw
        refine self ?_
        rw [hpu]
        cases nk with
        | ofApi => simp [PC.arg, NK.arg]
        | ofDeadline dk => cases dk <;> simp [PC.arg, NK.arg, DK.arg]
    | chd p stk top =>
      rw [hpu] at hw
      cases p with
      | lockChildRet c0 =>
        simp [PC.wants] at hw
        subst hw
        cases stk with
        | nil => exact absurd hpu (hL.chd_ne_nil u _ _)
        | cons f rest => exact (chl _ (hF.chc u _ _ _ _ _ hpu rfl)).elim
      | waitRet b =>
        cases b <;> simp [PC.wants] at hw
        cases stk with
        | nil => simp at hw
        | cons f rest =>
          simp at hw
          cases rest with
          | nil =>
            have hft : f.note = top.n := by simpa using (hL.claim_of hpu).2.2.1
            refine self ?_
            rw [hpu, ← hw, hft]
            cases hk : top.k with
            | ofApi => simp [PC.arg, hk, NK.arg]
            | ofDeadline dk => cases dk <;> simp [PC.arg, hk, NK.arg, DK.arg]
          | cons g gs =>
            have := hF.chain u _ _ _ hpu
            simp only [List.map_cons, ChainCur] at this
            rw [hw] at this
            exact (chl _ this.1).elim
      | _ => simp [PC.wants] at hw
    | newP p m q dl =>
      rw [hpu] at hw
      cases p <;> simp [PC.wants] at hw
      subst hw
      exact self (Or.inl (by rw [hpu]; rfl))
    | fr p m par' c0 nx0 =>
      rw [hpu] at hw
      cases p with
      | waitRet b =>
        cases b <;> simp [PC.wants] at hw
        subst hw; exact self (Or.inl (by rw [hpu]; rfl))
      | lockRet => simp [PC.wants] at hw; subst hw; exact self (Or.inl (by rw [hpu]; rfl))
      | sLockNRet => simp [PC.wants] at hw; subst hw; exact self (Or.inl (by rw [hpu]; rfl))
      | sLockPRet => simp [PC.wants] at hw; subst hw; exact (lnk m (by rw [hpu]; rfl)).elim
      | lockChildRet =>
        simp [PC.wants] at hw; subst hw
        exact (chl _ (hF.frc u _ _ _ _ _ hpu rfl)).elim
      | _ => simp [PC.wants] at hw
    | wt p m wdl r =>
      rw [hpu] at hw
      cases p <;> simp [PC.wants] at hw <;> subst hw <;> exact self (Or.inl (by rw [hpu]; rfl))
    | _ => rw [hpu] at hw; simp [PC.wants] at hw
  · exact (lnk n' (by rw [hpu]; rfl)).elim
  · exact (lnk n' (by rw [hpu]; rfl)).elim

/-- The acting thread releases `n->note_mu` for the last time / is past that point. -/
theorem quiet_actor {s s' : State} {e : Event} (hG : InvLive s)
    (hs : step s e = .ok s') (t : Tid) (ha : e.actor = some t) {pos' : FPos} {n : NoteId}
    {par : Option NoteId} {c : NoteId} {nx : Option NoteId}
    (hpc' : s'.pc t = .fr pos' n par c nx) (hrel : pos'.released = true) :
    (s'.notes n).lockHolder = none := by
  cases e
  all_goals step_cases hs
  all_goals simp only [Event.actor, Option.some.injEq, reduceCtorEq] at ha
  all_goals (try subst ha)
  nrel_pc_cases hpc'
  all_goals (try (cases hpc'; simp [FPos.released] at hrel; done))
  -- past the release already
  all_goals (try (
    cases hpc'
    have := hG.quiet _ _ _ _ _ _ ‹s.pc _ = _› rfl
    simpa using this
    done))
  -- the release
  all_goals (
    cases hpc'
    simp_all)

theorem step_invLive {s s' : State} {e : Event} (hr : Reachable s) (hG : InvLive s)
    (hs : step s e = .ok s') : InvLive s' := by
  refine ⟨hG.step_child hr hs, hG.step_held hr hs, ?_, ?_⟩
  · intro t pos n par c nx hpc' haw
    by_cases ha : e.actor = some t
    · exact done_actor hr hG hs t ha hpc' haw
    · rw [step_pc_other hs t ha] at hpc'
      exact done_other hr hG hs t hpc' haw
  · intro t pos n par c nx hpc' hrel
    by_cases ha : e.actor = some t
    · exact quiet_actor hG hs t ha hpc' hrel
    · rw [step_pc_other hs t ha] at hpc'
      have hq := hG.quiet t pos n par c nx hpc' hrel
      cases hl : (s'.notes n).lockHolder with
      | none => rfl
      | some u =>
        exfalso
        obtain ⟨hau, hw⟩ := step_acquire hs n u hl (by rw [hq]; simp)
        have haw : pos.afterWait = true := by cases pos <;> simp [FPos.released] at hrel <;> rfl
        have := no_acquire_done hr hG hpc' haw hw
        subst this
        exact ha hau

theorem Reachable.invLive {s : State} (h : Reachable s) : InvLive s :=
  Reachable.induction (P := InvLive) InvLive.init (fun _ _ _ hr hG hs => step_invLive hr hG hs)
    s h

end Note
