/-
  Proofs/WaitNFairRank.lean — WaitN layer, liveness: the rank of a program point of nsync_wait_n (number of
  own steps to the return along the longest path, the sleep loop counted once) and of the wake loop of
  nsync_cv_signal / broadcast; bounds for the program-counter arithmetic of wait.c; the classification `Prog`
  of a thread's own step.
-/
import NsyncVerif.Proofs.WaitNFairDefs

set_option linter.unusedSimpArgs false
set_option linter.unusedVariables false

namespace WaitN

def ndR : NDst → Nat
  | .ld0 => 15 | .lockCall => 14 | .lockWait => 13 | .ld1 => 12 | .unlockCall _ => 11 | .unlockWait _ => 10
  | .now => 9 | .nfLockCall => 8 | .nfLockWait => 7 | .nfLd0 => 6 | .nfLd1 => 5 | .nfStore => 4 | .nfWake => 3
  | .nfUnlockCall => 2 | .nfUnlockWait => 1

def enqR : EnqSt → Nat
  | .lockCall => 6 | .lockWait => 5 | .load => 4 | .store _ => 3 | .unlockCall _ => 2 | .unlockWait _ => 1

def cvEnqR : CvEnqSt → Nat
  | .spin _ => 3 | .store => 2 | .release => 1

def cvDeqR : CvDeqSt → Nat
  | .spin _ => 5 | .load => 4 | .store => 3 | .release _ => 2 | .wspin => 1

def deqR : DeqSt → Nat
  | .lockCall => 7 | .lockWait => 6 | .load => 5 | .loadW _ => 4 | .store _ => 3 | .unlockCall _ => 2 | .unlockWait _ => 1

/-- offsets of the phases of wait.c for a call over `n` objects -/
def offS (n : Nat) : Nat := 32 * n + 35      -- the sleep loop (above the dequeue loop)
def offU (n : Nat) : Nat := 64 * n + 69      -- `(*unlock) (mu)` (above the sleep loop)
def offA (n : Nat) : Nat := 96 * n + 101     -- malloc (above the enqueue loop)

/-- start of the block of object `i` in the loop of use `u` -/
def base (u : Use) (n i : Nat) : Nat :=
  match u with
  | .poll => offA n + (n - i) * 32
  | .loop => offS n + 2 + (n - i) * 32
  | .deq => 3 + (n - i) * 32 + 8

/-- rank of a program point (`n` = count of the call, `po` = the thread's pending post) -/
def rank (p : PC) (n : Nat) (po : Option Rid) : Nat :=
  match p with
  | .idle | .stuck => 0
  | .sg _ _ .ret => 1
  | .sg _ _ (.wake l) => 2 * l.length + 2 - (if po.isSome then 1 else 0)
  | .sg _ _ _ => 0
  | .wRet _ => 1
  | .wRelock => 2
  | .wFree => 3
  | .wDeqCv j st => 3 + (n - j) * 32 + cvDeqR st
  | .wDeq j st => 3 + (n - j) * 32 + deqR st
  | .wPdWait _ => offS n + 1
  | .wPdEnter => offS n + 2
  | .wCvRT j => offS n + 2 + (n - j) * 32 + 1
  | .wCtrRT u i l => base u n i + (if l then 1 else 2)
  | .wND u i st => base u n i + ndR st
  | .wUnlock => offU n
  | .wInit i => offU n + (n - i) * 32 + 20
  | .wEnqCv i st => offU n + (n - i) * 32 + cvEnqR st
  | .wEnq i st => offU n + (n - i) * 32 + enqR st
  | .wAlloc => offA n

def rk (s : State) (t : Tid) : Nat := rank (s.pc t) (s.fr t).count (s.post t)

/-- program points of nsync_cv_signal / broadcast before the wake loop -/
def sgEarly : PC → Bool
  | .sg _ _ .load | .sg _ _ (.spin _) | .sg _ _ .held => true
  | _ => false

/-- the steps of nsync_cv_signal / broadcast before the wake loop -/
def sgNext (p p' : PC) : Prop :=
  match p with
  | .sg c bc .load => p' = .sg c bc (.spin .ld) ∨ p' = .sg c bc .ret
  | .sg c bc (.spin _) => (∃ sp, p' = .sg c bc (.spin sp)) ∨ p' = .sg c bc .held
  | .sg c bc .held => p' = .sg c bc .ret ∨ ∃ l, p' = .sg c bc (.wake l)
  | _ => False

/-- What an accepted event `e` of thread `t` does to `t`. -/
def Prog (s s' : State) (t : Tid) (e : Ev) : Prop :=
  s.pc t = .idle ∨ s'.pc t = .idle ∨
  ((s'.fr t).objs = (s.fr t).objs ∧ (s'.fr t).dl = (s.fr t).dl ∧
    ((s'.pc t = s.pc t ∧ s'.post t = s.post t ∧ frSame (s.fr t) (s'.fr t))        -- not a step of its own code
     ∨ rk s' t < rk s t                                                          -- progress
     ∨ (isSpin (s.pc t) = true ∧ isSpin (s'.pc t) = true ∧ rk s' t = rk s t
          ∧ lockWaitOf (s'.pc t) (s'.fr t) = lockWaitOf (s.pc t) (s.fr t))       -- inside a test-and-set loop
     ∨ (∃ j, s.pc t = .wPdWait j ∧ e = .pdRet j false ∧ rk s' t < offU (s.fr t).count)  -- woken: a token is consumed, new scan
     ∨ (isNfWake (s.pc t) = true ∧ s'.pc t = s.pc t)                             -- protocol-driven wake loop
     ∨ (sgNext (s.pc t) (s'.pc t) ∧ s'.post t = s.post t)))                       -- signal / broadcast before its wake loop

/-! ### bounds for the program-counter arithmetic -/

theorem rank_relockNext (f : Frame) (n : Nat) (po : Option Rid) : rank (relockNext f) n po ≤ 2 := by
  unfold relockNext; split <;> simp [rank]

theorem rank_finNext (f : Frame) (n : Nat) (po : Option Rid) : rank (finNext f) n po ≤ 3 := by
  unfold finNext; split
  · simp [rank]
  · have := rank_relockNext f n po; omega

theorem rank_deqNext (f : Frame) (j n : Nat) (po : Option Rid) : rank (deqNext f j) n po ≤ 3 + (n - j) * 32 + 23 := by
  unfold deqNext; split
  · split
    · simp [rank, cvDeqR]
    · simp [rank, base, ndR]
    · simp [rank, deqR]
    · simp [rank]
  · have := rank_finNext f n po; omega

theorem rank_scanEnd (f : Frame) (n : Nat) (po : Option Rid) : rank (scanEnd f) n po ≤ offS n + 2 := by
  unfold scanEnd; split
  · have := rank_deqNext f 0 n po; simp only [offS]; omega
  · simp [rank]

theorem rank_loopNext (f : Frame) (j n : Nat) (po : Option Rid) :
    rank (loopNext f j) n po ≤ offS n + 2 + (n - j) * 32 + 15 := by
  unfold loopNext; split
  · split
    · simp [rank]
    · simp [rank, base, ndR]
    · simp [rank, base]
    · simp [rank]
  · have := rank_scanEnd f n po; omega

theorem rank_enqNext (f : Frame) (i : Nat) (res : Bool) (po : Option Rid) :
    rank (enqNext f (i + 1) res) f.count po < offU f.count + (f.count - i) * 32 + 1 := by
  unfold enqNext; split
  · rename_i h; simp only [rank]; omega
  · split
    · split
      · simp only [rank]; omega
      · have := rank_loopNext f 0 f.count po; simp only [offU, offS] at *; omega
    · have := rank_deqNext f 0 f.count po; simp only [offU] at *; omega

theorem rank_enqNext0 (f : Frame) (res : Bool) (po : Option Rid) :
    rank (enqNext f 0 res) f.count po < offA f.count := by
  unfold enqNext; split
  · simp only [rank, offA, offU]; omega
  · split
    · split
      · simp [rank, offA, offU]; omega
      · have := rank_loopNext f 0 f.count po; simp only [offA, offS] at *; omega
    · have := rank_deqNext f 0 f.count po; simp only [offA] at *; omega

theorem rank_pollFrom (f : Frame) (po : Option Rid) : ∀ (l : List ObjId) (k : Nat), l.length ≤ f.count - k →
    rank (pollFrom f l k) f.count po ≤ offA f.count + (f.count - k) * 32 + 15 := by
  intro l
  induction l with
  | nil =>
    intro k _
    unfold pollFrom; split
    · simp [rank]
    · split
      · simp only [rank]; omega
      · have := rank_enqNext0 f true po; omega
  | cons o rest ih =>
    intro k hk
    simp only [List.length_cons] at hk
    cases o with
    | cv c => simp only [pollFrom]; have := ih (k + 1) (by omega); omega
    | note n => simp [pollFrom, rank, base, ndR]
    | ctr c => simp [pollFrom, rank, base]

theorem rank_pollNext (f : Frame) (i : Nat) (po : Option Rid) :
    rank (pollNext f i) f.count po ≤ offA f.count + (f.count - i) * 32 + 15 := by
  unfold pollNext
  exact rank_pollFrom f po _ _ (by simp [Frame.count])

end WaitN
