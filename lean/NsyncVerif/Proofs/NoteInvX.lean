/-
  Layer `Note`, invariant family X: `nsync_note_expiry` is the minimum of the deadlines on the path
  to the root (ghost `pathMin`), for every note `nsync_note_new` has returned — born notified or not
  (the code after the repair of F5).
-/
import NsyncVerif.Proofs.NoteInvS4

set_option linter.unusedSimpArgs false

namespace Note

/-- The ghost minimum of a note being created, given its intended parent. -/
def NewX (s : State) (n : NoteId) (par : Option NoteId) (dl : Dl) : Prop :=
  s.pathMin n = s.minOf dl par ∧
  ∀ p, par = some p → s.published p = true ∧ (s.notes p).allocated = true

def DKX (s : State) (n : NoteId) : DK → Prop
  | .newSelf par dl => NewX s n par dl
  | _ => True

def NKX (s : State) (n : NoteId) : NK → Prop
  | .ofApi => True
  | .ofDeadline dk => DKX s n dk

/-- `nsync_note_new` is done with the expiry time. -/
def DoneX (s : State) (n : NoteId) : Prop :=
  (s.notes n).expiry = s.pathMin n

def XClaim (s : State) : PC → Prop
  | .newMalloc par _ => ∀ p, par = some p → s.published p = true ∧ (s.notes p).allocated = true
  | .dl _ n _ dk => DKX s n dk
  | .nfy _ n _ nk => NKX s n nk
  | .chd _ _ top => NKX s top.n top.k
  | .newP _ n _ _ => DoneX s n
  | .retNew n _ => DoneX s n
  | .retExpiry n => s.published n = true
  | _ => True

structure InvX (s : State) : Prop where
  claim : ∀ t, XClaim s (s.pc t)
  min : ∀ n, s.published n = true → (s.notes n).expiry = s.pathMin n

theorem InvX.init : InvX Note.init := by
  refine ⟨?_, ?_⟩ <;> simp [Note.init, XClaim]

/-- `bornNotified` of the note a thread is creating is not changed by other threads. -/
theorem born_other {s s' : State} {e : Event} (hA : InvA s) (hs : step s e = .ok s')
    {t : Tid} {n : NoteId} (hc : (s.pc t).creating = some n) (ht : e.actor ≠ some t) :
    s'.bornNotified n = s.bornNotified n := by
  rcases step_born hs with h | ⟨a, m, ha, hca, h⟩
  · rw [h]
  · rw [h, upd_apply]
    split
    · next hnm =>
      subst hnm
      have := hA.unique t a n hc hca
      subst this
      exact absurd ha ht
    · rfl

theorem NewX.other {s s' : State} {e : Event} (hA : InvA s) (hs : step s e = .ok s')
    {t : Tid} {n : NoteId} {par : Option NoteId} {dl : Dl}
    (hc : (s.pc t).creating = some n) (_ht : e.actor ≠ some t) (h : NewX s n par dl) :
    NewX s' n par dl := by
  have hst := step_stable hs
  obtain ⟨h1, h3⟩ := h
  have hn := (hA.creating t n hc).1
  refine ⟨?_, fun p hp => ⟨hst.published p (h3 p hp).1, hst.alloc p (h3 p hp).2⟩⟩
  rw [(hst.ghost n hn).2.2, h1]
  cases par with
  | none => rfl
  | some p => simp only [State.minOf]; rw [(hst.ghost p (h3 p rfl).2).2.2]

theorem DoneX.other {s s' : State} {e : Event} (hA : InvA s) (hs : step s e = .ok s')
    {t : Tid} {n : NoteId} (hc : (s.pc t).creating = some n) (ht : e.actor ≠ some t)
    (h : DoneX s n) : DoneX s' n := by
  have hst := step_stable hs
  have hn := (hA.creating t n hc).1
  unfold DoneX
  rw [expiry_other hA hs hc ht, (hst.ghost n hn).2.2]
  exact h

theorem XClaim.other {s s' : State} {e : Event} (hA : InvA s) (hX : InvX s)
    (hs : step s e = .ok s') (t : Tid) (ht : e.actor ≠ some t) : XClaim s' (s.pc t) := by
  have hc := hX.claim t
  have hst := step_stable hs
  cases hpc : s.pc t with
  | newMalloc par dl =>
    rw [hpc] at hc
    exact fun p hp => ⟨hst.published p (hc p hp).1, hst.alloc p (hc p hp).2⟩
  | dl pos n nt dk =>
    rw [hpc] at hc
    cases dk with
    | newSelf par dl => exact NewX.other hA hs (by rw [hpc]; simp) ht hc
    | _ => trivial
  | nfy pos n par nk =>
    rw [hpc] at hc
    cases nk with
    | ofApi => trivial
    | ofDeadline dk =>
      cases dk with
      | newSelf par dl => exact NewX.other hA hs (by rw [hpc]; simp) ht hc
      | _ => trivial
  | chd pos stk top =>
    rw [hpc] at hc
    simp only [XClaim] at hc ⊢
    cases hk : top.k with
    | ofApi => trivial
    | ofDeadline dk =>
      rw [hk] at hc
      cases dk with
      | newSelf par dl => exact NewX.other hA hs (by rw [hpc]; simp [hk]) ht hc
      | _ => trivial
  | newP pos n p dl =>
    rw [hpc] at hc
    exact DoneX.other hA hs (by rw [hpc]; simp) ht hc
  | retNew n par =>
    rw [hpc] at hc
    exact DoneX.other hA hs (by rw [hpc]; simp) ht hc
  | retExpiry n => rw [hpc] at hc; exact hst.published n hc
  | _ => trivial

/-- Two states agree on everything `XClaim` looks at. -/
structure SameX (s s' : State) : Prop where
  alloc : ∀ n, (s'.notes n).allocated = (s.notes n).allocated
  expiry : ∀ n, (s'.notes n).expiry = (s.notes n).expiry
  published : s'.published = s.published
  pathMin : s'.pathMin = s.pathMin

theorem SameX.newX {s s' : State} (h : SameX s s') (n : NoteId) (par : Option NoteId) (dl : Dl) :
    NewX s' n par dl ↔ NewX s n par dl := by
  cases par <;> simp only [NewX, State.minOf, h.published, h.pathMin, h.alloc]

theorem SameX.doneX {s s' : State} (h : SameX s s') (n : NoteId) : DoneX s' n ↔ DoneX s n := by
  simp only [DoneX, h.pathMin, h.expiry]

theorem XClaim.same {s s' : State} (h : SameX s s') (pc : PC) : XClaim s' pc ↔ XClaim s pc := by
  cases pc with
  | newMalloc par dl => simp only [XClaim, h.published, h.alloc]
  | dl pos n nt dk => cases dk <;> simp only [XClaim, DKX, h.newX]
  | nfy pos n par nk =>
    cases nk with
    | ofApi => simp only [XClaim, NKX]
    | ofDeadline dk => cases dk <;> simp only [XClaim, NKX, DKX, h.newX]
  | chd pos stk top =>
    cases hk : top.k with
    | ofApi => simp only [XClaim, NKX, hk]
    | ofDeadline dk => cases dk <;> simp only [XClaim, NKX, DKX, hk, h.newX]
  | newP pos n p dl => simp only [XClaim, h.doneX]
  | retNew n par => simp only [XClaim, h.doneX]
  | retExpiry n => simp only [XClaim, h.published]
  | _ => simp only [XClaim]

/-- `nsync_note_new` settles the expiry time: the minimum of the own deadline and the expiry time
    of the (published) parent, which is the parent's path minimum. -/
theorem DoneX.newExpiry {s : State} (hX : InvX s) {t : Tid} {n : NoteId} {nt : Dl}
    {par : Option NoteId} {dl : Dl} (hexp : (s.notes n).expiry = dl) (h : NewX s n par dl) :
    DoneX (afterDeadline s t n nt (.newSelf par dl)) n := by
  unfold DoneX
  rw [afterDeadline_f_expiry, afterDeadline_pathMin, h.1]
  cases par with
  | none => simpa [State.minOf] using hexp
  | some p =>
    simp only [newExpiryVal_newSelf_some, if_true, State.minOf]
    rw [hX.min p (h.2 p rfl).1]

theorem XClaim.afterDeadlinePc {s : State} {t : Tid} (hN : InvN s) (hX : InvX s) {pos : DPos}
    {n : NoteId} {nt nt0 : Dl} {dk : DK} (hpc : s.pc t = .dl pos n nt0 dk) (h : DKX s n dk) :
    XClaim (afterDeadline s t n nt dk) (Note.afterDeadlinePc n nt dk) := by
  cases dk with
  | newSelf par dl =>
    have hcN := hN.claim t
    rw [hpc] at hcN
    have hd := DoneX.newExpiry hX (nt := nt) (t := t) (hcN.2.1.2 par dl rfl) h
    simp only [Note.afterDeadlinePc]
    split
    · cases par with
      | none => exact hd
      | some p => exact hd
    · exact hd
  | isNotified => trivial
  | notifyApi => simp only [Note.afterDeadlinePc]; split <;> trivial
  | ready1 wdl => simp only [Note.afterDeadlinePc]; split <;> trivial
  | ready2 r wdl => simp only [Note.afterDeadlinePc]; split <;> trivial
  | dequeue r wdl => trivial

theorem XClaim.afterNotifyPc {s : State} {t : Tid} (hN : InvN s) (hX : InvX s) {pos : NPos}
    {n : NoteId} {par : Option NoteId} {nk : NK} (hpc : s.pc t = .nfy pos n par nk)
    (h : NKX s n nk) : XClaim (afterNotify s t n nk) (Note.afterNotifyPc n nk) := by
  cases nk with
  | ofApi => trivial
  | ofDeadline dk =>
    cases dk with
    | newSelf par' dl =>
      have hcN := hN.claim t
      rw [hpc] at hcN
      have hd := DoneX.newExpiry hX (nt := some 0) (t := t) (hcN.2.1.2 par' dl rfl) h
      simp only [afterNotify, Note.afterNotifyPc, Note.afterDeadlinePc]
      rw [if_neg (by simp [Dl.pos])]
      exact hd
    | isNotified => trivial
    | notifyApi =>
      simp only [afterNotify, Note.afterNotifyPc, Note.afterDeadlinePc]; split <;> trivial
    | ready1 wdl =>
      simp only [afterNotify, Note.afterNotifyPc, Note.afterDeadlinePc]; split <;> trivial
    | ready2 r wdl =>
      simp only [afterNotify, Note.afterNotifyPc, Note.afterDeadlinePc]; split <;> trivial
    | dequeue r wdl => trivial

theorem XClaim.chd {s : State} {pos pos' : CPos} {stk stk' : List Frame} {top : Top}
    (h : XClaim s (.chd pos stk top)) : XClaim s (.chd pos' stk' top) := h

theorem XClaim.childReturnPc {s : State} {pos : CPos} {f : Frame} {rest : List Frame} {top : Top}
    (h : XClaim s (.chd pos (f :: rest) top)) : XClaim s (Note.childReturnPc f rest top) := by
  unfold Note.childReturnPc
  cases rest with
  | cons g gs => exact h
  | nil => cases hp : top.par <;> exact h

theorem XClaim.childWakeNextPc {s s1 : State} {pos : CPos} {f : Frame} {rest : List Frame}
    {top : Top} (h : XClaim s (.chd pos (f :: rest) top)) :
    XClaim s (Note.childWakeNextPc s1 f rest top) := by
  unfold Note.childWakeNextPc
  split
  · exact h
  · unfold childLoopStartPc; split <;> exact h

theorem XClaim.childLoopStartPc {s : State} {pos : CPos} {f : Frame} {rest : List Frame}
    {top : Top} (cs : List NoteId) (h : XClaim s (.chd pos (f :: rest) top)) :
    XClaim s (Note.childLoopStartPc cs f rest top) := by
  unfold Note.childLoopStartPc; split <;> exact h

theorem XClaim.freeLoopStartPc (s : State) (cs : List NoteId) (n : NoteId) (par : Option NoteId) :
    XClaim s (Note.freeLoopStartPc cs n par) := by
  cases cs <;> simp [Note.freeLoopStartPc, XClaim]

theorem Dl.min_eq (a b : Dl) : Dl.min a b = if Dl.lt b a then b else a := rfl

end Note
