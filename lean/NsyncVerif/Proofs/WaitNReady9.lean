/-
  Proofs/WaitNReady9.lean — `TF` is preserved by the caller's own steps, part 5: dequeue, and the
  invariant over all reachable states.
-/
import NsyncVerif.Proofs.WaitNReady8

set_option linter.unusedSimpArgs false
set_option linter.unusedVariables false

namespace WaitN

theorem tf_cvdeq_move {s s' : State} {j : Nat} {a b : CvDeqSt} {f : Frame} (st : Stable True s s' f)
    (htf : TF s (.wDeqCv j a) f) (hn : CvDeqF s' f j b) : TF s' (.wDeqCv j b) f := by
  have := tf_stable st (.inr trivial) htf
  exact ⟨this.1, this.2.1, hn⟩

theorem tf_deq_move {s s' : State} {j : Nat} {a b : DeqSt} {f : Frame} (st : Stable True s s' f)
    (htf : TF s (.wDeq j a) f) (hn : DeqStF s' f j b) : TF s' (.wDeq j b) f := by
  have := tf_stable st (.inr trivial) htf
  exact ⟨this.1, this.2.1, hn⟩

set_option hygiene false in
macro "cvdeq_mv" t:term : tactic =>
  `(tactic| (cases h; simp only [setPc_pc, setPc_fr, setObj_fr, setRec_fr, ownerRemove_fr, if_true];
             exact tf_cvdeq_move st htf $t))

set_option hygiene false in
macro "deq_mv" t:term : tactic =>
  `(tactic| (cases h; simp only [setPc_pc, setPc_fr, setObj_fr, setRec_fr, ownerRemove_fr, if_true];
             exact tf_deq_move st htf $t))

set_option hygiene false in
macro "deq_open" : tactic =>
  `(tactic| (cases h; simp only [setPc_pc, setPc_fr, setObj_fr, setRec_fr, ownerRemove_fr, if_true];
             refine tf_deq_move st htf ?_))

theorem tf_stepDeqCv {s s' : State} {t : Tid} {j : Nat} {st0 : CvDeqSt} {e : Ev} (c : Ctx s t)
    (hpc : s.pc t = .wDeqCv j st0) (h : stepDeqCv s t j st0 e = .ok s') : TF s' (s'.pc t) (s'.fr t) := by
  have hl : LInv (.wDeqCv j st0) (s.fr t) := hpc ▸ c.linv
  have htf : TF s (.wDeqCv j st0) (s.fr t) := hpc ▸ c.tf
  have hc : inCall (s.pc t) = true := by rw [hpc]; rfl
  have hne := ne_enq_of_pc hpc (fun _ => ⟨by simp, by simp⟩)
  have st := own_stable c hc (mono_stepDeqCv hpc h) hne
  unfold stepDeqCv at h
  split at h
  · rename_i cv r hoi hri
    dsimp only at h
    split at h
    · -- spin
      unfold spinAcq at h
      split_ok h
      all_goals first
        | exact tf_dflt c h
        | cvdeq_mv trivial
    · -- load
      split at h
      · rename_i r' obs
        split at h
        · rename_i hg
          by_cases h0 : obs ≠ 0
          · rw [if_pos h0] at h
            have hnr : (s.fr t).why ≠ .readyAt j := by
              intro hw
              rcases htf.2.1.why j hw with h1 | ⟨_, _, h3⟩
              · rw [List.getElem?_eq_none (by rw [hl.2.1]; exact Nat.le_refl _)] at h1; cases h1
              · unfold sReady at h3; rw [hoi] at h3
                obtain ⟨r2, hr2, hw2⟩ := h3
                rw [hri] at hr2; cases hr2
                rw [hw2] at hg; exact h0 hg.2
            cvdeq_mv hnr
          · rw [if_neg h0] at h
            cvdeq_mv (fun _ => rfl)
        · simp at h
      · exact tf_dflt c h
    · -- store
      split at h
      · split at h
        · have hnr : (s.fr t).why ≠ .readyAt j := htf.2.2
          cases h
          simp only [setPc_pc, setPc_fr, ownerRemove_fr, if_true]
          exact tf_cvdeq_move st htf (fun hw => absurd hw hnr)
        · simp at h
      · split at h
        · cvdeq_mv trivial
        · simp at h
      · exact tf_dflt c h
    · -- release
      rename_i res
      split at h
      · split at h
        · have hsh := shared_deqDone h
          have st' := st.congr_right hsh.1.symm hsh.2.1.symm hsh.2.2.symm
          have htf' := tf_stable st' (.inr trivial) htf
          exact tf_deqDone (s := (s.setObj _ _).setRec _ _) hl.1 htf'.1 htf'.2.1 hl.2.1 hl.2.2.1 (.inr ⟨hl.2.2.2.1, htf.2.2⟩) h
        · simp at h
      · exact tf_dflt c h
    · -- wspin
      split at h
      · split at h
        · split at h
          · have hsh := shared_deqDone h
            have st' := st.congr_right hsh.1.symm hsh.2.1.symm hsh.2.2.symm
            have htf' := tf_stable st' (.inr trivial) htf
            exact tf_deqDone (s := s.setRec _ _) hl.1 htf'.1 htf'.2.1 hl.2.1 hl.2.2.1 (.inr ⟨hl.2.2.2.1, fun _ => rfl⟩) h
          · cases h; rw [hpc]; exact htf
        · simp at h
      · exact tf_dflt c h
  · simp at h

theorem tf_stepDeq {s s' : State} {t : Tid} {j : Nat} {st0 : DeqSt} {e : Ev} (c : Ctx s t)
    (hpc : s.pc t = .wDeq j st0) (h : stepDeq s t j st0 e = .ok s') : TF s' (s'.pc t) (s'.fr t) := by
  have hl : LInv (.wDeq j st0) (s.fr t) := hpc ▸ c.linv
  have htf : TF s (.wDeq j st0) (s.fr t) := hpc ▸ c.tf
  have hc : inCall (s.pc t) = true := by rw [hpc]; rfl
  have hne := ne_enq_of_pc hpc (fun _ => ⟨by simp, by simp⟩)
  have st := own_stable c hc (mono_stepDeq hpc h) hne
  have htf' := tf_stable st (.inr trivial) htf
  have hdl : (s.fr t).deqRes[j]? = none := List.getElem?_eq_none (by rw [hl.2.1]; exact Nat.le_refl _)
  unfold stepDeq at h
  split at h
  · rename_i oid r hoi hri
    dsimp only at h
    split at h
    · -- lockCall
      split at h
      · split at h
        · deq_mv htf'.2.2
        · simp at h
      · exact tf_dflt c h
    · -- lockWait
      split at h
      · split at h
        · deq_mv htf'.2.2
        · simp at h
      · exact tf_dflt c h
    · -- load
      split at h
      · rename_i n n' obs
        split at h
        · rename_i hg
          cases hb : noteTimePos (s.obj (.note n)) obs with
          | true =>
            rw [hb] at h; simp only [if_true] at h
            deq_open
            refine ⟨fun hw => ?_, fun hx => by cases hx⟩
            exfalso
            have hnn := htf.2.2 n hoi hw
            unfold noteTimePos at hb
            simp only [Bool.and_eq_true, decide_eq_true_eq, Bool.not_eq_true'] at hb
            rcases hnn with hf | hd
            · rw [hf] at hg; simp [hb.1] at hg
            · rw [hd] at hb; exact Bool.noConfusion hb.2
          | false =>
            rw [hb] at h; simp only [Bool.false_eq_true, if_false] at h
            have hnn : noteNotif s n := by
              unfold noteTimePos at hb
              by_cases h0 : obs = 0
              · right; simpa [h0] using hb
              · left; exact flag_of_obs hg.2 h0
            have hsr : sReady s (s.fr t) j := by unfold sReady; rw [hoi]; exact noteReady_of_notif hnn
            deq_open
            exact ⟨fun _ => rfl, fun _ => sReady_stable st (.inl trivial) hsr⟩
        · simp at h
      · rename_i k k' obs
        split at h
        · rename_i hg
          have hres : ResF s (s.fr t) j (decide (obs ≠ 0)) := by
            refine ⟨fun hw => ?_, fun hx => ?_⟩
            · rcases htf.2.1.why j hw with h1 | ⟨_, _, h3⟩
              · rw [hdl] at h1; cases h1
              · unfold sReady at h3; rw [hoi] at h3
                simp [hg.2, h3.1]
            · have h0 : obs = 0 := by simpa using hx
              unfold sReady; rw [hoi]
              exact ⟨by rw [← hg.2]; exact h0, htf.1 j k (lt_count_of_get hoi) hoi⟩
          deq_open
          exact ⟨hres.1, fun hx => sReady_stable st (.inl trivial) (hres.2 hx)⟩
        · simp at h
      · exact tf_dflt c h
    · -- loadW
      rename_i res
      split at h
      · rename_i r' obs
        split at h
        · by_cases h0 : obs ≠ 0
          · rw [if_pos h0] at h; deq_mv htf'.2.2
          · rw [if_neg h0] at h; deq_mv htf'.2.2
        · simp at h
      · exact tf_dflt c h
    · -- store
      rename_i res
      split_ok h
      all_goals first
        | exact tf_dflt c h
        | deq_mv htf'.2.2
    · -- unlockCall
      split at h
      · split at h
        · deq_mv htf'.2.2
        · simp at h
      · exact tf_dflt c h
    · -- unlockWait
      split at h
      · exact tf_deqDone hl.1 htf.1 htf.2.1 hl.2.1 hl.2.2.1 (.inl htf.2.2) h
      · exact tf_dflt c h
  · simp at h

theorem tf_of_not_inCall {s : State} {p : PC} {f : Frame} (h : inCall p = false) : TF s p f := by
  cases p <;> simp [inCall] at h <;> trivial

theorem PostF.frees {s : State} {f : Frame} (n : Nat) (h : PostF s f) : PostF s { f with frees := n } := { h with }
theorem PostF.held {s : State} {f : Frame} (b : Bool) (h : PostF s f) : PostF s { f with held := b } := { h with }

theorem stable_shared_obj {s s1 : State} {f : Frame} (ho : s1.obj = s.obj) (hn : s1.now = s.now) :
    Stable False s s1 f :=
  ⟨fun _ _ => by rw [ho], fun _ _ _ h => by rw [ho]; exact h, fun _ _ h _ => by rw [ho]; exact h,
   by rw [hn]; exact Nat.le_refl _, fun h => h.elim⟩

theorem tf_stepFree {s s' : State} {t : Tid} {e : Ev} (c : Ctx s t)
    (hpc : s.pc t = .wFree) (h : stepFree s t e = .ok s') : TF s' (s'.pc t) (s'.fr t) := by
  have htf : TF s .wFree (s.fr t) := hpc ▸ c.tf
  unfold stepFree at h
  split_ok h
  all_goals first
    | exact tf_dflt c h
    | (cases h
       simp only [setPc_pc, setPc_fr, setFr_fr, kill_fr, if_true]
       apply tf_relockNext
       apply PostF.frees
       exact postF_stable (s := s) (stable_shared_obj rfl rfl) htf)

theorem tf_stepRelock {s s' : State} {t : Tid} {e : Ev} (c : Ctx s t)
    (hpc : s.pc t = .wRelock) (h : stepRelock s t e = .ok s') : TF s' (s'.pc t) (s'.fr t) := by
  have htf : TF s .wRelock (s.fr t) := hpc ▸ c.tf
  unfold stepRelock at h
  split_ok h
  all_goals first
    | exact tf_dflt c h
    | (cases h
       simp only [setPc_pc, setPc_fr, setFr_fr, if_true]
       exact tf_congr (s := s) (p := .wRet _) rfl rfl rfl (PostF.held _ htf))

theorem tf_stepRet {s s' : State} {t : Tid} {r : Nat} {e : Ev} (c : Ctx s t)
    (hpc : s.pc t = .wRet r) (h : stepRet s t r e = .ok s') : TF s' (s'.pc t) (s'.fr t) := by
  unfold stepRet at h
  split_ok h
  all_goals first
    | exact tf_dflt c h
    | (cases h; simp only [setPc_pc, if_true]; trivial)

theorem tf_stepIdle {s s' : State} {t : Tid} {e : Ev} (c : Ctx s t)
    (hpc : s.pc t = .idle) (h : stepIdle s t e = .ok s') : TF s' (s'.pc t) (s'.fr t) := by
  unfold stepIdle at h
  split_ok h
  all_goals first
    | (have k := keeps_stepOpen (t := t) h; rw [k.1, hpc]; trivial)
    | (cases h; simp only [setPc_pc, setObj_pc, if_true, hpc]; trivial)
    | (rename_i mu dl objs nested hc
       cases h
       simp only [setPc_pc, setPc_fr, setFr_fr, if_true]
       refine tf_congr (s := s) rfl rfl rfl ?_
       apply tf_pollNext
       · exact { recs := rfl, heap := rfl, mallocs := rfl, frees := rfl, unlocked := rfl, held := rfl, why := rfl,
                 deqRes := rfl, min := rfl, freed := rfl,
                 pos := by simp only [Frame.count, Frame.new]; exact List.length_pos_iff.2 hc.2.2.1 }
       · rfl
       · intro k _ hk; exact absurd hk (Nat.not_lt_zero _))

theorem tf_stepSg {s s' : State} {t : Tid} {c0 : Nat} {bc : Bool} {st0 : SgSt} {e : Ev}
    (hpc : s.pc t = .sg c0 bc st0) (h : stepSg s t c0 bc st0 e = .ok s') : TF s' (s'.pc t) (s'.fr t) := by
  apply tf_of_not_inCall
  rw [(quiet_stepSg hpc h).inCall t, hpc]; rfl

theorem tf_stepThr {s s' : State} {t : Tid} {e : Ev} (c : Ctx s t) (h : stepThr s t e = .ok s') :
    TF s' (s'.pc t) (s'.fr t) := by
  unfold stepThr at h
  split at h <;> rename_i hpc
  · exact tf_stepIdle c hpc h
  · simp at h
  · exact tf_stepSg hpc h
  · exact tf_stepCtrRT c hpc h
  · exact tf_stepND c hpc h
  · exact tf_stepEnqCv c hpc h
  · exact tf_stepEnq c hpc h
  · exact tf_stepDeqCv c hpc h
  · exact tf_stepDeq c hpc h
  · exact tf_stepAlloc c hpc h
  · exact tf_stepInit c hpc h
  · exact tf_stepUnlockMu c hpc h
  · exact tf_stepCvRT c hpc h
  · exact tf_stepPdEnter c hpc h
  · exact tf_stepPdWait c hpc h
  · exact tf_stepFree c hpc h
  · exact tf_stepRelock c hpc h
  · exact tf_stepRet c hpc h

/-- the readiness facts hold at every program point of every caller, in every reachable state -/
theorem tf_of_reachable {s : State} (h : Reachable s) : ∀ t, TF s (s.pc t) (s.fr t) := by
  refine reachable_induction (P := fun s => ∀ t, TF s (s.pc t) (s.fr t)) ?_ ?_ h
  · intro t; trivial
  · intro s s' e hr ih hs t
    have hlinv := linv_of_reachable hr
    cases e with
    | tick ns =>
      simp only [step] at hs
      split at hs
      · rename_i hle
        cases hs
        have st : Stable True s { s with now := ns } (s.fr t) :=
          ⟨fun _ _ => rfl, fun _ _ _ h => h, fun _ _ h _ => h, hle, fun _ _ _ h => h⟩
        exact tf_stable st (.inr trivial) (ih t)
      · simp at hs
    | thr u ev =>
      simp only [step] at hs
      by_cases hu : t = u
      · subst hu
        exact tf_stepThr ⟨own_of_reachable hr, known_of_reachable hr, hlinv t, ih t⟩ hs
      · exact tf_other hu (own_of_reachable hr) (known_of_reachable hr) hlinv (ih t) hs

end WaitN
