import NsyncVerif.Proofs.MuQSolo
/-
  MuQ, solo progress of the acquiring operations: every accepted own step of a thread inside
  lock / rlock / trylock / rtrylock / lock_slow, taken in a state in which the spinlock is free or
  its own, returns or decreases `acqRank`.
-/
namespace NsyncVerif.MuQ

theorem solo_acq_ld {M : Nat} {s s' : State} {t : Tid} {o : Ord} {loc : Loc} {obs : Nat}
    (hM : ∀ k, (s.wr k).sem ≤ M) (hpc : acqPc (s.pc t) = true) (hsp : s.sp = none ∨ s.sp = some t)
    (hspin : (role (s.pc t)).spin = false → s.word.spin = false)
    (h : stepLd s t o loc obs = .ok s') : SoloNext M s t s' := by
  unfold stepLd at h
  cases hp : s.pc t <;> simp only [hp, acqPc] at hpc h hspin <;> try (cases hpc; done)
  all_goals try (cases h; done)
  case lkLd l =>
    have h := ldWord_ok h; subst h
    right
    split <;> simp [setPc, acqRank, hp, hM, hsp, acqPc, SL.entry, semOf] <;> omega
  case tryLd l =>
    have h := ldWord_ok h; subst h
    right
    split <;> simp [setPc, acqRank, hp, hM, hsp, acqPc]
  case lsLd c =>
    have h := ldWord_ok h; subst h
    have hs0 : s.word.spin = false := hspin rfl
    right
    split
    · simp [setPc, acqRank, hp, hM, hsp, acqPc]
    · simp [setPc, acqRank, hp, hM, hsp, acqPc, hs0]
  case lsRelLd c =>
    have h := ldWord_ok h; subst h
    right
    simp [setPc, acqRank, hp, hM, hsp, acqPc]
  case lsWaitLd c =>
    right
    repeat' split at h
    all_goals first | (cases h; done) | skip
    all_goals cases h
    all_goals rename_i k hw _ _ _ hwt
    · simp [setPc, acqRank, hp, hM, hsp, acqPc, hw, waitingOf, hwt]
    · simp [setPc, acqRank, hp, hM, hsp, acqPc, hw, waitingOf, hwt, SL.woken]

theorem solo_acq_cas {M : Nat} {s s' : State} {t : Tid} {o : Ord} {loc : Loc} {exp new obs : Nat} {ok : Bool}
    (hM : ∀ k, (s.wr k).sem ≤ M) (hpc : acqPc (s.pc t) = true) (hsp : s.sp = none ∨ s.sp = some t)
    (hrel : ∀ c, role (s.pc t) = .slow c .rel → waitingOf s.wr c.w = true)
    (h : stepCas s t o loc exp new obs ok = .ok s') : SoloNext M s t s' := by
  unfold stepCas at h
  cases hp : s.pc t <;> simp only [hp, acqPc] at hpc h hrel <;> try (cases hpc; done)
  all_goals try (cases h; done)
  case lkCas0 l =>
    right
    rcases casWord_ok h with ⟨hw, _, rfl⟩ | ⟨_, _, rfl⟩
    · simp [setPc, acqRank, hp, hM, hsp, acqPc]
    · simp [setPc, acqRank, hp, hM, hsp, acqPc]
  case lkCas1 l old =>
    right
    rcases casWord_ok h with ⟨hw, _, rfl⟩ | ⟨hw, _, rfl⟩
    · simp [setPc, acqRank, hp, hM, hsp, acqPc, hw]
    · simp [setPc, acqRank, hp, hM, hsp, acqPc, hw, SL.entry, semOf]
  case tryCas0 l =>
    right
    rcases casWord_ok h with ⟨hw, _, rfl⟩ | ⟨_, _, rfl⟩
    · simp [setPc, acqRank, hp, hM, hsp, acqPc]
    · simp [setPc, acqRank, hp, hM, hsp, acqPc]
  case tryCas1 l old =>
    right
    rcases casWord_ok h with ⟨hw, _, rfl⟩ | ⟨_, _, rfl⟩
    · simp [setPc, acqRank, hp, hM, hsp, acqPc]
    · simp [setPc, acqRank, hp, hM, hsp, acqPc]
  case lsCasAcq c old =>
    right
    rcases casWord_ok h with ⟨hw, _, rfl⟩ | ⟨hw, _, rfl⟩
    · simp [setPc, acqRank, hp, hsp, acqPc, dropW_sem, hM, hw]
    · simp [setPc, acqRank, hp, hM, hsp, acqPc, hw]
  case lsCasEnq c old =>
    right
    rcases casWord_ok h with ⟨hw, _, rfl⟩ | ⟨hw, _, rfl⟩
    · simp [setPc, acqRank, hp, hM, acqPc, hw]
    · simp [setPc, acqRank, hp, hM, hsp, acqPc, hw]
  case lsRelCas c old =>
    right
    have hwt := hrel c rfl
    rcases casWord_ok h with ⟨hw, _, rfl⟩ | ⟨hw, _, rfl⟩
    · simp [setPc, acqRank, hp, hM, acqPc, hw, hwt]
    · simp [setPc, acqRank, hp, hM, hsp, acqPc, hw]

theorem solo_acq_st {M : Nat} {s s' : State} {t : Tid} {o : Ord} {loc : Loc} {new obs : Nat}
    (hM : ∀ k, (s.wr k).sem ≤ M) (hpc : acqPc (s.pc t) = true) (hsp : s.sp = none ∨ s.sp = some t)
    (h : stepSt s t o loc new obs = .ok s') : SoloNext M s t s' := by
  unfold stepSt at h
  cases hp : s.pc t <;> simp only [hp, acqPc] at hpc h <;> try (cases hpc; done)
  all_goals try (cases h; done)
  case lsSt c =>
    right
    cases loc <;> simp only at h <;> try (cases h; done)
    rename_i k
    have hk := hM k
    cases hw : c.w with
    | none =>
      simp only [hw] at h
      repeat' split at h
      all_goals first | (cases h; done) | skip
      all_goals cases h
      all_goals refine ⟨?_, by simp [setPc, acqPc], by simpa [setPc] using hsp, ?_⟩
      all_goals first
        | (intro k'; simp only [setPc, setFn]; split
           · rename_i e; subst e; exact hM _
           · exact hM k')
        | (simp [setPc, acqRank, hp, semOf, hw, setFn]; omega)
    | some k' =>
      simp only [hw] at h
      by_cases hkk : k = k'
      · subst hkk
        repeat' split at h
        all_goals first | (cases h; done) | skip
        all_goals cases h
        all_goals refine ⟨?_, by simp [setPc, acqPc], by simpa [setPc] using hsp, ?_⟩
        all_goals first
          | (intro k'; simp only [setPc, setFn]; split
             · rename_i e; subst e; exact hM _
             · exact hM k')
          | (simp [setPc, acqRank, hp, semOf, hw, setFn])
      · simp only [ne_eq, hkk, not_false_eq_true, if_true] at h
        repeat' split at h
        all_goals cases h

theorem solo_acq_sem {cfg : Cfg} {M : Nat} {s s' : State} {t : Tid} {e : Event}
    (hM : ∀ k, (s.wr k).sem ≤ M) (hpc : acqPc (s.pc t) = true) (hsp : s.sp = none ∨ s.sp = some t)
    (he : e.tid = some t) (hs : e.isSem = true)
    (h : step cfg s e = .ok s') : SoloNext M s t s' := by
  cases e <;> simp only [Event.isSem, Event.tid, Option.some.injEq, reduceCtorEq] at hs he <;> try (cases hs; done)
  all_goals subst he
  case semPEnter t k =>
    simp only [step] at h
    cases hp : s.pc t <;> simp only [hp, acqPc] at hpc h <;> try (cases hpc; done)
    all_goals try (cases h; done)
    split at h <;> try (cases h; done)
    cases h
    right
    simp only [setPc, acqRank, hp, setFn_same, acqPc, true_and]
    refine ⟨hM, hsp, ?_⟩
    by_cases hwt : waitingOf s.wr (by assumption : SL).w = true <;> simp [hwt]
  case semPRet t k =>
    simp only [step] at h
    cases hp : s.pc t <;> simp only [hp, acqPc] at hpc h <;> try (cases hpc; done)
    all_goals try (cases h; done)
    rename_i c
    by_cases hw : c.w = some k
    case neg => simp [hw] at h
    by_cases hsem : (s.wr k).sem = 0
    case pos => simp [hw, hsem] at h
    simp only [hw, ne_eq, not_true_eq_false, if_false, hsem, Except.ok.injEq] at h
    subst h
    right
    refine ⟨?_, by simp [setPc, acqPc], by simpa [setPc] using hsp, ?_⟩
    · intro k'; simp only [setFn]; split
      · rename_i e; subst e
        have := hM k'
        show (if cfg.binary then 0 else (s.wr k').sem - 1) ≤ M
        split <;> omega
      · exact hM k'
    · have h1 : (if cfg.binary = true then 0 else (s.wr k).sem - 1) + 1 ≤ (s.wr k).sem := by
        split <;> omega
      simp only [setPc, acqRank, hp, hw, semOf, waitingOf, setFn, if_true]
      cases (s.wr k).waiting <;> simp <;> omega
  case semV t k =>
    simp only [step] at h
    cases hp : s.pc t <;> simp only [hp, acqPc] at hpc h <;> try (cases hpc; done)
    all_goals try (cases h; done)

/-- One own step of an acquiring thread. -/
theorem solo_acq_step {cfg : Cfg} {M : Nat} {s s' : State} {t : Tid} {e : Event}
    (hr : Reachable cfg s) (hM : ∀ k, (s.wr k).sem ≤ M) (hpc : acqPc (s.pc t) = true)
    (hsp : s.sp = none ∨ s.sp = some t) (he : e.tid = some t)
    (h : step cfg s e = .ok s') : SoloNext M s t s' := by
  have inv := reachable_inv hr
  have hspin : (role (s.pc t)).spin = false → s.word.spin = false := by
    intro hf
    have hb : s.word.spin = s.sp.isSome := inv.spin.bit
    rcases hsp with h1 | h1
    · rw [hb, h1]; rfl
    · have := (inv.spin.own t).1 h1
      have h2 : (role (s.pc t)).spin = true := this
      rw [hf] at h2; cases h2
  have hrel : ∀ c, role (s.pc t) = .slow c .rel → waitingOf s.wr c.w = true := by
    intro c hc
    obtain ⟨k, hk1, hk2⟩ := inv.queue.relq t c hc
    have := (inv.queue.inq k hk2).1
    rw [hk1]; exact this
  cases e <;> simp only [Event.tid, Option.some.injEq, reduceCtorEq] at he <;> try subst he
  case call t a =>
    simp only [step, stepCall] at h
    cases hp : s.pc t <;> simp [hp, acqPc] at hpc h
  case ret t a res =>
    obtain ⟨hd, rfl⟩ := stepRet_shape h
    left; simp [setPc]
  case ld t o loc obs => exact solo_acq_ld hM hpc hsp hspin h
  case st t o loc new obs => exact solo_acq_st hM hpc hsp h
  case cas t o loc exp new obs ok => exact solo_acq_cas hM hpc hsp hrel h
  case semPEnter t k => exact solo_acq_sem hM hpc hsp rfl rfl h
  case semPRet t k => exact solo_acq_sem hM hpc hsp rfl rfl h
  case semV t k => exact solo_acq_sem hM hpc hsp rfl rfl h

/-- An accepted run of own events of an acquiring thread that is longer than the rank passes
    through a state in which the thread has returned. -/
theorem solo_acq_run {cfg : Cfg} {M : Nat} {t : Tid} : ∀ (evs : List Event) (s s' : State),
    Reachable cfg s → (∀ k, (s.wr k).sem ≤ M) → acqPc (s.pc t) = true → (s.sp = none ∨ s.sp = some t) →
    (∀ e ∈ evs, e.tid = some t) → run cfg s evs = .ok s' → acqRank M s.word s.wr (s.pc t) < evs.length →
    ∃ n, n ≤ evs.length ∧ ∃ s1, run cfg s (evs.take n) = .ok s1 ∧ s1.pc t = .idle := by
  intro evs
  induction evs with
  | nil => intro s s' _ _ _ _ _ _ hlt; simp at hlt
  | cons e es ih =>
    intro s s' hr hM hpc hsp hown hrun hlt
    simp only [run] at hrun
    split at hrun
    · rename_i s1 hs1
      rcases solo_acq_step hr hM hpc hsp (hown e (by simp)) hs1 with hidle | ⟨hM', hpc', hsp', hrk⟩
      · exact ⟨1, by simp, s1, by simp [run, hs1], hidle⟩
      · obtain ⟨n, hn, s2, hrun2, hid⟩ := ih s1 s' (reachable_step hr hs1) hM' hpc' hsp'
          (fun e' he' => hown e' (by simp [he'])) hrun (by simp at hlt; omega)
        exact ⟨n + 1, by simp; omega, s2, by simp [run, hs1, hrun2], hid⟩
    · cases hrun

end NsyncVerif.MuQ
