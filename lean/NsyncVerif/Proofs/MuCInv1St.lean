import NsyncVerif.Proofs.MuCInv1Tac
namespace NsyncVerif.MuC

theorem inv1_stepSt {s s' : State} {t : Tid} {o : Ord} {loc : Loc} {new obs : Nat} (h : Inv1 s)
    (hs : stepSt s t o loc new obs = .ok s') : Inv1 s' := by
  unfold stepSt at hs
  split at hs
  all_goals first
    | (rename_i heq; ld_case t h heq hs)
    | skip
  -- mtStRel: the release store of mu_try_acquire_after_timeout_or_cancel
  rename_i c old ok heq
  have hok0 := h.pcok t
  rw [heq] at hok0
  obtain ⟨_, _, _, hnl1, hnl2⟩ := hok0
  have hsh : shareOf s t = some .W := by sh_old t h heq
  dsimp only at hs
  repeat' split at hs
  all_goals first
    | (cases hs; done)
    | skip
  · -- removed from the queue: keep the lock in the caller's mode
    cases hs
    inv1_step t h heq
    cases hl : c.l with
    | W =>
      have hwl : s.word.wlock = true := by rw [h.lock.wl, (h.lock.wown t).2 hsh]; rfl
      refine h.lock.same (by simp [mtRelWord, hwl]) (by simp [hl, mtRelWord, hnl2, h.lock.excl hwl]) ?_ (by simp [hl]) ?_
      · simp [hl]; exact ((h.lock.wown t).2 hsh).symm
      · intro u
        by_cases hu : u = t
        · subst hu; rw [hsh]; sh_new u h heq
        · exact shareOf_other (by simp) (by simp [setFn, hu])
    | R =>
      refine h.lock.downgrade hsh (by simp [hl, mtRelWord, hnl1]) (by simp [hl, mtRelWord, hnl2]) (by simp [hl]) (by simp [hl])
        (by sh_new t h heq) (by sh_oth)
  · -- not removed: release spinlock and lock
    cases hs
    inv1_step t h heq
    refine h.lock.releaseW hsh (by simp [mtRelWord, hnl1]) ?_ (by simp) (by simp) (by sh_new t h heq) (by sh_oth)
    have hwl : s.word.wlock = true := by rw [h.lock.wl, (h.lock.wown t).2 hsh]; rfl
    simp [mtRelWord, hnl2, h.lock.excl hwl]

end NsyncVerif.MuC
