import NsyncVerif.Proofs.MuCInv1Ld
/-
  MuC: tactics for the steps that change the lock bits.
-/
namespace NsyncVerif.MuC

/-- Reduce `Inv1 s'` to `LockInv s'` for a step of thread `t`. -/
macro "inv1_step" t:ident h:ident heq:ident : tactic => `(tactic|
  (have hok := ($h).pcok $t
   rw [$heq:ident] at hok
   refine Inv1.step $t $h (by simp) (by intro u hu; simp [setFn, hu]) (by rw [$heq:ident]; simp) ?_ ?_
   · (simp_all [PC.ok, SL.okL, SL.entry, SL.fromWait, SL.woken, MW.inner, MW.ok, Ret.ok, noLock, Scan.ok, loopPc, finPc, Ret.pc]) <;> grind))

/-- `shareOf s t = …` from the program point of `t` in `s`. -/
macro "sh_old" t:ident h:ident heq:ident : tactic => `(tactic|
  (have hok := ($h).pcok $t
   rw [$heq:ident] at hok
   rw [($h).share_eq (by rw [$heq:ident]; simp), $heq:ident]
   (simp_all [pcShare, PC.ok, MW.inner, MW.ok, Ret.ok, Ret.mode, SL.okL]) <;> grind))

/-- `shareOf s' t = …` for the concrete successor state. -/
macro "sh_new" t:ident h:ident heq:ident : tactic => `(tactic|
  (have hok := ($h).pcok $t
   rw [$heq:ident] at hok
   have hheld := ($h).held_none (t := $t) (by rw [$heq:ident]; simp)
   (simp_all [shareOf, tshare, pcShare, PC.ok, MW.inner, MW.ok, Ret.ok, Ret.mode, Ret.pc, finPc, loopPc, SL.okL]) <;> grind))

/-- the other threads keep their shares -/
macro "sh_oth" : tactic => `(tactic|
  (intro u hu; exact shareOf_other (by simp) (by simp [setFn, hu])))

end NsyncVerif.MuC
