import NsyncVerif.Proofs.MuCQScan
/-
  MuC: the queue invariant (I_queue): ownership of waiter records, at most one unlocker between grab
  and final CAS, no record twice on the lists, everything on a list has `waiting` set.
-/
namespace NsyncVerif.MuC

def PC.finOf : PC → Option Fin
  | .usFinLd _ f | .usFinCas _ f _ => some f
  | _ => none

structure Inv4 (s : State) : Prop where
  own : ∀ t k, k ∈ (s.pc t).ws → (s.wr k).owner = some t
  uniq : ∀ t u, (s.pc t).unl = true → (s.pc u).unl = true → t = u
  nd : ∀ t, (allOf s t).Nodup
  wait : ∀ k, Queued s k → (s.wr k).waiting = true
  wk : ∀ t k, k ∈ (s.pc t).wakeL → (s.wr k).waiting = true ∧ ¬ Queued s k
  limbo : ∀ t k, (s.pc t).limbo = some k → (s.wr k).waiting = true ∧ ¬ Queued s k ∧ ∀ u, k ∉ (s.pc u).wakeL
  finq : ∀ t f, (s.pc t).finOf = some f → f.cEmpty = s.queue.isEmpty
  wkd : ∀ t u k, k ∈ (s.pc t).wakeL → k ∈ (s.pc u).wakeL → t = u

theorem queued_congr {s s' : State} (hq : s'.queue = s.queue) (hsc : ∀ u, (s'.pc u).scan? = (s.pc u).scan?) (k : Wid) :
    Queued s' k ↔ Queued s k := by
  simp only [Queued, hq, hsc]

/-- A step of thread `t` that leaves the queue and `waiting` of all records alone, may release records
    of `t`, and moves `t` to a program point with the same lists. -/
theorem Inv4.local {s s' : State} (t : Tid) (h : Inv4 s) (hq : s'.queue = s.queue)
    (hwr : ∀ x, ((s'.wr x).owner = (s.wr x).owner ∨ ((s.wr x).owner = some t ∧ x ∉ (s'.pc t).ws)) ∧
      (s'.wr x).waiting = (s.wr x).waiting)
    (hpc : ∀ u, u ≠ t → s'.pc u = s.pc u)
    (hws : ∀ k, k ∈ (s'.pc t).ws → k ∈ (s.pc t).ws)
    (hunl : (s'.pc t).unl = true → (s.pc t).unl = true) (hsc : (s'.pc t).scan? = (s.pc t).scan?)
    (hwk : (s'.pc t).wakeL = (s.pc t).wakeL) (hlb : (s'.pc t).limbo = (s.pc t).limbo)
    (hfin : ∀ f, (s'.pc t).finOf = some f → (s.pc t).finOf = some f) : Inv4 s' := by
  have hsc' : ∀ u, (s'.pc u).scan? = (s.pc u).scan? := by
    intro u; by_cases hu : u = t
    · subst hu; exact hsc
    · rw [hpc u hu]
  have hwk' : ∀ u, (s'.pc u).wakeL = (s.pc u).wakeL := by
    intro u; by_cases hu : u = t
    · subst hu; exact hwk
    · rw [hpc u hu]
  have hunl' : ∀ u, (s'.pc u).unl = true → (s.pc u).unl = true := by
    intro u; by_cases hu : u = t
    · subst hu; exact hunl
    · rw [hpc u hu]; exact id
  have hQ := queued_congr hq hsc'
  refine ⟨?_, ?_, ?_, ?_, ?_, ?_, ?_, fun u v k hu hv => by rw [hwk'] at hu hv; exact h.wkd u v k hu hv⟩
  · intro u k hk
    by_cases hu : u = t
    · subst hu
      rcases (hwr k).1 with e | ⟨_, e⟩
      · rw [e]; exact h.own u k (hws k hk)
      · exact absurd hk e
    · rw [hpc u hu] at hk
      have := h.own u k hk
      rcases (hwr k).1 with e | ⟨e, _⟩
      · rw [e]; exact this
      · rw [this] at e; cases e; exact absurd rfl hu
  · intro u v hu hv; exact h.uniq u v (hunl' u hu) (hunl' v hv)
  · intro u
    have : allOf s' u = allOf s u := by simp only [allOf, hq, PC.priv, hsc', hwk']
    rw [this]; exact h.nd u
  · intro k hk; rw [(hwr k).2]; exact h.wait k ((hQ k).1 hk)
  · intro u k hk
    rw [hwk'] at hk
    rw [(hwr k).2, hQ]; exact h.wk u k hk
  · intro u k hk
    have hk' : (s.pc u).limbo = some k := by
      by_cases hu : u = t
      · subst hu; rw [← hlb]; exact hk
      · rw [← hpc u hu]; exact hk
    obtain ⟨a, b, c⟩ := h.limbo u k hk'
    exact ⟨by rw [(hwr k).2]; exact a, by rw [hQ]; exact b, fun v => by rw [hwk']; exact c v⟩
  · intro u f hf
    have hf' : (s.pc u).finOf = some f := by
      by_cases hu : u = t
      · subst hu; exact hfin f hf
      · rw [← hpc u hu]; exact hf
    rw [hq]; exact h.finq u f hf'

/-- A step that changes only semaphores / data / clock / the word. -/
theorem Inv4.env {s s' : State} (h : Inv4 s) (hq : s'.queue = s.queue)
    (hwr : ∀ x, (s'.wr x).owner = (s.wr x).owner ∧ (s'.wr x).waiting = (s.wr x).waiting)
    (hpc : s'.pc = s.pc) : Inv4 s' := by
  have hQ : ∀ k, Queued s' k ↔ Queued s k := fun k => by simp only [Queued, hq, hpc]
  refine ⟨?_, ?_, ?_, ?_, ?_, ?_, ?_, fun u v k hu hv => by rw [hpc] at hu hv; exact h.wkd u v k hu hv⟩
  · intro u k hk; rw [(hwr k).1]; rw [hpc] at hk; exact h.own u k hk
  · intro u v hu hv; rw [hpc] at hu hv; exact h.uniq u v hu hv
  · intro u; simp only [allOf, hq, hpc]; exact h.nd u
  · intro k hk; rw [(hwr k).2]; exact h.wait k ((hQ k).1 hk)
  · intro u k hk; rw [hpc] at hk; rw [(hwr k).2, hQ]; exact h.wk u k hk
  · intro u k hk; rw [hpc] at hk
    obtain ⟨a, b, c⟩ := h.limbo u k hk
    exact ⟨by rw [(hwr k).2]; exact a, by rw [hQ]; exact b, fun v => by rw [hpc]; exact c v⟩
  · intro u f hf; rw [hpc] at hf; rw [hq]; exact h.finq u f hf

theorem fin_spin {p : PC} {f : Fin} (h : p.finOf = some f) : p.spin = true := by
  cases p <;> simp [PC.finOf] at h <;> rfl

/-- Only the owner of the spinlock can be at the final CAS of unlock_slow. -/
theorem Inv3.fin_owner {s : State} (h3 : Inv3 s) {t u : Tid} {f : Fin} (ht : (s.pc t).spin = true)
    (hf : (s.pc u).finOf = some f) : u = t := by
  have h1 := (h3.own t).2 ht
  have h2 := (h3.own u).2 (fin_spin hf)
  rw [h1] at h2; cases h2; rfl

theorem queued_mono {s s' : State} (hq : ∀ k, k ∈ s'.queue → k ∈ s.queue) (hsc : ∀ u, (s'.pc u).scan? = (s.pc u).scan?) {k : Wid}
    (h : Queued s' k) : Queued s k := by
  rcases h with h | ⟨u, sc, h1, h2⟩
  · exact Or.inl (hq k h)
  · exact Or.inr ⟨u, sc, by rw [← hsc]; exact h1, h2⟩

theorem Inv4.not_in_priv {s : State} (h : Inv4 s) {k : Wid} (hk : k ∈ s.queue) (u : Tid) : k ∉ (s.pc u).priv := by
  intro hp
  have := h.nd u
  simp only [allOf, List.append_assoc] at this
  have := (List.nodup_append.mp this).2.2 k hk k (List.mem_append_left _ hp)
  exact this rfl

theorem mem_priv_iff {s : State} {u : Tid} {k : Wid} : k ∈ (s.pc u).priv ↔ ∃ sc, (s.pc u).scan? = some sc ∧ k ∈ sc.lists := by
  simp only [PC.priv]
  cases (s.pc u).scan? <;> simp

end NsyncVerif.MuC
