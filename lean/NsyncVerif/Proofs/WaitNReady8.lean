/-
  Proofs/WaitNReady8.lean — `TF` is preserved by the caller's own steps, part 4: the statements of wait.c
  between the waitable calls (alloc, init, unlock, cv_ready_time, the sleep, free, relock, return, call).
-/
import NsyncVerif.Proofs.WaitNReady7

set_option linter.unusedSimpArgs false
set_option linter.unusedVariables false

namespace WaitN

theorem enqNext_zero {f : Frame} (h : 0 < f.count) : enqNext f 0 true = .wInit 0 := by
  unfold enqNext; rw [if_pos ⟨rfl, h⟩]

theorem inLoop_of_unlock {f : Frame} (hp : PreLoop f) (hlen : f.recs.length = f.count) (hm : f.mu.isSome = true) :
    InLoop { f with held := false, unlocked := true, who := none } :=
  { toAlloc := { hp.toAlloc with }, frees := hp.frees, unlocked := hm.symm, held := rfl, ready := hp.ready,
    deqRes := hp.deqRes, freed := hp.freed, full := hlen,
    whyMin := by intro hmin; simp only at hmin; rw [hp.min, hp.dl] at hmin; cases hmin }

theorem tf_stepAlloc {s s' : State} {t : Tid} {e : Ev} (c : Ctx s t)
    (hpc : s.pc t = .wAlloc) (h : stepAlloc s t e = .ok s') : TF s' (s'.pc t) (s'.fr t) := by
  have hl : LInv .wAlloc (s.fr t) := hpc ▸ c.linv
  have htf : TF s .wAlloc (s.fr t) := hpc ▸ c.tf
  unfold stepAlloc at h
  split_ok h
  all_goals first
    | exact tf_dflt c h
    | (cases h
       simp only [setPc_pc, setPc_fr, setFr_fr, if_true]
       rw [enqNext_zero (by simpa [Frame.count] using hl.1.pos)]
       exact tf_congr (s := s) rfl rfl rfl htf)

theorem tf_stepInit {s s' : State} {t : Tid} {i : Nat} {e : Ev} (c : Ctx s t)
    (hpc : s.pc t = .wInit i) (h : stepInit s t i e = .ok s') : TF s' (s'.pc t) (s'.fr t) := by
  have hl : LInv (.wInit i) (s.fr t) := hpc ▸ c.linv
  have htf : TF s (.wInit i) (s.fr t) := hpc ▸ c.tf
  unfold stepInit at h
  dsimp only at h
  split at h
  · split at h
    · cases h
      simp only [setPc_pc, setPc_fr, setFr_fr, setRec_fr, if_true]
      have hw : Waited s (s.fr t) (s.fr t).count := htf
      split
      · exact fun k c' hk hc' => hw k c' hk hc'
      · exact ⟨fun k c' hk hc' => hw k c' hk hc', trivial⟩
    · simp at h
  · exact tf_dflt c h

theorem tf_stepUnlockMu {s s' : State} {t : Tid} {e : Ev} (c : Ctx s t)
    (hpc : s.pc t = .wUnlock) (h : stepUnlockMu s t e = .ok s') : TF s' (s'.pc t) (s'.fr t) := by
  have hl : LInv .wUnlock (s.fr t) := hpc ▸ c.linv
  have htf : TF s .wUnlock (s.fr t) := hpc ▸ c.tf
  unfold stepUnlockMu at h
  split_ok h
  all_goals first
    | exact tf_dflt c h
    | (cases h
       simp only [setPc_pc, setPc_fr, setFr_fr, if_true]
       obtain ⟨hp, hlen, hm⟩ := hl
       refine tf_congr (s := s) rfl rfl rfl ?_
       apply tf_loopNext (by exact htf.1) _ (inLoop_of_unlock hp hlen hm)
       exact ⟨fun _ => hp.min, fun k hk => (by cases hk), htf.2.1, htf.2.2⟩)

theorem tf_stepCvRT {s s' : State} {t : Tid} {j : Nat} {e : Ev} (c : Ctx s t)
    (hpc : s.pc t = .wCvRT j) (h : stepCvRT s t j e = .ok s') : TF s' (s'.pc t) (s'.fr t) := by
  have hl : LInv (.wCvRT j) (s.fr t) := hpc ▸ c.linv
  have htf : TF s (.wCvRT j) (s.fr t) := hpc ▸ c.tf
  unfold stepCvRT at h
  split at h
  · rename_i r' obs r hr
    split at h
    · rename_i hg
      obtain ⟨cv, hcv⟩ := hl.2
      refine tf_rtDone_loop hl.1 htf.1 htf.2 ?_ ?_ h
      · intro hd
        have h0 : obs = 0 := by
          by_cases h0 : obs = 0
          · exact h0
          · simp [h0, dlePast] at hd
        unfold sReady; rw [hcv]
        exact ⟨r, hr, by rw [h0] at hg; simpa using hg.2.symm⟩
      · intro hd; left
        by_cases h0 : obs = 0
        · simp [h0, dlePast] at hd
        · simp [h0]
    · simp at h
  · exact tf_dflt c h

theorem tf_stepPdEnter {s s' : State} {t : Tid} {e : Ev} (c : Ctx s t)
    (hpc : s.pc t = .wPdEnter) (h : stepPdEnter s t e = .ok s') : TF s' (s'.pc t) (s'.fr t) := by
  have htf : TF s .wPdEnter (s.fr t) := hpc ▸ c.tf
  unfold stepPdEnter at h
  split_ok h
  all_goals first
    | exact tf_dflt c h
    | (rename_i s1 hb
       cases h
       have k := keeps_bindSem (t := t) hb
       have m := mono_bindSem (t := t) hb
       simp only [setPc_pc, setPc_fr, if_true]
       refine TF.same k.2 (tf_congr (s := s) ?_ ?_ ?_ htf)
       · unfold bindSem at hb; split_ok hb; all_goals (cases hb; try rfl)
       · unfold bindSem at hb; split_ok hb; all_goals (cases hb; try rfl)
       · unfold bindSem at hb; split_ok hb; all_goals (cases hb; try rfl))

theorem tf_stepPdWait {s s' : State} {t : Tid} {j : SemId} {e : Ev} (c : Ctx s t)
    (hpc : s.pc t = .wPdWait j) (h : stepPdWait s t j e = .ok s') : TF s' (s'.pc t) (s'.fr t) := by
  have hl : LInv (.wPdWait j) (s.fr t) := hpc ▸ c.linv
  have htf : TF s (.wPdWait j) (s.fr t) := hpc ▸ c.tf
  unfold stepPdWait at h
  dsimp only at h
  split at h
  · rename_i j' tmo
    split at h
    · split at h
      · -- timed out
        split at h
        · rename_i hex
          cases h
          simp only [setPc_pc, setPc_fr, setFr_fr, if_true]
          refine tf_congr (s := s) rfl rfl rfl ?_
          have hlf := htf.2
          have hil := hl.1
          have hd : DeqF s { s.fr t with why := match (s.fr t).who with | none => Why.timeout | some k => Why.readyAt k } := by
            refine ⟨?_, ?_, ?_⟩
            · intro hw
              cases hwho : (s.fr t).who with
              | none => rw [← hlf.whoNone hwho]; exact hex
              | some k => simp only [hwho] at hw; cases hw
            · intro k hk
              cases hwho : (s.fr t).who with
              | none => simp only [hwho] at hk; cases hk
              | some k' =>
                simp only [hwho] at hk; cases hk
                obtain ⟨n, hn, hmin⟩ := hlf.whoSome k hwho hl.2
                have hsr : sReady s (s.fr t) k := by
                  unfold sReady; rw [hn]; right; rw [← hmin]; exact hex
                exact .inr ⟨by simp [hil.deqRes], by rw [hil.full]; exact lt_count_of_get hn, hsr⟩
            · intro hlt; simp only [hil.ready] at hlt; exact absurd hlt (Nat.lt_irrefl _)
          exact tf_deqNext (by exact htf.1) hd (by simp [hil.deqRes]) hil.len (by rw [hil.full]; exact hil.pos)
        · simp at h
      · -- woken
        split at h
        · simp at h
        · cases h
          refine tf_startScan (s := s.setSem _ _) hl.1 ?_ ?_
          · exact htf.1
          · exact (tf_congr (p := .wPdEnter) (s := s) (s' := s.setSem _ _) rfl rfl rfl htf).2
    · simp at h
  all_goals first
    | exact tf_dflt c h
    | simp at h

end WaitN
