/-
  Proofs/WaitNFairTrace3.lean — WaitN layer, liveness form of C11: `holdExec` (`ForeignRelease` is needed), and
  further facts about `timeoutExec`, `wokenExec`, `cvWokenExec` (the caller is inside the call, the object that
  became ready, the signaller).
-/
import NsyncVerif.Proofs.WaitNFairTrace2

namespace WaitN

open Example

/-! ## `ForeignRelease` is needed -/

def holdEvs : List Event :=
  [.thr 9 (.newNote 0 none), .thr 1 (.lockCall (.note 0)), .thr 1 .lockRet,
   .thr 0 (.callWaitN none (some 500) [.note 0] false), .thr 0 (.ld .acq (.notified 0) .noteND 0),
   .thr 0 (.lockCall (.note 0))]
def holdFinal : State := stateFrom init holdEvs

theorem hold_run : run init holdEvs = .ok holdFinal := run_of_accepts (by decide)

/-- Thread 1 (foreign code) takes note_mu of note 0 and keeps it for ever; thread 0 calls nsync_wait_n on note 0 with
    deadline 500 and waits for note_mu in its first nsync_note_notified_deadline_; then nothing for ever. -/
def holdExec : Exec init := traceExec holdEvs holdFinal hold_run

theorem hold_tail {j : Nat} (hj : 6 ≤ j) : holdExec.ρ j = holdFinal ∧ holdExec.σ j = none :=
  traceExec_tail hold_run (by show holdEvs.length ≤ j; exact hj)

theorem hold_quiet : ∀ t, quietB holdFinal t = true := all_tid 10 (by decide) (fun _ => rfl)

/-- whoever is acquiring a lock in the final state is acquiring a lock that is held -/
theorem hold_lockwait : ∀ t, (match lockWaitOf (holdFinal.pc t) (holdFinal.fr t) with
    | some o => ((holdFinal.obj o).lock).isSome
    | none => true) = true := all_tid 10 (by decide) (fun _ => rfl)

/-- All hypotheses except `ForeignRelease` hold (`LockFair`: the lock is never free again; `WeakFair`: thread 0 is
    `Blocked`, thread 1 is idle and owes nothing), the deadline is finite, and the call never returns. -/
theorem hold_needs_foreignRelease : Reachable init ∧ WeakFair holdExec ∧ LockFair holdExec ∧ ¬ ForeignRelease holdExec ∧
    ClockAdvances holdExec ∧ (∀ t, FiniteWakeups holdExec t) ∧ FiniteStrayPosts holdExec ∧
    ((holdExec.ρ 4).fr 0).dl = some 500 ∧
    (∀ j, 6 ≤ j → (holdExec.ρ j).pc 0 = .wND .poll 0 .lockWait ∧ ((holdExec.ρ j).obj (.note 0)).lock = some 1) := by
  have hf : holdFinal.pc 0 = .wND .poll 0 .lockWait ∧ (holdFinal.obj (.note 0)).lock = some 1 ∧ holdFinal.pc 1 = .idle := by
    decide
  refine ⟨reachable_init, tail_weakFair holdExec 6 holdFinal (fun j hj => hold_tail hj) hold_quiet, ?_, ?_,
    traceExec_clock hold_run 10 0 (by decide) (by decide) (by decide),
    finiteWakeups_of_tail holdExec 6 (fun j hj => (hold_tail hj).2),
    finiteStrayPosts_of_tail holdExec 6 (fun j hj => (hold_tail hj).2), by decide, ?_⟩
  · intro t o i h hfree
    have h1 := h (max i 6) (by omega)
    obtain ⟨j', hj', hn⟩ := hfree (max i 6) (by omega)
    rw [(hold_tail (show 6 ≤ max i 6 by omega)).1] at h1
    rw [(hold_tail (show 6 ≤ j' by omega)).1] at hn
    have := hold_lockwait t
    rw [h1] at this
    simp only [hn] at this
    cases this
  · intro h
    obtain ⟨j, hj, hne⟩ := h 6 (.note 0) 1 (by rw [(hold_tail (Nat.le_refl 6)).1]; exact hf.2.1)
      (by rw [(hold_tail (Nat.le_refl 6)).1, hf.2.2]; simp [accounts, holdsAt])
    rw [(hold_tail hj).1] at hne
    exact hne hf.2.1
  · intro j hj
    rw [(hold_tail hj).1]; exact ⟨hf.1, hf.2.1⟩

/-! ## further facts about the non-vacuity executions -/

set_option maxRecDepth 4096 in
theorem timeout_call : inCall ((timeoutExec.ρ 1).pc 0) = true ∧ ((timeoutExec.ρ 1).fr 0).dl = some 500 ∧
    inCall ((timeoutExec.ρ 34).pc 0) = true ∧ ((timeoutExec.ρ 34).fr 0).dl = some 500 := by decide

set_option maxRecDepth 4096 in
/-- object 1 of the call is counter 0, whose value is 0 from time 49 on -/
theorem woken_call : inCall ((wokenExec.ρ 44).pc 0) = true ∧ ((wokenExec.ρ 44).fr 0).dl = none ∧
    ((wokenExec.ρ 49).fr 0).recs[1]? = some (.stk 1) ∧ becameReady (wokenExec.ρ 49) 0 1 (.stk 1) := by
  have h : ((wokenExec.ρ 49).fr 0).objs[1]? = some (.ctr 0) ∧ ((wokenExec.ρ 49).obj (.ctr 0)).value = 0 := by decide
  refine ⟨by decide, by decide, by decide, ?_⟩
  unfold becameReady
  rw [h.1]; exact h.2

/-- thread 1 has just called nsync_cv_signal (event 9) -/
theorem cvWoken_sig : (cvWokenExec.ρ 10).pc 1 = .sg 0 false .load := by decide

end WaitN
