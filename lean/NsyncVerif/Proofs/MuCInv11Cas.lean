import NsyncVerif.Proofs.MuCInv11Ld
/-
  MuC, Inv11: CAS steps outside the scan.
-/
namespace NsyncVerif.MuC

macro "cas_case11" t:ident h1:ident h:ident heq:ident hs:ident : tactic => `(tactic|
  (rcases casWord_ok $hs with ⟨hw, -, hs'⟩ | ⟨-, -, hs'⟩ <;> subst hs' <;>
    first
    | inv11_local $t $h1 $h $heq
    | (split <;> inv11_local $t $h1 $h $heq)
    | (split <;> first | inv11_local $t $h1 $h $heq | (split <;> inv11_local $t $h1 $h $heq))))

macro "not_strong" heq:ident : tactic => `(tactic|
  (rintro (a | a | ⟨k, a, _⟩) <;> rw [$heq:ident] at a <;> simp [PC.unl, PC.woken, PC.waitRec, Ret.w?] at a))

theorem inv11_stepCasB {s s' : State} {t : Tid} {o : Ord} {loc : Loc} {exp new obs : Nat} {ok : Bool}
    (h1 : Inv1 s) (h3 : Inv3 s) (h4 : Inv4 s) (h5 : Inv5 s) (h7 : Inv7 s) (h8 : Inv8 s) (h9 : Inv9 s) (h10 : Inv10 s) (h : Inv11 s)
    (hp : match s.pc t with
      | .lkCas0 _ | .lkCas1 _ _ | .tryCas0 _ | .tryCas1 _ _ | .lsCasAcq _ _ | .lsCasEnq _ _ | .lsRelCas _ _ | .ulCas0 _ _ | .ulCas1 _ _ _
      | .usCasUnc _ _ | .mwRelCas _ _ _ | .mtCasWW _ _ | .mtRmCas _ _ _ | .mtCasAcq _ _ | .usFinCas _ _ _ => True
      | _ => False)
    (hs : stepCas s t o loc exp new obs ok = .ok s') : Inv11 s' := by
  unfold stepCas at hs
  split at hs
  all_goals try (rename_i heq; rw [heq] at hp; exact False.elim hp)
  all_goals try (rename_i hne; split at hp <;> first | exact False.elim hp | (exfalso; simp_all; done))
  · rename_i heq; cas_case11 t h1 h heq hs   -- lkCas0
  · rename_i heq; cas_case11 t h1 h heq hs   -- lkCas1
  · rename_i heq; cas_case11 t h1 h heq hs   -- tryCas0
  · rename_i heq; cas_case11 t h1 h heq hs   -- tryCas1
  · -- lsCasAcq
    rename_i c old heq
    have hok8 := h8 t; rw [heq] at hok8
    rcases casWord_ok hs with ⟨hw, -, hs'⟩ | ⟨-, -, hs'⟩ <;> subst hs'
    · have hwl : s.word.wlock = false := by
        have := (h1.pcok t); rw [heq] at this
        have := this.2; rw [← hw] at this
        cases hl : c.l <;> simp_all [blocked]
      have hnm := no_mtOld_of_unlocked h1 hwl
      have hstr0 : ∀ s1 : State, s1.word.desig = (s.word.desig && !c.clear) → (s1.pc t).mtOld = none →
          (s.pc t).srKeep (s1.pc t) ∨
          (StrongResp s t → s1.word.desig = false ∧ (∀ u, (s.pc u).mtOld = none) ∧ (s1.pc t).mtOld = none) := by
        intro s1 e1 e2
        right; intro hst
        cases hcl : c.clear with
        | false =>
          exfalso
          rcases hst with a | a | ⟨k, a, _⟩ <;> rw [heq] at a <;> simp [PC.unl, PC.woken, PC.waitRec, hcl] at a
        | true => exact ⟨by rw [e1, hcl]; simp, hnm, e2⟩
      cases hmw : c.mw with
      | none =>
        simp only []
        cases hcw : c.w with
        | none =>
          simp only [dropW]
          inv11_loc2 t h1 h heq
          · exact hstr0 _ (by cases hl : c.l <;> simp [acqWord, hl, ← hw]) (by simp [PC.mtOld])
          · intro _ _; right; left; unfold shareOf tshare; split <;> simp [pcShare]
        | some k =>
          simp only [dropW]
          inv11_loc2 t h1 h heq
          · exact hstr0 _ (by cases hl : c.l <;> simp [acqWord, hl, ← hw]) (by simp [PC.mtOld])
          · intro _ _; right; left; unfold shareOf tshare; split <;> simp [pcShare]
      | some m =>
        have hif : ∀ s1 : State, (if m.cond.isSome = true then setPc s1 t (PC.mwEval m) else mwLoop s1 t m true)
            = setPc s1 t (if m.cond.isSome = true then PC.mwEval m else loopPc m true) := by
          intro s1; split <;> simp [mwLoop_eq]
        simp only [hif]
        split <;>
        (inv11_loc2 t h1 h heq
         · exact hstr0 _ (by cases hl : c.l <;> simp [acqWord, hl, ← hw]) (by simp [PC.mtOld, loopPc]; try (split <;> rfl))
         · intro _ _; right; left; unfold shareOf tshare; split <;> simp [pcShare, loopPc] <;> (try split) <;> simp)
    · inv11_local t h1 h heq
  · -- lsCasEnq
    rename_i c old heq
    have hok8 := h8 t; rw [heq] at hok8
    have hok3 := h3.ok3 t; rw [heq] at hok3
    have hheld : s.held t = none := h1.held_none (by rw [heq]; simp)
    rcases casWord_ok hs with ⟨hw, -, hs'⟩ | ⟨-, -, hs'⟩ <;> subst hs'
    · have hnm := no_mtOld_of_nospin h3 (by rw [hw]; exact hok3)
      inv11_loc2 t h1 h heq
      · right; intro hst
        cases hcl : c.clear with
        | false =>
          exfalso
          rcases hst with a | a | ⟨k, a, _⟩ <;> rw [heq] at a <;> simp [PC.unl, PC.woken, PC.waitRec, hcl] at a
        | true => exact ⟨by simp [enqWord, hcl], hnm, by simp [PC.mtOld]⟩
      · intro _ hr
        cases hcl : c.clear with
        | false =>
          exfalso
          rcases hr with a | a | a
          · simp [shareOf, tshare, hheld, heq, pcShare] at a
          · rcases a with a | a | ⟨k, a, _⟩ <;> rw [heq] at a <;> simp [PC.unl, PC.woken, PC.waitRec, hcl] at a
          · rw [heq] at a; simp [PC.timedOut] at a
        | true =>
          right; right; right; right; right
          have hb := hok8.2
          rw [← hok8.1.1, hcl, ← hw] at hb
          obtain ⟨u, hu⟩ := holder_of_locked h1 (by cases hl : c.l <;> simp_all [blocked])
          refine ⟨u, ?_, Or.inl hu⟩
          intro e; subst e
          simp [shareOf, tshare, hheld, heq, pcShare] at hu
    · inv11_local t h1 h heq
  · rename_i heq; cas_case11 t h1 h heq hs   -- lsRelCas
  · -- ulCas0
    rename_i l nwk heq
    have hns : ¬ StrongResp s t := by not_strong heq
    rcases casWord_ok hs with ⟨hw, -, hs'⟩ | ⟨-, -, hs'⟩ <;> subst hs'
    · inv11_loc2 t h1 h heq
      · left; pc11 heq
      · intro hnv _; right; right; right; right
        exact resp_or_quiet h1 h7 h9 h hns hnv (Or.inl (by rw [hw]; cases l <;> simp [addWord, Word.zero]))
    · inv11_local t h1 h heq
  · -- ulCas1
    rename_i l nwk old heq
    have hns : ¬ StrongResp s t := by not_strong heq
    have hok8 := h8 t; rw [heq] at hok8
    have hheld : s.held t = none := h1.held_none (by rw [heq]; simp)
    have hsh : shareOf s t = some l := by simp [shareOf, tshare, hheld, heq, pcShare]
    rcases casWord_ok hs with ⟨hw, -, hs'⟩ | ⟨-, -, hs'⟩ <;> subst hs'
    · rw [← hw] at hok8
      inv11_loc2 t h1 h heq
      · left; pc11 heq
      · intro hnv _; right; right; right; right
        refine resp_or_quiet h1 h7 h9 h hns hnv ?_
        cases hwt : s.word.waiting with
        | false => exact Or.inl rfl
        | true =>
          cases hdg : s.word.desig with
          | true => exact Or.inr (Or.inl rfl)
          | false =>
            right; right
            cases l with
            | W =>
              right
              simp only [PC.ok8, hwt, hdg, Bool.not_false, Bool.and_true, Bool.true_and] at hok8
              have hok8' : nwk = true ∧ s.word.af = true := by simpa using hok8
              exact ⟨hok8'.2, by rw [hsh]; simp, by rw [heq]; simp [PC.susp, hok8'.1], by rw [heq]; rfl, hheld⟩
            | R =>
              simp only [PC.ok8, hwt, hdg, Bool.not_false, Bool.and_true, Bool.true_and] at hok8
              by_cases hr : s.word.readers = 1
              · right
                simp [hr] at hok8
                exact ⟨hok8, by rw [hsh]; simp, by rw [heq]; simp [PC.susp], by rw [heq]; rfl, hheld⟩
              · exact Or.inl (other_reader h1 hsh hr)
    · inv11_local t h1 h heq
  · -- usCasUnc
    rename_i r old heq
    have hok8 := h8 t; rw [heq] at hok8
    have hheld : s.held t = none := h1.held_none (by rw [heq]; simp)
    have hsh : shareOf s t = some r.mode := by simp [shareOf, tshare, hheld, heq, pcShare]
    simp only [afterWakes_eq] at hs
    rcases casWord_ok hs with ⟨hw, -, hs'⟩ | ⟨-, -, hs'⟩ <;> subst hs'
    · rw [← hw] at hok8
      have hquiet : s.nwViol = false → ¬ StrongResp s t → ¬ NeedC s ∨ ∃ u, u ≠ t ∧ RespT s u := by
        intro hnv hns
        refine resp_or_quiet h1 h7 h9 h hns hnv ?_
        simp only [PC.ok8, uncontended] at hok8
        cases hwt : s.word.waiting with
        | false => exact Or.inl rfl
        | true =>
          cases hdg : s.word.desig with
          | true => exact Or.inr (Or.inl rfl)
          | false =>
            right; right
            by_cases hr : 1 < s.word.readers
            · exact Or.inl (other_of_many_readers h1 hr t)
            · right
              simp [hwt, hdg, hr] at hok8
              have hmode : r.mode = .R := by
                cases hm : r.mode with
                | R => rfl
                | W =>
                  exfalso
                  rw [hm] at hsh
                  have hwl : s.word.wlock = true := by rw [h1.lock.wl, (h1.lock.wown t).2 hsh]; rfl
                  have := h1.lock.excl hwl
                  omega
              refine ⟨hok8.2, by rw [hsh]; simp, ?_, by rw [heq]; rfl, hheld⟩
              rw [heq]; simp only [PC.susp]
              cases hd : r.dirty with
              | false => rfl
              | true => have := dirty_mode hd; rw [hmode] at this; cases this
      cases r <;>
      (inv11_loc2 t h1 h heq
       · left; pc11 heq
       · intro hnv _
         by_cases hst : StrongResp s t
         · left; exact ⟨hst, by pc11 heq⟩
         · right; right; right; right; exact hquiet hnv hst)
    · inv11_local t h1 h heq
  · -- usFinCas
    rename_i r f old heq
    have hok8 := h8 t; rw [heq] at hok8
    have hok1 := h1.pcok t; rw [heq] at hok1
    rcases casWord_ok hs with ⟨hw, -, rfl⟩ | ⟨-, -, rfl⟩
    · rw [afterFin_eq]
      have hpcs : ∀ u, u ≠ t → ((setPc (if f.late = true then { s with word := finWord f old, sp := none, wOwner := none }
          else { s with word := finWord f old, sp := none }) t (finPc r f.wake)).pc u) = s.pc u := by
        intro u hu; split <;> simp [setFn, hu]
      have hQ : ∀ k, Queued (setPc (if f.late = true then { s with word := finWord f old, sp := none, wOwner := none }
          else { s with word := finWord f old, sp := none }) t (finPc r f.wake)) k → Queued s k := by
        intro k hk
        refine (queued_same (t := t) (by split <;> simp) (by intro u hu; split <;> simp [setFn, hu]) ?_ k).1 hk
        simp only [setPc_pc, setFn_same, heq, finPc_scan]; rfl
      by_cases hwk : f.wake = []
      · have hsaf : f.saf = true := by
          cases e : f.saf with
          | true => rfl
          | false => exact absurd hwk (hok8.1 e)
        refine ⟨?_, ?_, ?_⟩
        · intro hd'
          have : (finWord f old).desig = false := by simp [finWord, hok8.2, hwk]
          have hd2 : (finWord f old).desig = true := by split at hd' <;> simpa using hd'
          rw [this] at hd2; cases hd2
        · intro u o' ho
          exfalso
          by_cases e : u = t
          · subst e; simp only [setPc_pc, setFn_same, finPc_mtOld] at ho; cases ho
          · rw [hpcs u e] at ho
            have := spin_of_mtOld ho
            rw [h3.others_no_spin (t := t) (by rw [heq]; rfl) u e] at this; cases this
        · intro _ hneed
          exfalso
          obtain ⟨k, c, hk, hc, he⟩ := hneed
          have hkq : k ∈ s.queue := by
            rcases hk with hk | ⟨u, sc, h1', _⟩
            · split at hk <;> simpa using hk
            · exfalso
              by_cases e : u = t
              · subst e; simp only [setPc_pc, setFn_same, finPc_scan] at h1'; cases h1'
              · rw [hpcs u e] at h1'
                exact e (h4.uniq u t (unl_of_scan h1') (by rw [heq]; rfl))
          obtain ⟨c', hc', he'⟩ := ((h7.fin t f (by rw [heq]; rfl)).2 hsaf k hkq).2
          have hc2 : (s.wr k).cond = some c := by split at hc <;> simpa using hc
          have he2 : evalCond s.data c = true := by split at he <;> simpa using he
          rw [hc2] at hc'; cases hc'
          rw [he2] at he'; cases he'
      · obtain ⟨k, hk⟩ := List.exists_mem_of_ne_nil _ hwk
        obtain ⟨u, hu1, hu2, hu3⟩ := inFlight_of_wake h4 h9 (t := t) (k := k) (by rw [heq]; simpa [PC.wakeL] using hk)
        refine Inv11.of_strong u (Or.inr (Or.inr ⟨k, ?_, ?_, fun e => hu3 (hQ k e)⟩))
        · by_cases e : u = t
          · subst e; simp only [setPc_pc, setFn_same, finPc_waitRec]; rw [heq] at hu1; exact hu1
          · rw [hpcs u e]; exact hu1
        · by_cases e : u = t
          · subst e; simp only [setPc_pc, setFn_same]; exact finPc_hlRec r _ hok1
          · rw [hpcs u e]; exact hu2
    · inv11_local t h1 h heq
  · -- mwRelCas
    rename_i c old add0 heq
    have hok8 := h8 t; rw [heq] at hok8
    have hheld : s.held t = none := h1.held_none (by rw [heq]; simp)
    have hsh : shareOf s t = some c.l := by simp [shareOf, tshare, hheld, heq, pcShare]
    rcases casWord_ok hs with ⟨hw, -, hs'⟩ | ⟨-, -, hs'⟩ <;> subst hs'
    · cases add0 with
      | true => simp only [if_true]; inv11_local t h1 h heq
      | false =>
        simp only [Bool.false_eq_true, if_false]
        have hquiet : s.nwViol = false → ¬ StrongResp s t → ¬ NeedC s ∨ ∃ u, u ≠ t ∧ RespT s u := by
          intro hnv hns
          obtain ⟨hadd, hsome⟩ := hok8
          rw [← hw] at hadd
          obtain ⟨k, hk⟩ := Option.isSome_iff_exists.mp hsome
          cases hdg : s.word.desig with
          | true => exact resp_or_quiet h1 h7 h9 h hns hnv (Or.inr (Or.inl hdg))
          | false =>
            by_cases hr : c.l = .R ∧ s.word.readers ≠ 1
            · exact resp_or_quiet h1 h7 h9 h hns hnv (Or.inr (Or.inr (Or.inl (other_reader h1 (by rw [hsh, hr.1]) hr.2))))
            · left
              have hhw : c.hadW = false := by
                cases hl : c.l with
                | W =>
                  have hwl : s.word.wlock = true := by rw [h1.lock.wl, (h1.lock.wown t).2 (by rw [hsh, hl])]; rfl
                  have := h1.lock.excl hwl
                  simp [hl, subWord, this, hdg] at hadd
                  exact hadd
                | R =>
                  have : s.word.readers = 1 := by
                    by_cases e : s.word.readers = 1
                    · exact e
                    · exact absurd ⟨hl, e⟩ hr
                  have hwl : s.word.wlock = false := by
                    cases e : s.word.wlock with
                    | false => rfl
                    | true => have := h1.lock.excl e; omega
                  simp [hl, subWord, this, hdg, hwl] at hadd
                  exact hadd
              rintro ⟨x, cd, hx, hc, he⟩
              have hxk := h10.prel t c k (by rw [heq]; rfl) hk hhw x hx
              subst hxk
              have h5c := h5.h3 t x c.cond (by rw [heq]; simp [PC.limboC, hk])
              have hpf := h10.pcf t c (by rw [heq]; rfl)
              rw [← h5c, hc] at hpf
              simp [evalOpt, he] at hpf
        inv11_loc2 t h1 h heq
        · left; pc11 heq
        · intro hnv _
          by_cases hst : StrongResp s t
          · left; exact ⟨hst, by pc11 heq⟩
          · right; right; right; right; exact hquiet hnv hst
    · inv11_local t h1 h heq
  · rename_i heq; cas_case11 t h1 h heq hs   -- mtCasAcq
  · rename_i heq; cas_case11 t h1 h heq hs   -- mtCasWW
  · rename_i heq; ld_case11 t h1 h heq hs    -- mtRmCas

theorem inv11_stepCasA {s s' : State} {t : Tid} {o : Ord} {loc : Loc} {exp new obs : Nat} {ok : Bool}
    (h1 : Inv1 s) (h : Inv11 s)
    (hp : match s.pc t with
      | .usCasGrab _ _ | .usRelCas _ _ _ | .usReCas _ _ _ | .usRcCas _ _ _ _ => True
      | _ => False)
    (hs : stepCas s t o loc exp new obs ok = .ok s') : Inv11 s' := by
  unfold stepCas at hs
  split at hs
  all_goals try (rename_i heq; rw [heq] at hp; exact False.elim hp)
  all_goals try (rename_i hne; split at hp <;> first | exact False.elim hp | (exfalso; simp_all; done))
  · -- usCasGrab
    rename_i r old heq
    rcases casWordE_ok hs with ⟨hw, -, hs⟩ | ⟨-, -, rfl⟩
    · have hsc0 : Scan.ok { late := old.cond, tc := old.cond, done := [], passed := [], todo := [], wake := [], wt := none,
                            sww := false, saf := true } := fun h => h
      obtain ⟨hf, p, hpc, hsc⟩ := afterPickup_frame hs hsc0
      exact Inv11.of_strong t (Or.inl (scanPc_unl (r := r) (late := old.cond) (by rw [hpc]; simpa using hsc)))
    · inv11_local t h1 h heq
  · -- usRelCas
    rename_i r sc old heq
    have hok1 := h1.pcok t; rw [heq] at hok1
    rcases casWordE_ok hs with ⟨hw, -, hs⟩ | ⟨-, -, rfl⟩
    · obtain ⟨hf, p, hpc, hsc⟩ := scanRun_frame _ _ t r sc s' hs hok1.2
      exact Inv11.of_strong t (Or.inl (scanPc_unl (r := r) (late := sc.late) (by rw [hpc]; simpa using hsc)))
    · inv11_local t h1 h heq
  · -- usReCas
    rename_i r sc old heq
    have hok1 := h1.pcok t; rw [heq] at hok1
    rcases casWordE_ok hs with ⟨hw, -, hs⟩ | ⟨-, -, rfl⟩
    · obtain ⟨hf, p, hpc, hsc⟩ := afterPickup_frame hs hok1.2
      exact Inv11.of_strong t (Or.inl (scanPc_unl (r := r) (late := sc.late) (by rw [hpc]; simpa using hsc)))
    · inv11_local t h1 h heq
  · -- usRcCas
    rename_i r sc k old heq
    have hok1 := h1.pcok t; rw [heq] at hok1
    repeat' split at hs
    all_goals first
      | (cases hs; done)
      | skip
    · obtain ⟨hf, p, hpc, hsc⟩ := scanRun_frame _ _ t r sc s' hs hok1.2
      exact Inv11.of_strong t (Or.inl (scanPc_unl (r := r) (late := sc.late) (by rw [hpc]; simpa using hsc)))
    · cases hs; exact Inv11.of_strong t (Or.inl (by simp [PC.unl]))

end NsyncVerif.MuC
