import NsyncVerif.Proofs.MuCTLLw
/-
  MuC, `LwTL`: stores, API boundaries, semaphore and note events.
-/
namespace NsyncVerif.MuC

theorem lwTL_st {s s' : State} {t : Tid} {o : Ord} {loc : Loc} {new obs : Nat} (h1 : Inv1 s) (h3 : Inv3 s)
    (h : stepSt s t o loc new obs = .ok s') : LwTL s s' t := by
  have hok := h1.pcok t
  have hok3 := h3.ok3 t
  walk_st h => lw_tl

theorem lwTL_call {s s' : State} {t : Tid} {a : Api} (h : stepCall s t a = .ok s') : LwTL s s' t := by
  walk_call h a => lw_tl

theorem lwTL_ret {s s' : State} {t : Tid} {a : Api} {res : Res} (h : stepRet s t a res = .ok s') : LwTL s s' t := by
  walk_ret h => lw_tl

theorem lwTL_sem {cfg : Cfg} {s s' : State} {e : Event} {t : Tid}
    (he : match e with
      | .semPEnter u _ | .semPRet u _ | .semPdEnter u _ _ | .semPdRet u _ _ | .semV u _ | .noteSeen u | .noteNotify u => u = t
      | _ => False)
    (h : step cfg s e = .ok s') : LwTL s s' t := by
  cases e <;> simp only at he <;> subst he
  all_goals walk_sem h => lw_tl

end NsyncVerif.MuC
