/-
  Layer `CvFix` (cv.c with the repair of F3; adapted from the `Cv` file of the same name): the protocol invariant (remove_count handshake, `waiting` flags, unlinkers, outcome).
  Definitions and generic preservation lemmas.
-/
import NsyncVerif.Proofs.CvFixInvAAll

namespace NsyncVerif.CvFix

/-- Program points of the wait at which the local `remove_count` is valid and still used. -/
def savedLoc (x : Thr) : Bool :=
  match x.loc with
  | .wRel | .wUnlock | .wUnlocking | .wHead | .wSemEnter | .wSemRet | .cPre | .cWait | .cPost
  | .wChk | .wChk2 | .wCmp | .wRel2 | .wTail => true
  | .spLd0 | .spLd2 | .spCas => x.cont == .waitChk
  | _ => false

/-- Program points after the loop of the wait. -/
def Loc.afterLoop : Loc → Bool
  | .wExit | .wLocking | .wRelocking | .wRet => true
  | _ => false

structure TInvB (s : State) (t : Tid) : Prop where
  /-- the remove_count handshake -/
  svQ : savedLoc (s.thr t) = true → (s.recs (s.thr t).r).stat = .queued → (s.recs (s.thr t).r).rc = (s.thr t).saved
  svX : savedLoc (s.thr t) = true → (s.recs (s.thr t).r).stat = .xfer ∨ (s.recs (s.thr t).r).stat = .woken →
    (s.thr t).saved < (s.recs (s.thr t).r).rc
  svL : savedLoc (s.thr t) = true → ∀ u, (s.recs (s.thr t).r).stat = .listed u →
    ((s.thr t).r ∈ (s.thr u).todo → (s.recs (s.thr t).r).rc = (s.thr t).saved) ∧
    ((s.thr t).r ∉ (s.thr u).todo → (s.thr t).saved < (s.recs (s.thr t).r).rc)
  /-- a self-removed record: where its owner is -/
  soLoc : waitLive (s.thr t) = true → (s.recs (s.thr t).r).stat = .selfOut →
    (s.thr t).loc = .wRmLd ∨ (s.thr t).loc = .wRmCas ∨ (s.thr t).loc = .wClr ∨ (s.thr t).loc = .wRel2 ∨
    (s.thr t).loc = .wTail ∨ (s.thr t).loc = .wHead
  soW : waitLive (s.thr t) = true → (s.recs (s.thr t).r).stat = .selfOut →
    (s.thr t).loc = .wRel2 ∨ (s.thr t).loc = .wTail ∨ (s.thr t).loc = .wHead → (s.recs (s.thr t).r).waiting = false
  /-- `outcome` -/
  out0 : (s.thr t).loc = .wNew ∨ waitPrep (s.thr t) = true ∨ (s.thr t).loc = .wEnq ∨ (s.thr t).loc = .wRel →
    (s.thr t).out = .ok
  outS : waitLive (s.thr t) = true → (s.thr t).out ≠ .ok →
    (s.recs (s.thr t).r).stat = .selfOut ∧
    ((s.thr t).loc = .wRel2 ∨ (s.thr t).loc = .wTail ∨ (s.thr t).loc = .wHead)
  outE : (s.thr t).loc.afterLoop = true → (s.thr t).out ≠ .ok → (s.thr t).exitUnl = [Unl.self]
  /-- wait_n: a record of the call that is self-removed is the one being dequeued -/
  mineS : ∀ q, q ∈ (s.thr t).mine → (s.recs q).stat = .selfOut →
    ((s.thr t).loc = .nDeqSt ∨ (s.thr t).loc = .nDeqRel) ∧ (s.thr t).r = q
  /-- the pending `remove_count++` of signal/broadcast -/
  todoL : ∀ r, r ∈ (s.thr t).todo → r ∈ (s.thr t).list ∧ r.isMucv = true
  todoNd : (s.thr t).todo.Nodup
  todoLoc : (s.thr t).todo ≠ [] → (s.thr t).loc = .sRcLd ∨ (s.thr t).loc = .sRcCas
  /-- wake_waiters looks at the mutex only if the first record is a pooled waiter -/
  wwHead : (s.thr t).loc = .wwMuLd ∨ (s.thr t).loc = .wwMuCas →
    ∃ f rest, (s.thr t).list = f :: rest ∧ f.isMucv = true
  /-- cv_dequeue stores `waiting := 0` only into a record it has itself removed from the queue -/
  deqS : (s.thr t).loc = .nDeqSt → (s.recs (s.thr t).r).stat = .selfOut

structure InvB (s : State) : Prop where
  /-- a record on a waker's list still has `waiting = 1` (every kind of record: the repaired
      cv_dequeue never clears the flag of a record that is not in the queue) -/
  lWait : ∀ r u, (s.recs r).stat = .listed u → (s.recs r).waiting = true
  wokenW : ∀ r, (s.recs r).stat = .woken → (s.recs r).waiting = false
  xferM : ∀ r, (s.recs r).stat = .xfer → r.isMucv = true
  unlQ : ∀ r, (s.recs r).stat = .queued ∨ (s.recs r).stat = .prep → (s.recs r).unl = []
  unlS : ∀ r, (s.recs r).stat = .selfOut → r.isMucv = true → (s.recs r).unl = [Unl.self]
  unl1 : ∀ r, r.isMucv = true → (s.recs r).unl.length ≤ 1
  thr : ∀ t, TInvB s t
  nobad : s.bad = false

theorem invB_init : InvB init := by
  constructor <;> simp [init]
  intro t
  constructor <;> simp [savedLoc, waitLive, waitPrep, Loc.afterLoop]

/-- What a non-acting thread needs from a transition. -/
theorem tinvB_other {s s' : State} {u : Tid} (h : TInvB s u) (ha : TInvA s u) (ht : s'.thr u = s.thr u)
    (htodo : ∀ v, (s'.thr v).todo = (s.thr v).todo)
    (hr : ∀ q, (s.recs q).owner = u → (s.recs q).stat ≠ .idle →
      (s'.recs q).stat = (s.recs q).stat ∧ (s'.recs q).rc = (s.recs q).rc ∧ (s'.recs q).waiting = (s.recs q).waiting) :
    TInvB s' u := by
  obtain ⟨b1, b2, b3, b4, b5, b6, b7, b8, b9, b10, b11, b12, b13, b14⟩ := h
  have hsaved_live : savedLoc (s.thr u) = true → waitLive (s.thr u) = true := by
    intro h; unfold savedLoc at h; unfold waitLive; split at h <;> simp_all
  have hrec : waitLive (s.thr u) = true →
      (s'.recs (s.thr u).r).stat = (s.recs (s.thr u).r).stat ∧ (s'.recs (s.thr u).r).rc = (s.recs (s.thr u).r).rc ∧
      (s'.recs (s.thr u).r).waiting = (s.recs (s.thr u).r).waiting := by
    intro hl
    obtain ⟨o, _, lv⟩ := ha.live hl
    exact hr _ o (by intro e; rw [e] at lv; simp [RStat.live] at lv)
  constructor <;> rw [ht]
  · intro h1; obtain ⟨e1, e2, e3⟩ := hrec (hsaved_live h1); rw [e1, e2]; exact b1 h1
  · intro h1; obtain ⟨e1, e2, e3⟩ := hrec (hsaved_live h1); rw [e1, e2]; exact b2 h1
  · intro h1 v; obtain ⟨e1, e2, e3⟩ := hrec (hsaved_live h1); rw [e1, e2, htodo v]; exact b3 h1 v
  · intro h1; obtain ⟨e1, e2, e3⟩ := hrec h1; rw [e1]; exact b4 h1
  · intro h1; obtain ⟨e1, e2, e3⟩ := hrec h1; rw [e1, e3]; exact b5 h1
  · exact b6
  · intro h1; obtain ⟨e1, e2, e3⟩ := hrec h1; rw [e1]; exact b7 h1
  · exact b8
  · intro q hq
    obtain ⟨_, o, ni, _⟩ := ha.mine q hq
    rw [(hr q o ni).1]; exact b9 q hq
  · exact b10
  · exact b11
  · exact b12
  · exact b13
  · intro h1
    obtain ⟨hm, _⟩ := ha.nDeq (.inl h1)
    obtain ⟨_, o, ni, _⟩ := ha.mine _ hm
    rw [(hr _ o ni).1]; exact b14 h1

end NsyncVerif.CvFix
