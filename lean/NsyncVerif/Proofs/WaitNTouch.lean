/-
  Proofs/WaitNTouch.lean — who can touch a waiter record: every accepted event that accesses
  `nw->waiting` of record r, or posts with `nw->sem` of r, is of one of five kinds.
-/
import NsyncVerif.Proofs.WaitNQInv

set_option linter.unusedSimpArgs false
set_option linter.unusedVariables false

namespace WaitN

/-- the kinds of accesses to record r by thread u -/
inductive TouchKind (s s' : State) (u : Tid) (e : Ev) (r : Rid) : Prop
  | init (i : Nat) (hpc : s.pc u = .wInit i) (ho : (s'.rcd r).owner = u)
  | own (hr : r ∈ (s.fr u).recs) (hc : inCall (s.pc u) = true) (hf : (s.fr u).frees = 0)
  | pop (o : ObjId) (hq : r ∈ (s.obj o).queue)
  | clear (c : Nat) (l : List Rid) (hwk : wk (s.pc u) = some (c, l)) (hp : s.post u = none) (hr : r ∈ l)
  | post (j : SemId) (he : e = .semV j) (hp : s.post u = some r) (hw : wk (s.pc u) = none)

theorem touches_semV {s : State} {u : Tid} {j : SemId} {r : Rid} (ht : touches s u (.semV j) r) :
    s.post u = some r ∧ wk (s.pc u) = none := by
  simp only [touches] at ht
  cases hp : s.pc u <;> rw [hp] at ht <;> first | exact ht.elim | exact ⟨ht, rfl⟩

theorem touches_cases {s : State} {u : Tid} {e : Ev} {r : Rid} (ht : touches s u e r) :
    (∃ o fn obs, e = .ld o (.waiting r) fn obs) ∨ (∃ o fn new obs, e = .st o (.waiting r) fn new obs)
    ∨ (∃ o fn exp new obs ok, e = .cas o (.waiting r) fn exp new obs ok) ∨ (∃ j, e = .semV j ∧ s.post u = some r) := by
  cases e with
  | ld o loc fn obs => cases loc <;> simp [touches] at ht; subst ht; exact .inl ⟨_, _, _, rfl⟩
  | st o loc fn new obs => cases loc <;> simp [touches] at ht; subst ht; exact .inr (.inl ⟨_, _, _, _, rfl⟩)
  | cas o loc fn exp new obs ok =>
    cases loc <;> simp [touches] at ht; subst ht; exact .inr (.inr (.inl ⟨_, _, _, _, _, _, rfl⟩))
  | semV j => exact .inr (.inr (.inr ⟨j, rfl, (touches_semV ht).1⟩))
  | _ => simp [touches] at ht

theorem dflt_touch {s s' : State} {u : Tid} {e : Ev} {r : Rid} (h : dflt s u e = .ok s')
    (ht : touches s u e r) : TouchKind s s' u e r := by
  rcases touches_cases ht with ⟨o, fn, obs, rfl⟩ | ⟨o, fn, new, obs, rfl⟩ | ⟨o, fn, exp, new, obs, ok, rfl⟩ | ⟨j, rfl, hp⟩
  · simp [dflt] at h
  · simp [dflt] at h
  · simp [dflt] at h
  · exact .post j rfl (touches_semV ht).1 (touches_semV ht).2

theorem proto_touch {s s' : State} {u : Tid} {e : Ev} {r : Rid} (h : proto s u e = .ok s')
    (ht : touches s u e r) : TouchKind s s' u e r := by
  unfold proto at h
  split at h
  all_goals try (simp [touches] at ht; done)
  · -- pop
    rename_i r' fn new obs
    simp only [touches] at ht
    subst ht
    dsimp only at h
    split at h
    · simp at h
    · rename_i hd tl hq
      split at h
      · rename_i hg
        exact .pop _ (by rw [hq, hg.1]; simp)
      · simp at h
  · -- semV
    exact .post _ rfl (touches_semV ht).1 (touches_semV ht).2
  · exact dflt_touch h ht

theorem stepOpen_touch {s s' : State} {u : Tid} {e : Ev} {r : Rid} (h : stepOpen s u e = .ok s')
    (ht : touches s u e r) : TouchKind s s' u e r := by
  unfold stepOpen at h
  split at h
  · split at h
    · simp [touches] at ht
    · exact dflt_touch h ht
  · split at h
    · simp [touches] at ht
    · exact dflt_touch h ht
  · exact proto_touch h ht

theorem spinAcq_touch {s s' : State} {u : Tid} {c : Nat} {st : SpinSt} {mk : SpinSt → PC} {done : PC} {e : Ev} {r : Rid}
    (h : spinAcq s u c st mk done e = .ok s') (ht : touches s u e r) : TouchKind s s' u e r := by
  unfold spinAcq at h
  split at h
  · simp [touches] at ht
  · simp [touches] at ht
  · exact dflt_touch h ht

set_option hygiene false in
macro "touch_leaf" : tactic =>
  `(tactic| first
    | exact dflt_touch h ht
    | exact stepOpen_touch h ht
    | exact spinAcq_touch h ht
    | (simp [touches] at ht; done)
    | (simp only [touches] at ht; subst ht
       have hg1 := (‹_ ∧ _› : _ ∧ _).1
       subst hg1
       exact .own (List.mem_of_getElem? ‹(s.fr u).recs[_]? = some _›) hc hf)
    | (simp only [touches] at ht; subst ht
       exact .own (List.mem_of_getElem? ‹(s.fr u).recs[_]? = some _›) hc hf))

theorem touch_stepThr {s s' : State} {u : Tid} {e : Ev} {r : Rid} (hl : LInv (s.pc u) (s.fr u))
    (h : stepThr s u e = .ok s') (ht : touches s u e r) : TouchKind s s' u e r := by
  unfold stepThr at h
  split at h <;> rename_i hpc
  · -- idle
    unfold stepIdle at h
    split_ok h <;> touch_leaf
  · simp at h
  · -- sg
    unfold stepSg at h
    split at h
    · split_ok h <;> touch_leaf
    · exact spinAcq_touch h ht
    · split_ok h <;> touch_leaf
    · -- wake
      rename_i l
      split at h
      · simp only [touches] at ht
        subst ht
        split at h
        · rename_i hg
          exact .clear _ _ (by rw [hpc]; rfl) ‹s.post u = none› (by rw [hg.1]; simp)
        · simp at h
      · have := (touches_semV ht).2; rw [hpc] at this; simp [wk] at this
      · have := (touches_semV ht).2; rw [hpc] at this; simp [wk] at this
      · exact dflt_touch h ht
    · split_ok h <;> touch_leaf
  · -- wCtrRT
    unfold stepCtrRT at h
    split_ok h <;> first | touch_leaf | (have := shared_rtDone h; simp [touches] at ht; done)
  · -- wND
    unfold stepND at h
    split_ok h <;> first | touch_leaf | (simp [touches] at ht; done)
  · -- wEnqCv
    have hc : inCall (s.pc u) = true := by rw [hpc]; rfl
    have hf : (s.fr u).frees = 0 := (hpc ▸ hl : LInv (.wEnqCv _ _) _).1.frees
    unfold stepEnqCv at h
    split_ok h <;> touch_leaf
  · -- wEnq
    have hc : inCall (s.pc u) = true := by rw [hpc]; rfl
    have hf : (s.fr u).frees = 0 := (hpc ▸ hl : LInv (.wEnq _ _) _).1.frees
    unfold stepEnq at h
    split_ok h <;> touch_leaf
  · -- wDeqCv
    have hc : inCall (s.pc u) = true := by rw [hpc]; rfl
    have hf : (s.fr u).frees = 0 := (hpc ▸ hl : LInv (.wDeqCv _ _) _).1.frees
    unfold stepDeqCv at h
    split_ok h <;> touch_leaf
  · -- wDeq
    have hc : inCall (s.pc u) = true := by rw [hpc]; rfl
    have hf : (s.fr u).frees = 0 := (hpc ▸ hl : LInv (.wDeq _ _) _).1.frees
    unfold stepDeq at h
    split_ok h <;> touch_leaf
  · unfold stepAlloc at h; split_ok h <;> touch_leaf
  · -- wInit
    rename_i i
    unfold stepInit at h
    dsimp only at h
    split at h
    · rename_i r' new obs oid hoid
      simp only [touches] at ht
      subst ht
      split at h
      · cases h
        refine .init i hpc ?_
        simp
      · simp at h
    · exact dflt_touch h ht
  · unfold stepUnlockMu at h; split_ok h <;> touch_leaf
  · -- wCvRT
    have hc : inCall (s.pc u) = true := by rw [hpc]; rfl
    have hf : (s.fr u).frees = 0 := (hpc ▸ hl : LInv (.wCvRT _) _).1.frees
    unfold stepCvRT at h
    split_ok h <;> touch_leaf
  · unfold stepPdEnter at h; split_ok h <;> touch_leaf
  · unfold stepPdWait at h; split_ok h <;> touch_leaf
  · unfold stepFree at h; split_ok h <;> touch_leaf
  · unfold stepRelock at h; split_ok h <;> touch_leaf
  · unfold stepRet at h; split_ok h <;> touch_leaf

end WaitN
